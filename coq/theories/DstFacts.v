(* DstFacts.v — proofs about Dst.v (property C20).

   1. candidates (Time.v) lists exactly the instants with the given local time, strictly ascending.
   2. For every table with [wf_dst z = true]: a local time of a day of [year] that is not shown by
      exactly one instant lies in one of the intervals of [affected z year]  (the mathematical heart:
      the local-time images of the constant-offset segments tile the line up to the gap / overlap of
      each single transition).
   3. The globals reachable by any sequence of check_dst_handling calls; what an accepting call implies.
   4. accept_sound_by_sweep: the executable interval-endpoint check [dst_sweep] lifts to all times of day
      and all days of the year.                                                                       *)
From EAS Require Import Base Civil Time Replace Dst.

(* ------------------------------------------------------------------------------------------- *)
(* 1. sort_uniq / candidates *)

Lemma insert_uniq_In : forall x y l, In y (insert_uniq x l) <-> y = x \/ In y l.
Proof.
  intros x y l. induction l as [|a t IH]; cbn [insert_uniq].
  - cbn [In]. intuition.
  - destruct (x <? a) eqn:E1.
    + cbn [In]. intuition.
    + destruct (x =? a) eqn:E2.
      * apply Z.eqb_eq in E2. subst a. cbn [In]. intuition.
      * cbn [In]. rewrite IH. intuition.
Qed.

Lemma sort_uniq_In : forall y l, In y (sort_uniq l) <-> In y l.
Proof.
  intros y l. unfold sort_uniq. induction l as [|a t IH]; cbn [fold_right In].
  - tauto.
  - rewrite insert_uniq_In, IH. intuition.
Qed.

Fixpoint asc (prev : Z) (l : list Z) : Prop :=
  match l with [] => True | x :: r => prev < x /\ asc x r end.
Definition sorted (l : list Z) : Prop := match l with [] => True | x :: r => asc x r end.

Lemma insert_uniq_asc : forall x l prev, prev < x -> asc prev l -> asc prev (insert_uniq x l).
Proof.
  intros x l. induction l as [|a t IH]; intros prev Hp Ha; cbn [insert_uniq].
  - cbn [asc]. auto.
  - cbn [asc] in Ha. destruct Ha as [Ha1 Ha2].
    destruct (x <? a) eqn:E1.
    + apply Z.ltb_lt in E1. cbn [asc]. auto.
    + destruct (x =? a) eqn:E2.
      * cbn [asc]. auto.
      * apply Z.ltb_ge in E1. apply Z.eqb_neq in E2. cbn [asc]. split; [exact Ha1|].
        apply IH; [lia|exact Ha2].
Qed.

Lemma insert_uniq_sorted : forall x l, sorted l -> sorted (insert_uniq x l).
Proof.
  intros x l Hs. destruct l as [|a t]; cbn [insert_uniq].
  - exact I.
  - cbn [sorted] in Hs. destruct (x <? a) eqn:E1.
    + apply Z.ltb_lt in E1. cbn [sorted asc]. auto.
    + destruct (x =? a) eqn:E2.
      * exact Hs.
      * apply Z.ltb_ge in E1. apply Z.eqb_neq in E2. cbn [sorted].
        apply insert_uniq_asc; [lia|exact Hs].
Qed.

Lemma sort_uniq_sorted : forall l, sorted (sort_uniq l).
Proof.
  intros l. unfold sort_uniq. induction l as [|a t IH]; cbn [fold_right].
  - exact I.
  - apply insert_uniq_sorted. exact IH.
Qed.

Lemma offset_from_In : forall l cur i, In (offset_from cur l i) (cur :: map snd l).
Proof.
  intros l. induction l as [|[t o] r IH]; intros cur i; cbn [offset_from map snd].
  - left. reflexivity.
  - destruct (i <? t).
    + left. reflexivity.
    + right. apply IH.
Qed.

Theorem candidates_spec : forall z l i, In i (candidates z l) <-> to_local z i = l.
Proof.
  intros z l i. unfold candidates. rewrite sort_uniq_In, filter_In, in_map_iff. split.
  - intros [_ H]. apply Z.eqb_eq in H. exact H.
  - intros H. split.
    + exists (offset_at z i). split.
      * unfold to_local in H. lia.
      * apply sort_uniq_In. unfold offsets, offset_at. apply offset_from_In.
    + apply Z.eqb_eq. exact H.
Qed.

Lemma candidates_sorted : forall z l, sorted (candidates z l).
Proof. intros z l. unfold candidates. apply sort_uniq_sorted. Qed.

(* ------------------------------------------------------------------------------------------- *)
(* 2. the tiling of the local time line *)

Lemma spaced_list_tail : forall t o r, spaced_list ((t, o) :: r) = true ->
  spaced_list r = true /\ match r with [] => True | (t', _) :: _ => t + 2 * DAY <= t' end.
Proof.
  intros t o r H. cbn [spaced_list] in H. destruct r as [|[t' o'] r'].
  - split; [reflexivity|exact I].
  - cbn [spaced] in H. apply andb_true_iff in H. destruct H as [H1 H2]. apply Z.leb_le in H1.
    split; [exact H2|exact H1].
Qed.

(* a local time at or after the image of the first segment is shown by some instant, or lies in a gap *)
Lemma shown_or_gap : forall trans cur lb l,
  spaced_list trans = true ->
  match trans with [] => True | (t, _) :: _ => lb <= t end ->
  lb + cur * NS <= l ->
  (exists i, lb <= i /\ i + offset_from cur trans i * NS = l) \/
  (exists t ob oa, In (t, ob, oa) (with_prev cur trans) /\ t + ob * NS <= l < t + oa * NS).
Proof.
  intros trans. induction trans as [|[t o] r IH]; intros cur lb l Hsp Hlb Hl.
  - left. exists (l - cur * NS). cbn [offset_from]. lia.
  - destruct (spaced_list_tail t o r Hsp) as [Hsp' Hnext].
    assert (HD : 0 < DAY) by (unfold DAY, NS; lia).
    destruct (Z_lt_le_dec l (t + cur * NS)) as [Hlt|Hge].
    + left. exists (l - cur * NS). split; [lia|].
      cbn [offset_from]. assert (E : l - cur * NS <? t = true) by (apply Z.ltb_lt; lia).
      rewrite E. lia.
    + destruct (Z_lt_le_dec l (t + o * NS)) as [Hgap|Hge2].
      * right. exists t, cur, o. split; [cbn [with_prev]; left; reflexivity|lia].
      * assert (Hnext' : match r with [] => True | (t', _) :: _ => t <= t' end).
        { destruct r as [|[t' o'] r']; [exact I|lia]. }
        destruct (IH o t l Hsp' Hnext' Hge2) as [[i [Hi1 Hi2]]|[t1 [ob [oa [Hin Hr]]]]].
        -- left. exists i. split; [lia|]. cbn [offset_from].
           assert (E : i <? t = false) by (apply Z.ltb_ge; lia). rewrite E. exact Hi2.
        -- right. exists t1, ob, oa. split; [cbn [with_prev]; right; exact Hin|exact Hr].
Qed.

Definition offs_ok (l : list Z) : Prop := forall o, In o l -> -86400 < o < 86400.

(* two different instants with the same local time: the local time lies in the overlap of ONE transition *)
Lemma two_shown_overlap : forall trans cur i j l,
  spaced_list trans = true -> offs_ok (cur :: map snd trans) ->
  i < j ->
  i + offset_from cur trans i * NS = l ->
  j + offset_from cur trans j * NS = l ->
  exists t ob oa, In (t, ob, oa) (with_prev cur trans) /\ t + oa * NS <= l < t + ob * NS.
Proof.
  intros trans. induction trans as [|[t o] r IH]; intros cur i j l Hsp Hok Hij Hi Hj.
  - cbn [offset_from] in Hi, Hj. lia.
  - destruct (spaced_list_tail t o r Hsp) as [Hsp' Hnext].
    assert (Hok' : offs_ok (o :: map snd r)).
    { intros x Hx. apply Hok. cbn [map snd]. right. exact Hx. }
    cbn [offset_from] in Hi, Hj.
    destruct (i <? t) eqn:Ei; destruct (j <? t) eqn:Ej.
    + lia.
    + apply Z.ltb_lt in Ei. apply Z.ltb_ge in Ej.
      (* j still lies before the next transition *)
      assert (Hcur : -86400 < cur < 86400) by (apply Hok; left; reflexivity).
      assert (Hoj : -86400 < offset_from o r j < 86400) by (apply Hok'; apply offset_from_In).
      assert (Eo : offset_from o r j = o).
      { destruct r as [|[t' o'] r']; [reflexivity|].
        cbn [offset_from]. destruct (j <? t') eqn:Ej'; [reflexivity|].
        apply Z.ltb_ge in Ej'. exfalso.
        cbn [offset_from] in Hoj, Hj. assert (E : j <? t' = false) by (apply Z.ltb_ge; lia).
        rewrite E in Hoj, Hj. unfold DAY, NS in *. lia. }
      rewrite Eo in Hj. exists t, cur, o. split; [cbn [with_prev]; left; reflexivity|lia].
    + apply Z.ltb_ge in Ei. apply Z.ltb_lt in Ej. lia.
    + destruct (IH o i j l Hsp' Hok' Hij Hi Hj) as [t1 [ob [oa [Hin Hr]]]].
      exists t1, ob, oa. split; [cbn [with_prev]; right; exact Hin|exact Hr].
Qed.

(* cutting a local interval of at most one day at midnight *)
Lemma pieces_cover : forall a b l day tod,
  a <= l < b -> b - a <= DAY -> l = day * DAY + tod -> 0 <= tod < DAY ->
  exists lo hi, In (day, lo, hi) (pieces a b) /\ lo <= tod < hi.
Proof.
  intros a b l day tod Hl Hlen El Htod. unfold pieces.
  assert (E : a <? b = true) by (apply Z.ltb_lt; lia). rewrite E.
  remember (a / DAY) as d eqn:Ed.
  assert (Hd : d * DAY <= a < (d + 1) * DAY).
  { subst d. unfold DAY, NS. lia. }
  destruct (b <=? (d + 1) * DAY) eqn:Eb.
  - apply Z.leb_le in Eb. assert (day = d) by (unfold DAY, NS in *; lia). subst day.
    exists (a - d * DAY), (b - d * DAY). split; [left; reflexivity|lia].
  - apply Z.leb_gt in Eb. destruct (Z_lt_le_dec l ((d + 1) * DAY)) as [H1|H1].
    + assert (day = d) by (unfold DAY, NS in *; lia). subst day.
      exists (a - d * DAY), DAY. split; [left; reflexivity|lia].
    + assert (day = d + 1) by (unfold DAY, NS in *; lia). subst day.
      exists 0, (b - (d + 1) * DAY). split; [right; left; reflexivity|lia].
Qed.

Lemma wf_dst_parts : forall z, wf_dst z = true ->
  spaced_list (tz_trans z) = true /\ offs_ok (offsets z) /\
  (forall t ob oa, In (t, ob, oa) (with_prev (tz_init z) (tz_trans z)) -> Z.abs (oa - ob) <= 7200).
Proof.
  intros z H. unfold wf_dst in H. apply andb_true_iff in H. destruct H as [H H3].
  apply andb_true_iff in H. destruct H as [H1 H2]. split; [exact H1|]. split.
  - intros o Ho. rewrite forallb_forall in H2. specialize (H2 o Ho). unfold off_ok in H2.
    apply andb_true_iff in H2. destruct H2 as [Ha Hb]. apply Z.ltb_lt in Ha. apply Z.ltb_lt in Hb. lia.
  - intros t ob oa Hin. rewrite forallb_forall in H3. specialize (H3 _ Hin). cbn in H3.
    apply Z.leb_le in H3. exact H3.
Qed.

Lemma in_affected : forall z year t ob oa k a b day lo hi,
  In (t, ob, oa) (with_prev (tz_init z) (tz_trans z)) ->
  tr_interval (t, ob, oa) = (k, a, b) ->
  In (day, lo, hi) (pieces a b) -> in_year year day ->
  In (k, lo, hi) (affected z year).
Proof.
  intros z year t ob oa k a b day lo hi Hin Htr Hp Hy. unfold affected. apply in_flat_map.
  exists (t, ob, oa). split; [exact Hin|]. unfold affected_of. rewrite Htr.
  apply in_map_iff. exists (day, lo, hi). split; [reflexivity|].
  apply filter_In. split; [exact Hp|]. cbn [fst]. apply Z.eqb_eq. exact Hy.
Qed.

(* the heart: not shown exactly once  =>  inside an affected interval of the right kind *)
Theorem skipped_is_affected : forall z year day tod,
  wf_dst z = true -> 0 <= tod < DAY -> in_year year day ->
  candidates z (day * DAY + tod) = [] ->
  exists lo hi, In (true, lo, hi) (affected z year) /\ lo <= tod < hi.
Proof.
  intros z year day tod Hwf Htod Hy Hc.
  destruct (wf_dst_parts z Hwf) as [Hsp [Hok Hch]].
  set (l := day * DAY + tod) in *.
  set (lb := match tz_trans z with [] => l - tz_init z * NS | (t, _) :: _ => Z.min t (l - tz_init z * NS) end).
  assert (H1 : match tz_trans z with [] => True | (t, _) :: _ => lb <= t end).
  { unfold lb. destruct (tz_trans z) as [|[t o] r]; [exact I|lia]. }
  assert (H2 : lb + tz_init z * NS <= l).
  { unfold lb. destruct (tz_trans z) as [|[t o] r]; lia. }
  destruct (shown_or_gap (tz_trans z) (tz_init z) lb l Hsp H1 H2) as [[i [_ Hi]]|[t [ob [oa [Hin Hr]]]]].
  - exfalso. assert (Hin : In i (candidates z l)) by (apply candidates_spec; exact Hi).
    rewrite Hc in Hin. exact Hin.
  - specialize (Hch t ob oa Hin).
    assert (Htr : tr_interval (t, ob, oa) = (true, t + ob * NS, t + oa * NS)).
    { unfold tr_interval. assert (E : ob <? oa = true) by (apply Z.ltb_lt; unfold NS in *; lia).
      rewrite E. reflexivity. }
    assert (Hlen : (t + oa * NS) - (t + ob * NS) <= DAY) by (unfold DAY, NS in *; lia).
    destruct (pieces_cover _ _ l day tod Hr Hlen eq_refl Htod) as [lo [hi [Hp Hb]]].
    exists lo, hi. split; [|exact Hb].
    exact (in_affected z year t ob oa true _ _ day lo hi Hin Htr Hp Hy).
Qed.

Theorem repeated_is_affected : forall z year day tod a b r,
  wf_dst z = true -> 0 <= tod < DAY -> in_year year day ->
  candidates z (day * DAY + tod) = a :: b :: r ->
  exists lo hi, In (false, lo, hi) (affected z year) /\ lo <= tod < hi.
Proof.
  intros z year day tod a b r Hwf Htod Hy Hc.
  destruct (wf_dst_parts z Hwf) as [Hsp [Hok Hch]].
  set (l := day * DAY + tod) in *.
  assert (Hs := candidates_sorted z l). rewrite Hc in Hs. cbn [sorted asc] in Hs. destruct Hs as [Hab _].
  assert (Ha : to_local z a = l) by (apply candidates_spec; rewrite Hc; left; reflexivity).
  assert (Hb : to_local z b = l) by (apply candidates_spec; rewrite Hc; right; left; reflexivity).
  unfold to_local, offset_at in Ha, Hb.
  destruct (two_shown_overlap (tz_trans z) (tz_init z) a b l Hsp Hok Hab Ha Hb) as [t [ob [oa [Hin Hr]]]].
  specialize (Hch t ob oa Hin).
  assert (Htr : tr_interval (t, ob, oa) = (false, t + oa * NS, t + ob * NS)).
  { unfold tr_interval. assert (E : ob <? oa = false) by (apply Z.ltb_ge; unfold NS in *; lia).
    rewrite E. reflexivity. }
  assert (Hlen : (t + ob * NS) - (t + oa * NS) <= DAY) by (unfold DAY, NS in *; lia).
  destruct (pieces_cover _ _ l day tod Hr Hlen eq_refl Htod) as [lo [hi [Hp Hbd]]].
  exists lo, hi. split; [|exact Hbd].
  exact (in_affected z year t ob oa false _ _ day lo hi Hin Htr Hp Hy).
Qed.

(* ------------------------------------------------------------------------------------------- *)
(* 3. the module globals over any sequence of calls *)

Theorem both_given_verbatim : forall z year g t f b,
  check_dst_handling z year g t (Some f) (Some b) = (g, Ok (f, b)).
Proof. intros. reflexivity. Qed.

Inductive reachable (z : tz) (year : Z) : globals -> Prop :=
  | reach_fresh : reachable z year g0
  | reach_call : forall g t f b, reachable z year g ->
                 reachable z year (fst (check_dst_handling z year g t f b)).

Definition both_set (g : globals) : Prop := exists F B, g = {| g_fwd := Some F; g_bwd := Some B |}.
Definition not_ok {A} (r : result A) : Prop := forall a, r <> Ok a.

(* a state in which _setup fails again and changes nothing *)
Definition stuck (z : tz) (year : Z) (g : globals) : Prop :=
  ~ both_set g /\ exists r, setup z year g = (g, r) /\ not_ok r.

Definition ginv (z : tz) (year : Z) (g : globals) : Prop :=
  g = g0 \/ (both_set g /\ exists u, setup0 z year = (g, Ok u)) \/ stuck z year g.

Lemma not_both_fwd : forall b, ~ both_set {| g_fwd := None; g_bwd := b |}.
Proof. intros b [F [B H]]. discriminate H. Qed.
Lemma not_both_bwd : forall f, ~ both_set {| g_fwd := f; g_bwd := None |}.
Proof. intros f [F [B H]]. discriminate H. Qed.

(* what _setup does from the fresh module *)
Lemma setup0_cases : forall z year g r, setup0 z year = (g, r) ->
  (exists u, r = Ok u /\ both_set g) \/ (not_ok r /\ (g = g0 \/ stuck z year g)).
Proof.
  intros z year g r H. unfold setup0, setup, setup_round in H.
  destruct (find_time_y z year false) as [[| |f1 lo1 up1]|e1|] eqn:E1.
  - inversion H; subst. left. exists tt. split; [reflexivity|]. exists (RBool false), (RBool false). reflexivity.
  - inversion H; subst. left. exists tt. split; [reflexivity|]. exists (RBool true), (RBool true). reflexivity.
  - destruct f1; cbn [apply_found g0 g_fwd g_bwd] in H.
    + (* forward found first *)
      destruct (find_time_y z year true) as [[| |f2 lo2 up2]|e2|] eqn:E2.
      * inversion H; subst. left. exists tt. split; [reflexivity|]. exists (RBool false), (RBool false). reflexivity.
      * inversion H; subst. left. exists tt. split; [reflexivity|]. exists (RBool true), (RBool true). reflexivity.
      * destruct f2; cbn [apply_found g_fwd g_bwd] in H; inversion H; subst.
        -- right. split; [intros a Ha; discriminate Ha|]. right. split; [apply not_both_bwd|].
           exists (Raise EValueError). split; [|intros a Ha; discriminate Ha].
           unfold setup, setup_round. rewrite E1. reflexivity.
        -- left. exists tt. split; [reflexivity|]. eexists. eexists. reflexivity.
      * inversion H; subst. right. split; [intros a Ha; discriminate Ha|]. right. split; [apply not_both_bwd|].
        exists (Raise EValueError). split; [|intros a Ha; discriminate Ha].
        unfold setup, setup_round. rewrite E1. reflexivity.
      * inversion H; subst. right. split; [intros a Ha; discriminate Ha|]. right. split; [apply not_both_bwd|].
        exists (Raise EValueError). split; [|intros a Ha; discriminate Ha].
        unfold setup, setup_round. rewrite E1. reflexivity.
    + (* backward found first *)
      destruct (find_time_y z year true) as [[| |f2 lo2 up2]|e2|] eqn:E2.
      * inversion H; subst. left. exists tt. split; [reflexivity|]. exists (RBool false), (RBool false). reflexivity.
      * inversion H; subst. left. exists tt. split; [reflexivity|]. exists (RBool true), (RBool true). reflexivity.
      * destruct f2; cbn [apply_found g_fwd g_bwd] in H; inversion H; subst.
        -- left. exists tt. split; [reflexivity|]. eexists. eexists. reflexivity.
        -- right. split; [intros a Ha; discriminate Ha|]. right. split; [apply not_both_fwd|].
           exists (Raise EValueError). split; [|intros a Ha; discriminate Ha].
           unfold setup, setup_round. rewrite E1. reflexivity.
      * inversion H; subst. right. split; [intros a Ha; discriminate Ha|]. right. split; [apply not_both_fwd|].
        exists (Raise EValueError). split; [|intros a Ha; discriminate Ha].
        unfold setup, setup_round. rewrite E1. reflexivity.
      * inversion H; subst. right. split; [intros a Ha; discriminate Ha|]. right. split; [apply not_both_fwd|].
        exists (Raise EValueError). split; [|intros a Ha; discriminate Ha].
        unfold setup, setup_round. rewrite E1. reflexivity.
  - inversion H; subst. right. split; [intros a Ha; discriminate Ha|]. left. reflexivity.
  - inversion H; subst. right. split; [intros a Ha; discriminate Ha|]. left. reflexivity.
Qed.

Lemma ensure_both : forall z year g, both_set g -> ensure_setup z year g = (g, Ok tt).
Proof. intros z year g [F [B H]]. subst g. reflexivity. Qed.

Lemma ensure_not_both : forall z year g, ~ both_set g -> ensure_setup z year g = setup z year g.
Proof.
  intros z year [f b] H. unfold ensure_setup. cbn [g_fwd g_bwd].
  destruct f as [F|]; [|reflexivity]. destruct b as [B|]; [|reflexivity].
  exfalso. apply H. exists F, B. reflexivity.
Qed.

(* the state after the set-up step of a call, and whether the call may go on *)
Lemma ensure_ginv : forall z year g g1 r, ginv z year g -> ensure_setup z year g = (g1, r) ->
  ginv z year g1 /\
  ((exists u, r = Ok u) -> both_set g1 /\ exists u, setup0 z year = (g1, Ok u)).
Proof.
  intros z year g g1 r Hinv He. destruct Hinv as [H0|[[Hb [u Hu]]|[Hnb [r' [Hs Hn]]]]].
  - subst g. rewrite ensure_not_both in He by apply not_both_fwd.
    destruct (setup0_cases z year g1 r He) as [[u [Hr Hb]]|[Hn Hg]].
    + subst r. split.
      * right. left. split; [exact Hb|]. exists u. exact He.
      * intros _. split; [exact Hb|]. exists u. exact He.
    + split.
      * destruct Hg as [Hg|Hg]; [left; exact Hg|right; right; exact Hg].
      * intros [u Hu]. exfalso. exact (Hn u Hu).
  - rewrite (ensure_both z year g Hb) in He. inversion He; subst. split.
    + right. left. split; [exact Hb|]. exists u. exact Hu.
    + intros _. split; [exact Hb|]. exists u. exact Hu.
  - rewrite (ensure_not_both z year g Hnb), Hs in He. inversion He; subst. split.
    + right. right. split; [exact Hnb|]. exists r. split; [exact Hs|exact Hn].
    + intros [u Hu]. exfalso. exact (Hn u Hu).
Qed.

Lemma check_ginv : forall z year g t f b, ginv z year g ->
  ginv z year (fst (check_dst_handling z year g t f b)).
Proof.
  intros z year g t f b Hinv. unfold check_dst_handling.
  destruct (ensure_setup z year g) as [g1 r] eqn:He.
  destruct (ensure_ginv z year g g1 r Hinv He) as [H1 _].
  destruct f as [sf|]; destruct b as [sb|]; try exact Hinv; destruct r; exact H1.
Qed.

Lemma reachable_ginv : forall z year g, reachable z year g -> ginv z year g.
Proof.
  intros z year g H. induction H as [|g t f b _ IH].
  - left. reflexivity.
  - apply check_ginv. exact IH.
Qed.

(* an accepting call went through [decide] on the globals left by the first _setup *)
Lemma check_ok_decide : forall z year g t f b g' r,
  ginv z year g -> (f = None \/ b = None) ->
  check_dst_handling z year g t f b = (g', Ok r) ->
  exists F B u, setup0 z year = ({| g_fwd := Some F; g_bwd := Some B |}, Ok u) /\
                decide {| g_fwd := Some F; g_bwd := Some B |} t f b = Ok r.
Proof.
  intros z year g t f b g' r Hinv Hnone H. unfold check_dst_handling in H.
  destruct (ensure_setup z year g) as [g1 r1] eqn:He.
  destruct (ensure_ginv z year g g1 r1 Hinv He) as [_ H2].
  assert (Hgo : (g1, match r1 with Ok _ => decide g1 t f b | Raise e => Raise e | OutOfFuel => OutOfFuel end)
                = (g', Ok r)).
  { destruct f as [sf|]; destruct b as [sb|].
    - destruct Hnone as [Hx|Hx]; discriminate Hx.
    - destruct r1; exact H.
    - destruct r1; exact H.
    - destruct r1; exact H. }
  destruct r1 as [u| |]; [|inversion Hgo|inversion Hgo].
  destruct (H2 (ex_intro _ u eq_refl)) as [[F [B Hb]] [u' Hu]]. subst g1.
  inversion Hgo as [[Hg Hd]]. exists F, B, u'. split; [exact Hu|reflexivity].
Qed.

(* ------------------------------------------------------------------------------------------- *)
(* 4. soundness of acceptance, lifted from the executable sweep *)

Definition accepted (z : tz) (year tod : Z) : Prop :=
  exists g, reachable z year g /\ exists g' r, check_dst_handling z year g tod None None = (g', Ok r).
Definition accepted_fwd_given (z : tz) (year tod : Z) : Prop :=
  exists g sf, reachable z year g /\ exists g' r, check_dst_handling z year g tod (Some sf) None = (g', Ok r).
Definition accepted_bwd_given (z : tz) (year tod : Z) : Prop :=
  exists g sb, reachable z year g /\ exists g' r, check_dst_handling z year g tod None (Some sb) = (g', Ok r).

Lemma covers_required : forall r lo hi tod, covers r lo hi = true -> lo <= tod < hi -> required r tod = true.
Proof.
  intros r lo hi tod Hc Ht. destruct r as [b|l u]; cbn [covers required] in *.
  - exact Hc.
  - apply andb_true_iff in Hc. destruct Hc as [H1 H2]. apply Z.leb_le in H1. apply Z.leb_le in H2.
    apply andb_true_iff. split; apply Z.leb_le; lia.
Qed.

Lemma sweep_each_sweep : forall z year, dst_sweep_each z year = true -> dst_sweep z year = true.
Proof.
  intros z year H. unfold dst_sweep_each in H. unfold dst_sweep.
  apply andb_true_iff in H. destruct H as [Hwf H]. apply andb_true_iff. split; [exact Hwf|].
  destruct (setup0 z year) as [g r]. destruct r as [u| |]; try reflexivity.
  destruct (g_fwd g) as [F|]; try reflexivity. destruct (g_bwd g) as [B|]; try reflexivity.
  apply forallb_forall. intros iv Hiv. unfold affected_times in Hiv. apply in_map_iff in Hiv.
  destruct Hiv as [[[k lo] hi] [Heq Hin]]. subst iv. cbn [fst snd].
  rewrite forallb_forall in H. specialize (H _ Hin). cbn in H.
  destruct k; rewrite H; [reflexivity|apply orb_true_r].
Qed.

Lemma sweep_covered : forall z year F B u k lo hi,
  dst_sweep z year = true ->
  setup0 z year = ({| g_fwd := Some F; g_bwd := Some B |}, Ok u) ->
  In (k, lo, hi) (affected z year) ->
  covers F lo hi = true \/ covers B lo hi = true.
Proof.
  intros z year F B u k lo hi Hs Hset Hin. unfold dst_sweep in Hs. apply andb_true_iff in Hs.
  destruct Hs as [_ Hs]. rewrite Hset in Hs. cbn [g_fwd g_bwd] in Hs.
  rewrite forallb_forall in Hs.
  assert (Hiv : In (lo, hi) (affected_times z year)).
  { unfold affected_times. apply in_map_iff. exists (k, lo, hi). split; [reflexivity|exact Hin]. }
  specialize (Hs _ Hiv). cbn [fst snd] in Hs. apply orb_true_iff in Hs. exact Hs.
Qed.

Lemma sweep_each_covered : forall z year F B u k lo hi,
  dst_sweep_each z year = true ->
  setup0 z year = ({| g_fwd := Some F; g_bwd := Some B |}, Ok u) ->
  In (k, lo, hi) (affected z year) ->
  (if k then covers F lo hi else covers B lo hi) = true.
Proof.
  intros z year F B u k lo hi Hs Hset Hin. unfold dst_sweep_each in Hs. apply andb_true_iff in Hs.
  destruct Hs as [_ Hs]. rewrite Hset in Hs. cbn [g_fwd g_bwd] in Hs.
  rewrite forallb_forall in Hs. specialize (Hs _ Hin). cbn in Hs. exact Hs.
Qed.

Lemma sweep_wf : forall z year, dst_sweep z year = true -> wf_dst z = true.
Proof. intros z year H. unfold dst_sweep in H. apply andb_true_iff in H. tauto. Qed.

(* what [decide] accepting means *)
Lemma decide_none_none : forall F B t r,
  decide {| g_fwd := Some F; g_bwd := Some B |} t None None = Ok r ->
  required F t = false /\ required B t = false /\ r = (SkAfter, RpEarlier).
Proof.
  intros F B t r H. unfold decide in H. cbn [g_fwd g_bwd] in H.
  destruct (required F t); [discriminate H|]. destruct (required B t); [discriminate H|].
  inversion H. auto.
Qed.
Lemma decide_some_none : forall F B t sf r,
  decide {| g_fwd := Some F; g_bwd := Some B |} t (Some sf) None = Ok r ->
  required B t = false /\ r = (sf, RpEarlier).
Proof.
  intros F B t sf r H. unfold decide in H. cbn [g_fwd g_bwd] in H.
  destruct (required B t); [discriminate H|]. inversion H. auto.
Qed.
Lemma decide_none_some : forall F B t sb r,
  decide {| g_fwd := Some F; g_bwd := Some B |} t None (Some sb) = Ok r ->
  required F t = false /\ r = (SkAfter, sb).
Proof.
  intros F B t sb r H. unfold decide in H. cbn [g_fwd g_bwd] in H.
  destruct (required F t); [discriminate H|]. inversion H. auto.
Qed.

Theorem accept_sound_by_sweep : forall z year,
  dst_sweep z year = true ->
  forall tod, 0 <= tod < DAY -> accepted z year tod ->
  forall day, in_year year day -> exists i, candidates z (day * DAY + tod) = [i].
Proof.
  intros z year Hs tod Htod [g [Hr [g' [r Hc]]]] day Hy.
  assert (Hwf := sweep_wf z year Hs).
  destruct (check_ok_decide z year g tod None None g' r (reachable_ginv z year g Hr) (or_introl eq_refl) Hc)
    as [F [B [u [Hset Hd]]]].
  destruct (decide_none_none F B tod r Hd) as [HF [HB _]].
  destruct (candidates z (day * DAY + tod)) as [|a [|b rest]] eqn:Ec.
  - exfalso. destruct (skipped_is_affected z year day tod Hwf Htod Hy Ec) as [lo [hi [Hin Hb]]].
    destruct (sweep_covered z year F B u true lo hi Hs Hset Hin) as [Hcv|Hcv];
      apply (covers_required _ lo hi tod) in Hcv; try exact Hb; congruence.
  - exists a. reflexivity.
  - exfalso. destruct (repeated_is_affected z year day tod a b rest Hwf Htod Hy Ec) as [lo [hi [Hin Hb]]].
    destruct (sweep_covered z year F B u false lo hi Hs Hset Hin) as [Hcv|Hcv];
      apply (covers_required _ lo hi tod) in Hcv; try exact Hb; congruence.
Qed.

(* only clock_forward given: the time is never repeated; only clock_backward given: never skipped *)
Theorem accept_sound_each : forall z year,
  dst_sweep_each z year = true ->
  forall tod, 0 <= tod < DAY ->
  (accepted_fwd_given z year tod ->
     forall day, in_year year day -> (length (candidates z (day * DAY + tod)) <= 1)%nat) /\
  (accepted_bwd_given z year tod ->
     forall day, in_year year day -> candidates z (day * DAY + tod) <> []).
Proof.
  intros z year Hs tod Htod.
  assert (Hwf := sweep_wf z year (sweep_each_sweep z year Hs)). split.
  - intros [g [sf [Hr [g' [r Hc]]]]] day Hy.
    destruct (check_ok_decide z year g tod (Some sf) None g' r (reachable_ginv z year g Hr) (or_intror eq_refl) Hc)
      as [F [B [u [Hset Hd]]]].
    destruct (decide_some_none F B tod sf r Hd) as [HB _].
    destruct (candidates z (day * DAY + tod)) as [|a [|b rest]] eqn:Ec; cbn [length]; try lia.
    exfalso. destruct (repeated_is_affected z year day tod a b rest Hwf Htod Hy Ec) as [lo [hi [Hin Hb]]].
    assert (Hcv := sweep_each_covered z year F B u false lo hi Hs Hset Hin). cbn in Hcv.
    apply (covers_required _ lo hi tod) in Hcv; [congruence|exact Hb].
  - intros [g [sb [Hr [g' [r Hc]]]]] day Hy Ec.
    destruct (check_ok_decide z year g tod None (Some sb) g' r (reachable_ginv z year g Hr) (or_introl eq_refl) Hc)
      as [F [B [u [Hset Hd]]]].
    destruct (decide_none_some F B tod sb r Hd) as [HF _].
    destruct (skipped_is_affected z year day tod Hwf Htod Hy Ec) as [lo [hi [Hin Hb]]].
    assert (Hcv := sweep_each_covered z year F B u true lo hi Hs Hset Hin). cbn in Hcv.
    apply (covers_required _ lo hi tod) in Hcv; [congruence|exact Hb].
Qed.

(* contrapositive: a time that is skipped or repeated on a day of the year is never accepted without policy *)
Theorem affected_rejected : forall z year,
  dst_sweep z year = true ->
  forall tod day, 0 <= tod < DAY -> in_year year day ->
  (forall i, candidates z (day * DAY + tod) <> [i]) ->
  forall g, reachable z year g -> forall g' r, check_dst_handling z year g tod None None <> (g', Ok r).
Proof.
  intros z year Hs tod day Htod Hy Hn g Hr g' r Hc.
  destruct (accept_sound_by_sweep z year Hs tod Htod
              (ex_intro _ g (conj Hr (ex_intro _ g' (ex_intro _ r Hc)))) day Hy) as [i Hi].
  exact (Hn i Hi).
Qed.

(* accepted without policy: the defaults AFTER / EARLIER *)
Theorem accept_defaults : forall z year g tod g' r,
  reachable z year g -> check_dst_handling z year g tod None None = (g', Ok r) -> r = (SkAfter, RpEarlier).
Proof.
  intros z year g tod g' r Hr Hc.
  destruct (check_ok_decide z year g tod None None g' r (reachable_ginv z year g Hr) (or_introl eq_refl) Hc)
    as [F [B [u [_ Hd]]]].
  destruct (decide_none_none F B tod r Hd) as [_ [_ H]]. exact H.
Qed.

(* lifting a sweep over lists of tables and years *)
Theorem sweep_lift : forall zones years,
  Forall (fun z => forallb (dst_sweep_each z) years = true) zones ->
  forall z year, In z zones -> In year years ->
  forall tod, 0 <= tod < DAY -> accepted z year tod ->
  forall day, in_year year day -> exists i, candidates z (day * DAY + tod) = [i].
Proof.
  intros zones years H z year Hz Hy. rewrite Forall_forall in H. specialize (H z Hz).
  rewrite forallb_forall in H. specialize (H year Hy).
  exact (accept_sound_by_sweep z year (sweep_each_sweep z year H)).
Qed.

Theorem sweep_lift_each : forall zones years,
  Forall (fun z => forallb (dst_sweep_each z) years = true) zones ->
  forall z year, In z zones -> In year years ->
  forall tod, 0 <= tod < DAY ->
  (accepted_fwd_given z year tod ->
     forall day, in_year year day -> (length (candidates z (day * DAY + tod)) <= 1)%nat) /\
  (accepted_bwd_given z year tod ->
     forall day, in_year year day -> candidates z (day * DAY + tod) <> []).
Proof.
  intros zones years H z year Hz Hy. rewrite Forall_forall in H. specialize (H z Hz).
  rewrite forallb_forall in H. specialize (H year Hy).
  exact (accept_sound_each z year H).
Qed.

(* ------------------------------------------------------------------------------------------- *)
(* 5. what a rejecting call raises *)

Lemma scan_months_no_raise : forall months z year rv e, scan_months z year rv months <> Raise e.
Proof.
  intros months. induction months as [|m r IH]; intros z year rv e; cbn [scan_months].
  - discriminate.
  - destruct (month_days z year m) as [days|]; [|discriminate].
    destruct (scan_hours z (hour_seq rv) days) as [h|]; [discriminate|apply IH].
Qed.

Lemma find_time_no_raise : forall z year rv e, find_time z year rv <> Raise e.
Proof.
  intros z year rv e. unfold find_time.
  destruct (scan_months z year rv (month_seq rv)) as [[[[d h] k]|]|e'|] eqn:E.
  - destruct (is_fine z d (h * HOUR) || is_fine z d (h * HOUR + HOUR - 1)); [discriminate|].
    match goal with |- (if ?c then _ else _) <> _ => destruct c; discriminate end.
  - discriminate.
  - exfalso. exact (scan_months_no_raise _ _ _ _ _ E).
  - discriminate.
Qed.

Lemma find_time_y_no_raise : forall z year rv e, find_time_y z year rv <> Raise e.
Proof. intros z year rv e. unfold find_time_y. apply find_time_no_raise. Qed.

Lemma apply_found_raise : forall g f lo up e, apply_found g f lo up = Raise e -> e = EValueError.
Proof.
  intros g f lo up e H. unfold apply_found in H.
  destruct f; [destruct (g_fwd g)|destruct (g_bwd g)]; inversion H; reflexivity.
Qed.

Lemma setup_raise_value : forall z year g g1 e, setup z year g = (g1, Raise e) -> e = EValueError.
Proof.
  intros z year g g1 e H. unfold setup, setup_round in H.
  destruct (find_time_y z year false) as [[| |f1 lo1 up1]|e1|] eqn:E1; try (inversion H; fail).
  - destruct (apply_found g f1 lo1 up1) as [ga|ea|] eqn:A1.
    + destruct (find_time_y z year true) as [[| |f2 lo2 up2]|e2|] eqn:E2; try (inversion H; fail).
      * destruct (apply_found ga f2 lo2 up2) as [gb|eb|] eqn:A2; inversion H; subst.
        exact (apply_found_raise _ _ _ _ _ A2).
      * exfalso. exact (find_time_y_no_raise _ _ _ _ E2).
    + inversion H; subst. exact (apply_found_raise _ _ _ _ _ A1).
    + inversion H.
  - exfalso. exact (find_time_y_no_raise _ _ _ _ E1).
Qed.

Lemma decide_raise_value : forall F B t f b e,
  decide {| g_fwd := Some F; g_bwd := Some B |} t f b = Raise e -> e = EValueError.
Proof.
  intros F B t f b e H. unfold decide in H. cbn [g_fwd g_bwd] in H.
  destruct f as [sf|]; destruct b as [sb|]; try discriminate H.
  - destruct (required B t); inversion H; reflexivity.
  - destruct (required F t); inversion H; reflexivity.
  - destruct (required F t); [inversion H; reflexivity|].
    destruct (required B t); inversion H; reflexivity.
Qed.

(* whatever was called before: a call that raises raises ValueError *)
Theorem reject_is_value_error : forall z year g t f b g' e,
  reachable z year g -> check_dst_handling z year g t f b = (g', Raise e) -> e = EValueError.
Proof.
  intros z year g t f b g' e Hr H. assert (Hinv := reachable_ginv z year g Hr).
  unfold check_dst_handling in H.
  destruct (ensure_setup z year g) as [g1 r1] eqn:He.
  destruct (ensure_ginv z year g g1 r1 Hinv He) as [_ H2].
  assert (Hgo : (g1, match r1 with Ok _ => decide g1 t f b | Raise e => Raise e | OutOfFuel => OutOfFuel end)
                = (g', Raise e)).
  { destruct f as [sf|]; destruct b as [sb|]; [inversion H| | |]; destruct r1; exact H. }
  destruct r1 as [u|e1|].
  - destruct (H2 (ex_intro _ u eq_refl)) as [[F [B Hb]] _]. subst g1.
    inversion Hgo as [[Hg Hd]]. exact (decide_raise_value F B t f b e Hd).
  - inversion Hgo; subst.
    destruct Hinv as [H0|[[Hb _]|[Hnb _]]].
    + subst g. rewrite ensure_not_both in He by apply not_both_fwd. exact (setup_raise_value _ _ _ _ _ He).
    + rewrite (ensure_both z year g Hb) in He. inversion He.
    + rewrite (ensure_not_both z year g Hnb) in He. exact (setup_raise_value _ _ _ _ _ He).
  - inversion Hgo.
Qed.

(* ------------------------------------------------------------------------------------------- *)
(* 6. the hypotheses are satisfiable: Europe/Berlin and Australia/Lord_Howe, 2024-2026, current year 2025 *)

Definition ex_berlin : tz := {| tz_init := 3600; tz_trans := [
  (1711846800000000000, 7200); (1729990800000000000, 3600); (1743296400000000000, 7200);
  (1761440400000000000, 3600); (1774746000000000000, 7200); (1792890000000000000, 3600)] |}.
Definition ex_lord_howe : tz := {| tz_init := 39600; tz_trans := [
  (1712415600000000000, 37800); (1728142200000000000, 39600); (1743865200000000000, 37800);
  (1759591800000000000, 39600); (1775314800000000000, 37800); (1791041400000000000, 39600)] |}.

Example berlin_setup : setup0 ex_berlin 2025 =
  ({| g_fwd := Some (RDate (2 * HOUR) (3 * HOUR - 1)); g_bwd := Some (RDate (2 * HOUR) (3 * HOUR - 1)) |}, Ok tt).
Proof. vm_compute. reflexivity. Qed.

Example berlin_affected : affected ex_berlin 2025 = [(true, 2 * HOUR, 3 * HOUR); (false, 2 * HOUR, 3 * HOUR)].
Proof. vm_compute. reflexivity. Qed.

Example berlin_sweep : dst_sweep_each ex_berlin 2025 = true.
Proof. vm_compute. reflexivity. Qed.

Example berlin_accepts_noon : accepted ex_berlin 2025 (12 * HOUR).
Proof.
  exists g0. split; [apply reach_fresh|]. eexists. eexists. vm_compute. reflexivity.
Qed.

Example berlin_rejects_0230 :
  snd (check_dst_handling ex_berlin 2025 g0 (2 * HOUR + 30 * MINUTE) None None) = Raise EValueError.
Proof. vm_compute. reflexivity. Qed.

(* the 30-minute change: 02:00 -> 02:30 skips no hh:30, the repeated 01:30-02:00 fails the whole-hour
   validation, so find_time answers True and everything is rejected without policy (over-rejection) *)
Example lord_howe_setup : setup0 ex_lord_howe 2025 = (g_both true, Ok tt).
Proof. vm_compute. reflexivity. Qed.

Example lord_howe_sweep : dst_sweep_each ex_lord_howe 2025 = true.
Proof. vm_compute. reflexivity. Qed.
