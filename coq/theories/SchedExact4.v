(* SchedExact4.v — C02 / C08: at most one start per job in one call of the core and in one API operation (also
   across the nested run_jobs calls), hence over whole histories: a one-shot job is started at most once ever,
   a countdown job at most once per reset().  Needs only that the queue has no duplicates. *)
From EAS Require Import Base BaseFacts Sched SchedInv SchedApi SchedProps SchedExact SchedExact2 SchedExact3.
From EASGen Require Import Generated.

Definition Once (l : list event) : Prop := forall k, (count_exec k l <= 1)%nat.
(* the events logged between s and s' contain at most one start per job *)
Definition OnceLog (s s' : st) : Prop := forall l, log s' = l ++ log s -> Once l.

Lemma count_exec_app k a b : count_exec k (a ++ b) = (count_exec k a + count_exec k b)%nat.
Proof.
  induction a as [|e t IH]; [reflexivity|]. destruct e as [j x y z| | | |]; cbn [app count_exec]; auto.
  destruct (Nat.eqb j k); rewrite IH; reflexivity.
Qed.

Lemma count_exec_started k l : (0 < count_exec k l)%nat -> started k l.
Proof.
  induction l as [|e t IH]; cbn [count_exec]; [lia|].
  assert (Ht : (0 < count_exec k t)%nat -> started k (e :: t)).
  { intros H. destruct (IH H) as (a & b & c & Hin). exists a, b, c. right; exact Hin. }
  destruct e as [j x y z| | | |]; auto.
  destruct (Nat.eqb_spec j k) as [->|Hne]; [|exact Ht]. intros _. exists x, y, z. left; reflexivity.
Qed.

Lemma count_exec_noexec k l : noexec l -> count_exec k l = O.
Proof.
  intros Hn. destruct (count_exec k l) eqn:Ec; [reflexivity|].
  destruct (noexec_not_started k l Hn). apply count_exec_started. lia.
Qed.

Lemma Once_nil : Once [].
Proof. intros k. cbn. lia. Qed.

Lemma OnceLog_same s s' : log s' = log s -> OnceLog s s'.
Proof.
  intros H l Hl. rewrite H in Hl. assert (l = []) by (apply (app_inv_tail (log s)); exact (eq_sym Hl)).
  subst l. apply Once_nil.
Qed.

Lemma OnceLog_pre s0 s s' : log s = log s0 -> OnceLog s s' -> OnceLog s0 s'.
Proof. intros H O l Hl. apply O. rewrite H. exact Hl. Qed.

Lemma OnceLog_of s s' l : log s' = l ++ log s -> Once l -> OnceLog s s'.
Proof.
  intros H O l' Hl'. assert (l' = l) by (apply (app_inv_tail (log s)); congruence). subst l'. exact O.
Qed.

(* two calls in sequence: a job started by the first one is not due when the second one begins *)
Lemma Once_trans (A1 A2 : nat -> Prop) s s1 s2 l1 l2 :
  Fr A1 s s1 l1 -> Fr A2 s1 s2 l2 -> Once l1 -> Once l2 -> Once (l2 ++ l1).
Proof.
  intros F1 F2 O1 O2 k. rewrite count_exec_app. specialize (O1 k). specialize (O2 k).
  destruct (count_exec k l2) as [|n2] eqn:E2; [lia|]. destruct (count_exec k l1) as [|n1] eqn:E1; [lia|].
  exfalso. assert (S1 : started k l1) by (apply count_exec_started; lia).
  assert (S2 : started k l2) by (apply count_exec_started; lia).
  destruct S2 as (t & a & o & Hin). destruct (fr_exec _ _ _ _ F2 _ _ _ _ Hin) as (_ & _ & _ & Hd).
  exact (fr_cool _ _ _ _ F1 k a S1 Hd).
Qed.

Lemma OnceLog_trans (A1 A2 : nat -> Prop) s s1 s2 l1 l2 :
  Fr A1 s s1 l1 -> Fr A2 s1 s2 l2 -> OnceLog s s1 -> OnceLog s1 s2 -> OnceLog s s2.
Proof.
  intros F1 F2 O1 O2. apply (OnceLog_of s s2 (l2 ++ l1)).
  - rewrite (fr_log _ _ _ _ F2), (fr_log _ _ _ _ F1). apply app_assoc.
  - eapply Once_trans; [exact F1|exact F2|apply O1; apply (fr_log _ _ _ _ F1)|apply O2; apply (fr_log _ _ _ _ F2)].
Qed.

Section OnceCore.
Variable E : env.
Hypothesis prod_ok : forall j k t, exists v, prod E j k t = Ok v /\ t < v.

Lemma exec_pre_count j t s k : exists p, log (exec_pre E j t s) = p ++ log s /\
  count_exec k p = if Nat.eqb j k then 1%nat else O.
Proof.
  unfold exec_pre. cbv zeta. destruct (fail_exec E j _); cbn [log add_ev set_log].
  - exists [EHandler (HExec j); EExec j (now s) t (opi s)]. split; [reflexivity|]. cbn. destruct (Nat.eqb j k); reflexivity.
  - exists [EExec j (now s) t (opi s)]. split; [reflexivity|]. cbn. destruct (Nat.eqb j k); reflexivity.
Qed.

(* job.execute(): one start of j, then a core call that cannot start j (j is not queued), then plain events *)
Lemma OnceLog_exec_wrap j t s s1 s' l1 l2 :
  Fr NoA (exec_pre E j t s) s1 l1 -> ~ In j (queue s) -> OnceLog (exec_pre E j t s) s1 ->
  log s' = l2 ++ log s1 -> noexec l2 -> OnceLog s s'.
Proof.
  intros F Hnq O1 Hl2 Hn2.
  destruct (exec_pre_props E j t s) as ((v1 & _) & _).
  assert (Hj0 : count_exec j l1 = O).
  { destruct (count_exec j l1) eqn:Ec; [reflexivity|]. exfalso.
    assert (S1 : started j l1) by (apply count_exec_started; lia). destruct S1 as (x & a & o & Hin).
    destruct (fr_exec _ _ _ _ F _ _ _ _ Hin) as (_ & _ & [[]|Hq] & _). apply Hnq. congruence. }
  intros l Hl k. destruct (exec_pre_count j t s k) as (p & Hp & Hc).
  assert (l = l2 ++ l1 ++ p).
  { apply (app_inv_tail (log s)). rewrite <- Hl, Hl2, (fr_log _ _ _ _ F), Hp. rewrite <- !app_assoc. reflexivity. }
  subst l. rewrite !count_exec_app, (count_exec_noexec k l2 Hn2), Hc.
  pose proof (O1 l1 (fr_log _ _ _ _ F) k) as Hk.
  destruct (Nat.eqb_spec j k) as [->|Hne]; [rewrite Hj0; lia|lia].
Qed.

Definition nd_specs (f : nat) : Prop :=
  (forall s s', NoDup (queue s) -> set_timer E f s = Some s' -> NoDup (queue s') /\ OnceLog s s') /\
  (forall s s', NoDup (queue s) -> run_jobs E f s = Some s' -> NoDup (queue s') /\ OnceLog s s') /\
  (forall s s', NoDup (queue s) -> run_loop E f s = Some s' -> NoDup (queue s') /\ OnceLog s s') /\
  (forall j s s', NoDup (queue s) -> ~ In j (queue s) -> add_job E f j s = Some s' ->
     NoDup (queue s') /\ OnceLog s s') /\
  (forall j s s', NoDup (queue s) -> remove_job E f j s = Some s' -> NoDup (queue s') /\ OnceLog s s') /\
  (forall j t s s', NoDup (queue s) -> ~ In j (queue s) -> due_at s j t -> exec_job E f j t s = Some s' ->
     NoDup (queue s') /\ ~ In j (queue s') /\ OnceLog s s').

Lemma remove_job_queue fuel j s s' k :
  remove_job E fuel j s = Some s' -> In k (queue s') -> In k (remove_first j (queue s)).
Proof.
  intros H Hk. destruct (fr_specs_all E prod_ok fuel) as (_ & _ & _ & _ & Hrm & _).
  destruct (Hrm j s s' H) as (l & F). destruct (fr_queue _ _ _ _ F k Hk) as [[]|Hq]. exact Hq.
Qed.

Lemma nd_set_timer_step f : nd_specs f ->
  forall s s', NoDup (queue s) -> set_timer E (S f) s = Some s' -> NoDup (queue s') /\ OnceLog s s'.
Proof.
  intros (_ & IHrj & _) s s' Hnd H. rewrite set_timer_S in H. cbv zeta in H.
  assert (Hid : forall sx, queue sx = queue s -> log sx = log s -> NoDup (queue sx) /\ OnceLog s sx).
  { intros sx a b. split; [rewrite a; exact Hnd|apply OnceLog_same; exact b]. }
  destruct (queue (set_timer_f None s)) as [|h q]; [injection H as <-; apply Hid; reflexivity|].
  destruct (negb (enabled (set_timer_f None s))); [injection H as <-; apply Hid; reflexivity|].
  destruct (jnext (jobs (set_timer_f None s) h)) as [t|]; [|injection H as <-; apply Hid; reflexivity].
  destruct (t <=? now (set_timer_f None s)); [|injection H as <-; apply Hid; reflexivity].
  apply (IHrj (set_timer_f None s) s' Hnd H).
Qed.

Lemma nd_run_jobs_step f : nd_specs f ->
  forall s s', NoDup (queue s) -> run_jobs E (S f) s = Some s' -> NoDup (queue s') /\ OnceLog s s'.
Proof.
  intros (IHst & _ & IHlp & _) s s' Hnd H. rewrite run_jobs_S in H. cbv zeta in H.
  destruct (run_loop E f (set_timer_f None s)) as [s1|] eqn:EL; [|discriminate].
  destruct (IHlp (set_timer_f None s) s1 Hnd EL) as (N1 & O1).
  destruct (broken s1); [injection H as <-; split; [exact N1|exact O1]|].
  destruct (queue s1) eqn:Eq; [injection H as <-; split; [rewrite Eq; constructor|exact O1]|].
  rewrite <- Eq in N1. destruct (IHst _ _ N1 H) as (N2 & O2). split; [exact N2|].
  destruct (fr_specs_all E prod_ok f) as (Hst & _ & Hlp & _).
  destruct (Hlp _ _ EL) as (l1 & F1). destruct (Hst _ _ H) as (l2 & F2).
  apply (OnceLog_pre s (set_timer_f None s) s'); [reflexivity|].
  eapply OnceLog_trans; [exact F1|exact F2|exact O1|exact O2].
Qed.

Lemma nd_add_job_step f : nd_specs f ->
  forall j s s', NoDup (queue s) -> ~ In j (queue s) -> add_job E (S f) j s = Some s' ->
    NoDup (queue s') /\ OnceLog s s'.
Proof.
  intros (IHst & _) j s s' Hnd Hnq H. rewrite add_job_S in H.
  destruct (status_eqb _ _); [|injection H as <-; split; [exact Hnd|apply OnceLog_same; reflexivity]].
  cbv zeta in H.
  assert (N1 : NoDup (queue (set_queue (insort s j (queue s)) s))) by (apply NoDup_insort; assumption).
  destruct (is_head _ _).
  - apply (IHst _ _ N1 H).
  - injection H as <-. split; [exact N1|apply OnceLog_same; reflexivity].
Qed.

Lemma nd_remove_job_step f : nd_specs f ->
  forall j s s', NoDup (queue s) -> remove_job E (S f) j s = Some s' -> NoDup (queue s') /\ OnceLog s s'.
Proof.
  intros (IHst & _) j s s' Hnd H. rewrite remove_job_S in H.
  destruct (queue s) as [|h t] eqn:Eq.
  - rewrite <- Eq in Hnd. apply (IHst _ _ Hnd H).
  - cbv zeta in H.
    assert (N1 : NoDup (queue (set_queue (remove_first j (h :: t)) s))) by (apply remove_first_NoDup; exact Hnd).
    destruct (remove_first j (h :: t)) as [|h' t'] eqn:Er.
    + apply (IHst _ _ N1 H).
    + destruct (Nat.eqb h j); [apply (IHst _ _ N1 H)|].
      injection H as <-. split; [exact N1|apply OnceLog_same; reflexivity].
Qed.

Lemma nd_run_loop_step f : nd_specs f ->
  forall s s', NoDup (queue s) -> run_loop E (S f) s = Some s' -> NoDup (queue s') /\ OnceLog s s'.
Proof.
  intros (_ & _ & IHlp & IHadd & _ & IHex) s s' Hnd H. rewrite run_loop_S in H.
  destruct (queue s) as [|h q] eqn:Eq.
  { injection H as <-. split; [rewrite Eq; exact Hnd|apply OnceLog_same; reflexivity]. }
  destruct (jnext (jobs s h)) as [t|] eqn:Ht.
  2:{ injection H as <-. split; [cbn; rewrite Eq; exact Hnd|].
      apply (OnceLog_of s _ [EHandler HLoop]); [reflexivity|]. intros k. cbn. lia. }
  destruct (now s <? t) eqn:Elt.
  { injection H as <-. split; [rewrite Eq; exact Hnd|apply OnceLog_same; reflexivity]. }
  cbv zeta in H. apply Z.ltb_ge in Elt.
  inversion Hnd as [|? ? Hh Hq]; subst.
  destruct (exec_job E f h t (set_queue q s)) as [s2|] eqn:EX; [|discriminate].
  assert (Hd : due_at (set_queue q s) h t) by (split; [exact Ht|exact Elt]).
  destruct (IHex h t (set_queue q s) s2 Hq Hh Hd EX) as (N2 & Hn2 & O2).
  destruct (fr_specs_all E prod_ok f) as (_ & _ & Hlp & Hadd & _ & Hex).
  destruct (Hex h t _ _ Hd EX) as (l1 & F1).
  apply and_comm. split; [|].
  - apply (OnceLog_pre s (set_queue q s) s'); [reflexivity|].
    destruct (status_eqb (jstatus (jobs s2 h)) Running).
    + destruct (add_job E f h s2) as [s3|] eqn:EA; [|discriminate].
      destruct (IHadd h s2 s3 N2 Hn2 EA) as (N3 & O3). destruct (IHlp s3 s' N3 H) as (N4 & O4).
      destruct (Hadd _ _ _ EA) as (l2 & F2). destruct (Hlp _ _ H) as (l3 & F3).
      assert (F12 : Fr (eq h) (set_queue q s) s3 (l2 ++ l1)).
      { eapply Fr_trans; [exact F1|exact F2|]. intros k Hk; left; exact Hk. }
      eapply OnceLog_trans; [exact F12|exact F3| |exact O4].
      eapply OnceLog_trans; [exact F1|exact F2|exact O2|exact O3].
    + destruct (IHlp s2 s' N2 H) as (N4 & O4). destruct (Hlp _ _ H) as (l3 & F3).
      eapply OnceLog_trans; [exact F1|exact F3|exact O2|exact O4].
  - destruct (status_eqb (jstatus (jobs s2 h)) Running).
    + destruct (add_job E f h s2) as [s3|] eqn:EA; [|discriminate].
      destruct (IHadd h s2 s3 N2 Hn2 EA) as (N3 & O3). apply (IHlp s3 s' N3 H).
    + apply (IHlp s2 s' N2 H).
Qed.

Lemma nd_exec_job_step f : nd_specs f ->
  forall j t s s', NoDup (queue s) -> ~ In j (queue s) -> due_at s j t -> exec_job E (S f) j t s = Some s' ->
    NoDup (queue s') /\ ~ In j (queue s') /\ OnceLog s s'.
Proof.
  intros (_ & _ & _ & _ & IHrm & _) j t s s' Hnd Hnq Hd H. rewrite exec_job_S in H. cbv zeta in H.
  destruct (exec_pre_props E j t s) as ((v1 & v2 & v3 & v4) & p1 & p2 & p3 & p4 & p5).
  assert (F0 : Fr NoA (exec_pre E j t s) (exec_pre E j t s) []).
  { apply Fr_id; try reflexivity. intros k Hk; right; exact Hk. }
  assert (O0 : OnceLog (exec_pre E j t s) (exec_pre E j t s)) by (apply OnceLog_same; reflexivity).
  assert (N0 : NoDup (queue (exec_pre E j t s))) by (rewrite v1; exact Hnd).
  destruct (jkind (jobs (exec_pre E j t s) j)).
  - destruct (remove_job E f j (exec_pre E j t s)) as [s1|] eqn:ER; [|discriminate]. injection H as <-.
    destruct (IHrm j _ s1 N0 ER) as (N1 & O1).
    destruct (fr_specs_all E prod_ok f) as (_ & _ & _ & _ & Hrm & _). destruct (Hrm _ _ _ ER) as (l1 & F1).
    assert (F1' : Fr NoA (exec_pre E j t s) s1 l1).
    { eapply Fr_pre; [..|exact F1]; try reflexivity. intros k [[]|Hk]. right.
      cbn [queue set_queue] in Hk. eapply remove_first_In; exact Hk. }
    destruct (finish_job_props E j s1) as (q1 & _).
    destruct (finish_job_log E j s1) as (l2 & Hl2 & Hn2).
    rewrite q1. split; [exact N1|]. split.
    + intros Hin. apply (remove_job_queue _ _ _ _ _ ER) in Hin. apply remove_first_In in Hin. apply Hnq. congruence.
    + eapply OnceLog_exec_wrap; [exact F1'|exact Hnq|exact O1|exact Hl2|exact Hn2].
  - injection H as <-.
    destruct (set_next_run_props E j None (exec_pre E j t s)) as (q1 & _).
    destruct (set_next_run_log E j None (exec_pre E j t s)) as (l2 & Hl2 & Hn2).
    rewrite q1, v1. split; [exact Hnd|]. split; [exact Hnq|].
    eapply OnceLog_exec_wrap; [exact F0|exact Hnq|exact O0|exact Hl2|exact Hn2].
  - assert (Hev : forall sx, queue sx = queue (exec_pre E j t s) ->
                (exists l2, log sx = l2 ++ log (exec_pre E j t s) /\ noexec l2) ->
                NoDup (queue sx) /\ ~ In j (queue sx) /\ OnceLog s sx).
      { intros sx a (l2 & Hl2 & Hn2). rewrite a, v1. split; [exact Hnd|]. split; [exact Hnq|].
        eapply OnceLog_exec_wrap; [exact F0|exact Hnq|exact O0|exact Hl2|exact Hn2]. }
    destruct (prod E j _ _) as [v|e|]; [|injection H as <-|discriminate].
    + destruct (too_old _ v); injection H as <-.
      * apply Hev; [reflexivity|]. exists [EHandler (HJob j); EProd j]. split; [reflexivity|].
        intros i x a o [Hc|[Hc|[]]]; discriminate.
      * destruct (set_next_run_props E j (Some v) (add_ev (EProd j) (exec_pre E j t s))) as (q1 & _).
        destruct (set_next_run_log E j (Some v) (add_ev (EProd j) (exec_pre E j t s))) as (l2 & Hl2 & Hn2).
        apply Hev; [rewrite q1; reflexivity|]. exists (l2 ++ [EProd j]). split.
        -- rewrite Hl2. cbn [log add_ev set_log]. rewrite <- app_assoc. reflexivity.
        -- apply noexec_app; [exact Hn2|]. intros i x a o [Hc|[]]; discriminate.
    + apply Hev; [reflexivity|]. exists [EHandler (HJob j); EProd j]. split; [reflexivity|].
      intros i x a o [Hc|[Hc|[]]]; discriminate.
Qed.

Theorem nd_specs_all : forall f, nd_specs f.
Proof.
  induction f as [|f IH].
  - repeat split; intros; discriminate.
  - split; [apply nd_set_timer_step; exact IH|].
    split; [apply nd_run_jobs_step; exact IH|].
    split; [apply nd_run_loop_step; exact IH|].
    split; [apply nd_add_job_step; exact IH|].
    split; [apply nd_remove_job_step; exact IH|apply nd_exec_job_step; exact IH].
Qed.

(* ------------------------------------------------------------------------------------------- *)
(* API operations *)
Lemma OnceLog_wrap l0 l2 s sx sy s' :
  log sx = l0 ++ log s -> noexec l0 -> (exists l1, log sy = l1 ++ log sx) -> OnceLog sx sy ->
  log s' = l2 ++ log sy -> noexec l2 -> OnceLog s s'.
Proof.
  intros a Hn0 (l1 & Hl1) O1 b Hn2. apply (OnceLog_of s s' (l2 ++ l1 ++ l0)).
  - rewrite b, Hl1, a. rewrite <- !app_assoc. reflexivity.
  - intros k. rewrite !count_exec_app, (count_exec_noexec k l2 Hn2), (count_exec_noexec k l0 Hn0).
    pose proof (O1 l1 Hl1 k). lia.
Qed.

Lemma once_pre_only j s sx l0 : PreOK j s sx l0 -> OnceLog s sx.
Proof.
  intros (a1 & a2 & _). apply (OnceLog_of s sx l0 a1). intros k. rewrite (count_exec_noexec k l0 a2). lia.
Qed.

Lemma once_remove fuel j s sx s1 s' l0 :
  PreOK j s sx l0 -> NoDup (queue s) -> remove_job E fuel j sx = Some s1 -> PostOK j s1 s' -> OnceLog s s'.
Proof.
  intros (a1 & a2 & a3 & a4 & a5 & a6 & a7) Hnd H (l2 & c1 & c2 & _).
  destruct (nd_specs_all fuel) as (_ & _ & _ & _ & Hrm & _). rewrite <- a6 in Hnd.
  destruct (Hrm j sx s1 Hnd H) as (_ & O1).
  destruct (fr_specs_all E prod_ok fuel) as (_ & _ & _ & _ & Frm & _). destruct (Frm j sx s1 H) as (l1 & F1).
  eapply (OnceLog_wrap l0 l2 s sx s1 s'); [exact a1|exact a2| |exact O1|exact c1|exact c2].
  exists l1. apply (fr_log _ _ _ _ F1).
Qed.

Lemma once_arm fuel j s sx s' l0 :
  PreOK j s sx l0 -> NoDup (queue s) -> ~ In j (queue s) -> add_job E fuel j sx = Some s' -> OnceLog s s'.
Proof.
  intros (a1 & a2 & a3 & a4 & a5 & a6 & a7) Hnd Hnq H.
  destruct (nd_specs_all fuel) as (_ & _ & _ & Hadd & _). rewrite <- a6 in Hnd, Hnq.
  destruct (Hadd j sx s' Hnd Hnq H) as (_ & O1).
  destruct (fr_specs_all E prod_ok fuel) as (_ & _ & _ & Fadd & _). destruct (Fadd j sx s' H) as (l1 & F1).
  eapply (OnceLog_wrap l0 [] s sx s' s'); [exact a1|exact a2| |exact O1|reflexivity|apply noexec_nil].
  exists l1. apply (fr_log _ _ _ _ F1).
Qed.

Lemma once_update fuel j s sx s' l0 :
  PreOK j s sx l0 -> NoDup (queue s) -> update_job E fuel j sx = Some s' -> OnceLog s s'.
Proof.
  intros (a1 & a2 & a3 & a4 & a5 & a6 & a7) Hnd H. unfold update_job in H.
  destruct (remove_job E fuel j sx) as [s3|] eqn:ER; [|discriminate].
  destruct (nd_specs_all fuel) as (_ & _ & _ & Hadd & Hrm & _). rewrite <- a6 in Hnd.
  destruct (Hrm j sx s3 Hnd ER) as (N3 & O1).
  assert (Hnq3 : ~ In j (queue s3)).
  { intros Hin. apply (remove_job_queue _ _ _ _ _ ER) in Hin. exact (remove_first_NoDup_notin _ _ Hnd Hin). }
  destruct (Hadd j s3 s' N3 Hnq3 H) as (_ & O2).
  destruct (fr_specs_all E prod_ok fuel) as (_ & _ & _ & Fadd & Frm & _).
  destruct (Frm j sx s3 ER) as (l1 & F1). destruct (Fadd j s3 s' H) as (l2 & F2).
  assert (O12 : OnceLog sx s').
  { apply (OnceLog_pre sx (set_queue (remove_first j (queue sx)) sx) s'); [reflexivity|].
    eapply OnceLog_trans; [exact F1|exact F2| |exact O2].
    apply (OnceLog_pre _ sx s3); [reflexivity|exact O1]. }
  eapply (OnceLog_wrap l0 [] s sx s' s'); [exact a1|exact a2| |exact O12|reflexivity|apply noexec_nil].
  exists (l2 ++ l1). rewrite (fr_log _ _ _ _ F2), (fr_log _ _ _ _ F1). apply app_assoc.
Qed.

Lemma create_once fuel hs b s s' r :
  Inv s -> create E fuel hs b s = (s', r) -> r <> NoFuel -> OnceLog s s'.
Proof.
  intros (W & T) H Hr. unfold create in H.
  destruct (hs && store_has (jkey b) (store s)); [injection H as <- <-; apply OnceLog_same; reflexivity|].
  cbv zeta in H.
  set (j := njobs s) in *.
  match type of H with context [jkind ?bb] => set (b1 := bb) in * end.
  match type of H with context [too_old ?sx (jexec_t b1)] => set (s1 := sx) in * end.
  assert (P1 : PreOK j s s1 []).
  { subst s1. unfold PreOK.
    assert (Hj : forall k, k <> j -> upd (jobs s) j b1 k = jobs s k).
    { intros k Hne. unfold upd. destruct (Nat.eqb_spec k j); [congruence|reflexivity]. }
    destruct hs; cbn [log now opi njobs queue jobs set_store set_njobs set_job set_jobs app];
      (split; [reflexivity|]); (split; [apply noexec_nil|]); repeat (split; [reflexivity|]);
      (split; [subst j; lia|]); (split; [reflexivity|exact Hj]). }
  clearbody s1.
  assert (Hnd : NoDup (queue s)) by apply (wf_nodup _ _ W).
  assert (Hj : ~ In j (queue s)) by (apply fresh_not_queued; exact W).
  assert (Hfin : forall sx e l0, PreOK j s sx l0 ->
            (match job_finish E fuel j sx with Some sy => (sy, Raised e) | None => (sx, NoFuel) end) = (s', r) ->
            OnceLog s s').
  { intros sx e l0 Px Hx. rewrite job_finish_eq in Hx. destruct (remove_job E fuel j sx) as [sy|] eqn:ER.
    - injection Hx as <- <-. apply (once_remove fuel j s sx sy _ l0 Px Hnd ER (PostOK_finish E j sy)).
    - injection Hx as <- <-. congruence. }
  assert (Harm : forall sx nx l0, PreOK j s sx l0 ->
            lift (add_job E fuel j (set_next_run E j nx sx)) (set_next_run E j nx sx) = (s', r) -> OnceLog s s').
  { intros sx nx l0 Px Hx. destruct (PreOK_snr E j nx s sx l0 Px) as (l1 & P2). unfold lift in Hx.
    destruct (add_job E fuel j _) as [sy|] eqn:EA.
    - injection Hx as <- <-. apply (once_arm fuel j s _ sy l1 P2 Hnd Hj EA).
    - injection Hx as <- <-. congruence. }
  destruct (jkind b1).
  - destruct (too_old s1 (jexec_t b1)); [eapply Hfin|eapply Harm]; eassumption.
  - eapply Harm; eassumption.
  - assert (P2 : PreOK j s (add_ev (EProd j) s1) [EProd j]) by (apply PreOK_ev; [intros; discriminate|exact P1]).
    destruct (prod E j _ _) as [v|e|].
    + destruct (too_old _ v); [eapply Hfin|eapply Harm]; eassumption.
    + eapply Hfin; eassumption.
    + injection H as <- <-. congruence.
Qed.

(* C02: one operation (creation, control call, enable, wake-up) starts no job twice *)
Theorem step_op_once fuel hs s o s' r :
  Inv s -> step_op E fuel hs s o = (s', r) -> r <> NoFuel -> OnceLog s s'.
Proof.
  intros I H Hr. pose proof (wf_nodup _ _ (proj1 I)) as Hnd.
  assert (Hrefl : OnceLog s s) by (apply OnceLog_same; reflexivity).
  destruct (nd_specs_all fuel) as (Hst & Hrj & _).
  destruct o; cbn [step_op] in H.
  - eapply create_once; eassumption.
  - destruct (secs <=? 0); [injection H as <- <-; exact Hrefl|eapply create_once; eassumption].
  - eapply create_once; eassumption.
  - destruct (is_finished s j); [injection H as <- <-; exact Hrefl|].
    unfold lift in H. destruct (job_finish E fuel j s) as [s1|] eqn:EF; injection H as <- <-; [|congruence].
    rewrite job_finish_eq in EF. destruct (remove_job E fuel j s) as [s2|] eqn:ER; [|discriminate].
    injection EF as <-. eapply once_remove; [apply PreOK_refl|exact Hnd|exact ER|apply PostOK_finish].
  - destruct (is_finished s j); [injection H as <- <-; exact Hrefl|].
    destruct (remove_job E fuel j s) as [s2|] eqn:ER; injection H as <- <-; [|congruence].
    eapply once_remove; [apply PreOK_refl|exact Hnd|exact ER|apply PostOK_snr].
  - destruct (is_finished s j); [injection H as <- <-; exact Hrefl|].
    destruct (negb (jlinked (jobs s j))); [injection H as <- <-; exact Hrefl|]. cbv zeta in H.
    assert (P1 : PreOK j s (add_ev (EProd j) s) [EProd j]).
    { apply PreOK_ev; [intros; discriminate|apply PreOK_refl]. }
    destruct (prod E j _ _) as [v|e|];
      [|injection H as <- <-; eapply once_pre_only; exact P1|injection H as <- <-; congruence].
    destruct (too_old _ v); [injection H as <- <-; eapply once_pre_only; exact P1|].
    destruct (PreOK_snr E j (Some v) _ _ _ P1) as (l1 & P2).
    unfold lift in H. destruct (update_job E fuel j _) as [s2|] eqn:EU; injection H as <- <-; [|congruence].
    eapply once_update; [exact P2|exact Hnd|exact EU].
  - destruct (negb (jlinked (jobs s j))); [injection H as <- <-; exact Hrefl|]. cbv zeta in H.
    destruct (PreOK_snr E j (Some (now s + jsecs (jobs s j))) _ _ _ (PreOK_refl j s)) as (l1 & P2).
    unfold lift in H. destruct (update_job E fuel j _) as [s2|] eqn:EU; injection H as <- <-; [|congruence].
    eapply once_update; [exact P2|exact Hnd|exact EU].
  - destruct (is_finished s j); [injection H as <- <-; exact Hrefl|].
    destruct (secs <=? 0); injection H as <- <-; [exact Hrefl|apply OnceLog_same; reflexivity].
  - destruct (Bool.eqb b (enabled s)); [injection H as <- <-; exact Hrefl|]. cbv zeta in H.
    unfold lift in H. destruct (set_timer E fuel (set_enabled_f b s)) as [s2|] eqn:ES; injection H as <- <-; [|congruence].
    apply (OnceLog_pre s (set_enabled_f b s) s2); [reflexivity|]. apply (Hst (set_enabled_f b s) s2 Hnd ES).
  - destruct w; [destruct (memb cb (jcbu (jobs s j)))|destruct (memb cb (jcbf (jobs s j)))];
      injection H as <- <-; apply OnceLog_same; reflexivity.
  - destruct w; injection H as <- <-; apply OnceLog_same; reflexivity.
  - injection H as <- <-. apply OnceLog_same; reflexivity.
  - destruct (timer s) as [w|]; [|injection H as <- <-; exact Hrefl].
    destruct (w <=? now s); [|injection H as <- <-; exact Hrefl].
    unfold lift in H. destruct (run_jobs E fuel s) as [s2|] eqn:ER; injection H as <- <-; [|congruence].
    apply (Hrj s s2 Hnd ER).
  - destruct (timer s) as [w|]; [|injection H as <- <-; exact Hrefl].
    unfold lift in H. destruct (run_jobs E fuel s) as [s2|] eqn:ER; injection H as <- <-; [|congruence].
    apply (Hrj s s2 Hnd ER).
Qed.

Corollary step_op_once_count fuel hs s o s' r k :
  Inv s -> step_op E fuel hs s o = (s', r) -> r <> NoFuel ->
  (count_exec k (new_events s s') <= 1)%nat /\
  count_exec k (log s') = (count_exec k (new_events s s') + count_exec k (log s))%nat.
Proof.
  intros I H Hr. pose proof (step_op_log E prod_ok _ _ _ _ _ _ I H Hr) as Hl.
  split; [apply (step_op_once _ _ _ _ _ _ I H Hr _ Hl)|]. rewrite Hl at 1. apply count_exec_app.
Qed.

(* ------------------------------------------------------------------------------------------- *)
(* whole histories *)
Lemma not_started_count k l : ~ started k l -> count_exec k l = O.
Proof. intros Hn. destruct (count_exec k l) eqn:Ec; [reflexivity|]. destruct Hn. apply count_exec_started. lia. Qed.

Lemma started_count k l : Once l -> started k l -> count_exec k l = 1%nat.
Proof.
  intros O (t & a & o & Hin). specialize (O k). enough (0 < count_exec k l)%nat by lia. clear O.
  induction l as [|e r IH]; [destruct Hin|]. destruct Hin as [->|Hin].
  - cbn. rewrite Nat.eqb_refl. lia.
  - specialize (IH Hin). destruct e as [j x y z| | | |]; cbn [count_exec]; auto. destruct (Nat.eqb j k); lia.
Qed.

(* a job that does not exist yet has never been started *)
Definition LogBound (s : st) : Prop := forall j, (njobs s <= j)%nat -> count_exec j (log s) = O.

(* an operation starts existing jobs only (or the job it creates) *)
Lemma started_exists fuel hs s o s' r j :
  Inv s -> step_op E fuel hs s o = (s', r) -> r <> NoFuel -> started j (new_events s s') -> (j < njobs s')%nat.
Proof.
  intros I H Hr Hs. pose proof Hs as (t & a & oi & Hin).
  destruct (step_op_frame E prod_ok _ _ _ _ _ _ I H Hr) as (l & F). pose proof (of_njobs _ _ _ _ _ F) as Hn.
  assert (Hlk : jlinked (jobs s j) = true -> (j < njobs s')%nat).
  { intros Hl. pose proof (wf_rn _ _ (proj1 I) j Hl). lia. }
  destruct (exec_only_running E prod_ok _ _ _ _ _ _ I H Hr _ _ _ _ Hin) as (_ & _ & [(Hc & _)|[(Hc & _)|[Hc|(p & q & Hc)]]]).
  - apply Hlk. apply (wf_lk _ _ (proj1 I) j Hc).
  - subst o. destruct (jlinked (jobs s j)) eqn:El; [apply Hlk; reflexivity|]. exfalso.
    cbn [step_op] in H. rewrite El in H. cbn [negb] in H. injection H as <- _.
    rewrite new_events_same in Hin by reflexivity. destruct Hin.
  - subst o. destruct (jlinked (jobs s j)) eqn:El; [apply Hlk; reflexivity|]. exfalso.
    cbn [step_op] in H. rewrite El in H. cbn [negb] in H.
    destruct (is_finished s j); injection H as <- _; rewrite new_events_same in Hin by reflexivity; destruct Hin.
  - subst j.
    assert (Hcr : forall b, create E fuel hs b s = (s', r) -> (njobs s < njobs s')%nat).
    { intros b Hb. destruct (create_record E prod_ok _ _ _ _ _ _ Hb Hr) as [->|(n & _)]; [|lia].
      rewrite new_events_same in Hin by reflexivity. destruct Hin. }
    destruct Hc as [(key & ->)|(key & ->)]; cbn [step_op] in H; eapply Hcr; exact H.
Qed.

Lemma LogBound_step_op fuel hs s o s' r :
  Inv s -> LogBound s -> step_op E fuel hs s o = (s', r) -> r <> NoFuel -> LogBound s'.
Proof.
  intros I B H Hr j Hj. destruct (step_op_once_count _ _ _ _ _ _ j I H Hr) as (_ & Hc). rewrite Hc.
  destruct (step_op_frame E prod_ok _ _ _ _ _ _ I H Hr) as (l & F). pose proof (of_njobs _ _ _ _ _ F) as Hn.
  rewrite (B j) by lia. rewrite not_started_count; [reflexivity|].
  intros Hs. pose proof (started_exists _ _ _ _ _ _ j I H Hr Hs). lia.
Qed.

(* a one-shot job has been started at most once, and if so it is finished *)
Definition OnceCnt (s : st) : Prop :=
  forall j, (j < njobs s)%nat -> jkind (jobs s j) = KOnce ->
    (count_exec j (log s) <= 1)%nat /\ (count_exec j (log s) = 1%nat -> jstatus (jobs s j) = Finished).

Lemma not_creation_target s o j : (j < njobs s)%nat -> ~ (is_creation o /\ j = njobs s).
Proof. intros Hlt (_ & Hc). lia. Qed.

Lemma OnceCnt_step_op fuel hs s o s' r :
  Inv s -> ExactInv s -> LogBound s -> OnceCnt s -> op_typed s o ->
  step_op E fuel hs s o = (s', r) -> r <> NoFuel -> OnceCnt s'.
Proof.
  intros I X B C Hty H Hr j Hj Hk.
  destruct (step_op_once_count _ _ _ _ _ _ j I H Hr) as (Hle & Hc). rewrite Hc.
  pose proof (step_op_once _ _ _ _ _ _ I H Hr _ (step_op_log E prod_ok _ _ _ _ _ _ I H Hr)) as Hon.
  (* what was known about j before the operation *)
  assert (Hold : (count_exec j (log s) <= 1)%nat /\
                 (count_exec j (log s) = 1%nat -> jstatus (jobs s j) = Finished /\ (j < njobs s)%nat)).
  { destruct (Nat.lt_ge_cases j (njobs s)) as [Hlt|Hge]; [|rewrite (B j Hge); split; [lia|discriminate]].
    destruct (job_identity_stable E prod_ok _ _ _ _ _ _ j I H Hr (not_creation_target s o j Hlt)) as (e & _).
    destruct (C j Hlt) as (c1 & c2); [congruence|]. split; [exact c1|]. intros Hone. split; [apply c2; exact Hone|exact Hlt]. }
  destruct Hold as (o1 & o2).
  destruct (started_dec j (new_events s s')) as [Hs|Hn].
  - pose proof Hs as (t & a & oi & Hin).
    destruct (once_start_exact E prod_ok _ _ _ _ _ _ _ _ _ _ I X Hty H Hr Hin Hk) as (_ & _ & _ & Hf & _).
    assert (Hz : count_exec j (log s) = O).
    { destruct (count_exec j (log s)) as [|n] eqn:Ec; [reflexivity|]. exfalso.
      destruct o2 as (Hfin & Hlt); [lia|].
      destruct (finished_stays_finished E prod_ok _ _ _ _ _ _ j I Hfin Hlt H Hr) as (_ & Hns & _). exact (Hns Hs). }
    rewrite Hz. split; [lia|]. intros _. exact Hf.
  - rewrite (not_started_count _ _ Hn). cbn [Nat.add]. split; [exact o1|]. intros Hone.
    destruct (o2 Hone) as (Hfin & Hlt).
    apply (finished_stays_finished E prod_ok _ _ _ _ _ _ j I Hfin Hlt H Hr).
Qed.

(* starts so far plus the pending start, of a countdown job *)
Definition pend (s : st) (j : nat) : nat := match jnext (jobs s j) with Some _ => 1%nat | None => O end.
Definition cdm (s : st) (j : nat) : nat := (count_exec j (log s) + pend s j)%nat.
Definition isreset (o : op) (j : nat) : nat := match o with OReset i => if Nat.eqb i j then 1%nat else O | _ => O end.
Definition cbound (s : st) (j : nat) : nat := if (j <? njobs s)%nat then cdm s j else O.

Lemma cd_step_op fuel hs s o s' r j :
  Inv s -> ExactInv s -> LogBound s -> op_typed s o -> step_op E fuel hs s o = (s', r) -> r <> NoFuel ->
  (j < njobs s')%nat -> jkind (jobs s' j) = KCountdown -> (cdm s' j <= cbound s j + isreset o j)%nat.
Proof.
  intros I X B Hty H Hr Hj Hk. unfold cbound, cdm.
  destruct (step_op_once_count _ _ _ _ _ _ j I H Hr) as (Hle & Hc). rewrite Hc.
  pose proof (step_op_once _ _ _ _ _ _ I H Hr _ (step_op_log E prod_ok _ _ _ _ _ _ I H Hr)) as Hon.
  destruct (Nat.ltb_spec j (njobs s)) as [Hlt|Hge].
  - pose proof (not_creation_target s o j Hlt) as Hnc.
    destruct (job_identity_stable E prod_ok _ _ _ _ _ _ j I H Hr Hnc) as (e & _).
    assert (Hks : jkind (jobs s j) = KCountdown) by congruence.
    destruct (started_dec j (new_events s s')) as [Hs|Hn].
    + pose proof Hs as (t & a & oi & Hin). rewrite (started_count _ _ Hon Hs).
      destruct (countdown_start_exact E prod_ok _ _ _ _ _ _ _ _ _ _ I X Hty H Hr Hin Hk) as (_ & p1 & _ & _ & _ & p2 & _).
      unfold pend. rewrite p1, p2. lia.
    + rewrite (not_started_count _ _ Hn). unfold pend at 1.
      destruct (jnext (jobs s' j)) as [a|] eqn:En; [|lia].
      destruct (countdown_next_only_by_reset E prod_ok _ _ _ _ _ _ j a I Hty H Hr Hks Hnc En) as [p|(-> & _)].
      * unfold pend. rewrite p. lia.
      * cbn [isreset]. rewrite Nat.eqb_refl. lia.
  - rewrite (B j Hge).
    assert (Hn : ~ started j (new_events s s')).
    { intros Hs. pose proof Hs as (t & a & oi & Hin).
      destruct (countdown_start_exact E prod_ok _ _ _ _ _ _ _ _ _ _ I X Hty H Hr Hin Hk) as (p0 & _).
      pose proof (wf_rn _ _ (proj1 I) j (wf_lk _ _ (proj1 I) j p0)). lia. }
    rewrite (not_started_count _ _ Hn). unfold pend.
    destruct (jnext (jobs s' j)) as [a|] eqn:En; [|lia]. exfalso.
    (* a next-run time implies RUNNING, hence linked, hence an existing job: it is the job just created *)
    pose proof (step_op_inv E _ _ _ _ _ _ I H Hr) as I'.
    destruct (step_op_frame E prod_ok _ _ _ _ _ _ I H Hr) as (l & F).
    destruct (op_K_dec s o j) as [HK|HK].
    + destruct (op_K_cases _ _ _ HK) as [(Hcr & ->)|Htg].
      * destruct o; cbn in Hcr; try contradiction; cbn [step_op] in H.
        -- destruct (create_record E prod_ok _ _ _ _ _ _ H Hr) as [->|(n & c1 & _)]; [lia|]. cbn in c1. congruence.
        -- destruct (secs <=? 0); [injection H as <- _; lia|].
           destruct (create_record E prod_ok _ _ _ _ _ _ H Hr) as [->|(n & c1 & _ & _ & c4)]; [lia|].
           cbn in c1, c4. destruct c4 as [(_ & c)|[(c & _)|[(_ & _ & c)|c]]]; congruence.
        -- destruct (create_record E prod_ok _ _ _ _ _ _ H Hr) as [->|(n & c1 & _)]; [lia|]. cbn in c1. congruence.
      * pose proof (target_record E prod_ok _ _ _ _ _ _ _ Htg H Hr) as (t1 & _ & _ & _ & t5).
        assert (Hnone : jnext (jobs s j) = None).
        { destruct (jnext (jobs s j)) eqn:Ej; [|reflexivity]. exfalso.
          assert (Hrun : jstatus (jobs s j) = Running) by (apply (wf_sn _ _ (proj1 I) j); unfold nxt; congruence).
          pose proof (wf_rn _ _ (proj1 I) j (wf_lk _ _ (proj1 I) j Hrun)). lia. }
        destruct t5 as [e|[e|[e|[(e & _)|e]]]]; try congruence.
        -- subst o. cbn [step_op] in H. destruct (jlinked (jobs s j)) eqn:El.
           ++ pose proof (wf_rn _ _ (proj1 I) j El). lia.
           ++ cbn [negb] in H. injection H as <- _. congruence.
        -- subst o. cbn in Hty. congruence.
    + destruct (untouched_or_due E prod_ok _ _ _ _ _ _ j I H Hr HK) as (Hsame & _). rewrite (Hsame Hn) in En.
      assert (Hrun : jstatus (jobs s j) = Running) by (apply (wf_sn _ _ (proj1 I) j); unfold nxt; congruence).
      pose proof (wf_rn _ _ (proj1 I) j (wf_lk _ _ (proj1 I) j Hrun)). lia.
Qed.

Definition XHist (s : st) : Prop := Inv s /\ ExactInv s /\ LogBound s /\ OnceCnt s.

Lemma XHist_init t0 en : XHist (init t0 en).
Proof.
  split; [apply Inv_init|]. split; [apply ExactInv_init|]. split.
  - intros j _. reflexivity.
  - intros j Hj. cbn in Hj. lia.
Qed.

Lemma XHist_step fuel hs s o s1 r :
  XHist s -> op_typed s o -> step E fuel hs s o = (s1, r) -> r <> NoFuel -> XHist s1.
Proof.
  intros (I & X & B & C) Hty ES Hr. unfold step in ES.
  destruct (step_op E fuel hs s o) as (sx, rx) eqn:EO. injection ES as <- <-.
  split; [apply Inv_opi; exact (step_op_inv E _ _ _ _ _ _ I EO Hr)|].
  split; [exact (exact_step_op E prod_ok _ _ _ _ _ _ I X Hty EO Hr)|].
  split; [exact (LogBound_step_op _ _ _ _ _ _ I B EO Hr)|exact (OnceCnt_step_op _ _ _ _ _ _ I X B C Hty EO Hr)].
Qed.

Theorem XHist_run fuel hs ops : forall s s' rs,
  XHist s -> ops_typed E fuel hs s ops -> run E fuel hs s ops = (s', rs) -> ~ In NoFuel rs -> XHist s'.
Proof.
  induction ops as [|o t IH]; intros s s' rs Hs Hty H Hr; cbn [run] in H.
  - injection H as <- <-. exact Hs.
  - destruct Hty as (Ho & Ht). destruct (step E fuel hs s o) as (s1, r) eqn:ES.
    destruct (run E fuel hs s1 t) as (s2, rs') eqn:ER. injection H as <- <-.
    assert (Hr1 : r <> NoFuel) by (intros ->; apply Hr; left; reflexivity).
    apply (IH s1 s2 rs' (XHist_step _ _ _ _ _ _ Hs Ho ES Hr1) Ht ER). intros Hc; apply Hr; right; exact Hc.
Qed.

(* C08 / C02: in every history a one-shot job is started at most once, and after its start it is finished *)
Theorem once_at_most_once fuel hs t0 en ops s rs j :
  ops_typed E fuel hs (init t0 en) ops -> run E fuel hs (init t0 en) ops = (s, rs) -> ~ In NoFuel rs ->
  (j < njobs s)%nat -> jkind (jobs s j) = KOnce ->
  (count_exec j (log s) <= 1)%nat /\ (count_exec j (log s) = 1%nat -> jstatus (jobs s j) = Finished).
Proof.
  intros Hty H Hr Hj Hk. destruct (XHist_run _ _ _ _ _ _ (XHist_init t0 en) Hty H Hr) as (_ & _ & _ & C).
  apply (C j Hj Hk).
Qed.

Fixpoint resets (j : nat) (ops : list op) : nat :=
  match ops with [] => O | o :: t => (isreset o j + resets j t)%nat end.

Lemma kind_stable_run fuel hs ops : forall s s' rs j,
  Inv s -> run E fuel hs s ops = (s', rs) -> ~ In NoFuel rs -> (j < njobs s)%nat ->
  jkind (jobs s' j) = jkind (jobs s j) /\ (j < njobs s')%nat.
Proof.
  induction ops as [|o t IH]; intros s s' rs j I H Hr Hj; cbn [run] in H.
  - injection H as <- <-. auto.
  - destruct (step E fuel hs s o) as (s1, r) eqn:ES. destruct (run E fuel hs s1 t) as (s2, rs') eqn:ER.
    injection H as <- <-.
    assert (Hr1 : r <> NoFuel) by (intros ->; apply Hr; left; reflexivity).
    pose proof (step_inv E _ _ _ _ _ _ I ES Hr1) as I1.
    unfold step in ES. destruct (step_op E fuel hs s o) as (sx, rx) eqn:EO. injection ES as <- <-.
    destruct (job_identity_stable E prod_ok _ _ _ _ _ _ j I EO Hr1 (not_creation_target s o j Hj)) as (e & _).
    destruct (step_op_frame E prod_ok _ _ _ _ _ _ I EO Hr1) as (l & F). pose proof (of_njobs _ _ _ _ _ F) as Hn.
    destruct (IH _ _ _ j I1 ER) as (e2 & Hj2); [intros Hc; apply Hr; right; exact Hc|cbn [njobs set_opi]; lia|].
    split; [|exact Hj2]. rewrite e2. exact e.
Qed.

(* C08: a countdown job never executes without a preceding reset, and at most once per reset: in every history
   (number of its starts) + (1 if a start is pending) <= number of reset() calls on it *)
Theorem cd_run fuel hs ops : forall s s' rs j,
  XHist s -> ops_typed E fuel hs s ops -> run E fuel hs s ops = (s', rs) -> ~ In NoFuel rs ->
  (j < njobs s')%nat -> jkind (jobs s' j) = KCountdown -> (cdm s' j <= cbound s j + resets j ops)%nat.
Proof.
  induction ops as [|o t IH]; intros s s' rs j Hs Hty H Hr Hj Hk; cbn [run] in H.
  - injection H as <- <-. unfold cbound. destruct (Nat.ltb_spec j (njobs s)); cbn [resets]; lia.
  - destruct Hty as (Ho & Ht). destruct (step E fuel hs s o) as (s1, r) eqn:ES.
    destruct (run E fuel hs s1 t) as (s2, rs') eqn:ER. injection H as <- <-.
    assert (Hr1 : r <> NoFuel) by (intros ->; apply Hr; left; reflexivity).
    assert (Hr2 : ~ In NoFuel rs') by (intros Hc; apply Hr; right; exact Hc).
    pose proof (XHist_step _ _ _ _ _ _ Hs Ho ES Hr1) as Hs1.
    pose proof (IH s1 s2 rs' j Hs1 Ht ER Hr2 Hj Hk) as Hrec. cbn [resets].
    enough (cbound s1 j <= cbound s j + isreset o j)%nat by lia.
    unfold cbound at 1. destruct (Nat.ltb_spec j (njobs s1)) as [Hlt|Hge]; [|lia].
    destruct (kind_stable_run _ _ _ _ _ _ j (proj1 Hs1) ER Hr2 Hlt) as (e & _).
    destruct Hs as (I & X & B & _). unfold step in ES.
    destruct (step_op E fuel hs s o) as (sx, rx) eqn:EO. injection ES as <- <-.
    apply (cd_step_op _ _ _ _ _ _ j I X B Ho EO Hr1); [exact Hlt|]. cbn [jobs set_opi] in e. congruence.
Qed.

Theorem no_exec_without_reset fuel hs t0 en ops s rs j :
  ops_typed E fuel hs (init t0 en) ops -> run E fuel hs (init t0 en) ops = (s, rs) -> ~ In NoFuel rs ->
  (j < njobs s)%nat -> jkind (jobs s j) = KCountdown ->
  (count_exec j (log s) + pend s j <= resets j ops)%nat.
Proof.
  intros Hty H Hr Hj Hk. exact (cd_run _ _ _ _ _ _ j (XHist_init t0 en) Hty H Hr Hj Hk).
Qed.
End OnceCore.

(* the bounds are attained on the example history of SchedExact3.v: one start of the one-shot job 0 and one
   start of the countdown job 1 for its single reset *)
Example once_counts_example :
  let '(s, rs) := run exact_env 20 false (init 0 true) exact_ops in
  count_exec 0 (log s) = 1%nat /\ count_exec 1 (log s) = 1%nat /\ pend s 1 = O /\ resets 1 exact_ops = 1%nat.
Proof. vm_compute. repeat split. Qed.
