(* SchedExact2.v — C02: the frame of the API operations.  What one operation (creation, control call, enable,
   wake-up) may start and which job records it may change, for every reachable state and every amount of fuel:
   [step_op_frame]; then the C02 statements: a callable starts only while its job is RUNNING with a reached
   announced time (or the operation re-arms that very job), operations on one job do not touch another job,
   finished jobs stay finished and never start, a failed creation leaves nothing that could run. *)
From EAS Require Import Base BaseFacts Sched SchedInv SchedApi SchedProps SchedExact.
From EASGen Require Import Generated.

(* [K]: jobs whose record the operation may change directly; [A]: (job, announced time) it may start although
   the job was not queued with that reached next-run time (the job it (re-)arms) *)
Record OpFr (K : nat -> Prop) (A : nat -> Z -> Prop) (s s' : st) (l : list event) : Prop := {
  of_log : log s' = l ++ log s;
  of_opi : opi s' = opi s;
  of_now : now s <= now s';
  of_njobs : (njobs s <= njobs s')%nat;
  of_keep : forall k, ~ K k -> ~ started k l -> jobs s' k = jobs s k;
  of_exec : forall j t a o, In (EExec j t a o) l ->
              t = now s /\ o = opi s /\ (A j a \/ (~ K j /\ In j (queue s) /\ due_at s j a));
  of_step : forall k, ~ K k -> jstep (jobs s k) (jobs s' k);
  of_cool : forall k a, started k l -> ~ due_at s' k a;
  of_due : forall j t a o, In (EExec j t a o) l -> a <= now s
}.

Definition NoA2 : nat -> Z -> Prop := fun _ _ => False.

Lemma OpFr_refl K A s : OpFr K A s s [].
Proof.
  constructor; auto.
  - lia.
  - intros j t a o [].
  - intros k _. apply jstep_refl.
  - intros k a (t & x & o & []).
  - intros j t a o [].
Qed.

Lemma OpFr_weaken (K : nat -> Prop) (A A' : nat -> Z -> Prop) s s' l :
  (forall k a, A k a -> A' k a) -> OpFr K A s s' l -> OpFr K A' s s' l.
Proof.
  intros HA [H1 H2 H0 H3 H4 H5 H6 H7 H8]. constructor; auto.
  intros j t a o Hin. destruct (H5 j t a o Hin) as (p & q & [r|r]); auto.
Qed.

(* before the core runs: events that are not starts, and a change of job j only *)
Definition PreOK (j : nat) (s sx : st) (l0 : list event) : Prop :=
  log sx = l0 ++ log s /\ noexec l0 /\ now sx = now s /\ opi sx = opi s /\ (njobs s <= njobs sx)%nat /\
  queue sx = queue s /\ (forall k, k <> j -> jobs sx k = jobs s k).
(* after the core has run *)
Definition PostOK (j : nat) (s1 s' : st) : Prop :=
  exists l2, log s' = l2 ++ log s1 /\ noexec l2 /\ opi s' = opi s1 /\ njobs s' = njobs s1 /\
             (forall k, k <> j -> jobs s' k = jobs s1 k) /\ now s' = now s1 /\
             (jobs s' j = jobs s1 j \/ jnext (jobs s' j) = None).

Lemma PreOK_refl j s : PreOK j s s [].
Proof. unfold PreOK. repeat split; auto. apply noexec_nil. Qed.

Lemma PostOK_refl j s : PostOK j s s.
Proof. exists []. split; [reflexivity|]. split; [apply noexec_nil|]. auto 8. Qed.

(* pre-change, one run of the core described by [Fr], post-change *)
Lemma OpFr_core (A : nat -> Z -> Prop) (A' : nat -> Prop) j s sx sa sb s' l0 l :
  PreOK j s sx l0 ->
  log sa = log sx -> now sa = now sx -> opi sa = opi sx -> njobs sa = njobs sx -> jobs sa = jobs sx ->
  Fr A' sa sb l ->
  (forall i a, A' i \/ In i (queue sa) -> due_at sa i a -> A i a \/ (i <> j /\ In i (queue s))) ->
  PostOK j sb s' ->
  exists l', OpFr (eq j) A s s' l'.
Proof.
  intros (a1 & a2 & a3 & a4 & a5 & a6 & a7) b1 b2 b3 b4 b5 [H1 H2 H3 H4 H5 H6 H7 H8 H9 H10] Hside
         (l2 & c1 & c2 & c3 & c4 & c5 & c6 & c7).
  exists (l2 ++ l ++ l0). constructor.
  - rewrite c1, H1, b1, a1. rewrite <- !app_assoc. reflexivity.
  - congruence.
  - assert (now s' = now s) by congruence. lia.
  - rewrite c4, H4, b4. exact a5.
  - intros k HK Hk. assert (Hne : k <> j) by congruence.
    rewrite (c5 k Hne), H6, b5; [apply a7; exact Hne|].
    intros Hs. apply Hk. apply started_app. right. apply started_app. left. exact Hs.
  - intros i t x o Hin. apply in_app_or in Hin. destruct Hin as [Hin|Hin]; [destruct (c2 _ _ _ _ Hin)|].
    apply in_app_or in Hin. destruct Hin as [Hin|Hin]; [|destruct (a2 _ _ _ _ Hin)].
    destruct (H7 _ _ _ _ Hin) as (p & q & r & u1 & u2).
    split; [congruence|]. split; [congruence|].
    destruct (Hside i x r (conj u1 u2)) as [Ha|(Hne & Hq)]; [left; exact Ha|right].
    split; [congruence|]. split; [exact Hq|]. unfold due_at. rewrite <- (a7 i Hne), <- b5, <- a3, <- b2. split; assumption.
  - intros k HK. assert (Hne : k <> j) by congruence.
    rewrite (c5 k Hne), <- (a7 k Hne), <- b5. apply H10.
  - intros k x Hk (Hd1 & Hd2). apply started_app in Hk.
    destruct Hk as [Hk|Hk]; [exact (noexec_not_started _ _ c2 Hk)|]. apply started_app in Hk.
    destruct Hk as [Hk|Hk]; [|exact (noexec_not_started _ _ a2 Hk)].
    apply (H8 k x Hk). unfold due_at. rewrite <- c6. split; [|exact Hd2].
    destruct (Nat.eq_dec k j) as [->|Hne]; [|rewrite <- (c5 k Hne); exact Hd1].
    destruct c7 as [c7|c7]; [rewrite <- c7; exact Hd1|congruence].
  - intros i t x o Hin. apply in_app_or in Hin. destruct Hin as [Hin|Hin]; [destruct (c2 _ _ _ _ Hin)|].
    apply in_app_or in Hin. destruct Hin as [Hin|Hin]; [|destruct (a2 _ _ _ _ Hin)].
    destruct (H7 _ _ _ _ Hin) as (p & q & r & u1 & u2). rewrite <- a3, <- b2. exact u2.
Qed.

Lemma PreOK_ev j s sx l0 e : (forall i t a o, e <> EExec i t a o) -> PreOK j s sx l0 -> PreOK j s (add_ev e sx) (e :: l0).
Proof.
  intros He (a1 & a2 & a3 & a4 & a5 & a6 & a7). unfold PreOK. cbn [log add_ev set_log now opi njobs queue jobs].
  split; [rewrite a1; reflexivity|]. split; [|auto 6].
  intros i t a o [Hc|Hc]; [eapply He; exact Hc|eapply a2; exact Hc].
Qed.

Section Ops.
Variable E : env.
Hypothesis prod_ok : forall j k t, exists v, prod E j k t = Ok v /\ t < v.

Lemma PreOK_snr j nx s sx l0 : PreOK j s sx l0 -> exists l1, PreOK j s (set_next_run E j nx sx) l1.
Proof.
  intros (a1 & a2 & a3 & a4 & a5 & a6 & a7).
  destruct (set_next_run_props E j nx sx) as (q1 & q2 & q3 & q4 & q5 & q6 & q7 & q8 & q9).
  destruct (set_next_run_log E j nx sx) as (l & Hl & Hn).
  exists (l ++ l0). unfold PreOK. rewrite Hl, a1, q2, q6, q5, q1, q9.
  split; [apply app_assoc|]. split; [apply noexec_app; assumption|]. repeat (split; [assumption|]).
  intros k Hne. unfold upd. destruct (Nat.eqb_spec k j); [congruence|apply a7; exact Hne].
Qed.

Lemma PostOK_snr j s1 : PostOK j s1 (set_next_run E j None s1).
Proof.
  destruct (set_next_run_props E j None s1) as (q1 & q2 & q3 & q4 & q5 & q6 & q7 & q8 & q9).
  destruct (set_next_run_log E j None s1) as (l & Hl & Hn).
  exists l. repeat (split; [assumption|]). split; [|split; [exact q2|]].
  - intros k Hne. rewrite q9. unfold upd. destruct (Nat.eqb_spec k j); [congruence|reflexivity].
  - right. rewrite q9. unfold upd. rewrite Nat.eqb_refl. reflexivity.
Qed.

Lemma PostOK_finish j s1 : PostOK j s1 (finish_job E j s1).
Proof.
  destruct (finish_job_props E j s1) as (q1 & q2 & q3 & q4 & q5 & q6 & q7 & q8).
  destruct (finish_job_log E j s1) as (l & Hl & Hn).
  exists l. repeat (split; [assumption|]). split; [|split; [exact q2|]].
  - intros k Hne. rewrite q8. unfold upd. destruct (Nat.eqb_spec k j); [congruence|reflexivity].
  - right. rewrite q8. unfold upd. rewrite Nat.eqb_refl. reflexivity.
Qed.
(* no core call at all *)
Lemma op_pre_only A j s sx l0 : PreOK j s sx l0 -> OpFr (eq j) A s sx l0.
Proof.
  intros (a1 & a2 & a3 & a4 & a5 & a6 & a7). constructor.
  - exact a1.
  - exact a4.
  - lia.
  - exact a5.
  - intros k HK _. apply a7. congruence.
  - intros i t a o Hin. destruct (a2 _ _ _ _ Hin).
  - intros k HK. rewrite a7 by congruence. apply jstep_refl.
  - intros k a Hk. destruct (noexec_not_started _ _ a2 Hk).
  - intros i t a o Hin. destruct (a2 _ _ _ _ Hin).
Qed.

(* link / arm: add_job of the job the operation is about *)
Lemma op_arm fuel j s sx s' l0 :
  PreOK j s sx l0 -> add_job E fuel j sx = Some s' ->
  exists l, OpFr (eq j) (fun i a => i = j /\ due_at sx i a) s s' l.
Proof.
  intros P H. pose proof P as (a1 & a2 & a3 & a4 & a5 & a6 & a7).
  destruct (fr_specs_all E prod_ok fuel) as (_ & _ & _ & Hadd & _). destruct (Hadd j sx s' H) as (l & F).
  eapply (OpFr_core _ (eq j) j s sx sx s' s' l0 l); try reflexivity; [exact P|exact F| |apply PostOK_refl].
  intros i a Hi Hd. destruct (Nat.eq_dec i j) as [->|Hne]; [left; split; [reflexivity|exact Hd]|right].
  split; [exact Hne|]. destruct Hi as [Hi|Hi]; [congruence|rewrite <- a6; exact Hi].
Qed.

(* cancel / pause / failed creation: remove_job, then the job's record is replaced *)
Lemma op_remove fuel j s sx s1 s' l0 :
  PreOK j s sx l0 -> NoDup (queue s) -> remove_job E fuel j sx = Some s1 -> PostOK j s1 s' ->
  exists l, OpFr (eq j) NoA2 s s' l.
Proof.
  intros P Hnd H Q. pose proof P as (a1 & a2 & a3 & a4 & a5 & a6 & a7).
  destruct (fr_specs_all E prod_ok fuel) as (_ & _ & _ & _ & Hrm & _). destruct (Hrm j sx s1 H) as (l & F).
  eapply (OpFr_core NoA2 NoA j s sx (set_queue (remove_first j (queue sx)) sx) s1 s' l0 l); try reflexivity; [exact P|exact F| |exact Q].
  intros i a [[]|Hi] _. right. cbn [queue set_queue] in Hi. rewrite a6 in Hi. split.
  - intros ->. exact (remove_first_NoDup_notin _ _ Hnd Hi).
  - eapply remove_first_In; exact Hi.
Qed.

(* reset / resume: update_job = remove_job; add_job *)
Lemma op_update fuel j s sx s' l0 :
  PreOK j s sx l0 -> NoDup (queue s) -> update_job E fuel j sx = Some s' ->
  exists l, OpFr (eq j) (fun i a => i = j /\ due_at sx i a) s s' l.
Proof.
  intros P Hnd H. pose proof P as (a1 & a2 & a3 & a4 & a5 & a6 & a7). unfold update_job in H.
  destruct (remove_job E fuel j sx) as [s3|] eqn:ER; [|discriminate].
  destruct (fr_specs_all E prod_ok fuel) as (_ & _ & _ & Hadd & Hrm & _).
  destruct (Hrm j sx s3 ER) as (l1 & F1). destruct (Hadd j s3 s' H) as (l2 & F2).
  assert (F1' : Fr (eq j) (set_queue (remove_first j (queue sx)) sx) s3 l1).
  { eapply Fr_pre; [..|exact F1]; try reflexivity. intros k [[]|Hk]; right; exact Hk. }
  assert (F12 : Fr (eq j) (set_queue (remove_first j (queue sx)) sx) s' (l2 ++ l1)).
  { eapply Fr_trans; [exact F1'|exact F2|]. intros k Hk; left; exact Hk. }
  eapply (OpFr_core _ (eq j) j s sx (set_queue (remove_first j (queue sx)) sx) s' s' l0 (l2 ++ l1)); try reflexivity; [exact P|exact F12| |apply PostOK_refl].
  intros i a Hi Hd. destruct (Nat.eq_dec i j) as [->|Hne]; [left; split; [reflexivity|exact Hd]|right].
  split; [exact Hne|]. destruct Hi as [Hi|Hi]; [congruence|].
  cbn [queue set_queue] in Hi. rewrite a6 in Hi. eapply remove_first_In; exact Hi.
Qed.

(* creation: allocate, first next-run time, link (add_job) - or finish the job again when that fails *)
Lemma create_frame fuel hs b s s' r :
  Inv s -> create E fuel hs b s = (s', r) -> r <> NoFuel ->
  exists l, OpFr (eq (njobs s))
              (fun k a => njobs s = k /\ r = Done /\ (jkind b = KOnce /\ a = jexec_t b \/ jkind b = KAt)) s s' l.
Proof.
  intros (W & T) H Hr. unfold create in H.
  destruct (hs && store_has (jkey b) (store s)); [injection H as <- <-; exists []; apply OpFr_refl|].
  cbv zeta in H.
  set (j := njobs s) in *.
  match type of H with context [jkind ?bb] => set (b1 := bb) in * end.
  match type of H with context [too_old ?sx (jexec_t b1)] => set (s1 := sx) in * end.
  assert (P1 : PreOK j s s1 []).
  { subst s1. unfold PreOK.
    assert (Hj : forall k, k <> j -> upd (jobs s) j b1 k = jobs s k).
    { intros k Hne. unfold upd. destruct (Nat.eqb_spec k j); [congruence|reflexivity]. }
    destruct hs; cbn [log now opi njobs queue jobs set_store set_njobs set_job set_jobs app];
      (split; [reflexivity|]); (split; [apply noexec_nil|]); repeat (split; [reflexivity|]);
      (split; [subst j; lia|]); (split; [reflexivity|exact Hj]). }
  clearbody s1.
  assert (Hnd : NoDup (queue s)) by apply (wf_nodup _ _ W).
  assert (Hfin : forall sx e l0, PreOK j s sx l0 ->
            (match job_finish E fuel j sx with Some sy => (sy, Raised e) | None => (sx, NoFuel) end) = (s', r) ->
            exists l, OpFr (eq j) NoA2 s s' l).
  { intros sx e l0 Px Hx. rewrite job_finish_eq in Hx. destruct (remove_job E fuel j sx) as [sy|] eqn:ER.
    - injection Hx as <- <-.
      apply (op_remove fuel j s sx sy _ l0 Px Hnd ER (PostOK_finish j sy)).
    - injection Hx as <- <-. congruence. }
  assert (Harm : forall sx nx l0, PreOK j s sx l0 ->
            lift (add_job E fuel j (set_next_run E j nx sx)) (set_next_run E j nx sx) = (s', r) ->
            exists l, OpFr (eq j) (fun k a => j = k /\ r = Done /\ nx = Some a) s s' l).
  { intros sx nx l0 Px Hx. destruct (PreOK_snr j nx s sx l0 Px) as (l1 & P2). unfold lift in Hx.
    destruct (add_job E fuel j _) as [sy|] eqn:EA.
    - injection Hx as <- <-. destruct (op_arm fuel j s _ sy l1 P2 EA) as (l & F). exists l.
      eapply OpFr_weaken; [|exact F]. intros k a (-> & Hd & _). split; [reflexivity|]. split; [reflexivity|].
      destruct (set_next_run_props E j nx sx) as (_ & _ & _ & _ & _ & _ & _ & _ & q9). rewrite q9 in Hd.
      unfold upd in Hd. rewrite Nat.eqb_refl in Hd. cbn in Hd. exact Hd.
    - injection Hx as <- <-. congruence. }
  assert (Hw : forall (A0 : nat -> Z -> Prop),
            (forall k a, A0 k a -> j = k /\ r = Done /\ (jkind b = KOnce /\ a = jexec_t b \/ jkind b = KAt)) ->
            (exists l, OpFr (eq j) A0 s s' l) ->
            exists l, OpFr (eq j) (fun k a => j = k /\ r = Done /\ (jkind b = KOnce /\ a = jexec_t b \/ jkind b = KAt)) s s' l).
  { intros A0 HA (l & F). exists l. eapply OpFr_weaken; [exact HA|exact F]. }
  assert (Hkb : jkind b1 = jkind b) by reflexivity. assert (Htb : jexec_t b1 = jexec_t b) by reflexivity.
  destruct (jkind b1) eqn:Ek.
  - destruct (too_old s1 (jexec_t b1)).
    + eapply Hw; [|eapply Hfin; eassumption]. intros k a [].
    + eapply Hw; [|eapply Harm; eassumption]. cbn beta. intros k a (p & q & u). injection u as <-. auto 6.
  - eapply Hw; [|eapply Harm; eassumption]. cbn beta. intros k a (p & q & u). discriminate.
  - assert (P2 : PreOK j s (add_ev (EProd j) s1) [EProd j]) by (apply PreOK_ev; [intros; discriminate|exact P1]).
    destruct (prod E j _ _) as [v|e|].
    + destruct (too_old _ v).
      * eapply Hw; [|eapply Hfin; eassumption]. intros k a [].
      * eapply Hw; [|eapply Harm; eassumption]. cbn beta. intros k a (p & q & u). auto.
    + eapply Hw; [|eapply Hfin; eassumption]. intros k a [].
    + injection H as <- <-. congruence.
Qed.

Lemma PreOK_set_job j b s : PreOK j s (set_job j b s) [].
Proof.
  unfold PreOK. cbn [log now opi njobs queue jobs set_job set_jobs app].
  split; [reflexivity|]. split; [apply noexec_nil|]. split; [reflexivity|]. split; [reflexivity|].
  split; [lia|]. split; [reflexivity|].
  intros k Hne. unfold upd. destruct (Nat.eqb_spec k j); [congruence|reflexivity].
Qed.

Lemma OpFr_same (K : nat -> Prop) (A : nat -> Z -> Prop) s s' :
  log s' = log s -> opi s' = opi s -> now s <= now s' -> njobs s' = njobs s -> jobs s' = jobs s -> OpFr K A s s' [].
Proof.
  intros a b b' c d. constructor; auto.
  - lia.
  - intros k _ _. rewrite d; reflexivity.
  - intros j t x o [].
  - intros k _. rewrite d. apply jstep_refl.
  - intros k x (t & y & o & []).
  - intros j t x o [].
Qed.

(* an operation that is just one run of the core *)
Lemma Fr_OpFr s sa s' l :
  log sa = log s -> now sa = now s -> opi sa = opi s -> njobs sa = njobs s -> jobs sa = jobs s ->
  queue sa = queue s -> Fr NoA sa s' l -> OpFr NoA NoA2 s s' l.
Proof.
  intros a b c d e f [H1 H2 H3 H4 H5 H6 H7 H8 H9 H10]. constructor.
  - congruence.
  - congruence.
  - assert (now s' = now s) by congruence. lia.
  - rewrite H4, d. lia.
  - intros k _ Hk. rewrite (H6 k Hk), e. reflexivity.
  - intros j t x o Hin. destruct (H7 _ _ _ _ Hin) as (p & q & [[]|r] & u).
    split; [congruence|]. split; [congruence|]. right. split; [intros []|]. split; [congruence|].
    unfold due_at in *. rewrite <- e, <- b. exact u.
  - intros k _. rewrite <- e. apply H10.
  - exact H8.
  - intros j t x o Hin. destruct (H7 _ _ _ _ Hin) as (_ & _ & _ & _ & u). rewrite <- b. exact u.
Qed.

Definition op_K (s : st) (o : op) (k : nat) : Prop :=
  match o with
  | OOnce _ _ | OCountdown _ _ | OAt _ => njobs s = k
  | OCancel j | OPause j | OResume j | OReset j | OSetCountdown j _ | ORegister j _ _ | OUnregister j _ _ => j = k
  | _ => False
  end.
(* (job, announced time) that the operation itself arms: a start of it needs no earlier announcement *)
Definition op_A (s : st) (o : op) (r : outcome) (k : nat) (a : Z) : Prop :=
  match o with
  | OOnce t _ => njobs s = k /\ r = Done /\ a = t
  | OAt _ => njobs s = k /\ r = Done
  | OResume j => j = k
  | OReset j => j = k /\ a = now s + jsecs (jobs s j) /\ a <= now s
  | _ => False
  end.

Theorem step_op_frame fuel hs s o s' r :
  Inv s -> step_op E fuel hs s o = (s', r) -> r <> NoFuel ->
  exists l, OpFr (op_K s o) (op_A s o r) s s' l.
Proof.
  intros I H Hr. pose proof (wf_nodup _ _ (proj1 I)) as Hnd.
  assert (Hrefl : forall K A, exists l, OpFr K A s s l) by (intros; exists []; apply OpFr_refl).
  destruct (fr_specs_all E prod_ok fuel) as (Hst & Hrj & _).
  destruct o; cbn [step_op] in H; unfold op_K, op_A.
  - destruct (create_frame _ _ _ _ _ _ I H Hr) as (l & F). exists l. eapply OpFr_weaken; [|exact F].
    cbn. intros k a (p & q & [(_ & u)|u]); [auto|discriminate].
  - destruct (secs <=? 0); [injection H as <- <-; apply Hrefl|].
    destruct (create_frame _ _ _ _ _ _ I H Hr) as (l & F). exists l. eapply OpFr_weaken; [|exact F].
    cbn. intros k a (p & q & [(u & _)|u]); discriminate.
  - destruct (create_frame _ _ _ _ _ _ I H Hr) as (l & F). exists l. eapply OpFr_weaken; [|exact F].
    cbn. intros k a (p & q & _); auto.
  - (* cancel *)
    destruct (is_finished s j); [injection H as <- <-; apply Hrefl|].
    unfold lift in H. destruct (job_finish E fuel j s) as [s1|] eqn:EF; injection H as <- <-; [|congruence].
    rewrite job_finish_eq in EF. destruct (remove_job E fuel j s) as [s2|] eqn:ER; [|discriminate].
    injection EF as <-. eapply op_remove; [apply PreOK_refl|exact Hnd|exact ER|apply PostOK_finish].
  - (* pause *)
    destruct (is_finished s j); [injection H as <- <-; apply Hrefl|].
    destruct (remove_job E fuel j s) as [s2|] eqn:ER; injection H as <- <-; [|congruence].
    eapply op_remove; [apply PreOK_refl|exact Hnd|exact ER|apply PostOK_snr].
  - (* resume *)
    destruct (is_finished s j); [injection H as <- <-; apply Hrefl|].
    destruct (negb (jlinked (jobs s j))); [injection H as <- <-; apply Hrefl|]. cbv zeta in H.
    assert (P1 : PreOK j s (add_ev (EProd j) s) [EProd j]).
    { apply PreOK_ev; [intros; discriminate|apply PreOK_refl]. }
    destruct (prod E j _ _) as [v|e|];
      [|injection H as <- <-; eexists; apply op_pre_only; exact P1|injection H as <- <-; congruence].
    destruct (too_old _ v); [injection H as <- <-; eexists; apply op_pre_only; exact P1|].
    destruct (PreOK_snr j (Some v) _ _ _ P1) as (l1 & P2).
    unfold lift in H. destruct (update_job E fuel j _) as [s2|] eqn:EU; injection H as <- <-; [|congruence].
    destruct (op_update _ _ _ _ _ _ P2 Hnd EU) as (l & F). exists l. eapply OpFr_weaken; [|exact F].
    cbn beta. intros k a (-> & _). reflexivity.
  - (* reset *)
    destruct (negb (jlinked (jobs s j))); [injection H as <- <-; apply Hrefl|]. cbv zeta in H.
    destruct (PreOK_snr j (Some (now s + jsecs (jobs s j))) _ _ _ (PreOK_refl j s)) as (l1 & P2).
    unfold lift in H. destruct (update_job E fuel j _) as [s2|] eqn:EU; injection H as <- <-; [|congruence].
    destruct (op_update _ _ _ _ _ _ P2 Hnd EU) as (l & F). exists l. eapply OpFr_weaken; [|exact F].
    cbn beta. intros k a (-> & Hd & Hd2). split; [reflexivity|].
    destruct (set_next_run_props E j (Some (now s + jsecs (jobs s j))) s) as (_ & q2 & _ & _ & _ & _ & _ & _ & q9).
    rewrite q9 in Hd. unfold upd in Hd. rewrite Nat.eqb_refl in Hd. cbn in Hd. rewrite q2 in Hd2.
    split; [congruence|exact Hd2].
  - (* set_countdown *)
    destruct (is_finished s j); [injection H as <- <-; apply Hrefl|].
    destruct (secs <=? 0); injection H as <- <-; [apply Hrefl|].
    eexists; apply op_pre_only; apply PreOK_set_job.
  - (* enable *)
    destruct (Bool.eqb b (enabled s)); [injection H as <- <-; apply Hrefl|]. cbv zeta in H.
    unfold lift in H. destruct (set_timer E fuel (set_enabled_f b s)) as [s2|] eqn:ES; injection H as <- <-; [|congruence].
    destruct (Hst _ _ ES) as (l & F). exists l. eapply Fr_OpFr; [..|exact F]; reflexivity.
  - (* register *)
    destruct w; [destruct (memb cb (jcbu (jobs s j)))|destruct (memb cb (jcbf (jobs s j)))];
      injection H as <- <-; try apply Hrefl; eexists; apply op_pre_only; apply PreOK_set_job.
  - (* unregister *)
    destruct w; injection H as <- <-; eexists; apply op_pre_only; apply PreOK_set_job.
  - (* advance *)
    injection H as <- <-. exists []. apply OpFr_same; try reflexivity. cbn [now set_now]. lia.
  - (* wake *)
    destruct (timer s) as [w|]; [|injection H as <- <-; apply Hrefl].
    destruct (w <=? now s); [|injection H as <- <-; apply Hrefl].
    unfold lift in H. destruct (run_jobs E fuel s) as [s2|] eqn:ER; injection H as <- <-; [|congruence].
    destruct (Hrj _ _ ER) as (l & F). exists l. eapply Fr_OpFr; [..|exact F]; reflexivity.
  - (* early wake *)
    destruct (timer s) as [w|]; [|injection H as <- <-; apply Hrefl].
    unfold lift in H. destruct (run_jobs E fuel s) as [s2|] eqn:ER; injection H as <- <-; [|congruence].
    destruct (Hrj _ _ ER) as (l & F). exists l. eapply Fr_OpFr; [..|exact F]; reflexivity.
Qed.

Definition is_creation (o : op) : Prop :=
  match o with OOnce _ _ | OCountdown _ _ | OAt _ => True | _ => False end.
Definition op_addressee (o : op) : option nat :=
  match o with
  | OCancel j | OPause j | OResume j | OReset j | OSetCountdown j _ | ORegister j _ _ | OUnregister j _ _ => Some j
  | _ => None
  end.

Lemma op_A_K s o r k a : op_A s o r k a -> op_K s o k.
Proof. destruct o; cbn; tauto. Qed.

(* C02: a callable is started only while its job is RUNNING, for the next-run time the job had announced before
   the operation, and only when that time is reached - unless the operation itself (re-)arms this very job
   (reset, resume, successful creation) *)
Theorem exec_only_running fuel hs s o s' r :
  Inv s -> step_op E fuel hs s o = (s', r) -> r <> NoFuel ->
  forall j t a oi, In (EExec j t a oi) (new_events s s') ->
    t = now s /\ oi = opi s /\
    ((jstatus (jobs s j) = Running /\ In j (queue s) /\ jnext (jobs s j) = Some a /\ a <= now s) \/
     (o = OReset j /\ a = now s + jsecs (jobs s j) /\ a <= now s) \/ o = OResume j \/
     (j = njobs s /\ r = Done /\ ((exists key, o = OOnce a key) \/ (exists key, o = OAt key)))).
Proof.
  intros I H Hr j t a oi Hin. destruct (step_op_frame _ _ _ _ _ _ I H Hr) as (l & F).
  rewrite (new_events_app _ _ _ (of_log _ _ _ _ _ F)) in Hin.
  destruct (of_exec _ _ _ _ _ F _ _ _ _ Hin) as (p & q & [Ha|(HnK & Hq & Hd1 & Hd2)]).
  - split; [exact p|]. split; [exact q|]. right.
    destruct o; cbn in Ha; try contradiction.
    + destruct Ha as (<- & -> & ->). right; right. eauto 6.
    + destruct Ha as (<- & ->). right; right. eauto 6.
    + subst. auto.
    + destruct Ha as (<- & -> & Ha). auto.
  - split; [exact p|]. split; [exact q|]. left.
    split; [apply (wf_q _ _ (proj1 I) j Hq)|]. auto.
Qed.

(* every start made by an operation happens at the instant of the operation, not before the announced time *)
Theorem starts_were_due fuel hs s o s' r :
  Inv s -> step_op E fuel hs s o = (s', r) -> r <> NoFuel ->
  forall j t a oi, In (EExec j t a oi) (new_events s s') -> t = now s /\ oi = opi s /\ a <= t.
Proof.
  intros I H Hr j t a oi Hin. destruct (step_op_frame _ _ _ _ _ _ I H Hr) as (l & F).
  rewrite (new_events_app _ _ _ (of_log _ _ _ _ _ F)) in Hin.
  destruct (of_exec _ _ _ _ _ F _ _ _ _ Hin) as (p & q & _). pose proof (of_due _ _ _ _ _ F _ _ _ _ Hin). subst t. auto.
Qed.

(* C02 (non-interference): an operation does not change a job it is not addressed to and does not start it -
   unless that job was RUNNING with a reached next-run time already before the operation *)
Theorem untouched_or_due fuel hs s o s' r k :
  Inv s -> step_op E fuel hs s o = (s', r) -> r <> NoFuel -> ~ op_K s o k ->
  (~ started k (new_events s s') -> jobs s' k = jobs s k) /\
  (started k (new_events s s') ->
     jstatus (jobs s k) = Running /\ exists a, jnext (jobs s k) = Some a /\ a <= now s) /\
  jstep (jobs s k) (jobs s' k).
Proof.
  intros I H Hr HK. destruct (step_op_frame _ _ _ _ _ _ I H Hr) as (l & F).
  rewrite (new_events_app _ _ _ (of_log _ _ _ _ _ F)).
  split; [intros Hn; apply (of_keep _ _ _ _ _ F k HK Hn)|]. split; [|apply (of_step _ _ _ _ _ F k HK)].
  intros (t & a & oi & Hin).
  destruct (of_exec _ _ _ _ _ F _ _ _ _ Hin) as (_ & _ & [Ha|(HnK & Hq & Hd1 & Hd2)]).
  - destruct (HK (op_A_K _ _ _ _ _ Ha)).
  - split; [apply (wf_q _ _ (proj1 I) k Hq)|]. exists a. auto.
Qed.

Theorem others_untouched fuel hs s o s' r j k :
  Inv s -> op_addressee o = Some j -> k <> j -> step_op E fuel hs s o = (s', r) -> r <> NoFuel ->
  (jobs s' k = jobs s k /\ ~ started k (new_events s s')) \/
  (jstatus (jobs s k) = Running /\ exists a, jnext (jobs s k) = Some a /\ a <= now s).
Proof.
  intros I Ht Hne H Hr.
  assert (HK : ~ op_K s o k) by (destruct o; cbn in Ht |- *; try discriminate; injection Ht as ->; congruence).
  destruct (untouched_or_due _ _ _ _ _ _ k I H Hr HK) as (A1 & A2 & _).
  destruct (started_dec k (new_events s s')) as [Hs|Hn]; [right; apply A2; exact Hs|left; auto].
Qed.

Lemma new_events_same s s' : log s' = log s -> new_events s s' = [].
Proof. intros H. apply (new_events_app s s' []). exact H. Qed.

Lemma not_started_nil k : ~ started k [].
Proof. intros (t & a & o & []). Qed.

Lemma op_K_dec s o k : op_K s o k \/ ~ op_K s o k.
Proof. destruct o; cbn; try (right; tauto); try (destruct (Nat.eq_dec (njobs s) k); tauto); destruct (Nat.eq_dec j k); tauto. Qed.

(* the job an operation is addressed to is started by it only if the operation (re-)arms it *)
Theorem target_started fuel hs s o s' r j :
  Inv s -> step_op E fuel hs s o = (s', r) -> r <> NoFuel -> op_K s o j ->
  started j (new_events s s') -> exists a, op_A s o r j a.
Proof.
  intros I H Hr HK (t & a & oi & Hin). destruct (step_op_frame _ _ _ _ _ _ I H Hr) as (l & F).
  rewrite (new_events_app _ _ _ (of_log _ _ _ _ _ F)) in Hin.
  destruct (of_exec _ _ _ _ _ F _ _ _ _ Hin) as (_ & _ & [Ha|(HnK & _)]); [exists a; exact Ha|destruct (HnK HK)].
Qed.

(* C02: a job that is not RUNNING is started by no operation other than its own reset / resume *)
Theorem not_running_not_started fuel hs s o s' r j :
  Inv s -> jstatus (jobs s j) <> Running -> step_op E fuel hs s o = (s', r) -> r <> NoFuel ->
  started j (new_events s s') ->
  o = OReset j \/ o = OResume j \/ (is_creation o /\ j = njobs s /\ r = Done).
Proof.
  intros I Hn H Hr (t & a & oi & Hin).
  destruct (exec_only_running _ _ _ _ _ _ I H Hr _ _ _ _ Hin) as (_ & _ & [(Hc & _)|[(Hc & _)|[Hc|(p & q & Hc)]]]);
    [congruence|auto|auto|].
  right; right. split; [|auto]. destruct Hc as [(key & ->)|(key & ->)]; exact Logic.I.
Qed.

(* C02 / C08: FINISHED is final: no operation changes the status of a finished job or starts it *)
Theorem finished_stays_finished fuel hs s o s' r j :
  Inv s -> jstatus (jobs s j) = Finished -> (j < njobs s)%nat ->
  step_op E fuel hs s o = (s', r) -> r <> NoFuel ->
  jstatus (jobs s' j) = Finished /\ ~ started j (new_events s s') /\ (j < njobs s')%nat.
Proof.
  intros I Hf Hlt H Hr. destruct (step_op_frame _ _ _ _ _ _ I H Hr) as (l & F).
  assert (Hn' : (j < njobs s')%nat) by (pose proof (of_njobs _ _ _ _ _ F); lia).
  destruct (op_K_dec s o j) as [HK|HK].
  - assert (Hctl : control_op_on j o -> jstatus (jobs s' j) = Finished /\ ~ started j (new_events s s') /\ (j < njobs s')%nat).
    { intros Hc. destruct (finished_terminal E fuel hs s j o I Hf Hc) as (e & He). rewrite He in H.
      injection H as <- <-. rewrite new_events_same by reflexivity. split; [exact Hf|]. split; [apply not_started_nil|exact Hlt]. }
    unfold control_op_on in Hctl.
    destruct o; cbn in HK; try contradiction; try lia; subst; try (apply Hctl; eauto 6; fail).
    + cbn [step_op] in H.
      destruct w; [destruct (memb cb (jcbu (jobs s j)))|destruct (memb cb (jcbf (jobs s j)))];
        injection H as <- <-; (split; [|split; [rewrite new_events_same by reflexivity; apply not_started_nil|exact Hlt]]);
        rewrite ?jobs_upd_same; exact Hf.
    + cbn [step_op] in H.
      destruct w; injection H as <- <-;
        (split; [|split; [rewrite new_events_same by reflexivity; apply not_started_nil|exact Hlt]]);
        rewrite ?jobs_upd_same; exact Hf.
  - destruct (untouched_or_due _ _ _ _ _ _ j I H Hr HK) as (A1 & A2 & _).
    assert (Hns : ~ started j (new_events s s')) by (intros Hs; destruct (A2 Hs) as (Hc & _); congruence).
    split; [rewrite (A1 Hns); exact Hf|]. split; [exact Hns|exact Hn'].
Qed.

Lemma step_op_log fuel hs s o s' r :
  Inv s -> step_op E fuel hs s o = (s', r) -> r <> NoFuel -> log s' = new_events s s' ++ log s.
Proof.
  intros I H Hr. destruct (step_op_frame _ _ _ _ _ _ I H Hr) as (l & F).
  rewrite (new_events_app _ _ _ (of_log _ _ _ _ _ F)). apply (of_log _ _ _ _ _ F).
Qed.

Lemma count_exec_not_started j l x : ~ started j l -> count_exec j (l ++ x) = count_exec j x.
Proof.
  induction l as [|e t IH]; intros Hn; [reflexivity|].
  assert (Ht : ~ started j t) by (intros (a & b & c & H); apply Hn; exists a, b, c; right; exact H).
  destruct e as [k a b c| | | |]; cbn [app count_exec]; auto.
  destruct (Nat.eqb_spec k j) as [->|Hne]; [|auto].
  exfalso. apply Hn. exists a, b, c. left; reflexivity.
Qed.

(* ... in every later state of every history: the number of starts of a finished job never changes again *)
Theorem finished_never_restarts fuel hs ops : forall s s' rs j,
  Inv s -> jstatus (jobs s j) = Finished -> (j < njobs s)%nat ->
  run E fuel hs s ops = (s', rs) -> ~ In NoFuel rs ->
  jstatus (jobs s' j) = Finished /\ count_exec j (log s') = count_exec j (log s).
Proof.
  induction ops as [|o t IH]; intros s s' rs j I Hf Hlt H Hr; cbn [run] in H.
  - injection H as <- <-. auto.
  - destruct (step E fuel hs s o) as (s1, r) eqn:ES. destruct (run E fuel hs s1 t) as (s2, rs') eqn:ER.
    injection H as <- <-.
    assert (Hr1 : r <> NoFuel) by (intros ->; apply Hr; left; reflexivity).
    pose proof (step_inv E _ _ _ _ _ _ I ES Hr1) as I1.
    unfold step in ES. destruct (step_op E fuel hs s o) as (sx, rx) eqn:EO. injection ES as <- <-.
    destruct (finished_stays_finished _ _ _ _ _ _ j I Hf Hlt EO Hr1) as (Hf1 & Hns & Hlt1).
    destruct (IH _ _ _ j I1 Hf1 Hlt1 ER) as (Hf2 & Hc2); [intros Hc; apply Hr; right; exact Hc|].
    split; [exact Hf2|]. rewrite Hc2. cbn [log set_opi].
    rewrite (step_op_log _ _ _ _ _ _ I EO Hr1). apply count_exec_not_started. exact Hns.
Qed.

(* C02: once cancel() has returned the job is finished, once pause() / stop() has returned it is paused;
   the call itself does not start the job *)
Theorem quiet_after_cancel fuel hs s s' j :
  Inv s -> step_op E fuel hs s (OCancel j) = (s', Done) ->
  jstatus (jobs s' j) = Finished /\ ~ started j (new_events s s').
Proof.
  intros I H. split.
  - cbn [step_op] in H. destruct (is_finished s j); [discriminate|]. unfold lift in H.
    destruct (job_finish E fuel j s) as [s1|] eqn:EF; [|discriminate]. injection H as <-.
    rewrite job_finish_eq in EF. destruct (remove_job E fuel j s) as [s2|]; [|discriminate]. injection EF as <-.
    destruct (finish_job_props E j s2) as (_ & _ & _ & _ & _ & _ & _ & q8). rewrite q8. unfold upd.
    rewrite Nat.eqb_refl. reflexivity.
  - intros Hs. apply (target_started _ _ _ _ _ _ j I H) in Hs; [destruct Hs as (a & [])|discriminate|reflexivity].
Qed.

Theorem quiet_after_pause fuel hs s s' j :
  Inv s -> step_op E fuel hs s (OPause j) = (s', Done) ->
  jstatus (jobs s' j) = Paused /\ jnext (jobs s' j) = None /\ ~ started j (new_events s s').
Proof.
  intros I H. assert (Hj : jstatus (jobs s' j) = Paused /\ jnext (jobs s' j) = None).
  { cbn [step_op] in H. destruct (is_finished s j); [discriminate|].
    destruct (remove_job E fuel j s) as [s2|]; [|discriminate]. injection H as <-.
    destruct (set_next_run_props E j None s2) as (_ & _ & _ & _ & _ & _ & _ & _ & q9). rewrite q9. unfold upd.
    rewrite Nat.eqb_refl. split; reflexivity. }
  destruct Hj as (a & b). split; [exact a|]. split; [exact b|].
  intros Hs. apply (target_started _ _ _ _ _ _ j I H) in Hs; [destruct Hs as (x & [])|discriminate|reflexivity].
Qed.

(* ... and the next operation starts it again only if it is its own reset() / resume() *)
Theorem stopped_restarts_only_by_reset_resume fuel hs s o1 s1 o2 s2 r j :
  Inv s -> o1 = OCancel j \/ o1 = OPause j -> (j < njobs s)%nat ->
  step E fuel hs s o1 = (s1, Done) -> step E fuel hs s1 o2 = (s2, r) -> r <> NoFuel ->
  started j (new_events s1 s2) -> o2 = OReset j \/ o2 = OResume j.
Proof.
  intros I Ho Hlt H1 H2 Hr Hs.
  assert (Hd : Done <> NoFuel) by discriminate.
  pose proof (step_inv E _ _ _ _ _ _ I H1 Hd) as I1.
  unfold step in H1. destruct (step_op E fuel hs s o1) as (sx, rx) eqn:E1. injection H1 as <- ->.
  unfold step in H2. destruct (step_op E fuel hs (set_opi (S (opi sx)) sx) o2) as (sy, ry) eqn:E2. injection H2 as <- <-.
  assert (Hnr : jstatus (jobs (set_opi (S (opi sx)) sx) j) <> Running).
  { cbn [jobs set_opi]. destruct Ho as [->| ->].
    - destruct (quiet_after_cancel _ _ _ _ _ I E1) as (a & _). congruence.
    - destruct (quiet_after_pause _ _ _ _ _ I E1) as (a & _). congruence. }
  destruct (step_op_frame _ _ _ _ _ _ I E1 Hd) as (l & F). pose proof (of_njobs _ _ _ _ _ F) as Hn.
  change (new_events (set_opi (S (opi sx)) sx) (set_opi (S (opi sy)) sy))
    with (new_events (set_opi (S (opi sx)) sx) sy) in Hs.
  destruct (not_running_not_started _ _ _ _ _ _ j I1 Hnr E2 Hr Hs) as [Hc|[Hc|(_ & Hc & _)]]; auto.
  cbn [njobs set_opi] in Hc. lia.
Qed.

Lemma create_raised fuel hs b s s' e :
  create E fuel hs b s = (s', Raised e) ->
  s' = s \/ (njobs s' = S (njobs s) /\ jstatus (jobs s' (njobs s)) = Finished).
Proof.
  intros H. unfold create in H.
  destruct (hs && store_has (jkey b) (store s)); [injection H as <- _; left; reflexivity|]. right.
  cbv zeta in H.
  set (j := njobs s) in *.
  match type of H with context [jkind ?bb] => set (b1 := bb) in * end.
  match type of H with context [too_old ?sx (jexec_t b1)] => set (s1 := sx) in * end.
  assert (N1 : njobs s1 = S j) by (subst s1; destruct hs; reflexivity).
  clearbody s1.
  assert (Hfin : forall sx e', njobs sx = S j ->
            (match job_finish E fuel j sx with Some sy => (sy, Raised e') | None => (sx, NoFuel) end) = (s', Raised e) ->
            njobs s' = S j /\ jstatus (jobs s' j) = Finished).
  { intros sx e' Nx Hx. rewrite job_finish_eq in Hx. destruct (remove_job E fuel j sx) as [sy|] eqn:ER; [|discriminate].
    injection Hx as <- _.
    destruct (fr_specs_all E prod_ok fuel) as (_ & _ & _ & _ & Hrm & _). destruct (Hrm j sx sy ER) as (l & F).
    destruct (finish_job_props E j sy) as (_ & _ & _ & _ & q5 & _ & _ & q8).
    rewrite q5, q8, (fr_njobs _ _ _ _ F). unfold upd. rewrite Nat.eqb_refl. split; [exact Nx|reflexivity]. }
  assert (Harm : forall sx nx,
            lift (add_job E fuel j (set_next_run E j nx sx)) (set_next_run E j nx sx) = (s', Raised e) -> False).
  { intros sx nx Hx. unfold lift in Hx. destruct (add_job E fuel j _); discriminate. }
  destruct (jkind b1).
  - destruct (too_old s1 (jexec_t b1)); [eapply Hfin; eassumption|destruct (Harm _ _ H)].
  - destruct (Harm _ _ H).
  - destruct (prod E j _ _) as [v|e'|]; [|eapply Hfin; [|exact H]; exact N1|discriminate].
    destruct (too_old _ v); [eapply Hfin; [|exact H]; exact N1|destruct (Harm _ _ H)].
Qed.

(* C02: a job whose creation call failed never executes: nothing was allocated, or the new job is finished and
   was not started (with [finished_never_restarts]: it never starts later either) *)
Theorem failed_creation_never_runs fuel hs s o s' e :
  Inv s -> is_creation o -> step_op E fuel hs s o = (s', Raised e) ->
  s' = s \/ (njobs s' = S (njobs s) /\ jstatus (jobs s' (njobs s)) = Finished /\
             ~ started (njobs s) (new_events s s')).
Proof.
  intros I Hc H.
  assert (Hns : ~ started (njobs s) (new_events s s')).
  { intros Hs. apply (target_started _ _ _ _ _ _ (njobs s) I H) in Hs; [|discriminate|destruct o; cbn in Hc |- *; tauto].
    destruct Hs as (a & Hs). destruct o; cbn in Hc, Hs; try contradiction; [destruct Hs as (_ & Hd & _)|destruct Hs as (_ & Hd)]; discriminate. }
  destruct o; cbn in Hc; try contradiction; cbn [step_op] in H.
  - destruct (create_raised _ _ _ _ _ _ H) as [->|(a & b)]; [left; reflexivity|right; auto].
  - destruct (secs <=? 0); [injection H as <- _; left; reflexivity|].
    destruct (create_raised _ _ _ _ _ _ H) as [->|(a & b)]; [left; reflexivity|right; auto].
  - destruct (create_raised _ _ _ _ _ _ H) as [->|(a & b)]; [left; reflexivity|right; auto].
Qed.
End Ops.
