(* ProdOps.v — C13 / C14: what offset, earliest, latest and jitter return, and that a chain of firings
   never uses one occurrence of the underlying trigger twice. *)
From EAS Require Import Base BaseFacts Civil Time Filters Replace Producers ProdStrict.
From EASGen Require Import Generated.

Section Ops.
Variable E : penv.
Local Notation z := (pz E).

(* an answer of the underlying trigger q to some reference instant at or after dt *)
Definition inner_answer (q : producer) (dt n : Z) : Prop :=
  exists x s s', dt <= x /\ get_next E q s x = (Ok n, s').

Lemma inner_answer_future q dt n : wf_producer q -> inner_answer q dt n -> dt < n.
Proof.
  intros Hwf (x & s & s' & Hx & H). pose proof (next_strictly_future _ _ _ _ _ _ Hwf H). lia.
Qed.

(* generic rule for the operation loop: the loop position never falls behind dt and an Ok exit
   satisfies the post-condition of the body *)
Lemma op_loop_rule (q : producer) (dt : Z) (Q : Z -> Prop)
      (body : Z -> pstate -> (Z * pstate) + (result Z * pstate)) st :
  wf_producer q ->
  (forall n s', (exists x s, dt <= x /\ get_next E q s x = (Ok n, s')) ->
     match body n s' with
     | inl (y, _) => y = n
     | inr (Ok v, _) => Q v
     | inr _ => True
     end) ->
  forall v st',
  finish_loop (iter_until loop_bound
     (fun xs : Z * pstate => let '(x, s) := xs in bind_state (get_next E q s x) body) (dt, st)) = (Ok v, st') ->
  Q v.
Proof.
  intros Hwf Hbody v st' H.
  pose proof (iter_until_rule
    (fun xs : Z * pstate => let '(x, s) := xs in bind_state (get_next E q s x) body)
    (fun xs => dt <= fst xs) (fun r => forall w s, r = (Ok w, s) -> Q w) loop_bound (dt, st)) as R.
  destruct (iter_until loop_bound _ (dt, st)) as [[y s]|r]; cbn [finish_loop] in H; [discriminate|].
  eapply R; [|cbn; lia|exact H].
  intros [x s] Hx. cbn [fst] in Hx.
  destruct (get_next E q s x) as [[n|e|] s1] eqn:EG; cbn [bind_state].
  - assert (Hn : x < n) by (eapply next_strictly_future; eassumption).
    specialize (Hbody n s1 (ex_intro _ x (ex_intro _ s (conj Hx EG)))).
    destruct (body n s1) as [[y s2]|[[w|e|] s2]].
    + cbn [fst]. subst y. lia.
    + intros w' s' Hw. injection Hw as <- _. exact Hbody.
    + intros w' s' Hw; discriminate.
    + intros w' s' Hw; discriminate.
  - intros w' s' Hw; discriminate.
  - intros w' s' Hw; discriminate.
Qed.

(* C13 offset: the result is an occurrence of the underlying trigger shifted by exactly the offset *)
Theorem offset_exact q off f st dt v st' :
  wf_producer q -> get_next E (POffset q off f) st dt = (Ok v, st') ->
  exists n, inner_answer q dt n /\ v = n + off /\ dt < v /\ allow_opt z f v = true.
Proof.
  intros Hwf H. cbn [get_next] in H. revert v st' H.
  apply (op_loop_rule q dt (fun v => exists n, inner_answer q dt n /\ v = n + off /\ dt < v /\ allow_opt z f v = true)
           (fun n s' => let value := n + off in
                        if (dt <? value) && allow_opt (pz E) f value then inr (Ok value, s') else inl (n, s')) st Hwf).
  intros n s' (x & s & Hx & HG). cbv zeta.
  destruct (dt <? n + off) eqn:Elt; cbn [andb]; [|reflexivity].
  destruct (allow_opt (pz E) f (n + off)) eqn:Ea; [|reflexivity].
  exists n. split; [exists x, s, s'; auto|]. split; [reflexivity|]. split; [lia|exact Ea].
Qed.

(* earliest / latest: the clamp *)
Lemma apply_earliest_spec tr n dt v :
  apply_earliest z tr n dt = Ok v ->
  match clamp_target z tr n dt with
  | Ok None => v = n                                   (* policy 'skip' on that day: unchanged *)
  | Ok (Some e) => v = Z.max n e                       (* never before the bound, unchanged when within it *)
  | _ => False
  end.
Proof.
  unfold apply_earliest. destruct (clamp_target z tr n dt) as [[e|]|e|]; intros H; try discriminate.
  - injection H as <-. destruct (n <? e) eqn:El; lia.
  - injection H as <-. reflexivity.
Qed.

Lemma apply_latest_spec tr n dt v :
  apply_latest z tr n dt = Ok v ->
  match clamp_target z tr n dt with
  | Ok None => v = n
  | Ok (Some e) => v = Z.min n e
  | _ => False
  end.
Proof.
  unfold apply_latest. destruct (clamp_target z tr n dt) as [[e|]|e|]; intros H; try discriminate.
  - injection H as <-. destruct (e <? n) eqn:El; lia.
  - injection H as <-. reflexivity.
Qed.

(* the bound is the instant the policy selects on the local day of the occurrence *)
Lemma clamp_target_spec tr n dt :
  clamp_target z tr n dt =
  match replace z tr (local_day (to_local z n)) with
  | RSkip => Ok None
  | RExn e => Raise e
  | ROne e => Ok (Some e)
  | RTwo a b => Ok (Some (if a <=? dt then b else a))
  end.
Proof. reflexivity. Qed.

Theorem earliest_clamp q tr f st dt v st' :
  wf_producer q -> get_next E (PEarliest q tr f) st dt = (Ok v, st') ->
  exists n, inner_answer q dt n /\ apply_earliest z tr n dt = Ok v /\ n <= v /\ dt < v /\ allow_opt z f v = true.
Proof.
  intros Hwf H. cbn [get_next] in H. revert v st' H.
  apply (op_loop_rule q dt
           (fun v => exists n, inner_answer q dt n /\ apply_earliest z tr n dt = Ok v /\ n <= v /\ dt < v /\ allow_opt z f v = true)
           (fun n s' => match apply_earliest (pz E) tr n dt with
                        | Ok value => if (dt <? value) && allow_opt (pz E) f value then inr (Ok value, s') else inl (n, s')
                        | Raise e => inr (Raise e, s')
                        | OutOfFuel => inr (OutOfFuel, s')
                        end) st Hwf).
  intros n s' (x & s & Hx & HG).
  destruct (apply_earliest (pz E) tr n dt) as [value|e|] eqn:EA; try exact I.
  destruct (dt <? value) eqn:Elt; cbn [andb]; [|reflexivity].
  destruct (allow_opt (pz E) f value) eqn:Ea; [|reflexivity].
  exists n. split; [exists x, s, s'; auto|]. split; [exact EA|].
  pose proof (apply_earliest_spec tr n dt value EA) as Hs.
  split; [|split; [lia|exact Ea]].
  destruct (clamp_target z tr n dt) as [[e|]|e|]; try contradiction; lia.
Qed.

Theorem latest_clamp q tr f st dt v st' :
  wf_producer q -> get_next E (PLatest q tr f) st dt = (Ok v, st') ->
  exists n, inner_answer q dt n /\ apply_latest z tr n dt = Ok v /\ v <= n /\ dt < v /\ allow_opt z f v = true.
Proof.
  intros Hwf H. cbn [get_next] in H. revert v st' H.
  apply (op_loop_rule q dt
           (fun v => exists n, inner_answer q dt n /\ apply_latest z tr n dt = Ok v /\ v <= n /\ dt < v /\ allow_opt z f v = true)
           (fun n s' => match apply_latest (pz E) tr n dt with
                        | Ok value => if (dt <? value) && allow_opt (pz E) f value then inr (Ok value, s') else inl (n, s')
                        | Raise e => inr (Raise e, s')
                        | OutOfFuel => inr (OutOfFuel, s')
                        end) st Hwf).
  intros n s' (x & s & Hx & HG).
  destruct (apply_latest (pz E) tr n dt) as [value|e|] eqn:EA; try exact I.
  destruct (dt <? value) eqn:Elt; cbn [andb]; [|reflexivity].
  destruct (allow_opt (pz E) f value) eqn:Ea; [|reflexivity].
  exists n. split; [exists x, s, s'; auto|]. split; [exact EA|].
  pose proof (apply_latest_spec tr n dt value EA) as Hs.
  split; [|split; [lia|exact Ea]].
  destruct (clamp_target z tr n dt) as [[e|]|e|]; try contradiction; lia.
Qed.

(* jitter: provided random.uniform answers within the bounds it is given, the result lies within
   [low, high] of an occurrence whenever that window lies after the reference instant *)
Definition draws_in_range : Prop := forall k a b, a <= b -> a <= draw E k a b <= b.

Theorem jitter_window q lo hi f st dt v st' :
  wf_producer q -> draws_in_range -> lo < hi ->
  get_next E (PJitter q lo hi f) st dt = (Ok v, st') ->
  exists n, inner_answer q dt n /\ dt < v /\ allow_opt z f v = true /\
            ((0 <= lo \/ dt < n + lo) -> n + lo <= v <= n + hi) /\
            (lo < 0 -> n + lo <= v).
Proof.
  intros Hwf Hd Hlh H. cbn [get_next] in H. revert v st' H.
  apply (op_loop_rule q dt
           (fun v => exists n, inner_answer q dt n /\ dt < v /\ allow_opt z f v = true /\
                     ((0 <= lo \/ dt < n + lo) -> n + lo <= v <= n + hi) /\ (lo < 0 -> n + lo <= v))
           (fun n s' => let '(a, b) := jitter_bounds lo hi n dt in
                        let value := n + draw E (ndraws s') a b in
                        let s'' := with_ndraws (S (ndraws s')) s' in
                        if (dt <? value) && allow_opt (pz E) f value then inr (Ok value, s'') else inl (n, s'')) st Hwf).
  intros n s' (x & s & Hx & HG).
  destruct (jitter_bounds lo hi n dt) as [a b] eqn:EJ. cbv zeta.
  destruct (dt <? n + draw E (ndraws s') a b) eqn:Elt; cbn [andb]; [|reflexivity].
  destruct (allow_opt (pz E) f _) eqn:Ea; [|reflexivity].
  exists n. split; [exists x, s, s'; auto|]. split; [lia|]. split; [exact Ea|].
  unfold jitter_bounds in EJ.
  assert (Hab : a <= b).
  { destruct (0 <=? lo); [injection EJ as <- <-; lia|].
    destruct (dt - n <? lo); injection EJ as <- <-; lia. }
  pose proof (Hd (ndraws s') a b Hab) as Hr.
  split.
  - intros Hc. destruct (0 <=? lo) eqn:E0; [injection EJ as <- <-; lia|].
    destruct (dt - n <? lo) eqn:E1; [injection EJ as <- <-; lia|]. exfalso. destruct Hc; lia.
  - intros Hneg. destruct (0 <=? lo) eqn:E0; [lia|].
    destruct (dt - n <? lo) eqn:E1; injection EJ as <- <-; [lia|].
    pose proof jitter_eps_ns. assert (0 <= jitter_eps_ns) by (vm_compute; discriminate). lia.
Qed.

(* ------------------------------------------------------------------------------------------- *)
(* C14: following the trigger the way a job does, consecutive firings belong to strictly increasing
   occurrences of the underlying trigger *)
Theorem offset_chain_injective q off f st1 d0 v1 st2 v2 st3 :
  wf_producer q ->
  get_next E (POffset q off f) st1 d0 = (Ok v1, st2) ->
  get_next E (POffset q off f) st2 v1 = (Ok v2, st3) ->
  exists n1 n2, inner_answer q d0 n1 /\ inner_answer q v1 n2 /\ v1 = n1 + off /\ v2 = n2 + off /\ n1 < n2.
Proof.
  intros Hwf H1 H2.
  destruct (offset_exact _ _ _ _ _ _ _ Hwf H1) as (n1 & A1 & E1 & L1 & _).
  destruct (offset_exact _ _ _ _ _ _ _ Hwf H2) as (n2 & A2 & E2 & L2 & _).
  exists n1, n2. repeat split; auto. lia.
Qed.

Theorem jitter_nonneg_chain_injective q lo hi f st1 d0 v1 st2 v2 st3 :
  wf_producer q -> draws_in_range -> 0 <= lo -> lo < hi ->
  get_next E (PJitter q lo hi f) st1 d0 = (Ok v1, st2) ->
  get_next E (PJitter q lo hi f) st2 v1 = (Ok v2, st3) ->
  exists n1 n2, inner_answer q d0 n1 /\ inner_answer q v1 n2 /\
                n1 + lo <= v1 <= n1 + hi /\ n2 + lo <= v2 <= n2 + hi /\ n1 < n2.
Proof.
  intros Hwf Hd Hlo Hlh H1 H2.
  destruct (jitter_window _ _ _ _ _ _ _ _ Hwf Hd Hlh H1) as (n1 & A1 & _ & _ & W1 & _).
  destruct (jitter_window _ _ _ _ _ _ _ _ Hwf Hd Hlh H2) as (n2 & A2 & _ & _ & W2 & _).
  exists n1, n2. split; [exact A1|]. split; [exact A2|].
  specialize (W1 (or_introl Hlo)). specialize (W2 (or_introl Hlo)).
  split; [exact W1|]. split; [exact W2|].
  pose proof (inner_answer_future _ _ _ Hwf A2). lia.
Qed.

End Ops.
