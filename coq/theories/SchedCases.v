(* SchedCases.v — the Coq side of the scheduler correspondence check: a case is a concrete history
   together with what the implementation did after every operation; [first_mismatch] runs the model
   of Sched.v on the history and reports the first operation at which model and implementation
   differ. *)
From EAS Require Import Base Sched.

Record pspec := { ps_start : Z; ps_iv : Z; ps_fail : list nat }.

Record obs := {
  o_out : outcome; o_en : bool; o_timer : option Z; o_queue : list nat;
  o_jobs : list (status * option Z); o_store : list Z; o_evs : list event
}.

Record case := {
  c_t0 : Z; c_en : bool; c_store : bool;
  c_prods : list (nat * pspec);          (* scripted trigger of the at-jobs, by job index *)
  c_fexec : list (nat * nat); c_fcb : list (nat * nat);
  c_ops : list op; c_obs : list obs
}.

Fixpoint lookup {A} (j : nat) (l : list (nat * A)) : option A :=
  match l with [] => None | (k, v) :: t => if Nat.eqb j k then Some v else lookup j t end.
Fixpoint pair_mem (a b : nat) (l : list (nat * nat)) : bool :=
  match l with [] => false | (x, y) :: t => (Nat.eqb a x && Nat.eqb b y) || pair_mem a b t end.

Definition grid_next (ps : pspec) (t : Z) : Z := ps_start ps + ((t - ps_start ps) / ps_iv ps + 1) * ps_iv ps.

Definition case_env (c : case) : env := {|
  prod := fun j k t => match lookup j (c_prods c) with
                       | Some ps => if memb k (ps_fail ps) then Raise EUser else Ok (grid_next ps t)
                       | None => Raise EOther
                       end;
  fail_exec := fun j k => pair_mem j k (c_fexec c);
  fail_cb := fun cb k => pair_mem cb k (c_fcb c)
|}.

Definition FUEL : nat := 400.

Fixpoint insert_z (x : Z) (l : list Z) : list Z :=
  match l with [] => [x] | y :: t => if x <=? y then x :: y :: t else y :: insert_z x t end.
Definition sort_z (l : list Z) : list Z := fold_right insert_z [] l.

Definition mk_obs (s s' : st) (r : outcome) : obs := {|
  o_out := r; o_en := enabled s'; o_timer := timer s'; o_queue := queue s';
  o_jobs := map (fun j => (jstatus (jobs s' j), jnext (jobs s' j))) (seq 0 (njobs s'));
  o_store := sort_z (map fst (store s'));
  o_evs := rev (firstn (length (log s') - length (log s)) (log s'))
|}.

Definition outcome_eqb (a b : outcome) : bool :=
  match a, b with
  | Done, Done | NoFuel, NoFuel => true
  | Raised e, Raised f => err_eqb e f
  | _, _ => false
  end.
Definition hsrc_eqb (a b : hsrc) : bool :=
  match a, b with
  | HExec i, HExec j | HCb i, HCb j | HJob i, HJob j => Nat.eqb i j
  | HLoop, HLoop => true
  | _, _ => false
  end.
Definition event_eqb (a b : event) : bool :=
  match a, b with
  | EExec j t n o, EExec j' t' n' o' => Nat.eqb j j' && Z.eqb t t' && Z.eqb n n' && Nat.eqb o o'
  | ECbUpd j c s n, ECbUpd j' c' s' n' => Nat.eqb j j' && Nat.eqb c c' && status_eqb s s' && opt_eqb Z.eqb n n'
  | ECbFin j c, ECbFin j' c' => Nat.eqb j j' && Nat.eqb c c'
  | EHandler a, EHandler b => hsrc_eqb a b
  | EProd j, EProd j' => Nat.eqb j j'
  | _, _ => false
  end.
Definition sn_eqb (a b : status * option Z) : bool :=
  status_eqb (fst a) (fst b) && opt_eqb Z.eqb (snd a) (snd b).
Definition obs_eqb (a b : obs) : bool :=
  outcome_eqb (o_out a) (o_out b) && Bool.eqb (o_en a) (o_en b) && opt_eqb Z.eqb (o_timer a) (o_timer b)
  && list_eqb Nat.eqb (o_queue a) (o_queue b) && list_eqb sn_eqb (o_jobs a) (o_jobs b)
  && list_eqb Z.eqb (o_store a) (o_store b) && list_eqb event_eqb (o_evs a) (o_evs b).

(* model observations, one per operation *)
Fixpoint model_obs (E : env) (hs : bool) (s : st) (ops : list op) : list obs :=
  match ops with
  | [] => []
  | o :: t => let '(s', r) := step E FUEL hs s o in mk_obs s s' r :: model_obs E hs s' t
  end.

Definition case_model_obs (c : case) : list obs :=
  model_obs (case_env c) (c_store c) (init (c_t0 c) (c_en c)) (c_ops c).

Fixpoint first_diff (i : nat) (a b : list obs) : option nat :=
  match a, b with
  | [], [] => None
  | x :: a', y :: b' => if obs_eqb x y then first_diff (S i) a' b' else Some i
  | _, _ => Some i
  end.

Definition first_mismatch (c : case) : option nat := first_diff 0%nat (case_model_obs c) (c_obs c).

Fixpoint mismatches_from (i : nat) (cs : list case) : list (nat * nat) :=
  match cs with
  | [] => []
  | c :: t => match first_mismatch c with
              | None => mismatches_from (S i) t
              | Some k => (i, k) :: mismatches_from (S i) t
              end
  end.
Definition mismatches (cs : list case) : list (nat * nat) := mismatches_from 0%nat cs.

(* ------------------------------------------------------------------------------------------- *)
(* Executable trace checks on an observation list (the implementation's or the model's): used to
   confirm that what the theorems say is visible on concrete runs (non-vacuity) and to classify a
   mismatch.                                                                                      *)
Definition ev_never_early (e : event) : bool :=
  match e with EExec _ t a _ => a <=? t | _ => true end.
Definition obs_never_early (o : obs) : bool := forallb ev_never_early (o_evs o).

Fixpoint execs_sorted (last : Z) (l : list event) : bool :=
  match l with
  | [] => true
  | EExec _ _ a _ :: t => (last <=? a) && execs_sorted a t
  | _ :: t => execs_sorted last t
  end.

Definition sn_agree (p : status * option Z) : bool :=
  match p with
  | (Running, Some _) | (Paused, None) | (Finished, None) | (Created, None) => true
  | _ => false
  end.

Definition obs_wellformed (o : obs) : bool :=
  obs_never_early o && execs_sorted (-1) (o_evs o) && forallb sn_agree (o_jobs o).
