(* SchedProj3.v — C02 / C03: the single-job machine [step1] and the one-operation theorems.
   [direct] is what an operation does to the projection of job k without starting it; [step1] adds the
   executions of k while it is due ([flush]) for the operations that can run the loop for k.
   step_op_view  : for EVERY reachable state and operation, proj k of the new state is reached from
                   [direct (proj k s) o] by executing k zero or more times, each time while due.
   step_op_proj  : from a CALM state (or for a wake-up / enable) it is exactly [step1 (proj k s) o]. *)
From EAS Require Import Base BaseFacts Sched SchedInv SchedApi SchedProps SchedProj SchedProj2.
From EASGen Require Import Generated.
From Coq Require Import Sorted.

Definition fin_p (p : pst) : bool := status_eqb (jstatus (pj p)) Finished.

Section Machine.
Variable E : env.

(* JobBuilder._add for the job with number [pnj p]; every other job only sees the number go up *)
Definition create1 (hs : bool) (k : nat) (b : job) (p : pst) : pst :=
  if Nat.eqb (pnj p) k then
    let b1 := with_linked (with_stored b hs) true in
    let p1 := p_nj (S (pnj p)) (p_job b1 p) in
    match jkind b1 with
    | KOnce => if too_old1 p1 (jexec_t b1) then fin1 k p1 else snr1 k (Some (jexec_t b1)) p1
    | KCountdown => snr1 k None p1
    | KAt =>
        let kp := count_prod k (plog p1) in
        let p2 := ev1 (EProd k) p1 in
        match prod E k kp (pnow p2) with
        | Ok v => if too_old1 p2 v then fin1 k p2 else snr1 k (Some v) p2
        | Raise _ => fin1 k p2
        | OutOfFuel => p2
        end
    end
  else p_nj (S (pnj p)) p.

Definition direct (hs : bool) (k : nat) (p : pst) (o : op) : pst :=
  match o with
  | OOnce t key => create1 hs k (new_job KOnce t 0 key) p
  | OCountdown secs key => if secs <=? 0 then p else create1 hs k (new_job KCountdown 0 secs key) p
  | OAt key => create1 hs k (new_job KAt 0 0 key) p
  | OCancel j => if Nat.eqb j k then (if fin_p p then p else fin1 k p) else p
  | OPause j => if Nat.eqb j k then (if fin_p p then p else snr1 k None p) else p
  | OResume j =>
      if Nat.eqb j k then
        if fin_p p then p else
        if negb (jlinked (pj p)) then p else
        let kp := count_prod k (plog p) in
        let p1 := ev1 (EProd k) p in
        match prod E k kp (pnow p) with
        | Ok v => if too_old1 p1 v then p1 else snr1 k (Some v) p1
        | Raise _ => p1
        | OutOfFuel => p1
        end
      else p
  | OReset j =>
      if Nat.eqb j k then
        if negb (jlinked (pj p)) then p else snr1 k (Some (pnow p + jsecs (pj p))) p
      else p
  | OSetCountdown j secs =>
      if Nat.eqb j k then
        if fin_p p then p else if secs <=? 0 then p else p_job (with_secs (pj p) secs) p
      else p
  | OEnable b => if Bool.eqb b (pen p) then p else p_en b p
  | ORegister j w cb =>
      if Nat.eqb j k then
        let b := pj p in
        match w with
        | CbUpd => if memb cb (jcbu b) then p else p_job (with_cbu b (jcbu b ++ [cb])) p
        | CbFin => if memb cb (jcbf b) then p else p_job (with_cbf b (jcbf b ++ [cb])) p
        end
      else p
  | OUnregister j w cb =>
      if Nat.eqb j k then
        let b := pj p in
        match w with
        | CbUpd => p_job (with_cbu b (filter (fun c => negb (Nat.eqb c cb)) (jcbu b))) p
        | CbFin => p_job (with_cbf b (filter (fun c => negb (Nat.eqb c cb)) (jcbf b))) p
        end
      else p
  | OAdvance d => p_now (pnow p + Z.max 0 d) p
  | OWake => p
  | OEarlyWake => p
  end.

(* the operations during which the loop can run for job k *)
Definition runs (k : nat) (p : pst) (o : op) : bool :=
  match o with
  | OOnce _ _ | OCountdown _ _ | OAt _ => Nat.eqb (pnj p) k
  | OResume j | OReset j => Nat.eqb j k
  | OEnable _ | OWake | OEarlyWake => true
  | _ => false
  end.

(* THE SINGLE-JOB MACHINE: it reads nothing but the projection of job k and the operation *)
Definition step1 (g : nat) (hs : bool) (k : nat) (p : pst) (o : op) : pst :=
  if runs k p o then flush E g k (direct hs k p o) else direct hs k p o.

Definition run1 (g : nat) (hs : bool) (k : nat) (p : pst) (ops : list op) : pst :=
  fold_left (step1 g hs k) ops p.

End Machine.

(* control operations addressed to job j (not creations, not clock / loop operations) *)
Definition addresses (j : nat) (o : op) : bool :=
  match o with
  | OCancel i | OPause i | OResume i | OReset i | OSetCountdown i _ | ORegister i _ _ | OUnregister i _ _ =>
      Nat.eqb i j
  | _ => false
  end.

(* an operation addressed to another job is the identity of the single-job machine *)
Lemma step1_other E g hs k j p o : addresses j o = true -> k <> j -> step1 E g hs k p o = p.
Proof.
  intros Ha Hne. unfold step1.
  destruct o; cbn [addresses] in Ha; try discriminate; apply Nat.eqb_eq in Ha; subst;
    cbn [runs direct]; (replace (Nat.eqb j k) with false by (symmetry; apply Nat.eqb_neq; congruence)); reflexivity.
Qed.

Section Views.
Variable E : env.

Lemma reach1_eq k p q : q = p -> reach1 E k p q.
Proof. intros ->. apply r_refl. Qed.

(* creation: the new job is armed (or finished again when arming fails); the others see the counter go up *)
Lemma create_view fuel hs b s s' r :
  Inv s -> jstatus b = Created -> jnext b = None ->
  create E fuel hs b s = (s', r) -> r <> NoFuel -> hs && store_has (jkey b) (store s) = false ->
  (forall k, reach1 E k (create1 E hs k b (proj k s)) (proj k s')) /\ (Calm s -> Calm s').
Proof.
  intros (W & T) Hbs Hbn H Hr Hkey. unfold create in H. rewrite Hkey in H. cbv zeta in H.
  set (j := njobs s) in *.
  set (b1 := with_linked (with_stored b hs) true) in *.
  set (s1 := if hs then set_store ((jkey b1, j) :: store (set_njobs (S j) (set_job j b1 s))) (set_njobs (S j) (set_job j b1 s))
             else set_njobs (S j) (set_job j b1 s)) in *.
  assert (Hj : ~ In j (queue s)) by (apply fresh_not_queued; exact W).
  assert (Wj : WFq [j] (set_job j b1 (set_njobs (S j) s))).
  { apply WFq_set_job_out.
    - apply WFq_weaken; [apply WFq_njobs_S; exact W|exact Hj].
    - exact Hj.
    - subst b1. split; [|split]; cbn; rewrite ?Hbs, ?Hbn; [split; congruence|congruence|congruence].
    - intros _. cbn. lia. }
  assert (V1 : queue s1 = queue s /\ jobs s1 = upd (jobs s) j b1 /\ njobs s1 = S j /\ broken s1 = broken s /\
               enabled s1 = enabled s /\ timer s1 = timer s /\ now s1 = now s /\ log s1 = log s).
  { subst s1. destruct hs; repeat split. }
  destruct V1 as (v1 & v2 & v3 & v4 & v5 & v6 & v7 & v8).
  assert (I1 : Inv s1).
  { split.
    - eapply WFq_drop with (j := j).
      + eapply WFq_view; [|exact Wj]. apply fields_view; cbn [queue jobs njobs broken set_job set_jobs set_njobs]; assumption.
      + rewrite v2. unfold upd. rewrite Nat.eqb_refl. subst b1; cbn. congruence.
    - eapply TimerOK_fields; [..|apply (TimerOK_set_job_out s j b1 Hj T)];
        cbn [queue jobs enabled timer set_job set_jobs]; assumption. }
  assert (Hj1 : ~ In j (queue s1)) by (rewrite v1; exact Hj).
  assert (Hlk1 : jlinked (jobs s1 j) = true).
  { rewrite v2. unfold upd. rewrite Nat.eqb_refl. reflexivity. }
  assert (C1 : Calm s -> Calm s1).
  { apply Calm_ext; try assumption. intros i Hi. unfold nxt. rewrite v2. unfold upd.
    destruct (Nat.eqb_spec i j) as [->|_]; [contradiction|reflexivity]. }
  (* the projections of the state in which arming starts *)
  assert (Pj : proj j s1 = p_nj (S j) (p_job b1 (proj j s))).
  { unfold proj, p_nj, p_job. cbn [pj pnow pen pnj plog]. rewrite v2, v3, v5, v7, v8. unfold upd.
    rewrite Nat.eqb_refl. reflexivity. }
  assert (Pk : forall k, k <> j -> proj k s1 = p_nj (S j) (proj k s)).
  { intros k Hk. unfold proj, p_nj. cbn [pj pnow pen pnj plog]. rewrite v2, v3, v5, v7, v8. unfold upd.
    destruct (Nat.eqb_spec k j) as [->|_]; [congruence|reflexivity]. }
  clearbody s1. clear Wj.
  assert (Hfin : forall sx e, Inv sx ->
            (match job_finish E fuel j sx with Some sy => (sy, Raised e) | None => (sx, NoFuel) end) = (s', r) ->
            proj j s' = fin1 j (proj j sx) /\ (forall k, k <> j -> reach1 E k (proj k sx) (proj k s')) /\
            (Calm sx -> Calm s')).
  { intros sx e Ix Hx. destruct (job_finish E fuel j sx) as [sy|] eqn:EF.
    - injection Hx as <- <-. apply (job_finish_proj _ _ _ _ _ Ix EF).
    - injection Hx as <- <-. congruence. }
  assert (Harm : forall sx nx, Inv sx -> ~ In j (queue sx) -> jlinked (jobs sx j) = true ->
            lift (add_job E fuel j (set_next_run E j nx sx)) (set_next_run E j nx sx) = (s', r) ->
            reach1 E j (snr1 j nx (proj j sx)) (proj j s') /\ (forall k, k <> j -> reach1 E k (proj k sx) (proj k s')) /\
            (Calm sx -> Calm s')).
  { intros sx nx Ix Hq Hl Hx. unfold lift in Hx. destruct (add_job E fuel j _) as [sy|] eqn:EA.
    - injection Hx as <- <-. apply (arm_proj _ _ _ _ _ _ Ix Hq Hl EA).
    - injection Hx as <- <-. congruence. }
  (* assembling: what the new job sees / what another job sees *)
  assert (Asm : forall q, (reach1 E j q (proj j s') /\ (forall k, k <> j -> reach1 E k (proj k s1) (proj k s')) /\
                           (Calm s1 -> Calm s')) ->
            (forall k, reach1 E k (if Nat.eqb j k then q else p_nj (S j) (proj k s)) (proj k s')) /\ (Calm s -> Calm s')).
  { intros q (a & c & d). split; [|intros C; apply d; apply C1; exact C].
    intros k. destruct (Nat.eqb_spec j k) as [<-|Hne]; [exact a|].
    rewrite <- Pk by congruence. apply c. congruence. }
  unfold create1. change (pnj (proj ?k s)) with j.
  assert (Split : forall (q : nat -> pst) q',
            (forall k, reach1 E k (if Nat.eqb j k then q' else p_nj (S j) (proj k s)) (proj k s')) ->
            (forall k, j = k -> q k = q') ->
            (forall k, reach1 E k (if Nat.eqb j k then q k else p_nj (S j) (proj k s)) (proj k s'))).
  { intros q q' Ha Hq k. specialize (Ha k). destruct (Nat.eqb_spec j k) as [Hjk|_]; [rewrite (Hq k Hjk)|]; exact Ha. }
  cbv zeta. fold b1.
  destruct (jkind b1).
  - destruct (too_old s1 (jexec_t b1)) eqn:Eold.
    + destruct (Hfin s1 EPast I1 H) as (a & c & d).
      destruct (Asm (fin1 j (proj j s1)) (conj (reach1_eq _ _ _ a) (conj c d))) as (A1 & A2).
      split; [|exact A2]. apply (Split _ _ A1). intros k <-.
      replace (too_old1 _ _) with true; [rewrite Pj; reflexivity|].
      symmetry. unfold too_old1, too_old in *. cbn [pnow p_nj p_job proj]. rewrite <- v7. exact Eold.
    + destruct (Asm _ (Harm s1 (Some (jexec_t b1)) I1 Hj1 Hlk1 H)) as (A1 & A2).
      split; [|exact A2]. apply (Split _ _ A1). intros k <-.
      replace (too_old1 _ _) with false; [rewrite Pj; reflexivity|].
      symmetry. unfold too_old1, too_old in *. cbn [pnow p_nj p_job proj]. rewrite <- v7. exact Eold.
  - destruct (Asm _ (Harm s1 None I1 Hj1 Hlk1 H)) as (A1 & A2).
    split; [|exact A2]. apply (Split _ _ A1). intros k <-. rewrite Pj. reflexivity.
  - set (s2 := add_ev (EProd j) s1) in *.
    assert (I2 : Inv s2) by (apply Inv_add_ev; exact I1).
    assert (P2 : proj j s2 = ev1 (EProd j) (proj j s1)).
    { subst s2. rewrite proj_add_ev. cbn [mine]. rewrite Nat.eqb_refl. reflexivity. }
    assert (P2k : forall k, k <> j -> proj k s2 = proj k s1).
    { intros k Hk. subst s2. rewrite proj_add_ev. cbn [mine].
      destruct (Nat.eqb_spec j k) as [->|_]; [congruence|reflexivity]. }
    assert (C2 : Calm s1 -> Calm s2) by (apply Calm_ext; try reflexivity; intros; reflexivity).
    assert (Tr : forall q,
              (reach1 E j q (proj j s') /\ (forall k, k <> j -> reach1 E k (proj k s2) (proj k s')) /\ (Calm s2 -> Calm s')) ->
              (reach1 E j q (proj j s') /\ (forall k, k <> j -> reach1 E k (proj k s1) (proj k s')) /\ (Calm s1 -> Calm s'))).
    { intros q (a & c & d). split; [exact a|].
      split; [intros k Hk; rewrite <- (P2k k Hk); apply c; exact Hk|intros C; apply d, C2, C]. }
    assert (Hj2 : ~ In j (queue s2)) by exact Hj1.
    assert (Hlk2 : jlinked (jobs s2 j) = true) by exact Hlk1.
    remember (prod E j (count_prod j (log s1)) (now s2)) as pr eqn:Epr.
    assert (Norm : forall k, j = k ->
              prod E k (count_prod k (plog (p_nj (S j) (p_job b1 (proj k s)))))
                       (pnow (ev1 (EProd k) (p_nj (S j) (p_job b1 (proj k s))))) = pr).
    { intros k <-. rewrite <- Pj. change (plog (proj j s1)) with (klog j (log s1)). rewrite count_prod_klog.
      rewrite Epr. reflexivity. }
    destruct pr as [v|e|].
    + destruct (too_old s2 v) eqn:Eold.
      * destruct (Hfin s2 EPast I2 H) as (a & c & d).
        destruct (Asm (fin1 j (proj j s2)) (Tr _ (conj (reach1_eq _ _ _ a) (conj c d)))) as (A1 & A2).
        split; [|exact A2]. apply (Split _ _ A1). intros k Hk. rewrite (Norm k Hk). subst k.
        rewrite <- Pj, <- P2. change (too_old1 (proj j s2) v) with (too_old s2 v). rewrite Eold. reflexivity.
      * destruct (Asm _ (Tr _ (Harm s2 (Some v) I2 Hj2 Hlk2 H))) as (A1 & A2).
        split; [|exact A2]. apply (Split _ _ A1). intros k Hk. rewrite (Norm k Hk). subst k.
        rewrite <- Pj, <- P2. change (too_old1 (proj j s2) v) with (too_old s2 v). rewrite Eold. reflexivity.
    + destruct (Hfin s2 e I2 H) as (a & c & d).
      destruct (Asm (fin1 j (proj j s2)) (Tr _ (conj (reach1_eq _ _ _ a) (conj c d)))) as (A1 & A2).
      split; [|exact A2]. apply (Split _ _ A1). intros k Hk. rewrite (Norm k Hk). subst k.
      rewrite <- Pj, <- P2. reflexivity.
    + injection H as <- <-. congruence.
Qed.

Definition is_adv (o : op) : bool := match o with OAdvance _ => true | _ => false end.
Definition is_wake (o : op) : bool := match o with OWake | OEarlyWake => true | _ => false end.

(* the creation does not hit a key that is already in the job store (that failure depends on the other jobs) *)
Definition key_ok (hs : bool) (s : st) (o : op) : Prop :=
  match o with
  | OOnce _ key | OAt key => hs && store_has key (store s) = false
  | OCountdown secs key => secs <=? 0 = false -> hs && store_has key (store s) = false
  | _ => True
  end.

Lemma idle_timer_calm s : Inv s -> timer s = None -> Calm s.
Proof.
  intros (W & T) Ht En j Hj. unfold TimerOK in T.
  destruct (queue s) as [|h q] eqn:Eq; [destruct Hj|].
  rewrite En in T. exfalso.
  assert (Hin : In h (queue s)) by (rewrite Eq; left; reflexivity).
  destruct (wf_q _ _ W h Hin) as (Hr & _). apply (wf_sn _ _ W) in Hr. congruence.
Qed.

Lemma late_timer_calm s w : Inv s -> timer s = Some w -> now s < w -> Calm s.
Proof.
  intros (W & T) Ht Hlt En. eapply head_nodue; [exact W|].
  unfold HeadNotDue. unfold TimerOK in T. destruct (queue s) as [|h q]; [exact I|].
  rewrite En in T. exists w. split; [congruence|exact Hlt].
Qed.

Lemma proj_set_job_other k j b s : k <> j -> proj k (set_job j b s) = proj k s.
Proof. intros Hne. apply proj_fields; try reflexivity. apply jobs_upd_other. exact Hne. Qed.

Lemma proj_set_job_same k b s : proj k (set_job k b s) = p_job b (proj k s).
Proof. unfold proj, p_job. cbn [pj pnow pen pnj plog now enabled njobs log set_job set_jobs]. rewrite jobs_upd_same. reflexivity. Qed.

Lemma Calm_same_next s j b : jnext b = jnext (jobs s j) -> Calm s -> Calm (set_job j b s).
Proof.
  intros Hb. apply Calm_ext; try reflexivity. intros i _. unfold nxt. cbn [jobs set_job set_jobs]. unfold upd.
  destruct (Nat.eqb_spec i j) as [->|_]; [exact Hb|reflexivity].
Qed.

Theorem step_op_view fuel hs s o s' r :
  Inv s -> step_op E fuel hs s o = (s', r) -> r <> NoFuel -> key_ok hs s o ->
  (forall k, reach1 E k (direct E hs k (proj k s) o) (proj k s')) /\
  (is_adv o = false -> Calm s -> Calm s') /\
  (is_wake o = true -> Calm s').
Proof.
  intros I H Hr Hkey. destruct o; cbn [step_op] in H; cbn [key_ok] in Hkey.
  - (* once *)
    destruct (create_view fuel hs (new_job KOnce t 0 key) s s' r I eq_refl eq_refl H Hr Hkey) as (a & c).
    split; [exact a|]. split; [intros _; exact c|discriminate].
  - (* countdown *)
    destruct (secs <=? 0) eqn:Es.
    + injection H as <- <-. split; [intros k; apply reach1_eq; cbn [direct]; rewrite Es; reflexivity|].
      split; [intros _ C; exact C|discriminate].
    + destruct (create_view fuel hs (new_job KCountdown 0 secs key) s s' r I eq_refl eq_refl H Hr (Hkey eq_refl)) as (a & c).
      split; [intros k; cbn [direct]; rewrite Es; apply a|]. split; [intros _; exact c|discriminate].
  - (* at *)
    destruct (create_view fuel hs (new_job KAt 0 0 key) s s' r I eq_refl eq_refl H Hr Hkey) as (a & c).
    split; [exact a|]. split; [intros _; exact c|discriminate].
  - (* cancel *)
    destruct (is_finished s j) eqn:Efin.
    + injection H as <- <-.
      split; [intros k; apply reach1_eq; cbn [direct]|split; [intros _ C; exact C|discriminate]].
      destruct (Nat.eqb_spec j k) as [->|_]; [|reflexivity].
      change (fin_p (proj k s)) with (is_finished s k). rewrite Efin. reflexivity.
    + unfold lift in H. destruct (job_finish E fuel j s) as [s1|] eqn:EF; injection H as <- <-; [|congruence].
      destruct (job_finish_proj E fuel j s s1 I EF) as (a & c & d).
      split; [intros k; cbn [direct]|split; [intros _; exact d|discriminate]].
      destruct (Nat.eqb_spec j k) as [->|Hne]; [|apply c; congruence].
      change (fin_p (proj k s)) with (is_finished s k). rewrite Efin. apply reach1_eq. exact a.
  - (* pause *)
    destruct (is_finished s j) eqn:Efin.
    + injection H as <- <-.
      split; [intros k; apply reach1_eq; cbn [direct]|split; [intros _ C; exact C|discriminate]].
      destruct (Nat.eqb_spec j k) as [->|_]; [|reflexivity].
      change (fin_p (proj k s)) with (is_finished s k). rewrite Efin. reflexivity.
    + destruct (remove_job E fuel j s) as [s1|] eqn:ER; injection H as <- <-; [|congruence].
      destruct (pause_proj E fuel j s s1 I ER) as (a & c & d).
      split; [intros k; cbn [direct]|split; [intros _; exact d|discriminate]].
      destruct (Nat.eqb_spec j k) as [->|Hne]; [|apply c; congruence].
      change (fin_p (proj k s)) with (is_finished s k). rewrite Efin. apply reach1_eq. exact a.
  - (* resume *)
    destruct (is_finished s j) eqn:Efin.
    { injection H as <- <-.
      split; [intros k; apply reach1_eq; cbn [direct]|split; [intros _ C; exact C|discriminate]].
      destruct (Nat.eqb_spec j k) as [->|_]; [|reflexivity].
      change (fin_p (proj k s)) with (is_finished s k). rewrite Efin. reflexivity. }
    destruct (jlinked (jobs s j)) eqn:Hlk; cbn [negb] in H.
    2:{ injection H as <- <-.
      split; [intros k; apply reach1_eq; cbn [direct]|split; [intros _ C; exact C|discriminate]].
      destruct (Nat.eqb_spec j k) as [->|_]; [|reflexivity].
      change (fin_p (proj k s)) with (is_finished s k). rewrite Efin.
      change (jlinked (pj (proj k s))) with (jlinked (jobs s k)). rewrite Hlk. reflexivity. }
    cbv zeta in H. set (s1 := add_ev (EProd j) s) in *.
    assert (I1 : Inv s1) by (apply Inv_add_ev; exact I).
    assert (P1 : proj j s1 = ev1 (EProd j) (proj j s)).
    { subst s1. rewrite proj_add_ev. cbn [mine]. rewrite Nat.eqb_refl. reflexivity. }
    assert (P1k : forall k, k <> j -> proj k s1 = proj k s).
    { intros k Hk. subst s1. rewrite proj_add_ev. cbn [mine].
      destruct (Nat.eqb_spec j k) as [->|_]; [congruence|reflexivity]. }
    assert (C1 : Calm s -> Calm s1) by (apply Calm_ext; try reflexivity; intros; reflexivity).
    (* the direct effect on j, normalised *)
    assert (Dir : forall k, direct E hs k (proj k s) (OResume j) =
              if Nat.eqb j k then
                match prod E j (count_prod j (log s)) (now s) with
                | Ok v => if too_old s1 v then proj j s1 else snr1 j (Some v) (proj j s1)
                | Raise _ => proj j s1
                | OutOfFuel => proj j s1
                end
              else proj k s).
    { intros k. cbn [direct]. destruct (Nat.eqb_spec j k) as [<-|_]; [|reflexivity].
      change (fin_p (proj j s)) with (is_finished s j). rewrite Efin.
      change (jlinked (pj (proj j s))) with (jlinked (jobs s j)). rewrite Hlk. cbn [negb]. cbv zeta.
      change (plog (proj j s)) with (klog j (log s)). rewrite count_prod_klog. rewrite <- P1. reflexivity. }
    destruct (prod E j (count_prod j (log s)) (now s)) as [v|e|] eqn:Epr.
    + destruct (too_old s1 v) eqn:Eold.
      * injection H as <- <-. split; [|split; [intros _; exact C1|discriminate]].
        intros k. apply reach1_eq. rewrite Dir.
        destruct (Nat.eqb_spec j k) as [<-|Hne]; [reflexivity|apply P1k; congruence].
      * unfold lift in H. destruct (update_job E fuel j _) as [s2|] eqn:EU; injection H as <- <-; [|congruence].
        assert (Hlk1 : jlinked (jobs s1 j) = true) by exact Hlk.
        destruct (retime_proj E fuel j v s1 s2 I1 Hlk1 EU) as (a & c & d).
        split; [|split; [intros _ C; apply d, C1, C|discriminate]].
        intros k. rewrite Dir. destruct (Nat.eqb_spec j k) as [<-|Hne]; [exact a|].
        rewrite <- P1k by congruence. apply c. congruence.
    + injection H as <- <-. split; [|split; [intros _; exact C1|discriminate]].
      intros k. apply reach1_eq. rewrite Dir.
      destruct (Nat.eqb_spec j k) as [<-|Hne]; [reflexivity|apply P1k; congruence].
    + injection H as <- <-. congruence.
  - (* reset *)
    destruct (jlinked (jobs s j)) eqn:Hlk; cbn [negb] in H.
    2:{ injection H as <- <-.
      split; [intros k; apply reach1_eq; cbn [direct]|split; [intros _ C; exact C|discriminate]].
      destruct (Nat.eqb_spec j k) as [->|_]; [|reflexivity].
      change (jlinked (pj (proj k s))) with (jlinked (jobs s k)). rewrite Hlk. reflexivity. }
    cbv zeta in H. unfold lift in H.
    destruct (update_job E fuel j _) as [s2|] eqn:EU; injection H as <- <-; [|congruence].
    destruct (retime_proj E fuel j _ s s2 I Hlk EU) as (a & c & d).
    split; [|split; [intros _; exact d|discriminate]].
    intros k. cbn [direct]. destruct (Nat.eqb_spec j k) as [<-|Hne]; [|apply c; congruence].
    change (jlinked (pj (proj j s))) with (jlinked (jobs s j)). rewrite Hlk. exact a.
  - (* set_countdown *)
    destruct (is_finished s j) eqn:Efin.
    { injection H as <- <-.
      split; [intros k; apply reach1_eq; cbn [direct]|split; [intros _ C; exact C|discriminate]].
      destruct (Nat.eqb_spec j k) as [->|_]; [|reflexivity].
      change (fin_p (proj k s)) with (is_finished s k). rewrite Efin. reflexivity. }
    destruct (secs <=? 0) eqn:Es; injection H as <- <-.
    { split; [intros k; apply reach1_eq; cbn [direct]|split; [intros _ C; exact C|discriminate]].
      destruct (Nat.eqb_spec j k) as [->|_]; [|reflexivity].
      change (fin_p (proj k s)) with (is_finished s k). rewrite Efin, Es. reflexivity. }
    split; [intros k; apply reach1_eq; cbn [direct]|split; [intros _; apply Calm_same_next; reflexivity|discriminate]].
    destruct (Nat.eqb_spec j k) as [->|Hne]; [|apply proj_set_job_other; congruence].
    change (fin_p (proj k s)) with (is_finished s k). rewrite Efin, Es. apply proj_set_job_same.
  - (* enable *)
    destruct (Bool.eqb b (enabled s)) eqn:Eb.
    { injection H as <- <-.
      split; [intros k; apply reach1_eq; cbn [direct]|split; [intros _ C; exact C|discriminate]].
      change (pen (proj k s)) with (enabled s). rewrite Eb. reflexivity. }
    cbv zeta in H. unfold lift in H.
    destruct (set_timer E fuel (set_enabled_f b s)) as [s2|] eqn:ES; injection H as <- <-; [|congruence].
    destruct I as (W & T).
    assert (W1 : WFq [] (set_enabled_f b s)) by (eapply WFq_view; [|exact W]; apply fields_view; reflexivity).
    split; [|split; [intros _ _; eapply set_timer_calm; eassumption|discriminate]].
    intros k. cbn [direct]. change (pen (proj k s)) with (enabled s). rewrite Eb.
    destruct (shapes_all E k fuel) as (Sst & _). destruct (Sst [] _ _ W1 ES) as (_ & c). exact c.
  - (* register *)
    destruct w.
    + destruct (memb cb (jcbu (jobs s j))) eqn:Em; injection H as <- <-.
      * split; [intros k; apply reach1_eq; cbn [direct]|split; [intros _ C; exact C|discriminate]].
        destruct (Nat.eqb_spec j k) as [->|_]; [|reflexivity].
        change (jcbu (pj (proj k s))) with (jcbu (jobs s k)). rewrite Em. reflexivity.
      * split; [intros k; apply reach1_eq; cbn [direct]|split; [intros _; apply Calm_same_next; reflexivity|discriminate]].
        destruct (Nat.eqb_spec j k) as [->|Hne]; [|apply proj_set_job_other; congruence].
        change (jcbu (pj (proj k s))) with (jcbu (jobs s k)). rewrite Em. apply proj_set_job_same.
    + destruct (memb cb (jcbf (jobs s j))) eqn:Em; injection H as <- <-.
      * split; [intros k; apply reach1_eq; cbn [direct]|split; [intros _ C; exact C|discriminate]].
        destruct (Nat.eqb_spec j k) as [->|_]; [|reflexivity].
        change (jcbf (pj (proj k s))) with (jcbf (jobs s k)). rewrite Em. reflexivity.
      * split; [intros k; apply reach1_eq; cbn [direct]|split; [intros _; apply Calm_same_next; reflexivity|discriminate]].
        destruct (Nat.eqb_spec j k) as [->|Hne]; [|apply proj_set_job_other; congruence].
        change (jcbf (pj (proj k s))) with (jcbf (jobs s k)). rewrite Em. apply proj_set_job_same.
  - (* unregister *)
    destruct w; injection H as <- <-;
      (split; [intros k; apply reach1_eq; cbn [direct]|split; [intros _; apply Calm_same_next; reflexivity|discriminate]]);
      (destruct (Nat.eqb_spec j k) as [->|Hne]; [apply proj_set_job_same|apply proj_set_job_other; congruence]).
  - (* advance *)
    injection H as <- <-. split; [intros k; apply reach1_eq; reflexivity|split; discriminate].
  - (* wake *)
    destruct (timer s) as [w|] eqn:Ew.
    2:{ injection H as <- <-. split; [intros k; apply r_refl|].
        split; [intros _ C; exact C|intros _; apply idle_timer_calm; assumption]. }
    destruct (w <=? now s) eqn:Ele.
    2:{ injection H as <- <-. split; [intros k; apply r_refl|].
        split; [intros _ C; exact C|intros _; eapply late_timer_calm; [exact I|exact Ew|apply Z.leb_gt; exact Ele]]. }
    unfold lift in H. destruct (run_jobs E fuel s) as [s2|] eqn:ER; injection H as <- <-; [|congruence].
    pose proof (Inv_enabled_of_timer _ _ I Ew) as En. destruct I as (W & T).
    assert (C2 : Calm s2) by (eapply run_jobs_calm; eassumption).
    split; [|split; intros; exact C2].
    intros k. cbn [direct]. destruct (shapes_all E k fuel) as (_ & Srj & _).
    destruct (Srj [] _ _ W En ER) as (_ & c). exact c.
  - (* early wake *)
    destruct (timer s) as [w|] eqn:Ew.
    2:{ injection H as <- <-. split; [intros k; apply r_refl|].
        split; [intros _ C; exact C|intros _; apply idle_timer_calm; assumption]. }
    unfold lift in H. destruct (run_jobs E fuel s) as [s2|] eqn:ER; injection H as <- <-; [|congruence].
    pose proof (Inv_enabled_of_timer _ _ I Ew) as En. destruct I as (W & T).
    assert (C2 : Calm s2) by (eapply run_jobs_calm; eassumption).
    split; [|split; intros; exact C2].
    intros k. cbn [direct]. destruct (shapes_all E k fuel) as (_ & Srj & _).
    destruct (Srj [] _ _ W En ER) as (_ & c). exact c.
Qed.

End Views.
