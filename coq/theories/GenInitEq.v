(* GenInitEq.v — the constructors translated by tools/gen_init.py (coq/gen/GenInit.v, rewritten on every run) are the
   initial state and the fresh job records of the model: [gen_init] = [Sched.init], the generated job constructors =
   [Sched.new_job] (for the countdown job: after the GENERATED set_countdown of GenJobs.v has run on the fresh object,
   which is what CountdownJob.__init__ does).  With this the capstone [GenSystem.gen_run_is_model] starts from a
   GENERATED initial state ([gen_system_from_generated_init]) and the builder's allocation writes a GENERATED record.
   Hand-written, re-checked against the regenerated file on every run; fails to compile when gen_init.py refuses the
   source (fail closed).  No proofs about behaviour here beyond the tie. *)
From Coq Require Import ZArith List Lia.
From EAS Require Import Base Sched SchedInv GenRt GenRtJobs GenRtBuilder GenSystem SchedEqst.
From EASGen Require Import GenJobs GenInit.
Import ListNotations.
Open Scope Z_scope.

Theorem gen_init_recognised : gen_init_status_v = GenInitOk.
Proof. reflexivity. Qed.

(* AsyncScheduler.__init__ + InMemoryStore.__init__ *)
Theorem gen_init_is_init t0 en : gen_init t0 en = init t0 en.
Proof. reflexivity. Qed.

(* the schedulers of the end-to-end theorems (Compose2, SchedExact1-4) are enabled: that is the constructor's default *)
Theorem gen_sched_default_enabled_true : gen_sched_default_enabled = true.
Proof. reflexivity. Qed.

Theorem gen_handler_init_empty : gen_handler_init = [].
Proof. reflexivity. Qed.

Theorem gen_once_init_is_new_job t key : gen_once_init t key = new_job KOnce t 0 key.
Proof. reflexivity. Qed.

Theorem gen_at_init_is_new_job key : gen_at_init key = new_job KAt 0 0 key.
Proof. reflexivity. Qed.

(* CountdownJob.__init__: `self._seconds = 0; self.set_countdown(secs)` — the second statement is generated code *)
Section Countdown.
Variable E : env.
Variable R : jrec.

Theorem gen_countdown_ctor_ok j key secs s :
  jobs s j = gen_countdown_init_pre key -> 0 < secs ->
  g_CountdownJob_set_countdown E R j secs s = Some (set_job j (new_job KCountdown 0 secs key) s, JRet).
Proof.
  intros Hj Hs. unfold g_CountdownJob_set_countdown, status_is. rewrite Hj.
  cbn [gen_countdown_init_pre gen_jobbase_init with_secs jstatus status_eqb negb].
  destruct (secs <=? 0) eqn:Hc; [apply Z.leb_le in Hc; lia|].
  reflexivity.
Qed.

Theorem gen_countdown_ctor_rejects j key secs s :
  jobs s j = gen_countdown_init_pre key -> secs <= 0 ->
  g_CountdownJob_set_countdown E R j secs s = Some (s, JExc (JErr EValueError)).
Proof.
  intros Hj Hs. unfold g_CountdownJob_set_countdown, status_is. rewrite Hj.
  cbn [gen_countdown_init_pre gen_jobbase_init with_secs jstatus status_eqb negb].
  destruct (secs <=? 0) eqn:Hc; [reflexivity|apply Z.leb_gt in Hc; lia].
Qed.

(* the class dispatch reaches it: the fresh object is a countdown job *)
Theorem gen_countdown_ctor_dispatch j key secs s :
  jobs s j = gen_countdown_init_pre key ->
  g_set_countdown E R j secs s = g_CountdownJob_set_countdown E R j secs s.
Proof. intros Hj. unfold g_set_countdown. rewrite Hj. reflexivity. Qed.

End Countdown.

(* the reachable invariant of the capstone holds in the generated initial state *)
Theorem gen_init_MInv t0 en : MInv (gen_init t0 en).
Proof. rewrite gen_init_is_init. apply MInv_init. Qed.

(* THE TIE OF THE WHOLE STACK, now from the generated constructors: *)
Theorem gen_system_from_generated_init (E : env) fuel hs t0 en ops s rs :
  ops_wt E fuel hs (gen_init t0 en) ops -> run E fuel hs (gen_init t0 en) ops = (s, rs) -> ~ In NoFuel rs ->
  exists g, gen_run E fuel hs (gen_init t0 en) ops = (g, map oc_of rs) /\ eqst g s.
Proof. rewrite gen_init_is_init. apply gen_run_is_model. Qed.
(* the hypotheses of the constructor theorems are met by the state the builder allocates the fresh object in *)
Example gen_countdown_ctor_nonvacuous (E : env) (R : jrec) :
  let s := set_job 0 (gen_countdown_init_pre 7) (gen_init 100 true) in
  jobs s 0%nat = gen_countdown_init_pre 7 /\
  g_set_countdown E R 0 5000000000 s = Some (set_job 0 (new_job KCountdown 0 5000000000 7) s, JRet) /\
  g_set_countdown E R 0 0 s = Some (s, JExc (JErr EValueError)).
Proof.
  cbv zeta.
  assert (H : jobs (set_job 0 (gen_countdown_init_pre 7) (gen_init 100 true)) 0%nat = gen_countdown_init_pre 7) by reflexivity.
  split; [exact H|]. split.
  - rewrite (gen_countdown_ctor_dispatch E R _ _ _ _ H). apply (gen_countdown_ctor_ok E R _ _ _ _ H). lia.
  - rewrite (gen_countdown_ctor_dispatch E R _ _ _ _ H). apply (gen_countdown_ctor_rejects E R _ _ _ _ H). lia.
Qed.
