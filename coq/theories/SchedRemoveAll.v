(* SchedRemoveAll.v — AsyncScheduler.remove_all as a DERIVED history.
   `remove_all` is `for job in tuple(reversed(self.jobs)): job.job_finish()`: the queued jobs are cancelled from
   the back of the queue to the front.  In the model this is the history [map OCancel (rev (queue s))], so every
   theorem about histories covers it.  What is special about it is proved here for every reachable (Inv) state:
   no job is executed while the queue is emptied (the head is removed last, so _set_timer never finds a due head),
   every queued job ends Finished, nothing else changes, the queue is empty and the timer disarmed afterwards.
   The implementation's remove_all is tied to this history by the twin-scheduler probe of harness/sched_impl.py. *)
From EAS Require Import Base BaseFacts Sched SchedInv SchedApi.

Ltac split_and := repeat match goal with |- _ /\ _ => split end.

Section RemoveAll.
Variable E : env.

Definition remove_all_ops (s : st) : list op := map OCancel (rev (queue s)).
Definition remove_all (fuel : nat) (hs : bool) (s : st) : st * list outcome := run E fuel hs s (remove_all_ops s).

Lemma remove_first_last j a : ~ In j a -> remove_first j (a ++ [j]) = a.
Proof.
  induction a as [|x a IH]; intros Hn; cbn [app remove_first].
  - rewrite Nat.eqb_refl. reflexivity.
  - destruct (Nat.eqb j x) eqn:Ej.
    + apply Nat.eqb_eq in Ej. exfalso. apply Hn. left. symmetry. exact Ej.
    + f_equal. apply IH. intros Hi. apply Hn. right. exact Hi.
Qed.

Fixpoint count_all_exec (l : list event) : nat :=
  match l with
  | [] => O
  | EExec _ _ _ _ :: t => S (count_all_exec t)
  | _ :: t => count_all_exec t
  end.

Lemma run_cbs_no_exec mk cbs : (forall cb, match mk cb with EExec _ _ _ _ => False | _ => True end) ->
  forall s, count_all_exec (log (run_cbs E mk cbs s)) = count_all_exec (log s).
Proof.
  intros Hmk. induction cbs as [|cb t IH]; intros s; cbn [run_cbs]; [reflexivity|].
  cbv zeta. rewrite IH. specialize (Hmk cb).
  destruct (fail_cb E cb (count_cb cb (log s))); cbn [add_ev set_log log count_all_exec];
    destruct (mk cb); try contradiction; reflexivity.
Qed.

Lemma finish_job_no_exec j s : count_all_exec (log (finish_job E j s)) = count_all_exec (log s).
Proof.
  unfold finish_job. cbv zeta. rewrite run_cbs_no_exec; [|intros cb; exact I].
  destruct (jstored (jobs s j)); reflexivity.
Qed.

(* one cancel of the LAST queue element: computed exactly *)
Lemma cancel_last f hs s a j :
  Inv s -> queue s = a ++ [j] ->
  exists s1, step_op E (S (S f)) hs s (OCancel j) = (finish_job E j s1, Done) /\
             queue s1 = a /\ jobs s1 = jobs s /\ log s1 = log s /\ now s1 = now s /\ enabled s1 = enabled s /\
             njobs s1 = njobs s /\ store s1 = store s /\ opi s1 = opi s /\
             (a <> [] -> timer s1 = timer s) /\ (a = [] -> timer s1 = None).
Proof.
  intros [W T] Hq.
  assert (Hin : In j (queue s)) by (rewrite Hq; apply in_or_app; right; left; reflexivity).
  destruct (wf_q _ _ W j Hin) as [Hrun _].
  assert (Hnd : NoDup (a ++ [j])) by (rewrite <- Hq; exact (wf_nodup _ _ W)).
  assert (Hnj : ~ In j a).
  { intros Hi. apply NoDup_remove_2 in Hnd. rewrite app_nil_r in Hnd. exact (Hnd Hi). }
  cbn [step_op]. unfold is_finished. rewrite Hrun. cbn [status_eqb].
  rewrite job_finish_eq, remove_job_S. rewrite Hq.
  destruct a as [|h a'].
  - cbn [app]. cbn [remove_first]. rewrite Nat.eqb_refl. cbv zeta.
    rewrite set_timer_S. cbn [queue set_queue set_timer_f].
    eexists. split; [cbn [lift]; reflexivity|].
    cbn. split_and; try reflexivity; intros Hc; congruence.
  - change ((h :: a') ++ [j]) with (h :: (a' ++ [j])).
    assert (Hr : remove_first j (h :: a' ++ [j]) = h :: a').
    { change (h :: a' ++ [j]) with ((h :: a') ++ [j]). apply remove_first_last. exact Hnj. }
    rewrite Hr. cbv zeta.
    assert (Hhj : Nat.eqb h j = false).
    { apply Nat.eqb_neq. intros ->. apply Hnj. left. reflexivity. }
    rewrite Hhj. eexists. split; [cbn [lift]; reflexivity|].
    cbn. split_and; try reflexivity; intros Hc; congruence.
Qed.

Definition fin_rec (b : job) : job := with_linked (with_status_next b Finished None) false.

Lemma remove_all_from f hs : forall l s,
  Inv s -> queue s = rev l ->
  let '(s', rs) := run E (S (S f)) hs s (map OCancel l) in
  Inv s' /\ queue s' = [] /\ timer s' = None /\
  rs = map (fun _ => Done) l /\
  (forall j, In j l -> jobs s' j = fin_rec (jobs s j)) /\
  (forall j, ~ In j l -> jobs s' j = jobs s j) /\
  count_all_exec (log s') = count_all_exec (log s) /\
  now s' = now s /\ enabled s' = enabled s /\ njobs s' = njobs s.
Proof.
  induction l as [|j l IH]; intros s I Hq.
  - cbn [map run]. cbn [rev] in Hq. pose proof I as [W T].
    unfold TimerOK in T. rewrite Hq in T.
    split_and; try assumption; try reflexivity; try (intros j []).
  - cbn [rev] in Hq. cbn [map run].
    destruct (cancel_last f hs s (rev l) j I Hq) as (s1 & Hstep & Q1 & J1 & L1 & N1 & En1 & Nj1 & St1 & O1 & Tk & Te).
    unfold step. rewrite Hstep.
    assert (I2 : Inv (finish_job E j s1)).
    { eapply step_op_inv; [exact I|exact Hstep|discriminate]. }
    set (s2 := set_opi (S (opi (finish_job E j s1))) (finish_job E j s1)).
    assert (I3 : Inv s2).
    { destruct I2 as [W2 T2]. split.
      - eapply WFq_view; [|exact W2]. unfold same_view, s2. repeat split.
      - eapply TimerOK_view; [| | | |exact T2]; reflexivity. }
    destruct (finish_job_props E j s1) as (Fq & Fn & Fe & Ft & Fnj & Fo & Fb & Fj).
    assert (Hq2 : queue s2 = rev l) by (unfold s2; cbn [queue set_opi]; rewrite Fq; exact Q1).
    specialize (IH s2 I3 Hq2).
    destruct (run E (S (S f)) hs s2 (map OCancel l)) as [s' rs] eqn:ER.
    destruct IH as (I' & Q' & T' & R' & Jin & Jout & C' & N' & En' & Nj').
    assert (Hnj : ~ In j l).
    { intros Hi. destruct I as [W _]. pose proof (wf_nodup _ _ W) as Hnd. rewrite Hq in Hnd.
      apply NoDup_remove_2 in Hnd. rewrite app_nil_r in Hnd. apply Hnd. apply in_rev in Hi. exact Hi. }
    assert (Js2 : jobs s2 = upd (jobs s) j (fin_rec (jobs s j))).
    { unfold s2. cbn [jobs set_opi]. rewrite Fj, J1. reflexivity. }
    split_and; try assumption.
    + rewrite R'. reflexivity.
    + intros k [<-|Hk].
      * rewrite (Jout j Hnj), Js2. unfold upd. rewrite Nat.eqb_refl. reflexivity.
      * rewrite (Jin k Hk), Js2. unfold upd.
        destruct (Nat.eqb k j) eqn:Ekj; [|reflexivity].
        apply Nat.eqb_eq in Ekj. subst k. contradiction.
    + intros k Hk. assert (k <> j) by (intros ->; apply Hk; left; reflexivity).
      rewrite (Jout k); [|intros Hi; apply Hk; right; exact Hi].
      rewrite Js2. unfold upd. destruct (Nat.eqb k j) eqn:Ekj; [apply Nat.eqb_eq in Ekj; contradiction|reflexivity].
    + rewrite C'. unfold s2. cbn [log set_opi]. rewrite finish_job_no_exec, L1. reflexivity.
    + rewrite N'. unfold s2. cbn [now set_opi]. rewrite Fn. exact N1.
    + rewrite En'. unfold s2. cbn [enabled set_opi]. rewrite Fe. exact En1.
    + rewrite Nj'. unfold s2. cbn [njobs set_opi]. rewrite Fnj. exact Nj1.
Qed.

(* AsyncScheduler.remove_all on any reachable state, with two units of fuel (it never nests) *)
Theorem remove_all_spec f hs s :
  Inv s ->
  let '(s', rs) := remove_all (S (S f)) hs s in
  Inv s' /\ queue s' = [] /\ timer s' = None /\
  Forall (fun r => r = Done) rs /\
  (forall j, In j (queue s) -> jstatus (jobs s' j) = Finished /\ jnext (jobs s' j) = None /\ jlinked (jobs s' j) = false) /\
  (forall j, ~ In j (queue s) -> jobs s' j = jobs s j) /\
  count_all_exec (log s') = count_all_exec (log s) /\
  now s' = now s /\ enabled s' = enabled s /\ njobs s' = njobs s.
Proof.
  intros I. unfold remove_all, remove_all_ops.
  pose proof (remove_all_from f hs (rev (queue s)) s I) as H. rewrite rev_involutive in H.
  specialize (H eq_refl).
  destruct (run E (S (S f)) hs s (map OCancel (rev (queue s)))) as [s' rs].
  destruct H as (I' & Q' & T' & R' & Jin & Jout & C' & N' & En' & Nj').
  split_and; try assumption.
  - rewrite R'. apply Forall_forall. intros r Hr. apply in_map_iff in Hr. destruct Hr as (x & <- & _). reflexivity.
  - intros j Hj. rewrite (Jin j); [split_and; reflexivity|]. apply in_rev. rewrite rev_involutive. exact Hj.
  - intros j Hj. apply Jout. intros Hi. apply Hj. apply in_rev. exact Hi.
Qed.

End RemoveAll.

(* non-vacuity: three queued jobs, one of them overdue, and a paused countdown that is not touched *)
Definition ra_env : env := {| prod := fun _ _ t => Ok (t + 10); fail_exec := fun _ _ => false; fail_cb := fun _ _ => false |}.
Definition ra_state : st :=
  fst (run ra_env 50 true (init 0 false)
         [OOnce 5 1; OOnce 3 2; OAt 3; OCountdown 7 4; OAdvance 4; OEnable true]).
Example remove_all_example :
  queue ra_state = [0%nat; 2%nat] /\
  (let '(s', rs) := remove_all ra_env 2 true ra_state in
   queue s' = [] /\ timer s' = None /\ rs = [Done; Done] /\
   map (fun j => jstatus (jobs s' j)) [0%nat; 1%nat; 2%nat; 3%nat] = [Finished; Finished; Finished; Paused] /\
   count_all_exec (log s') = 1%nat /\ store s' = [(4, 3%nat)]).
Proof. vm_compute. repeat split. Qed.
