(* Replace.v — helpers/time_replace.py: TimeReplacer.replace and find_time_after_dst_switch over an
   explicit time-zone table.  A local day is its day number (local ns / DAY); a time of day is ns. *)
From EAS Require Import Base Civil Time.
From EASGen Require Import Generated.

Inductive skipped_pol := SkSkip | SkEarlier | SkLater | SkAfter.
Inductive repeated_pol := RpSkip | RpEarlier | RpLater | RpTwice.

Record treplacer := { tr_tod : Z; tr_sk : skipped_pol; tr_rp : repeated_pol }.

Inductive rres :=
  | ROne (i : Z)                (* the SystemDateTime that replace returns *)
  | RTwo (i1 i2 : Z)            (* TimeTwiceError(earlier, later) *)
  | RSkip                       (* TimeSkippedError *)
  | RExn (e : err).             (* ValueError of the search, or RepeatedTime escaping from it *)

(* find_time_after_dst_switch: drop the seconds, then try the following minutes one by one.  Each
   candidate minute is built on the date the minute belongs to (after the repair of F4). *)
Definition after_step (z : tz) (base : Z) (k : Z) : Z + rres :=
  let lt := base + (k + 1) * MINUTE in
  match candidates z lt with
  | [] => inl (k + 1)
  | [i] => inr (ROne i)
  | _ :: _ :: _ => inr (RExn EOther)          (* RepeatedTime is not caught by the search *)
  end.

Definition find_after (z : tz) (day tod : Z) : rres :=
  let base := day * DAY + (tod / MINUTE) * MINUTE in
  match iter_until (Z.to_pos after_search_minutes) (after_step z base) 0 with
  | inr r => r
  | inl _ => RExn EValueError               (* 'Could not find a time after the DST switch' *)
  end.

Definition replace (z : tz) (tr : treplacer) (day : Z) : rres :=
  let l := day * DAY + tr_tod tr in
  match candidates z l with
  | [i] => ROne i
  | [] =>
      match tr_sk tr with
      | SkSkip => RSkip
      | SkEarlier => match gap_of z l with Some (_, oa) => ROne (l - oa * NS) | None => RExn EOther end
      | SkLater => match gap_of z l with Some (ob, _) => ROne (l - ob * NS) | None => RExn EOther end
      | SkAfter => find_after z day (tr_tod tr)
      end
  | i1 :: (_ :: _) as rest =>
      match tr_rp tr with
      | RpSkip => RSkip
      | RpEarlier => ROne i1
      | RpLater => ROne (last_z i1 rest)
      | RpTwice => RTwo i1 (last_z i1 rest)
      end
  end.

(* the policy table of property C06, stated directly *)
Inductive resolved := Unique (i : Z) | Skipped (ob oa : Z) | Repeated (first last : Z) | Unresolvable.
Definition resolve (z : tz) (l : Z) : resolved :=
  match candidates z l with
  | [i] => Unique i
  | [] => match gap_of z l with Some (ob, oa) => Skipped ob oa | None => Unresolvable end
  | i1 :: (_ :: _) as rest => Repeated i1 (last_z i1 rest)
  end.
