(* GenSystem.v — THE FULLY GENERATED STACK AS ONE HISTORY MACHINE.

   The property theorems of this development are stated about the hand-written model (Sched.v: [step_op] / [run]).
   Ten translators regenerate Gallina from the Python sources on every run and Gen*Eq.v prove each generated piece
   equal to its model.  This file puts the generated pieces together: [gen_step_op] / [gen_run] execute the SAME
   histories ([Sched.op]) with generated code only -

     OOnce / OCountdown / OAt   JobBuilder.once / countdown / at (GenBuilder.v) -> _add_job -> InMemoryStore.add_job,
                                JobBase.link_scheduler -> update_first / set_next_run (GenJobs.v) ->
                                AsyncScheduler.add_job -> _set_timer -> run_jobs ... (GenSched.v, closed by [knot2])
     OCancel / OPause / OResume / OReset / OSetCountdown
                                the control methods (GenBuilder.v) -> job_finish / job_pause / job_resume / reset /
                                set_countdown (GenJobs.v) -> remove_job / update_job of the generated scheduler
     OEnable                    AsyncScheduler.set_enabled (GenSched.v)
     OWake / OEarlyWake         AsyncScheduler.run_jobs (GenSched.v) with the generated job.execute()
     ORegister / OUnregister    JobCallbackHandler.register / remove (GenJobs.v)

   - and [gen_run_is_model] proves: for every environment, fuel, store flag and every typed history, as long as the
   model does not run out of fuel, [gen_run] yields the model's outcomes and the model's state up to [eqst] (all
   fields equal, job tables equal at every index).  Every model theorem is thereby a theorem about what the files
   say today; section 3 restates the main ones for the generated machine (C01 C02 C07 C08 C09 C10), GenSystem2.v
   adds the generated producers as the trigger environment (C03).

   WHAT REMAINS HAND-WRITTEN between the generated pieces (and is therefore assumed, not derived from source):
     (a) the vocabulary [Sched.op] of histories, the initial state [Sched.init] (since the third session tied to the
         generated `AsyncScheduler.__init__` / `InMemoryStore.__init__` in GenInitEq.v: [gen_system_from_generated_init];
         `JobBuilder.__init__` is not translated), the clock ([OAdvance]: both clocks move
         together, nothing else happens) and the operation counter [opi] (bookkeeping of the log);
     (b) the event loop: the armed TimerHandle [timer g = Some w] fires `run_jobs` when [w <= now g] ([OWake]), or
         although its time is not reached ([OEarlyWake]); with no armed handle nothing happens.  That firing rule is
         asyncio's `call_at`, not source of the library;
     (c) the conversion of the user's arguments before the entry points: the instant of once() is taken as
         converted ([CVal t]), countdown() gets [conv_secs] (ValueError on a non-positive value - the generated
         `get_pos_timedelta_secs` is tied to its model separately, GenInstantEq.v), at() gets a trigger object whose
         answers are the environment [prod E j] (GenSystem2.v instantiates it with the generated producers);
     (d) which control class an entry point hands out (`return CountdownJobControl(job)` ... is not translated): a
         control method that the class of the job does not have is an AttributeError ([JAttribute]); typed histories
         ([ops_wt], as SchedExact3.ops_typed) never get there;
     (e) an entry point that raises before the new job object was linked (the store refused a duplicate id) leaves
         an object that nothing refers to: [drop_unreferenced] continues from the state before the call (the model
         does not count that object either: GenBuilderEq.create_agrees);
     (f) the user's callables, callbacks, the exception handler and the random source are the environment [env];
         astral is an oracle of the producer environment (GenSystem2.v);
     (g) the runtime files GenRt*.v (state, exceptions as values, open recursion, one unit of fuel per call).
   Not covered: the outcome NoFuel of the model (an artefact of the encoding: SchedFuel.run_total shows that
   [length ops + 7] units suffice when triggers answer; [gen_run_total] below uses it). *)
From EAS Require Import Base BaseFacts Sched SchedInv SchedApi SchedProps SchedLog SchedIso SchedOrder SchedTrace
  SchedEqst SchedExact SchedExact2 SchedExact3 SchedHandled SchedFresh SchedFuel
  GenRt GenSchedEq GenRtJobs GenJobsEq GenRtBuilder GenBuilderEq.
From EASGen Require Import Generated GenSched GenJobs GenBuilder.

(* ------------------------------------------------------------------------------------------- *)
(* 1. The generated history machine *)

(* how an operation ends: the exception is the one the generated code raised *)
Inductive goutcome := GDone | GRaised (e : jexn) | GNoFuel.

(* the corresponding outcome of the model *)
Definition oc_of (r : outcome) : goutcome :=
  match r with Done => GDone | Raised e => GRaised (JErr e) | NoFuel => GNoFuel end.

Definition of_MJ (m : MJ) (s0 : st) : st * goutcome :=
  match m with
  | None => (s0, GNoFuel)
  | Some (g, JRet) => (g, GDone)
  | Some (g, JExc e) => (g, GRaised e)
  end.
Definition of_M (m : M) (s0 : st) : st * goutcome :=
  match m with
  | None => (s0, GNoFuel)
  | Some (g, Ret) => (g, GDone)
  | Some (g, Exc e) => (g, GRaised (JSched e))
  end.

(* (c) get_pos_timedelta_secs as a primitive *)
Definition conv_secs (secs : Z) : cres Z := if secs <=? 0 then CExc EValueError else CVal secs.

(* (e) the entry point raised and the object it constructed (slot [njobs s0]) is still Created: nothing refers to it *)
Definition drop_unreferenced (s0 : st) (p : st * goutcome) : st * goutcome :=
  match p with
  | (g, GRaised e) =>
      if Nat.eqb (njobs g) (S (njobs s0)) && status_is g (njobs s0) Created then (s0, GRaised e) else p
  | _ => p
  end.

Section Machine.
Variable E : env.

Definition gen_step_op (fuel : nat) (hs : bool) (g : st) (o : op) : st * goutcome :=
  match o with
  | OOnce t key => drop_unreferenced g (of_MJ (gen_once E fuel hs (CVal t) key g) g)
  | OCountdown secs key => drop_unreferenced g (of_MJ (gen_countdown E fuel hs (conv_secs secs) key g) g)
  | OAt key => drop_unreferenced g (of_MJ (gen_at E fuel hs (CVal tt) key g) g)
  | OCancel j => of_MJ (gen_ctl_cancel E fuel j g) g                          (* BaseControl.cancel *)
  | OPause j =>
      match jkind (jobs g j) with
      | KAt => of_MJ (gen_ctl_pause E fuel j g) g                             (* DateTimeJobControl.pause *)
      | KCountdown => of_MJ (gen_ctl_stop E fuel j g) g                       (* CountdownJobControl.stop *)
      | KOnce => (g, GRaised JAttribute)                                      (* OneTimeJobControl has neither *)
      end
  | OResume j =>
      match jkind (jobs g j) with
      | KAt => of_MJ (gen_ctl_resume E fuel j g) g                            (* DateTimeJobControl.resume *)
      | _ => (g, GRaised JAttribute)
      end
  | OReset j =>
      match jkind (jobs g j) with
      | KCountdown => of_MJ (gen_ctl_reset E fuel j g) g                      (* CountdownJobControl.reset *)
      | _ => (g, GRaised JAttribute)
      end
  | OSetCountdown j secs =>
      match jkind (jobs g j) with
      | KCountdown => of_MJ (gen_ctl_set_countdown E fuel j secs g) g         (* CountdownJobControl.set_countdown *)
      | _ => (g, GRaised JAttribute)
      end
  | OEnable b => of_M (gen2_set_enabled E fuel b g) g                         (* AsyncScheduler.set_enabled *)
  | ORegister j w cb => of_MJ (g_JobCallbackHandler_register w j (CbUser cb) g) g
  | OUnregister j w cb => of_MJ (g_JobCallbackHandler_remove w j (CbUser cb) g) g
  | OAdvance d => (set_now (now g + Z.max 0 d) g, GDone)                      (* (a) the clock *)
  | OWake =>                                                                  (* (b) the event loop *)
      match timer g with
      | Some w => if w <=? now g then of_M (gen2_run_jobs E fuel g) g else (g, GDone)
      | None => (g, GDone)
      end
  | OEarlyWake =>
      match timer g with
      | Some _ => of_M (gen2_run_jobs E fuel g) g
      | None => (g, GDone)
      end
  end.

Definition gen_step (fuel : nat) (hs : bool) (g : st) (o : op) : st * goutcome :=
  let '(g', r) := gen_step_op fuel hs g o in (set_opi (S (opi g')) g', r).

Fixpoint gen_run (fuel : nat) (hs : bool) (g : st) (ops : list op) : st * list goutcome :=
  match ops with
  | [] => (g, [])
  | o :: t => let '(g1, r) := gen_step fuel hs g o in
              let '(g2, rs) := gen_run fuel hs g1 t in (g2, r :: rs)
  end.

(* ------------------------------------------------------------------------------------------- *)
(* 2a. the model respects [eqst]: every operation, every amount of fuel *)

Definition prel (x y : st * outcome) : Prop := eqst (fst x) (fst y) /\ snd x = snd y.

Lemma eqst_set_now v a b : eqst a b -> eqst (set_now v a) (set_now v b).
Proof. intros H. eq_split H. eq_fields. Qed.
Lemma eqst_set_opi v a b : eqst a b -> eqst (set_opi v a) (set_opi v b).
Proof. intros H. eq_split H. eq_fields. Qed.

Lemma lift_prel x y a b : orel x y -> eqst a b -> prel (lift x a) (lift y b).
Proof.
  intros Ho Hab. destruct x as [x|], y as [y|]; cbn [orel] in Ho; try contradiction; unfold lift, prel; cbn [fst snd];
    split; auto.
Qed.

Lemma update_job_eqst f j a b : eqst a b -> orel (update_job E f j a) (update_job E f j b).
Proof.
  intros H. unfold update_job. pose proof (remove_job_eqst E f j _ _ H) as Hm.
  destruct (remove_job E f j a) as [a1|], (remove_job E f j b) as [b1|]; cbn [orel] in Hm |- *; try tauto.
  apply add_job_eqst. exact Hm.
Qed.

Lemma alloc_eqst hs bj a b : eqst a b -> eqst (alloc hs bj a) (alloc hs bj b).
Proof.
  intros H. unfold alloc. cbv zeta. pose proof H as H'. eq_split H'. rewrite Hn.
  assert (H1 : eqst (set_njobs (S (njobs b)) (set_job (njobs b) (with_linked (with_stored bj hs) true) a))
                    (set_njobs (S (njobs b)) (set_job (njobs b) (with_linked (with_stored bj hs) true) b))).
  { apply eqst_set_njobs, eqst_set_job. exact H. }
  destruct hs; [|exact H1].
  cbn [store set_njobs set_job set_jobs]. rewrite Hst. apply eqst_set_store. exact H1.
Qed.

Lemma create_prel f hs bj a b : eqst a b -> prel (create E f hs bj a) (create E f hs bj b).
Proof.
  intros H. rewrite !create_eq. pose proof H as H'. eq_split H'. rewrite Hst, Hn.
  destruct (hs && store_has (jkey bj) (store b)); [split; [exact H|reflexivity]|].
  pose proof (alloc_eqst hs bj a b H) as Ha.
  destruct (create_first_eqst E (njobs b) bj _ _ Ha) as (Hf & Hs).
  destruct (create_first E (njobs b) bj (alloc hs bj a)) as (a2, oa).
  destruct (create_first E (njobs b) bj (alloc hs bj b)) as (b2, ob). cbn [fst snd] in Hf, Hs. subst ob.
  unfold create_rest. destruct oa as [|e|].
  - apply lift_prel; [apply add_job_eqst; exact Hf|exact Hf].
  - pose proof (job_finish_eqst E f (njobs b) _ _ Hf) as Hjf.
    destruct (job_finish E f (njobs b) a2) as [a3|], (job_finish E f (njobs b) b2) as [b3|]; cbn [orel] in Hjf;
      try contradiction; split; cbn [fst snd]; auto.
  - split; cbn [fst snd]; auto.
Qed.

Theorem step_op_eqst f hs a b o : eqst a b -> prel (step_op E f hs a o) (step_op E f hs b o).
Proof.
  intros H. pose proof H as H'. eq_split H'.
  assert (Hfin : forall j, is_finished a j = is_finished b j) by (intros j; unfold is_finished; rewrite Hj; reflexivity).
  assert (Hsame : prel (a, Done) (b, Done)) by (split; [exact H|reflexivity]).
  destruct o; cbn [step_op].
  - apply create_prel; exact H.
  - destruct (secs <=? 0); [split; [exact H|reflexivity]|apply create_prel; exact H].
  - apply create_prel; exact H.
  - rewrite Hfin. destruct (is_finished b j); [split; [exact H|reflexivity]|].
    apply lift_prel; [apply job_finish_eqst; exact H|exact H].
  - rewrite Hfin. destruct (is_finished b j); [split; [exact H|reflexivity]|].
    pose proof (remove_job_eqst E f j _ _ H) as Hm.
    destruct (remove_job E f j a) as [a1|], (remove_job E f j b) as [b1|]; cbn [orel] in Hm; try contradiction;
      split; cbn [fst snd]; auto. apply set_next_run_eqst; exact Hm.
  - rewrite Hfin, Hj, Hlog, Hnow. destruct (is_finished b j); [split; [exact H|reflexivity]|].
    destruct (negb (jlinked (jobs b j))); [split; [exact H|reflexivity]|]. cbv zeta.
    pose proof (eqst_add_ev (EProd j) _ _ H) as H1.
    destruct (prod E j (count_prod j (log b)) (now b)) as [v|e|]; try (split; [exact H1|reflexivity]).
    rewrite (too_old_eqst _ _ v H1). destruct (too_old (add_ev (EProd j) b) v); [split; [exact H1|reflexivity]|].
    apply lift_prel; [apply update_job_eqst, set_next_run_eqst; exact H1|exact H1].
  - rewrite Hj, Hnow. destruct (negb (jlinked (jobs b j))); [split; [exact H|reflexivity]|]. cbv zeta.
    pose proof (set_next_run_eqst E j (Some (now b + jsecs (jobs b j))) _ _ H) as H1.
    apply lift_prel; [apply update_job_eqst; exact H1|exact H1].
  - rewrite Hfin, Hj. destruct (is_finished b j); [split; [exact H|reflexivity]|].
    destruct (secs <=? 0); (split; [|reflexivity]); cbn [fst]; [exact H|apply eqst_set_job; exact H].
  - rewrite Hen. destruct (Bool.eqb b0 (enabled b)); [exact Hsame|]. cbv zeta.
    pose proof (eqst_set_enabled_f b0 _ _ H) as H1.
    destruct (core_eqst_all E f) as (Ct & _). apply lift_prel; [apply Ct; exact H1|exact H1].
  - cbv zeta. rewrite Hj.
    destruct w; [destruct (memb cb (jcbu (jobs b j)))|destruct (memb cb (jcbf (jobs b j)))]; try exact Hsame;
      (split; [|reflexivity]); cbn [fst]; apply eqst_set_job; exact H.
  - cbv zeta. rewrite Hj. destruct w; (split; [|reflexivity]); cbn [fst]; apply eqst_set_job; exact H.
  - rewrite Hnow. split; [|reflexivity]. cbn [fst]. apply eqst_set_now; exact H.
  - rewrite Htm, Hnow. destruct (timer b) as [w|]; [|exact Hsame]. destruct (w <=? now b); [|exact Hsame].
    destruct (core_eqst_all E f) as (_ & Cr & _). apply lift_prel; [apply Cr; exact H|exact H].
  - rewrite Htm. destruct (timer b) as [w|]; [|exact Hsame].
    destruct (core_eqst_all E f) as (_ & Cr & _). apply lift_prel; [apply Cr; exact H|exact H].
Qed.

End Machine.

(* ------------------------------------------------------------------------------------------- *)
(* 2b. countdown values are never negative - for EVERY environment (SchedExact3.SecsPos needs triggers that answer).
   The re-entrant core never writes `_seconds`. *)
Section Secs.
Variable E : env.

Definition secs_same (s s' : st) : Prop := forall k, jsecs (jobs s' k) = jsecs (jobs s k).

Lemma secs_same_refl s : secs_same s s.
Proof. intros k; reflexivity. Qed.
Lemma secs_same_trans a b c : secs_same a b -> secs_same b c -> secs_same a c.
Proof. intros H1 H2 k. rewrite H2. apply H1. Qed.
Lemma secs_same_jobs s s' : jobs s' = jobs s -> secs_same s s'.
Proof. intros H k. rewrite H. reflexivity. Qed.
Lemma secs_snr j nx s : secs_same s (set_next_run E j nx s).
Proof.
  destruct (set_next_run_props E j nx s) as (_ & _ & _ & _ & _ & _ & _ & _ & q9). intros k. rewrite q9. unfold upd.
  destruct (Nat.eqb_spec k j) as [->|]; reflexivity.
Qed.
Lemma secs_fin j s : secs_same s (finish_job E j s).
Proof.
  destruct (finish_job_props E j s) as (_ & _ & _ & _ & _ & _ & _ & q8). intros k. rewrite q8. unfold upd.
  destruct (Nat.eqb_spec k j) as [->|]; reflexivity.
Qed.

Definition secs_specs (f : nat) : Prop :=
  (forall s s', set_timer E f s = Some s' -> secs_same s s') /\
  (forall s s', run_jobs E f s = Some s' -> secs_same s s') /\
  (forall s s', run_loop E f s = Some s' -> secs_same s s') /\
  (forall j s s', add_job E f j s = Some s' -> secs_same s s') /\
  (forall j s s', remove_job E f j s = Some s' -> secs_same s s') /\
  (forall j t s s', exec_job E f j t s = Some s' -> secs_same s s').

Theorem secs_specs_all : forall f, secs_specs f.
Proof.
  induction f as [|f (IHst & IHrj & IHlp & IHadd & IHrm & IHex)].
  - repeat split; intros; discriminate.
  - split; [|split; [|split; [|split; [|split]]]].
    + intros s s' H. rewrite set_timer_S in H. cbv zeta in H.
      assert (Hid : forall sx, jobs sx = jobs s -> secs_same s sx) by (intros sx; apply secs_same_jobs).
      destruct (queue (set_timer_f None s)) as [|h q]; [injection H as <-; apply Hid; reflexivity|].
      destruct (negb (enabled (set_timer_f None s))); [injection H as <-; apply Hid; reflexivity|].
      destruct (jnext (jobs (set_timer_f None s) h)) as [t|]; [|injection H as <-; apply Hid; reflexivity].
      destruct (t <=? now (set_timer_f None s)); [|injection H as <-; apply Hid; reflexivity].
      apply IHrj in H. exact H.
    + intros s s' H. rewrite run_jobs_S in H. cbv zeta in H.
      destruct (run_loop E f (set_timer_f None s)) as [s1|] eqn:EL; [|discriminate].
      apply IHlp in EL. assert (T1 : secs_same s s1) by exact EL.
      destruct (broken s1); [injection H as <-; exact T1|].
      destruct (queue s1) as [|h q]; [injection H as <-; exact T1|].
      apply IHst in H. eapply secs_same_trans; eassumption.
    + intros s s' H. rewrite run_loop_S in H.
      destruct (queue s) as [|h q]; [injection H as <-; apply secs_same_refl|].
      destruct (jnext (jobs s h)) as [t|]; [|injection H as <-; apply secs_same_jobs; reflexivity].
      destruct (now s <? t); [injection H as <-; apply secs_same_refl|].
      cbv zeta in H.
      destruct (exec_job E f h t (set_queue q s)) as [s2|] eqn:EX; [|discriminate].
      apply IHex in EX. assert (T2 : secs_same s s2) by exact EX.
      destruct (status_eqb (jstatus (jobs s2 h)) Running).
      * destruct (add_job E f h s2) as [s3|] eqn:EA; [|discriminate].
        apply IHadd in EA. apply IHlp in H.
        eapply secs_same_trans; [eapply secs_same_trans; eassumption|exact H].
      * apply IHlp in H. eapply secs_same_trans; eassumption.
    + intros j s s' H. rewrite add_job_S in H.
      destruct (status_eqb (jstatus (jobs s j)) Running); [|injection H as <-; apply secs_same_refl].
      cbv zeta in H.
      destruct (is_head j (insort s j (queue s))); [apply IHst in H; exact H|].
      injection H as <-. apply secs_same_jobs; reflexivity.
    + intros j s s' H. rewrite remove_job_S in H.
      destruct (queue s) as [|h t]; [apply IHst in H; exact H|].
      cbv zeta in H.
      destruct (remove_first j (h :: t)) as [|h' t']; [apply IHst in H; exact H|].
      destruct (Nat.eqb h j); [apply IHst in H; exact H|].
      injection H as <-. apply secs_same_jobs; reflexivity.
    + intros j t s s' H. rewrite exec_job_S in H. cbv zeta in H.
      destruct (exec_pre_props E j t s) as ((_ & v2 & _) & _).
      remember (exec_pre E j t s) as s0 eqn:Es0. clear Es0.
      enough (T0 : secs_same s0 s') by (intros k; rewrite T0, v2; reflexivity).
      destruct (jkind (jobs s0 j)).
      * destruct (remove_job E f j s0) as [s1|] eqn:ER; [|discriminate]. injection H as <-.
        apply IHrm in ER. eapply secs_same_trans; [exact ER|apply secs_fin].
      * injection H as <-. apply secs_snr.
      * destruct (prod E j _ _) as [v|e|]; [|injection H as <-; apply secs_same_jobs; reflexivity|discriminate].
        destruct (too_old _ v); [injection H as <-; apply secs_same_jobs; reflexivity|].
        injection H as <-. eapply secs_same_trans; [|apply secs_snr]. apply secs_same_jobs; reflexivity.
Qed.

Definition SecsNN (s : st) : Prop := forall j, 0 <= jsecs (jobs s j).

Lemma SecsNN_init t0 en : SecsNN (init t0 en).
Proof. intros j. cbn. lia. Qed.

Lemma SecsNN_same s s' : secs_same s s' -> SecsNN s -> SecsNN s'.
Proof. intros H P j. rewrite H. apply P. Qed.

Lemma SecsNN_set_job s j b : 0 <= jsecs b -> SecsNN s -> SecsNN (set_job j b s).
Proof.
  intros Hb P k. cbn [jobs set_job set_jobs]. unfold upd. destruct (Nat.eqb k j); [exact Hb|apply P].
Qed.

Lemma update_job_secs f j s s' : update_job E f j s = Some s' -> secs_same s s'.
Proof.
  destruct (secs_specs_all f) as (_ & _ & _ & Ca & Cm & _). unfold update_job.
  destruct (remove_job E f j s) as [s1|] eqn:Em; [|discriminate]. intros Ha.
  eapply secs_same_trans; [eapply Cm; exact Em|eapply Ca; exact Ha].
Qed.

Lemma job_finish_secs f j s s' : job_finish E f j s = Some s' -> secs_same s s'.
Proof.
  destruct (secs_specs_all f) as (_ & _ & _ & _ & Cm & _). rewrite job_finish_eq.
  destruct (remove_job E f j s) as [s1|] eqn:Em; [|discriminate]. intros Ha. injection Ha as <-.
  eapply secs_same_trans; [eapply Cm; exact Em|apply secs_fin].
Qed.

Lemma create_secs f hs bj s s' r : 0 <= jsecs bj -> SecsNN s -> create E f hs bj s = (s', r) -> SecsNN s'.
Proof.
  intros Hb P H. rewrite create_eq in H.
  destruct (hs && store_has (jkey bj) (store s)); [injection H as <- <-; exact P|].
  assert (Pa : SecsNN (alloc hs bj s)).
  { intros k. destruct (alloc_fields hs bj s) as (_ & a2 & _). rewrite a2. unfold upd.
    destruct (Nat.eqb k (njobs s)); [exact Hb|apply P]. }
  assert (Pf : SecsNN (fst (create_first E (njobs s) bj (alloc hs bj s)))).
  { unfold create_first. destruct (jkind bj).
    - destruct (too_old _ _); cbn [fst]; [exact Pa|eapply SecsNN_same; [apply secs_snr|exact Pa]].
    - cbn [fst]. eapply SecsNN_same; [apply secs_snr|exact Pa].
    - cbv zeta. assert (Pe : SecsNN (add_ev (EProd (njobs s)) (alloc hs bj s))) by exact Pa.
      destruct (prod E _ _ _) as [v|e|]; cbn [fst]; try exact Pe.
      destruct (too_old _ v); cbn [fst]; [exact Pe|eapply SecsNN_same; [apply secs_snr|exact Pe]]. }
  destruct (create_first E (njobs s) bj (alloc hs bj s)) as (s2, o2). cbn [fst] in Pf. unfold create_rest in H.
  destruct (secs_specs_all f) as (_ & _ & _ & Ca & _).
  destruct o2 as [|e|].
  - unfold lift in H. destruct (add_job E f (njobs s) s2) as [s3|] eqn:Ea; injection H as <- <-; [|exact Pf].
    eapply SecsNN_same; [eapply Ca; exact Ea|exact Pf].
  - destruct (job_finish E f (njobs s) s2) as [s3|] eqn:Ef; injection H as <- <-; [|exact Pf].
    eapply SecsNN_same; [eapply job_finish_secs; exact Ef|exact Pf].
  - injection H as <- <-. exact Pf.
Qed.

Theorem SecsNN_step_op f hs s o s' r : SecsNN s -> step_op E f hs s o = (s', r) -> SecsNN s'.
Proof.
  intros P H. destruct (secs_specs_all f) as (Ct & Cr & _ & _ & Cm & _).
  destruct o; cbn [step_op] in H.
  - eapply create_secs; [|exact P|exact H]. cbn. lia.
  - destruct (secs <=? 0) eqn:Es; [injection H as <- <-; exact P|]. apply Z.leb_gt in Es.
    eapply create_secs; [|exact P|exact H]. cbn. lia.
  - eapply create_secs; [|exact P|exact H]. cbn. lia.
  - destruct (is_finished s j); [injection H as <- <-; exact P|]. unfold lift in H.
    destruct (job_finish E f j s) as [s1|] eqn:Ef; injection H as <- <-; [|exact P].
    eapply SecsNN_same; [eapply job_finish_secs; exact Ef|exact P].
  - destruct (is_finished s j); [injection H as <- <-; exact P|].
    destruct (remove_job E f j s) as [s1|] eqn:Em; injection H as <- <-; [|exact P].
    eapply SecsNN_same; [eapply secs_same_trans; [eapply Cm; exact Em|apply secs_snr]|exact P].
  - destruct (is_finished s j); [injection H as <- <-; exact P|].
    destruct (negb (jlinked (jobs s j))); [injection H as <- <-; exact P|]. cbv zeta in H.
    assert (Pe : SecsNN (add_ev (EProd j) s)) by exact P.
    destruct (prod E j _ _) as [v|e|]; try (injection H as <- <-; exact Pe).
    destruct (too_old _ v); [injection H as <- <-; exact Pe|]. unfold lift in H.
    destruct (update_job E f j _) as [s3|] eqn:Eu; injection H as <- <-; [|exact Pe].
    eapply SecsNN_same; [eapply secs_same_trans; [apply secs_snr|eapply update_job_secs; exact Eu]|exact Pe].
  - destruct (negb (jlinked (jobs s j))); [injection H as <- <-; exact P|]. cbv zeta in H. unfold lift in H.
    destruct (update_job E f j _) as [s3|] eqn:Eu; injection H as <- <-.
    + eapply SecsNN_same; [eapply secs_same_trans; [apply secs_snr|eapply update_job_secs; exact Eu]|exact P].
    + eapply SecsNN_same; [apply secs_snr|exact P].
  - destruct (is_finished s j); [injection H as <- <-; exact P|].
    destruct (secs <=? 0) eqn:Es; injection H as <- <-; [exact P|]. apply Z.leb_gt in Es.
    apply SecsNN_set_job; [cbn; lia|exact P].
  - destruct (Bool.eqb b (enabled s)); [injection H as <- <-; exact P|]. cbv zeta in H. unfold lift in H.
    destruct (set_timer E f (set_enabled_f b s)) as [s1|] eqn:Et; injection H as <- <-; [|exact P].
    eapply SecsNN_same; [eapply Ct; exact Et|exact P].
  - cbv zeta in H.
    destruct w; [destruct (memb cb (jcbu (jobs s j)))|destruct (memb cb (jcbf (jobs s j)))]; injection H as <- <-;
      try exact P; apply SecsNN_set_job; try exact P; cbn; apply P.
  - cbv zeta in H. destruct w; injection H as <- <-; apply SecsNN_set_job; try exact P; cbn; apply P.
  - injection H as <- <-. exact P.
  - destruct (timer s) as [w|]; [|injection H as <- <-; exact P].
    destruct (w <=? now s); [|injection H as <- <-; exact P]. unfold lift in H.
    destruct (run_jobs E f s) as [s1|] eqn:Er; injection H as <- <-; [|exact P].
    eapply SecsNN_same; [eapply Cr; exact Er|exact P].
  - destruct (timer s) as [w|]; [|injection H as <- <-; exact P]. unfold lift in H.
    destruct (run_jobs E f s) as [s1|] eqn:Er; injection H as <- <-; [|exact P].
    eapply SecsNN_same; [eapply Cr; exact Er|exact P].
Qed.

End Secs.

(* ------------------------------------------------------------------------------------------- *)
(* 2c. one operation: the generated machine against the model *)

(* typed histories (SchedExact3.op_typed: each control operation only on the kind of job whose control class offers
   it) in which cancel / pause / stop address a job that exists (the model lets a history address a slot >= njobs) *)
Definition op_wt (s : st) (o : op) : Prop :=
  op_typed s o /\ match o with OCancel j | OPause j => (j < njobs s)%nat | _ => True end.

Lemma op_wt_eqst a b o : eqst a b -> op_wt a o -> op_wt b o.
Proof.
  intros H (Ht & Hx). eq_split H. split; [destruct o; cbn [op_typed] in Ht |- *; try rewrite <- Hj; exact Ht|].
  destruct o; try exact Hx; rewrite <- Hn; exact Hx.
Qed.

Lemma LiveLinked_eqst a b : eqst a b -> LiveLinked a -> LiveLinked b.
Proof. intros H L j Hlt Hs. eq_split H. rewrite <- Hj in Hs |- *. apply L; [rewrite Hn; exact Hlt|exact Hs]. Qed.

Lemma SecsNN_eqst a b : eqst a b -> SecsNN a -> SecsNN b.
Proof. intros H P j. eq_split H. rewrite <- Hj. apply P. Qed.

Lemma of_MJ_ret r s' s0 : r <> NoFuel -> of_MJ (ret_of r s') s0 = (s', oc_of r).
Proof. destruct r; [reflexivity|reflexivity|congruence]. Qed.

Section Sim.
Variable E : env.

Lemma create_raised_status f hs b s s' e :
  create E f hs b s = (s', Raised e) -> hs && store_has (jkey b) (store s) = false ->
  jstatus (jobs s' (njobs s)) = Finished.
Proof.
  intros H Hc. rewrite create_eq, Hc in H. unfold create_rest in H.
  destruct (create_first E (njobs s) b (alloc hs b s)) as (s2, o2). destruct o2 as [|e'|].
  - unfold lift in H. destruct (add_job E f (njobs s) s2); discriminate.
  - rewrite job_finish_eq in H. destruct (remove_job E f (njobs s) s2) as [s3|]; [|discriminate].
    injection H as <- _. destruct (finish_job_props E (njobs s) s3) as (_ & _ & _ & _ & _ & _ & _ & q8).
    rewrite q8. unfold upd. rewrite Nat.eqb_refl. reflexivity.
  - discriminate.
Qed.

Lemma entry_sim f hs b g g1 r m :
  jstatus b = Created -> create_agrees hs b g g1 r m -> create E f hs b g = (g1, r) -> r <> NoFuel ->
  exists g', drop_unreferenced g (of_MJ m g) = (g', oc_of r) /\ eqst g' g1.
Proof.
  intros Hb A H Hr. unfold create_agrees in A. destruct (hs && store_has (jkey b) (store g)) eqn:Ec.
  - destruct A as (-> & -> & ->). exists g. split; [|apply eqst_refl].
    cbn [of_MJ drop_unreferenced oc_of]. unfold alloc_obj, status_is.
    cbn [njobs jobs set_njobs set_job set_jobs]. unfold upd. rewrite !Nat.eqb_refl, Hb. reflexivity.
  - destruct A as (g' & -> & Heq). exists g'. split; [|exact Heq].
    rewrite (of_MJ_ret r g' g Hr). destruct r as [|e|]; [reflexivity| |congruence].
    cbn [oc_of drop_unreferenced]. unfold status_is.
    pose proof (create_raised_status f hs b g g1 e H Ec) as Hf. destruct Heq as (_ & _ & _ & _ & Hj & _).
    rewrite Hj, Hf. cbn [status_eqb]. rewrite Bool.andb_false_r. reflexivity.
Qed.

Lemma loop_outcome_done (o : option st) s0 s' r : lift o s0 = (s', r) -> r <> NoFuel -> r = Done.
Proof. unfold lift. destruct o; intros H Hr; injection H as <- <-; congruence. Qed.

Theorem gen_step_op_same fuel hs g o g1 r :
  Inv g -> LiveLinked g -> SecsNN g -> op_wt g o -> step_op E fuel hs g o = (g1, r) -> r <> NoFuel ->
  exists g', gen_step_op E fuel hs g o = (g', oc_of r) /\ eqst g' g1.
Proof.
  intros I L P (Ht & Hx) H Hr.
  assert (Heta : forall m, m = ret_of r g1 -> exists g', of_MJ m g = (g', oc_of r) /\ eqst g' g1).
  { intros m ->. exists g1. split; [apply of_MJ_ret; exact Hr|apply eqst_refl]. }
  destruct o; cbn [gen_step_op op_typed] in *.
  - eapply (entry_sim fuel hs (new_job KOnce t 0 key)); [reflexivity|eapply gen_once_is_model; eassumption|exact H|exact Hr].
  - unfold conv_secs. destruct (secs <=? 0) eqn:Es.
    + cbn [step_op] in H. rewrite Es in H. injection H as <- <-. exists g. split; [|apply eqst_refl].
      destruct (gen_entry_conv_raises E fuel hs EValueError key g) as (-> & _).
      cbn [of_MJ drop_unreferenced oc_of]. replace (njobs g =? S (njobs g))%nat with false; [reflexivity|].
      symmetry. apply Nat.eqb_neq. lia.
    + apply Z.leb_gt in Es.
      eapply (entry_sim fuel hs (new_job KCountdown 0 secs key)); [reflexivity|eapply gen_countdown_is_model; eassumption| |exact Hr].
      cbn [step_op] in H. replace (secs <=? 0) with false in H by lia. exact H.
  - eapply (entry_sim fuel hs (new_job KAt 0 0 key)); [reflexivity|eapply gen_at_is_model; eassumption|exact H|exact Hr].
  - apply Heta. eapply gen_ctl_cancel_is_model; eassumption.
  - destruct (jkind (jobs g j)) eqn:Ek; [congruence| |]; apply Heta.
    + eapply gen_ctl_stop_is_model; eassumption.
    + eapply gen_ctl_pause_is_model; eassumption.
  - rewrite Ht. apply Heta. eapply gen_ctl_resume_is_model; eassumption.
  - rewrite Ht. apply Heta. eapply gen_ctl_reset_is_model; try eassumption. apply P.
  - rewrite Ht. apply Heta. eapply gen_ctl_set_countdown_is_model; eassumption.
  - assert (Hd : r = Done).
    { cbn [step_op] in H. destruct (Bool.eqb b (enabled g)); [injection H as <- <-; reflexivity|].
      eapply loop_outcome_done; eassumption. }
    subst r. rewrite (gen2_enable_is_model E fuel hs g b g1 I H). exists g1. split; [reflexivity|apply eqst_refl].
  - apply Heta. eapply gen_register_is_model; exact H.
  - destruct (memb cb (cbs_of w (jobs g j))) eqn:Em.
    + apply Heta. eapply gen_unregister_is_model; eassumption.
    + destruct (gen_unregister_absent E fuel hs g j w cb Em) as (-> & Hm). cbv zeta in Hm. rewrite H in Hm.
      cbn [fst snd] in Hm. destruct Hm as (-> & Hj & Hf). injection Hf as f1 f2 f3 f4 f5 f6 f7 f8 f9.
      exists g. split; [reflexivity|]. unfold eqst. repeat split; try (symmetry; assumption).
      intros k. symmetry. apply Hj.
  - cbn [step_op] in H. injection H as <- <-. eexists. split; [reflexivity|apply eqst_refl].
  - destruct (timer g) as [w|] eqn:Etm.
    + destruct (w <=? now g) eqn:Ew.
      * assert (Hd : r = Done).
        { cbn [step_op] in H. rewrite Etm, Ew in H. eapply loop_outcome_done; eassumption. }
        subst r. apply Z.leb_le in Ew. rewrite (gen2_wake_is_model E fuel hs g g1 w I Etm Ew H).
        exists g1. split; [reflexivity|apply eqst_refl].
      * cbn [step_op] in H. rewrite Etm, Ew in H. injection H as <- <-. exists g. split; [reflexivity|apply eqst_refl].
    + cbn [step_op] in H. rewrite Etm in H. injection H as <- <-. exists g. split; [reflexivity|apply eqst_refl].
  - destruct (timer g) as [w|] eqn:Etm.
    + assert (Hd : r = Done).
      { cbn [step_op] in H. rewrite Etm in H. eapply loop_outcome_done; eassumption. }
      subst r. rewrite (gen2_early_wake_is_model E fuel hs g g1 w I Etm H).
      exists g1. split; [reflexivity|apply eqst_refl].
    + cbn [step_op] in H. rewrite Etm in H. injection H as <- <-. exists g. split; [reflexivity|apply eqst_refl].
Qed.

(* the model's invariants that the per-operation theorems need; all reachable *)
Definition MInv (s : st) : Prop := Inv s /\ LiveLinked s /\ SecsNN s.

Lemma MInv_init t0 en : MInv (init t0 en).
Proof.
  split; [apply Inv_init|]. split; [|apply SecsNN_init]. intros j Hj. cbn in Hj. lia.
Qed.

Lemma MInv_eqst a b : eqst a b -> MInv a -> MInv b.
Proof.
  intros H (I & L & P). split; [eapply Inv_eqst; eassumption|].
  split; [eapply LiveLinked_eqst; eassumption|eapply SecsNN_eqst; eassumption].
Qed.

Theorem gen_step_op_sim fuel hs g s o s' r :
  eqst g s -> MInv s -> op_wt s o -> step_op E fuel hs s o = (s', r) -> r <> NoFuel ->
  exists g', gen_step_op E fuel hs g o = (g', oc_of r) /\ eqst g' s'.
Proof.
  intros Heq M Hw H Hr. pose proof (eqst_sym _ _ Heq) as Hsg.
  destruct (MInv_eqst _ _ Hsg M) as (I & L & P).
  pose proof (step_op_eqst E fuel hs g s o Heq) as (H1 & H2). rewrite H in H1, H2. cbn [fst snd] in H1, H2.
  destruct (step_op E fuel hs g o) as (g1, r1) eqn:Eg. cbn [fst snd] in H1, H2. subst r1.
  destruct (gen_step_op_same fuel hs g o g1 r I L P (op_wt_eqst _ _ _ Hsg Hw) Eg Hr) as (g' & Hg & He).
  exists g'. split; [exact Hg|eapply eqst_trans; eassumption].
Qed.

End Sim.

(* ------------------------------------------------------------------------------------------- *)
(* 2d. whole histories *)
Section Run.
Variable E : env.

Fixpoint ops_wt (fuel : nat) (hs : bool) (s : st) (ops : list op) : Prop :=
  match ops with
  | [] => True
  | o :: t => op_wt s o /\ ops_wt fuel hs (fst (step E fuel hs s o)) t
  end.

Lemma MInv_step fuel hs s o s1 r : MInv s -> step E fuel hs s o = (s1, r) -> r <> NoFuel -> MInv s1.
Proof.
  intros (I & L & P) ES Hr. split; [eapply step_inv; eassumption|]. split.
  - eapply (LiveLinked_run E fuel hs [o] s s1 [r]); [exact I|exact L| |].
    + cbn [run]. rewrite ES. reflexivity.
    + intros [Hc|[]]. congruence.
  - unfold step in ES. destruct (step_op E fuel hs s o) as (sx, rx) eqn:EO. injection ES as <- <-.
    intros j. exact (SecsNN_step_op E fuel hs s o sx rx P EO j).
Qed.

Theorem gen_run_sim fuel hs ops : forall g s s' rs,
  eqst g s -> MInv s -> ops_wt fuel hs s ops -> run E fuel hs s ops = (s', rs) -> ~ In NoFuel rs ->
  exists g', gen_run E fuel hs g ops = (g', map oc_of rs) /\ eqst g' s'.
Proof.
  induction ops as [|o t IH]; intros g s s' rs Heq M Hw H Hr; cbn [run gen_run] in *.
  - injection H as <- <-. exists g. split; [reflexivity|exact Heq].
  - destruct Hw as (Ho & Ht). destruct (step E fuel hs s o) as (s1, r) eqn:ES.
    destruct (run E fuel hs s1 t) as (s2, rs') eqn:ER. injection H as <- <-. cbn [fst] in Ht.
    assert (Hr1 : r <> NoFuel) by (intros ->; apply Hr; left; reflexivity).
    pose proof (MInv_step _ _ _ _ _ _ M ES Hr1) as M1.
    unfold step in ES. destruct (step_op E fuel hs s o) as (sx, rx) eqn:EO. injection ES as <- <-.
    destruct (gen_step_op_sim E fuel hs g s o sx rx Heq M Ho EO Hr1) as (gx & Hg & Hex).
    assert (Heq1 : eqst (set_opi (S (opi gx)) gx) (set_opi (S (opi sx)) sx)).
    { pose proof Hex as (_ & _ & _ & _ & _ & _ & _ & _ & Hopi & _). rewrite Hopi. apply eqst_set_opi. exact Hex. }
    destruct (IH _ _ _ _ Heq1 M1 Ht ER (fun Hc => Hr (or_intror Hc))) as (g' & Hrun & He).
    exists g'. unfold gen_step. rewrite Hg, Hrun. split; [reflexivity|exact He].
Qed.

(* THE TIE OF THE WHOLE STACK: for every environment, fuel, store flag and typed history from the initial state,
   as long as the model does not run out of fuel, the generated machine yields the model's outcomes and the
   model's state (every field equal, the job tables equal at every index) *)
Theorem gen_run_is_model fuel hs t0 en ops s rs :
  ops_wt fuel hs (init t0 en) ops -> run E fuel hs (init t0 en) ops = (s, rs) -> ~ In NoFuel rs ->
  exists g, gen_run E fuel hs (init t0 en) ops = (g, map oc_of rs) /\ eqst g s.
Proof. intros Hw H Hr. exact (gen_run_sim fuel hs ops _ _ _ _ (eqst_refl _) (MInv_init t0 en) Hw H Hr). Qed.

(* the same, read from the generated side *)
Corollary gen_run_fst fuel hs t0 en ops :
  ops_wt fuel hs (init t0 en) ops -> ~ In NoFuel (snd (run E fuel hs (init t0 en) ops)) ->
  eqst (fst (gen_run E fuel hs (init t0 en) ops)) (fst (run E fuel hs (init t0 en) ops)) /\
  snd (gen_run E fuel hs (init t0 en) ops) = map oc_of (snd (run E fuel hs (init t0 en) ops)).
Proof.
  intros Hw Hr. destruct (run E fuel hs (init t0 en) ops) as (s, rs) eqn:H. cbn [fst snd] in *.
  destruct (gen_run_is_model fuel hs t0 en ops s rs Hw H Hr) as (g & -> & He). split; [exact He|reflexivity].
Qed.

End Run.

(* ------------------------------------------------------------------------------------------- *)
(* 3. The property theorems for the generated machine.  Each is the model theorem transported along
   [gen_run_is_model] / [gen_step_op_sim]. *)
Section Corollaries.
Variable E : env.

(* g is the state the generated machine reaches by a typed history on which the model does not run out of fuel *)
Definition GReach (fuel : nat) (hs : bool) (t0 : Z) (en : bool) (ops : list op) (g : st) : Prop :=
  ops_wt E fuel hs (init t0 en) ops /\ ~ In NoFuel (snd (run E fuel hs (init t0 en) ops)) /\
  g = fst (gen_run E fuel hs (init t0 en) ops).

(* the next operation does not exhaust the fuel either (for the model, started in the generated state) *)
Definition fuel_ok (fuel : nat) (hs : bool) (g : st) (o : op) : Prop := snd (step_op E fuel hs g o) <> NoFuel.

Lemma MInv_run fuel hs ops : forall s s' rs,
  MInv s -> run E fuel hs s ops = (s', rs) -> ~ In NoFuel rs -> MInv s'.
Proof.
  induction ops as [|o t IH]; intros s s' rs M H Hr; cbn [run] in H.
  - injection H as <- <-. exact M.
  - destruct (step E fuel hs s o) as (s1, r) eqn:ES. destruct (run E fuel hs s1 t) as (s2, rs') eqn:ER.
    injection H as <- <-. eapply IH; [|exact ER|intros Hc; apply Hr; right; exact Hc].
    eapply MInv_step; [exact M|exact ES|intros ->; apply Hr; left; reflexivity].
Qed.

Lemma ops_wt_typed fuel hs ops : forall s, ops_wt E fuel hs s ops -> ops_typed E fuel hs s ops.
Proof. induction ops as [|o t IH]; intros s H; [exact I|]. destruct H as ((Ht & _) & H). split; [exact Ht|apply IH; exact H]. Qed.

Theorem greach_model fuel hs t0 en ops g : GReach fuel hs t0 en ops g ->
  exists s rs, run E fuel hs (init t0 en) ops = (s, rs) /\ ~ In NoFuel rs /\ eqst g s /\
               snd (gen_run E fuel hs (init t0 en) ops) = map oc_of rs /\ MInv s /\ MInv g.
Proof.
  intros (Hw & Hr & ->). destruct (run E fuel hs (init t0 en) ops) as (s, rs) eqn:H. cbn [snd] in Hr.
  destruct (gen_run_is_model E fuel hs t0 en ops s rs Hw H Hr) as (g & Hg & He). rewrite Hg. cbn [fst snd].
  pose proof (MInv_run fuel hs ops _ _ _ (MInv_init t0 en) H Hr) as M.
  exists s, rs. split; [reflexivity|]. split; [exact Hr|]. split; [exact He|]. split; [reflexivity|].
  split; [exact M|apply (MInv_eqst _ _ (eqst_sym _ _ He) M)].
Qed.

(* one more operation from a reachable state *)
Theorem gen_step_of_reach fuel hs t0 en ops g o g' gr :
  GReach fuel hs t0 en ops g -> op_wt g o -> fuel_ok fuel hs g o -> gen_step_op E fuel hs g o = (g', gr) ->
  Inv g /\ exists s' r, step_op E fuel hs g o = (s', r) /\ r <> NoFuel /\ gr = oc_of r /\ eqst g' s'.
Proof.
  intros R Hw Hf Hg. destruct (greach_model _ _ _ _ _ _ R) as (s & rs & _ & _ & _ & _ & _ & (I & L & P)).
  split; [exact I|]. unfold fuel_ok in Hf. destruct (step_op E fuel hs g o) as (s', r) eqn:ES. cbn [snd] in Hf.
  destruct (gen_step_op_same E fuel hs g o s' r I L P Hw ES Hf) as (g'' & Hg' & He). rewrite Hg in Hg'.
  injection Hg' as <- ->. exists s', r. auto.
Qed.

(* ---- C01 ---- *)
(* the invariant: the queue is sorted, holds exactly the running jobs, and the timer is armed for its head *)
Corollary gen_reach_inv fuel hs t0 en ops g : GReach fuel hs t0 en ops g ->
  Inv g /\
  match queue g with
  | [] => timer g = None
  | h :: _ => if enabled g then timer g = jnext (jobs g h) /\ jnext (jobs g h) <> None else timer g = None
  end.
Proof.
  intros R. destruct (greach_model _ _ _ _ _ _ R) as (_ & _ & _ & _ & _ & _ & _ & (I & _)).
  split; [exact I|exact (timer_armed_for_head g I)].
Qed.

Corollary gen_never_early fuel hs t0 en ops g : GReach fuel hs t0 en ops g -> Forall not_early (log g).
Proof.
  intros R. destruct (greach_model _ _ _ _ _ _ R) as (s & rs & H & _ & He & _). eq_split He. rewrite Hlog.
  exact (never_early E fuel hs t0 en ops s rs H).
Qed.

Lemma NoDue_eqst a b : eqst a b -> NoDue a -> NoDue b.
Proof. intros H N j Hin. eq_split H. unfold nxt. rewrite <- Hq in Hin. rewrite <- Hj, <- Hnow. exact (N j Hin). Qed.

Corollary gen_wake_runs_due fuel hs t0 en ops g g' : GReach fuel hs t0 en ops g -> fuel_ok fuel hs g OWake ->
  gen_step_op E fuel hs g OWake = (g', GDone) -> enabled g' = true -> NoDue g'.
Proof.
  intros R Hf Hg Hen. destruct (gen_step_of_reach _ _ _ _ _ _ OWake _ _ R (conj I I) Hf Hg) as (Ig & s' & r & ES & _ & Hr & He).
  destruct r; try discriminate. apply (NoDue_eqst _ _ (eqst_sym _ _ He)).
  apply (wake_runs_due E fuel hs g s' Ig ES). destruct He as (_ & <- & _). exact Hen.
Qed.

(* ---- C02 ---- *)
Corollary gen_disabled_quiet fuel hs t0 en ops g o g' gr : GReach fuel hs t0 en ops g -> op_wt g o ->
  fuel_ok fuel hs g o -> enabled g = false -> o <> OEnable true ->
  gen_step_op E fuel hs g o = (g', gr) -> execs (log g') = execs (log g).
Proof.
  intros R Hw Hf Hdis Ho Hg. destruct (gen_step_of_reach _ _ _ _ _ _ _ _ _ R Hw Hf Hg) as (Ig & s' & r & ES & _ & _ & He).
  eq_split He. rewrite Hlog. exact (disabled_quiet E fuel hs g o s' r Ig Hdis Ho ES).
Qed.

Corollary gen_queue_exact fuel hs t0 en ops g : GReach fuel hs t0 en ops g ->
  NoDup (queue g) /\ Sorted.StronglySorted (le_next g) (queue g) /\
  (forall j, In j (queue g) <-> jstatus (jobs g j) = Running).
Proof. intros R. apply queue_exact. exact (proj1 (gen_reach_inv _ _ _ _ _ _ R)). Qed.

(* ---- C09 ---- *)
Corollary gen_wake_order fuel hs t0 en ops g g' :
  (forall j k t, exists v, prod E j k t = Ok v /\ t < v) ->
  GReach fuel hs t0 en ops g -> fuel_ok fuel hs g OWake -> gen_step_op E fuel hs g OWake = (g', GDone) ->
  Sorted.StronglySorted (fun x y : nat * Z => snd y <= snd x) (cx g') /\ NoDup (map fst (cx g')).
Proof.
  intros Hp R Hf Hg. destruct (gen_step_of_reach _ _ _ _ _ _ OWake _ _ R (conj I I) Hf Hg) as (Ig & s' & r & ES & _ & Hr & He).
  destruct r; try discriminate.
  destruct (greach_model _ _ _ _ _ _ R) as (s & rs & H & _ & He0 & _).
  assert (Hc : cx g = []).
  { unfold cx. destruct He0 as (_ & _ & _ & _ & _ & _ & _ & -> & -> & _). exact (reachable_cx_fresh E fuel hs t0 en ops s rs H). }
  assert (Hc' : cx g' = cx s') by (unfold cx; destruct He as (_ & _ & _ & _ & _ & _ & _ & -> & -> & _); reflexivity).
  rewrite Hc'. exact (wake_order E Hp fuel hs g s' Ig Hc ES).
Qed.

(* ---- C10 ---- *)
Corollary gen_handled_exactly_once fuel hs t0 en ops g : GReach fuel hs t0 en ops g -> once E (log g).
Proof.
  intros R. destruct (greach_model _ _ _ _ _ _ R) as (s & rs & H & _ & He & _). eq_split He. rewrite Hlog.
  exact (handled_exactly_once E fuel hs t0 en ops s rs H).
Qed.

Lemma op_wt_er s o : op_wt s o -> op_wt (er s) o.
Proof. intros H. exact H. Qed.

Lemma ops_wt_quiet fuel hs ops : forall s, ops_wt E fuel hs s ops -> ops_wt (quiet_env E) fuel hs (er s) ops.
Proof.
  induction ops as [|o t IH]; intros s H; [exact I|]. destruct H as (Ho & Ht). split; [exact Ho|].
  rewrite <- iso_step. unfold pmap. cbn [fst]. apply IH. exact Ht.
Qed.

Lemma er_eqst a b : eqst a b -> eqst (er a) (er b).
Proof. intros H. unfold er. eq_split H. rewrite Hlog. eq_fields. Qed.

(* failures of callables and callbacks change nothing but the handler events: the generated machine run with the
   failure-free environment reaches the same state up to those events, with the same outcomes *)
Corollary gen_failures_isolated fuel hs t0 en ops :
  ops_wt E fuel hs (init t0 en) ops -> ~ In NoFuel (snd (run E fuel hs (init t0 en) ops)) ->
  eqst (fst (gen_run (quiet_env E) fuel hs (init t0 en) ops)) (er (fst (gen_run E fuel hs (init t0 en) ops))) /\
  snd (gen_run (quiet_env E) fuel hs (init t0 en) ops) = snd (gen_run E fuel hs (init t0 en) ops).
Proof.
  intros Hw Hr. destruct (gen_run_fst E fuel hs t0 en ops Hw Hr) as (H1 & H2).
  pose proof (failures_isolated E fuel hs t0 en ops) as Hiso.
  assert (Hw0 : ops_wt (quiet_env E) fuel hs (init t0 en) ops) by (apply (ops_wt_quiet fuel hs ops (init t0 en)); exact Hw).
  assert (Hr0 : ~ In NoFuel (snd (run (quiet_env E) fuel hs (init t0 en) ops))) by (rewrite Hiso; exact Hr).
  destruct (gen_run_fst (quiet_env E) fuel hs t0 en ops Hw0 Hr0) as (H3 & H4). rewrite Hiso in H3, H4. cbn [fst snd] in H3, H4.
  split; [|congruence]. eapply eqst_trans; [exact H3|]. apply eqst_sym, er_eqst. exact H1.
Qed.

(* ---- C07 ---- *)
Corollary gen_status_next_agree fuel hs t0 en ops g j : GReach fuel hs t0 en ops g ->
  (jstatus (jobs g j) = Running <-> jnext (jobs g j) <> None) /\
  (jstatus (jobs g j) <> Running -> jnext (jobs g j) = None).
Proof. intros R. apply status_next_agree. exact (proj1 (gen_reach_inv _ _ _ _ _ _ R)). Qed.

(* finished is terminal: every further control operation of the job's class raises what the model says, and
   changes nothing *)
Corollary gen_finished_terminal fuel hs t0 en ops g j o : GReach fuel hs t0 en ops g ->
  jstatus (jobs g j) = Finished -> control_op_on j o -> op_wt g o ->
  exists e g', gen_step_op E fuel hs g o = (g', GRaised (JErr e)) /\ eqst g' g.
Proof.
  intros R Hfin Hc Hw. destruct (greach_model _ _ _ _ _ _ R) as (_ & _ & _ & _ & _ & _ & _ & (Ig & L & P)).
  destruct (finished_terminal E fuel hs g j o Ig Hfin Hc) as (e & ES).
  destruct (gen_step_op_same E fuel hs g o g (Raised e) Ig L P Hw ES) as (g' & Hg & He); [discriminate|].
  exists e, g'. split; [exact Hg|exact He].
Qed.

(* ---- C08 ---- *)
Lemma ExactInv_eqst a b : eqst a b -> ExactInv a -> ExactInv b.
Proof.
  intros H (O & S). eq_split H. split.
  - intros j a0 Hk Ha. rewrite <- Hj in Hk, Ha |- *. exact (O j a0 Hk Ha).
  - intros j Hk. rewrite <- Hj in Hk |- *. exact (S j Hk).
Qed.

Lemma greach_exact (Hp : forall j k t, exists v, prod E j k t = Ok v /\ t < v) fuel hs t0 en ops g :
  GReach fuel hs t0 en ops g -> ExactInv g.
Proof.
  intros R. destruct (greach_model _ _ _ _ _ _ R) as (s & rs & H & Hr & He & _). destruct R as (Hw & _).
  destruct (exact_reachable E Hp fuel hs t0 en ops s rs (ops_wt_typed _ _ _ _ Hw) H Hr) as (_ & X).
  exact (ExactInv_eqst _ _ (eqst_sym _ _ He) X).
Qed.

Lemma new_events_eqst g a b : eqst a b -> new_events g a = new_events g b.
Proof. intros H. unfold new_events. eq_split H. rewrite Hlog. reflexivity. Qed.

Corollary gen_once_start_exact fuel hs t0 en ops g o g' gr j t a oi :
  (forall j k t, exists v, prod E j k t = Ok v /\ t < v) ->
  GReach fuel hs t0 en ops g -> op_wt g o -> fuel_ok fuel hs g o -> gen_step_op E fuel hs g o = (g', gr) ->
  In (EExec j t a oi) (new_events g g') -> jkind (jobs g' j) = KOnce ->
  a = jexec_t (jobs g' j) /\ a <= t /\ t = now g /\ jstatus (jobs g' j) = Finished /\ jnext (jobs g' j) = None.
Proof.
  intros Hp R Hw Hf Hg Hin Hk.
  destruct (gen_step_of_reach _ _ _ _ _ _ _ _ _ R Hw Hf Hg) as (Ig & s' & r & ES & Hr & _ & He).
  rewrite (new_events_eqst g _ _ He) in Hin. pose proof He as He'. eq_split He'. rewrite Hj in Hk |- *.
  exact (once_start_exact E Hp fuel hs g o s' r j t a oi Ig (greach_exact Hp _ _ _ _ _ _ R) (proj1 Hw) ES Hr Hin Hk).
Qed.

Corollary gen_countdown_start_exact fuel hs t0 en ops g o g' gr j t a oi :
  (forall j k t, exists v, prod E j k t = Ok v /\ t < v) ->
  GReach fuel hs t0 en ops g -> op_wt g o -> fuel_ok fuel hs g o -> gen_step_op E fuel hs g o = (g', gr) ->
  In (EExec j t a oi) (new_events g g') -> jkind (jobs g' j) = KCountdown ->
  jstatus (jobs g j) = Running /\ jnext (jobs g j) = Some a /\ a <= t /\ t = now g /\
  jstatus (jobs g' j) = Paused /\ jnext (jobs g' j) = None /\ jkind (jobs g j) = KCountdown.
Proof.
  intros Hp R Hw Hf Hg Hin Hk.
  destruct (gen_step_of_reach _ _ _ _ _ _ _ _ _ R Hw Hf Hg) as (Ig & s' & r & ES & Hr & _ & He).
  rewrite (new_events_eqst g _ _ He) in Hin. pose proof He as He'. eq_split He'. rewrite Hj in Hk |- *.
  exact (countdown_start_exact E Hp fuel hs g o s' r j t a oi Ig (greach_exact Hp _ _ _ _ _ _ R) (proj1 Hw) ES Hr Hin Hk).
Qed.

(* ---- fuel: when triggers answer, [length ops + 7] units suffice and the side condition disappears ---- *)
Theorem gen_run_total fuel hs t0 en ops :
  (forall j k t, exists v, prod E j k t = Ok v /\ t < v) -> (length ops + 7 <= fuel)%nat ->
  ops_wt E fuel hs (init t0 en) ops ->
  eqst (fst (gen_run E fuel hs (init t0 en) ops)) (fst (run E fuel hs (init t0 en) ops)) /\
  snd (gen_run E fuel hs (init t0 en) ops) = map oc_of (snd (run E fuel hs (init t0 en) ops)) /\
  ~ In GNoFuel (snd (gen_run E fuel hs (init t0 en) ops)).
Proof.
  intros Hp Hf Hw. pose proof (run_total_init E Hp hs t0 en ops fuel Hf) as Ht.
  destruct (run E fuel hs (init t0 en) ops) as (s, rs) eqn:H. destruct Ht as (_ & Hr).
  destruct (gen_run_is_model E fuel hs t0 en ops s rs Hw H Hr) as (g & Hg & He). rewrite Hg. cbn [fst snd].
  split; [exact He|]. split; [reflexivity|]. intros Hin. apply in_map_iff in Hin as (r & Hr1 & Hr2).
  destruct r; try discriminate. exact (Hr Hr2).
Qed.

End Corollaries.

(* ------------------------------------------------------------------------------------------- *)
(* 4. A concrete history: three jobs (one-shot, countdown whose callable raises and whose on_update callback raises,
   recurring), a store, 22 operations - among them a duplicate id (refused by the store: the object is dropped), a
   non-positive countdown (ValueError), a late wake-up that starts all three jobs, pause / resume, a disabled
   interval, a second cancel (JobAlreadyFinishedError), the removal of a callback that is not registered, an early
   wake-up.  The generated machine and the model agree operation by operation. *)
Definition sx_SEC : Z := 1000000000.
Definition sx_env : env :=
  {| prod := fun _ _ t => Ok (t + sx_SEC); fail_exec := fun j _ => Nat.eqb j 1; fail_cb := fun cb _ => Nat.eqb cb 7 |}.

Definition sx_ops : list op :=
  [OOnce (5 * sx_SEC) 11; OCountdown (3 * sx_SEC) 12; OAt 13; OOnce (7 * sx_SEC) 11;
   ORegister 1 CbUpd 7; ORegister 0 CbFin 8; OReset 1; OAdvance (5 * sx_SEC); OWake;
   OPause 2; OResume 2; OSetCountdown 1 (2 * sx_SEC); OReset 1; OCountdown 0 14;
   OEnable false; OAdvance (3 * sx_SEC); OEnable true; OCancel 1; OCancel 1; OUnregister 0 CbFin 9;
   OEarlyWake; OWake].

Definition sx_obs (s : st) :=
  (now s, enabled s, timer s, queue s, njobs s, store s, log s, opi s, broken s,
   map (fun j => jobs s j) (seq 0 (S (njobs s)))).

Definition sx_is_nofuel (r : outcome) : bool := match r with NoFuel => true | _ => false end.

Example sx_typed : ops_wt sx_env 40 true (init 0 true) sx_ops.
Proof. vm_compute. repeat split; try discriminate; lia. Qed.

Example sx_fuel : ~ In NoFuel (snd (run sx_env 40 true (init 0 true) sx_ops)).
Proof.
  intros Hin.
  assert (Ht : existsb sx_is_nofuel (snd (run sx_env 40 true (init 0 true) sx_ops)) = true)
    by (apply existsb_exists; exists NoFuel; split; [exact Hin|reflexivity]).
  vm_compute in Ht. discriminate.
Qed.

(* computed: same outcomes, same observable state (every field, and the job records up to index njobs) *)
Example sx_agree :
  sx_obs (fst (gen_run sx_env 40 true (init 0 true) sx_ops)) = sx_obs (fst (run sx_env 40 true (init 0 true) sx_ops)) /\
  snd (gen_run sx_env 40 true (init 0 true) sx_ops) = map oc_of (snd (run sx_env 40 true (init 0 true) sx_ops)) /\
  snd (run sx_env 40 true (init 0 true) sx_ops) =
    [Done; Done; Done; Raised EKeyError; Done; Done; Done; Done; Done; Done; Done; Done; Done; Raised EValueError;
     Done; Done; Done; Done; Raised EAlreadyFinished; Done; Done; Done] /\
  length (SchedProps.execs (log (fst (gen_run sx_env 40 true (init 0 true) sx_ops)))) = 5%nat.
Proof. vm_compute. repeat split. Qed.

(* and by the theorem *)
Example sx_by_theorem :
  eqst (fst (gen_run sx_env 40 true (init 0 true) sx_ops)) (fst (run sx_env 40 true (init 0 true) sx_ops)) /\
  snd (gen_run sx_env 40 true (init 0 true) sx_ops) = map oc_of (snd (run sx_env 40 true (init 0 true) sx_ops)).
Proof. exact (gen_run_fst sx_env 40 true 0 true sx_ops sx_typed sx_fuel). Qed.

Example sx_reach : GReach sx_env 40 true 0 true sx_ops (fst (gen_run sx_env 40 true (init 0 true) sx_ops)).
Proof. split; [exact sx_typed|]. split; [exact sx_fuel|reflexivity]. Qed.

(* the class restriction is needed: pause() on the control of a one-shot job does not exist (AttributeError, and the
   job method behind it raises NotImplementedError: GenJobsEq.gen_pause_once), while the model's OPause proceeds *)
Example sx_untyped :
  snd (gen_run sx_env 40 true (init 0 true) [OOnce (5 * sx_SEC) 11; OPause 0]) = [GDone; GRaised JAttribute] /\
  snd (run sx_env 40 true (init 0 true) [OOnce (5 * sx_SEC) 11; OPause 0]) = [Done; Done].
Proof. vm_compute. split; reflexivity. Qed.
