(* GenAsyncSystem.v — capstone of the asynchronous side: an event machine in which EVERY piece of task-manager code is
   the code generated from src/eascheduler/task_managers/*.py (coq/gen/GenTaskMgr.v) and, on top of it, the executor is
   the code generated from executor/base.py (coq/gen/GenBuilder.v), proved equal to the hand-written machines of
   TaskMgr.v / AsyncExec.v on every event list.  Hand-written; re-checked against the regenerated files on every run.

   WHO DOES WHAT in [gen_tm_step] / [gen_tm_run].
   THE LOOP (asyncio and the harness; these parts ARE TaskMgr.v's definitions, applied to the [ms] component):
     * the ready queue, and which handle [Run] / [Tick] take: [gen_run_handles] has the recursion of
       TaskMgr.run_handles (one handle per unit of [n], the head of [ready] is popped with [set_ready], scripts are
       consumed as [takes_beh] says);
     * Task.__step up to the point where the coroutine is resumed: [step_entry] (a cancellation before the first step
       closes the coroutine, the entry is logged, a pending _must_cancel overrides the wake-up);
       [run_step_entry] proves that TaskMgr.run_step is [step_entry] followed by TaskMgr.body;
     * what a resumed body does besides its submissions: it is marked [Running], then [TaskMgr.end_step] (park /
       finish, the _must_cancel rules); the done-callbacks are scheduled by [TaskMgr.finish] ([HDone]);
     * at an [HDone] handle the loop marks the task [Processed] and calls what is registered;
     * [Resolve] / [Fail] / [CancelExt]: [wake_up] / [task_cancel] (the model of Task.cancel(), also used by the
       generated code through rt_cancel);
     * the harness conventions: [flag] is cleared at the start of an event and raised by an invalid request; a
       coroutine object is submitted once (the test `ph = Unknown` in [gen_submit]: the model's [submit] has the same
       test, the manager classes have none).
   THE GENERATED MANAGERS (everything else):
     * a [Submit c k] event runs the generated create_task of the class ([gen_create_task m], GenTaskMgrEq.v);
     * every submission made from inside a running body runs the generated create_task too ([gen_submits]);
     * at [HDone c] the callbacks that were registered on task c through the generated `add_done_callback` (the
       table [regs]) are run, each through the generated dispatcher [gen_run_cb m]; the model's [done_cb m] is not
       used anywhere.  The table is append-only here (asyncio clears a future's callback list when it schedules
       them; a task becomes done once, and [HDone c] occurs at most once: Core, k_rd / k_ndr);
     * an exception raised by manager code is not lost: it is appended to [gexc]; out of a [Submit] event it goes to
       the caller, out of a callback to the loop's exception handler (the remaining callbacks still run), out of a
       create_task inside a body it leaves the body (the remaining submissions are skipped, the step ends as
       [NRaise]).  [gen_tm_run_is_model] shows that [gexc] stays empty.
   [nm c] is the task name given to coroutine c where the class takes one besides the key (the de-duplicating
   manager); the theorems hold for every naming.

   MAIN THEOREM [gen_tm_run_is_model]: for every manager kind whose constructor accepted its arguments ([cfg_ok]),
   every naming and every event list, [gen_tm_run] = the embedding of TaskMgr.run: equal state, the registration table
   holds exactly one callback, [cb_of m], for every task ever created ([RegOk]), no manager exception.
   (a) [gen_tm_*]: the C11 / C12 theorems of TaskMgrFacts.v for the generated machine.
   (b) [gen_arun]: the generated AsyncExecutor ([g_AsyncExecutor_execute_submits] decides which coroutine the manager
       gets, [g_AsyncExecutor_execute_step] what one resumption of it does and whether process_exception is called)
       on the generated managers = AsyncExec.arun; [gen_async_stack_*]: the C10 theorems for the generated stack. *)
From EAS Require Import Base BaseFacts TaskMgr TaskMgrFacts GenRtTaskMgr.
From EASGen Require Import GenTaskMgr.
From EAS Require Import GenTaskMgrEq AsyncExec AsyncExecFacts.
From EAS Require GenRtBuilder GenBuilderEq.
From EASGen Require GenBuilder.
Open Scope nat_scope.

(* ------------------------------------------------------------------------------------------- *)
(* 1. the generated event machine                                                               *)

Record gst := mkg {
  rt : st;                  (* the model's state + the registration table (GenRtTaskMgr.st) *)
  gexc : list gexn          (* exceptions raised by manager code, in order *)
}.
Definition ginit : gst := mkg (mkrt init []) [].
Definition gms (g : gst) : state := ms (rt g).
(* a loop transition: acts on the model state, leaves the table and the exception log alone *)
Definition g_on (f : state -> state) (g : gst) : gst := mkg (on_ms f (rt g)) (gexc g).

(* what the caller of manager code sees *)
Definition g_ret {A} (g : gst) (r : M A) : gst * bool :=
  match r with
  | (s', Ret _) => (mkg s' (gexc g), false)
  | (s', Exc e) => (mkg s' (gexc g ++ [e]), true)
  end.

(* GENERATED: manager.create_task(coro c, k); the bool says whether it raised *)
Definition gen_submit (nm : nat -> nat) (m : mgr) (g : gst) (c k : nat) : gst * bool :=
  match ph (gms g) c with
  | Unknown => g_ret g (gen_create_task m c k (nm c) (rt g))
  | _ => (g_on invalid g, false)          (* harness convention: a coroutine object is submitted once *)
  end.

(* GENERATED: the submissions a body makes, in order; an exception leaves the body *)
Fixpoint gen_submits (nm : nat -> nat) (m : mgr) (g : gst) (l : list (nat * nat)) : gst * bool :=
  match l with
  | [] => (g, false)
  | (c, k) :: t => let (g', x) := gen_submit nm m g c k in if x then (g', true) else gen_submits nm m g' t
  end.

(* LOOP: Task.__step of c (handle already taken) up to the resumption of the coroutine *)
Inductive entry := ENoBody (s : state) | EBody (s1 : state) (w : wake).
Definition step_entry (s : state) (c : nat) : entry :=
  match ph s c with
  | Created =>
      if mc s c then ENoBody (finish (set_mc s (upd (mc s) c false)) c DCanc)
      else EBody (set_entlog (set_ent s (upd (ent s) c true)) (entlog s ++ [c])) WRes
  | Waking w => if mc s c then EBody (set_mc s (upd (mc s) c false)) WCanc else EBody s w
  | _ => ENoBody (invalid s)
  end.

(* the resumed body: LOOP marks it Running, GENERATED submissions, LOOP ends the step *)
Definition gen_body (nm : nat -> nat) (m : mgr) (g : gst) (c : nat) (w : wake) (b : beh) : gst :=
  let g1 := g_on (fun s => set_ph s (upd (ph s) c Running)) g in
  let (g2, x) := gen_submits nm m g1 (fst b) in
  g_on (fun s => end_step s c w (if x then NRaise else snd b)) g2.

Definition gen_run_step (nm : nat -> nat) (m : mgr) (g : gst) (c : nat) (b : beh) : gst :=
  match step_entry (gms g) c with
  | ENoBody s' => g_on (fun _ => s') g
  | EBody s1 w => gen_body nm m (g_on (fun _ => s1) g) c w b
  end.

(* the callbacks registered on task c with add_done_callback, in registration order *)
Definition cbs_for (c : nat) (r : list (nat * cbid)) : list cbid :=
  map snd (filter (fun p => Nat.eqb (fst p) c) r).

(* GENERATED: the loop calls each of them with the task; an exception goes to the loop's exception handler *)
Fixpoint gen_run_cbs (m : mgr) (c : nat) (l : list cbid) (g : gst) : gst :=
  match l with
  | [] => g
  | cb :: t => gen_run_cbs m c t (fst (g_ret g (gen_run_cb m cb c (rt g))))
  end.

(* the [HDone c] handle (already taken) *)
Definition gen_run_done (m : mgr) (g : gst) (c : nat) : gst :=
  match ph (gms g) c with
  | Done d => gen_run_cbs m c (cbs_for c (regs (rt g))) (g_on (fun s => set_ph s (upd (ph s) c (Processed d))) g)
  | _ => g_on invalid g
  end.

(* LOOP: run [n] handles from the head of the ready queue (the recursion of TaskMgr.run_handles) *)
Fixpoint gen_run_handles (nm : nat -> nat) (m : mgr) (n : nat) (bs : list beh) (g : gst) : gst :=
  match n with
  | O => g
  | S n' =>
      match ready (gms g) with
      | [] => g
      | HStep c :: r =>
          gen_run_handles nm m n' (if takes_beh (gms g) c then tl bs else bs)
            (gen_run_step nm m (g_on (fun s => set_ready s r) g) c (hd default_beh bs))
      | HDone c :: r => gen_run_handles nm m n' bs (gen_run_done m (g_on (fun s => set_ready s r) g) c)
      end
  end.

Definition gen_tm_step (nm : nat -> nat) (m : mgr) (g0 : gst) (e : event) : gst :=
  let g := g_on (fun s => set_flag s false) g0 in
  let s := gms g in
  match e with
  | Submit c k => fst (gen_submit nm m g c k)
  | Resolve c => match ph s c with Parked => g_on (fun s => wake_up s c WRes) g | _ => g_on invalid g end
  | Fail c => match ph s c with Parked => g_on (fun s => wake_up s c WExc) g | _ => g_on invalid g end
  | CancelExt c => if has_task (ph s c) then g_on (fun s => task_cancel s c) g else g_on invalid g
  | Run bs => match ready s with [] => g_on invalid g | _ => gen_run_handles nm m 1 bs g end
  | Tick bs => match ready s with [] => g_on invalid g | _ => gen_run_handles nm m (length (ready s)) bs g end
  end.

Definition gen_tm_run (nm : nat -> nat) (m : mgr) (evs : list event) : gst := fold_left (gen_tm_step nm m) evs ginit.

(* ------------------------------------------------------------------------------------------- *)
(* 2. the loop parts are TaskMgr.v's                                                            *)

(* TaskMgr.run_step = the loop's entry, then TaskMgr.body (whose submissions go through the model's [submits]) *)
Theorem run_step_entry m s c b :
  run_step m s c b = match step_entry s c with ENoBody s' => s' | EBody s1 w => body m s1 c w b end.
Proof. unfold run_step, step_entry. destruct (ph s c); try reflexivity; destruct (mc s c); reflexivity. Qed.

Theorem body_parts m s c w b :
  body m s c w b = end_step (submits m (set_ph s (upd (ph s) c Running)) (fst b)) c w (snd b).
Proof. reflexivity. Qed.

(* ------------------------------------------------------------------------------------------- *)
(* 3. the embedding of a model state and the simulation, handle by handle                       *)

Definition regs_of (m : mgr) (s : state) : list (nat * cbid) := map (fun t => (t, cb_of m)) (started s).
Definition emb (m : mgr) (s : state) : gst := mkg (mkrt s (regs_of m s)) [].

Lemma emb_regs_ok m s : RegOk m (rt (emb m s)).
Proof. reflexivity. Qed.

(* a loop transition that creates no task *)
Lemma g_on_emb m f s : started (f s) = started s -> g_on f (emb m s) = emb m (f s).
Proof. intros H. unfold g_on, emb, on_ms, regs_of. cbn [rt ms regs gexc]. rewrite H. reflexivity. Qed.

Lemma started_task_cancel s c : started (task_cancel s c) = started s.
Proof. unfold task_cancel. destruct (ph s c); reflexivity. Qed.

Lemma started_finish_ret s c : started (finish_ret s c) = started s.
Proof. unfold finish_ret. destruct (mc s c); reflexivity. Qed.

Lemma started_end_step s c w n : started (end_step s c w n) = started s.
Proof.
  unfold end_step. destruct n.
  - destruct (mc s c); reflexivity.
  - destruct w; [apply started_finish_ret|reflexivity|reflexivity].
  - reflexivity.
  - apply started_finish_ret.
Qed.

(* GENERATED create_task = the model's [submit], the table stays exact, nothing is raised *)
Lemma gen_submit_emb nm m s c k :
  Inv m s -> cfg_ok m -> gen_submit nm m (emb m s) c k = (emb m (submit m s c k), false).
Proof.
  intros Hi Hc. unfold gen_submit. cbn [gms emb rt ms].
  destruct (ph s c) eqn:Hp;
    try (unfold submit; rewrite Hp; rewrite (g_on_emb m invalid s eq_refl); reflexivity).
  rewrite (gen_create_task_is_submit m s (regs_of m s) c k (nm c) Hi Hc Hp). unfold g_ret, emb. cbn [gexc].
  f_equal. f_equal. f_equal. unfold regs_of.
  rewrite (submit_unknown m s c k Hp), (submit_started m s c k Hc). apply addreg_map. reflexivity.
Qed.

Lemma gen_submits_emb nm m l : forall s,
  Inv m s -> cfg_ok m -> gen_submits nm m (emb m s) l = (emb m (submits m s l), false).
Proof.
  induction l as [|[c k] l IH]; intros s Hi Hc; cbn [gen_submits submits]; [reflexivity|].
  rewrite (gen_submit_emb nm m s c k Hi Hc). apply IH; [apply submit_inv; exact Hi|exact Hc].
Qed.

Lemma gen_body_emb nm m s c w b :
  Inv m (set_ph s (upd (ph s) c Running)) -> cfg_ok m -> gen_body nm m (emb m s) c w b = emb m (body m s c w b).
Proof.
  intros Hi Hc. unfold gen_body.
  rewrite (g_on_emb m (fun s => set_ph s (upd (ph s) c Running)) s eq_refl).
  rewrite (gen_submits_emb nm m (fst b) _ Hi Hc).
  rewrite (g_on_emb m (fun s0 => end_step s0 c w (snd b)) _ (started_end_step _ c w (snd b))).
  reflexivity.
Qed.

(* an [HStep] handle *)
Lemma gen_run_step_emb nm m s c r b :
  Inv m s -> cfg_ok m -> ready s = HStep c :: r ->
  gen_run_step nm m (emb m (set_ready s r)) c b = emb m (run_step m (set_ready s r) c b).
Proof.
  intros Hi Hc Hr. unfold gen_run_step. rewrite run_step_entry. cbn [gms emb rt ms].
  unfold step_entry. red_state. destruct (ph s c) eqn:Hp;
    try (rewrite (g_on_emb m (fun _ => invalid (set_ready s r)) (set_ready s r) eq_refl); reflexivity).
  - destruct (mc s c) eqn:Hm.
    + apply (g_on_emb m (fun _ => _) (set_ready s r)). reflexivity.
    + rewrite (g_on_emb m (fun _ => set_entlog (set_ent (set_ready s r) (upd (ent s) c true)) (entlog s ++ [c]))
                 (set_ready s r) eq_refl).
      apply gen_body_emb; [|exact Hc]. red_state. apply inv_pop_enter; assumption.
  - destruct (mc s c) eqn:Hm.
    + rewrite (g_on_emb m (fun _ => set_mc (set_ready s r) (upd (mc s) c false)) (set_ready s r) eq_refl).
      apply gen_body_emb; [|exact Hc]. red_state.
      pose proof (inv_pop_resume m s c r w Hi Hr Hp) as H1. by_ext H1.
    + rewrite (g_on_emb m (fun _ => set_ready s r) (set_ready s r) eq_refl).
      apply gen_body_emb; [|exact Hc]. red_state. eapply inv_pop_resume; eassumption.
Qed.

(* exactly one callback is registered on a task that exists *)
Lemma cbs_for_one (cb : cbid) c l :
  NoDup l -> In c l -> cbs_for c (map (fun t => (t, cb)) l) = [cb].
Proof.
  unfold cbs_for. induction l as [|a l IH]; intros Hnd Hin; [destruct Hin|].
  inversion Hnd as [|a' l' Hna Hnd']; subst. cbn [map filter fst].
  destruct (Nat.eqb_spec a c) as [->|Hne].
  - cbn [map snd]. f_equal.
    assert (G : forall l0, ~ In c l0 -> map snd (filter (fun p : nat * cbid => Nat.eqb (fst p) c) (map (fun t => (t, cb)) l0)) = []).
    { induction l0 as [|x l0 IH0]; intros Hn; [reflexivity|]. cbn [map filter fst].
      destruct (Nat.eqb_spec x c) as [->|_]; [exfalso; apply Hn; left; reflexivity|].
      apply IH0. intros Hx. apply Hn. right. exact Hx. }
    apply G. exact Hna.
  - apply IH; [exact Hnd'|]. destruct Hin as [Hin|Hin]; [contradiction|exact Hin].
Qed.

(* an [HDone] handle: the one registered callback is [cb_of m], and the generated code behind it is [done_cb m] *)
Lemma gen_run_done_emb m s c r :
  Inv m s -> gen_run_done m (emb m (set_ready s r)) c = emb m (run_done m (set_ready s r) c).
Proof.
  intros [Hc _]. unfold gen_run_done, run_done. cbn [gms emb rt ms regs]. red_state.
  destruct (ph s c) eqn:Hp; try (apply (g_on_emb m invalid (set_ready s r)); reflexivity).
  assert (Hin : In c (started s)). { apply (k_st s Hc). rewrite Hp. reflexivity. }
  pose proof (NoDup_app_l _ _ (core_nd_sq s Hc)) as Hnd.
  unfold regs_of. red_state. rewrite (cbs_for_one (cb_of m) c (started s) Hnd Hin).
  rewrite (g_on_emb m (fun s0 => set_ph s0 (upd (ph s0) c (Processed d))) (set_ready s r) eq_refl).
  cbn [gen_run_cbs]. unfold emb at 1 2. cbn [rt gexc]. rewrite gen_done_cb_is_model. cbn [g_ret fst].
  unfold emb. red_state. f_equal. f_equal. unfold regs_of. rewrite done_cb_started. apply addreg_map. reflexivity.
Qed.

(* LOOP: the ready queue *)
Lemma gen_run_handles_emb nm m n : forall bs s,
  Inv m s -> cfg_ok m -> gen_run_handles nm m n bs (emb m s) = emb m (run_handles m n bs s).
Proof.
  induction n as [|n IH]; intros bs s Hi Hc; cbn [gen_run_handles run_handles]; [reflexivity|].
  cbn [gms emb rt ms]. destruct (ready s) as [|[c|c] r] eqn:Hr; [reflexivity| |].
  - rewrite (g_on_emb m (fun s0 => set_ready s0 r) s eq_refl).
    rewrite (gen_run_step_emb nm m s c r _ Hi Hc Hr).
    apply IH; [apply run_step_inv; assumption|exact Hc].
  - rewrite (g_on_emb m (fun s0 => set_ready s0 r) s eq_refl).
    rewrite (gen_run_done_emb m s c r Hi).
    apply IH; [apply inv_pop_done; assumption|exact Hc].
Qed.

(* one event *)
Theorem gen_tm_step_emb nm m s e :
  Inv m s -> cfg_ok m -> gen_tm_step nm m (emb m s) e = emb m (step m s e).
Proof.
  intros H0 Hc. assert (H : Inv m (set_flag s false)) by (apply inv_set_flag; exact H0).
  unfold gen_tm_step, step. rewrite (g_on_emb m (fun s0 => set_flag s0 false) s eq_refl).
  cbv zeta. cbn [gms emb rt ms]. destruct e as [c k|c|c|c|bs|bs]; red_state.
  - rewrite (gen_submit_emb nm m _ c k H Hc). reflexivity.
  - destruct (ph s c); try (apply (g_on_emb m invalid); reflexivity).
    apply (g_on_emb m (fun s0 => wake_up s0 c WRes)). reflexivity.
  - destruct (ph s c); try (apply (g_on_emb m invalid); reflexivity).
    apply (g_on_emb m (fun s0 => wake_up s0 c WExc)). reflexivity.
  - destruct (has_task (ph s c)); [|apply (g_on_emb m invalid); reflexivity].
    apply (g_on_emb m (fun s0 => task_cancel s0 c)). apply started_task_cancel.
  - destruct (ready s) eqn:Hr; [apply (g_on_emb m invalid); reflexivity|].
    apply gen_run_handles_emb; assumption.
  - destruct (ready s) eqn:Hr; [apply (g_on_emb m invalid); reflexivity|].
    apply gen_run_handles_emb; assumption.
Qed.

Lemma gen_tm_fold_emb nm m evs : forall s,
  Inv m s -> cfg_ok m -> fold_left (gen_tm_step nm m) evs (emb m s) = emb m (fold_left (step m) evs s).
Proof.
  induction evs as [|e evs IH]; intros s Hi Hc; cbn [fold_left]; [reflexivity|].
  rewrite (gen_tm_step_emb nm m s e Hi Hc). apply IH; [apply step_inv; exact Hi|exact Hc].
Qed.

(* THE CAPSTONE for the task managers: the machine built from the generated manager classes is TaskMgr.run *)
Theorem gen_tm_run_emb nm m evs : cfg_ok m -> gen_tm_run nm m evs = emb m (run m evs).
Proof. intros Hc. unfold gen_tm_run, run. apply (gen_tm_fold_emb nm m evs init (inv_init m) Hc). Qed.

Definition regs_ok (m : mgr) (g : gst) : Prop := RegOk m (rt g).

Theorem gen_tm_run_is_model nm m evs :
  cfg_ok m ->
  gms (gen_tm_run nm m evs) = run m evs /\          (* the state of TaskMgr.run, field by field *)
  regs_ok m (gen_tm_run nm m evs) /\                (* every task ever created has exactly one done-callback, cb_of m *)
  gexc (gen_tm_run nm m evs) = [].                  (* no manager code ever raised *)
Proof. intros Hc. rewrite (gen_tm_run_emb nm m evs Hc). repeat split. Qed.

Lemma gen_tm_run_ms nm m evs : cfg_ok m -> gms (gen_tm_run nm m evs) = run m evs.
Proof. intros Hc. rewrite (gen_tm_run_emb nm m evs Hc). reflexivity. Qed.

Lemma gen_tm_run_snoc nm m evs e : gen_tm_run nm m (evs ++ [e]) = gen_tm_step nm m (gen_tm_run nm m evs) e.
Proof. unfold gen_tm_run. rewrite fold_left_app. reflexivity. Qed.

(* the invariant of TaskMgrFacts.v holds in every state of the generated machine *)
Theorem gen_tm_inv nm m evs : cfg_ok m -> Inv m (gms (gen_tm_run nm m evs)).
Proof. intros Hc. rewrite (gen_tm_run_ms nm m evs Hc). apply run_inv. Qed.

(* what is registered on a task: nothing before it exists, [cb_of m] once afterwards *)
Theorem gen_tm_registered nm m evs c :
  cfg_ok m ->
  cbs_for c (regs (rt (gen_tm_run nm m evs))) =
    if has_task (ph (gms (gen_tm_run nm m evs)) c) then [cb_of m] else [].
Proof.
  intros Hc. rewrite (gen_tm_run_emb nm m evs Hc). cbn [gms emb rt ms regs]. unfold regs_of.
  pose proof (run_inv m evs) as [Hk _]. pose proof (NoDup_app_l _ _ (core_nd_sq _ Hk)) as Hnd.
  destruct (has_task (ph (run m evs) c)) eqn:Ht.
  - apply cbs_for_one; [exact Hnd|]. apply (k_st _ Hk). exact Ht.
  - assert (Hn : ~ In c (started (run m evs))).
    { intros Hin. apply (k_st _ Hk) in Hin. congruence. }
    unfold cbs_for. clear Hnd. induction (started (run m evs)) as [|a l IH]; [reflexivity|].
    cbn [map filter fst]. destruct (Nat.eqb_spec a c) as [->|_]; [exfalso; apply Hn; left; reflexivity|].
    apply IH. intros Hx. apply Hn. right. exact Hx.
Qed.

(* ------------------------------------------------------------------------------------------- *)
(* 4. (a) C11 for the generated machine: the sequential manager classes                         *)

(* the loop + manager state of the generated machine after [evs] *)
Definition gen_tm_state (nm : nat -> nat) (m : mgr) (evs : list event) : state := gms (gen_tm_run nm m evs).

Lemma gen_tm_state_run nm m evs : cfg_ok m -> gen_tm_state nm m evs = run m evs.
Proof. apply gen_tm_run_ms. Qed.

Lemma cfg_seqlim_pos q p : cfg_ok (MSeqLim q p) -> 1 <= q.
Proof. intros H. apply cfg_ok_seqlim in H. apply Nat.ltb_ge in H. exact H. Qed.
Lemma cfg_parlim_pos n p : cfg_ok (MParLim n p) -> 1 <= n.
Proof. intros H. apply cfg_ok_parlim in H. apply Nat.ltb_ge in H. exact H. Qed.

(* never two at once *)
Theorem gen_tm_seq_mutex nm m evs :
  cfg_ok m -> is_seq m = true ->
  (forall c, is_live (ph (gen_tm_state nm m evs) c) = true <-> running (gen_tm_state nm m evs) = Some c) /\
  (forall c c', is_live (ph (gen_tm_state nm m evs) c) = true -> is_live (ph (gen_tm_state nm m evs) c') = true -> c = c') /\
  (forall c c', body_open (gen_tm_state nm m evs) c -> body_open (gen_tm_state nm m evs) c' -> c = c') /\
  (running (gen_tm_state nm m evs) = None -> queue (gen_tm_state nm m evs) = []).
Proof. intros Hc Es. rewrite (gen_tm_state_run nm m evs Hc). exact (seq_mutex m evs Es). Qed.

(* in submission order *)
Theorem gen_tm_seq_order nm m evs :
  cfg_ok m -> is_seq m = true ->
  started (gen_tm_state nm m evs) ++ map fst (queue (gen_tm_state nm m evs)) =
    filter (fun x => negb (memb x (closed (gen_tm_state nm m evs)))) (map fst (subk (gen_tm_state nm m evs))) /\
  entlog (gen_tm_state nm m evs) = filter (ent (gen_tm_state nm m evs)) (started (gen_tm_state nm m evs)).
Proof. intros Hc Es. rewrite (gen_tm_state_run nm m evs Hc). exact (seq_order m evs Es). Qed.

(* nothing lost, none twice *)
Theorem gen_tm_conservation nm m evs : cfg_ok m -> conservation_stmt (gen_tm_state nm m evs).
Proof. intros Hc. rewrite (gen_tm_state_run nm m evs Hc). apply (conservation_inv m). apply run_inv. Qed.

(* the end of the running task (return, exception, cancellation) always lets the next one start: the generated
   `_task_done`, reached through the registration made by the generated code, starts the head of the queue *)
Theorem gen_tm_seq_progress nm m evs :
  cfg_ok m -> is_seq m = true ->
  (forall c, running (gen_tm_state nm m evs) = Some c ->
     match ph (gen_tm_state nm m evs) c with
     | Created | Waking _ => In (HStep c) (ready (gen_tm_state nm m evs))
     | Done _ => In (HDone c) (ready (gen_tm_state nm m evs))
     | Parked | Running => True
     | _ => False
     end) /\
  (forall c r bs, ready (gen_tm_state nm m evs) = HDone c :: r ->
     running (gen_tm_state nm m evs) = Some c /\
     match queue (gen_tm_state nm m evs) with
     | [] => running (gen_tm_state nm m (evs ++ [Run bs])) = None /\ queue (gen_tm_state nm m (evs ++ [Run bs])) = []
     | (c', k') :: q =>
         running (gen_tm_state nm m (evs ++ [Run bs])) = Some c' /\ queue (gen_tm_state nm m (evs ++ [Run bs])) = q /\
         ph (gen_tm_state nm m (evs ++ [Run bs])) c' = Created /\
         In (HStep c') (ready (gen_tm_state nm m (evs ++ [Run bs]))) /\
         started (gen_tm_state nm m (evs ++ [Run bs])) = started (gen_tm_state nm m evs) ++ [c'] /\
         cbs_for c' (regs (rt (gen_tm_run nm m (evs ++ [Run bs])))) = [CbTaskDone]
     end).
Proof.
  intros Hc Es. destruct (seq_progress m evs Es) as [A B]. rewrite (gen_tm_state_run nm m evs Hc).
  split; [exact A|]. intros c r bs Hr. rewrite (gen_tm_state_run nm m (evs ++ [Run bs]) Hc).
  specialize (B c r bs Hr). destruct B as [B1 B2]. split; [exact B1|].
  destruct (queue (run m evs)) as [|[c' k'] q]; [exact B2|].
  destruct B2 as (B2 & B3 & B4 & B5 & B6). repeat (split; [assumption|]).
  rewrite (gen_tm_registered nm m (evs ++ [Run bs]) c' Hc). fold (gen_tm_state nm m (evs ++ [Run bs])).
  rewrite (gen_tm_state_run nm m (evs ++ [Run bs]) Hc), B4. cbn [has_task]. destruct m; try discriminate Es; reflexivity.
Qed.

(* the bound of the limiting sequential manager, and exactly the victim named by the policy at a [Submit] event *)
Theorem gen_tm_seq_queue_bound nm q p evs :
  cfg_ok (MSeqLim q p) -> length (queue (gen_tm_state nm (MSeqLim q p) evs)) <= q.
Proof. intros Hc. rewrite (gen_tm_state_run nm _ evs Hc). apply seq_queue_bound. Qed.

Theorem gen_tm_seq_drop_exact nm q p evs c k :
  cfg_ok (MSeqLim q p) -> ph (gen_tm_state nm (MSeqLim q p) evs) c = Unknown ->
  let s := gen_tm_state nm (MSeqLim q p) evs in
  let s' := gen_tm_state nm (MSeqLim q p) (evs ++ [Submit c k]) in
  length (queue s) <= q /\
  if length (queue s) <? q then
    closed s' = closed s /\
    match running s with
    | Some _ => queue s' = queue s ++ [(c, k)] /\ started s' = started s /\ running s' = running s
    | None => queue s' = [] /\ running s' = Some c /\ started s' = started s ++ [c]
    end
  else
    started s' = started s /\ running s' = running s /\
    match p with
    | SSkip => closed s' = closed s ++ [c] /\ queue s' = queue s
    | SSkipFirst => exists v kv t, queue s = (v, kv) :: t /\ closed s' = closed s ++ [v] /\ queue s' = t ++ [(c, k)]
    | SSkipLast => exists v kv t, queue s = t ++ [(v, kv)] /\ closed s' = closed s ++ [v] /\ queue s' = t ++ [(c, k)]
    end.
Proof.
  intros Hc. rewrite (gen_tm_state_run nm _ evs Hc), (gen_tm_state_run nm _ (evs ++ [Submit c k]) Hc), run_snoc.
  intros Hu. cbn [step].
  exact (seq_drop_exact q p (set_flag (run (MSeqLim q p) evs) false) c k (cfg_seqlim_pos q p Hc)
           (inv_set_flag _ _ false (run_inv _ evs)) Hu).
Qed.

(* the plain sequential manager never drops *)
Theorem gen_tm_seq_unbounded_never_drops nm evs : closed (gen_tm_state nm MSeq evs) = [].
Proof.
  assert (Hc : cfg_ok MSeq) by reflexivity. rewrite (gen_tm_state_run nm _ evs Hc).
  induction evs as [|e evs IH] using rev_ind; [reflexivity|]. rewrite run_snoc.
  assert (G : forall n bs s, closed s = [] -> closed (run_handles MSeq n bs s) = []).
  { assert (Gs : forall l s, closed s = [] -> closed (submits MSeq s l) = []).
    { induction l as [|[c k] l IHl]; intros s Hs; cbn [submits]; [exact Hs|]. apply IHl.
      rewrite seq_plain_no_drop. exact Hs. }
    assert (Ge : forall s c w n, closed (end_step s c w n) = closed s).
    { intros s c w n. unfold end_step, finish_ret. destruct n; try destruct w; try destruct (mc s c); reflexivity. }
    induction n as [|n IHn]; intros bs s Hs; cbn [run_handles]; [exact Hs|].
    destruct (ready s) as [|[c|c] r]; [exact Hs| |]; apply IHn.
    - rewrite run_step_entry. unfold step_entry. red_state.
      destruct (ph s c); try exact Hs; destruct (mc s c); try exact Hs;
        unfold body; rewrite Ge; apply Gs; exact Hs.
    - unfold run_done. red_state. destruct (ph s c); try exact Hs.
      cbn [done_cb]. unfold seq_done_cb, start_next. red_state.
      destruct (opt_eqb Nat.eqb (running s) (Some c)); red_state; destruct (queue s) as [|[c' k'] q]; exact Hs. }
  unfold step. destruct e as [c k|c|c|c|bs|bs]; red_state.
  - rewrite seq_plain_no_drop. exact IH.
  - destruct (ph (run MSeq evs) c); exact IH.
  - destruct (ph (run MSeq evs) c); exact IH.
  - destruct (has_task (ph (run MSeq evs) c)); [|exact IH]. unfold task_cancel. red_state.
    destruct (ph (run MSeq evs) c); exact IH.
  - destruct (ready (run MSeq evs)); [exact IH|apply G; exact IH].
  - destruct (ready (run MSeq evs)); [exact IH|apply G; exact IH].
Qed.

(* de-duplication: at most one pending coroutine per key, the newest submission of that key *)
Theorem gen_tm_dedup_newest nm evs :
  NoDup (map snd (queue (gen_tm_state nm MSeqDedup evs))) /\
  forall c k, In (c, k) (queue (gen_tm_state nm MSeqDedup evs)) ->
    exists l1 l2, subk (gen_tm_state nm MSeqDedup evs) = l1 ++ (c, k) :: l2 /\ forall c', ~ In (c', k) l2.
Proof. rewrite (gen_tm_state_run nm MSeqDedup evs eq_refl). exact (dedup_newest evs). Qed.

(* ------------------------------------------------------------------------------------------- *)
(* 5. (a) C12 for the generated machine: the parallel manager classes                           *)

(* never more than [parallel] tracked tasks *)
Theorem gen_tm_par_bound nm n p evs :
  cfg_ok (MParLim n p) -> length (tracked (gen_tm_state nm (MParLim n p) evs)) <= n.
Proof. intros Hc. rewrite (gen_tm_state_run nm _ evs Hc). apply par_bound. Qed.

(* at the limit, at a [Submit] event: skip closes the new coroutine unstarted; cancel_first / cancel_last cancel the
   oldest / newest tracked task before the new one is created and tracked *)
Theorem gen_tm_par_victim nm n p evs c k :
  cfg_ok (MParLim n p) -> ph (gen_tm_state nm (MParLim n p) evs) c = Unknown ->
  let s := set_flag (gen_tm_state nm (MParLim n p) evs) false in       (* the event starts by clearing the flag *)
  let s' := gen_tm_state nm (MParLim n p) (evs ++ [Submit c k]) in
  if length (tracked s) <? n then
    tracked s' = tracked s ++ [c] /\ closed s' = closed s /\ mcanc s' = mcanc s /\
    started s' = started s ++ [c] /\ ph s' c = Created /\ ready s' = ready s ++ [HStep c]
  else
    match p with
    | PSkip =>
        tracked s' = tracked s /\ closed s' = closed s ++ [c] /\ mcanc s' = mcanc s /\
        started s' = started s /\ ph s' c = Closed /\ ready s' = ready s /\
        (forall x, x <> c -> ph s' x = ph s x) /\ mc s' = mc s
    | PCancelFirst =>
        exists v t, tracked s = v :: t /\
          tracked s' = t ++ [c] /\ mcanc s' = mcanc s ++ [v] /\ closed s' = closed s /\
          started s' = started s ++ [c] /\ ph s' c = Created /\
          ready s' = ready (task_cancel s v) ++ [HStep c] /\
          (forall x, x <> c -> ph s' x = ph (task_cancel s v) x) /\ mc s' = mc (task_cancel s v)
    | PCancelLast =>
        exists v t, tracked s = t ++ [v] /\
          tracked s' = t ++ [c] /\ mcanc s' = mcanc s ++ [v] /\ closed s' = closed s /\
          started s' = started s ++ [c] /\ ph s' c = Created /\
          ready s' = ready (task_cancel s v) ++ [HStep c] /\
          (forall x, x <> c -> ph s' x = ph (task_cancel s v) x) /\ mc s' = mc (task_cancel s v)
    end.
Proof.
  intros Hc. rewrite (gen_tm_state_run nm _ evs Hc), (gen_tm_state_run nm _ (evs ++ [Submit c k]) Hc), run_snoc.
  intros Hu. cbn [step].
  exact (par_victim n p (set_flag (run (MParLim n p) evs) false) c k (cfg_parlim_pos n p Hc)
           (inv_set_flag _ _ false (run_inv _ evs)) Hu).
Qed.

(* a finished task frees its slot when its done-callbacks run - the callback that the generated create_task
   registered on it; what is alive and was not cancelled by the manager is tracked *)
Theorem gen_tm_par_release nm m evs :
  cfg_ok m -> is_par m = true ->
  (forall c, In c (tracked (gen_tm_state nm m evs)) -> is_live (ph (gen_tm_state nm m evs) c) = true) /\
  (forall c, is_live (ph (gen_tm_state nm m evs) c) = true ->
     In c (tracked (gen_tm_state nm m evs)) \/ In c (mcanc (gen_tm_state nm m evs))) /\
  NoDup (tracked (gen_tm_state nm m evs)) /\
  (forall c r bs, ready (gen_tm_state nm m evs) = HDone c :: r ->
     cbs_for c (regs (rt (gen_tm_run nm m evs))) = [cb_of m] /\
     ~ In c (tracked (gen_tm_state nm m (evs ++ [Run bs]))) /\
     (exists d, ph (gen_tm_state nm m (evs ++ [Run bs])) c = Processed d) /\
     length (tracked (gen_tm_state nm m (evs ++ [Run bs]))) <= length (tracked (gen_tm_state nm m evs))).
Proof.
  intros Hc Ep. destruct (par_release m evs Ep) as (A & B & C & D).
  pose proof (gen_tm_registered nm m evs) as Hreg. fold (gen_tm_state nm m evs) in Hreg.
  rewrite (gen_tm_state_run nm m evs Hc) in *.
  split; [exact A|]. split; [exact B|]. split; [exact C|]. intros c r bs Hr.
  rewrite (gen_tm_state_run nm m (evs ++ [Run bs]) Hc). split; [|exact (D c r bs Hr)].
  rewrite (Hreg c Hc). pose proof (run_inv m evs) as [Hk _].
  destruct (head_done_phase _ c r Hk Hr) as [d Hp]. rewrite Hp. reflexivity.
Qed.

(* the unbounded manager starts every coroutine, keeps every task in its set until the task's done-callbacks have
   run and forgets it afterwards *)
Theorem gen_tm_unbounded_keeps nm evs :
  (forall c, In c (map fst (subk (gen_tm_state nm MPar evs))) -> In c (started (gen_tm_state nm MPar evs))) /\
  closed (gen_tm_state nm MPar evs) = [] /\ mcanc (gen_tm_state nm MPar evs) = [] /\
  (forall c, In c (tracked (gen_tm_state nm MPar evs)) <-> is_live (ph (gen_tm_state nm MPar evs) c) = true) /\
  (forall c d, ph (gen_tm_state nm MPar evs) c = Processed d -> ~ In c (tracked (gen_tm_state nm MPar evs))).
Proof. rewrite (gen_tm_state_run nm MPar evs eq_refl). exact (unbounded_keeps evs). Qed.

(* ------------------------------------------------------------------------------------------- *)
(* 6. (b) the generated AsyncExecutor on the generated managers                                 *)

(* GENERATED: what the coroutine that AsyncExecutor.execute hands to the manager does when the user coroutine inside
   it ends a resumption as the script says, and whether process_exception is called.  Which coroutine is handed over
   is read off the generated `execute` ([g_AsyncExecutor_execute_submits]); were it the user's own coroutine, the task
   would do what the script says and no handler would be called. *)
Definition gen_wrapper (w : wake) (b : beh) : beh * bool :=
  match EASGen.GenBuilder.g_AsyncExecutor_execute_submits with
  | GenRtBuilder.CoWrapper =>
      let a := EASGen.GenBuilder.g_AsyncExecutor_execute_step (user_out w (snd b)) in ((fst b, fst a), snd a)
  | GenRtBuilder.CoUser => (b, false)
  end.

Theorem gen_wrapper_is_wrap w b : gen_wrapper w b = (wrap_beh w b, handler_called (user_out w (snd b))).
Proof.
  unfold gen_wrapper. rewrite GenBuilderEq.gen_async_submits_wrapper.
  destruct (GenBuilderEq.gen_async_is_wrap_beh w b) as [H1 H2]. cbv zeta. rewrite H1, H2. reflexivity.
Qed.

Record gast := mkga {
  gsys : gst;                          (* loop + generated managers *)
  ghlog : list nat;                    (* calls of process_exception *)
  gulog : list (nat * wake * next)     (* resumptions of user bodies *)
}.
Definition gainit : gast := mkga ginit [] [].
Definition gwith (a : gast) (g : gst) : gast := mkga g (ghlog a) (gulog a).

(* Task.__step of the coroutine c that the executor submitted; [r] is the rest of the ready queue *)
Definition gen_arun_step (nm : nat -> nat) (m : mgr) (a : gast) (c : nat) (r : list handle) (b : beh) : gast :=
  let s := gms (gsys a) in
  let w := eff_wake s c in
  let bh := gen_wrapper w b in
  mkga (gen_run_step nm m (g_on (fun s => set_ready s r) (gsys a)) c (fst bh))
       (if snd bh then ghlog a ++ [c] else ghlog a)
       (gulog a ++ [(c, w, snd b)]).

Fixpoint gen_arun_handles (nm : nat -> nat) (m : mgr) (n : nat) (bs : list beh) (a : gast) : gast :=
  match n with
  | O => a
  | S n' =>
      match ready (gms (gsys a)) with
      | [] => a
      | HStep c :: r =>
          if takes_beh (gms (gsys a)) c
          then gen_arun_handles nm m n' (tl bs) (gen_arun_step nm m a c r (hd default_beh bs))
          else gen_arun_handles nm m n' bs
                 (gwith a (gen_run_step nm m (g_on (fun s => set_ready s r) (gsys a)) c (hd default_beh bs)))
      | HDone c :: r =>
          gen_arun_handles nm m n' bs (gwith a (gen_run_done m (g_on (fun s => set_ready s r) (gsys a)) c))
      end
  end.

(* [Submit c k] = executor.execute(): self.task_manager.create_task(self._execute()) on the generated manager *)
Definition gen_astep (nm : nat -> nat) (m : mgr) (a : gast) (e : event) : gast :=
  let g := g_on (fun s => set_flag s false) (gsys a) in
  match e with
  | Run bs => match ready (gms g) with [] => gwith a (g_on invalid g) | _ => gen_arun_handles nm m 1 bs (gwith a g) end
  | Tick bs => match ready (gms g) with [] => gwith a (g_on invalid g)
               | _ => gen_arun_handles nm m (length (ready (gms g))) bs (gwith a g) end
  | _ => gwith a (gen_tm_step nm m (gsys a) e)
  end.

Definition gen_arun (nm : nat -> nat) (m : mgr) (evs : list event) : gast := fold_left (gen_astep nm m) evs gainit.

Definition aemb (m : mgr) (a : astate) : gast := mkga (emb m (ast a)) (hlog a) (ulog a).

Lemma gms_emb m s : gms (emb m s) = s.
Proof. reflexivity. Qed.

Lemma gen_arun_handles_emb nm m n : forall bs a,
  Inv m (ast a) -> cfg_ok m -> gen_arun_handles nm m n bs (aemb m a) = aemb m (arun_handles m n bs a).
Proof.
  induction n as [|n IH]; intros bs a Hi Hc; cbn [gen_arun_handles arun_handles]; [reflexivity|].
  cbn [aemb gsys gms emb rt ms]. destruct (ready (ast a)) as [|[c|c] r] eqn:Hr; [reflexivity| |].
  - destruct (takes_beh (ast a) c).
    + assert (E : gen_arun_step nm m (aemb m a) c r (hd default_beh bs) = aemb m (arun_step m a c r (hd default_beh bs))).
      { unfold gen_arun_step, arun_step, aemb. cbn [gsys ghlog gulog gms emb rt ms ast hlog ulog]. cbv zeta.
        rewrite gen_wrapper_is_wrap. cbn [fst snd].
        rewrite (g_on_emb m (fun s0 => set_ready s0 r) (ast a) eq_refl).
        rewrite (gen_run_step_emb nm m (ast a) c r _ Hi Hc Hr). reflexivity. }
      rewrite E. apply IH; [|exact Hc]. unfold arun_step. cbn [ast]. apply run_step_inv; assumption.
    + unfold gwith. cbn [gsys ghlog gulog aemb].
      rewrite (g_on_emb m (fun s0 => set_ready s0 r) (ast a) eq_refl).
      rewrite (gen_run_step_emb nm m (ast a) c r _ Hi Hc Hr).
      apply (IH bs (with_st a _)); [|exact Hc]. cbn [ast with_st]. apply run_step_inv; assumption.
  - unfold gwith. cbn [gsys ghlog gulog aemb].
    rewrite (g_on_emb m (fun s0 => set_ready s0 r) (ast a) eq_refl).
    rewrite (gen_run_done_emb m (ast a) c r Hi).
    apply (IH bs (with_st a _)); [|exact Hc]. cbn [ast with_st]. apply inv_pop_done; assumption.
Qed.

Lemma gen_astep_emb nm m a e :
  Inv m (ast a) -> cfg_ok m -> gen_astep nm m (aemb m a) e = aemb m (astep m a e).
Proof.
  intros Hi Hc. assert (H : Inv m (set_flag (ast a) false)) by (apply inv_set_flag; exact Hi).
  unfold gen_astep, astep. cbn [aemb gsys]. cbv zeta.
  rewrite (g_on_emb m (fun s0 => set_flag s0 false) (ast a) eq_refl). cbv beta. rewrite ?gms_emb.
  destruct e as [c k|c|c|c|bs|bs];
    try (rewrite (gen_tm_step_emb nm m (ast a) _ Hi Hc); reflexivity).
  - destruct (ready (set_flag (ast a) false)) eqn:Hr.
    + unfold gwith. cbn [ghlog gulog]. rewrite (g_on_emb m invalid (set_flag (ast a) false) eq_refl). reflexivity.
    + apply (gen_arun_handles_emb nm m 1 bs (with_st a (set_flag (ast a) false))); assumption.
  - destruct (ready (set_flag (ast a) false)) eqn:Hr.
    + unfold gwith. cbn [ghlog gulog]. rewrite (g_on_emb m invalid (set_flag (ast a) false) eq_refl). reflexivity.
    + apply (gen_arun_handles_emb nm m _ bs (with_st a (set_flag (ast a) false))); assumption.
Qed.

Lemma gen_afold_emb nm m evs : forall a,
  Inv m (ast a) -> cfg_ok m -> fold_left (gen_astep nm m) evs (aemb m a) = aemb m (fold_left (astep m) evs a).
Proof.
  induction evs as [|e evs IH]; intros a Hi Hc; cbn [fold_left]; [reflexivity|].
  rewrite (gen_astep_emb nm m a e Hi Hc). apply IH; [|exact Hc].
  rewrite astep_ast. apply step_inv. exact Hi.
Qed.

(* THE CAPSTONE for the asynchronous stack: generated executor on generated managers = AsyncExec.arun *)
Theorem gen_async_stack_is_model nm m evs : cfg_ok m -> gen_arun nm m evs = aemb m (arun m evs).
Proof. intros Hc. unfold gen_arun, arun. apply (gen_afold_emb nm m evs ainit (inv_init m) Hc). Qed.

Theorem gen_async_stack_parts nm m evs :
  cfg_ok m ->
  gms (gsys (gen_arun nm m evs)) = ast (arun m evs) /\
  ghlog (gen_arun nm m evs) = hlog (arun m evs) /\
  gulog (gen_arun nm m evs) = ulog (arun m evs) /\
  regs_ok m (gsys (gen_arun nm m evs)) /\
  gexc (gsys (gen_arun nm m evs)) = [].
Proof. intros Hc. rewrite (gen_async_stack_is_model nm m evs Hc). repeat split. Qed.

(* the C10 theorems of AsyncExecFacts.v for the fully generated stack *)

(* no coroutine's exception is handed to process_exception twice *)
Theorem gen_async_stack_handled_at_most_once nm m evs : cfg_ok m -> NoDup (ghlog (gen_arun nm m evs)).
Proof. intros Hc. rewrite (gen_async_stack_is_model nm m evs Hc). exact (async_handled_at_most_once m evs). Qed.

(* the handler is called for c exactly when the user body of c was left by an Exception: it raised, or it let the
   exception it was woken with escape *)
Theorem gen_async_stack_handled_iff_raised nm m evs c :
  cfg_ok m ->
  (In c (ghlog (gen_arun nm m evs)) <->
   exists w n, In (c, w, n) (gulog (gen_arun nm m evs)) /\ (n = NRaise \/ (n = NFin /\ w = WExc))).
Proof. intros Hc. rewrite (gen_async_stack_is_model nm m evs Hc). exact (async_handled_iff_raised m evs c). Qed.

(* the handler log is exactly the sequence of user bodies left by an Exception, in that order *)
Theorem gen_async_stack_handler_log_exact nm m evs :
  cfg_ok m -> ghlog (gen_arun nm m evs) = map who (filter is_raise (gulog (gen_arun nm m evs))).
Proof. intros Hc. rewrite (gen_async_stack_is_model nm m evs Hc). exact (async_handler_log_exact m evs). Qed.

(* nothing propagates into the event loop: no task ends with an exception *)
Theorem gen_async_stack_no_task_exception nm m evs c d :
  cfg_ok m ->
  ph (gms (gsys (gen_arun nm m evs))) c = Done d \/ ph (gms (gsys (gen_arun nm m evs))) c = Processed d ->
  d = DRet \/ d = DCanc.
Proof. intros Hc. rewrite (gen_async_stack_is_model nm m evs Hc). exact (async_no_task_exception m evs c d). Qed.

(* ... and no manager code raises, and every task has its one done-callback *)
Theorem gen_async_stack_no_manager_exception nm m evs :
  cfg_ok m -> gexc (gsys (gen_arun nm m evs)) = [] /\ regs_ok m (gsys (gen_arun nm m evs)).
Proof. intros Hc. rewrite (gen_async_stack_is_model nm m evs Hc). split; reflexivity. Qed.

(* never for a coroutine that was closed unstarted, never for a body left by a CancelledError or by returning *)
Theorem gen_async_stack_not_handled nm m evs c :
  cfg_ok m ->
  (In c (closed (gms (gsys (gen_arun nm m evs)))) ->
     (forall w n, ~ In (c, w, n) (gulog (gen_arun nm m evs))) /\ ~ In c (ghlog (gen_arun nm m evs))) /\
  (In (c, WCanc, NFin) (gulog (gen_arun nm m evs)) -> ~ In c (ghlog (gen_arun nm m evs))) /\
  ((exists w, In (c, w, NRet) (gulog (gen_arun nm m evs))) \/ In (c, WRes, NFin) (gulog (gen_arun nm m evs)) ->
     ~ In c (ghlog (gen_arun nm m evs))).
Proof.
  intros Hc. rewrite (gen_async_stack_is_model nm m evs Hc). cbn [aemb gsys ghlog gulog]. rewrite gms_emb.
  split; [|split].
  - intros H. exact (proj2 (async_closed_not_handled m evs c H)).
  - exact (async_cancelled_not_handled m evs c).
  - exact (async_returned_not_handled m evs c).
Qed.

(* the task of a coroutine whose exception was handled has ended normally (or cancelled) *)
Theorem gen_async_stack_handled_task_done nm m evs c :
  cfg_ok m -> In c (ghlog (gen_arun nm m evs)) ->
  exists d, (ph (gms (gsys (gen_arun nm m evs))) c = Done d \/ ph (gms (gsys (gen_arun nm m evs))) c = Processed d) /\
            (d = DRet \/ d = DCanc).
Proof. intros Hc. rewrite (gen_async_stack_is_model nm m evs Hc). exact (async_handled_task_done m evs c). Qed.

(* the managers under the generated executor: the invariant, hence every C11 / C12 fact stated for [Inv] *)
Theorem gen_async_stack_inv nm m evs :
  cfg_ok m -> Inv m (gms (gsys (gen_arun nm m evs))) /\ conservation_stmt (gms (gsys (gen_arun nm m evs))).
Proof.
  intros Hc. rewrite (gen_async_stack_is_model nm m evs Hc). cbn [aemb gsys]. rewrite gms_emb.
  split; [apply async_inv|apply async_conservation].
Qed.

(* ------------------------------------------------------------------------------------------- *)
(* 7. the statements say something: concrete histories (vm_compute)                             *)

(* the finite part of a state that the histories below touch (phases etc. are functions) *)
Definition obs (s : state) :=
  (map (ph s) [1; 2; 3; 4; 5; 6], map (mc s) [1; 2; 3; 4; 5; 6], map (ent s) [1; 2; 3; 4; 5; 6],
   (subk s, started s, entlog s, closed s), (mcanc s, queue s, running s, tracked s), (ready s, flag s)).

(* LimitingSequentialTaskManager(2, 'skip_first').  Five submissions: 1 starts, 2 waits; the body of 1 submits 3 from
   inside and parks; 4 and 5 arrive at the bound and push 2 and 3 out (closed unstarted); a second submission of the
   closed coroutine 2 is an invalid request; the future of 1 fails, 1 ends with the exception, its done-callback - the
   `_task_done` that the generated code registered - starts 4; 4 is cancelled before its first step, its callback
   starts 5; 5 returns. *)
Definition gx_evs : list event :=
  [Submit 1 0; Submit 2 0; Run [([(3, 0)], NPark)]; Submit 4 0; Submit 5 0; Submit 2 9; Fail 1; Run [([], NFin)];
   Run []; CancelExt 4; Run []; Run []; Tick [([], NRet)]].

Example gx_seqlim :
  let m := MSeqLim 2 SSkipFirst in
  let g := gen_tm_run (fun _ => 0) m gx_evs in
  cfg_ok m /\
  obs (gms g) = obs (run m gx_evs) /\
  regs (rt g) = [(1, CbTaskDone); (4, CbTaskDone); (5, CbTaskDone)] /\ gexc g = [] /\
  map (ph (gms g)) [1; 2; 3; 4; 5] = [Processed DExc; Closed; Closed; Processed DCanc; Done DRet] /\
  subk (gms g) = [(1, 0); (2, 0); (3, 0); (4, 0); (5, 0)] /\ started (gms g) = [1; 4; 5] /\ closed (gms g) = [2; 3] /\
  entlog (gms g) = [1; 5] /\ running (gms g) = Some 5 /\ ready (gms g) = [HDone 5] /\
  (* every prefix agrees as well *)
  forallb (fun n => if list_eq_dec Nat.eq_dec (started (gms (gen_tm_run (fun _ => 0) m (firstn n gx_evs))))
                                             (started (run m (firstn n gx_evs))) then true else false)
          (seq 0 14) = true.
Proof. vm_compute. repeat split; reflexivity. Qed.

(* the precondition [cfg_ok] is needed: with max_queue = 0 (which __init__ refuses) the generated create_task pops from
   an empty deque; the exception is recorded, and the machine is no longer the model's *)
Example gx_guard_needed :
  let m := MSeqLim 0 SSkipFirst in
  cfg_ok m = (true = false) /\
  gexc (gen_tm_run (fun _ => 0) m [Submit 1 0]) = [XIndex] /\
  closed (gms (gen_tm_run (fun _ => 0) m [Submit 1 0])) = [] /\ closed (run m [Submit 1 0]) = [1].
Proof. vm_compute. repeat split; reflexivity. Qed.

(* the generated stack: LimitingParallelTaskManager(2, 'cancel_first') under the generated AsyncExecutor.  1, 2 tracked;
   3 cancels 1 (before its first step: no user code runs); the body of 2 submits 4 from inside, which cancels 2
   itself - the task that is executing -, so its park is cancelled at once; 3 raises: handled once, the task returns;
   5 cancels 3 (already done); 2 lets the CancelledError escape: not handled. *)
Definition gx_aevs : list event :=
  [Submit 1 0; Submit 2 0; Submit 3 0; Tick [([(4, 0)], NPark); ([], NRaise)]; Submit 5 0; CancelExt 1;
   Tick [([], NFin)]; Tick []].

Example gx_async_stack :
  let m := MParLim 2 PCancelFirst in
  let g := gen_arun (fun _ => 0) m gx_aevs in
  cfg_ok m /\
  obs (gms (gsys g)) = obs (ast (arun m gx_aevs)) /\ ghlog g = hlog (arun m gx_aevs) /\ gulog g = ulog (arun m gx_aevs) /\
  ghlog g = [3] /\
  gulog g = [(2, WRes, NPark); (3, WRes, NRaise); (4, WRes, NFin); (2, WCanc, NFin); (5, WRes, NFin)] /\
  map (ph (gms (gsys g))) [1; 2; 3; 4; 5] =
    [Processed DCanc; Processed DCanc; Processed DRet; Processed DRet; Processed DRet] /\
  mcanc (gms (gsys g)) = [1; 2; 3] /\ tracked (gms (gsys g)) = [] /\
  regs (rt (gsys g)) = [(1, CbRemoveTask); (2, CbRemoveTask); (3, CbRemoveTask); (4, CbRemoveTask); (5, CbRemoveTask)] /\
  gexc (gsys g) = [].
Proof. vm_compute. repeat split; reflexivity. Qed.
