(* Time.v — instants, explicit time-zone tables, local time, resolution of a local time to instants.
   instant := Z nanoseconds since the Unix epoch; a local date-time is also Z ns ("instant + offset").
   No proofs here (TimeFacts.v). *)
From EAS Require Import Base Civil.

Definition MINUTE : Z := 60 * NS.

(* offset (seconds) before the first transition; transitions (utc instant ns, new offset s), ascending *)
Record tz := { tz_init : Z; tz_trans : list (Z * Z) }.

Fixpoint offset_from (cur : Z) (l : list (Z * Z)) (i : Z) : Z :=
  match l with
  | [] => cur
  | (t, o) :: r => if i <? t then cur else offset_from o r i
  end.
Definition offset_at (z : tz) (i : Z) : Z := offset_from (tz_init z) (tz_trans z) i.
Definition to_local (z : tz) (i : Z) : Z := i + offset_at z i * NS.

Definition offsets (z : tz) : list Z := tz_init z :: map snd (tz_trans z).

Fixpoint insert_uniq (x : Z) (l : list Z) : list Z :=
  match l with
  | [] => [x]
  | y :: t => if x <? y then x :: y :: t else if x =? y then y :: t else y :: insert_uniq x t
  end.
Definition sort_uniq (l : list Z) : list Z := fold_right insert_uniq [] l.

(* all instants whose local time is l, ascending, without duplicates *)
Definition candidates (z : tz) (l : Z) : list Z :=
  sort_uniq (filter (fun i => to_local z i =? l) (map (fun o => l - o * NS) (sort_uniq (offsets z)))).

(* the gap a skipped local time lies in: (offset before, offset after) of the forward transition *)
Fixpoint gap_from (cur : Z) (l : list (Z * Z)) (loc : Z) : option (Z * Z) :=
  match l with
  | [] => None
  | (t, o) :: r =>
      if (t + cur * NS <=? loc) && (loc <? t + o * NS) then Some (cur, o)
      else gap_from o r loc
  end.
Definition gap_of (z : tz) (loc : Z) : option (Z * Z) := gap_from (tz_init z) (tz_trans z) loc.

Fixpoint last_z (d : Z) (l : list Z) : Z :=
  match l with [] => d | x :: t => last_z x t end.

Fixpoint min_list (d : Z) (l : list Z) : Z := match l with [] => d | x :: t => Z.min x (min_list d t) end.
Fixpoint max_list (d : Z) (l : list Z) : Z := match l with [] => d | x :: t => Z.max x (max_list d t) end.
Definition off_lo (z : tz) : Z := min_list (tz_init z) (offsets z).
Definition off_hi (z : tz) : Z := max_list (tz_init z) (offsets z).
Definition spread (z : tz) : Z := off_hi z - off_lo z.

Fixpoint ascending (prev : Z) (l : list (Z * Z)) : bool :=
  match l with
  | [] => true
  | (t, _) :: r => (prev <? t) && ascending t r
  end.
(* well-formed table: transitions strictly ascending, offsets differ by at most four hours overall *)
Definition wf_tz_b (z : tz) : bool :=
  match tz_trans z with
  | [] => true
  | (t, _) :: r => ascending t r
  end && (spread z <=? 4 * 3600).
