(* ProdPure.v — C15 (a): the next occurrence of a WHOLE producer expression depends only on the trigger definition,
   the reference instant, the system time zone, the configured location (and the sun oracle) — not on the
   producer state left behind by earlier queries (interval cells [_next], the process-wide sun cache, the number
   of random draws).

   * [ileaves p]: the interval leaves (cell id, start, interval) of an expression, through all constructors;
   * [good E G A st]: the state invariant relative to a leaf list G and an anchor assignment A for the cells of
     start-less intervals: the sun cache is [cache_coherent]; the cell of an interval WITH start, if present,
     lies on the grid of the start; the cell of an interval WITHOUT start is PRESENT (anchored by a first query)
     and lies on the grid through [A id] (its content defines the grid);
   * [pure_ok]: from any two good states (same G, same A) the ANSWERS agree, and the state after a query is good;
   * [get_next_pure]: every expression [wfp E p] (positive intervals; a draw oracle that ignores its index
     wherever jitter occurs) with consistent leaves is [pure_ok] — by induction over the producer syntax, the
     loops by the relational loop rule [iter_until_rel];
   * corollaries [repeat_query_same], [interleaved_queries_same], [copy_same], [query_independent_of_history]. *)
From EAS Require Import Base BaseFacts Civil Time TimeOrder Filters Replace Producers ProdStrict ProdEarliest
  ProdGroup SunFacts.
From EASGen Require Import Generated.

(* ------------------------------------------------------------------------------------------- *)
(* 1. the relational loop rule *)

Definition sum_rel {S1 R1 S2 R2} (RS : S1 -> S2 -> Prop) (RR : R1 -> R2 -> Prop) (a : S1 + R1) (b : S2 + R2) : Prop :=
  match a, b with
  | inl a', inl b' => RS a' b'
  | inr r, inr r' => RR r r'
  | _, _ => False
  end.

(* two bounded loops whose bodies take related states to related [inl] states or to related [inr] results end
   in related states / results *)
Lemma iter_until_rel {S1 R1 S2 R2} (f : S1 -> S1 + R1) (g : S2 -> S2 + R2)
      (RS : S1 -> S2 -> Prop) (RR : R1 -> R2 -> Prop) :
  (forall a b, RS a b -> sum_rel RS RR (f a) (g b)) ->
  forall p a b, RS a b -> sum_rel RS RR (iter_until p f a) (iter_until p g b).
Proof.
  intros Hstep p a b Hab. rewrite !iter_until_nat. unfold sum_rel.
  apply (iter_nat_sim f g RS RR); [exact Hstep|exact Hab].
Qed.

(* ------------------------------------------------------------------------------------------- *)
(* 2. grids *)

Lemma on_grid_sym c iv u : 0 < iv -> on_grid c iv u -> on_grid u iv c.
Proof.
  intros Hiv H. apply (on_grid_trans c iv u c Hiv H). apply on_grid_refl. exact Hiv.
Qed.

Lemma on_grid_trans2 c iv g u : 0 < iv -> on_grid c iv g -> on_grid c iv u -> on_grid g iv u.
Proof. intros Hiv Hg Hu. apply (on_grid_trans c iv g u Hiv Hg). exact Hu. Qed.

(* the first grid point after dt does not depend on the grid point one starts from *)
Lemma interval_first_same c c' iv dt :
  0 < iv -> on_grid c iv c' ->
  interval_first (interval_back c iv dt) iv dt = interval_first (interval_back c' iv dt) iv dt.
Proof.
  intros Hiv Hcc.
  set (a := interval_first (interval_back c iv dt) iv dt).
  set (b := interval_first (interval_back c' iv dt) iv dt).
  assert (Ha : on_grid c iv a) by (apply interval_first_grid; [exact Hiv|apply interval_back_grid; exact Hiv]).
  assert (Hb' : on_grid c' iv b) by (apply interval_first_grid; [exact Hiv|apply interval_back_grid; exact Hiv]).
  assert (Hb : on_grid c iv b) by (apply (on_grid_trans c iv c' b Hiv Hcc); exact Hb').
  assert (Ha1 : dt < a) by (apply interval_first_gt; [exact Hiv|apply interval_back_le; exact Hiv]).
  assert (Hb1 : dt < b) by (apply interval_first_gt; [exact Hiv|apply interval_back_le; exact Hiv]).
  assert (Ha2 : a - iv <= dt) by (apply interval_first_tight; exact Hiv).
  assert (Hb2 : b - iv <= dt) by (apply interval_first_tight; exact Hiv).
  destruct (Z.lt_trichotomy a b) as [Hlt|[Heq|Hgt]]; [|exact Heq|].
  - pose proof (grid_gap c iv a b Hiv Ha Hb Hlt). lia.
  - pose proof (grid_gap c iv b a Hiv Hb Ha Hgt). lia.
Qed.

(* so the whole answer (value, or running out of fuel) is the same from every cached point of the grid *)
Lemma next_interval_same z fuel c c' iv f dt :
  0 < iv -> on_grid c iv c' -> next_interval z fuel c iv f dt = next_interval z fuel c' iv f dt.
Proof. intros Hiv Hcc. unfold next_interval. rewrite (interval_first_same c c' iv dt Hiv Hcc). reflexivity. Qed.

(* ------------------------------------------------------------------------------------------- *)
(* 3. the class of expressions and the state invariant *)

(* the interval leaves of an expression: (cell id, start, interval) *)
Fixpoint ileaves (p : producer) : list (nat * option Z * Z) :=
  match p with
  | PTime _ _ | PSun _ _ => []
  | PInterval id start iv _ => [(id, start, iv)]
  | PGroup ps _ =>
      (fix fm (l : list producer) : list (nat * option Z * Z) :=
         match l with [] => [] | q :: t => ileaves q ++ fm t end) ps
  | POffset q _ _ | PEarliest q _ _ | PLatest q _ _ | PJitter q _ _ _ => ileaves q
  end.

(* "a fixed random source": the draw does not depend on how many draws were made before *)
Definition draw_fixed (E : penv) : Prop := forall k k' a b, draw E k a b = draw E k' a b.

(* side conditions: intervals are positive; where jitter occurs the random source is fixed *)
Fixpoint wfp (E : penv) (p : producer) : Prop :=
  match p with
  | PTime _ _ | PSun _ _ => True
  | PInterval _ _ iv _ => 0 < iv
  | PGroup ps _ => (fix all (l : list producer) : Prop := match l with [] => True | q :: t => wfp E q /\ all t end) ps
  | POffset q _ _ | PEarliest q _ _ | PLatest q _ _ => wfp E q
  | PJitter q _ _ _ => draw_fixed E /\ wfp E q
  end.

Fixpoint jitter_free (p : producer) : Prop :=
  match p with
  | PTime _ _ | PSun _ _ | PInterval _ _ _ _ => True
  | PGroup ps _ => (fix all (l : list producer) : Prop := match l with [] => True | q :: t => jitter_free q /\ all t end) ps
  | POffset q _ _ | PEarliest q _ _ | PLatest q _ _ => jitter_free q
  | PJitter _ _ _ _ => False
  end.

(* interval leaves that share a cell are the same interval (same start, same length) *)
Definition lconsistent (G : list (nat * option Z * Z)) : Prop :=
  forall id s iv s' iv', In (id, s, iv) G -> In (id, s', iv') G -> s = s' /\ iv = iv'.

Definition cell_ok (A : nat -> Z) (st : pstate) (leaf : nat * option Z * Z) : Prop :=
  let '(id, start, iv) := leaf in
  match start with
  | Some s0 => forall c, ilookup id (icache st) = Some c -> on_grid s0 iv c
  | None => exists c, ilookup id (icache st) = Some c /\ on_grid (A id) iv c
  end.

Definition good (E : penv) (G : list (nat * option Z * Z)) (A : nat -> Z) (st : pstate) : Prop :=
  cache_coherent E st /\ forall leaf, In leaf G -> cell_ok A st leaf.

(* the anchors a state itself defines *)
Definition anchor_of (st : pstate) (id : nat) : Z :=
  match ilookup id (icache st) with Some c => c | None => 0 end.

(* the invariant for one expression, the grids of start-less intervals being the ones its cells define *)
Definition good_state (E : penv) (p : producer) (st : pstate) : Prop := good E (ileaves p) (anchor_of st) st.

(* two states agree on the grids of the start-less intervals of p (in particular: if the cells are equal) *)
Definition same_grids (E : penv) (p : producer) (st1 st2 : pstate) : Prop :=
  good E (ileaves p) (anchor_of st1) st1 /\ good E (ileaves p) (anchor_of st1) st2.

Lemma good_ext E G A s s' : icache s' = icache s -> scache s' = scache s -> good E G A s -> good E G A s'.
Proof.
  intros Hi Hs (Hc & Hl). split.
  - unfold cache_coherent in *. rewrite Hs. exact Hc.
  - intros [[id start] iv] Hin. specialize (Hl _ Hin). unfold cell_ok in *. rewrite Hi. exact Hl.
Qed.

Lemma good_incl E G G' A s : incl G' G -> good E G A s -> good E G' A s.
Proof. intros Hi (Hc & Hl). split; [exact Hc|]. intros leaf Hin. apply Hl. apply Hi. exact Hin. Qed.

Lemma wfp_group_In E ps f q : wfp E (PGroup ps f) -> In q ps -> wfp E q.
Proof.
  cbn [wfp]. induction ps as [|h t IH]; [intros _ []|].
  intros (Hh & Ht) [<-|Hq]; [exact Hh|apply IH; assumption].
Qed.

Lemma ileaves_group_In ps f q : In q ps -> incl (ileaves q) (ileaves (PGroup ps f)).
Proof.
  cbn [ileaves]. induction ps as [|h t IH]; [intros []|].
  intros [<-|Hq]; [apply incl_appl; apply incl_refl|apply incl_appr; apply IH; exact Hq].
Qed.

Lemma jitter_free_wfp E p : wf_producer p -> jitter_free p -> wfp E p.
Proof.
  revert p. fix IH 1. intros [tr f|id st iv f|ps f|q off f|q tr f|q tr f|q lo hi f|key f] Hw Hj;
    cbn [wfp wf_producer jitter_free] in *; try exact I; try (apply IH; assumption); try exact Hw; try contradiction.
  revert Hw Hj. generalize ps. fix IHl 1. intros [|h t] Hw Hj; [exact I|].
  destruct Hw as (Hw1 & Hw2). destruct Hj as (Hj1 & Hj2). split; [apply IH; assumption|apply IHl; assumption].
Qed.

Lemma draw_fixed_wfp E p : wf_producer p -> draw_fixed E -> wfp E p.
Proof.
  intros Hw Hd. revert p Hw. fix IH 1. intros [tr f|id st iv f|ps f|q off f|q tr f|q tr f|q lo hi f|key f] Hw;
    cbn [wfp wf_producer] in *; try exact I; try (apply IH; assumption); try exact Hw.
  - revert Hw. generalize ps. fix IHl 1. intros [|h t] Hw; [exact I|].
    destruct Hw as (Hw1 & Hw2). split; [apply IH; assumption|apply IHl; assumption].
  - split; [exact Hd|apply IH; exact Hw].
Qed.

(* ------------------------------------------------------------------------------------------- *)
(* 4. the leaves *)
Section Pure.
Variable E : penv.
Variable G : list (nat * option Z * Z).
Variable A : nat -> Z.
Hypothesis HG : lconsistent G.
Local Notation Good := (good E G A).

(* the answers from two good states agree, and a query leaves a good state *)
Definition pure_ok (p : producer) : Prop :=
  forall st1 st2 dt, Good st1 -> Good st2 ->
    fst (get_next E p st1 dt) = fst (get_next E p st2 dt) /\ Good (snd (get_next E p st1 dt)).

Lemma time_pure_ok tr f : pure_ok (PTime tr f).
Proof. intros st1 st2 dt H1 H2. cbn [get_next fst snd]. split; [reflexivity|exact H1]. Qed.

Lemma sun_pure_ok key f : pure_ok (PSun key f).
Proof.
  intros st1 st2 dt (Hc1 & Hl1) (Hc2 & Hl2).
  split; [apply sun_query_independent; assumption|].
  destruct (sun_get_next_pure E key f st1 dt Hc1) as (_ & Hc & Hi & _).
  split; [exact Hc|]. intros [[id start] iv] Hin. specialize (Hl1 _ Hin). unfold cell_ok in *.
  rewrite Hi. exact Hl1.
Qed.

Definition base (start : option Z) (id : nat) : Z := match start with Some s0 => s0 | None => A id end.

Lemma cell_base st id start iv dt :
  0 < iv -> cell_ok A st (id, start, iv) ->
  on_grid (base start id) iv
    (match ilookup id (icache st) with
     | Some c => c
     | None => match start with Some s => s | None => dt + 1000 end
     end).
Proof.
  intros Hiv Hc. unfold cell_ok in Hc. destruct start as [s0|]; cbn [base].
  - destruct (ilookup id (icache st)) as [c|]; [apply Hc; reflexivity|apply on_grid_refl; exact Hiv].
  - destruct Hc as (c & -> & Hc). exact Hc.
Qed.

Lemma cell_ok_iset_same st id g start iv :
  on_grid (base start id) iv g -> cell_ok A (with_icache (iset id g (icache st)) st) (id, start, iv).
Proof.
  intros Hg. unfold cell_ok. cbn [icache with_icache]. rewrite ilookup_iset_eq. destruct start as [s0|]; cbn [base] in Hg.
  - intros c Hc. injection Hc as <-. exact Hg.
  - exists g. split; [reflexivity|exact Hg].
Qed.

Lemma cell_ok_iset_other st id g id' s' iv' :
  id' <> id -> cell_ok A st (id', s', iv') -> cell_ok A (with_icache (iset id g (icache st)) st) (id', s', iv').
Proof.
  intros Hne Hc. unfold cell_ok in *. cbn [icache with_icache]. rewrite ilookup_iset_neq by exact Hne. exact Hc.
Qed.

Lemma good_iset st id g start iv :
  In (id, start, iv) G -> on_grid (base start id) iv g -> Good st -> Good (with_icache (iset id g (icache st)) st).
Proof.
  intros Hin Hg (Hc & Hl). split; [exact Hc|].
  intros [[id' s'] iv'] Hin'. destruct (Nat.eq_dec id' id) as [->|Hne].
  - destruct (HG _ _ _ _ _ Hin Hin') as (<- & <-). apply cell_ok_iset_same. exact Hg.
  - apply cell_ok_iset_other; [exact Hne|apply Hl; exact Hin'].
Qed.

Lemma interval_pure_ok id start iv f : 0 < iv -> In (id, start, iv) G -> pure_ok (PInterval id start iv f).
Proof.
  intros Hiv Hin st1 st2 dt H1 H2. cbn [get_next].
  pose proof (cell_base st1 id start iv dt Hiv (proj2 H1 _ Hin)) as Hb1.
  pose proof (cell_base st2 id start iv dt Hiv (proj2 H2 _ Hin)) as Hb2.
  remember (match ilookup id (icache st1) with Some c => c | None => match start with Some s => s | None => dt + 1000 end end)
    as c1 eqn:Ec1.
  remember (match ilookup id (icache st2) with Some c => c | None => match start with Some s => s | None => dt + 1000 end end)
    as c2 eqn:Ec2.
  assert (H12 : on_grid c1 iv c2) by (apply (on_grid_trans2 (base start id)); assumption).
  rewrite <- (next_interval_same (pz E) (interval_fuel E) c1 c2 iv f dt Hiv H12).
  destruct (next_interval (pz E) (interval_fuel E) c1 iv f dt) as [g|e|] eqn:EN; cbn [fst snd].
  - split; [reflexivity|]. apply (good_iset st1 id g start iv Hin); [|exact H1].
    apply (on_grid_trans (base start id) iv c1 g Hiv Hb1). eapply interval_cache_on_grid; eassumption.
  - split; [reflexivity|exact H1].
  - split; [reflexivity|exact H1].
Qed.

(* ------------------------------------------------------------------------------------------- *)
(* 5. the loops: two runs from good states stay in lockstep *)
Definition RS (a b : Z * pstate) : Prop := fst a = fst b /\ Good (snd a) /\ Good (snd b).
Definition RR (a b : result Z * pstate) : Prop := fst a = fst b /\ Good (snd a) /\ Good (snd b).

Lemma loop_pure (body : Z * pstate -> (Z * pstate) + (result Z * pstate)) p0 dt st1 st2 :
  (forall a b, RS a b -> sum_rel RS RR (body a) (body b)) -> Good st1 -> Good st2 ->
  fst (finish_loop (iter_until p0 body (dt, st1))) = fst (finish_loop (iter_until p0 body (dt, st2))) /\
  Good (snd (finish_loop (iter_until p0 body (dt, st1)))).
Proof.
  intros Hb H1 H2.
  assert (H0 : RS (dt, st1) (dt, st2)) by (split; [reflexivity|split; assumption]).
  pose proof (iter_until_rel body body RS RR Hb p0 _ _ H0) as R. unfold sum_rel in R.
  destruct (iter_until p0 body (dt, st1)) as [[x1 s1]|[r1 s1]], (iter_until p0 body (dt, st2)) as [[x2 s2]|[r2 s2]];
    try contradiction; cbn [finish_loop fst snd] in *.
  - destruct R as (_ & Hg & _). split; [reflexivity|exact Hg].
  - destruct R as (Hr & Hg & _). split; [exact Hr|exact Hg].
Qed.

Lemma pure_ok_both q s1 s2 x :
  pure_ok q -> Good s1 -> Good s2 ->
  fst (get_next E q s1 x) = fst (get_next E q s2 x) /\
  Good (snd (get_next E q s1 x)) /\ Good (snd (get_next E q s2 x)).
Proof.
  intros Hq H1 H2. destruct (Hq s1 s2 x H1 H2) as (He & Hg1). destruct (Hq s2 s1 x H2 H1) as (_ & Hg2).
  split; [exact He|split; assumption].
Qed.

Lemma bind_rel {T} (r1 r2 : result T * pstate) k :
  fst r1 = fst r2 -> Good (snd r1) -> Good (snd r2) ->
  (forall a s1 s2, Good s1 -> Good s2 -> sum_rel RS RR (k a s1) (k a s2)) ->
  sum_rel RS RR (bind_state r1 k) (bind_state r2 k).
Proof.
  intros He H1 H2 Hk. destruct r1 as [r1 s1], r2 as [r2 s2]. cbn [fst snd] in *. subst r2.
  destruct r1 as [a|e|]; cbn [bind_state].
  - apply Hk; assumption.
  - cbn [sum_rel]. split; [reflexivity|split; assumption].
  - cbn [sum_rel]. split; [reflexivity|split; assumption].
Qed.

(* a loop body of the operation shape: query the inner producer, then a continuation that treats good states alike *)
Lemma op_body_rel q (k : Z -> pstate -> (Z * pstate) + (result Z * pstate)) :
  pure_ok q ->
  (forall a s1 s2, Good s1 -> Good s2 -> sum_rel RS RR (k a s1) (k a s2)) ->
  forall a b, RS a b ->
    sum_rel RS RR (let '(x, s) := a in bind_state (get_next E q s x) k)
                  (let '(x, s) := b in bind_state (get_next E q s x) k).
Proof.
  intros Hq Hk [x s1] [x' s2] (Hx & H1 & H2). cbn [fst snd] in *. subst x'.
  destruct (pure_ok_both q s1 s2 x Hq H1 H2) as (He & Hg1 & Hg2).
  apply bind_rel; assumption.
Qed.

(* the guard at the end of every round *)
Lemma guard_rel dt value fl n s1 s2 :
  Good s1 -> Good s2 ->
  sum_rel RS RR (if (dt <? value) && fl then inr (Ok value, s1) else inl (n, s1))
                (if (dt <? value) && fl then inr (Ok value, s2) else inl (n, s2)).
Proof.
  intros H1 H2. destruct ((dt <? value) && fl); cbn [sum_rel]; (split; [reflexivity|split; assumption]).
Qed.

Lemma stop_rel (r : result Z) s1 s2 : Good s1 -> Good s2 -> sum_rel RS RR (inr (r, s1)) (inr (r, s2)).
Proof. intros H1 H2. cbn [sum_rel]. split; [reflexivity|split; assumption]. Qed.

Lemma offset_pure_ok q off f : pure_ok q -> pure_ok (POffset q off f).
Proof.
  intros Hq st1 st2 dt H1 H2. cbn [get_next]. apply loop_pure; [|exact H1|exact H2].
  apply op_body_rel; [exact Hq|]. intros n s1 s2 G1 G2. apply guard_rel; assumption.
Qed.

Lemma earliest_pure_ok q tr f : pure_ok q -> pure_ok (PEarliest q tr f).
Proof.
  intros Hq st1 st2 dt H1 H2. cbn [get_next]. apply loop_pure; [|exact H1|exact H2].
  apply op_body_rel; [exact Hq|]. intros n s1 s2 G1 G2.
  destruct (apply_earliest (pz E) tr n dt) as [value|e|]; [apply guard_rel|apply stop_rel|apply stop_rel]; assumption.
Qed.

Lemma latest_pure_ok q tr f : pure_ok q -> pure_ok (PLatest q tr f).
Proof.
  intros Hq st1 st2 dt H1 H2. cbn [get_next]. apply loop_pure; [|exact H1|exact H2].
  apply op_body_rel; [exact Hq|]. intros n s1 s2 G1 G2.
  destruct (apply_latest (pz E) tr n dt) as [value|e|]; [apply guard_rel|apply stop_rel|apply stop_rel]; assumption.
Qed.

Lemma good_with_ndraws k s : Good s -> Good (with_ndraws k s).
Proof. apply good_ext; reflexivity. Qed.

Lemma jitter_pure_ok q lo hi f : draw_fixed E -> pure_ok q -> pure_ok (PJitter q lo hi f).
Proof.
  intros Hd Hq st1 st2 dt H1 H2. cbn [get_next]. apply loop_pure; [|exact H1|exact H2].
  apply op_body_rel; [exact Hq|]. intros n s1 s2 G1 G2.
  destruct (jitter_bounds lo hi n dt) as [a b].
  rewrite (Hd (ndraws s2) (ndraws s1) a b).
  apply guard_rel; apply good_with_ndraws; assumption.
Qed.

(* the member loop of a group: same answers member by member, so the same minimum *)
Lemma group_members_rel : forall l s1 s2 x acc,
  (forall q, In q l -> pure_ok q) -> Good s1 -> Good s2 ->
  fst (group_members E l s1 x acc) = fst (group_members E l s2 x acc) /\
  Good (snd (group_members E l s1 x acc)) /\ Good (snd (group_members E l s2 x acc)).
Proof.
  induction l as [|q t IH]; intros s1 s2 x acc Hok H1 H2.
  - rewrite !group_members_nil. cbn [fst snd]. split; [reflexivity|split; assumption].
  - rewrite !group_members_cons.
    destruct (pure_ok_both q s1 s2 x (Hok q (or_introl eq_refl)) H1 H2) as (He & Hg1 & Hg2).
    destruct (get_next E q s1 x) as [r1 s1'], (get_next E q s2 x) as [r2 s2']. cbn [fst snd] in *. subst r2.
    destruct r1 as [v|e|].
    + apply IH; [intros q' Hq'; apply Hok; right; exact Hq'|exact Hg1|exact Hg2].
    + cbn [fst snd]. split; [reflexivity|split; assumption].
    + cbn [fst snd]. split; [reflexivity|split; assumption].
Qed.

Lemma group_pure_ok ps f : (forall q, In q ps -> pure_ok q) -> pure_ok (PGroup ps f).
Proof.
  intros Hok st1 st2 dt H1 H2. rewrite !get_next_group. apply loop_pure; [|exact H1|exact H2].
  intros [x s1] [x' s2] (Hx & G1 & G2). cbn [fst snd] in *. subst x'. unfold group_round.
  destruct (group_members_rel ps s1 s2 x None Hok G1 G2) as (He & Hg1 & Hg2).
  apply bind_rel; [exact He|exact Hg1|exact Hg2|].
  intros m t1 t2 T1 T2. destruct m as [v|]; [apply guard_rel|apply stop_rel]; assumption.
Qed.

(* ------------------------------------------------------------------------------------------- *)
(* 6. every expression: induction over the producer syntax *)
Theorem get_next_pure : forall p, wfp E p -> incl (ileaves p) G -> pure_ok p.
Proof.
  fix IH 1. intros [tr f|id start iv f|ps f|q off f|q tr f|q tr f|q lo hi f|key f] Hw Hincl.
  - apply time_pure_ok.
  - apply interval_pure_ok; [exact Hw|apply Hincl; left; reflexivity].
  - apply group_pure_ok.
    assert (Hws : forall q, In q ps -> wfp E q) by (intros q; apply (wfp_group_In E ps f q Hw)).
    assert (Hls : forall q, In q ps -> incl (ileaves q) G).
    { intros q Hq. eapply incl_tran; [apply (ileaves_group_In ps f q Hq)|exact Hincl]. }
    clear Hw Hincl. revert Hws Hls. generalize ps. fix IHl 1. intros [|h t] Hws Hls q Hq; [destruct Hq|].
    destruct Hq as [<-|Hq].
    + apply IH; [apply Hws; left; reflexivity|apply Hls; left; reflexivity].
    + apply (IHl t); [intros q' Hq'; apply Hws; right; exact Hq'|intros q' Hq'; apply Hls; right; exact Hq'|exact Hq].
  - apply offset_pure_ok. apply IH; [exact Hw|exact Hincl].
  - apply earliest_pure_ok. apply IH; [exact Hw|exact Hincl].
  - apply latest_pure_ok. apply IH; [exact Hw|exact Hincl].
  - destruct Hw as (Hd & Hw). apply jitter_pure_ok; [exact Hd|]. apply IH; [exact Hw|exact Hincl].
  - apply sun_pure_ok.
Qed.

End Pure.

(* ------------------------------------------------------------------------------------------- *)
(* 7. the statements of C15 (a) *)

(* a good state is good for the grids its own cells define *)
Lemma good_reanchor E G A st : good E G A st -> good E G (anchor_of st) st.
Proof.
  intros (Hc & Hl). split; [exact Hc|]. intros [[id start] iv] Hin. specialize (Hl _ Hin). unfold cell_ok in *.
  destruct start as [s0|]; [exact Hl|]. destruct Hl as (c & Hc1 & _). exists c. split; [exact Hc1|].
  unfold anchor_of. rewrite Hc1. unfold on_grid. rewrite Z.sub_diag. apply Zmod_0_l.
Qed.

(* (i) the invariant is kept by every query *)
Theorem good_state_preserved E p st dt :
  wfp E p -> lconsistent (ileaves p) -> good_state E p st -> good_state E p (snd (get_next E p st dt)).
Proof.
  intros Hw HG Hg. unfold good_state in *.
  apply (good_reanchor E _ (anchor_of st)).
  apply (get_next_pure E _ (anchor_of st) HG p Hw (incl_refl _) st st dt Hg Hg).
Qed.

(* (ii) the answer is the same from any two good states that agree on the grids of the start-less intervals *)
Theorem query_state_independent E p st1 st2 dt :
  wfp E p -> lconsistent (ileaves p) -> same_grids E p st1 st2 ->
  fst (get_next E p st1 dt) = fst (get_next E p st2 dt).
Proof.
  intros Hw HG (H1 & H2). apply (get_next_pure E _ (anchor_of st1) HG p Hw (incl_refl _) st1 st2 dt H1 H2).
Qed.

(* agreeing on the cells is agreeing on the grids *)
Lemma same_cells_same_grids E p st1 st2 :
  good_state E p st1 -> icache st2 = icache st1 -> cache_coherent E st2 -> same_grids E p st1 st2.
Proof.
  intros H1 Hi Hc. split; [exact H1|]. destruct H1 as (_ & Hl). split; [exact Hc|].
  intros [[id start] iv] Hin. specialize (Hl _ Hin). unfold cell_ok in *. rewrite Hi. exact Hl.
Qed.

(* a sequence of queries (of any expressions sharing the state) *)
Fixpoint run_queries (E : penv) (qs : list (producer * Z)) (st : pstate) : pstate :=
  match qs with
  | [] => st
  | (q, x) :: t => run_queries E t (snd (get_next E q st x))
  end.

Lemma run_queries_good E G A qs :
  lconsistent G -> (forall q x, In (q, x) qs -> wfp E q /\ incl (ileaves q) G) ->
  forall st, good E G A st -> good E G A (run_queries E qs st).
Proof.
  intros HG. induction qs as [|[q x] t IH]; intros Hq st Hg; cbn [run_queries]; [exact Hg|].
  apply IH; [intros q' x' Hin; apply (Hq q' x'); right; exact Hin|].
  destruct (Hq q x (or_introl eq_refl)) as (Hw & Hi).
  apply (get_next_pure E G A HG q Hw Hi st st x Hg Hg).
Qed.

(* repeating a query gives the same answer *)
Theorem repeat_query_same E p st dt r st' :
  wfp E p -> lconsistent (ileaves p) -> good_state E p st ->
  get_next E p st dt = (r, st') -> fst (get_next E p st' dt) = r.
Proof.
  intros Hw HG Hg H. unfold good_state in Hg.
  pose proof (get_next_pure E _ (anchor_of st) HG p Hw (incl_refl _)) as Hp.
  destruct (Hp st st dt Hg Hg) as (_ & Hg'). rewrite H in Hg'. cbn [snd] in Hg'.
  destruct (Hp st' st dt Hg' Hg) as (He & _). rewrite He, H. reflexivity.
Qed.

(* asking anything in between — other instants, other expressions over the same cells and the same sun cache —
   does not change an answer *)
Theorem interleaved_queries_same E G p qs st dt :
  lconsistent G -> wfp E p -> incl (ileaves p) G ->
  (forall q x, In (q, x) qs -> wfp E q /\ incl (ileaves q) G) ->
  good E G (anchor_of st) st ->
  fst (get_next E p (run_queries E qs st) dt) = fst (get_next E p st dt).
Proof.
  intros HG Hw Hi Hq Hg.
  pose proof (run_queries_good E G (anchor_of st) qs HG Hq st Hg) as Hg'.
  apply (get_next_pure E G (anchor_of st) HG p Hw Hi _ _ dt Hg' Hg).
Qed.

(* the special case: other instants asked of the same expression *)
Definition ask_all (E : penv) (p : producer) (dts : list Z) (st : pstate) : pstate :=
  run_queries E (map (fun x => (p, x)) dts) st.

Corollary other_instants_same E p dts st dt :
  wfp E p -> lconsistent (ileaves p) -> good_state E p st ->
  fst (get_next E p (ask_all E p dts st) dt) = fst (get_next E p st dt).
Proof.
  intros Hw HG Hg. apply (interleaved_queries_same E (ileaves p)); [exact HG|exact Hw|apply incl_refl| |exact Hg].
  intros q x Hin. apply in_map_iff in Hin. destruct Hin as (y & Hy & _). injection Hy as <- _.
  split; [exact Hw|apply incl_refl].
Qed.

(* a copy (the same expression over cells holding the current values, IntervalProducer.copy passes _next as
   start) answers like the original, however both are queried afterwards *)
Theorem copy_same E p st stc dts dts' dt :
  wfp E p -> lconsistent (ileaves p) -> good_state E p st ->
  icache stc = icache st -> cache_coherent E stc ->
  fst (get_next E p (ask_all E p dts st) dt) = fst (get_next E p (ask_all E p dts' stc) dt).
Proof.
  intros Hw HG Hg Hi Hc.
  destruct (same_cells_same_grids E p st stc Hg Hi Hc) as (H1 & H2).
  assert (Hq : forall (l : list Z) q (x : Z), In (q, x) (map (fun y : Z => (p, y)) l) -> wfp E q /\ incl (ileaves q) (ileaves p)).
  { intros l q x Hin. apply in_map_iff in Hin. destruct Hin as (y & Hy & _). injection Hy as <- _.
    split; [exact Hw|apply incl_refl]. }
  apply (get_next_pure E _ (anchor_of st) HG p Hw (incl_refl _)).
  - exact (run_queries_good E _ _ _ HG (Hq dts) st H1).
  - exact (run_queries_good E _ _ _ HG (Hq dts') stc H2).
Qed.

(* expressions all of whose intervals have a start: the initial state is good, so after ANY history of queries
   the answer is the answer of the initial state (DESIGN.md C15 (a), query_independent) *)
Definition all_started (G : list (nat * option Z * Z)) : Prop := forall id s iv, In (id, s, iv) G -> s <> None.

Lemma good_pstate0 E G A : all_started G -> good E G A pstate0.
Proof.
  intros Hs. split; [apply cache_coherent_empty; reflexivity|].
  intros [[id start] iv] Hin. unfold cell_ok. destruct start as [s0|]; [|exfalso; exact (Hs _ _ _ Hin eq_refl)].
  intros c Hc. cbn in Hc. discriminate.
Qed.

Theorem query_independent_of_history E G p qs dt :
  lconsistent G -> all_started G -> wfp E p -> incl (ileaves p) G ->
  (forall q x, In (q, x) qs -> wfp E q /\ incl (ileaves q) G) ->
  fst (get_next E p (run_queries E qs pstate0) dt) = fst (get_next E p pstate0 dt).
Proof.
  intros HG Hs Hw Hi Hq. apply (interleaved_queries_same E G); try assumption. apply good_pstate0. exact Hs.
Qed.

(* jitter-free expressions need no assumption on the random source *)
Corollary jitter_free_query_state_independent E p st1 st2 dt :
  wf_producer p -> jitter_free p -> lconsistent (ileaves p) -> same_grids E p st1 st2 ->
  fst (get_next E p st1 dt) = fst (get_next E p st2 dt).
Proof. intros Hw Hj. apply query_state_independent. apply jitter_free_wfp; assumption. Qed.

(* with jitter: for a fixed random source *)
Corollary fixed_draw_query_state_independent E p st1 st2 dt :
  wf_producer p -> draw_fixed E -> lconsistent (ileaves p) -> same_grids E p st1 st2 ->
  fst (get_next E p st1 dt) = fst (get_next E p st2 dt).
Proof. intros Hw Hd. apply query_state_independent. apply draw_fixed_wfp; assumption. Qed.

(* ------------------------------------------------------------------------------------------- *)
(* 8. "an interval trigger without start counts as defined from its first query on": from a state that satisfies
   the invariant except that start-less intervals need not be anchored (e.g. the initial state), the first query
   that answers leaves a good state — every interval leaf of the expression has been asked and holds a cell *)
Definition started_ok (st : pstate) (leaf : nat * option Z * Z) : Prop :=
  let '(id, start, iv) := leaf in
  match start with
  | Some s0 => forall c, ilookup id (icache st) = Some c -> on_grid s0 iv c
  | None => True
  end.
Definition pre_good (E : penv) (G : list (nat * option Z * Z)) (st : pstate) : Prop :=
  cache_coherent E st /\ forall leaf, In leaf G -> started_ok st leaf.
Definition present (st : pstate) (id : nat) : Prop := ilookup id (icache st) <> None.
Definition ids_of (p : producer) : list nat := map (fun l : nat * option Z * Z => fst (fst l)) (ileaves p).

Lemma pre_good_pstate0 E G : pre_good E G pstate0.
Proof.
  split; [apply cache_coherent_empty; reflexivity|]. intros [[id [s0|]] iv] _; cbn; [intros c Hc; discriminate|exact I].
Qed.

Lemma pre_good_present_good E G st :
  pre_good E G st -> (forall id s iv, In (id, s, iv) G -> present st id) -> good E G (anchor_of st) st.
Proof.
  intros (Hc & Hl) Hp. split; [exact Hc|]. intros [[id start] iv] Hin. specialize (Hl _ Hin). unfold cell_ok, started_ok in *.
  destruct start as [s0|]; [exact Hl|]. specialize (Hp _ _ _ Hin). unfold present in Hp.
  destruct (ilookup id (icache st)) as [c|] eqn:EL; [|congruence]. exists c. split; [reflexivity|].
  unfold anchor_of. rewrite EL. unfold on_grid. rewrite Z.sub_diag. apply Zmod_0_l.
Qed.

Section Anchor.
Variable E : penv.
Variable G : list (nat * option Z * Z).
Hypothesis HG : lconsistent G.

(* what one step (a member query, the member loop of a group, _get_next_sun) does to the state *)
Definition step_post (ids : list nat) {T} (s : pstate) (rs : result T * pstate) : Prop :=
  pre_good E G (snd rs) /\ (forall id, present s id -> present (snd rs) id) /\
  (forall v, fst rs = Ok v -> forall id, In id ids -> present (snd rs) id).
Definition step_ok (ids : list nat) {T} (inner : pstate -> Z -> result T * pstate) : Prop :=
  forall s x, pre_good E G s -> step_post ids s (inner s x).

(* the continuations of all loops leave the cells and the sun cache alone *)
Definition frame (s s' : pstate) : Prop := icache s' = icache s /\ scache s' = scache s.
Definition k_frame {T} (k : T -> pstate -> (Z * pstate) + (result Z * pstate)) : Prop :=
  forall n s, match k n s with inl xs => frame s (snd xs) | inr rs => frame s (snd rs) end.

Lemma frame_pre_good s s' : frame s s' -> pre_good E G s -> pre_good E G s'.
Proof.
  intros (Hi & Hs) (Hc & Hl). split; [unfold cache_coherent in *; rewrite Hs; exact Hc|].
  intros [[id start] iv] Hin. specialize (Hl _ Hin). unfold started_ok in *. rewrite Hi. exact Hl.
Qed.
Lemma frame_present s s' id : frame s s' -> present s id -> present s' id.
Proof. intros (Hi & _). unfold present. rewrite Hi. auto. Qed.

Lemma loop_anchor {T} ids (inner : pstate -> Z -> result T * pstate) k p0 st dt :
  step_ok ids inner -> k_frame k ->
  pre_good E G st ->
  step_post ids st (finish_loop (iter_until p0 (fun xs : Z * pstate => let '(x, s) := xs in bind_state (inner s x) k) (dt, st))).
Proof.
  intros Hin Hk Hst.
  set (body := fun xs : Z * pstate => let '(x, s) := xs in bind_state (inner s x) k).
  pose proof (iter_until_rule body
    (fun xs => pre_good E G (snd xs) /\ forall id, present st id -> present (snd xs) id)
    (fun rs => step_post ids st rs) p0 (dt, st)) as R.
  assert (Hstep : forall xs, (pre_good E G (snd xs) /\ forall id, present st id -> present (snd xs) id) ->
            match body xs with
            | inl xs' => pre_good E G (snd xs') /\ forall id, present st id -> present (snd xs') id
            | inr rs => step_post ids st rs end).
  { intros [x s] (Hs & Hm). cbn [snd] in *. unfold body.
    destruct (Hin s x Hs) as (Hg1 & Hm1 & Hp1). destruct (inner s x) as [[n|e|] s1]; cbn [fst snd bind_state] in *.
    - specialize (Hk n s1). destruct (k n s1) as [[x' s2]|[r s2]]; cbn [snd] in Hk.
      + split; [eapply frame_pre_good; eassumption|]. intros id Hid. eapply frame_present; [exact Hk|]. auto.
      + split; [eapply frame_pre_good; eassumption|]. cbn [fst snd]. split.
        * intros id Hid. eapply frame_present; [exact Hk|]. auto.
        * intros v _ id Hid. eapply frame_present; [exact Hk|]. eapply Hp1; [reflexivity|exact Hid].
    - split; [exact Hg1|]. cbn [fst snd]. split; [intros id Hid; auto|intros v Hv; discriminate].
    - split; [exact Hg1|]. cbn [fst snd]. split; [intros id Hid; auto|intros v Hv; discriminate]. }
  specialize (R Hstep (conj Hst (fun id H => H))).
  destruct (iter_until p0 body (dt, st)) as [[x s]|rs]; cbn [finish_loop]; [|exact R].
  destruct R as (R1 & R2). cbn [snd] in *. split; [exact R1|]. cbn [fst snd].
  split; [exact R2|intros v Hv; discriminate].
Qed.

Definition anch_ok (p : producer) : Prop := step_ok (ids_of p) (get_next E p).

Lemma time_anch_ok tr f : anch_ok (PTime tr f).
Proof.
  intros s x Hs. cbn [get_next]. split; [exact Hs|]. cbn [fst snd]. split; [auto|]. intros v _ id [].
Qed.

Lemma interval_anch_ok id start iv f : 0 < iv -> In (id, start, iv) G -> anch_ok (PInterval id start iv f).
Proof.
  intros Hiv Hin s x Hs. cbn [get_next].
  remember (match ilookup id (icache s) with Some c => c | None => match start with Some s0 => s0 | None => x + 1000 end end)
    as c eqn:Ec.
  destruct (next_interval (pz E) (interval_fuel E) c iv f x) as [g|e|] eqn:EN; unfold step_post; cbn [fst snd];
    try (split; [exact Hs|split; [auto|intros v Hv; discriminate]]).
  assert (Hcg : on_grid c iv g) by (eapply interval_cache_on_grid; eassumption).
  destruct Hs as (Hc & Hl). split; [split; [exact Hc|]|split].
  - intros [[id' s'] iv'] Hin'. unfold started_ok. cbn [icache with_icache].
    destruct (Nat.eq_dec id' id) as [->|Hne].
    + destruct (HG _ _ _ _ _ Hin Hin') as (<- & <-). rewrite ilookup_iset_eq.
      destruct start as [s0|]; [|exact I]. intros c' Hc'. injection Hc' as <-.
      apply (on_grid_trans s0 iv c g Hiv); [|exact Hcg]. subst c. specialize (Hl _ Hin). unfold started_ok in Hl.
      destruct (ilookup id (icache s)) as [c0|]; [apply Hl; reflexivity|apply on_grid_refl; exact Hiv].
    + rewrite ilookup_iset_neq by exact Hne. exact (Hl _ Hin').
  - intros id' Hp. unfold present in *. cbn [icache with_icache]. destruct (Nat.eq_dec id' id) as [->|Hne].
    + rewrite ilookup_iset_eq. discriminate.
    + rewrite ilookup_iset_neq by exact Hne. exact Hp.
  - intros v _ id' Hid. cbn in Hid. destruct Hid as [<-|[]]. unfold present. cbn [icache with_icache]. rewrite ilookup_iset_eq. discriminate.
Qed.

Lemma op_frame_guard dt value fl n (s : pstate) :
  match (if (dt <? value) && fl then inr (Ok value, s) else inl (n, s)) : (Z * pstate) + (result Z * pstate) with
  | inl xs => frame s (snd xs) | inr rs => frame s (snd rs) end.
Proof. destruct ((dt <? value) && fl); cbn [snd]; split; reflexivity. Qed.

Lemma offset_anch_ok q off f : anch_ok q -> anch_ok (POffset q off f).
Proof.
  intros Hq s dt Hs. cbn [get_next]. apply (loop_anchor (ids_of q) (get_next E q)); [exact Hq| |exact Hs].
  intros n s1. apply op_frame_guard.
Qed.

Lemma earliest_anch_ok q tr f : anch_ok q -> anch_ok (PEarliest q tr f).
Proof.
  intros Hq s dt Hs. cbn [get_next]. apply (loop_anchor (ids_of q) (get_next E q)); [exact Hq| |exact Hs].
  intros n s1. destruct (apply_earliest (pz E) tr n dt); [apply op_frame_guard| |]; cbn [snd]; split; reflexivity.
Qed.

Lemma latest_anch_ok q tr f : anch_ok q -> anch_ok (PLatest q tr f).
Proof.
  intros Hq s dt Hs. cbn [get_next]. apply (loop_anchor (ids_of q) (get_next E q)); [exact Hq| |exact Hs].
  intros n s1. destruct (apply_latest (pz E) tr n dt); [apply op_frame_guard| |]; cbn [snd]; split; reflexivity.
Qed.

Lemma jitter_anch_ok q lo hi f : anch_ok q -> anch_ok (PJitter q lo hi f).
Proof.
  intros Hq s dt Hs. cbn [get_next]. apply (loop_anchor (ids_of q) (get_next E q)); [exact Hq| |exact Hs].
  intros n s1. destruct (jitter_bounds lo hi n dt) as [a b].
  destruct ((dt <? n + draw E (ndraws s1) a b) && allow_opt (pz E) f (n + draw E (ndraws s1) a b)); cbn [snd];
    split; reflexivity.
Qed.

Lemma sun_anch_ok key f : anch_ok (PSun key f).
Proof.
  intros s dt Hs. cbn [get_next]. apply (loop_anchor [] (next_sun_raw E key)); [| |exact Hs].
  - intros s1 x (Hc & Hl). destruct (next_sun_raw_spec E key s1 x Hc) as (_ & Hc' & Hi & _).
    split; [split; [exact Hc'|]|split].
    + intros [[id start] iv] Hin. specialize (Hl _ Hin). unfold started_ok in *. rewrite Hi. exact Hl.
    + intros id. unfold present. rewrite Hi. auto.
    + intros v _ id [].
  - intros v s1. apply op_frame_guard.
Qed.

Lemma group_members_anchor : forall l s x acc,
  (forall q, In q l -> anch_ok q) -> pre_good E G s ->
  pre_good E G (snd (group_members E l s x acc)) /\
  (forall id, present s id -> present (snd (group_members E l s x acc)) id) /\
  (forall m, fst (group_members E l s x acc) = Ok m ->
     forall q, In q l -> forall id, In id (ids_of q) -> present (snd (group_members E l s x acc)) id).
Proof.
  induction l as [|q t IH]; intros s x acc Hok Hs.
  - rewrite group_members_nil. cbn [fst snd]. split; [exact Hs|]. split; [auto|]. intros m _ q [].
  - rewrite group_members_cons. destruct (Hok q (or_introl eq_refl) s x Hs) as (Hg1 & Hm1 & Hp1).
    destruct (get_next E q s x) as [[v|e|] s1]; cbn [fst snd] in *.
    + destruct (IH s1 x (Some (min_acc acc v)) (fun q' Hq' => Hok q' (or_intror Hq')) Hg1) as (Hg2 & Hm2 & Hp2).
      split; [exact Hg2|]. split; [intros id Hid; apply Hm2; apply Hm1; exact Hid|].
      intros m Hm q' [<-|Hq'] id Hid.
      * apply Hm2. eapply Hp1; [reflexivity|exact Hid].
      * eapply Hp2; eassumption.
    + split; [exact Hg1|]. split; [exact Hm1|]. intros m Hm; discriminate.
    + split; [exact Hg1|]. split; [exact Hm1|]. intros m Hm; discriminate.
Qed.

Lemma ids_of_group ps f id : In id (ids_of (PGroup ps f)) -> exists q, In q ps /\ In id (ids_of q).
Proof.
  unfold ids_of. cbn [ileaves]. induction ps as [|h t IH]; [intros []|].
  rewrite map_app. intros H. apply in_app_or in H. destruct H as [H|H].
  - exists h. split; [left; reflexivity|exact H].
  - destruct (IH H) as (q & Hq & Hid). exists q. split; [right; exact Hq|exact Hid].
Qed.

Lemma group_anch_ok ps f : (forall q, In q ps -> anch_ok q) -> anch_ok (PGroup ps f).
Proof.
  intros Hok s dt Hs. rewrite get_next_group.
  apply (loop_anchor (ids_of (PGroup ps f)) (fun s x => group_members E ps s x None)); [| |exact Hs].
  - intros s1 x Hs1. destruct (group_members_anchor ps s1 x None Hok Hs1) as (Hg & Hm & Hp).
    split; [exact Hg|]. split; [exact Hm|]. intros m Hm' id Hid.
    destruct (ids_of_group ps f id Hid) as (q & Hq & Hidq). eapply Hp; eassumption.
  - intros m s1. destruct m as [v|]; [apply op_frame_guard|]. cbn [snd]. split; reflexivity.
Qed.

Theorem get_next_anchors : forall p, wfp E p -> incl (ileaves p) G -> anch_ok p.
Proof.
  fix IH 1. intros [tr f|id start iv f|ps f|q off f|q tr f|q tr f|q lo hi f|key f] Hw Hincl.
  - apply time_anch_ok.
  - apply interval_anch_ok; [exact Hw|apply Hincl; left; reflexivity].
  - apply group_anch_ok.
    assert (Hws : forall q, In q ps -> wfp E q) by (intros q; apply (wfp_group_In E ps f q Hw)).
    assert (Hls : forall q, In q ps -> incl (ileaves q) G).
    { intros q Hq. eapply incl_tran; [apply (ileaves_group_In ps f q Hq)|exact Hincl]. }
    clear Hw Hincl. revert Hws Hls. generalize ps. fix IHl 1. intros [|h t] Hws Hls q Hq; [destruct Hq|].
    destruct Hq as [<-|Hq].
    + apply IH; [apply Hws; left; reflexivity|apply Hls; left; reflexivity].
    + apply (IHl t); [intros q' Hq'; apply Hws; right; exact Hq'|intros q' Hq'; apply Hls; right; exact Hq'|exact Hq].
  - apply offset_anch_ok. apply IH; [exact Hw|exact Hincl].
  - apply earliest_anch_ok. apply IH; [exact Hw|exact Hincl].
  - apply latest_anch_ok. apply IH; [exact Hw|exact Hincl].
  - destruct Hw as (_ & Hw). apply jitter_anch_ok. apply IH; [exact Hw|exact Hincl].
  - apply sun_anch_ok.
Qed.

End Anchor.

(* the first query that answers establishes the invariant; in particular from the initial state *)
Theorem first_query_anchors E p st dt v st' :
  wfp E p -> lconsistent (ileaves p) -> pre_good E (ileaves p) st ->
  get_next E p st dt = (Ok v, st') -> good_state E p st'.
Proof.
  intros Hw HG Hs H.
  destruct (get_next_anchors E _ HG p Hw (incl_refl _) st dt Hs) as (Hg & _ & Hp). rewrite H in Hg, Hp.
  cbn [fst snd] in *. apply pre_good_present_good; [exact Hg|].
  intros id s iv Hin. apply (Hp v eq_refl). unfold ids_of. apply in_map_iff. exists (id, s, iv). split; [reflexivity|exact Hin].
Qed.

Corollary first_query_from_initial_state E p dt v st' :
  wfp E p -> lconsistent (ileaves p) -> get_next E p pstate0 dt = (Ok v, st') -> good_state E p st'.
Proof. intros Hw HG. apply first_query_anchors; [exact Hw|exact HG|apply pre_good_pstate0]. Qed.

(* so: once a trigger has answered for the first time, every later question has one answer, whatever was asked
   in between *)
Corollary answers_fixed_after_first_query E p dt0 v0 st0 dts dt :
  wfp E p -> lconsistent (ileaves p) -> get_next E p pstate0 dt0 = (Ok v0, st0) ->
  fst (get_next E p (ask_all E p dts st0) dt) = fst (get_next E p st0 dt).
Proof.
  intros Hw HG H. apply other_instants_same; [exact Hw|exact HG|].
  eapply first_query_from_initial_state; eassumption.
Qed.

(* ------------------------------------------------------------------------------------------- *)
(* Examples: a group of (hourly without start, +60 s) / (half-hourly from a start, with jitter) / a sun trigger /
   12:00 local, with a group filter; two-transition table, a location, a sun oracle with an event every UTC day *)
Definition ex_envP : penv :=
  {| pz := berlin2; draw := fun _ a _ => a; sun_ev := fun _ d => Some (d * DAY + 5 * 3600 * NS + 7);
     location := Some 0%nat; interval_fuel := 1000%positive |}.
Definition ex_p : producer :=
  PGroup [POffset (PInterval 0 None (3600 * NS) None) (60 * NS) None;
          PJitter (PInterval 1 (Some (1748822400 * NS)) (1800 * NS) None) 0 (10 * NS) None;
          PSun 0 None;
          PTime {| tr_tod := 12 * 3600 * NS; tr_sk := SkLater; tr_rp := RpTwice |} None] ex_gfilter.
Definition ex_dt0 : Z := 1748845800 * NS.
Definition ex_st0 : pstate := snd (get_next ex_envP ex_p pstate0 ex_dt0).

Example ex_pure_hyps : wfp ex_envP ex_p /\ lconsistent (ileaves ex_p).
Proof.
  split.
  - cbn [wfp ex_p]. change NS with 1000000000. repeat split; try lia.
  - intros id s iv s' iv' H1 H2. cbn in H1, H2.
    destruct H1 as [H1|[H1|[]]], H2 as [H2|[H2|[]]]; split; congruence.
Qed.

(* the state after the first query: both cells set, one draw made, two sun cache entries — and good *)
Example ex_first_query :
  get_next ex_envP ex_p pstate0 ex_dt0 =
    (Ok 1748845860000001000,
     {| icache := [(0%nat, 1748845800000001000); (1%nat, 1748847600000000000)]; ndraws := 1;
        scache := [((0%nat, 20241, 0%nat), 1748840401000000000); ((0%nat, 20242, 0%nat), 1748926801000000000)] |}) /\
  good_state ex_envP ex_p ex_st0.
Proof.
  assert (H : get_next ex_envP ex_p pstate0 ex_dt0 =
    (Ok 1748845860000001000,
     {| icache := [(0%nat, 1748845800000001000); (1%nat, 1748847600000000000)]; ndraws := 1;
        scache := [((0%nat, 20241, 0%nat), 1748840401000000000); ((0%nat, 20242, 0%nat), 1748926801000000000)] |}))
    by (vm_compute; reflexivity).
  split; [exact H|]. destruct ex_pure_hyps as (Hw & HG). unfold ex_st0.
  eapply first_query_from_initial_state; [exact Hw|exact HG|]. rewrite H. reflexivity.
Qed.

(* from then on: the same answer after other queries (by the theorem; the value by computation) *)
Example ex_interleaved :
  let dt := ex_dt0 + 7000 * NS in
  let st1 := ask_all ex_envP ex_p [ex_dt0 + 86400 * NS; ex_dt0 - 86400 * NS; ex_dt0 + 4000 * NS] ex_st0 in
  fst (get_next ex_envP ex_p st1 dt) = fst (get_next ex_envP ex_p ex_st0 dt) /\
  fst (get_next ex_envP ex_p ex_st0 dt) = Ok (ex_dt0 + 7200 * NS) /\
  icache st1 <> icache ex_st0 /\ scache st1 <> scache ex_st0 /\ ndraws st1 <> ndraws ex_st0.
Proof.
  cbv zeta. destruct ex_pure_hyps as (Hw & HG). split; [|split; [vm_compute; reflexivity|]].
  - apply other_instants_same; [exact Hw|exact HG|apply ex_first_query].
  - split; [|split]; vm_compute; discriminate.
Qed.

(* the anchoring hypothesis is needed: a start-less interval that was never asked takes its grid from the first
   question, so the initial state and the state after a first query answer differently *)
Example unanchored_refuted :
  fst (get_next ex_envP ex_p pstate0 (ex_dt0 + 7000 * NS)) <> fst (get_next ex_envP ex_p ex_st0 (ex_dt0 + 7000 * NS)).
Proof. vm_compute. discriminate. Qed.
