(* ProdEarliest.v — C05: the computed next occurrence is the earliest admissible one (interval and group
   triggers in full; time-of-day triggers: earliest among the local days walked, see time_walk_earliest). *)
From EAS Require Import Base BaseFacts Civil Time TimeFacts Filters Replace Producers ProdStrict.
From EASGen Require Import Generated.

Definition on_grid (c iv u : Z) : Prop := (u - c) mod iv = 0.

Lemma grid_gap c iv g u : 0 < iv -> on_grid c iv g -> on_grid c iv u -> g < u -> g + iv <= u.
Proof.
  unfold on_grid. intros Hiv Hg Hu Hlt.
  apply Z.mod_divide in Hg; [|lia]. apply Z.mod_divide in Hu; [|lia].
  destruct Hg as (a & Ha). destruct Hu as (b & Hb).
  assert (Hab : a < b) by nia. assert (Hab' : a + 1 <= b) by lia.
  assert (a * iv + iv <= b * iv) by nia. lia.
Qed.

Lemma on_grid_step c iv g : 0 < iv -> on_grid c iv g -> on_grid c iv (g + iv).
Proof.
  unfold on_grid. intros Hiv Hg. replace (g + iv - c) with ((g - c) + 1 * iv) by lia.
  rewrite Z.mod_add by lia. exact Hg.
Qed.

Lemma interval_back_grid c iv dt : 0 < iv -> on_grid c iv (interval_back c iv dt).
Proof.
  intros Hiv. unfold on_grid, interval_back. destruct (dt <? c).
  - replace (c - (c - dt + iv - 1) / iv * iv - c) with ((- ((c - dt + iv - 1) / iv)) * iv) by lia.
    apply Z.mod_mul. lia.
  - rewrite Z.sub_diag. apply Z.mod_0_l. lia.
Qed.

Lemma interval_first_grid c iv g0 dt : 0 < iv -> on_grid c iv g0 -> on_grid c iv (interval_first g0 iv dt).
Proof.
  unfold on_grid, interval_first. intros Hiv Hg.
  replace (g0 + ((dt - g0) / iv + 1) * iv - c) with ((g0 - c) + ((dt - g0) / iv + 1) * iv) by lia.
  rewrite Z.mod_add by lia. exact Hg.
Qed.

Lemma interval_first_tight g0 iv dt : 0 < iv -> interval_first g0 iv dt - iv <= dt.
Proof. intros Hiv. unfold interval_first. nia. Qed.

(* C05, interval: the earliest point of the grid through the cached point c that lies after dt and
   that the filter accepts; no admissible grid point is skipped *)
Theorem interval_earliest z fuel c iv f dt g :
  0 < iv -> next_interval z fuel c iv f dt = Ok g ->
  dt < g /\ on_grid c iv g /\ allow_opt z f g = true /\
  forall u, dt < u < g -> on_grid c iv u -> allow_opt z f u = false.
Proof.
  intros Hiv. unfold next_interval.
  set (g0 := interval_back c iv dt). set (g1 := interval_first g0 iv dt).
  assert (Hg0 : on_grid c iv g0) by (apply interval_back_grid; exact Hiv).
  assert (Hg1 : on_grid c iv g1) by (apply interval_first_grid; assumption).
  assert (H1 : dt < g1) by (apply interval_first_gt; [exact Hiv|apply interval_back_le; exact Hiv]).
  assert (H1' : g1 - iv <= dt) by (apply interval_first_tight; exact Hiv).
  pose proof (iter_until_rule (fun g => if allow_opt z f g then inr g else inl (g + iv))
    (fun g => dt < g /\ on_grid c iv g /\ forall u, dt < u < g -> on_grid c iv u -> allow_opt z f u = false)
    (fun g => dt < g /\ on_grid c iv g /\ allow_opt z f g = true /\
              forall u, dt < u < g -> on_grid c iv u -> allow_opt z f u = false) fuel g1) as R.
  destruct (iter_until fuel _ g1) as [x|x]; [discriminate|].
  intros H. injection H as <-. apply R.
  - intros s (Hs1 & Hs2 & Hs3). destruct (allow_opt z f s) eqn:Ea.
    + repeat split; assumption.
    + split; [lia|]. split; [apply on_grid_step; assumption|].
      intros u Hu Hgu. destruct (Z.lt_trichotomy u s) as [Hlt|[->|Hgt]].
      * apply Hs3; [lia|exact Hgu].
      * exact Ea.
      * pose proof (grid_gap c iv s u Hiv Hs2 Hgu Hgt). lia.
  - split; [exact H1|]. split; [exact Hg1|].
    intros u Hu Hgu.
    (* no grid point strictly between dt and the first one after dt *)
    assert (Hprev : on_grid c iv (g1 - iv)).
    { unfold on_grid in *. replace (g1 - iv - c) with ((g1 - c) + (-1) * iv) by lia. rewrite Z.mod_add by lia. exact Hg1. }
    destruct (Z.lt_trichotomy u (g1 - iv)) as [Hlt|[Heq|Hgt]]; [lia|lia|].
    pose proof (grid_gap c iv (g1 - iv) u Hiv Hprev Hgu Hgt). lia.
Qed.

(* the grid is the one through start when the producer has a start and an empty cache, and the cache
   always stays on that grid (so repeated queries keep answering on the same grid: C15) *)
Theorem interval_cache_on_grid z fuel c iv f dt g : 0 < iv -> next_interval z fuel c iv f dt = Ok g -> on_grid c iv g.
Proof. intros Hiv H. apply (interval_earliest z fuel c iv f dt g Hiv H). Qed.

Lemma on_grid_trans c iv g u : 0 < iv -> on_grid c iv g -> (on_grid g iv u <-> on_grid c iv u).
Proof.
  unfold on_grid. intros Hiv Hg. apply Z.mod_divide in Hg; [|lia]. destruct Hg as (a & Ha).
  replace (u - c) with ((u - g) + a * iv) by lia. rewrite Z.mod_add by lia. reflexivity.
Qed.

(* ------------------------------------------------------------------------------------------- *)
(* time of day: the answer is an occurrence of some local day, accepted by the filter, and no occurrence
   of an earlier day of the walk was admissible *)
Definition day_results (z : tz) (tr : treplacer) (day : Z) : list Z :=
  match replace z tr day with ROne i => [i] | RTwo a b => [a; b] | _ => [] end.

Definition admissible (z : tz) (f : option filt) (dt i : Z) : Prop := dt < i /\ allow_opt z f i = true.

Theorem time_walk_earliest z tr f dt v :
  next_time z tr f dt = Ok v ->
  exists day, local_day (to_local z dt) - 1 <= day /\
    In v (day_results z tr day) /\ admissible z f dt v /\
    forall d, local_day (to_local z dt) - 1 <= d < day -> forall u, In u (day_results z tr d) -> ~ admissible z f dt u.
Proof.
  unfold next_time. set (d0 := local_day (to_local z dt) - 1).
  pose proof (iter_until_rule (time_step z tr f dt)
    (fun day => d0 <= day /\ forall d, d0 <= d < day -> forall u, In u (day_results z tr d) -> ~ admissible z f dt u)
    (fun r => forall v, r = Ok v -> exists day, d0 <= day /\ In v (day_results z tr day) /\ admissible z f dt v /\
        forall d, d0 <= d < day -> forall u, In u (day_results z tr d) -> ~ admissible z f dt u) loop_bound d0) as R.
  destruct (iter_until loop_bound (time_step z tr f dt) d0) as [d|r]; [discriminate|].
  intros H. eapply R; [| |exact H].
  - intros day (Hd0 & Hprev). unfold time_step.
    assert (Hnext : forall (none : forall u, In u (day_results z tr day) -> ~ admissible z f dt u),
              d0 <= day + 1 /\ forall d, d0 <= d < day + 1 -> forall u, In u (day_results z tr d) -> ~ admissible z f dt u).
    { intros none. split; [lia|]. intros d Hd u Hu. destruct (Z.eq_dec d day) as [->|]; [apply none; exact Hu|].
      apply (Hprev d); [lia|exact Hu]. }
    unfold day_results in *. destruct (replace z tr day) as [i|a b| |e] eqn:ER.
    + destruct (dt <? i) eqn:E1; cbn [andb].
      * destruct (allow_opt z f i) eqn:E2.
        -- intros w Hw. injection Hw as <-. exists day. rewrite ER. split; [exact Hd0|]. split; [left; reflexivity|].
           split; [split; [lia|exact E2]|exact Hprev].
        -- apply Hnext. intros u [<-|[]] (_ & Hc). congruence.
      * apply Hnext. intros u [<-|[]] (Hc & _). lia.
    + destruct ((dt <? a) && allow_opt z f a) eqn:Ea.
      * intros w Hw. injection Hw as <-. apply andb_true_iff in Ea. destruct Ea as (E1 & E2).
        exists day. rewrite ER. split; [exact Hd0|]. split; [left; reflexivity|].
        split; [split; [lia|exact E2]|exact Hprev].
      * destruct ((dt <? b) && allow_opt z f b) eqn:Eb.
        -- intros w Hw. injection Hw as <-. apply andb_true_iff in Eb. destruct Eb as (E1 & E2).
           exists day. rewrite ER. split; [exact Hd0|]. split; [right; left; reflexivity|].
           split; [split; [lia|exact E2]|exact Hprev].
        -- apply Hnext. intros u [<-|[<-|[]]] (Hc1 & Hc2).
           ++ apply andb_false_iff in Ea. destruct Ea as [E|E]; [lia|congruence].
           ++ apply andb_false_iff in Eb. destruct Eb as [E|E]; [lia|congruence].
    + apply Hnext. intros u [].
    + intros w Hw. discriminate.
  - split; [lia|]. intros d Hd. lia.
Qed.
