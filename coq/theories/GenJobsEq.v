(* GenJobsEq.v — the code generated from src/eascheduler/jobs/*.py (coq/gen/GenJobs.v, rewritten by tools/gen_jobs.py
   on every run) computes what the hand-written model of Sched.v computes.

   1. [gen_execute_is_exec_open]: the generated JobBase.execute (with the dispatch on the job's class through
      update_next / job_finish / set_next_run / the callback handler) is GenRt.exec_open on every state in which the
      job has a next run, is linked and not finished.  [knot2] closes the open recursion of the generated scheduler
      with the GENERATED execute; [gen_agrees2]: for every fuel and every state satisfying the precondition under
      which SchedInv.core_specs_all speaks about the function (WFq ...), the generated function returns exactly the
      state the model returns, normally.  The invariant is threaded with core_specs_all exactly the way
      SchedTrace.tr_specs / SchedOrder.ord_specs thread theirs; it cannot be avoided: on a queue that holds an
      unlinked or finished job the file raises (AttributeError / JobAlreadyFinishedError) where the model goes on.
   2. [gen_set_next_run_is_model], [gen_callbacks_run_is_run_cbs] (+ the on_finished handler with the store's callback).
   3. the API operations against Sched.step_op on every reachable state (Inv, and for cancel / pause [LiveLinked]:
      a job that exists and is not finished is linked - proved reachable, [LiveLinked_reachable]):
      [gen_cancel_is_model] [gen_pause_is_model] [gen_resume_is_model] [gen_reset_is_model] [gen_set_countdown_is_model];
      outcome Done <-> returned, Raised e <-> raised (JErr e), same resulting state ([ret_of]).  Where the model is
      coarser than the file: [gen_pause_once], [gen_resume_not_datetime] (NotImplementedError of the classes that do
      not support the operation; the model's OPause / OResume do not look at the class), the past test in reset
      (hypothesis 0 <= jsecs; SchedExact3.SecsPos), slots j >= njobs (no such object exists in the implementation).
      Not covered: the outcome NoFuel (the model ran out of fuel; nothing is claimed about the generated code then).
   4. [gen_link_is_create_first]: link_scheduler + update_first against the `first` / add_job part of Sched.create
      (SchedTrace.create_first); [link_hyps_at_creation]: its hypotheses hold at every creation.
   5. [gen_lt_is_job_lt]: JobBase.__lt__ is Sched.job_lt.
   6. [gen_register_is_model] [gen_unregister_is_model] [gen_unregister_absent] [gen_clear_spec]: the callback lists.
   Everything is proved at full strength for the stated hypotheses; nothing is `_partial`. *)
From EAS Require Import Base BaseFacts Sched SchedInv SchedApi SchedTrace GenRt GenSchedEq GenRtJobs.
From EASGen Require Import Generated GenSched GenJobs.

Theorem gen_jobs_recognised : gen_jobs_status_v = GenJobsOk.
Proof. reflexivity. Qed.

Lemma tolerance_is_100ms : 100 * 1000000 = past_tolerance_ns.
Proof. reflexivity. Qed.

Section Eq.
Variable E : env.

(* ------------------------------------------------------------------------------------------- *)
(* 2a. JobCallbackHandler.run *)
Lemma run_user (w : cbwhich) (j : nat) (mk : nat -> event) (cbs : list nat) : forall s,
  (forall s' cb, jobs s' = jobs s ->
     match w with
     | CbUpd => ECbUpd j cb (jstatus (jobs s' j)) (jnext (jobs s' j))
     | CbFin => ECbFin j cb
     end = mk cb) ->
  g_JobCallbackHandler_run E w j (map CbUser cbs) s = Some (run_cbs E mk cbs s, JRet).
Proof.
  induction cbs as [|cb t IH]; intros s Hmk; cbn [map g_JobCallbackHandler_run run_cbs]; [reflexivity|].
  unfold call_cb. cbv zeta. rewrite (Hmk s cb eq_refl).
  destruct (fail_cb E cb (count_cb cb (log s))); cbn [cbk_src]; apply IH; intros s' cb' Hj; apply Hmk; rewrite Hj; reflexivity.
Qed.

(* JobCallbackHandler.run over the user callbacks of on_finished is Sched.run_cbs *)
Theorem gen_callbacks_run_is_run_cbs_fin j cbs s :
  g_JobCallbackHandler_run E CbFin j (map CbUser cbs) s = Some (run_cbs E (fun cb => ECbFin j cb) cbs s, JRet).
Proof. apply run_user. reflexivity. Qed.

(* ... and over those of on_update, where every callback sees the job as it is at that moment *)
Theorem gen_callbacks_run_is_run_cbs_upd j cbs s :
  g_JobCallbackHandler_run E CbUpd j (map CbUser cbs) s =
  Some (run_cbs E (fun cb => ECbUpd j cb (jstatus (jobs s j)) (jnext (jobs s j))) cbs s, JRet).
Proof. apply run_user. intros s' cb ->. reflexivity. Qed.

(* the whole on_finished handler: the store's callback first (when the job is stored), then the user's *)
Lemma gen_on_finished_run j s :
  g_JobCallbackHandler_run E CbFin j (callbacks CbFin (jobs s j)) s =
  Some (run_cbs E (fun cb => ECbFin j cb) (jcbf (jobs s j))
          (if jstored (jobs s j) then set_store (store_remove (jkey (jobs s j)) (store s)) s else s), JRet).
Proof.
  unfold callbacks. destruct (jstored (jobs s j)); cbn [app].
  - cbn [g_JobCallbackHandler_run call_cb]. apply gen_callbacks_run_is_run_cbs_fin.
  - apply gen_callbacks_run_is_run_cbs_fin.
Qed.

(* ------------------------------------------------------------------------------------------- *)
(* 2b. JobBase.set_next_run = the past test, then Sched.set_next_run *)
Theorem gen_set_next_run_is_model (R : jrec) j nx s :
  g_set_next_run E R j nx s =
  match nx with
  | Some v => if too_old s v then Some (s, JExc (JErr EPast)) else Some (set_next_run E j (Some v) s, JRet)
  | None => Some (set_next_run E j None s, JRet)
  end.
Proof.
  unfold g_set_next_run, g_JobBase_set_next_run, set_next_run, too_old. cbv zeta.
  destruct nx as [v|].
  - rewrite tolerance_is_100ms. destruct (v <? now s - past_tolerance_ns); [reflexivity|].
    unfold callbacks. rewrite gen_callbacks_run_is_run_cbs_upd.
    unfold set_job at 1 2 3. cbn [jobs set_jobs]. unfold upd at 1 2 3. rewrite Nat.eqb_refl. reflexivity.
  - unfold callbacks. rewrite gen_callbacks_run_is_run_cbs_upd.
    unfold set_job at 1 2 3. cbn [jobs set_jobs]. unfold upd at 1 2 3. rewrite Nat.eqb_refl. reflexivity.
Qed.

(* ------------------------------------------------------------------------------------------- *)
(* job_finish / update_next / execute in open form *)
Lemma status_is_false s j v : jstatus (jobs s j) <> v -> status_is s j v = false.
Proof.
  unfold status_is. intros H. destruct (status_eqb (jstatus (jobs s j)) v) eqn:Ee; [|reflexivity].
  apply status_eqb_eq in Ee. contradiction.
Qed.

Lemma finish_record (b : job) :
  with_next (with_status (with_linked b false) Finished) None = with_linked (with_status_next b Finished None) false.
Proof. reflexivity. Qed.

(* the part of job_finish after remove_job returned *)
Lemma gen_finish_tail j s :
  g_JobCallbackHandler_run E CbFin j
    (callbacks CbFin (jobs (set_job j (with_next (with_status (with_linked (jobs s j) false) Finished) None) s) j))
    (set_job j (with_next (with_status (with_linked (jobs s j) false) Finished) None) s) =
  Some (finish_job E j s, JRet).
Proof.
  rewrite gen_on_finished_run. unfold finish_job. cbv zeta. rewrite finish_record.
  rewrite jobs_upd_same. reflexivity.
Qed.

Definition finish_open (rm : nat -> st -> M) (j : nat) (s : st) : MJ :=
  match rm j s with
  | None => None
  | Some (s1, Ret) => Some (finish_job E j s1, JRet)
  | Some (s1, Exc e) => Some (s1, JExc (JSched e))
  end.

Lemma gen_job_finish_open (R : jrec) j s :
  jstatus (jobs s j) <> Finished -> jlinked (jobs s j) = true ->
  g_job_finish E R j s = finish_open (jr_remove_job R) j s.
Proof.
  intros Hnf Hlk. unfold g_job_finish, g_JobBase_job_finish, finish_open. cbv zeta.
  rewrite (status_is_false _ _ _ Hnf), Hlk.
  destruct (jr_remove_job R j s) as [[s1 [|e]]|]; [|reflexivity|reflexivity].
  rewrite gen_finish_tail. reflexivity.
Qed.

Lemma run_executor_is_exec_pre j t s : jnext (jobs s j) = Some t -> run_executor E j s = exec_pre E j t s.
Proof. intros Hn. unfold run_executor, exec_pre, announced. rewrite Hn. reflexivity. Qed.

(* 1. the generated execute() is GenRt.exec_open *)
Theorem gen_execute_is_exec_open (R : jrec) j t s :
  jnext (jobs s j) = Some t -> jlinked (jobs s j) = true -> jstatus (jobs s j) <> Finished ->
  to_M (g_execute E R j s) = exec_open E (jr_remove_job R) j s.
Proof.
  intros Hn Hlk Hnf. unfold g_execute, g_JobBase_execute, exec_open. cbv zeta. rewrite Hn.
  rewrite (run_executor_is_exec_pre _ _ _ Hn). fold (exec_pre E j t s).
  assert (Hj : jobs (exec_pre E j t s) = jobs s) by apply exec_pre_jobs.
  remember (exec_pre E j t s) as s0 eqn:Es0. clear Es0.
  assert (Hlk0 : jlinked (jobs s0 j) = true) by (rewrite Hj; exact Hlk).
  assert (Hnf0 : jstatus (jobs s0 j) <> Finished) by (rewrite Hj; exact Hnf).
  unfold g_update_next. destruct (jkind (jobs s0 j)).
  - unfold g_OneTimeJob_update_next. cbv zeta. rewrite (gen_job_finish_open R j s0 Hnf0 Hlk0). unfold finish_open.
    destruct (jr_remove_job R j s0) as [[s1 [|e]]|]; reflexivity.
  - unfold g_CountdownJob_update_next. cbv zeta. rewrite gen_set_next_run_is_model. reflexivity.
  - unfold g_DateTimeJob_update_next. cbv zeta. rewrite Hlk0. cbn [negb]. unfold get_next. cbv zeta.
    cbn [now add_ev set_log].
    destruct (prod E j (count_prod j (log s0)) (now s0)) as [v|e|]; [|reflexivity|reflexivity].
    rewrite gen_set_next_run_is_model.
    destruct (too_old (add_ev (EProd j) s0) v); reflexivity.
Qed.

(* ------------------------------------------------------------------------------------------- *)
(* 1b. the generated scheduler closed with the GENERATED execute *)
Definition jrec_of (R : rec) : jrec :=
  {| jr_add_job := r_add_job R; jr_remove_job := r_remove_job R; jr_update_job := g_update_job R |}.

Fixpoint knot2 (fuel : nat) : rec :=
  match fuel with
  | O => none_rec
  | S f =>
      let R := knot2 f in
      {| r_set_timer := g_set_timer R; r_run_jobs := g_run_jobs R; r_run_jobs_loop := g_run_jobs_loop R;
         r_add_job := g_add_job R; r_remove_job := g_remove_job R;
         r_execute := fun j s => to_M (g_execute E (jrec_of R) j s) |}
  end.

(* the preconditions are those of SchedInv.core_specs *)
Definition agrees2 (f : nat) : Prop :=
  (forall X s s', WFq X s -> set_timer E f s = Some s' -> r_set_timer (knot2 f) s = Some (s', Ret)) /\
  (forall X s s', WFq X s -> enabled s = true -> run_jobs E f s = Some s' -> r_run_jobs (knot2 f) s = Some (s', Ret)) /\
  (forall X s s', WFq X s -> enabled s = true -> Tl s -> run_loop E f s = Some s' ->
     r_run_jobs_loop (knot2 f) s = Some (s', Ret)) /\
  (forall X j s s', WFq (j :: X) s -> ~ In j (queue s) -> ~ In j X -> add_job E f j s = Some s' ->
     r_add_job (knot2 f) j s = Some (s', Ret)) /\
  (forall X j s s', WFq (j :: X) (set_queue (remove_first j (queue s)) s) -> remove_job E f j s = Some s' ->
     r_remove_job (knot2 f) j s = Some (s', Ret)) /\
  (forall X j t s s', WFq (j :: X) s -> ~ In j (queue s) -> jstatus (jobs s j) = Running -> enabled s = true -> Tl s ->
     jnext (jobs s j) = Some t -> exec_job E f j t s = Some s' ->
     r_execute (knot2 f) j s = Some (s', Ret) \/
     exists s'', r_execute (knot2 f) j s = Some (s'', Exc XUser) /\ s' = add_ev (EHandler (HJob j)) s'').

Lemma a2_set_timer f : agrees2 f -> forall X s s',
  WFq X s -> set_timer E (S f) s = Some s' -> g_set_timer (knot2 f) s = Some (s', Ret).
Proof.
  intros (_ & IHr & _) X s s' W H. rewrite set_timer_S in H. cbv zeta in H.
  unfold g_set_timer. cbv zeta.
  assert (W0 : WFq X (set_timer_f None s)) by (eapply WFq_view; [apply view_timer|exact W]).
  assert (Hk : forall s0 : st, s0 = set_timer_f None s ->
    (if (is_nil (queue s0) || negb (enabled s0))%bool then Some (s0, Ret)
     else match queue s0 with
          | [] => Some (s0, Exc XIndex)
          | h :: _ =>
              match jnext (jobs s0 h) with
              | None => Some (s0, Exc XTimeNotSet)
              | Some v =>
                  if v - now s0 <=? 0
                  then match r_run_jobs (knot2 f) s0 with
                       | None => None
                       | Some (s1, r) => match r with Ret => Some (s1, Ret) | Exc e => Some (s1, Exc e) end
                       end
                  else Some (set_timer_f (Some (now s0 + (v - now s0))) s0, Ret)
              end
          end) = Some (s', Ret)).
  { intros s0 ->. destruct (queue (set_timer_f None s)) as [|h q] eqn:Eq; cbn [is_nil orb].
    - injection H as <-. reflexivity.
    - destruct (enabled (set_timer_f None s)) eqn:En; cbn [negb] in H |- *; [|injection H as <-; reflexivity].
      destruct (wf_head_next _ _ _ _ W0 Eq) as (t & Ht). rewrite Ht in H |- *.
      rewrite leb_sub.
      destruct (t <=? now (set_timer_f None s)).
      + rewrite (IHr _ _ _ W0 En H). reflexivity.
      + injection H as <-. rewrite add_sub_cancel. reflexivity. }
  destruct (timer s) as [w|] eqn:Et.
  - unfold cancel_handle. apply Hk. reflexivity.
  - apply Hk. rewrite <- Et. symmetry. apply set_timer_f_same.
Qed.

Lemma a2_run_jobs f : agrees2 f -> forall X s s',
  WFq X s -> enabled s = true -> run_jobs E (S f) s = Some s' -> g_run_jobs (knot2 f) s = Some (s', Ret).
Proof.
  intros (IHt & _ & IHl & _) X s s' W En H. rewrite run_jobs_S in H. cbv zeta in H.
  unfold g_run_jobs. cbv zeta.
  assert (W0 : WFq X (set_timer_f None s)) by (eapply WFq_view; [apply view_timer|exact W]).
  assert (T0 : Tl (set_timer_f None s)) by (left; reflexivity).
  destruct (run_loop E f (set_timer_f None s)) as [s1|] eqn:El; [|discriminate].
  destruct (core_specs_all E f) as (_ & _ & Hlp & _).
  destruct (Hlp X _ s1 W0 En T0 El) as (W1 & _ & _).
  rewrite (wf_nb _ _ W1) in H.
  rewrite (IHl _ _ _ W0 En T0 El).
  destruct (queue s1) as [|h q] eqn:Eq; cbn [is_nil negb].
  - injection H as <-. reflexivity.
  - rewrite (IHt _ _ _ W1 H). reflexivity.
Qed.

Lemma a2_run_loop f : agrees2 f -> forall X s s',
  WFq X s -> enabled s = true -> Tl s -> run_loop E (S f) s = Some s' -> g_run_jobs_loop (knot2 f) s = Some (s', Ret).
Proof.
  intros (_ & _ & IHl & IHa & _ & IHe) X s s' W En HTl H. rewrite run_loop_S in H.
  unfold g_run_jobs_loop. cbv zeta.
  destruct (queue s) as [|h q] eqn:Eq; cbn [is_nil negb]; [injection H as <-; reflexivity|].
  destruct (wf_head_next _ _ _ _ W Eq) as (t & Ht). rewrite Ht in H |- *.
  destruct (now s <? t) eqn:Elt; [injection H as <-; reflexivity|]. cbv zeta in H.
  apply Z.ltb_ge in Elt.
  destruct (WFq_pop _ _ _ _ W Eq) as (W1 & Hnq & HnX).
  remember (set_queue q s) as s1 eqn:Es1.
  assert (Hin : In h (queue s)) by (rewrite Eq; left; reflexivity).
  assert (Hr : jstatus (jobs s1 h) = Running) by (subst s1; apply (wf_q _ _ W); exact Hin).
  assert (Tl1 : Tl s1).
  { left. subst s1. cbn [timer set_queue]. destruct HTl as [T|[_ Hh]]; [exact T|].
    unfold HeadNotDue in Hh. rewrite Eq in Hh. destruct Hh as (t' & Ht' & Hlt).
    unfold nxt in Ht'. rewrite Ht in Ht'. injection Ht' as <-. lia. }
  assert (En1 : enabled s1 = true) by (subst s1; exact En).
  assert (Hq1 : ~ In h (queue s1)) by (subst s1; exact Hnq).
  assert (Hn1 : jnext (jobs s1 h) = Some t) by (subst s1; exact Ht).
  destruct (exec_job E f h t s1) as [s2|] eqn:EX; [|discriminate].
  destruct (core_specs_all E f) as (_ & _ & Hlp & Hadd & _ & Hex).
  destruct (Hex X h t s1 s2 W1 Hq1 Hr En1 Tl1 EX) as (W2 & Tl2 & F2).
  assert (En2 : enabled s2 = true) by (destruct F2 as (_ & e & _); congruence).
  pose proof (notin_q_of_X _ _ _ W2) as Hq2.
  assert (Htail :
            (if status_eqb (jstatus (jobs s2 h)) Running
             then match r_add_job (knot2 f) h s2 with
                  | None => None
                  | Some (s3, r) => match r with Ret => r_run_jobs_loop (knot2 f) s3 | Exc e => Some (s3, Exc e) end
                  end
             else r_run_jobs_loop (knot2 f) s2) = Some (s', Ret)).
  { destruct (status_eqb (jstatus (jobs s2 h)) Running) eqn:Est.
    - destruct (add_job E f h s2) as [s3|] eqn:EA; [|discriminate].
      destruct (Hadd X h s2 s3 W2 Hq2 HnX EA) as (W3 & F3 & _ & Tl3).
      assert (En3 : enabled s3 = true) by (destruct F3 as (_ & e & _); congruence).
      rewrite (IHa _ _ _ _ W2 Hq2 HnX EA). exact (IHl _ _ _ W3 En3 (Tl3 En2 Tl2) H).
    - assert (W3 : WFq X s2).
      { eapply WFq_drop; [exact W2|]. intros Hc. apply status_eqb_eq in Hc. congruence. }
      exact (IHl _ _ _ W3 En2 Tl2 H). }
  destruct (IHe X h t s1 s2 W1 Hq1 Hr En1 Tl1 Hn1 EX) as [Hx|(s'' & Hx & Hs)]; rewrite Hx.
  - exact Htail.
  - rewrite <- Hs. exact Htail.
Qed.

Lemma a2_add_job f : agrees2 f -> forall X j s s',
  WFq (j :: X) s -> ~ In j (queue s) -> ~ In j X -> add_job E (S f) j s = Some s' ->
  g_add_job (knot2 f) j s = Some (s', Ret).
Proof.
  intros (IHt & _) X j s s' W Hnq HnX H. rewrite add_job_S in H.
  unfold g_add_job. cbv zeta.
  destruct (status_eqb (jstatus (jobs s j)) Running) eqn:Est; [|injection H as <-; reflexivity]. cbv zeta in H.
  apply status_eqb_eq in Est.
  pose proof (WFq_insort _ _ _ W Hnq Est HnX) as W1.
  cbn [queue set_queue].
  destruct (insort s j (queue s)) as [|h q] eqn:Ei; [exfalso; exact (insort_not_nil _ _ _ Ei)|].
  cbn [is_head] in H. rewrite Nat.eqb_sym.
  destruct (Nat.eqb h j).
  - rewrite (IHt _ _ _ W1 H). reflexivity.
  - injection H as <-. reflexivity.
Qed.

Lemma a2_remove_job f : agrees2 f -> forall X j s s',
  WFq (j :: X) (set_queue (remove_first j (queue s)) s) -> remove_job E (S f) j s = Some s' ->
  g_remove_job (knot2 f) j s = Some (s', Ret).
Proof.
  intros (IHt & _) X j s s' W1 H. rewrite remove_job_S in H.
  unfold g_remove_job. cbv zeta.
  destruct (queue s) as [|h q] eqn:Eq; cbn [is_nil].
  - assert (W : WFq (j :: X) s).
    { eapply WFq_view; [|exact W1]. apply fields_view; try reflexivity. cbn [queue set_queue remove_first]. exact Eq. }
    rewrite (IHt _ _ _ W H). reflexivity.
  - cbv zeta in H.
    assert (Hk : forall s1 : st, s1 = set_queue (remove_first j (h :: q)) s ->
      (if is_nil (queue s1)
       then match r_set_timer (knot2 f) s1 with
            | None => None
            | Some (s2, r) => match r with Ret => Some (s2, Ret) | Exc e => Some (s2, Exc e) end
            end
       else if Nat.eqb j h
            then match r_set_timer (knot2 f) s1 with
                 | None => None
                 | Some (s2, r) => match r with Ret => Some (s2, Ret) | Exc e => Some (s2, Exc e) end
                 end
            else Some (s1, Ret)) = Some (s', Ret)).
    { intros s1 ->. cbn [queue set_queue].
      destruct (remove_first j (h :: q)) as [|h' q'] eqn:Er; cbn [is_nil].
      - rewrite (IHt _ _ _ W1 H). reflexivity.
      - rewrite Nat.eqb_sym. destruct (Nat.eqb h j).
        + rewrite (IHt _ _ _ W1 H). reflexivity.
        + injection H as <-. reflexivity. }
    destruct (memb j (h :: q)) eqn:Em.
    + apply Hk. reflexivity.
    + assert (Hs : s = set_queue (remove_first j (h :: q)) s).
      { rewrite remove_first_notin.
        - rewrite <- Eq. symmetry. apply set_queue_same.
        - intros Hi. apply memb_In in Hi. congruence. }
      specialize (Hk s Hs). rewrite Eq in Hk. cbn [is_nil] in Hk. exact Hk.
Qed.

Lemma a2_exec f : agrees2 f -> forall X j t s s',
  WFq (j :: X) s -> ~ In j (queue s) -> jstatus (jobs s j) = Running -> enabled s = true -> Tl s ->
  jnext (jobs s j) = Some t -> exec_job E (S f) j t s = Some s' ->
  to_M (g_execute E (jrec_of (knot2 f)) j s) = Some (s', Ret) \/
  exists s'', to_M (g_execute E (jrec_of (knot2 f)) j s) = Some (s'', Exc XUser) /\ s' = add_ev (EHandler (HJob j)) s''.
Proof.
  intros (_ & _ & _ & _ & IHm & _) X j t s s' W Hnq Hrun En HTl Hn H.
  assert (Hlk : jlinked (jobs s j) = true) by (apply (wf_lk _ _ W); exact Hrun).
  assert (Hnf : jstatus (jobs s j) <> Finished) by (rewrite Hrun; discriminate).
  rewrite (gen_execute_is_exec_open (jrec_of (knot2 f)) j t s Hn Hlk Hnf). cbn [jr_remove_job jrec_of].
  rewrite exec_job_S in H. cbv zeta in H.
  unfold exec_open. rewrite Hn. cbv zeta. fold (exec_pre E j t s).
  destruct (exec_pre_props E j t s) as ((q1 & q2 & q3 & q4) & _).
  remember (exec_pre E j t s) as s0 eqn:Es0.
  assert (W0 : WFq (j :: X) s0) by (eapply WFq_view; [|exact W]; apply fields_view; assumption).
  assert (Hnq0 : ~ In j (queue s0)) by (rewrite q1; exact Hnq).
  clear Es0.
  destruct (jkind (jobs s0 j)).
  - destruct (remove_job E f j s0) as [s1|] eqn:Em; [|discriminate].
    injection H as <-.
    assert (Wr : WFq (j :: X) (set_queue (remove_first j (queue s0)) s0)).
    { rewrite remove_first_notin by exact Hnq0. eapply WFq_view; [|exact W0]. apply fields_view; reflexivity. }
    rewrite (IHm _ _ _ _ Wr Em). left. reflexivity.
  - injection H as <-. left. reflexivity.
  - destruct (prod E j _ _) as [v|e|]; [| |discriminate].
    + destruct (too_old _ v); injection H as <-; [right; eexists; split; reflexivity|left; reflexivity].
    + injection H as <-. right. eexists. split; reflexivity.
Qed.

(* the generated scheduler with the generated execute computes the model's core, from every state the invariant
   lemmas speak about *)
Theorem gen_agrees2 : forall f, agrees2 f.
Proof.
  induction f as [|f IH].
  - repeat split; intros; discriminate.
  - refine (conj _ (conj _ (conj _ (conj _ (conj _ _))))).
    + exact (a2_set_timer f IH).
    + exact (a2_run_jobs f IH).
    + exact (a2_run_loop f IH).
    + exact (a2_add_job f IH).
    + exact (a2_remove_job f IH).
    + exact (a2_exec f IH).
Qed.

(* job.execute() inside run_jobs, directly: the generated execute (calling into the generated scheduler with fuel f)
   against Sched.exec_job with fuel f+1, up to who hands the exception to process_exception *)
Corollary gen_execute_is_exec_job f X j t s s' :
  WFq (j :: X) s -> ~ In j (queue s) -> jstatus (jobs s j) = Running -> enabled s = true -> Tl s ->
  jnext (jobs s j) = Some t -> exec_job E (S f) j t s = Some s' ->
  to_M (g_execute E (jrec_of (knot2 f)) j s) = Some (s', Ret) \/
  exists s'', to_M (g_execute E (jrec_of (knot2 f)) j s) = Some (s'', Exc XUser) /\ s' = add_ev (EHandler (HJob j)) s''.
Proof. exact (a2_exec f (gen_agrees2 f) X j t s s'). Qed.

(* the entry points of the closed system *)
Definition gen2_run_jobs (fuel : nat) (s : st) : M := r_run_jobs (knot2 fuel) s.
Definition gen2_set_enabled (fuel : nat) (b : bool) (s : st) : M := g_set_enabled (knot2 fuel) b s.

Theorem gen2_wake_is_model fuel hs s s' w :
  Inv s -> timer s = Some w -> w <= now s -> step_op E fuel hs s OWake = (s', Done) ->
  gen2_run_jobs fuel s = Some (s', Ret).
Proof.
  intros I Ht Hw H. cbn [step_op] in H. rewrite Ht in H. replace (w <=? now s) with true in H by lia.
  unfold lift in H. destruct (run_jobs E fuel s) as [s1|] eqn:Er; [|discriminate]. injection H as <-.
  destruct (gen_agrees2 fuel) as (_ & Ar & _).
  exact (Ar [] _ _ (proj1 I) (Inv_enabled_of_timer _ _ I Ht) Er).
Qed.

Theorem gen2_early_wake_is_model fuel hs s s' w :
  Inv s -> timer s = Some w -> step_op E fuel hs s OEarlyWake = (s', Done) ->
  gen2_run_jobs fuel s = Some (s', Ret).
Proof.
  intros I Ht H. cbn [step_op] in H. rewrite Ht in H.
  unfold lift in H. destruct (run_jobs E fuel s) as [s1|] eqn:Er; [|discriminate]. injection H as <-.
  destruct (gen_agrees2 fuel) as (_ & Ar & _).
  exact (Ar [] _ _ (proj1 I) (Inv_enabled_of_timer _ _ I Ht) Er).
Qed.

Theorem gen2_enable_is_model fuel hs s b s' :
  Inv s -> step_op E fuel hs s (OEnable b) = (s', Done) -> gen2_set_enabled fuel b s = Some (s', Ret).
Proof.
  intros I H. cbn [step_op] in H. unfold gen2_set_enabled, g_set_enabled. cbv zeta.
  destruct (Bool.eqb b (enabled s)); [injection H as <-; reflexivity|].
  unfold lift in H. destruct (set_timer E fuel (set_enabled_f b s)) as [s1|] eqn:Et; [|discriminate].
  injection H as <-.
  assert (W1 : WFq [] (set_enabled_f b s)).
  { eapply WFq_view; [|exact (proj1 I)]. apply fields_view; reflexivity. }
  destruct (gen_agrees2 fuel) as (At & _). rewrite (At [] _ _ W1 Et). reflexivity.
Qed.

(* ------------------------------------------------------------------------------------------- *)
(* 3. the API operations.  The job methods get the generated scheduler (closed with the generated execute) as
   their `_scheduler`. *)
Definition JR (fuel : nat) : jrec := jrec_of (knot2 fuel).
Definition gen_job_finish (fuel j : nat) (s : st) : MJ := g_job_finish E (JR fuel) j s.
Definition gen_job_pause (fuel j : nat) (s : st) : MJ := g_job_pause E (JR fuel) j s.
Definition gen_job_resume (fuel j : nat) (s : st) : MJ := g_job_resume E (JR fuel) j s.
Definition gen_reset (fuel j : nat) (s : st) : MJ := g_reset E (JR fuel) j s.
Definition gen_set_countdown (fuel j : nat) (secs : Z) (s : st) : MJ := g_set_countdown E (JR fuel) j secs s.
Definition gen_link_scheduler (fuel j : nat) (s : st) : MJ := g_link_scheduler E (JR fuel) j s.

(* outcome of the model <-> result of the generated method *)
Definition ret_of (r : outcome) (s' : st) : MJ :=
  match r with
  | Done => Some (s', JRet)
  | Raised e => Some (s', JExc (JErr e))
  | NoFuel => None
  end.

(* a job that exists and is not finished is linked to the scheduler (in particular: a Paused job is linked).
   Reachable: [LiveLinked_run] below. *)
Definition LiveLinked (s : st) : Prop :=
  forall j, (j < njobs s)%nat -> jstatus (jobs s j) <> Finished -> jlinked (jobs s j) = true.

Lemma not_fin s j : is_finished s j = false -> jstatus (jobs s j) <> Finished.
Proof. unfold is_finished. intros H Hc. rewrite Hc in H. discriminate. Qed.

Lemma snr_linked j nx s k : jlinked (jobs (set_next_run E j nx s) k) = jlinked (jobs s k).
Proof.
  destruct (set_next_run_props E j nx s) as (_ & _ & _ & _ & _ & _ & _ & _ & q9). rewrite q9. unfold upd.
  destruct (Nat.eqb_spec k j) as [->|]; reflexivity.
Qed.

Lemma gen2_remove_inv fuel j s s1 :
  Inv s -> remove_job E fuel j s = Some s1 -> r_remove_job (knot2 fuel) j s = Some (s1, Ret).
Proof.
  intros (W & _) ER.
  assert (Wr : WFq [j] (set_queue (remove_first j (queue s)) s)) by (apply WFq_remove; [exact W|intros []]).
  destruct (gen_agrees2 fuel) as (_ & _ & _ & _ & Am & _). exact (Am [] j s s1 Wr ER).
Qed.

(* set_next_run (Some v) on a linked job, then update_job (reset / resume): cf. SchedApi.retime_inv *)
Lemma gen2_retime fuel j v s s' :
  Inv s -> jlinked (jobs s j) = true ->
  update_job E fuel j (set_next_run E j (Some v) s) = Some s' ->
  g_update_job (knot2 fuel) j (set_next_run E j (Some v) s) = Some (s', Ret).
Proof.
  intros (W & T) Hlk H. unfold update_job in H. unfold g_update_job. cbv zeta.
  destruct (set_next_run_props E j (Some v) s) as (q1 & q2 & q3 & q4 & q5 & q6 & q7 & q8 & q9).
  remember (set_next_run E j (Some v) s) as s2 eqn:Es2.
  destruct (remove_job E fuel j s2) as [s3|] eqn:ER; [|discriminate].
  destruct (core_specs_all E fuel) as (_ & _ & _ & _ & Hrm & _).
  set (b := with_status_next (jobs s j) Running (Some v)) in *.
  assert (Wr0 : WFq [j] (set_queue (remove_first j (queue s)) s)) by (apply WFq_remove; [exact W|intros []]).
  assert (Hnq0 : ~ In j (remove_first j (queue s))) by (apply remove_first_NoDup_notin; apply (wf_nodup _ _ W)).
  assert (Wb : WFq [j] (set_job j b (set_queue (remove_first j (queue s)) s))).
  { apply WFq_set_job_out; [exact Wr0|exact Hnq0| |intros _; cbn; apply (wf_rn _ _ W); exact Hlk].
    subst b. split; [|split]; cbn; [split; congruence|intros _; exact Hlk|congruence]. }
  assert (Wr : WFq [j] (set_queue (remove_first j (queue s2)) s2)).
  { eapply WFq_view; [|exact Wb]. apply fields_view; cbn [queue jobs njobs broken set_job set_jobs set_queue]; congruence. }
  destruct (Hrm [] j s2 s3 Wr ER) as (W3 & _).
  pose proof (notin_q_of_X _ _ _ W3) as Hnq3.
  destruct (gen_agrees2 fuel) as (_ & _ & _ & Aa & Am & _).
  rewrite (Am [] j s2 s3 Wr ER), (Aa [] j s3 s' W3 Hnq3 (fun x => x) H). reflexivity.
Qed.

(* set_next_run on a linked job that is not queued, then add_job (creation): cf. SchedApi.arm_inv *)
Lemma gen2_arm fuel j nx s s' :
  Inv s -> ~ In j (queue s) -> jlinked (jobs s j) = true ->
  add_job E fuel j (set_next_run E j nx s) = Some s' ->
  r_add_job (knot2 fuel) j (set_next_run E j nx s) = Some (s', Ret).
Proof.
  intros (W & T) Hnq Hlk H.
  destruct (set_next_run_props E j nx s) as (q1 & q2 & q3 & q4 & q5 & q6 & q7 & q8 & q9).
  remember (set_next_run E j nx s) as s2 eqn:Es2.
  set (b := with_status_next (jobs s j) (match nx with None => Paused | Some _ => Running end) nx) in *.
  assert (Wb : WFq [j] (set_job j b s)).
  { apply WFq_set_job_out; [apply WFq_weaken; assumption|exact Hnq| |intros _; cbn; apply (wf_rn _ _ W); exact Hlk].
    subst b. destruct nx; (split; [|split]); cbn; try (split; congruence); try congruence; intros _; exact Hlk. }
  assert (W2 : WFq [j] s2).
  { eapply WFq_view; [|exact Wb]. apply fields_view; cbn [queue jobs njobs broken set_job set_jobs]; congruence. }
  assert (Hnq2 : ~ In j (queue s2)) by (rewrite q1; exact Hnq).
  destruct (gen_agrees2 fuel) as (_ & _ & _ & Aa & _). exact (Aa [] j s2 s' W2 Hnq2 (fun x => x) H).
Qed.

(* cancel() = JobBase.job_finish *)
Theorem gen_cancel_is_model fuel hs s j s' r :
  Inv s -> LiveLinked s -> (j < njobs s)%nat ->
  step_op E fuel hs s (OCancel j) = (s', r) -> r <> NoFuel -> gen_job_finish fuel j s = ret_of r s'.
Proof.
  intros I L Hj H Hr. cbn [step_op] in H. unfold gen_job_finish.
  destruct (is_finished s j) eqn:Ef.
  - injection H as <- <-. unfold g_job_finish, g_JobBase_job_finish. cbv zeta.
    unfold is_finished in Ef. unfold status_is. rewrite Ef. reflexivity.
  - pose proof (not_fin _ _ Ef) as Hnf.
    rewrite (gen_job_finish_open (JR fuel) j s Hnf (L j Hj Hnf)). unfold finish_open. cbn [jr_remove_job jrec_of JR].
    unfold lift in H. rewrite job_finish_eq in H.
    destruct (remove_job E fuel j s) as [s1|] eqn:ER; injection H as <- <-; [|congruence].
    rewrite (gen2_remove_inv _ _ _ _ I ER). reflexivity.
Qed.

(* pause() / stop() = JobBase.job_pause, for the classes that have it *)
Theorem gen_pause_is_model fuel hs s j s' r :
  Inv s -> LiveLinked s -> (j < njobs s)%nat -> jkind (jobs s j) <> KOnce ->
  step_op E fuel hs s (OPause j) = (s', r) -> r <> NoFuel -> gen_job_pause fuel j s = ret_of r s'.
Proof.
  intros I L Hj Hk H Hr. cbn [step_op] in H. unfold gen_job_pause.
  assert (Hd : g_job_pause E (JR fuel) j s = g_JobBase_job_pause E (JR fuel) j s).
  { unfold g_job_pause. destruct (jkind (jobs s j)); [congruence|reflexivity|reflexivity]. }
  rewrite Hd. unfold g_JobBase_job_pause. cbv zeta.
  destruct (is_finished s j) eqn:Ef.
  - injection H as <- <-. unfold is_finished in Ef. unfold status_is. rewrite Ef. reflexivity.
  - pose proof (not_fin _ _ Ef) as Hnf. rewrite (status_is_false _ _ _ Hnf), (L j Hj Hnf).
    cbn [jr_remove_job jrec_of JR].
    destruct (remove_job E fuel j s) as [s1|] eqn:ER; injection H as <- <-; [|congruence].
    rewrite (gen2_remove_inv _ _ _ _ I ER). rewrite gen_set_next_run_is_model. reflexivity.
Qed.

(* where the model is coarser: OneTimeJob overrides job_pause / job_resume, CountdownJob overrides job_resume
   (NotImplementedError, nothing changes); the model's OPause / OResume do not look at the class *)
Theorem gen_pause_once fuel j s : jkind (jobs s j) = KOnce -> gen_job_pause fuel j s = Some (s, JExc JNotImplemented).
Proof. intros Hk. unfold gen_job_pause, g_job_pause. rewrite Hk. reflexivity. Qed.
Theorem gen_resume_not_datetime fuel j s :
  jkind (jobs s j) <> KAt -> gen_job_resume fuel j s = Some (s, JExc JNotImplemented).
Proof. intros Hk. unfold gen_job_resume, g_job_resume. destruct (jkind (jobs s j)); [reflexivity|reflexivity|congruence]. Qed.

(* resume() = JobBase.job_resume of a DateTimeJob *)
Theorem gen_resume_is_model fuel hs s j s' r :
  Inv s -> jkind (jobs s j) = KAt ->
  step_op E fuel hs s (OResume j) = (s', r) -> r <> NoFuel -> gen_job_resume fuel j s = ret_of r s'.
Proof.
  intros I Hk H Hr. cbn [step_op] in H. unfold gen_job_resume, g_job_resume. rewrite Hk.
  unfold g_JobBase_job_resume. cbv zeta.
  destruct (is_finished s j) eqn:Ef.
  - injection H as <- <-. unfold is_finished in Ef. unfold status_is. rewrite Ef. reflexivity.
  - pose proof (not_fin _ _ Ef) as Hnf. rewrite (status_is_false _ _ _ Hnf).
    unfold g_update_next. rewrite Hk. unfold g_DateTimeJob_update_next. cbv zeta.
    destruct (jlinked (jobs s j)) eqn:Hlk; cbn [negb] in H |- *; [|injection H as <- <-; reflexivity].
    unfold get_next. cbv zeta. cbn [now add_ev set_log].
    cbv zeta in H.
    destruct (prod E j (count_prod j (log s)) (now s)) as [v|e|]; [|injection H as <- <-; reflexivity|injection H as <- <-; congruence].
    rewrite gen_set_next_run_is_model.
    destruct (too_old (add_ev (EProd j) s) v); [injection H as <- <-; reflexivity|].
    rewrite snr_linked. cbn [jobs add_ev set_log]. rewrite Hlk. cbn [jr_update_job jrec_of JR].
    unfold lift in H.
    destruct (update_job E fuel j (set_next_run E j (Some v) (add_ev (EProd j) s))) as [s3|] eqn:EU;
      injection H as <- <-; [|congruence].
    rewrite (gen2_retime fuel j v (add_ev (EProd j) s) s3 (Inv_add_ev _ _ I) Hlk EU). reflexivity.
Qed.

(* reset() of a CountdownJob.  The file tests the new run time against the clock (set_next_run); the model does not,
   because a countdown is positive (SchedExact3.SecsPos, an invariant of every history: exact_step_op). *)
Theorem gen_reset_is_model fuel hs s j s' r :
  Inv s -> jkind (jobs s j) = KCountdown -> 0 <= jsecs (jobs s j) ->
  step_op E fuel hs s (OReset j) = (s', r) -> r <> NoFuel -> gen_reset fuel j s = ret_of r s'.
Proof.
  intros I Hk Hsecs H Hr. cbn [step_op] in H. unfold gen_reset, g_reset. rewrite Hk.
  unfold g_CountdownJob_reset. cbv zeta.
  destruct (jlinked (jobs s j)) eqn:Hlk; cbn [negb] in H |- *; [|injection H as <- <-; reflexivity].
  rewrite gen_set_next_run_is_model.
  assert (Hto : too_old s (now s + jsecs (jobs s j)) = false).
  { unfold too_old. apply Z.ltb_ge. unfold past_tolerance_ns. lia. }
  rewrite Hto. cbn [jr_update_job jrec_of JR]. cbv zeta in H. unfold lift in H.
  destruct (update_job E fuel j (set_next_run E j (Some (now s + jsecs (jobs s j))) s)) as [s3|] eqn:EU;
    injection H as <- <-; [|congruence].
  rewrite (gen2_retime fuel j _ s s3 I Hlk EU). reflexivity.
Qed.

(* countdown(secs) = CountdownJob.set_countdown; no invariant needed *)
Theorem gen_set_countdown_is_model fuel hs s j secs s' r :
  jkind (jobs s j) = KCountdown ->
  step_op E fuel hs s (OSetCountdown j secs) = (s', r) -> gen_set_countdown fuel j secs s = ret_of r s'.
Proof.
  intros Hk H. cbn [step_op] in H. unfold gen_set_countdown, g_set_countdown. rewrite Hk.
  unfold g_CountdownJob_set_countdown. cbv zeta. unfold is_finished in H. unfold status_is. cbn [negb].
  destruct (status_eqb (jstatus (jobs s j)) Finished); [injection H as <- <-; reflexivity|].
  destruct (secs <=? 0); injection H as <- <-; reflexivity.
Qed.

(* ------------------------------------------------------------------------------------------- *)
(* 4. link_scheduler (+ update_first of the job's class) against the `first` / add_job part of Sched.create
   (SchedTrace.create_first; create_rest on Done is add_job).  [s1] is the state right after the store
   `self._scheduler = scheduler`; in Sched.create this is [alloc hs b s0] (for which SchedTrace.alloc_inv gives Inv and
   SchedApi.fresh_not_queued the second hypothesis).  The two are the same state up to the ORDER of the stores into
   slot j (alloc writes the linked record at once, the file creates the object and links it later), which the
   function-valued job table distinguishes syntactically - hence the statement about [s1] rather than about alloc
   ([link_after_alloc0], [link_hyps_at_creation] below make the correspondence precise).
   What JobBuilder._add does when linking fails (finish the job again) is not part of link_scheduler. *)
Theorem gen_link_is_create_first fuel j s :
  let s1 := set_job j (with_linked (jobs s j) true) s in
  jlinked (jobs s j) = false -> Inv s1 -> ~ In j (queue s1) ->
  match create_first E j (jobs s1 j) s1 with
  | (s2, Done) => forall s3, add_job E fuel j s2 = Some s3 -> gen_link_scheduler fuel j s = Some (s3, JRet)
  | (s2, Raised e) => gen_link_scheduler fuel j s = Some (s2, JExc (JErr e))
  | (s2, NoFuel) => gen_link_scheduler fuel j s = None
  end.
Proof.
  intros s1 Hul I1 Hnq1.
  unfold gen_link_scheduler, g_link_scheduler, g_JobBase_link_scheduler. cbv zeta. rewrite Hul.
  fold s1.
  assert (Hlk1 : jlinked (jobs s1 j) = true) by (unfold s1; rewrite jobs_upd_same; reflexivity).
  clearbody s1.
  assert (Harm : forall sx nx s3, Inv sx -> ~ In j (queue sx) -> jlinked (jobs sx j) = true ->
            add_job E fuel j (set_next_run E j nx sx) = Some s3 ->
            (if jlinked (jobs (set_next_run E j nx sx) j)
             then match jr_add_job (JR fuel) j (set_next_run E j nx sx) with
                  | None => None
                  | Some (s4, r) => match r with Ret => Some (s4, JRet) | Exc e => Some (s4, JExc (JSched e)) end
                  end
             else Some (set_next_run E j nx sx, JExc JAttribute)) = Some (s3, JRet)).
  { intros sx nx s3 Ix Hq Hl Ha. rewrite snr_linked, Hl. cbn [jr_add_job jrec_of JR].
    rewrite (gen2_arm fuel j nx sx s3 Ix Hq Hl Ha). reflexivity. }
  unfold create_first, g_update_first.
  destruct (jkind (jobs s1 j)) eqn:Ek.
  - unfold g_OneTimeJob_update_first. cbv zeta. rewrite Hlk1. cbn [negb]. rewrite gen_set_next_run_is_model.
    destruct (too_old s1 (jexec_t (jobs s1 j))); [reflexivity|].
    intros s3 Ha. apply Harm; assumption.
  - unfold g_JobBase_update_first, g_update_next. cbv zeta. rewrite Ek.
    unfold g_CountdownJob_update_next. cbv zeta. rewrite gen_set_next_run_is_model.
    intros s3 Ha. apply Harm; assumption.
  - unfold g_JobBase_update_first, g_update_next. cbv zeta. rewrite Ek.
    unfold g_DateTimeJob_update_next. cbv zeta. rewrite Hlk1. cbn [negb]. unfold get_next. cbv zeta.
    cbn [now add_ev set_log].
    destruct (prod E j (count_prod j (log s1)) (now s1)) as [v|e|]; [|reflexivity|reflexivity].
    rewrite gen_set_next_run_is_model.
    destruct (too_old (add_ev (EProd j) s1) v); [reflexivity|].
    intros s3 Ha. apply Harm; [apply Inv_add_ev; exact I1|exact Hnq1|exact Hlk1|exact Ha].
Qed.

(* a job that is already linked: link_scheduler(scheduler) returns at once (there is one scheduler) *)
Theorem gen_link_linked fuel j s : jlinked (jobs s j) = true -> gen_link_scheduler fuel j s = Some (s, JRet).
Proof. intros H. unfold gen_link_scheduler, g_link_scheduler, g_JobBase_link_scheduler. cbv zeta. rewrite H. reflexivity. Qed.

(* ------------------------------------------------------------------------------------------- *)
(* 5. JobBase.__lt__ is the comparison bisect.insort uses in the model *)
Theorem gen_lt_is_job_lt s a b : g_JobBase_lt a b s = job_lt s a b.
Proof. reflexivity. Qed.

(* ------------------------------------------------------------------------------------------- *)
(* [LiveLinked] holds in every reachable state *)
Lemma LiveLinked_atom U c HS a b : atom E U c HS a b -> LiveLinked a -> LiveLinked b.
Proof.
  intros At L. destruct At as [s s' e1 e2 e3 e4|e s He|j nx s Ht Hnf|j s Ht Hnf|j v s Ht|j cb s Ht Hm|j cb s Ht
                              |j cb s Hc Ht Hm|j cb s Hc Ht|hs b s Hhs b1 b2 b3 b4 b5].
  - intros k. rewrite e1, e2. apply L.
  - exact L.
  - intros k Hk Hs. rewrite snr_linked.
    destruct (set_next_run_props E j nx s) as (_ & _ & _ & _ & q5 & _ & _ & _ & q9). rewrite q5 in Hk.
    destruct (Nat.eq_dec k j) as [->|Hne]; [apply L; assumption|].
    apply L; [exact Hk|]. rewrite q9 in Hs. unfold upd in Hs. apply Nat.eqb_neq in Hne. rewrite Hne in Hs. exact Hs.
  - intros k Hk Hs.
    destruct (finish_job_props E j s) as (_ & _ & _ & _ & q5 & _ & _ & q8). rewrite q5 in Hk. rewrite q8 in Hs |- *.
    unfold upd in Hs |- *. destruct (Nat.eqb k j); [cbn in Hs; congruence|apply L; assumption].
  - intros k Hk Hs. cbn [jobs njobs set_job set_jobs] in Hk, Hs |- *. unfold upd in Hs |- *.
    destruct (Nat.eqb_spec k j) as [->|]; [cbn in Hs |- *|]; apply L; assumption.
  - intros k Hk Hs. cbn [jobs njobs set_job set_jobs] in Hk, Hs |- *. unfold upd in Hs |- *.
    destruct (Nat.eqb_spec k j) as [->|]; [cbn in Hs |- *|]; apply L; assumption.
  - intros k Hk Hs. cbn [jobs njobs set_job set_jobs] in Hk, Hs |- *. unfold upd in Hs |- *.
    destruct (Nat.eqb_spec k j) as [->|]; [cbn in Hs |- *|]; apply L; assumption.
  - intros k Hk Hs. cbn [jobs njobs set_job set_jobs] in Hk, Hs |- *. unfold upd in Hs |- *.
    destruct (Nat.eqb_spec k j) as [->|]; [cbn in Hs |- *|]; apply L; assumption.
  - intros k Hk Hs. cbn [jobs njobs set_job set_jobs] in Hk, Hs |- *. unfold upd in Hs |- *.
    destruct (Nat.eqb_spec k j) as [->|]; [cbn in Hs |- *|]; apply L; assumption.
  - intros k Hk Hs. destruct (alloc_fields hs b s) as (_ & a2 & a3 & _). rewrite a3 in Hk. rewrite a2 in Hs |- *.
    unfold upd in Hs |- *. destruct (Nat.eqb_spec k (njobs s)) as [->|Hne]; [reflexivity|].
    apply L; [lia|exact Hs].
Qed.

Theorem LiveLinked_run fuel hs ops s s' rs :
  Inv s -> LiveLinked s -> run E fuel hs s ops = (s', rs) -> ~ In NoFuel rs -> LiveLinked s'.
Proof.
  intros I L H Hr.
  eapply (run_preserves E (fun _ => True) true (fun _ => True) LiveLinked);
    [apply LiveLinked_atom|exact Logic.I|exact I|exact L|apply ops_ok_any|exact H|exact Hr].
Qed.

Theorem LiveLinked_reachable fuel hs t0 en ops s rs :
  run E fuel hs (init t0 en) ops = (s, rs) -> ~ In NoFuel rs -> LiveLinked s /\ Inv s.
Proof.
  intros H Hr. split.
  - eapply LiveLinked_run; [apply Inv_init| |exact H|exact Hr]. intros j Hj. cbn in Hj. lia.
  - eapply run_inv; [apply Inv_init|exact H|exact Hr].
Qed.

End Eq.

(* ------------------------------------------------------------------------------------------- *)
(* 4b. the hypotheses of [gen_link_is_create_first] hold at every creation.  [alloc0] is the state in which
   JobBuilder._add calls link_scheduler: the job object exists in slot njobs (and in the store, when there is one)
   but is not linked yet.  After the store `self._scheduler = scheduler` this is SchedTrace.alloc - field by field,
   and job by job. *)
Definition alloc0 (hs : bool) (b : job) (s : st) : st :=
  let j := njobs s in
  let b1 := with_stored b hs in
  let s1 := set_njobs (S j) (set_job j b1 s) in
  if hs then set_store ((jkey b1, j) :: store s1) s1 else s1.

Lemma link_after_alloc0 hs b s :
  let j := njobs s in
  let s0 := alloc0 hs b s in
  let s1 := set_job j (with_linked (jobs s0 j) true) s0 in
  (forall k, jobs s1 k = jobs (alloc hs b s) k) /\
  (now s1, enabled s1, timer s1, queue s1, njobs s1, store s1, log s1, opi s1, broken s1) =
  (now (alloc hs b s), enabled (alloc hs b s), timer (alloc hs b s), queue (alloc hs b s), njobs (alloc hs b s),
   store (alloc hs b s), log (alloc hs b s), opi (alloc hs b s), broken (alloc hs b s)).
Proof.
  unfold alloc0, alloc. destruct hs; (split; [|reflexivity]); intros k;
    cbn [jobs set_job set_jobs set_njobs set_store]; unfold upd; destruct (Nat.eqb k (njobs s)) eqn:Ek;
    try reflexivity; rewrite Nat.eqb_refl; reflexivity.
Qed.

Theorem link_hyps_at_creation hs b s :
  Inv s -> jstatus b = Created -> jnext b = None -> jlinked b = false ->
  let j := njobs s in
  let s0 := alloc0 hs b s in
  let s1 := set_job j (with_linked (jobs s0 j) true) s0 in
  jlinked (jobs s0 j) = false /\ Inv s1 /\ ~ In j (queue s1).
Proof.
  intros I Hbs Hbn Hbl j s0 s1.
  destruct (link_after_alloc0 hs b s) as (Hj & Hf). fold j s0 s1 in Hj, Hf.
  pose proof (alloc_inv (fun _ => True) (fun _ => True) hs b s I Hbs Hbn) as (Wa & Ta).
  injection Hf as f1 f2 f3 f4 f5 f6 f7 f8 f9.
  destruct (alloc_fields hs b s) as (a1 & _).
  assert (g2 : enabled s1 = enabled (alloc hs b s)) by exact f2.
  assert (g3 : timer s1 = timer (alloc hs b s)) by exact f3.
  assert (g4 : queue s1 = queue (alloc hs b s)) by exact f4.
  assert (g5 : njobs s1 = njobs (alloc hs b s)) by exact f5.
  assert (g9 : broken s1 = broken (alloc hs b s)) by exact f9.
  split; [|split; [split|]].
  - unfold s0, alloc0, j. destruct hs; cbn [jobs set_job set_jobs set_njobs set_store]; unfold upd;
      rewrite Nat.eqb_refl; exact Hbl.
  - eapply WFq_view; [|exact Wa]. split; [exact g4|]. split; [intros k; rewrite Hj; repeat split|]. split; assumption.
  - unfold TimerOK in Ta |- *. rewrite g4, g2, g3. unfold nxt in *. destruct (queue (alloc hs b s)); [exact Ta|].
    rewrite Hj. exact Ta.
  - rewrite g4, a1. apply fresh_not_queued. exact (proj1 I).
Qed.

(* ------------------------------------------------------------------------------------------- *)
(* 6. JobCallbackHandler.register / remove against ORegister / OUnregister *)
Definition cbs_of (w : cbwhich) (b : job) : list nat := match w with CbUpd => jcbu b | CbFin => jcbf b end.

Lemma cbk_memb_map cb l : cbk_memb (CbUser cb) (map CbUser l) = memb cb l.
Proof. unfold cbk_memb. induction l as [|x t IH]; [reflexivity|]. cbn [map existsb memb cbk_eqb]. rewrite IH. reflexivity. Qed.

Lemma cbk_memb_callbacks w b cb : cbk_memb (CbUser cb) (callbacks w b) = memb cb (cbs_of w b).
Proof.
  destruct w; cbn [callbacks cbs_of]; [apply cbk_memb_map|].
  destruct (jstored b); cbn [app]; [|apply cbk_memb_map]. unfold cbk_memb. cbn [existsb cbk_eqb orb]. apply cbk_memb_map.
Qed.

Lemma users_map l : users (map CbUser l) = l.
Proof. unfold users. induction l as [|x t IH]; [reflexivity|]. cbn [map flat_map app]. rewrite IH. reflexivity. Qed.

Lemma users_app a b : users (a ++ b) = users a ++ users b.
Proof. apply flat_map_app. Qed.

Lemma users_callbacks w b : users (callbacks w b) = cbs_of w b.
Proof.
  destruct w; cbn [callbacks cbs_of]; [apply users_map|].
  destruct (jstored b); cbn [app]; [|apply users_map]. unfold users. cbn [flat_map app]. apply users_map.
Qed.

Lemma store_memb_map l : cbk_memb CbStore (map CbUser l) = false.
Proof. unfold cbk_memb. induction l as [|x t IH]; [reflexivity|]. cbn [map existsb cbk_eqb orb]. exact IH. Qed.

Lemma store_memb_callbacks b : cbk_memb CbStore (callbacks CbFin b) = jstored b.
Proof.
  cbn [callbacks]. destruct (jstored b); cbn [app]; [reflexivity|apply store_memb_map].
Qed.

Lemma cbk_memb_app x a b : cbk_memb x (a ++ b) = (cbk_memb x a || cbk_memb x b)%bool.
Proof. apply existsb_app. Qed.

Lemma users_filter cb l :
  users (filter (fun c => negb (cbk_eqb c (CbUser cb))) (map CbUser l)) = filter (fun c => negb (Nat.eqb c cb)) l.
Proof.
  unfold users. induction l as [|x t IH]; [reflexivity|]. cbn [map filter cbk_eqb].
  destruct (negb (Nat.eqb x cb)); [cbn [flat_map app]; rewrite IH; reflexivity|exact IH].
Qed.

Lemma store_memb_filter cb l : cbk_memb CbStore (filter (fun c => negb (cbk_eqb c (CbUser cb))) (map CbUser l)) = false.
Proof.
  unfold cbk_memb. induction l as [|x t IH]; [reflexivity|]. cbn [map filter cbk_eqb].
  destruct (negb (Nat.eqb x cb)); [cbn [existsb cbk_eqb orb]; exact IH|exact IH].
Qed.

(* register(cb) on the handler w of job j is ORegister j w cb: same state, for every state *)
Theorem gen_register_is_model E fuel hs s j w cb s' r :
  step_op E fuel hs s (ORegister j w cb) = (s', r) -> g_JobCallbackHandler_register w j (CbUser cb) s = ret_of r s'.
Proof.
  intros H. cbn [step_op] in H. unfold g_JobCallbackHandler_register. cbv zeta. rewrite cbk_memb_callbacks.
  destruct w; cbn [cbs_of].
  - destruct (memb cb (jcbu (jobs s j))); injection H as <- <-; [reflexivity|].
    unfold set_callbacks. rewrite users_app, users_callbacks. reflexivity.
  - destruct (memb cb (jcbf (jobs s j))); injection H as <- <-; [reflexivity|].
    unfold set_callbacks. rewrite users_app, users_callbacks, cbk_memb_app, store_memb_callbacks.
    cbn [cbk_memb existsb cbk_eqb orb cbs_of users flat_map app]. rewrite Bool.orb_false_r. reflexivity.
Qed.

(* remove(cb) of a callback that is registered is OUnregister j w cb: same state *)
Theorem gen_unregister_is_model E fuel hs s j w cb s' r :
  memb cb (cbs_of w (jobs s j)) = true ->
  step_op E fuel hs s (OUnregister j w cb) = (s', r) -> g_JobCallbackHandler_remove w j (CbUser cb) s = ret_of r s'.
Proof.
  intros Hm H. cbn [step_op] in H. unfold g_JobCallbackHandler_remove. cbv zeta. rewrite cbk_memb_callbacks, Hm.
  cbn [negb]. destruct w; cbn [cbs_of] in *; injection H as <- <-; unfold set_callbacks, ret_of.
  - cbn [callbacks]. rewrite users_filter. reflexivity.
  - cbn [callbacks]. destruct (jstored (jobs s j)) eqn:Es; cbn [app filter cbk_eqb negb].
    + cbn [users flat_map app cbk_memb existsb cbk_eqb orb]. rewrite users_filter. rewrite <- Es. reflexivity.
    + rewrite users_filter, store_memb_filter. rewrite <- Es. reflexivity.
Qed.

(* remove(cb) of a callback that is NOT registered: the file returns False and changes nothing; the model writes the
   unchanged list back, which is the same state up to the (function-valued) job table being rewritten pointwise *)
Lemma filter_absent cb l : memb cb l = false -> filter (fun c => negb (Nat.eqb c cb)) l = l.
Proof.
  induction l as [|x t IH]; [reflexivity|]. cbn [memb filter]. intros H. apply Bool.orb_false_elim in H as (H1 & H2).
  rewrite Nat.eqb_sym, H1. cbn [negb]. rewrite (IH H2). reflexivity.
Qed.

Theorem gen_unregister_absent E fuel hs s j w cb :
  memb cb (cbs_of w (jobs s j)) = false ->
  g_JobCallbackHandler_remove w j (CbUser cb) s = Some (s, JRet) /\
  (let s' := fst (step_op E fuel hs s (OUnregister j w cb)) in
   snd (step_op E fuel hs s (OUnregister j w cb)) = Done /\
   (forall k, jobs s' k = jobs s k) /\
   (now s', enabled s', timer s', queue s', njobs s', store s', log s', opi s', broken s') =
   (now s, enabled s, timer s, queue s, njobs s, store s, log s, opi s, broken s)).
Proof.
  intros Hm. split.
  - unfold g_JobCallbackHandler_remove. cbv zeta. rewrite cbk_memb_callbacks, Hm. reflexivity.
  - cbn [step_op]. destruct w; cbn [cbs_of fst snd] in *; (split; [reflexivity|split; [|reflexivity]]);
      intros k; cbn [jobs set_job set_jobs]; unfold upd; destruct (Nat.eqb_spec k j) as [->|]; try reflexivity;
      rewrite (filter_absent _ _ Hm); destruct (jobs s j); reflexivity.
Qed.

(* clear() empties the handler - on on_finished that includes the store's callback *)
Theorem gen_clear_spec w j s :
  exists s', g_JobCallbackHandler_clear w j s = Some (s', JRet) /\ callbacks w (jobs s' j) = [].
Proof.
  unfold g_JobCallbackHandler_clear. cbv zeta. eexists. split; [reflexivity|].
  destruct w; unfold set_callbacks; rewrite jobs_upd_same; reflexivity.
Qed.

(* ------------------------------------------------------------------------------------------- *)
(* The hypotheses are satisfiable and the statements say something on a concrete history with a store: a one-shot
   job, a countdown job whose callable raises and which has a raising on_update callback, a recurring job; the
   countdown is started, the clock passes the first two run times. *)
Definition jx_env : env :=
  {| prod := fun _ _ t => Ok (t + 1000000000); fail_exec := fun j _ => Nat.eqb j 1; fail_cb := fun cb _ => Nat.eqb cb 7 |}.

Definition jx_ops : list op :=
  [OOnce 5000000000 11; OCountdown 3000000000 12; OAt 13; ORegister 1 CbUpd 7; ORegister 0 CbFin 8; OReset 1;
   OAdvance 5000000000].

Definition jx_state : st := fst (run jx_env 40 true (init 0 true) jx_ops).

Definition jx_is_nofuel (r : outcome) : bool := match r with NoFuel => true | _ => false end.

Definition jx_obs (s : st) :=
  (queue s, timer s, log s, store s,
   map (fun j => (jstatus (jobs s j), jnext (jobs s j), jlinked (jobs s j), jsecs (jobs s j))) (seq 0 (njobs s))).

Definition jx_obs_M (m : M) := match m with Some (s, r) => Some (jx_obs s, r) | None => None end.
Definition jx_obs_MJ (m : MJ) := match m with Some (s, r) => Some (jx_obs s, r) | None => None end.
Definition jx_obs_step (p : st * outcome) := (jx_obs (fst p), snd p).

Example jx_reachable : LiveLinked jx_state /\ Inv jx_state.
Proof.
  unfold jx_state. destruct (run jx_env 40 true (init 0 true) jx_ops) as (s, rs) eqn:H. cbn [fst].
  eapply LiveLinked_reachable; [exact H|].
  assert (Hn : existsb jx_is_nofuel rs = false).
  { replace rs with (snd (run jx_env 40 true (init 0 true) jx_ops)) by (rewrite H; reflexivity). vm_compute. reflexivity. }
  intros Hin. assert (Ht : existsb jx_is_nofuel rs = true) by (apply existsb_exists; exists NoFuel; split; [exact Hin|reflexivity]).
  congruence.
Qed.

(* the wake-up: all three jobs are due; the generated scheduler with the generated execute and the model agree,
   and something happens (three starts, one handled failure of the callable, the raising callback, the one-shot
   job leaves the store) *)
(* the wake-up: all three jobs are due; the generated scheduler with the generated execute and the model agree,
   and something happens (three starts, one handled failure of the callable, the raising callback, the one-shot
   job finishes and leaves the store) *)
Example jx_wake :
  jx_obs_M (gen2_run_jobs jx_env 40 jx_state) = Some (jx_obs (fst (step_op jx_env 40 true jx_state OWake)), Ret) /\
  snd (step_op jx_env 40 true jx_state OWake) = Done /\
  length (log (fst (step_op jx_env 40 true jx_state OWake))) = (length (log jx_state) + 8)%nat.
Proof. vm_compute. repeat split. Qed.

(* API operations on the same state: generated method = model, outcome by outcome *)
Example jx_api :
  jx_obs_MJ (gen_job_pause jx_env 40 2 jx_state) = jx_obs_MJ (ret_of (snd (step_op jx_env 40 true jx_state (OPause 2)))
                                                              (fst (step_op jx_env 40 true jx_state (OPause 2)))) /\
  jx_obs_MJ (gen_job_finish jx_env 40 0 jx_state) = jx_obs_MJ (ret_of (snd (step_op jx_env 40 true jx_state (OCancel 0)))
                                                               (fst (step_op jx_env 40 true jx_state (OCancel 0)))) /\
  snd (step_op jx_env 40 true jx_state (OCancel 0)) = Done /\
  jx_obs_MJ (gen_reset jx_env 40 1 jx_state) = jx_obs_MJ (ret_of (snd (step_op jx_env 40 true jx_state (OReset 1)))
                                                          (fst (step_op jx_env 40 true jx_state (OReset 1)))) /\
  (exists s', gen_job_pause jx_env 40 0 jx_state = Some (s', JExc JNotImplemented)) /\
  (exists s', gen_set_countdown jx_env 40 1 0 jx_state = Some (s', JExc (JErr EValueError))).
Proof. vm_compute. repeat split; eexists; reflexivity. Qed.
