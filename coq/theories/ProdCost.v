(* ProdCost.v — C16, work bound: computing a next occurrence ends after a number of loop rounds that is bounded by
   a closed-form number depending only on the expression (and the fuel of the interval filter search).

   * [counted] / [loop_res] / [loop_cost]: a bounded loop instrumented with a round counter (every execution of
     the body counts 1 plus what the body reports for the work nested in it); [loop_res_eq]: erasing the counter
     gives the plain loop; [iter_until_count]: the body is executed at most [Pos.to_nat p] times, so the count
     is at most p * (B + 1) when the nested work of a round is at most B;
   * [get_next_cost]: [get_next] with every loop instrumented (same recursion); [get_next_cost_fst]: it computes
     exactly what [get_next] computes; [cost] its counter;
   * [bound]: the closed form; [cost_bound]: cost E p st dt <= bound E p for all inputs. *)
From EAS Require Import Base BaseFacts Civil Time Filters Replace Producers ProdStrict ProdEarliest ProdGroup
  ProdTerm SunFacts.
From EASGen Require Import Generated.
Open Scope N_scope.

(* ------------------------------------------------------------------------------------------- *)
(* 1. counting loops *)
Section Count.
Context {St Rt : Type}.

(* the body reports the nested work k of the round; the round itself counts 1 *)
Definition counted (f : St -> (St + Rt) * N) (sc : St * N) : (St * N) + (Rt * N) :=
  let '(s, c) := sc in
  match f s with
  | (inl s', k) => inl (s', c + k + 1)
  | (inr r, k) => inr (r, c + k + 1)
  end.

Definition count_of (x : (St * N) + (Rt * N)) : N := match x with inl (_, c) => c | inr (_, c) => c end.
Definition strip (x : (St * N) + (Rt * N)) : St + Rt := match x with inl (s, _) => inl s | inr (r, _) => inr r end.

Definition loop_res (p : positive) (f : St -> (St + Rt) * N) (s : St) : St + Rt :=
  strip (iter_until p (counted f) (s, 0)).
Definition loop_cost (p : positive) (f : St -> (St + Rt) * N) (s : St) : N :=
  count_of (iter_until p (counted f) (s, 0)).

Lemma iter_nat_strip (f : St -> (St + Rt) * N) n : forall s c,
  strip (iter_nat n (counted f) (s, c)) = iter_nat n (fun s => fst (f s)) s.
Proof.
  induction n as [|n IH]; intros s c; cbn [iter_nat]; [reflexivity|].
  unfold counted at 1. destruct (f s) as [[s'|r] k]; cbn [fst]; [apply IH|reflexivity].
Qed.

(* erasing the counter gives the plain loop *)
Lemma loop_res_eq p f s : loop_res p f s = iter_until p (fun s => fst (f s)) s.
Proof. unfold loop_res. rewrite !iter_until_nat. apply iter_nat_strip. Qed.

Lemma iter_nat_count (f : St -> (St + Rt) * N) (B : N) :
  (forall s, snd (f s) <= B) ->
  forall n s c, count_of (iter_nat n (counted f) (s, c)) <= c + N.of_nat n * (B + 1).
Proof.
  intros HB n; induction n as [|n IH]; intros s c; cbn [iter_nat].
  - cbn [count_of]. lia.
  - unfold counted at 1. specialize (HB s). destruct (f s) as [[s'|r] k]; cbn [snd] in HB.
    + specialize (IH s' (c + k + 1)). nia.
    + cbn [count_of]. nia.
Qed.

(* the body of [iter_until p] runs at most [Pos.to_nat p] times *)
Lemma iter_until_count p f s (B : N) :
  (forall s, snd (f s) <= B) -> loop_cost p f s <= N.pos p * (B + 1).
Proof.
  intros HB. unfold loop_cost. rewrite iter_until_nat.
  pose proof (iter_nat_count f B HB (Pos.to_nat p) s 0) as H.
  rewrite positive_nat_N in H. lia.
Qed.

Lemma iter_nat_ext (f g : St -> St + Rt) : (forall s, f s = g s) -> forall n s, iter_nat n f s = iter_nat n g s.
Proof.
  intros H n; induction n as [|n IH]; intros s; cbn [iter_nat]; [reflexivity|].
  rewrite H. destruct (g s); [apply IH|reflexivity].
Qed.

Lemma iter_until_ext (f g : St -> St + Rt) p s : (forall s, f s = g s) -> iter_until p f s = iter_until p g s.
Proof. intros H. rewrite !iter_until_nat. apply iter_nat_ext. exact H. Qed.
End Count.

(* a plain loop, every round counting 1 *)
Definition plain {St Rt} (f : St -> St + Rt) (s : St) : (St + Rt) * N := (f s, 0).

Lemma plain_cost {St Rt} p (f : St -> St + Rt) s : loop_cost p (plain f) s <= N.pos p.
Proof.
  pose proof (iter_until_count p (plain f) s 0) as H. rewrite N.mul_1_r in H. apply H.
  intros s'. cbn. lia.
Qed.

Lemma plain_res {St Rt} p (f : St -> St + Rt) s : loop_res p (plain f) s = iter_until p f s.
Proof. rewrite loop_res_eq. apply iter_until_ext. reflexivity. Qed.

(* ------------------------------------------------------------------------------------------- *)
(* 2. the instrumented evaluator: [get_next] with every loop counted *)
Open Scope Z_scope.

Definition next_time_cost (z : tz) (tr : treplacer) (f : option filt) (dt : Z) : N :=
  loop_cost loop_bound (plain (time_step z tr f dt)) (local_day (to_local z dt) - 1).

Definition next_interval_cost (z : tz) (fuel : positive) (c iv : Z) (f : option filt) (dt : Z) : N :=
  loop_cost fuel (plain (fun g => if allow_opt z f g then inr g else inl (g + iv)))
    (interval_first (interval_back c iv dt) iv dt).

(* _get_next_sun: the day search runs only on a cache miss *)
Definition next_sun_raw_cost (E : penv) (key : nat) (st : pstate) (dt : Z) : N :=
  match location E with
  | None => 0%N
  | Some loc =>
      match slookup (key, utc_day dt, loc) (scache st) with
      | Some _ => 0%N
      | None => loop_cost (Z.to_pos (sun_tries + 1)) (plain (sun_search_step (sun_ev E key))) (0, utc_day dt)
      end
  end.

(* one round of an operation-style loop: the inner query with its cost, then the continuation *)
Definition round_of (rc : (result Z * pstate) * N) (k : Z -> pstate -> (Z * pstate) + (result Z * pstate))
  : ((Z * pstate) + (result Z * pstate)) * N :=
  (bind_state (fst rc) k, snd rc).

Fixpoint get_next_cost (E : penv) (p : producer) (st : pstate) (dt : Z) {struct p} : (result Z * pstate) * N :=
  let z := pz E in
  match p with
  | PTime tr f => (get_next E p st dt, next_time_cost z tr f dt)
  | PInterval id start iv f =>
      let c := match ilookup id (icache st) with
               | Some c => c
               | None => match start with Some s => s | None => dt + 1000 end
               end in
      (get_next E p st dt, next_interval_cost z (interval_fuel E) c iv f dt)
  | PGroup ps f =>
      let members :=
        (fix members (l : list producer) (st : pstate) (x : Z) (acc : option Z) {struct l}
           : (result (option Z) * pstate) * N :=
           match l with
           | [] => ((Ok acc, st), 0%N)
           | q :: t =>
               match get_next_cost E q st x with
               | ((Ok v, st'), c) =>
                   let '(r, c') := members t st' x (Some (match acc with None => v | Some a => Z.min a v end)) in
                   (r, (c + c')%N)
               | ((Raise e, st'), c) => ((Raise e, st'), c)
               | ((OutOfFuel, st'), c) => ((OutOfFuel, st'), c)
               end
           end) in
      let body := fun xs : Z * pstate =>
        let '(x, s) := xs in
        let '(r, c) := members ps s x None in
        (bind_state r (fun m s' =>
           match m with
           | None => inr (Raise EValueError, s')
           | Some v => if (dt <? v) && allow_opt z f v then inr (Ok v, s') else inl (v, s')
           end), c) in
      (finish_loop (loop_res loop_bound body (dt, st)), loop_cost loop_bound body (dt, st))
  | POffset q off f =>
      let body := fun xs : Z * pstate =>
        let '(x, s) := xs in
        round_of (get_next_cost E q s x) (fun n s' =>
          let value := n + off in
          if (dt <? value) && allow_opt z f value then inr (Ok value, s') else inl (n, s')) in
      (finish_loop (loop_res loop_bound body (dt, st)), loop_cost loop_bound body (dt, st))
  | PEarliest q tr f =>
      let body := fun xs : Z * pstate =>
        let '(x, s) := xs in
        round_of (get_next_cost E q s x) (fun n s' =>
          match apply_earliest z tr n dt with
          | Ok value => if (dt <? value) && allow_opt z f value then inr (Ok value, s') else inl (n, s')
          | Raise e => inr (Raise e, s')
          | OutOfFuel => inr (OutOfFuel, s')
          end) in
      (finish_loop (loop_res loop_bound body (dt, st)), loop_cost loop_bound body (dt, st))
  | PLatest q tr f =>
      let body := fun xs : Z * pstate =>
        let '(x, s) := xs in
        round_of (get_next_cost E q s x) (fun n s' =>
          match apply_latest z tr n dt with
          | Ok value => if (dt <? value) && allow_opt z f value then inr (Ok value, s') else inl (n, s')
          | Raise e => inr (Raise e, s')
          | OutOfFuel => inr (OutOfFuel, s')
          end) in
      (finish_loop (loop_res loop_bound body (dt, st)), loop_cost loop_bound body (dt, st))
  | PJitter q lo hi f =>
      let body := fun xs : Z * pstate =>
        let '(x, s) := xs in
        round_of (get_next_cost E q s x) (fun n s' =>
          let '(a, b) := jitter_bounds lo hi n dt in
          let value := n + draw E (ndraws s') a b in
          let s'' := with_ndraws (S (ndraws s')) s' in
          if (dt <? value) && allow_opt z f value then inr (Ok value, s'') else inl (n, s'')) in
      (finish_loop (loop_res loop_bound body (dt, st)), loop_cost loop_bound body (dt, st))
  | PSun key f =>
      let body := fun xs : Z * pstate =>
        let '(x, s) := xs in
        round_of (next_sun_raw E key s x, next_sun_raw_cost E key s x) (fun v s' =>
          if (dt <? v) && allow_opt z f v then inr (Ok v, s') else inl (v + DAY, s')) in
      (finish_loop (loop_res loop_bound body (dt, st)), loop_cost loop_bound body (dt, st))
  end.

(* the number of loop rounds a query makes, nested loops included *)
Definition cost (E : penv) (p : producer) (st : pstate) (dt : Z) : N := snd (get_next_cost E p st dt).

(* the member loop of the group case as a top-level definition (literally the local fix) *)
Definition group_members_cost (E : penv)
  : list producer -> pstate -> Z -> option Z -> (result (option Z) * pstate) * N :=
  fix members (l : list producer) (st : pstate) (x : Z) (acc : option Z) {struct l}
    : (result (option Z) * pstate) * N :=
    match l with
    | [] => ((Ok acc, st), 0%N)
    | q :: t =>
        match get_next_cost E q st x with
        | ((Ok v, st'), c) =>
            let '(r, c') := members t st' x (Some (match acc with None => v | Some a => Z.min a v end)) in
            (r, (c + c')%N)
        | ((Raise e, st'), c) => ((Raise e, st'), c)
        | ((OutOfFuel, st'), c) => ((OutOfFuel, st'), c)
        end
    end.

Definition group_round_cost (E : penv) (ps : list producer) (f : option filt) (dt : Z) (xs : Z * pstate)
  : ((Z * pstate) + (result Z * pstate)) * N :=
  let '(x, s) := xs in
  let '(r, c) := group_members_cost E ps s x None in
  (bind_state r (fun m s' =>
     match m with
     | None => inr (Raise EValueError, s')
     | Some v => if (dt <? v) && allow_opt (pz E) f v then inr (Ok v, s') else inl (v, s')
     end), c).

Lemma get_next_cost_group E ps f st dt :
  get_next_cost E (PGroup ps f) st dt =
  (finish_loop (loop_res loop_bound (group_round_cost E ps f dt) (dt, st)),
   loop_cost loop_bound (group_round_cost E ps f dt) (dt, st)).
Proof. reflexivity. Qed.

Lemma group_members_cost_cons E q t s x acc :
  group_members_cost E (q :: t) s x acc =
  match get_next_cost E q s x with
  | ((Ok v, s'), c) => let '(r, c') := group_members_cost E t s' x (Some (min_acc acc v)) in (r, (c + c')%N)
  | ((Raise e, s'), c) => ((Raise e, s'), c)
  | ((OutOfFuel, s'), c) => ((OutOfFuel, s'), c)
  end.
Proof. reflexivity. Qed.

Lemma group_members_cost_fst E : forall l s x acc,
  (forall q, In q l -> forall s x, fst (get_next_cost E q s x) = get_next E q s x) ->
  fst (group_members_cost E l s x acc) = group_members E l s x acc.
Proof.
  induction l as [|q t IH]; intros s x acc Hq; [reflexivity|].
  rewrite group_members_cost_cons, group_members_cons.
  pose proof (Hq q (or_introl eq_refl) s x) as H1.
  destruct (get_next_cost E q s x) as [[r s1] c]. cbn [fst] in H1. rewrite <- H1.
  destruct r as [v|e|]; [|reflexivity|reflexivity].
  specialize (IH s1 x (Some (min_acc acc v)) (fun q' Hq' => Hq q' (or_intror Hq'))).
  destruct (group_members_cost E t s1 x (Some (min_acc acc v))) as [r' c']. cbn [fst] in *. exact IH.
Qed.

(* the instrumented loops of the leaves are the loops of the leaves *)
Lemma next_time_counted z tr f dt :
  next_time z tr f dt =
  match loop_res loop_bound (plain (time_step z tr f dt)) (local_day (to_local z dt) - 1) with
  | inr r => r | inl _ => Raise EInfiniteLoop end.
Proof. rewrite plain_res. reflexivity. Qed.

Lemma next_interval_counted z fuel c iv f dt :
  next_interval z fuel c iv f dt =
  match loop_res fuel (plain (fun g => if allow_opt z f g then inr g else inl (g + iv)))
          (interval_first (interval_back c iv dt) iv dt) with
  | inr g => Ok g | inl _ => OutOfFuel end.
Proof. rewrite plain_res. reflexivity. Qed.

(* [get_next_cost] computes what [get_next] computes *)
Theorem get_next_cost_fst E : forall p st dt, fst (get_next_cost E p st dt) = get_next E p st dt.
Proof.
  fix IH 1. intros [tr f|id start iv f|ps f|q off f|q tr f|q tr f|q lo hi f|key f] st dt.
  - reflexivity.
  - reflexivity.
  - rewrite get_next_cost_group, get_next_group. cbn [fst]. rewrite loop_res_eq. f_equal.
    apply iter_until_ext. intros [x s]. unfold group_round_cost, group_round.
    assert (Hm : fst (group_members_cost E ps s x None) = group_members E ps s x None).
    { apply group_members_cost_fst. generalize ps. fix IHl 1. intros [|h t] q Hq; [destruct Hq|].
      destruct Hq as [<-|Hq]; [apply IH|apply (IHl t); exact Hq]. }
    destruct (group_members_cost E ps s x None) as [r c]. cbn [fst] in *. rewrite Hm. reflexivity.
  - cbn [get_next_cost get_next fst]. rewrite loop_res_eq. f_equal. apply iter_until_ext.
    intros [x s]. unfold round_of. cbn [fst]. rewrite IH. reflexivity.
  - cbn [get_next_cost get_next fst]. rewrite loop_res_eq. f_equal. apply iter_until_ext.
    intros [x s]. unfold round_of. cbn [fst]. rewrite IH. reflexivity.
  - cbn [get_next_cost get_next fst]. rewrite loop_res_eq. f_equal. apply iter_until_ext.
    intros [x s]. unfold round_of. cbn [fst]. rewrite IH. reflexivity.
  - cbn [get_next_cost get_next fst]. rewrite loop_res_eq. f_equal. apply iter_until_ext.
    intros [x s]. unfold round_of. cbn [fst]. rewrite IH. reflexivity.
  - cbn [get_next_cost get_next fst]. rewrite loop_res_eq. f_equal. apply iter_until_ext.
    intros [x s]. unfold round_of. cbn [fst]. reflexivity.
Qed.

(* ------------------------------------------------------------------------------------------- *)
(* 3. the closed-form bound and the theorem *)
Open Scope N_scope.

Definition LB : N := N.pos loop_bound.            (* 99 999, from the generated facts *)
Definition SUN_DAYS : N := Z.to_N sun_tries + 1.  (* range(tries + 1) *)

Fixpoint bound (E : penv) (p : producer) : N :=
  match p with
  | PTime _ _ => LB
  | PInterval _ _ _ _ => N.pos (interval_fuel E)
  | PGroup ps _ =>
      LB * (1 + (fix sum (l : list producer) : N := match l with [] => 0 | q :: t => bound E q + sum t end) ps)
  | POffset q _ _ | PEarliest q _ _ | PLatest q _ _ | PJitter q _ _ _ => LB * (1 + bound E q)
  | PSun _ _ => LB * (1 + SUN_DAYS)
  end.

Definition bound_sum (E : penv) : list producer -> N :=
  fix sum (l : list producer) : N := match l with [] => 0 | q :: t => bound E q + sum t end.

Lemma bound_group E ps f : bound E (PGroup ps f) = LB * (1 + bound_sum E ps).
Proof. reflexivity. Qed.

Lemma next_sun_raw_cost_le E key st dt : next_sun_raw_cost E key st dt <= SUN_DAYS.
Proof.
  unfold next_sun_raw_cost. destruct (location E) as [loc|]; [|unfold SUN_DAYS; lia].
  destruct (slookup _ _); [unfold SUN_DAYS; lia|].
  eapply N.le_trans; [apply plain_cost|]. vm_compute. discriminate.
Qed.

Lemma group_members_cost_le E : forall l s x acc,
  (forall q, In q l -> forall s x, snd (get_next_cost E q s x) <= bound E q) ->
  snd (group_members_cost E l s x acc) <= bound_sum E l.
Proof.
  induction l as [|q t IH]; intros s x acc Hq; [cbn; lia|].
  rewrite group_members_cost_cons. cbn [bound_sum]. fold (bound_sum E t).
  pose proof (Hq q (or_introl eq_refl) s x) as H1.
  destruct (get_next_cost E q s x) as [[r s1] c]. cbn [snd] in H1.
  destruct r as [v|e|]; [|cbn [snd]; lia|cbn [snd]; lia].
  specialize (IH s1 x (Some (min_acc acc v)) (fun q' Hq' => Hq q' (or_intror Hq'))).
  destruct (group_members_cost E t s1 x (Some (min_acc acc v))) as [r' c']. cbn [snd] in *. lia.
Qed.

Lemma op_loop_cost_le (body : Z * pstate -> ((Z * pstate) + (result Z * pstate)) * N) B xs :
  (forall xs, snd (body xs) <= B) -> loop_cost loop_bound body xs <= LB * (1 + B).
Proof.
  intros H. pose proof (iter_until_count loop_bound body xs B H) as H1. unfold LB. lia.
Qed.

(* for every expression, state, reference instant (and table, oracle, draw stream): the number of loop rounds of a
   query is bounded by a number that depends on the expression and the interval fuel only *)
Theorem cost_bound E : forall p st dt, cost E p st dt <= bound E p.
Proof.
  unfold cost. fix IH 1. intros [tr f|id start iv f|ps f|q off f|q tr f|q tr f|q lo hi f|key f] st dt.
  - cbn [get_next_cost snd bound]. apply plain_cost.
  - cbn [get_next_cost snd bound]. apply plain_cost.
  - rewrite get_next_cost_group, bound_group. cbn [snd]. apply op_loop_cost_le.
    intros [x s]. unfold group_round_cost.
    assert (Hm : snd (group_members_cost E ps s x None) <= bound_sum E ps).
    { apply group_members_cost_le. generalize ps. fix IHl 1. intros [|h t] q Hq; [destruct Hq|].
      destruct Hq as [<-|Hq]; [apply IH|apply (IHl t); exact Hq]. }
    destruct (group_members_cost E ps s x None) as [r c]. cbn [snd] in *. exact Hm.
  - cbn [get_next_cost snd bound]. apply op_loop_cost_le. intros [x s]. unfold round_of. cbn [snd]. apply IH.
  - cbn [get_next_cost snd bound]. apply op_loop_cost_le. intros [x s]. unfold round_of. cbn [snd]. apply IH.
  - cbn [get_next_cost snd bound]. apply op_loop_cost_le. intros [x s]. unfold round_of. cbn [snd]. apply IH.
  - cbn [get_next_cost snd bound]. apply op_loop_cost_le. intros [x s]. unfold round_of. cbn [snd]. apply IH.
  - cbn [get_next_cost snd bound]. apply op_loop_cost_le. intros [x s]. unfold round_of. cbn [snd].
    apply next_sun_raw_cost_le.
Qed.

(* both halves together: the instrumented evaluator is [get_next], and its counter is bounded *)
Theorem get_next_bounded_work E p st dt :
  fst (get_next_cost E p st dt) = get_next E p st dt /\ cost E p st dt <= bound E p.
Proof. split; [apply get_next_cost_fst|apply cost_bound]. Qed.

Theorem bound_constants : LB = 99999 /\ SUN_DAYS = 367.
Proof. split; reflexivity. Qed.

(* the bound does not depend on the state, the reference instant, the tz table, the oracles: two environments
   with the same interval fuel give the same number *)
Theorem bound_depends_on_fuel_only E E' : interval_fuel E = interval_fuel E' -> forall p, bound E p = bound E' p.
Proof.
  intros Hf. fix IH 1. intros [tr f|id start iv f|ps f|q off f|q tr f|q tr f|q lo hi f|key f]; cbn [bound];
    try reflexivity; try (rewrite (IH q); reflexivity).
  - rewrite Hf. reflexivity.
  - f_equal. f_equal. generalize ps. fix IHl 1. intros [|h t]; [reflexivity|]. rewrite (IH h), (IHl t). reflexivity.
Qed.

(* ------------------------------------------------------------------------------------------- *)
(* Examples (the group of ProdGroup.v: hourly interval UNION 12:00 local, group filter) *)
Example ex_cost_small :
  get_next_cost ex_env (PGroup ex_members ex_gfilter) pstate0 (1748845800 * NS)%Z =
  (get_next ex_env (PGroup ex_members ex_gfilter) pstate0 (1748845800 * NS)%Z, 8) /\
  bound ex_env (PGroup ex_members ex_gfilter) = 99999 * (1 + (1 + 99999)).
Proof. split; vm_compute; reflexivity. Qed.

(* the bound is attained: a loop whose body never exits runs all its rounds; the interval trigger with a filter
   that accepts nothing (F9) spends its whole budget, whatever the inputs *)
Lemma iter_nat_count_all {St Rt} (f : St -> St + Rt) :
  (forall s, exists s', f s = inl s') ->
  forall n s c, count_of (iter_nat n (counted (plain f)) (s, c)) = c + N.of_nat n.
Proof.
  intros Hf n; induction n as [|n IH]; intros s c; cbn [iter_nat]; [cbn [count_of]; lia|].
  unfold counted at 1, plain at 1. destruct (Hf s) as (s' & ->). rewrite IH. lia.
Qed.

Lemma plain_cost_exhausted {St Rt} p (f : St -> St + Rt) s :
  (forall s, exists s', f s = inl s') -> loop_cost p (plain f) s = N.pos p.
Proof.
  intros Hf. unfold loop_cost. rewrite iter_until_nat, (iter_nat_count_all f Hf), positive_nat_N. lia.
Qed.

Theorem interval_unsat_cost E id start iv st dt :
  cost E (PInterval id start iv (Some (FDay []))) st dt = bound E (PInterval id start iv (Some (FDay []))).
Proof.
  unfold cost. cbn [get_next_cost snd bound]. unfold next_interval_cost. apply plain_cost_exhausted.
  intros g. exists (g + iv)%Z. reflexivity.
Qed.

Example ex_cost_exhausted :
  let E := {| pz := pz ex_env; draw := fun _ _ _ => 0%Z; sun_ev := fun _ _ => None; location := None;
              interval_fuel := 50%positive |} in
  let p := PInterval 0 None (3600 * NS)%Z (Some (FDay [])) in
  get_next_cost E p pstate0 (1748845800 * NS)%Z = ((OutOfFuel, pstate0), 50) /\ bound E p = 50.
Proof. split; vm_compute; reflexivity. Qed.
