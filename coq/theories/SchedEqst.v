(* SchedEqst.v — states that differ only in HOW the job table (a function nat -> job) was built.
   [eqst a b]: every field equal, the job tables equal at every index.  The model functions of Sched.v respect it
   (for every amount of fuel), and so do the invariants.  Needed wherever an implementation writes one slot of the
   table in several steps (create the object, register it with the store, link it) where the model writes it once:
   the two tables are then equal pointwise but not syntactically, and functional extensionality is not assumed. *)
From EAS Require Import Base BaseFacts Sched SchedInv SchedApi SchedTrace.
From EASGen Require Import Generated.

Definition eqst (a b : st) : Prop :=
  now a = now b /\ enabled a = enabled b /\ timer a = timer b /\ queue a = queue b /\
  (forall k, jobs a k = jobs b k) /\ njobs a = njobs b /\ store a = store b /\ log a = log b /\
  opi a = opi b /\ broken a = broken b.

Definition orel (x y : option st) : Prop :=
  match x, y with
  | Some a, Some b => eqst a b
  | None, None => True
  | _, _ => False
  end.

Ltac eq_split H := destruct H as (Hnow & Hen & Htm & Hq & Hj & Hn & Hst & Hlog & Hopi & Hbr).
Ltac eq_fields :=
  unfold eqst;
  cbn [now enabled timer queue jobs njobs store log opi broken set_now set_enabled_f set_timer_f set_queue set_jobs
       set_njobs set_store set_log set_opi set_broken set_job add_ev];
  repeat split; try assumption; try congruence.

Lemma eqst_refl a : eqst a a.
Proof. eq_fields. Qed.
Lemma eqst_sym a b : eqst a b -> eqst b a.
Proof. intros H. eq_split H. eq_fields; intros k; symmetry; apply Hj. Qed.
Lemma eqst_trans a b c : eqst a b -> eqst b c -> eqst a c.
Proof.
  intros H H'. eq_split H. destruct H' as (a1 & a2 & a3 & a4 & a5 & a6 & a7 & a8 & a9 & a10).
  eq_fields; intros k; rewrite Hj; apply a5.
Qed.

Lemma eqst_set_timer_f v a b : eqst a b -> eqst (set_timer_f v a) (set_timer_f v b).
Proof. intros H. eq_split H. eq_fields. Qed.
Lemma eqst_set_queue q a b : eqst a b -> eqst (set_queue q a) (set_queue q b).
Proof. intros H. eq_split H. eq_fields. Qed.
Lemma eqst_set_store v a b : eqst a b -> eqst (set_store v a) (set_store v b).
Proof. intros H. eq_split H. eq_fields. Qed.
Lemma eqst_set_njobs v a b : eqst a b -> eqst (set_njobs v a) (set_njobs v b).
Proof. intros H. eq_split H. eq_fields. Qed.
Lemma eqst_set_enabled_f v a b : eqst a b -> eqst (set_enabled_f v a) (set_enabled_f v b).
Proof. intros H. eq_split H. eq_fields. Qed.
Lemma eqst_set_broken a b : eqst a b -> eqst (set_broken a) (set_broken b).
Proof. intros H. eq_split H. eq_fields. Qed.
Lemma eqst_add_ev e a b : eqst a b -> eqst (add_ev e a) (add_ev e b).
Proof. intros H. eq_split H. eq_fields. Qed.
Lemma eqst_set_job j v a b : eqst a b -> eqst (set_job j v a) (set_job j v b).
Proof. intros H. eq_split H. eq_fields; intros k; unfold upd; destruct (Nat.eqb k j); [reflexivity|apply Hj]. Qed.

(* two tables built differently *)
Lemma eqst_jobs_ext g a : (forall k, g k = jobs a k) -> eqst (set_jobs g a) a.
Proof. intros H. eq_fields. Qed.

Lemma insort_eqst a b j q : (forall k, jobs a k = jobs b k) -> insort a j q = insort b j q.
Proof.
  intros Hj. induction q as [|h t IH]; cbn [insort]; [reflexivity|].
  unfold job_lt. rewrite (Hj h), (Hj j), IH. reflexivity.
Qed.

(* the invariants look at the table pointwise *)
Lemma eqst_same_view a b : eqst a b -> same_view a b.
Proof.
  intros H. eq_split H. split; [symmetry; exact Hq|]. split; [intros k; rewrite Hj; repeat split|].
  split; symmetry; assumption.
Qed.

Lemma Inv_eqst a b : eqst a b -> Inv a -> Inv b.
Proof.
  intros H (W & T). pose proof (eqst_same_view _ _ H) as V. eq_split H. split; [eapply WFq_view; eassumption|].
  unfold TimerOK in *. rewrite <- Hq, <- Hen, <- Htm. unfold nxt in *. destruct (queue a); [exact T|].
  rewrite <- Hj. exact T.
Qed.

Section Eqst.
Variable E : env.

Lemma run_cbs_eqst mk cbs : forall a b, eqst a b -> eqst (run_cbs E mk cbs a) (run_cbs E mk cbs b).
Proof.
  induction cbs as [|cb t IH]; intros a b H; cbn [run_cbs]; [exact H|]. cbv zeta.
  assert (Hl : log a = log b) by (eq_split H; exact Hlog). rewrite Hl.
  apply IH. destruct (fail_cb E cb (count_cb cb (log b))); repeat apply eqst_add_ev; exact H.
Qed.

Lemma set_next_run_eqst j nx a b : eqst a b -> eqst (set_next_run E j nx a) (set_next_run E j nx b).
Proof.
  intros H. unfold set_next_run. cbv zeta.
  assert (Hb : jobs a j = jobs b j) by (eq_split H; apply Hj). rewrite Hb.
  apply run_cbs_eqst. apply eqst_set_job. exact H.
Qed.

Lemma finish_job_eqst j a b : eqst a b -> eqst (finish_job E j a) (finish_job E j b).
Proof.
  intros H. unfold finish_job. cbv zeta.
  assert (Hb : jobs a j = jobs b j) by (eq_split H; apply Hj). rewrite Hb.
  apply run_cbs_eqst.
  assert (H1 : eqst (set_job j (with_linked (with_status_next (jobs b j) Finished None) false) a)
                    (set_job j (with_linked (with_status_next (jobs b j) Finished None) false) b))
    by (apply eqst_set_job; exact H).
  destruct (jstored (jobs b j)); [|exact H1].
  assert (Hs : store (set_job j (with_linked (with_status_next (jobs b j) Finished None) false) a) =
               store (set_job j (with_linked (with_status_next (jobs b j) Finished None) false) b))
    by (eq_split H1; exact Hst).
  rewrite Hs. apply eqst_set_store. exact H1.
Qed.

Lemma exec_pre_eqst j t a b : eqst a b -> eqst (exec_pre E j t a) (exec_pre E j t b).
Proof.
  intros H. unfold exec_pre. cbv zeta.
  assert (Hx : log a = log b /\ now a = now b /\ opi a = opi b) by (eq_split H; repeat split; assumption).
  destruct Hx as (-> & -> & ->).
  destruct (fail_exec E j (count_exec j (log b))); repeat apply eqst_add_ev; exact H.
Qed.

Lemma too_old_eqst a b v : eqst a b -> too_old a v = too_old b v.
Proof. intros H. eq_split H. unfold too_old. rewrite Hnow. reflexivity. Qed.

Definition core_eqst (f : nat) : Prop :=
  (forall a b, eqst a b -> orel (set_timer E f a) (set_timer E f b)) /\
  (forall a b, eqst a b -> orel (run_jobs E f a) (run_jobs E f b)) /\
  (forall a b, eqst a b -> orel (run_loop E f a) (run_loop E f b)) /\
  (forall j a b, eqst a b -> orel (add_job E f j a) (add_job E f j b)) /\
  (forall j a b, eqst a b -> orel (remove_job E f j a) (remove_job E f j b)) /\
  (forall j t a b, eqst a b -> orel (exec_job E f j t a) (exec_job E f j t b)).

Theorem core_eqst_all : forall f, core_eqst f.
Proof.
  induction f as [|f (IHt & IHr & IHl & IHa & IHm & IHe)].
  { repeat split; intros; exact Logic.I. }
  assert (St : forall a b, eqst a b -> orel (set_timer E (S f) a) (set_timer E (S f) b)).
  { intros a b H. rewrite !set_timer_S. cbv zeta.
    pose proof (eqst_set_timer_f None _ _ H) as H1.
    remember (set_timer_f None a) as a1 eqn:Ea1. remember (set_timer_f None b) as b1 eqn:Eb1. clear Ea1 Eb1.
    pose proof H1 as H1'. eq_split H1'. rewrite Hq. destruct (queue b1) as [|h q]; [exact H1|].
    rewrite Hen. destruct (negb (enabled b1)); [exact H1|].
    rewrite (Hj h). destruct (jnext (jobs b1 h)) as [t|]; [|apply eqst_set_broken; exact H1].
    rewrite Hnow. destruct (t <=? now b1); [apply IHr; exact H1|apply eqst_set_timer_f; exact H1]. }
  assert (Sm : forall j a b, eqst a b -> orel (remove_job E (S f) j a) (remove_job E (S f) j b)).
  { intros j a b H. rewrite !remove_job_S. pose proof H as H'. eq_split H'. rewrite Hq.
    destruct (queue b) as [|h q] eqn:Eq; [apply IHt; exact H|]. cbv zeta.
    pose proof (eqst_set_queue (remove_first j (h :: q)) _ _ H) as H1.
    destruct (remove_first j (h :: q)) as [|h' q']; [apply IHt; exact H1|].
    destruct (Nat.eqb h j); [apply IHt; exact H1|exact H1]. }
  assert (Sa : forall j a b, eqst a b -> orel (add_job E (S f) j a) (add_job E (S f) j b)).
  { intros j a b H. rewrite !add_job_S. pose proof H as H'. eq_split H'. rewrite (Hj j).
    destruct (status_eqb (jstatus (jobs b j)) Running); [|exact H]. cbv zeta.
    rewrite Hq, (insort_eqst a b j (queue b) Hj).
    pose proof (eqst_set_queue (insort b j (queue b)) _ _ H) as H1.
    destruct (is_head j (insort b j (queue b))); [apply IHt; exact H1|exact H1]. }
  assert (Se : forall j t a b, eqst a b -> orel (exec_job E (S f) j t a) (exec_job E (S f) j t b)).
  { intros j t a b H. rewrite !exec_job_S. cbv zeta.
    pose proof (exec_pre_eqst j t _ _ H) as H0.
    remember (exec_pre E j t a) as a0 eqn:Ea0. remember (exec_pre E j t b) as b0 eqn:Eb0. clear Ea0 Eb0.
    pose proof H0 as H0'. eq_split H0'. rewrite (Hj j).
    destruct (jkind (jobs b0 j)).
    - pose proof (IHm j _ _ H0) as Hm.
      destruct (remove_job E f j a0) as [a1|], (remove_job E f j b0) as [b1|]; cbn [orel] in Hm |- *; try tauto.
      apply finish_job_eqst. exact Hm.
    - apply set_next_run_eqst. exact H0.
    - rewrite Hlog. change (now (add_ev (EProd j) a0)) with (now a0). change (now (add_ev (EProd j) b0)) with (now b0).
      rewrite Hnow.
      destruct (prod E j (count_prod j (log b0)) (now b0)) as [v|e|]; cbn [orel];
        [|apply eqst_add_ev, eqst_add_ev; exact H0|exact Logic.I].
      rewrite (too_old_eqst (add_ev (EProd j) a0) (add_ev (EProd j) b0) v (eqst_add_ev _ _ _ H0)).
      destruct (too_old (add_ev (EProd j) b0) v); cbn [orel];
        [apply eqst_add_ev, eqst_add_ev; exact H0|apply set_next_run_eqst, eqst_add_ev; exact H0]. }
  assert (Sl : forall a b, eqst a b -> orel (run_loop E (S f) a) (run_loop E (S f) b)).
  { intros a b H. rewrite !run_loop_S. pose proof H as H'. eq_split H'. rewrite Hq.
    destruct (queue b) as [|h q]; [exact H|]. rewrite (Hj h).
    destruct (jnext (jobs b h)) as [t|]; [|apply eqst_add_ev, eqst_set_broken; exact H].
    rewrite Hnow. destruct (now b <? t); [exact H|]. cbv zeta.
    pose proof (IHe h t _ _ (eqst_set_queue q _ _ H)) as He.
    destruct (exec_job E f h t (set_queue q a)) as [a1|], (exec_job E f h t (set_queue q b)) as [b1|];
      cbn [orel] in He |- *; try tauto.
    assert (Hs : jobs a1 h = jobs b1 h) by (destruct He as (_ & _ & _ & _ & Hj1 & _); apply Hj1). rewrite Hs.
    assert (Ha : orel (if status_eqb (jstatus (jobs b1 h)) Running then add_job E f h a1 else Some a1)
                      (if status_eqb (jstatus (jobs b1 h)) Running then add_job E f h b1 else Some b1)).
    { destruct (status_eqb (jstatus (jobs b1 h)) Running); [apply IHa; exact He|exact He]. }
    destruct (if status_eqb (jstatus (jobs b1 h)) Running then add_job E f h a1 else Some a1) as [a2|],
             (if status_eqb (jstatus (jobs b1 h)) Running then add_job E f h b1 else Some b1) as [b2|];
      cbn [orel] in Ha |- *; try tauto.
    apply IHl. exact Ha. }
  assert (Sr : forall a b, eqst a b -> orel (run_jobs E (S f) a) (run_jobs E (S f) b)).
  { intros a b H. rewrite !run_jobs_S. cbv zeta.
    pose proof (IHl _ _ (eqst_set_timer_f None _ _ H)) as Hl.
    destruct (run_loop E f (set_timer_f None a)) as [a1|], (run_loop E f (set_timer_f None b)) as [b1|];
      cbn [orel] in Hl |- *; try tauto.
    pose proof Hl as Hl'. eq_split Hl'. rewrite Hbr. destruct (broken b1); [exact Hl|].
    rewrite Hq. destruct (queue b1); [exact Hl|apply IHt; exact Hl]. }
  repeat split; assumption.
Qed.

Lemma add_job_eqst f j a b : eqst a b -> orel (add_job E f j a) (add_job E f j b).
Proof. destruct (core_eqst_all f) as (_ & _ & _ & H & _). apply H. Qed.
Lemma remove_job_eqst f j a b : eqst a b -> orel (remove_job E f j a) (remove_job E f j b).
Proof. destruct (core_eqst_all f) as (_ & _ & _ & _ & H & _). apply H. Qed.

Lemma job_finish_eqst f j a b : eqst a b -> orel (job_finish E f j a) (job_finish E f j b).
Proof.
  intros H. rewrite !job_finish_eq. pose proof (remove_job_eqst f j _ _ H) as Hm.
  destruct (remove_job E f j a) as [a1|], (remove_job E f j b) as [b1|]; cbn [orel] in Hm |- *; try tauto.
  apply finish_job_eqst. exact Hm.
Qed.

(* the first phase of Sched.create *)
Lemma create_first_eqst j bj a b :
  eqst a b -> eqst (fst (create_first E j bj a)) (fst (create_first E j bj b)) /\
              snd (create_first E j bj a) = snd (create_first E j bj b).
Proof.
  intros H. unfold create_first. destruct (jkind bj).
  - rewrite (too_old_eqst a b _ H). destruct (too_old b (jexec_t bj)); cbn [fst snd]; (split; [|reflexivity]);
      [exact H|apply set_next_run_eqst; exact H].
  - cbn [fst snd]. split; [apply set_next_run_eqst; exact H|reflexivity].
  - cbv zeta. pose proof H as H'. eq_split H'. rewrite Hlog.
    change (now (add_ev (EProd j) a)) with (now a). change (now (add_ev (EProd j) b)) with (now b). rewrite Hnow.
    pose proof (eqst_add_ev (EProd j) _ _ H) as H1.
    destruct (prod E j (count_prod j (log b)) (now b)) as [v|e|]; cbn [fst snd]; try (split; [exact H1|reflexivity]).
    rewrite (too_old_eqst _ _ v H1). destruct (too_old (add_ev (EProd j) b) v); cbn [fst snd]; (split; [|reflexivity]);
      [exact H1|apply set_next_run_eqst; exact H1].
Qed.

End Eqst.
