(* GenBuilderEq.v — the code generated from src/eascheduler/{builder/jobs.py, job_stores/memory.py, job_control/*.py,
   executor/base.py} (coq/gen/GenBuilder.v, rewritten by tools/gen_builder.py on every run) computes what the hand-written
   models compute.  The generated methods CALL the generated job classes (GenJobs.v), which call the generated scheduler
   closed with the generated execute ([GenJobsEq.knot2]).

   1. InMemoryStore: [gen_store_add_job] (duplicate id -> KeyError and nothing changes; otherwise the key is added and
      `_job_finished` registered on on_finished), [gen_store_job_finished] (the callback is GenRtJobs.call_cb .. CbStore
      whenever the key is present), [gen_store_cb_at_finish] (it IS present whenever job_finish runs the callback from a
      state with StoreInv: Inv + StoreInv, both reachable), [gen_store_cb_removes_exactly], the lookups.
   2. JobBuilder._add_job: [gen_add_job_shape] - store first, then link_scheduler, on an exception job_finish and the
      exception re-raised - and [gen_add_job_is_create]: on every state with Inv, for every new job object, the generated
      `_add_job` computes Sched.create: same outcome and, up to how the job table was built ([SchedEqst.eqst]: every
      field equal, the tables equal at every index; the file writes slot njobs three times - constructor, store, link -
      the model once), the same state; all three outcomes (accepted / refused by the store / refused by link_scheduler:
      finished again, out of the store, the exception re-raised).  On a duplicate id the implementation has built a job
      object that nobody refers to; the model has not ([create_agrees]).  [gen_countdown_is_model] [gen_once_is_model]
      [gen_at_is_model]: the three entry points against step_op; [gen_entry_conv_raises].
   3. the control classes: [gen_ctl_cancel_is_model] [gen_ctl_pause_is_model] [gen_ctl_stop_is_model]
      [gen_ctl_resume_is_model] [gen_ctl_reset_is_model] [gen_ctl_set_countdown_is_model] (via the theorems of
      GenJobsEq.v: Inv, for cancel / pause / stop also LiveLinked), [gen_ctl_eq], [gen_ctl_status_next].
   4. executors: [gen_sync_execute_is_run_executor] / [gen_sync_execute_is_exec_pre]; [gen_async_step_is_wrap],
      [gen_async_is_wrap_beh], [gen_async_submits_wrapper].
   Not covered: the outcome NoFuel of the model. *)
From EAS Require Import Base BaseFacts Sched SchedInv SchedApi SchedTrace SchedStore SchedEqst GenRt GenSchedEq GenRtJobs
  GenJobsEq GenRtBuilder.
From EAS Require TaskMgr AsyncExec.
From EASGen Require Import Generated GenSched GenJobs GenBuilder.

Theorem gen_builder_recognised : gen_builder_status_v = GenBuilderOk.
Proof. reflexivity. Qed.

(* ------------------------------------------------------------------------------------------- *)
(* 1. InMemoryStore *)

(* add_job on a job whose on_finished does not hold the store's callback yet *)
Theorem gen_store_add_job j s :
  jstored (jobs s j) = false ->
  g_InMemoryStore_add_job j s =
  if store_has (jkey (jobs s j)) (store s) then Some (s, JExc (JErr EKeyError))
  else Some (set_job j (with_stored (jobs s j) true) (set_store ((jkey (jobs s j), j) :: store s) s), JRet).
Proof.
  intros Hst. unfold g_InMemoryStore_add_job. cbv zeta.
  destruct (store_has (jkey (jobs s j)) (store s)) eqn:Eh; [reflexivity|].
  unfold store_put. rewrite Eh. unfold g_JobCallbackHandler_register. cbv zeta.
  cbn [jobs set_store]. rewrite store_memb_callbacks, Hst.
  unfold set_callbacks. rewrite users_app, users_callbacks, cbk_memb_app. cbn [cbs_of users flat_map app jobs set_store].
  rewrite app_nil_r. cbn [cbk_memb existsb cbk_eqb]. rewrite !orb_true_r. reflexivity.
Qed.

(* _job_finished: `self._jobs.pop(job.id)` *)
Theorem gen_store_job_finished E j s :
  g_InMemoryStore_job_finished j s =
  if store_has (jkey (jobs s j)) (store s) then call_cb E CbFin j CbStore s else Some (s, JExc (JErr EKeyError)).
Proof. unfold g_InMemoryStore_job_finished. cbv zeta. destruct (store_has _ _); reflexivity. Qed.

(* the state in which JobBase.job_finish runs the on_finished callbacks of job j *)
Definition finishing (j : nat) (s1 : st) : st :=
  set_job j (with_next (with_status (with_linked (jobs s1 j) false) Finished) None) s1.

(* whenever job_finish of a live stored job gets there from a state with the invariants, the key is still present:
   the callback is the model's, it never raises KeyError *)
Theorem gen_store_cb_at_finish E fuel j s s1 :
  Inv s -> StoreInv s -> (j < njobs s)%nat -> jstored (jobs s j) = true -> jstatus (jobs s j) <> Finished ->
  remove_job E fuel j s = Some s1 ->
  g_InMemoryStore_job_finished j (finishing j s1) = call_cb E CbFin j CbStore (finishing j s1).
Proof.
  intros (W & _) Hs Hj Hst Hnf ER.
  assert (Wr : WFq [j] (set_queue (remove_first j (queue s)) s)) by (apply WFq_remove; [exact W|intros []]).
  destruct (store_core_specs E fuel) as (_ & _ & _ & _ & Sm & _).
  pose proof (Sm [] j s s1 Wr Hs ER) as ((_ & Hiff) & _).
  destruct (touch_specs_all E fuel) as (_ & _ & _ & _ & Tm & _).
  destruct (Tm j s s1 ER) as (_ & Hsame).
  assert (Hjj : jobs s1 j = jobs s j).
  { apply Hsame. apply remove_first_NoDup_notin. apply (wf_nodup _ _ W). }
  destruct (core_specs_all E fuel) as (_ & _ & _ & _ & Hrm & _).
  destruct (Hrm [] j s s1 Wr ER) as (_ & F1 & _).
  assert (Hin : In (jkey (jobs s j), j) (store s1)).
  { apply Hiff. rewrite Hjj. destruct F1 as (_ & _ & -> & _). repeat split; assumption. }
  rewrite (gen_store_job_finished E). unfold finishing.
  cbn [store set_job set_jobs]. rewrite jobs_upd_same. cbn [jkey with_next with_status with_linked]. rewrite Hjj.
  replace (store_has (jkey (jobs s j)) (store s1)) with true; [reflexivity|].
  symmetry. apply store_has_In. eapply In_fst; exact Hin.
Qed.

(* the callback removes exactly the entry of the finished job *)
Theorem gen_store_cb_removes_exactly j s s' :
  StoreOK s -> In (jkey (jobs s j), j) (store s) ->
  g_InMemoryStore_job_finished j s = Some (s', JRet) ->
  (forall k i, In (k, i) (store s') <-> In (k, i) (store s) /\ i <> j) /\
  now s' = now s /\ enabled s' = enabled s /\ timer s' = timer s /\ queue s' = queue s /\ jobs s' = jobs s /\
  njobs s' = njobs s /\ log s' = log s /\ opi s' = opi s /\ broken s' = broken s.
Proof.
  intros (Hnd & Hiff) Hin H. unfold g_InMemoryStore_job_finished in H. cbv zeta in H.
  destruct (store_has (jkey (jobs s j)) (store s)); [|discriminate]. injection H as <-.
  split; [|repeat split]. intros k i. cbn [store set_store]. rewrite (In_store_remove _ _ _ _ Hnd). split.
  - intros (Hki & Hne). split; [exact Hki|]. intros ->. apply Hne.
    apply Hiff in Hki. destruct Hki as (_ & _ & <- & _). reflexivity.
  - intros (Hki & Hne). split; [exact Hki|]. intros ->. apply Hne.
    eapply NoDup_fst_inj; eassumption.
Qed.

(* the lookups *)
Lemma store_find_In key l j : NoDup (map fst l) -> (store_find key l = Some j <-> In (key, j) l).
Proof.
  induction l as [|(k, i) t IH]; cbn [store_find map fst In]; [split; [discriminate|tauto]|].
  intros Hnd. inversion Hnd as [|? ? Hk Ht]; subst.
  destruct (Z.eqb_spec k key) as [->|Hne].
  - split; [intros Heq; injection Heq as ->; left; reflexivity|].
    intros [Heq|Hin]; [injection Heq as ->; reflexivity|exfalso; apply Hk; eapply In_fst; exact Hin].
  - rewrite (IH Ht). split; [intros Hin; right; exact Hin|]. intros [Heq|Hin]; [congruence|exact Hin].
Qed.

Lemma store_find_has key l : store_has key l = match store_find key l with Some _ => true | None => false end.
Proof.
  induction l as [|(k, i) t IH]; cbn [store_find store_has]; [reflexivity|].
  destruct (Z.eqb k key); [reflexivity|exact IH].
Qed.

(* store.get(id) / store[id] / id in store: the live job of the store that carries the id *)
Theorem gen_store_get s key j :
  StoreOK s ->
  (g_InMemoryStore_get key s = Some j <->
   (j < njobs s)%nat /\ jstored (jobs s j) = true /\ jkey (jobs s j) = key /\ jstatus (jobs s j) <> Finished).
Proof. intros (Hnd & Hiff). unfold g_InMemoryStore_get. rewrite (store_find_In _ _ _ Hnd). apply Hiff. Qed.

Theorem gen_store_getitem s key :
  g_InMemoryStore_getitem key s =
  match g_InMemoryStore_get key s with Some j => CVal j | None => CExc EKeyError end.
Proof. reflexivity. Qed.

Theorem gen_store_contains s key :
  g_InMemoryStore_contains key s = match g_InMemoryStore_get key s with Some _ => true | None => false end.
Proof. apply store_find_has. Qed.

Theorem gen_store_contains_live s key :
  StoreOK s ->
  (g_InMemoryStore_contains key s = true <->
   exists j, (j < njobs s)%nat /\ jstored (jobs s j) = true /\ jkey (jobs s j) = key /\ jstatus (jobs s j) <> Finished).
Proof. intros Hok. apply store_has_live. exact Hok. Qed.

Theorem gen_store_pop s key :
  g_InMemoryStore_pop key s =
  match g_InMemoryStore_get key s with
  | Some j => (set_store (store_remove key (store s)) s, CVal j)
  | None => (s, CExc EKeyError)
  end.
Proof. reflexivity. Qed.

Theorem gen_store_len s : g_InMemoryStore_len s = List.length (store s).
Proof. reflexivity. Qed.

(* ------------------------------------------------------------------------------------------- *)
(* 2. JobBuilder._add_job *)
Section Eq.
Variable E : env.

Definition gen_add_job (fuel : nat) (hs : bool) (j : nat) (s : st) : MJ := g_JobBuilder_add_job E (JR E fuel) hs j s.
Definition gen_countdown (fuel : nat) (hs : bool) (v : cres Z) (key : Z) (s : st) : MJ :=
  g_JobBuilder_countdown E (JR E fuel) hs v key s.
Definition gen_once (fuel : nat) (hs : bool) (v : cres Z) (key : Z) (s : st) : MJ :=
  g_JobBuilder_once E (JR E fuel) hs v key s.
Definition gen_at (fuel : nat) (hs : bool) (v : cres unit) (key : Z) (s : st) : MJ :=
  g_JobBuilder_at E (JR E fuel) hs v key s.

(* `try: job.link_scheduler(..) except Exception: job.job_finish(); raise` applied to the result [m] of link_scheduler:
   when job_finish raises itself, that exception propagates *)
Definition finish_on_error (fuel j : nat) (m : MJ) : MJ :=
  match m with
  | None => None
  | Some (s1, JRet) => Some (s1, JRet)
  | Some (s1, JExc e) =>
      match gen_job_finish E fuel j s1 with
      | None => None
      | Some (s2, JRet) => Some (s2, JExc e)
      | Some (s2, JExc e') => Some (s2, JExc e')
      end
  end.

(* THE ORDER: the store is asked first - a refusal ends _add_job before the job has seen the scheduler -, then the job
   is linked in the state the store left, then (on an exception) finished in the state link_scheduler left *)
Theorem gen_add_job_shape fuel hs j s :
  gen_add_job fuel hs j s =
  match (if hs then g_InMemoryStore_add_job j s else Some (s, JRet)) with
  | None => None
  | Some (s0, JExc e) => Some (s0, JExc e)
  | Some (s0, JRet) => finish_on_error fuel j (gen_link_scheduler E fuel j s0)
  end.
Proof.
  unfold gen_add_job, g_JobBuilder_add_job, finish_on_error, gen_link_scheduler, gen_job_finish. cbv zeta.
  destruct hs; [destruct (g_InMemoryStore_add_job j s) as [[s0 [|e]]|]; [|reflexivity|reflexivity]|];
    (destruct (g_link_scheduler E (JR E fuel) j _) as [[s1 [|e1]]|]; [reflexivity| |reflexivity]);
    destruct (g_job_finish E (JR E fuel) j s1) as [[s2 [|e2]]|]; reflexivity.
Qed.

Lemma create_first_kind j b1 b s1 :
  jkind b1 = jkind b -> jexec_t b1 = jexec_t b -> create_first E j b1 s1 = create_first E j b s1.
Proof. intros Hk Ht. unfold create_first. rewrite Hk, Ht. reflexivity. Qed.

Lemma create_first_raised j b s1 s2 e :
  create_first E j b s1 = (s2, Raised e) -> s2 = s1 \/ s2 = add_ev (EProd j) s1.
Proof.
  unfold create_first. destruct (jkind b).
  - destruct (too_old s1 (jexec_t b)); intros H; injection H as <-; [left; reflexivity|discriminate].
  - discriminate.
  - cbv zeta. destruct (prod E j _ _) as [v|e'|]; [|intros H; injection H as <-; right; reflexivity|discriminate].
    destruct (too_old _ v); intros H; [injection H as <-; right; reflexivity|discriminate].
Qed.

(* link_scheduler + the handler, from a state [s0] in which the new object sits in slot njobs s, is (or is not) known to
   the store, and is not linked yet: the rest of Sched.create *)
Lemma link_tail fuel hs b s s0 s' r :
  Inv s -> jstatus b = Created -> jnext b = None ->
  jlinked (jobs s0 (njobs s)) = false ->
  eqst (set_job (njobs s) (with_linked (jobs s0 (njobs s)) true) s0) (alloc hs b s) ->
  create_rest E fuel (njobs s) (create_first E (njobs s) b (alloc hs b s)) = (s', r) -> r <> NoFuel ->
  exists g, finish_on_error fuel (njobs s) (gen_link_scheduler E fuel (njobs s) s0) = ret_of r g /\ eqst g s'.
Proof.
  intros I Hbs Hbn Hul Heq H Hr.
  set (j := njobs s) in *.
  remember (set_job j (with_linked (jobs s0 j) true) s0) as s1g eqn:Es1g.
  remember (alloc hs b s) as sm eqn:Esm.
  destruct (alloc_fields hs b s) as (a1 & a2 & _). rewrite <- Esm in a1, a2.
  assert (Im : Inv sm) by (subst sm; apply (alloc_inv (fun _ => True) (fun _ => True)); assumption).
  assert (I1 : Inv s1g) by (eapply Inv_eqst; [apply eqst_sym; exact Heq|exact Im]).
  assert (Hq1 : queue s1g = queue s) by (destruct Heq as (_ & _ & _ & Hq & _); congruence).
  assert (Hnq1 : ~ In j (queue s1g)) by (rewrite Hq1; apply fresh_not_queued; exact (proj1 I)).
  assert (Hb1 : jobs s1g j = with_linked (with_stored b hs) true).
  { destruct Heq as (_ & _ & _ & _ & Hj & _). rewrite Hj, a2. unfold upd. fold j. rewrite Nat.eqb_refl. reflexivity. }
  pose proof (gen_link_is_create_first E fuel j s0) as G. cbv zeta in G. rewrite <- Es1g in G.
  specialize (G Hul I1 Hnq1). rewrite Hb1 in G.
  rewrite (create_first_kind j (with_linked (with_stored b hs) true) b s1g eq_refl eq_refl) in G.
  destruct (create_first_eqst E j b s1g sm Heq) as (Hfs & Hsn).
  destruct (create_first E j b s1g) as (s2g, og) eqn:Eg. destruct (create_first E j b sm) as (s2m, om) eqn:Em.
  cbn [fst snd] in Hfs, Hsn. subst og. unfold create_rest in H.
  destruct om as [|e|].
  - (* accepted *)
    unfold lift in H. destruct (add_job E fuel j s2m) as [s3m|] eqn:Ea; injection H as <- <-; [|congruence].
    pose proof (add_job_eqst E fuel j _ _ Hfs) as Ho. rewrite Ea in Ho.
    destruct (add_job E fuel j s2g) as [s3g|] eqn:Eag; cbn [orel] in Ho; [|contradiction].
    exists s3g. rewrite (G s3g eq_refl). split; [reflexivity|exact Ho].
  - (* refused by link_scheduler: finished again, the exception re-raised *)
    destruct (job_finish E fuel j s2m) as [s3m|] eqn:Ef; injection H as <- <-; [|congruence].
    rewrite G. unfold finish_on_error.
    assert (Hs2 : jobs s2g j = jobs s1g j /\ Inv s2g).
    { destruct (create_first_raised _ _ _ _ _ Eg) as [->| ->]; [split; [reflexivity|exact I1]|].
      split; [reflexivity|apply Inv_add_ev; exact I1]. }
    destruct Hs2 as (Hjj & I2).
    assert (Hnf : jstatus (jobs s2g j) <> Finished) by (rewrite Hjj, Hb1; cbn; congruence).
    assert (Hlk : jlinked (jobs s2g j) = true) by (rewrite Hjj, Hb1; reflexivity).
    unfold gen_job_finish. rewrite (gen_job_finish_open E (JR E fuel) j s2g Hnf Hlk).
    unfold finish_open. cbn [jr_remove_job jrec_of JR].
    rewrite job_finish_eq in Ef. destruct (remove_job E fuel j s2m) as [s4m|] eqn:Erm; [|discriminate].
    injection Ef as <-.
    pose proof (remove_job_eqst E fuel j _ _ Hfs) as Ho. rewrite Erm in Ho.
    destruct (remove_job E fuel j s2g) as [s4g|] eqn:Erg; cbn [orel] in Ho; [|contradiction].
    rewrite (gen2_remove_inv E fuel j s2g s4g I2 Erg).
    exists (finish_job E j s4g). split; [reflexivity|apply finish_job_eqst; exact Ho].
  - injection H as <- <-. congruence.
Qed.

(* a job object as the constructors make it *)
Definition fresh_job (b : job) : Prop :=
  jstatus b = Created /\ jnext b = None /\ jlinked b = false /\ jstored b = false.

Lemma fresh_new_job k t secs key : fresh_job (new_job k t secs key).
Proof. repeat split. Qed.

Lemma with_stored_same b : jstored b = false -> with_stored b false = b.
Proof. destruct b. cbn. intros ->. reflexivity. Qed.

(* what "the generated code computes Sched.create" means.  [m] is the result of the generated code started in the
   state in which the constructor has put the new object [b] into slot njobs s. *)
Definition create_agrees (hs : bool) (b : job) (s s' : st) (r : outcome) (m : MJ) : Prop :=
  if hs && store_has (jkey b) (store s)
  then (* refused by the store: KeyError, nothing changes (the model does not count the unreferenced object) *)
       m = Some (alloc_obj b s, JExc (JErr EKeyError)) /\ s' = s /\ r = Raised EKeyError
  else exists g, m = ret_of r g /\ eqst g s'.

Theorem gen_add_job_is_create fuel hs b s s' r :
  Inv s -> fresh_job b -> create E fuel hs b s = (s', r) -> r <> NoFuel ->
  create_agrees hs b s s' r (gen_add_job fuel hs (njobs s) (alloc_obj b s)).
Proof.
  intros I (Hbs & Hbn & Hbl & Hbst) H Hr. rewrite create_eq in H. unfold create_agrees.
  set (j := njobs s) in *. set (sa := alloc_obj b s).
  assert (Hja : jobs sa j = b).
  { unfold sa, alloc_obj. cbn [jobs set_njobs set_job set_jobs]. unfold upd. fold j. rewrite Nat.eqb_refl. reflexivity. }
  rewrite gen_add_job_shape.
  destruct hs; cbn [andb] in H |- *.
  - rewrite gen_store_add_job by (rewrite Hja; exact Hbst). rewrite Hja.
    change (store sa) with (store s).
    destruct (store_has (jkey b) (store s)) eqn:Eh; [injection H as <- <-; repeat split|].
    apply (link_tail fuel true b s _ s' r I Hbs Hbn); [| |exact H|exact Hr].
    + fold j. rewrite jobs_upd_same. exact Hbl.
    + fold j. rewrite jobs_upd_same. unfold sa, alloc_obj, alloc. fold j.
      unfold eqst. cbn [now enabled timer queue jobs njobs store log opi broken set_job set_jobs set_njobs set_store
                        jkey with_linked with_stored].
      repeat split. intros k. unfold upd. destruct (Nat.eqb k j); reflexivity.
  - apply (link_tail fuel false b s sa s' r I Hbs Hbn); [| |exact H|exact Hr].
    + fold j. rewrite Hja. exact Hbl.
    + fold j. rewrite Hja. unfold sa, alloc_obj, alloc. fold j. rewrite (with_stored_same b Hbst).
      unfold eqst. cbn [now enabled timer queue jobs njobs store log opi broken set_job set_jobs set_njobs set_store].
      repeat split. intros k. unfold upd. destruct (Nat.eqb k j); reflexivity.
Qed.

Lemma mj_eta (m : MJ) :
  match m with
  | None => None
  | Some (s, r) => match r with JRet => Some (s, JRet) | JExc e => Some (s, JExc e) end
  end = m.
Proof. destruct m as [[s [|e]]|]; reflexivity. Qed.

(* the three entry points; the conversion of the argument has yielded the model's value ... *)
Theorem gen_countdown_is_model fuel hs s secs key s' r :
  Inv s -> 0 < secs -> step_op E fuel hs s (OCountdown secs key) = (s', r) -> r <> NoFuel ->
  create_agrees hs (new_job KCountdown 0 secs key) s s' r (gen_countdown fuel hs (CVal secs) key s).
Proof.
  intros I Hs H Hr. cbn [step_op] in H. replace (secs <=? 0) with false in H by lia.
  pose proof (gen_add_job_is_create fuel hs _ s s' r I (fresh_new_job _ _ _ _) H Hr) as G.
  replace (gen_countdown fuel hs (CVal secs) key s) with (gen_add_job fuel hs (njobs s) (alloc_obj (new_job KCountdown 0 secs key) s));
    [exact G|symmetry; apply mj_eta].
Qed.

Theorem gen_once_is_model fuel hs s t key s' r :
  Inv s -> step_op E fuel hs s (OOnce t key) = (s', r) -> r <> NoFuel ->
  create_agrees hs (new_job KOnce t 0 key) s s' r (gen_once fuel hs (CVal t) key s).
Proof.
  intros I H Hr. cbn [step_op] in H.
  pose proof (gen_add_job_is_create fuel hs _ s s' r I (fresh_new_job _ _ _ _) H Hr) as G.
  replace (gen_once fuel hs (CVal t) key s) with (gen_add_job fuel hs (njobs s) (alloc_obj (new_job KOnce t 0 key) s));
    [exact G|symmetry; apply mj_eta].
Qed.

Theorem gen_at_is_model fuel hs s key s' r :
  Inv s -> step_op E fuel hs s (OAt key) = (s', r) -> r <> NoFuel ->
  create_agrees hs (new_job KAt 0 0 key) s s' r (gen_at fuel hs (CVal tt) key s).
Proof.
  intros I H Hr. cbn [step_op] in H.
  pose proof (gen_add_job_is_create fuel hs _ s s' r I (fresh_new_job _ _ _ _) H Hr) as G.
  replace (gen_at fuel hs (CVal tt) key s) with (gen_add_job fuel hs (njobs s) (alloc_obj (new_job KAt 0 0 key) s));
    [exact G|symmetry; apply mj_eta].
Qed.

(* ... or it has raised: the entry point raises the same exception and nothing happens (no object, no store entry,
   the scheduler is not touched).  For countdown() this is the model's ValueError on secs <= 0. *)
Theorem gen_entry_conv_raises fuel hs e key s :
  gen_countdown fuel hs (CExc e) key s = Some (s, JExc (JErr e)) /\
  gen_once fuel hs (CExc e) key s = Some (s, JExc (JErr e)) /\
  gen_at fuel hs (CExc e) key s = Some (s, JExc (JErr e)).
Proof. repeat split. Qed.

Theorem gen_countdown_nonpositive fuel hs s secs key :
  secs <= 0 ->
  step_op E fuel hs s (OCountdown secs key) = (s, Raised EValueError) /\
  gen_countdown fuel hs (CExc EValueError) key s = ret_of (Raised EValueError) s.
Proof. intros Hs. cbn [step_op]. replace (secs <=? 0) with true by lia. split; reflexivity. Qed.

End Eq.

(* ------------------------------------------------------------------------------------------- *)
(* 3. the control classes: thin wrappers around the generated job methods *)
Section Ctl.
Variable E : env.

Definition gen_ctl_cancel (fuel j : nat) (s : st) : MJ := g_BaseControl_cancel E (JR E fuel) j s.
Definition gen_ctl_pause (fuel j : nat) (s : st) : MJ := g_DateTimeJobControl_pause E (JR E fuel) j s.
Definition gen_ctl_resume (fuel j : nat) (s : st) : MJ := g_DateTimeJobControl_resume E (JR E fuel) j s.
Definition gen_ctl_stop (fuel j : nat) (s : st) : MJ := g_CountdownJobControl_stop E (JR E fuel) j s.
Definition gen_ctl_reset (fuel j : nat) (s : st) : MJ := g_CountdownJobControl_reset E (JR E fuel) j s.
Definition gen_ctl_set_countdown (fuel j : nat) (secs : Z) (s : st) : MJ :=
  g_CountdownJobControl_set_countdown E (JR E fuel) j secs s.

(* which job method each control method calls (and nothing else: the result and the state are the job method's) *)
Theorem gen_ctl_calls fuel j secs s :
  gen_ctl_cancel fuel j s = gen_job_finish E fuel j s /\
  gen_ctl_pause fuel j s = gen_job_pause E fuel j s /\
  gen_ctl_resume fuel j s = gen_job_resume E fuel j s /\
  gen_ctl_stop fuel j s = gen_job_pause E fuel j s /\
  gen_ctl_reset fuel j s = gen_reset E fuel j s /\
  gen_ctl_set_countdown fuel j secs s = gen_set_countdown E fuel j secs s.
Proof. repeat split; apply mj_eta. Qed.

Theorem gen_ctl_cancel_is_model fuel hs s j s' r :
  Inv s -> LiveLinked s -> (j < njobs s)%nat ->
  step_op E fuel hs s (OCancel j) = (s', r) -> r <> NoFuel -> gen_ctl_cancel fuel j s = ret_of r s'.
Proof.
  intros I L Hj H Hr. destruct (gen_ctl_calls fuel j 0 s) as (-> & _). eapply gen_cancel_is_model; eassumption.
Qed.

Theorem gen_ctl_pause_is_model fuel hs s j s' r :
  Inv s -> LiveLinked s -> (j < njobs s)%nat -> jkind (jobs s j) = KAt ->
  step_op E fuel hs s (OPause j) = (s', r) -> r <> NoFuel -> gen_ctl_pause fuel j s = ret_of r s'.
Proof.
  intros I L Hj Hk H Hr. destruct (gen_ctl_calls fuel j 0 s) as (_ & -> & _).
  eapply gen_pause_is_model; try eassumption. congruence.
Qed.

Theorem gen_ctl_stop_is_model fuel hs s j s' r :
  Inv s -> LiveLinked s -> (j < njobs s)%nat -> jkind (jobs s j) = KCountdown ->
  step_op E fuel hs s (OPause j) = (s', r) -> r <> NoFuel -> gen_ctl_stop fuel j s = ret_of r s'.
Proof.
  intros I L Hj Hk H Hr. destruct (gen_ctl_calls fuel j 0 s) as (_ & _ & _ & -> & _).
  eapply gen_pause_is_model; try eassumption. congruence.
Qed.

Theorem gen_ctl_resume_is_model fuel hs s j s' r :
  Inv s -> jkind (jobs s j) = KAt ->
  step_op E fuel hs s (OResume j) = (s', r) -> r <> NoFuel -> gen_ctl_resume fuel j s = ret_of r s'.
Proof.
  intros I Hk H Hr. destruct (gen_ctl_calls fuel j 0 s) as (_ & _ & -> & _). eapply gen_resume_is_model; eassumption.
Qed.

Theorem gen_ctl_reset_is_model fuel hs s j s' r :
  Inv s -> jkind (jobs s j) = KCountdown -> 0 <= jsecs (jobs s j) ->
  step_op E fuel hs s (OReset j) = (s', r) -> r <> NoFuel -> gen_ctl_reset fuel j s = ret_of r s'.
Proof.
  intros I Hk Hs H Hr. destruct (gen_ctl_calls fuel j 0 s) as (_ & _ & _ & _ & -> & _).
  eapply gen_reset_is_model; eassumption.
Qed.

Theorem gen_ctl_set_countdown_is_model fuel hs s j secs s' r :
  jkind (jobs s j) = KCountdown ->
  step_op E fuel hs s (OSetCountdown j secs) = (s', r) -> gen_ctl_set_countdown fuel j secs s = ret_of r s'.
Proof.
  intros Hk H. destruct (gen_ctl_calls fuel j secs s) as (_ & _ & _ & _ & _ & ->).
  eapply gen_set_countdown_is_model; eassumption.
Qed.

End Ctl.

(* every hypothesis used above - Inv (create, the control operations), LiveLinked (cancel / pause / stop), StoreInv =
   StoreOK + StoredBound (the store's callback and lookups) - holds in every reachable state *)
Theorem gen_builder_hyps_reachable E fuel hs t0 en ops s rs :
  run E fuel hs (init t0 en) ops = (s, rs) -> ~ In NoFuel rs -> Inv s /\ LiveLinked s /\ StoreInv s.
Proof.
  intros H Hr. destruct (LiveLinked_reachable E fuel hs t0 en ops s rs H Hr) as (L & I).
  split; [exact I|]. split; [exact L|].
  eapply run_store; [apply Inv_init|apply StoreInv_init|exact H|exact Hr].
Qed.

(* `==` on controls is identity of the job; anything that is not a control is different *)
Theorem gen_ctl_eq a o : g_BaseControl_eq a o = true <-> o = Some a.
Proof.
  unfold g_BaseControl_eq. destruct o as [b|]; [|split; discriminate].
  rewrite Nat.eqb_eq. split; [intros ->; reflexivity|intros H; injection H as ->; reflexivity].
Qed.

(* the properties: what they read, and (on every reachable state) RUNNING exactly when a next run is reported *)
Theorem gen_ctl_properties tz j s :
  g_BaseControl_status j s = jstatus (jobs s j) /\ g_BaseControl_id j s = jkey (jobs s j) /\
  g_BaseControl_next_run_datetime tz j s = option_map tz (jnext (jobs s j)).
Proof. unfold g_BaseControl_next_run_datetime. destruct (jnext (jobs s j)); repeat split. Qed.

Theorem gen_ctl_status_next tz j s :
  Inv s -> (g_BaseControl_status j s = Running <-> g_BaseControl_next_run_datetime tz j s <> None).
Proof.
  intros (W & _). unfold g_BaseControl_status, g_BaseControl_next_run_datetime.
  rewrite (wf_sn _ _ W j). unfold nxt. destruct (jnext (jobs s j)); split; congruence.
Qed.

(* ------------------------------------------------------------------------------------------- *)
(* 4. the executors *)

(* SyncExecutor.execute is what the job classes' `self.executor.execute()` was taken to be (GenRtJobs.run_executor,
   T5 of gen_jobs.py): the callable is entered, an exception is handed to process_exception, execute() returns *)
Theorem gen_sync_execute_is_run_executor E j s : g_SyncExecutor_execute E j s = Some (run_executor E j s, JRet).
Proof.
  unfold g_SyncExecutor_execute, call_func, run_executor. cbv zeta.
  destruct (fail_exec E j (count_exec j (log s))); reflexivity.
Qed.

Theorem gen_sync_execute_is_exec_pre E j t s :
  jnext (jobs s j) = Some t -> g_SyncExecutor_execute E j s = Some (exec_pre E j t s, JRet).
Proof. intros H. rewrite gen_sync_execute_is_run_executor, (run_executor_is_exec_pre E j t s H). reflexivity. Qed.

(* AsyncExecutor._execute, one resumption: what the task sees and whether the handler is called are AsyncExec's *)
Theorem gen_async_step_is_wrap o :
  g_AsyncExecutor_execute_step o = (AsyncExec.wrap_next o, AsyncExec.handler_called o).
Proof. destruct o; reflexivity. Qed.

Theorem gen_async_is_wrap_beh w b :
  (fst b, fst (g_AsyncExecutor_execute_step (AsyncExec.user_out w (snd b)))) = AsyncExec.wrap_beh w b /\
  snd (g_AsyncExecutor_execute_step (AsyncExec.user_out w (snd b))) =
    AsyncExec.handler_called (AsyncExec.user_out w (snd b)).
Proof. rewrite gen_async_step_is_wrap. split; reflexivity. Qed.

(* AsyncExecutor.execute hands the WRAPPER to the task manager, not the user's coroutine *)
Theorem gen_async_submits_wrapper : g_AsyncExecutor_execute_submits = CoWrapper.
Proof. reflexivity. Qed.

(* ------------------------------------------------------------------------------------------- *)
(* The hypotheses are satisfiable and the statements say something: on the reachable state of GenJobsEq.jx_state (three
   jobs with ids 11 12 13 in the store, all due) the generated entry points and the model agree - an accepted job, a
   duplicate id, a one-shot job in the past (finished again, not in the store, ScheduledRunInThePastError re-raised).
   [bx_f2]: a one-shot job that is overdue within the tolerance and becomes the head of the queue: link_scheduler
   runs it synchronously, the new job finishes DURING its creation and is not in the store afterwards (the repaired
   defect F2: with link before store the finished job would stay in the store for ever). *)
Definition bx_model (o : op) := step_op jx_env 40 true jx_state o.

Example bx_entry_points :
  jx_obs_MJ (gen_once jx_env 40 true (CVal 6000000000) 14 jx_state) =
    jx_obs_MJ (ret_of (snd (bx_model (OOnce 6000000000 14))) (fst (bx_model (OOnce 6000000000 14)))) /\
  snd (bx_model (OOnce 6000000000 14)) = Done /\
  (exists s', gen_countdown jx_env 40 true (CVal 1000000000) 11 jx_state = Some (s', JExc (JErr EKeyError)) /\
              (store s', queue s', log s') = (store jx_state, queue jx_state, log jx_state)) /\
  bx_model (OCountdown 1000000000 11) = (jx_state, Raised EKeyError) /\
  jx_obs_MJ (gen_once jx_env 40 true (CVal 1000000000) 15 jx_state) =
    jx_obs_MJ (ret_of (snd (bx_model (OOnce 1000000000 15))) (fst (bx_model (OOnce 1000000000 15)))) /\
  snd (bx_model (OOnce 1000000000 15)) = Raised EPast /\
  store (fst (bx_model (OOnce 1000000000 15))) = store jx_state /\
  jstatus (jobs (fst (bx_model (OOnce 1000000000 15))) 3) = Finished /\
  jx_obs_MJ (gen_at jx_env 40 true (CVal tt) 17 jx_state) =
    jx_obs_MJ (ret_of (snd (bx_model (OAt 17))) (fst (bx_model (OAt 17)))).
Proof. vm_compute. repeat split. eexists. split; reflexivity. Qed.

Definition bx_state2 : st :=
  fst (run jx_env 40 true (init 0 true) [OOnce 5000000000 11; OCountdown 3000000000 12; OAt 13; OAdvance 950000000]).
Definition bx_model2 (o : op) := step_op jx_env 40 true bx_state2 o.

Example bx_f2 :
  jx_obs_MJ (gen_once jx_env 40 true (CVal 900000000) 16 bx_state2) =
    jx_obs_MJ (ret_of (snd (bx_model2 (OOnce 900000000 16))) (fst (bx_model2 (OOnce 900000000 16)))) /\
  snd (bx_model2 (OOnce 900000000 16)) = Done /\
  jstatus (jobs (fst (bx_model2 (OOnce 900000000 16))) 3) = Finished /\
  count_exec 3 (log (fst (bx_model2 (OOnce 900000000 16)))) = 1%nat /\
  store_has 16 (store (fst (bx_model2 (OOnce 900000000 16)))) = false.
Proof. vm_compute. repeat split. Qed.

Example bx_controls :
  jx_obs_MJ (gen_ctl_cancel jx_env 40 0 jx_state) =
    jx_obs_MJ (ret_of (snd (bx_model (OCancel 0))) (fst (bx_model (OCancel 0)))) /\
  jx_obs_MJ (gen_ctl_stop jx_env 40 1 jx_state) =
    jx_obs_MJ (ret_of (snd (bx_model (OPause 1))) (fst (bx_model (OPause 1)))) /\
  jx_obs_MJ (gen_ctl_resume jx_env 40 2 jx_state) =
    jx_obs_MJ (ret_of (snd (bx_model (OResume 2))) (fst (bx_model (OResume 2)))) /\
  g_InMemoryStore_get 12 jx_state = Some 1%nat /\ g_InMemoryStore_contains 99 jx_state = false /\
  g_InMemoryStore_len jx_state = 3%nat /\ g_BaseControl_status 1 jx_state = Running.
Proof. vm_compute. repeat split. Qed.
