(* SchedProps.v — consequences of the invariant that the properties C01 C02 C07 C08 C09 C10 ask for. *)
From EAS Require Import Base BaseFacts Sched SchedInv SchedApi.
From EASGen Require Import Generated.
From Coq Require Import Sorted.

Section Props.
Variable E : env.

(* ------------------------------------------------------------------------------------------- *)
(* C01: after a wake-up of an enabled scheduler nothing that is due is left                      *)
Theorem wake_runs_due fuel hs s s' :
  Inv s -> step_op E fuel hs s OWake = (s', Done) -> enabled s' = true -> NoDue s'.
Proof.
  intros I H En. cbn [step_op] in H.
  destruct I as (W & T).
  destruct (timer s) as [w|] eqn:Ew.
  - destruct (w <=? now s) eqn:Ele.
    + unfold lift in H. destruct (run_jobs E fuel s) as [s2|] eqn:ER; [|discriminate]. injection H as <-.
      destruct (core_specs_all E fuel) as (_ & Hrj & _).
      destruct (Hrj [] _ _ W (Inv_enabled_of_timer _ _ (conj W T) Ew) ER) as (_ & _ & c & _). exact c.
    + injection H as <-. eapply head_nodue; [exact W|].
      unfold HeadNotDue. unfold TimerOK in T. destruct (queue s) as [|h q]; [exact I|].
      rewrite En in T. exists w. split; [congruence|lia].
  - injection H as <-. unfold TimerOK in T. intros j Hj.
    destruct (queue s) as [|h q] eqn:Eq; [destruct Hj|].
    rewrite En in T. exfalso.
    assert (Hin : In h (queue s)) by (rewrite Eq; left; reflexivity).
    destruct (wf_q _ _ W h Hin) as (Hr & _). apply (wf_sn _ _ W) in Hr. congruence.
Qed.

(* C01: re-enabling a disabled scheduler runs everything that became due in the meantime *)
Theorem enable_runs_due fuel hs s s' :
  Inv s -> enabled s = false -> step_op E fuel hs s (OEnable true) = (s', Done) -> NoDue s' /\ enabled s' = true.
Proof.
  intros (W & T) En H. cbn [step_op] in H. rewrite En in H. cbn [Bool.eqb] in H. cbv zeta in H.
  unfold lift in H. destruct (set_timer E fuel (set_enabled_f true s)) as [s2|] eqn:ES; [|discriminate].
  injection H as <-.
  destruct (core_specs_all E fuel) as (Hst & _).
  assert (W1 : WFq [] (set_enabled_f true s)) by (eapply WFq_view; [|exact W]; apply fields_view; reflexivity).
  destruct (Hst [] _ _ W1 ES) as (_ & _ & c & (_ & e & _)). split; [apply c; reflexivity|rewrite e; reflexivity].
Qed.

(* an early wake-up (the timer fires although its time is not reached) re-arms the same timer
   and changes nothing else *)
Theorem early_wake_harmless fuel hs s s' w :
  Inv s -> timer s = Some w -> now s < w -> step_op E (S (S (S fuel))) hs s OEarlyWake = (s', Done) ->
  s' = s.
Proof.
  intros (W & T) Ew Hlt H. cbn [step_op] in H. rewrite Ew in H. unfold lift in H.
  rewrite run_jobs_S in H. cbv zeta in H. rewrite run_loop_S in H.
  cbn [queue set_timer_f] in H.
  unfold TimerOK in T. destruct (queue s) as [|h q] eqn:Eq; [congruence|].
  assert (En : enabled s = true) by (destruct (enabled s); [reflexivity|congruence]).
  rewrite En in T. unfold nxt in T. cbn [jobs set_timer_f] in H. rewrite <- T, Ew in H.
  cbn [now set_timer_f] in H. replace (now s <? w) with true in H by (symmetry; apply Z.ltb_lt; exact Hlt).
  cbn [broken set_timer_f queue] in H. rewrite (wf_nb _ _ W), Eq in H.
  rewrite set_timer_S in H. cbv zeta in H. cbn [queue set_timer_f enabled jobs now] in H.
  rewrite Eq, En in H. cbn [negb] in H. rewrite <- T, Ew in H.
  replace (w <=? now s) with false in H by (symmetry; apply Z.leb_gt; exact Hlt).
  injection H as <-. destruct s; cbn in *. subst. rewrite Ew. reflexivity.
Qed.

(* ------------------------------------------------------------------------------------------- *)
(* C07: status and next-run time agree in every reachable state *)
Theorem status_next_agree s j :
  Inv s ->
  (jstatus (jobs s j) = Running <-> jnext (jobs s j) <> None) /\
  (jstatus (jobs s j) <> Running -> jnext (jobs s j) = None).
Proof.
  intros (W & _). pose proof (wf_sn _ _ W j) as H. unfold nxt in H. split; [exact H|].
  intros Hn. destruct (jnext (jobs s j)) eqn:En; [|reflexivity]. exfalso. apply Hn. apply H. congruence.
Qed.

Definition control_op_on (j : nat) (o : op) : Prop :=
  o = OCancel j \/ o = OPause j \/ o = OResume j \/ o = OReset j \/ exists secs, o = OSetCountdown j secs.

(* C07: finished is terminal: every further control operation raises and changes nothing *)
Theorem finished_terminal fuel hs s j o :
  Inv s -> jstatus (jobs s j) = Finished -> control_op_on j o ->
  exists e, step_op E fuel hs s o = (s, Raised e).
Proof.
  intros (W & _) Hf Hc.
  assert (Hfin : is_finished s j = true) by (unfold is_finished; rewrite Hf; reflexivity).
  pose proof (wf_fin _ _ W j Hf) as Hl.
  destruct Hc as [->|[->|[->|[->|(secs & ->)]]]]; cbn [step_op]; rewrite ?Hfin, ?Hl; cbn [negb]; eauto.
Qed.

(* C02 / C09: the queue holds exactly the running jobs, once each, in chronological order *)
Theorem queue_exact s :
  Inv s ->
  NoDup (queue s) /\ StronglySorted (le_next s) (queue s) /\
  (forall j, In j (queue s) <-> jstatus (jobs s j) = Running).
Proof.
  intros (W & _). split; [apply (wf_nodup _ _ W)|]. split; [apply (wf_sorted _ _ W)|].
  intros j; split; [intros H; apply (wf_q _ _ W j H)|].
  intros H. destruct (wf_r _ _ W j H) as [|[]]; assumption.
Qed.

(* C01: the armed timer is the head's next-run time whenever the scheduler is enabled *)
Theorem timer_armed_for_head s :
  Inv s -> match queue s with
           | [] => timer s = None
           | h :: _ => if enabled s then timer s = jnext (jobs s h) /\ jnext (jobs s h) <> None else timer s = None
           end.
Proof.
  intros (W & T). unfold TimerOK in T. destruct (queue s) as [|h q] eqn:Eq; [exact T|].
  destruct (enabled s); [|exact T]. split; [exact T|].
  assert (Hin : In h (queue s)) by (rewrite Eq; left; reflexivity).
  destruct (wf_q _ _ W h Hin) as (Hr & _). apply (wf_sn _ _ W) in Hr. exact Hr.
Qed.

(* ------------------------------------------------------------------------------------------- *)
(* C02: a disabled scheduler starts nothing *)
Fixpoint execs (l : list event) : list event :=
  match l with
  | [] => []
  | EExec j a b o :: t => EExec j a b o :: execs t
  | _ :: t => execs t
  end.

Lemma set_timer_disabled f s s' : enabled s = false -> set_timer E f s = Some s' -> s' = set_timer_f None s.
Proof.
  intros En H. destruct f as [|f]; [discriminate|]. rewrite set_timer_S in H. cbv zeta in H.
  cbn [queue set_timer_f enabled] in H. rewrite En in H. cbn [negb] in H.
  destruct (queue s); injection H as <-; reflexivity.
Qed.

Definition quiet (s s' : st) : Prop := execs (log s') = execs (log s) /\ enabled s' = enabled s.

Lemma quiet_refl s : quiet s s. Proof. split; reflexivity. Qed.
Lemma quiet_trans a b c : quiet a b -> quiet b c -> quiet a c.
Proof. unfold quiet; intros (?&?) (?&?); split; congruence. Qed.

Lemma add_job_disabled f j s s' : enabled s = false -> add_job E f j s = Some s' -> quiet s s'.
Proof.
  intros En H. destruct f as [|f]; [discriminate|]. rewrite add_job_S in H.
  destruct (status_eqb _ _); [|injection H as <-; apply quiet_refl]. cbv zeta in H.
  destruct (is_head _ _); [|injection H as <-; split; reflexivity].
  apply set_timer_disabled in H; [|exact En]. subst s'. split; reflexivity.
Qed.

Lemma remove_job_disabled f j s s' : enabled s = false -> remove_job E f j s = Some s' -> quiet s s'.
Proof.
  intros En H. destruct f as [|f]; [discriminate|]. rewrite remove_job_S in H.
  destruct (queue s) as [|h t]; [apply set_timer_disabled in H; [subst s'; split; reflexivity|exact En]|].
  cbv zeta in H.
  destruct (remove_first j (h :: t)).
  - apply set_timer_disabled in H; [subst s'; split; reflexivity|exact En].
  - destruct (Nat.eqb h j); [|injection H as <-; split; reflexivity].
    apply set_timer_disabled in H; [subst s'; split; reflexivity|exact En].
Qed.

Lemma execs_run_cbs mk cbs s : (forall cb, execs [mk cb] = []) -> quiet s (run_cbs E mk cbs s).
Proof.
  intros Hmk. revert s; induction cbs as [|cb t IH]; intros s; cbn [run_cbs]; [apply quiet_refl|].
  eapply quiet_trans; [|apply IH].
  specialize (Hmk cb). destruct (fail_cb E cb _); split; cbn [log add_ev set_log execs enabled]; try reflexivity;
    destruct (mk cb); cbn in *; try reflexivity; discriminate.
Qed.

Lemma quiet_set_next_run j nx s : quiet s (set_next_run E j nx s).
Proof. unfold set_next_run. eapply quiet_trans; [|apply execs_run_cbs; reflexivity]. split; reflexivity. Qed.

Lemma quiet_finish_job j s : quiet s (finish_job E j s).
Proof.
  unfold finish_job. eapply quiet_trans; [|apply execs_run_cbs; reflexivity].
  destruct (jstored (jobs s j)); split; reflexivity.
Qed.

Lemma job_finish_disabled f j s s' : enabled s = false -> job_finish E f j s = Some s' -> quiet s s'.
Proof.
  intros En H. rewrite job_finish_eq in H. destruct (remove_job E f j s) as [s1|] eqn:ER; [|discriminate].
  injection H as <-. eapply quiet_trans; [eapply remove_job_disabled; eassumption|apply quiet_finish_job].
Qed.

Lemma update_job_disabled f j s s' : enabled s = false -> update_job E f j s = Some s' -> quiet s s'.
Proof.
  intros En H. unfold update_job in H. destruct (remove_job E f j s) as [s1|] eqn:ER; [|discriminate].
  pose proof (remove_job_disabled _ _ _ _ En ER) as Q1.
  eapply quiet_trans; [exact Q1|]. eapply add_job_disabled; [|exact H]. destruct Q1 as (_ & e); congruence.
Qed.

Lemma create_disabled fuel hs b s s' r : enabled s = false -> create E fuel hs b s = (s', r) -> quiet s s'.
Proof.
  intros En H. unfold create in H.
  destruct (hs && store_has _ _); [injection H as <- _; apply quiet_refl|]. cbv zeta in H.
  match type of H with context [jkind ?bb] => set (b1 := bb) in * end.
  match type of H with context [too_old ?sx (jexec_t b1)] => set (s1 := sx) in * end.
  assert (Q1 : quiet s s1) by (subst s1; destruct hs; split; reflexivity).
  clearbody s1.
  assert (Hfin : forall sx e, quiet s sx ->
            (match job_finish E fuel (njobs s) sx with Some sy => (sy, Raised e) | None => (sx, NoFuel) end) = (s', r) -> quiet s s').
  { intros sx e Qx Hy. destruct (job_finish E fuel (njobs s) sx) as [sy|] eqn:EF; injection Hy as <- _; [|exact Qx].
    eapply quiet_trans; [exact Qx|]. eapply job_finish_disabled; [|exact EF]. destruct Qx as (_ & e'); congruence. }
  assert (Harm : forall sx nx, quiet s sx ->
            lift (add_job E fuel (njobs s) (set_next_run E (njobs s) nx sx)) (set_next_run E (njobs s) nx sx) = (s', r) -> quiet s s').
  { intros sx nx Qx Hy. unfold lift in Hy.
    assert (Q2 : quiet s (set_next_run E (njobs s) nx sx)) by (eapply quiet_trans; [exact Qx|apply quiet_set_next_run]).
    destruct (add_job E fuel _ _) as [sy|] eqn:EA; injection Hy as <- _; [|exact Q2].
    eapply quiet_trans; [exact Q2|]. eapply add_job_disabled; [|exact EA]. destruct Q2 as (_ & e'); congruence. }
  destruct (jkind b1).
  - destruct (too_old s1 _); [eapply Hfin|eapply Harm]; eassumption.
  - eapply Harm; eassumption.
  - assert (Q2 : quiet s (add_ev (EProd (njobs s)) s1)) by (eapply quiet_trans; [exact Q1|split; reflexivity]).
    destruct (prod E _ _ _) as [v|e|].
    + destruct (too_old _ v); [eapply Hfin|eapply Harm]; eassumption.
    + eapply Hfin; eassumption.
    + injection H as <- _. exact Q2.
Qed.

(* while the scheduler is disabled no operation other than enabling it starts a callable *)
Theorem disabled_quiet fuel hs s o s' r :
  Inv s -> enabled s = false -> o <> OEnable true -> step_op E fuel hs s o = (s', r) ->
  execs (log s') = execs (log s).
Proof.
  intros (W & T) En Ho H. enough (Q : quiet s s') by (apply Q).
  destruct o; cbn [step_op] in H.
  - eapply create_disabled; eassumption.
  - destruct (secs <=? 0); [injection H as <- _; apply quiet_refl|eapply create_disabled; eassumption].
  - eapply create_disabled; eassumption.
  - destruct (is_finished s j); [injection H as <- _; apply quiet_refl|].
    unfold lift in H. destruct (job_finish E fuel j s) as [s1|] eqn:EF; injection H as <- _; [|apply quiet_refl].
    eapply job_finish_disabled; eassumption.
  - destruct (is_finished s j); [injection H as <- _; apply quiet_refl|].
    destruct (remove_job E fuel j s) as [s1|] eqn:ER; injection H as <- _; [|apply quiet_refl].
    eapply quiet_trans; [eapply remove_job_disabled; eassumption|apply quiet_set_next_run].
  - destruct (is_finished s j); [injection H as <- _; apply quiet_refl|].
    destruct (negb _); [injection H as <- _; apply quiet_refl|]. cbv zeta in H.
    assert (Q1 : quiet s (add_ev (EProd j) s)) by (split; reflexivity).
    destruct (prod E j _ _) as [v|e|]; [|injection H as <- _; exact Q1|injection H as <- _; exact Q1].
    destruct (too_old _ v); [injection H as <- _; exact Q1|].
    unfold lift in H. destruct (update_job E fuel j _) as [s2|] eqn:EU; injection H as <- _; [|exact Q1].
    assert (Q2 : quiet s (set_next_run E j (Some v) (add_ev (EProd j) s))) by (eapply quiet_trans; [exact Q1|apply quiet_set_next_run]).
    eapply quiet_trans; [exact Q2|]. eapply update_job_disabled; [|exact EU]. destruct Q2 as (_ & e'); congruence.
  - destruct (negb _); [injection H as <- _; apply quiet_refl|]. cbv zeta in H.
    assert (Q2 : quiet s (set_next_run E j (Some (now s + jsecs (jobs s j))) s)) by apply quiet_set_next_run.
    unfold lift in H. destruct (update_job E fuel j _) as [s2|] eqn:EU; injection H as <- _; [|exact Q2].
    eapply quiet_trans; [exact Q2|]. eapply update_job_disabled; [|exact EU]. destruct Q2 as (_ & e'); congruence.
  - destruct (is_finished s j); [injection H as <- _; apply quiet_refl|].
    destruct (secs <=? 0); injection H as <- _; split; reflexivity.
  - destruct b; [congruence|]. rewrite En in H. cbn [Bool.eqb] in H. injection H as <- _. apply quiet_refl.
  - destruct w; [destruct (memb cb (jcbu (jobs s j)))|destruct (memb cb (jcbf (jobs s j)))];
      injection H as <- _; split; reflexivity.
  - destruct w; injection H as <- _; split; reflexivity.
  - injection H as <- _. split; reflexivity.
  - unfold TimerOK in T. assert (Ht : timer s = None) by (destruct (queue s); [exact T|rewrite En in T; exact T]).
    rewrite Ht in H. injection H as <- _. apply quiet_refl.
  - unfold TimerOK in T. assert (Ht : timer s = None) by (destruct (queue s); [exact T|rewrite En in T; exact T]).
    rewrite Ht in H. injection H as <- _. apply quiet_refl.
Qed.

End Props.
