(* SchedHandled.v — C10: an exception raised by a callable or by a callback is handed to the exception handler
   EXACTLY ONCE.  A generic log principle first: a predicate on the log that is closed under (1) events other
   than starts / callback invocations / their handler events, (2) a start together with its handler event when
   that start fails, (3) a callback invocation together with its handler event when it fails, holds for every
   history.  Then the counting instance. *)
From EAS Require Import Base BaseFacts Sched SchedInv SchedApi.
From EASGen Require Import Generated.

Section LogInv.
Variable E : env.
Variable L : list event -> Prop.

Definition neutral_ev (e : event) : Prop :=
  match e with
  | EExec _ _ _ _ | ECbUpd _ _ _ _ | ECbFin _ _ | EHandler (HExec _) | EHandler (HCb _) => False
  | _ => True
  end.
Definition cb_of (e : event) : option nat :=
  match e with ECbUpd _ cb _ _ | ECbFin _ cb => Some cb | _ => None end.

Hypothesis L_neutral : forall e l, neutral_ev e -> L l -> L (e :: l).
Hypothesis L_exec : forall j at_ a o l, L l ->
  L (if fail_exec E j (count_exec j l) then EHandler (HExec j) :: EExec j at_ a o :: l else EExec j at_ a o :: l).
Hypothesis L_cb : forall e cb l, cb_of e = Some cb -> L l ->
  L (if fail_cb E cb (count_cb cb l) then EHandler (HCb cb) :: e :: l else e :: l).

Definition LogOK (s : st) : Prop := L (log s).

Lemma LogOK_add e s : neutral_ev e -> LogOK s -> LogOK (add_ev e s).
Proof. intros He H. unfold LogOK, add_ev; cbn [log set_log]. apply L_neutral; assumption. Qed.

Lemma LogOK_same s s' : log s' = log s -> LogOK s -> LogOK s'.
Proof. unfold LogOK; intros ->; auto. Qed.

Lemma LogOK_run_cbs mk cbs s : (forall cb, cb_of (mk cb) = Some cb) -> LogOK s -> LogOK (run_cbs E mk cbs s).
Proof.
  intros Hmk. revert s; induction cbs as [|cb t IH]; intros s H; cbn [run_cbs]; [exact H|].
  apply IH. unfold LogOK in *. pose proof (L_cb (mk cb) cb (log s) (Hmk cb) H) as Hc.
  destruct (fail_cb E cb (count_cb cb (log s))); cbn [log add_ev set_log]; exact Hc.
Qed.

Lemma LogOK_set_next_run j nx s : LogOK s -> LogOK (set_next_run E j nx s).
Proof. intros H. unfold set_next_run. apply LogOK_run_cbs; [intros; reflexivity|exact H]. Qed.

Lemma LogOK_finish_job j s : LogOK s -> LogOK (finish_job E j s).
Proof.
  intros H. unfold finish_job. apply LogOK_run_cbs; [intros; reflexivity|].
  destruct (jstored (jobs s j)); exact H.
Qed.

Lemma LogOK_exec_pre j t s : LogOK s -> LogOK (exec_pre E j t s).
Proof.
  intros H. unfold exec_pre, LogOK in *. pose proof (L_exec j (now s) t (opi s) (log s) H) as Hc.
  destruct (fail_exec E j (count_exec j (log s))); cbn [log add_ev set_log]; exact Hc.
Qed.

Definition log_specs (f : nat) : Prop :=
  (forall s s', LogOK s -> set_timer E f s = Some s' -> LogOK s') /\
  (forall s s', LogOK s -> run_jobs E f s = Some s' -> LogOK s') /\
  (forall s s', LogOK s -> run_loop E f s = Some s' -> LogOK s') /\
  (forall j s s', LogOK s -> add_job E f j s = Some s' -> LogOK s') /\
  (forall j s s', LogOK s -> remove_job E f j s = Some s' -> LogOK s') /\
  (forall j t s s', LogOK s -> exec_job E f j t s = Some s' -> LogOK s').

Theorem log_specs_all : forall f, log_specs f.
Proof.
  induction f as [|f (IHst & IHrj & IHlp & IHadd & IHrm & IHex)].
  - repeat split; intros; discriminate.
  - split; [|split; [|split; [|split; [|split]]]].
    + intros s s' H Hs. rewrite set_timer_S in Hs. cbv zeta in Hs.
      destruct (queue (set_timer_f None s)); [injection Hs as <-; exact H|].
      destruct (negb (enabled (set_timer_f None s))); [injection Hs as <-; exact H|].
      destruct (jnext _) as [t|]; [|injection Hs as <-; exact H].
      destruct (t <=? _); [eapply IHrj; [|exact Hs]; exact H|injection Hs as <-; exact H].
    + intros s s' H Hs. rewrite run_jobs_S in Hs. cbv zeta in Hs.
      destruct (run_loop E f (set_timer_f None s)) as [s1|] eqn:EL; [|discriminate].
      assert (H1 : LogOK s1) by (eapply IHlp; [|exact EL]; exact H).
      destruct (broken s1); [injection Hs as <-; exact H1|].
      destruct (queue s1); [injection Hs as <-; exact H1|eapply IHst; eassumption].
    + intros s s' H Hs. rewrite run_loop_S in Hs.
      destruct (queue s) as [|h q]; [injection Hs as <-; exact H|].
      destruct (jnext (jobs s h)) as [t|]; [|injection Hs as <-; apply LogOK_add; [exact I|auto]].
      destruct (now s <? t) eqn:Elt; [injection Hs as <-; exact H|]. cbv zeta in Hs.
      destruct (exec_job E f h t (set_queue q s)) as [s2|] eqn:EX; [|discriminate].
      assert (H2 : LogOK s2) by (eapply (IHex h t (set_queue q s)); [exact H|exact EX]).
      destruct (status_eqb _ _).
      * destruct (add_job E f h s2) as [s3|] eqn:EA; [|discriminate].
        eapply IHlp; [|exact Hs]. eapply IHadd; eassumption.
      * eapply IHlp; eassumption.
    + intros j s s' H Hs. rewrite add_job_S in Hs.
      destruct (status_eqb _ _); [|injection Hs as <-; exact H]. cbv zeta in Hs.
      destruct (is_head _ _); [eapply IHst; [|exact Hs]; exact H|injection Hs as <-; exact H].
    + intros j s s' H Hs. rewrite remove_job_S in Hs.
      destruct (queue s) as [|h t]; [eapply IHst; eassumption|]. cbv zeta in Hs.
      destruct (remove_first j (h :: t)); [eapply IHst; [|exact Hs]; exact H|].
      destruct (Nat.eqb h j); [eapply IHst; [|exact Hs]; exact H|injection Hs as <-; exact H].
    + intros j t s s' H Hs. rewrite exec_job_S in Hs. cbv zeta in Hs.
      assert (H0 : LogOK (exec_pre E j t s)) by (apply LogOK_exec_pre; exact H).
      destruct (jkind _).
      * destruct (remove_job E f j _) as [s1|] eqn:ER; [|discriminate]. injection Hs as <-.
        apply LogOK_finish_job. eapply IHrm; eassumption.
      * injection Hs as <-. apply LogOK_set_next_run. exact H0.
      * destruct (prod E j _ _) as [v|e|]; [|injection Hs as <-; repeat (apply LogOK_add; [exact I|]); auto|discriminate].
        destruct (too_old _ v); injection Hs as <-; [repeat (apply LogOK_add; [exact I|]); auto|].
        apply LogOK_set_next_run. apply LogOK_add; [exact I|auto].
Qed.

Lemma LogOK_job_finish fuel j s s' : LogOK s -> job_finish E fuel j s = Some s' -> LogOK s'.
Proof.
  intros H Hs. rewrite job_finish_eq in Hs. destruct (remove_job E fuel j s) as [s1|] eqn:ER; [|discriminate].
  injection Hs as <-. apply LogOK_finish_job.
  destruct (log_specs_all fuel) as (_ & _ & _ & _ & Hrm & _). eapply Hrm; eassumption.
Qed.

Lemma LogOK_update_job fuel j s s' : LogOK s -> update_job E fuel j s = Some s' -> LogOK s'.
Proof.
  intros H Hs. unfold update_job in Hs. destruct (remove_job E fuel j s) as [s1|] eqn:ER; [|discriminate].
  destruct (log_specs_all fuel) as (_ & _ & _ & Hadd & Hrm & _).
  eapply Hadd; [|exact Hs]. eapply Hrm; eassumption.
Qed.

Lemma LogOK_create fuel hs b s s' r : LogOK s -> create E fuel hs b s = (s', r) -> LogOK s'.
Proof.
  intros H Hs. unfold create in Hs.
  destruct (hs && store_has _ _); [injection Hs as <- _; exact H|]. cbv zeta in Hs.
  match type of Hs with context [jkind ?bb] => set (b1 := bb) in * end.
  match type of Hs with context [too_old ?sx (jexec_t b1)] => set (s1 := sx) in * end.
  assert (H1 : LogOK s1) by (subst s1; destruct hs; exact H).
  clearbody s1.
  destruct (log_specs_all fuel) as (_ & _ & _ & Hadd & _).
  assert (Hfin : forall sx e, LogOK sx ->
            (match job_finish E fuel (njobs s) sx with Some sy => (sy, Raised e) | None => (sx, NoFuel) end) = (s', r) -> LogOK s').
  { intros sx e Hx Hy. destruct (job_finish E fuel (njobs s) sx) as [sy|] eqn:EF; injection Hy as <- _; [|exact Hx].
    eapply LogOK_job_finish; eassumption. }
  assert (Harm : forall sx nx, LogOK sx ->
            lift (add_job E fuel (njobs s) (set_next_run E (njobs s) nx sx)) (set_next_run E (njobs s) nx sx) = (s', r) -> LogOK s').
  { intros sx nx Hx Hy. unfold lift in Hy. destruct (add_job E fuel _ _) as [sy|] eqn:EA; injection Hy as <- _.
    - eapply Hadd; [|exact EA]. apply LogOK_set_next_run; exact Hx.
    - apply LogOK_set_next_run; exact Hx. }
  destruct (jkind b1).
  - destruct (too_old s1 _); [eapply Hfin|eapply Harm]; eassumption.
  - eapply Harm; eassumption.
  - assert (H2 : LogOK (add_ev (EProd (njobs s)) s1)) by (apply LogOK_add; [exact I|auto]).
    destruct (prod E _ _ _) as [v|e|].
    + destruct (too_old _ v); [eapply Hfin|eapply Harm]; eassumption.
    + eapply Hfin; eassumption.
    + injection Hs as <- _. exact H2.
Qed.

Theorem LogOK_step_op fuel hs s o s' r : LogOK s -> step_op E fuel hs s o = (s', r) -> LogOK s'.
Proof.
  intros H Hs. destruct (log_specs_all fuel) as (Hst & Hrj & _ & _ & Hrm & _).
  destruct o; cbn [step_op] in Hs.
  - eapply LogOK_create; eassumption.
  - destruct (secs <=? 0); [injection Hs as <- _; exact H|eapply LogOK_create; eassumption].
  - eapply LogOK_create; eassumption.
  - destruct (is_finished s j); [injection Hs as <- _; exact H|].
    unfold lift in Hs. destruct (job_finish E fuel j s) as [s1|] eqn:EF; injection Hs as <- _; [|exact H].
    eapply LogOK_job_finish; eassumption.
  - destruct (is_finished s j); [injection Hs as <- _; exact H|].
    destruct (remove_job E fuel j s) as [s1|] eqn:ER; injection Hs as <- _; [|exact H].
    apply LogOK_set_next_run. eapply Hrm; eassumption.
  - destruct (is_finished s j); [injection Hs as <- _; exact H|].
    destruct (negb _); [injection Hs as <- _; exact H|]. cbv zeta in Hs.
    assert (H1 : LogOK (add_ev (EProd j) s)) by (apply LogOK_add; [exact I|auto]).
    destruct (prod E j _ _) as [v|e|]; [|injection Hs as <- _; exact H1|injection Hs as <- _; exact H1].
    destruct (too_old _ v); [injection Hs as <- _; exact H1|].
    unfold lift in Hs. destruct (update_job E fuel j _) as [s2|] eqn:EU; injection Hs as <- _.
    + eapply LogOK_update_job; [|exact EU]. apply LogOK_set_next_run; exact H1.
    + exact H1.
  - destruct (negb _); [injection Hs as <- _; exact H|]. cbv zeta in Hs.
    unfold lift in Hs. destruct (update_job E fuel j _) as [s2|] eqn:EU; injection Hs as <- _.
    + eapply LogOK_update_job; [|exact EU]. apply LogOK_set_next_run; exact H.
    + apply LogOK_set_next_run; exact H.
  - destruct (is_finished s j); [injection Hs as <- _; exact H|].
    destruct (secs <=? 0); injection Hs as <- _; exact H.
  - destruct (Bool.eqb b (enabled s)); [injection Hs as <- _; exact H|]. cbv zeta in Hs.
    unfold lift in Hs. destruct (set_timer E fuel _) as [s2|] eqn:ES; injection Hs as <- _; [|exact H].
    eapply Hst; [|exact ES]. exact H.
  - destruct w; [destruct (memb cb (jcbu (jobs s j)))|destruct (memb cb (jcbf (jobs s j)))];
      injection Hs as <- _; exact H.
  - destruct w; injection Hs as <- _; exact H.
  - injection Hs as <- _. exact H.
  - destruct (timer s) as [w|]; [|injection Hs as <- _; exact H].
    destruct (w <=? now s); [|injection Hs as <- _; exact H].
    unfold lift in Hs. destruct (run_jobs E fuel s) as [s2|] eqn:ER; injection Hs as <- _; [|exact H].
    eapply Hrj; eassumption.
  - destruct (timer s) as [w|]; [|injection Hs as <- _; exact H].
    unfold lift in Hs. destruct (run_jobs E fuel s) as [s2|] eqn:ER; injection Hs as <- _; [|exact H].
    eapply Hrj; eassumption.
Qed.

Theorem LogOK_run fuel hs ops : forall s s' rs, LogOK s -> run E fuel hs s ops = (s', rs) -> LogOK s'.
Proof.
  induction ops as [|o t IH]; intros s s' rs H Hs; cbn [run] in Hs.
  - injection Hs as <- _. exact H.
  - destruct (step E fuel hs s o) as (s1, r) eqn:ES. destruct (run E fuel hs s1 t) as (s2, rs') eqn:ER.
    injection Hs as <- _. eapply IH; [|exact ER].
    unfold step in ES. destruct (step_op E fuel hs s o) as (sx, rx) eqn:EO. injection ES as <- _.
    eapply LogOK_same; [|eapply LogOK_step_op; eassumption]. reflexivity.
Qed.

End LogInv.

(* ------------------------------------------------------------------------------------------- *)
(* the counting instance *)
Section Once.
Variable E : env.

Fixpoint handled_exec (j : nat) (l : list event) : nat :=
  match l with
  | [] => O
  | EHandler (HExec k) :: t => if Nat.eqb k j then S (handled_exec j t) else handled_exec j t
  | _ :: t => handled_exec j t
  end.
(* starts of job j that raise: the k-th start raises iff [fail_exec E j k] *)
Fixpoint failed_exec (j : nat) (l : list event) : nat :=
  match l with
  | [] => O
  | EExec k _ _ _ :: t => if Nat.eqb k j && fail_exec E j (count_exec j t) then S (failed_exec j t) else failed_exec j t
  | _ :: t => failed_exec j t
  end.
Fixpoint handled_cb (c : nat) (l : list event) : nat :=
  match l with
  | [] => O
  | EHandler (HCb k) :: t => if Nat.eqb k c then S (handled_cb c t) else handled_cb c t
  | _ :: t => handled_cb c t
  end.
Fixpoint failed_cb (c : nat) (l : list event) : nat :=
  match l with
  | [] => O
  | ECbUpd _ k _ _ :: t | ECbFin _ k :: t =>
      if Nat.eqb k c && fail_cb E c (count_cb c t) then S (failed_cb c t) else failed_cb c t
  | _ :: t => failed_cb c t
  end.

Definition once (l : list event) : Prop :=
  (forall j, handled_exec j l = failed_exec j l) /\ (forall c, handled_cb c l = failed_cb c l).

Lemma once_neutral e l : neutral_ev e -> once l -> once (e :: l).
Proof.
  intros He (H1 & H2). destruct e as [ | | |[]| ]; try contradiction; (split; [intros j0; cbn; apply H1|intros c0; cbn; apply H2]).
Qed.

Lemma once_exec j at_ a o l : once l ->
  once (if fail_exec E j (count_exec j l) then EHandler (HExec j) :: EExec j at_ a o :: l else EExec j at_ a o :: l).
Proof.
  intros (H1 & H2). destruct (fail_exec E j (count_exec j l)) eqn:Ef; split.
  - intros k. cbn [handled_exec failed_exec]. destruct (Nat.eqb_spec j k) as [->|Hne].
    + rewrite Ef. cbn [andb]. rewrite H1. reflexivity.
    + cbn [andb]. apply H1.
  - intros c. cbn. apply H2.
  - intros k. cbn [handled_exec failed_exec]. destruct (Nat.eqb_spec j k) as [->|Hne].
    + rewrite Ef. cbn [andb]. apply H1.
    + cbn [andb]. apply H1.
  - intros c. cbn. apply H2.
Qed.

Lemma once_cb e cb l : cb_of e = Some cb -> once l ->
  once (if fail_cb E cb (count_cb cb l) then EHandler (HCb cb) :: e :: l else e :: l).
Proof.
  intros He (H1 & H2).
  assert (Hx : forall j, handled_exec j (e :: l) = handled_exec j l /\ failed_exec j (e :: l) = failed_exec j l).
  { intros j0. destruct e; try discriminate; split; reflexivity. }
  destruct (fail_cb E cb (count_cb cb l)) eqn:Ef; split.
  - intros j0. destruct (Hx j0) as (a & b).
    change (handled_exec j0 (EHandler (HCb cb) :: e :: l)) with (handled_exec j0 (e :: l)).
    change (failed_exec j0 (EHandler (HCb cb) :: e :: l)) with (failed_exec j0 (e :: l)).
    rewrite a, b. apply H1.
  - intros c0. destruct e; try discriminate; injection He as ->;
      cbn [handled_cb failed_cb]; destruct (Nat.eqb_spec cb c0) as [->|Hne]; cbn [andb]; rewrite ?Ef, ?H2; reflexivity.
  - intros j0. destruct (Hx j0) as (a & b). rewrite a, b. apply H1.
  - intros c0. destruct e; try discriminate; injection He as ->;
      cbn [handled_cb failed_cb]; destruct (Nat.eqb_spec cb c0) as [->|Hne]; cbn [andb]; rewrite ?Ef, ?H2; reflexivity.
Qed.

(* in every history: the handler received exactly as many exceptions from the callable of job j as starts of j
   raised, and exactly as many from callback c as invocations of c raised *)
Theorem handled_exactly_once fuel hs t0 en ops s rs :
  run E fuel hs (init t0 en) ops = (s, rs) -> once (log s).
Proof.
  intros H.
  refine (LogOK_run E once once_neutral once_exec once_cb fuel hs ops _ _ _ _ H).
  split; intros; reflexivity.
Qed.

End Once.
