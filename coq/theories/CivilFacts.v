(* CivilFacts.v — facts about Civil.v.

   Technique: both calendar algorithms factor through the 400-year cycle of 146097 days.  The
   cycle part ([cyc]) is a closed function on [0, 146097), so its properties are established by
   evaluating a boolean check on every day of the cycle ([vm_compute], 146097 evaluations) and are
   lifted to ALL day numbers (any era, negative ones included) with [lia].  Nothing here is bounded
   to a range of years.                                                                           *)
From EAS Require Import Base Civil.

(* ------------------------------------------------------------------------------------------- *)
(* local date-times *)
Lemma DAY_val : DAY = 86400000000000.
Proof. reflexivity. Qed.

Lemma local_split l : l = mk_local (local_day l) (local_tod l).
Proof. unfold mk_local, local_day, local_tod. rewrite DAY_val. lia. Qed.

Lemma local_tod_range l : 0 <= local_tod l < DAY.
Proof. unfold local_tod. rewrite DAY_val. lia. Qed.

Lemma local_day_mk d t : 0 <= t < DAY -> local_day (mk_local d t) = d.
Proof. unfold mk_local, local_day. rewrite DAY_val. lia. Qed.

Lemma local_tod_mk d t : 0 <= t < DAY -> local_tod (mk_local d t) = t.
Proof. unfold mk_local, local_tod. rewrite DAY_val. lia. Qed.

(* ------------------------------------------------------------------------------------------- *)
(* weekdays *)
Lemma weekday_range n : 1 <= weekday_of_day n <= 7.
Proof. unfold weekday_of_day. lia. Qed.

Lemma weekday_period n : weekday_of_day (n + 7) = weekday_of_day n.
Proof. unfold weekday_of_day. lia. Qed.

Lemma weekday_succ n :
  weekday_of_day (n + 1) = if weekday_of_day n =? 7 then 1 else weekday_of_day n + 1.
Proof. unfold weekday_of_day. destruct ((n + 3) mod 7 + 1 =? 7) eqn:E; lia. Qed.

Lemma weekday_epoch : weekday_of_day 0 = 4.     (* 1970-01-01 was a Thursday *)
Proof. reflexivity. Qed.

(* ------------------------------------------------------------------------------------------- *)
(* evaluating a boolean on every element of [0, n) *)
Fixpoint zseq (start : Z) (len : nat) : list Z :=
  match len with O => [] | S k => start :: zseq (start + 1) k end.

Lemma in_zseq len : forall start k, start <= k < start + Z.of_nat len -> In k (zseq start len).
Proof.
  induction len as [|len IH]; intros start k Hk; [lia|]. cbn [zseq].
  destruct (Z.eq_dec start k) as [->|Hne]; [left; reflexivity|right]. apply IH. lia.
Qed.

Definition zrange_forall (f : Z -> bool) (n : Z) : bool := forallb f (zseq 0 (Z.to_nat n)).

Lemma zrange_forall_spec f n :
  zrange_forall f n = true -> forall k, 0 <= k < n -> f k = true.
Proof.
  unfold zrange_forall. intros H k Hk. rewrite forallb_forall in H. apply H.
  apply in_zseq. lia.
Qed.

(* ------------------------------------------------------------------------------------------- *)
(* the cycle part of civil_from_days: day-of-era -> (year-of-era counted from March, month, day) *)
Definition cyc (doe : Z) : Z * Z * Z :=
  let yoe := (doe - doe / 1460 + doe / 36524 - doe / 146096) / 365 in
  let doy := doe - (365 * yoe + yoe / 4 - yoe / 100) in
  let mp := (5 * doy + 2) / 153 in
  let d := doy - (153 * mp + 2) / 5 + 1 in
  let m := if mp <? 10 then mp + 3 else mp - 9 in
  (yoe, m, d).

(* the cycle part of days_from_civil *)
Definition back (yoe m d : Z) : Z :=
  yoe * 365 + yoe / 4 - yoe / 100 + ((153 * (if 2 <? m then m - 3 else m + 9) + 2) / 5 + d - 1).

Lemma civil_cyc n :
  civil_from_days n =
  let z := n + 719468 in
  let '(yoe, m, d) := cyc (z mod 146097) in
  (if m <=? 2 then yoe + z / 146097 * 400 + 1 else yoe + z / 146097 * 400, m, d).
Proof.
  unfold civil_from_days, cyc. cbv zeta.
  replace (n + 719468 - (n + 719468) / 146097 * 146097) with ((n + 719468) mod 146097) by lia.
  reflexivity.
Qed.

Definition carry (m : Z) : Z := if m <=? 2 then 1 else 0.

(* the civil date within era 0 (years 0 .. 400, counted from 0000-03-01) *)
Definition civ0 (doe : Z) : Z * Z * Z := let '(yoe, m, d) := cyc doe in (yoe + carry m, m, d).

Definition shift_year (e : Z) (ymd : Z * Z * Z) : Z * Z * Z :=
  let '(y, m, d) := ymd in (y + e * 400, m, d).

Lemma civil_civ0 n :
  civil_from_days n = shift_year ((n + 719468) / 146097) (civ0 ((n + 719468) mod 146097)).
Proof.
  rewrite civil_cyc. cbv zeta. unfold civ0, shift_year, carry.
  destruct (cyc ((n + 719468) mod 146097)) as [[yoe m] d].
  destruct (m <=? 2); f_equal; f_equal; lia.
Qed.

Definition cyc_ok (doe : Z) : bool :=
  let '(yoe, m, d) := cyc doe in
  (0 <=? yoe) && (yoe <=? 399) && (1 <=? m) && (m <=? 12) && (1 <=? d) && (d <=? days_in_month (yoe + carry m) m)
  && (back yoe m d =? doe).

Lemma cyc_ok_all_bool : zrange_forall cyc_ok 146097 = true.
Proof. vm_cast_no_check (eq_refl true). Qed.

Lemma cyc_ok_all doe : 0 <= doe < 146097 -> cyc_ok doe = true.
Proof. apply zrange_forall_spec. exact cyc_ok_all_bool. Qed.

Lemma cyc_facts doe yoe m d :
  0 <= doe < 146097 -> cyc doe = (yoe, m, d) ->
  0 <= yoe <= 399 /\ 1 <= m <= 12 /\ 1 <= d <= days_in_month (yoe + carry m) m /\ back yoe m d = doe.
Proof.
  intros Hr Hc. pose proof (cyc_ok_all doe Hr) as H. unfold cyc_ok in H. rewrite Hc in H.
  repeat rewrite andb_true_iff in H. lia.
Qed.

Lemma days_in_month_le y m : 28 <= days_in_month y m <= 31.
Proof.
  unfold days_in_month. destruct (m =? 2); [destruct (is_leap y); lia|].
  destruct ((m =? 4) || (m =? 6) || (m =? 9) || (m =? 11)); lia.
Qed.

Lemma is_leap_shift y e : is_leap (y + e * 400) = is_leap y.
Proof.
  unfold is_leap.
  replace ((y + e * 400) mod 4) with (y mod 4) by lia.
  replace ((y + e * 400) mod 100) with (y mod 100) by lia.
  replace ((y + e * 400) mod 400) with (y mod 400) by lia.
  reflexivity.
Qed.

Lemma days_in_month_shift y e m : days_in_month (y + e * 400) m = days_in_month y m.
Proof. unfold days_in_month. rewrite is_leap_shift. reflexivity. Qed.

(* ------------------------------------------------------------------------------------------- *)
(* ranges, for every day number *)
Lemma civil_ranges n :
  1 <= month_of_day n <= 12 /\ 1 <= dom_of_day n <= days_in_month (year_of_day n) (month_of_day n).
Proof.
  unfold month_of_day, dom_of_day, year_of_day. rewrite civil_civ0.
  unfold civ0, shift_year.
  destruct (cyc ((n + 719468) mod 146097)) as [[yoe m] d] eqn:E.
  apply cyc_facts in E; [|lia]. cbn [fst snd]. rewrite days_in_month_shift. lia.
Qed.

Lemma month_range n : 1 <= month_of_day n <= 12.
Proof. apply civil_ranges. Qed.

Lemma dom_range n : 1 <= dom_of_day n <= 31.
Proof.
  pose proof (civil_ranges n) as [_ H].
  pose proof (days_in_month_le (year_of_day n) (month_of_day n)). lia.
Qed.

Lemma civil_valid n : valid_date (year_of_day n) (month_of_day n) (dom_of_day n) = true.
Proof. unfold valid_date. pose proof (civil_ranges n). lia. Qed.

Lemma civil_eta n : civil_from_days n = (year_of_day n, month_of_day n, dom_of_day n).
Proof. unfold year_of_day, month_of_day, dom_of_day. destruct (civil_from_days n) as [[y m] d]. reflexivity. Qed.

(* ------------------------------------------------------------------------------------------- *)
(* round trip, for every day number *)
Theorem days_from_civil_from_days n :
  let '(y, m, d) := civil_from_days n in days_from_civil y m d = n.
Proof.
  rewrite civil_cyc. cbv zeta.
  destruct (cyc ((n + 719468) mod 146097)) as [[yoe m] d] eqn:E.
  apply cyc_facts in E; [|lia]. destruct E as (Hy & Hm & Hd & Hb).
  unfold days_from_civil. unfold back in Hb.
  set (era := (n + 719468) / 146097) in *.
  destruct (m <=? 2) eqn:Em.
  - replace (yoe + era * 400 + 1 - 1) with (yoe + era * 400) by lia.
    replace ((yoe + era * 400) / 400) with era by lia.
    replace (yoe + era * 400 - era * 400) with yoe by lia.
    subst era. lia.
  - replace ((yoe + era * 400) / 400) with era by lia.
    replace (yoe + era * 400 - era * 400) with yoe by lia.
    subst era. lia.
Qed.

Corollary civil_from_days_inj a b : civil_from_days a = civil_from_days b -> a = b.
Proof.
  intros H. pose proof (days_from_civil_from_days a) as Ha. pose proof (days_from_civil_from_days b) as Hb.
  rewrite H in Ha. destruct (civil_from_days b) as [[y m] d]. congruence.
Qed.

(* ------------------------------------------------------------------------------------------- *)
(* civil_from_days counts the days of the Gregorian calendar: day 0 is 1970-01-01 and the date of
   day n+1 is the Gregorian successor (month lengths 31/30/28, 29 in leap years; leap = divisible by 4
   and not by 100, or divisible by 400) of the date of day n — for every n.                        *)
Lemma civil_epoch : civil_from_days 0 = (1970, 1, 1).
Proof. reflexivity. Qed.

Definition ymd_eqb (a b : Z * Z * Z) : bool :=
  let '(y, m, d) := a in let '(y', m', d') := b in (y =? y') && (m =? m') && (d =? d').

Lemma ymd_eqb_eq a b : ymd_eqb a b = true -> a = b.
Proof.
  destruct a as [[y m] d], b as [[y' m'] d']. unfold ymd_eqb.
  repeat rewrite andb_true_iff. intros [[H1 H2] H3]. f_equal; [f_equal|]; lia.
Qed.

Definition succ_ok (doe : Z) : bool := ymd_eqb (civ0 (doe + 1)) (next_date (civ0 doe)).

Lemma succ_ok_all_bool : zrange_forall succ_ok 146096 = true.
Proof. vm_cast_no_check (eq_refl true). Qed.

Lemma civ0_wrap : civ0 146096 = (400, 2, 29) /\ civ0 0 = (0, 3, 1).
Proof. split; reflexivity. Qed.

Lemma next_date_shift e ymd : next_date (shift_year e ymd) = shift_year e (next_date ymd).
Proof.
  destruct ymd as [[y m] d]. unfold next_date, shift_year. rewrite days_in_month_shift.
  destruct (d <? days_in_month y m); [reflexivity|].
  destruct (m <? 12); [reflexivity|]. f_equal. f_equal. lia.
Qed.

Theorem civil_succ n : civil_from_days (n + 1) = next_date (civil_from_days n).
Proof.
  rewrite !civil_civ0.
  set (z := n + 719468). replace (n + 1 + 719468) with (z + 1) by (subst z; lia).
  assert (Hz : 0 <= z mod 146097 < 146097) by lia.
  destruct (Z.eq_dec (z mod 146097) 146096) as [Hw|Hw].
  - replace ((z + 1) mod 146097) with 0 by lia.
    replace ((z + 1) / 146097) with (z / 146097 + 1) by lia.
    rewrite Hw. destruct civ0_wrap as [-> ->].
    unfold shift_year, next_date. rewrite days_in_month_shift.
    change (days_in_month 400 2) with 29. change (29 <? 29) with false. change (2 <? 12) with true.
    cbv iota. f_equal. f_equal. lia.
  - replace ((z + 1) mod 146097) with (z mod 146097 + 1) by lia.
    replace ((z + 1) / 146097) with (z / 146097) by lia.
    rewrite next_date_shift. f_equal.
    apply ymd_eqb_eq. apply (zrange_forall_spec succ_ok 146096 succ_ok_all_bool). lia.
Qed.

(* the same, with the accessors *)
Theorem civil_round_trip n : days_from_civil (year_of_day n) (month_of_day n) (dom_of_day n) = n.
Proof. pose proof (days_from_civil_from_days n) as H. rewrite civil_eta in H. exact H. Qed.

(* bundle for props/C17.v: the calendar behind the weekday / day-of-month / month filters, for EVERY
   day number *)
Theorem calendar_facts :
  (forall n, 1 <= weekday_of_day n <= 7) /\
  (forall n, weekday_of_day (n + 7) = weekday_of_day n) /\
  weekday_of_day 0 = 4 /\
  (forall n, 1 <= month_of_day n <= 12) /\
  (forall n, 1 <= dom_of_day n <= days_in_month (year_of_day n) (month_of_day n) /\ dom_of_day n <= 31) /\
  (forall n, days_from_civil (year_of_day n) (month_of_day n) (dom_of_day n) = n) /\
  civil_from_days 0 = (1970, 1, 1) /\
  (forall n, civil_from_days (n + 1) = next_date (civil_from_days n)).
Proof.
  split; [exact weekday_range|split; [exact weekday_period|split; [exact weekday_epoch|split; [exact month_range|
    split; [|split; [exact civil_round_trip|split; [exact civil_epoch|exact civil_succ]]]]]]].
  intros n. pose proof (civil_ranges n) as [_ H]. pose proof (days_in_month_le (year_of_day n) (month_of_day n)). lia.
Qed.

Example civil_examples :
  civil_from_days 47846 = (2100, 12, 31) /\ civil_from_days 11016 = (2000, 2, 29) /\
  civil_from_days (-1) = (1969, 12, 31) /\ civil_from_days (-719468) = (0, 3, 1) /\
  weekday_of_day 11016 = 2 (* 2000-02-29 was a Tuesday *) /\ days_from_civil 2024 2 29 = 19782.
Proof. repeat split. Qed.
