(* GenInstantEq.v — the code generated from get_timedelta / get_pos_timedelta_secs / get_time / get_instant of
   builder/helper.py (coq/gen/GenInstant.v, rewritten by tools/gen_instant.py on every run) computes what the model
   of GetInstant.v computes on the READING of the Python value.  Hand-written; re-checked against the regenerated
   file on every run.

   [read v] is the reading of a runtime value as the model's argument kinds (GetInstant.iarg, the same reading the
   correspondence harness applies to real Python values).  [res_of] maps the generated outcome to the model's result
   (exceptions to the error enum: ValueError, TypeError, everything else - SkippedTime, RepeatedTime - EOther).
     gen_get_timedelta, gen_get_pos_timedelta_secs    for every value
     gen_get_time                                      get_time returns the time of day exactly for the ATime readings
                                                       that are not read as a duration first
     gen_get_instant                                   for every well-formed value (a datetime has microsecond
                                                       resolution) on which the runtime is not stuck (a naive datetime
                                                       in no gap of a table that shows it at no instant) *)
From EAS Require Import Base BaseFacts Civil CivilFacts Time Replace Dst DstFacts GetInstant GetInstantFacts GenRtDst
  GenRtInstant.
From EASGen Require Import GenInstant.
From Coq Require Import String.

Theorem gen_instant_recognised : gen_instant_status_v = GenInstantOk.
Proof. reflexivity. Qed.

Definition read (v : pyval) : iarg :=
  match v with
  | VNone => ANone
  | VDatetime (Some i) _ => AAware i
  | VDatetime None l => ANaive l
  | VSystem i => ASystem i
  | VInstant i => AInstant i
  | VPyTimedelta ns | VTimeDelta ns => ADelta ns
  | VNum _ (Some ns) => ANum ns
  | VNum _ None => ABadValue
  | VStr (Some d) _ => AIsoDuration d
  | VStr None (Some t) => ATime t
  | VStr None None => ABadValue
  | VTime t => ATime t
  | VPyTime (Some t) => ATime t
  | VPyTime None => ABadValue
  | VOther => ABad
  end.

(* the reading where only a duration is asked for (countdown, interval, offset, jitter): a str that is not a duration
   is a refused value even when it is a time of day; a Time is just another class *)
Definition read_dur (v : pyval) : iarg :=
  match v with
  | VStr None _ => ABadValue
  | VTime _ | VPyTime _ => ABad
  | _ => read v
  end.

Definition exn_err (e : dexn) : err :=
  match e with XValue => EValueError | XType => ETypeError | _ => EOther end.

Definition res_of (o : out Z dexn) : result Z :=
  match o with ORet r => Ok r | OExc e => Raise (exn_err e) | OStuck => OutOfFuel end.

Definition pv_wf (v : pyval) : Prop :=
  match v with VDatetime _ l => l mod 1000 = 0 | _ => True end.

Theorem gen_get_timedelta : forall W v, res_of (g_get_timedelta W v) = get_timedelta (read_dur v).
Proof.
  intros W v. unfold g_get_timedelta.
  destruct v as [|[i|] l|i|i|ns|ns|[|] [ns|]|[d|] [t|]|t|[t|]|]; reflexivity.
Qed.

Theorem gen_get_pos_timedelta_secs : forall W v,
  res_of (g_get_pos_timedelta_secs W v) = get_pos_timedelta_secs (read_dur v).
Proof.
  intros W v. unfold g_get_pos_timedelta_secs, get_pos_timedelta_secs.
  rewrite <- gen_get_timedelta with (W := W).
  destruct (g_get_timedelta W v) as [d|e|]; cbn [res_of]; [|reflexivity|reflexivity].
  cbv zeta. destruct (d <=? 0); reflexivity.
Qed.

(* the digits of a wall-clock value give the value back *)
Lemma digits_back : forall t, time_of (t_hour t) (t_minute t) (t_second t) (t_nano t) = t.
Proof. intros. unfold time_of, t_hour, t_minute, t_second, t_nano, Dst.HOUR, MINUTE, NS. lia. Qed.

Lemma micro_back : forall l, l mod 1000 = 0 -> t_nano (local_tod l) / 1000 * 1000 = t_nano (local_tod l).
Proof. intros l H. unfold t_nano, local_tod, DAY, NS. lia. Qed.

Lemma wall_back : forall l, l mod 1000 = 0 ->
  days_from_civil (local_year l) (local_month l) (local_dom l) * DAY
  + time_of (t_hour (local_tod l)) (t_minute (local_tod l)) (t_second (local_tod l)) (t_nano (local_tod l) / 1000 * 1000) = l.
Proof.
  intros l H. rewrite (micro_back l H), digits_back. unfold local_year, local_month, local_dom.
  rewrite civil_round_trip. unfold local_day, local_tod, DAY, NS. lia.
Qed.

Lemma resolve_x : forall z l,
  match resolve_raise_x z l with PVal i => resolve_raise z l = Ok i /\ to_local z i = l
                               | PExc e => resolve_raise z l = Raise (exn_err e) end.
Proof.
  intros z l. unfold resolve_raise_x, resolve_raise. destruct (candidates z l) as [|i [|j r]] eqn:E; try reflexivity.
  split; [reflexivity|]. apply candidates_spec. rewrite E. left. reflexivity.
Qed.

Ltac time_case W t :=
  unfold g_get_timedelta, g_get_time;
  cbn [pv_isinstance orb negb td_parse td_from_py td_seconds time_parse time_from_py pv_as_time pv_as_timedelta read get_instant
       get_timedelta];
  cbv zeta; unfold time_of_day, sdt_replace_time, sdt_now;
  set (l := mk_local (local_day (to_local (w_tz W) (w_now W))) t);
  let H1 := fresh "H1" in let H2 := fresh "H2" in let Hl := fresh "Hl" in
  pose proof (resolve_x (w_tz W) l) as H1;
  destruct (resolve_raise_x (w_tz W) l) as [new|e];
  [ destruct H1 as [H1 Hl]; rewrite H1; destruct (new <? w_now W); [|reflexivity];
    unfold sdt_add_days; rewrite Hl;
    replace (l + 1 * DAY) with (mk_local (local_day (to_local (w_tz W) (w_now W)) + 1) t)
      by (unfold l, mk_local; lia);
    pose proof (resolve_x (w_tz W) (mk_local (local_day (to_local (w_tz W) (w_now W)) + 1) t)) as H2;
    destruct (resolve_raise_x (w_tz W) (mk_local (local_day (to_local (w_tz W) (w_now W)) + 1) t)) as [new2|e2];
    [destruct H2 as [H2 _]; rewrite H2; reflexivity|rewrite H2; reflexivity]
  | rewrite H1; reflexivity ].

Theorem gen_get_instant : forall W v,
  pv_wf v -> g_get_instant W v <> OStuck ->
  res_of (g_get_instant W v) = get_instant (w_tz W) (w_now W) (read v).
Proof.
  intros W v Hwf. unfold g_get_instant.
  destruct v as [|[i|] l|i|i|ns|ns|[|] [ns|]|[d|] [t|]|t|[t|]|]; try (intros _; reflexivity).
  - (* a naive datetime *)
    cbn [pv_isinstance pv_dt_aware read get_instant]. unfold sdt_make7, system_datetime, pv_year, pv_month, pv_day,
      pv_hour, pv_minute, pv_second, pv_microsecond. cbn [pv_wall]. cbv zeta. rewrite (wall_back l Hwf).
    destruct (candidates (w_tz W) l) as [|i r]; [|intros _; reflexivity].
    destruct (gap_of (w_tz W) l) as [[ob oa]|]; [intros _; reflexivity|intros H; exfalso; apply H; reflexivity].
  - (* str read as a time of day *) intros _. time_case W t.
  - (* whenever.Time *) intros _. time_case W t.
  - (* datetime.time *) intros _. time_case W t.
Qed.

Theorem gen_get_time : forall W v,
  match g_get_time W v with
  | ORet t => read v = ATime t \/ exists d, read v = AIsoDuration d
  | OExc e => e = XValue \/ e = XType
  | OStuck => False
  end.
Proof.
  intros W v. unfold g_get_time.
  destruct v as [|[i|] l|i|i|ns|ns|[|] [ns|]|[d|] [t|]|t|[t|]|]; cbn; auto; right; eexists; reflexivity.
Qed.

(* what a return / a raise of the generated get_instant means for the model *)
Theorem gen_get_instant_ok : forall W v r,
  pv_wf v -> g_get_instant W v = ORet r -> get_instant (w_tz W) (w_now W) (read v) = Ok r.
Proof.
  intros W v r Hwf E. rewrite <- (gen_get_instant W v Hwf); [rewrite E; reflexivity|rewrite E; discriminate].
Qed.

Theorem gen_get_instant_exc : forall W v e,
  pv_wf v -> g_get_instant W v = OExc e -> get_instant (w_tz W) (w_now W) (read v) = Raise (exn_err e).
Proof.
  intros W v e Hwf E. rewrite <- (gen_get_instant W v Hwf); [rewrite E; reflexivity|rewrite E; discriminate].
Qed.

(* e.g. the time-of-day branch of the generated code: today's wall-clock time, or tomorrow's *)
Corollary gen_time_of_day : forall W tod r,
  g_get_instant W (VTime tod) = ORet r ->
  time_of_day (w_tz W) (w_now W) tod = Ok r.
Proof. intros W tod r E. exact (gen_get_instant_ok W (VTime tod) r I E). Qed.

Corollary gen_durations : forall W v d,
  get_timedelta (read_dur v) = Ok d -> g_get_instant W v = ORet (w_now W + d).
Proof.
  intros W v d H. unfold g_get_instant.
  destruct v as [|[i|] l|i|i|ns|ns|[|] [ns|]|[dd|] [t|]|t|[t|]|]; try discriminate H;
    cbn in H; injection H as <-; reflexivity.
Qed.

(* the generated time-of-day branch answers the NEXT instant that shows the wall-clock time *)
Theorem gen_time_of_day_next : forall W v tod r,
  wf_tz_b (w_tz W) = true ->
  dates_forward_b (w_tz W) (reach_lo (w_now W)) (reach_hi (w_now W)) = true ->
  0 <= tod < DAY -> pv_wf v -> read v = ATime tod ->
  g_get_instant W v = ORet r ->
  w_now W <= r <= reach_hi (w_now W) /\
  local_tod (to_local (w_tz W) r) = tod /\
  (forall i, w_now W <= i -> local_tod (to_local (w_tz W) i) = tod -> r <= i).
Proof.
  intros W v tod r Hwf Hd Ht Hv Hr E. apply (time_of_day_next_b (w_tz W) (w_now W) tod r Hwf Hd Ht).
  rewrite <- Hr. exact (gen_get_instant_ok W v r Hv E).
Qed.

(* Europe/Berlin on the eve of the 2025 spring change (Saturday 12:00): "08:00" is tomorrow 08:00 CEST, 19 h away *)
Example gen_berlin_eve_of_dst :
  g_get_instant {| w_tz := berlin; w_now := 1743246000 * NS |} (VStr None (Some (8 * HOUR))) = ORet (1743314400 * NS).
Proof. vm_compute. reflexivity. Qed.

(* 02:30 does not exist on the day of the change: asked the day before at noon (tomorrow's) and on the day itself *)
Example gen_berlin_skipped_refused :
  g_get_instant {| w_tz := berlin; w_now := 1743246000 * NS |} (VTime (2 * HOUR + 30 * MINUTE)) = OExc XSkipped
  /\ g_get_instant {| w_tz := berlin; w_now := 1743296400 * NS |} (VTime (2 * HOUR + 30 * MINUTE)) = OExc XSkipped.
Proof. split; vm_compute; reflexivity. Qed.

Print Assumptions gen_get_instant.
Print Assumptions gen_get_pos_timedelta_secs.
