(* SchedExact3.v — C08: one-shot and countdown jobs fire exactly when promised.  What an operation does to the
   record of the job it is addressed to ([target_record]) and to a newly created job ([create_record]); the
   next-run time of a one-shot job is its requested instant in every reachable state; the next-run time of a
   countdown job is only ever set by reset(), to (instant of the reset + countdown value at that instant); a
   one-shot job is FINISHED after its start, a countdown job PAUSED. *)
From EAS Require Import Base BaseFacts Sched SchedInv SchedApi SchedProps SchedExact SchedExact2.
From EASGen Require Import Generated.

(* the control classes of the library offer reset / set_countdown only for countdown jobs, resume only for
   recurring jobs, pause / stop not for one-shot jobs *)
Definition op_typed (s : st) (o : op) : Prop :=
  match o with
  | OResume j => jkind (jobs s j) = KAt
  | OReset j | OSetCountdown j _ => jkind (jobs s j) = KCountdown
  | OPause j => jkind (jobs s j) <> KOnce
  | _ => True
  end.

(* what an operation addressed to job j does to its record *)
Definition tstep (s : st) (o : op) (j : nat) (b b' : job) : Prop :=
  jkind b' = jkind b /\ jexec_t b' = jexec_t b /\ jkey b' = jkey b /\
  (jsecs b' = jsecs b \/ exists secs, o = OSetCountdown j secs /\ 0 < secs /\ jsecs b' = secs) /\
  (jnext b' = jnext b \/ jnext b' = None \/ jkind b = KAt \/
   (o = OReset j /\ jnext b' = Some (now s + jsecs b)) \/ o = OResume j).

Lemma tstep_refl s o j b : tstep s o j b b.
Proof. unfold tstep. auto 8. Qed.

Ltac tstep_tac := unfold tstep, jstep in *; cbn in *; intuition (try congruence).

Section Exact.
Variable E : env.
Hypothesis prod_ok : forall j k t, exists v, prod E j k t = Ok v /\ t < v.

Lemma remove_job_jstep fuel j s s' k : remove_job E fuel j s = Some s' -> jstep (jobs s k) (jobs s' k).
Proof.
  intros H. destruct (fr_specs_all E prod_ok fuel) as (_ & _ & _ & _ & Hrm & _).
  destruct (Hrm j s s' H) as (l & F). apply (fr_step _ _ _ _ F k).
Qed.

Lemma update_job_jstep fuel j s s' k : update_job E fuel j s = Some s' -> jstep (jobs s k) (jobs s' k).
Proof.
  intros H. unfold update_job in H. destruct (remove_job E fuel j s) as [s1|] eqn:ER; [|discriminate].
  destruct (fr_specs_all E prod_ok fuel) as (_ & _ & _ & Hadd & _).
  destruct (Hadd j s1 s' H) as (l & F).
  eapply jstep_trans; [eapply remove_job_jstep; exact ER|apply (fr_step _ _ _ _ F k)].
Qed.

Theorem target_record fuel hs s o s' r j :
  op_addressee o = Some j -> step_op E fuel hs s o = (s', r) -> r <> NoFuel ->
  tstep s o j (jobs s j) (jobs s' j).
Proof.
  intros Ht H Hr.
  destruct o; cbn in Ht; try discriminate; injection Ht as ->; cbn [step_op] in H.
  - (* cancel *)
    destruct (is_finished s j); [injection H as <- <-; apply tstep_refl|].
    unfold lift in H. destruct (job_finish E fuel j s) as [s1|] eqn:EF; injection H as <- <-; [|congruence].
    rewrite job_finish_eq in EF. destruct (remove_job E fuel j s) as [s2|] eqn:ER; [|discriminate].
    injection EF as <-. pose proof (remove_job_jstep _ _ _ _ j ER) as J.
    destruct (finish_job_props E j s2) as (_ & _ & _ & _ & _ & _ & _ & q8). rewrite q8. unfold upd.
    rewrite Nat.eqb_refl. tstep_tac.
  - (* pause *)
    destruct (is_finished s j); [injection H as <- <-; apply tstep_refl|].
    destruct (remove_job E fuel j s) as [s2|] eqn:ER; injection H as <- <-; [|congruence].
    pose proof (remove_job_jstep _ _ _ _ j ER) as J.
    destruct (set_next_run_props E j None s2) as (_ & _ & _ & _ & _ & _ & _ & _ & q9). rewrite q9. unfold upd.
    rewrite Nat.eqb_refl. tstep_tac.
  - (* resume *)
    destruct (is_finished s j); [injection H as <- <-; apply tstep_refl|].
    destruct (negb (jlinked (jobs s j))); [injection H as <- <-; apply tstep_refl|]. cbv zeta in H.
    destruct (prod E j _ _) as [v|e|]; [|injection H as <- <-; apply tstep_refl|injection H as <- <-; congruence].
    destruct (too_old _ v); [injection H as <- <-; apply tstep_refl|].
    unfold lift in H. destruct (update_job E fuel j _) as [s2|] eqn:EU; injection H as <- <-; [|congruence].
    pose proof (update_job_jstep _ _ _ _ j EU) as J.
    destruct (set_next_run_props E j (Some v) (add_ev (EProd j) s)) as (_ & _ & _ & _ & _ & _ & _ & _ & q9).
    rewrite q9 in J. unfold upd in J. rewrite Nat.eqb_refl in J. tstep_tac.
  - (* reset *)
    destruct (negb (jlinked (jobs s j))); [injection H as <- <-; apply tstep_refl|]. cbv zeta in H.
    unfold lift in H. destruct (update_job E fuel j _) as [s2|] eqn:EU; injection H as <- <-; [|congruence].
    pose proof (update_job_jstep _ _ _ _ j EU) as J.
    destruct (set_next_run_props E j (Some (now s + jsecs (jobs s j))) s) as (_ & _ & _ & _ & _ & _ & _ & _ & q9).
    rewrite q9 in J. unfold upd in J. rewrite Nat.eqb_refl in J.
    unfold tstep, jstep in *; cbn in *.
    destruct J as (j1 & j2 & j3 & j4 & j5 & j6 & [(x1 & x2)|[(x1 & x2 & x3)|[(x1 & x2 & x3)|x1]]]);
      repeat (split; [first [assumption|left; assumption]|]); auto 8.
  - (* set_countdown *)
    destruct (is_finished s j); [injection H as <- <-; apply tstep_refl|].
    destruct (secs <=? 0) eqn:Es; injection H as <- <-; [apply tstep_refl|]. apply Z.leb_gt in Es.
    rewrite jobs_upd_same. unfold tstep; cbn. repeat (split; [reflexivity|]). split; [right; eauto|auto].
  - (* register *)
    destruct w; [destruct (memb cb (jcbu (jobs s j)))|destruct (memb cb (jcbf (jobs s j)))];
      injection H as <- <-; try apply tstep_refl; rewrite jobs_upd_same; unfold tstep; cbn; auto 8.
  - (* unregister *)
    destruct w; injection H as <- <-; rewrite jobs_upd_same; unfold tstep; cbn; auto 8.
Qed.

(* the record of a newly created job *)
Lemma create_record fuel hs b s s' r :
  create E fuel hs b s = (s', r) -> r <> NoFuel ->
  s' = s \/
  (njobs s' = S (njobs s) /\ jkind (jobs s' (njobs s)) = jkind b /\ jexec_t (jobs s' (njobs s)) = jexec_t b /\
   jsecs (jobs s' (njobs s)) = jsecs b /\
   ((jstatus (jobs s' (njobs s)) = Finished /\ jnext (jobs s' (njobs s)) = None) \/
    (jkind b = KOnce /\ jstatus (jobs s' (njobs s)) = Running /\ jnext (jobs s' (njobs s)) = Some (jexec_t b)) \/
    (jkind b = KCountdown /\ jstatus (jobs s' (njobs s)) = Paused /\ jnext (jobs s' (njobs s)) = None) \/
    jkind b = KAt)).
Proof.
  intros H Hr. unfold create in H.
  destruct (hs && store_has (jkey b) (store s)); [injection H as <- _; left; reflexivity|]. right.
  cbv zeta in H.
  set (j := njobs s) in *.
  match type of H with context [jkind ?bb] => set (b1 := bb) in * end.
  match type of H with context [too_old ?sx (jexec_t b1)] => set (s1 := sx) in * end.
  pose (Rec := fun sx : st => njobs sx = S j /\ jkind (jobs sx j) = jkind b /\ jexec_t (jobs sx j) = jexec_t b /\
                               jsecs (jobs sx j) = jsecs b).
  assert (R1 : Rec s1).
  { subst s1 Rec. destruct hs; cbn [njobs jobs set_store set_njobs set_job set_jobs]; unfold upd; rewrite Nat.eqb_refl;
      repeat split; reflexivity. }
  clearbody s1.
  destruct (fr_specs_all E prod_ok fuel) as (_ & _ & _ & Hadd & Hrm & _).
  assert (Hfin : forall sx e, Rec sx ->
            (match job_finish E fuel j sx with Some sy => (sy, Raised e) | None => (sx, NoFuel) end) = (s', r) ->
            Rec s' /\ jstatus (jobs s' j) = Finished /\ jnext (jobs s' j) = None).
  { intros sx e (r1 & r2 & r3 & r4) Hx. rewrite job_finish_eq in Hx.
    destruct (remove_job E fuel j sx) as [sy|] eqn:ER; [|injection Hx as <- <-; congruence].
    injection Hx as <- _. destruct (Hrm j sx sy ER) as (l & F).
    pose proof (remove_job_jstep _ _ _ _ j ER) as (j1 & j2 & j3 & _).
    destruct (finish_job_props E j sy) as (_ & _ & _ & _ & q5 & _ & _ & q8).
    unfold Rec. rewrite q5, q8, (fr_njobs _ _ _ _ F). unfold upd. rewrite Nat.eqb_refl. cbn.
    repeat split; congruence. }
  assert (Harm : forall sx nx, Rec sx ->
            lift (add_job E fuel j (set_next_run E j nx sx)) (set_next_run E j nx sx) = (s', r) ->
            Rec s' /\ ((jstatus (jobs s' j) = match nx with None => Paused | Some _ => Running end /\
                        jnext (jobs s' j) = nx) \/
                       (jkind b = KOnce /\ jstatus (jobs s' j) = Finished /\ jnext (jobs s' j) = None) \/
                       (jkind b = KCountdown /\ jstatus (jobs s' j) = Paused /\ jnext (jobs s' j) = None) \/
                       jkind b = KAt)).
  { intros sx nx (r1 & r2 & r3 & r4) Hx. unfold lift in Hx.
    destruct (add_job E fuel j _) as [sy|] eqn:EA; injection Hx as <- <-; [|congruence].
    destruct (Hadd _ _ _ EA) as (l & F). pose proof (fr_step _ _ _ _ F j) as J.
    destruct (set_next_run_props E j nx sx) as (_ & _ & _ & _ & q5 & _ & _ & _ & q9).
    rewrite q9 in J. unfold upd in J. rewrite Nat.eqb_refl in J. unfold Rec. rewrite (fr_njobs _ _ _ _ F), q5.
    unfold jstep in J. cbn in J.
    destruct J as (j1 & j2 & j3 & j4 & j5 & j6 & [(x1 & x2)|[(x1 & x2 & x3)|[(x1 & x2 & x3)|x1]]]);
      (split; [repeat split; congruence|]);
      [left; split; assumption|right; left; repeat split; congruence
      |right; right; left; repeat split; congruence|right; right; right; congruence]. }
  assert (Hkb : jkind b1 = jkind b) by reflexivity. assert (Htb : jexec_t b1 = jexec_t b) by reflexivity.
  assert (N' : forall sx, Rec sx -> njobs sx = S j /\ jkind (jobs sx j) = jkind b /\ jexec_t (jobs sx j) = jexec_t b /\
                                     jsecs (jobs sx j) = jsecs b) by (intros sx Hx; exact Hx).
  assert (HF : forall sx e, Rec sx ->
            (match job_finish E fuel j sx with Some sy => (sy, Raised e) | None => (sx, NoFuel) end) = (s', r) ->
            njobs s' = S j /\ jkind (jobs s' j) = jkind b /\ jexec_t (jobs s' j) = jexec_t b /\
            jsecs (jobs s' j) = jsecs b /\ ((jstatus (jobs s' j) = Finished /\ jnext (jobs s' j) = None) \/
    (jkind b = KOnce /\ jstatus (jobs s' j) = Running /\ jnext (jobs s' j) = Some (jexec_t b)) \/
    (jkind b = KCountdown /\ jstatus (jobs s' j) = Paused /\ jnext (jobs s' j) = None) \/
    jkind b = KAt)).
  { intros sx e Rx Hx. destruct (Hfin _ _ Rx Hx) as ((r1 & r2 & r3 & r4) & p & q). auto 8. }
  destruct (jkind b1) eqn:Ek.
  - destruct (too_old s1 (jexec_t b1)); [apply (HF _ _ R1 H)|].
    destruct (Harm _ _ R1 H) as ((r1 & r2 & r3 & r4) & Hc). repeat (split; [assumption|]).
    destruct Hc as [(x1 & x2)|[(x1 & x2 & x3)|[(x1 & x2 & x3)|x1]]]; [|auto 8|auto 8|auto 8].
    right; left. rewrite <- Htb. split; [congruence|split; assumption].
  - destruct (Harm _ _ R1 H) as ((r1 & r2 & r3 & r4) & Hc). repeat (split; [assumption|]).
    destruct Hc as [(x1 & x2)|[(x1 & x2 & x3)|[(x1 & x2 & x3)|x1]]]; [|auto 8|auto 8|auto 8].
    right; right; left. split; [congruence|split; assumption].
  - assert (R2 : Rec (add_ev (EProd j) s1)) by exact R1.
    assert (Hat : njobs s' = S j /\ jkind (jobs s' j) = jkind b /\ jexec_t (jobs s' j) = jexec_t b /\
                  jsecs (jobs s' j) = jsecs b -> njobs s' = S j /\ jkind (jobs s' j) = jkind b /\
                  jexec_t (jobs s' j) = jexec_t b /\ jsecs (jobs s' j) = jsecs b /\ ((jstatus (jobs s' j) = Finished /\ jnext (jobs s' j) = None) \/
    (jkind b = KOnce /\ jstatus (jobs s' j) = Running /\ jnext (jobs s' j) = Some (jexec_t b)) \/
    (jkind b = KCountdown /\ jstatus (jobs s' j) = Paused /\ jnext (jobs s' j) = None) \/
    jkind b = KAt)).
    { intros (r1 & r2 & r3 & r4). repeat (split; [assumption|]). right; right; right. congruence. }
    destruct (prod E j _ _) as [v|e|].
    + destruct (too_old _ v); [apply (HF _ _ R2 H)|]. apply Hat. apply (Harm _ _ R2 H).
    + apply (HF _ _ R2 H).
    + injection H as <- <-. congruence.
Qed.

(* the announced time of a one-shot job is its requested instant; countdown values are positive *)
Definition OnceOK (s : st) : Prop :=
  forall j a, jkind (jobs s j) = KOnce -> jnext (jobs s j) = Some a -> a = jexec_t (jobs s j).
Definition SecsPos (s : st) : Prop := forall j, jkind (jobs s j) = KCountdown -> 0 < jsecs (jobs s j).
Definition ExactInv (s : st) : Prop := OnceOK s /\ SecsPos s.

Lemma ExactInv_init t0 en : ExactInv (init t0 en).
Proof. split; intros j; cbn; intros; discriminate. Qed.

Lemma op_K_cases s o k : op_K s o k -> (is_creation o /\ k = njobs s) \/ op_addressee o = Some k.
Proof. destruct o; cbn; intros H; try contradiction; subst; auto. Qed.

Theorem exact_step_op fuel hs s o s' r :
  Inv s -> ExactInv s -> op_typed s o -> step_op E fuel hs s o = (s', r) -> r <> NoFuel -> ExactInv s'.
Proof.
  intros I (O & P) Hty H Hr. split.
  - intros k a Hk Ha. destruct (op_K_dec s o k) as [HK|HK].
    + destruct (op_K_cases _ _ _ HK) as [(Hc & ->)|Ht].
      * destruct o; cbn in Hc; try contradiction; cbn [step_op] in H.
        -- destruct (create_record _ _ _ _ _ _ H Hr) as [->|(n & c1 & c2 & c3 & c4)]; [apply O; assumption|].
           cbn in c1, c2, c3, c4. destruct c4 as [(_ & c)|[(_ & _ & c)|[(c & _)|c]]]; congruence.
        -- destruct (secs <=? 0); [injection H as <- <-; apply O; assumption|].
           destruct (create_record _ _ _ _ _ _ H Hr) as [->|(n & c1 & c2 & c3 & c4)]; [apply O; assumption|].
           cbn in c1. congruence.
        -- destruct (create_record _ _ _ _ _ _ H Hr) as [->|(n & c1 & c2 & c3 & c4)]; [apply O; assumption|].
           cbn in c1. congruence.
      * pose proof (target_record _ _ _ _ _ _ _ Ht H Hr) as (t1 & t2 & t3 & t4 & t5).
        destruct t5 as [e|[e|[e|[(e & _)|e]]]]; try congruence.
        -- rewrite t2. apply (O k a); congruence.
        -- subst o. cbn in Hty, Ht. congruence.
        -- subst o. cbn in Hty, Ht. congruence.
    + destruct (untouched_or_due E prod_ok _ _ _ _ _ _ k I H Hr HK) as (_ & _ & J).
      destruct J as (j1 & j2 & j3 & j4 & j5 & j6 & [(x1 & x2)|[(x1 & x2 & x3)|[(x1 & x2 & x3)|x1]]]); try congruence.
      rewrite j2. apply (O k a); congruence.
  - intros k Hk. destruct (op_K_dec s o k) as [HK|HK].
    + destruct (op_K_cases _ _ _ HK) as [(Hc & ->)|Ht].
      * destruct o; cbn in Hc; try contradiction; cbn [step_op] in H.
        -- destruct (create_record _ _ _ _ _ _ H Hr) as [->|(n & c1 & c2 & c3 & c4)]; [apply P; assumption|].
           cbn in c1. congruence.
        -- destruct (secs <=? 0) eqn:Es; [injection H as <- <-; apply P; assumption|]. apply Z.leb_gt in Es.
           destruct (create_record _ _ _ _ _ _ H Hr) as [->|(n & c1 & c2 & c3 & c4)]; [apply P; assumption|].
           cbn in c3. rewrite c3. exact Es.
        -- destruct (create_record _ _ _ _ _ _ H Hr) as [->|(n & c1 & c2 & c3 & c4)]; [apply P; assumption|].
           cbn in c1. congruence.
      * pose proof (target_record _ _ _ _ _ _ _ Ht H Hr) as (t1 & t2 & t3 & t4 & t5).
        destruct t4 as [e|(secs & _ & e1 & e2)]; [rewrite e; apply P; congruence|lia].
    + destruct (untouched_or_due E prod_ok _ _ _ _ _ _ k I H Hr HK) as (_ & _ & J).
      destruct J as (j1 & j2 & j3 & _). rewrite j3. apply P. congruence.
Qed.

(* C08: every start of a one-shot job is the start announced for its requested instant, it does not happen
   before that instant, and afterwards the job is finished (so it never starts again: [finished_never_restarts]) *)
Theorem once_start_exact fuel hs s o s' r j t a oi :
  Inv s -> ExactInv s -> op_typed s o -> step_op E fuel hs s o = (s', r) -> r <> NoFuel ->
  In (EExec j t a oi) (new_events s s') -> jkind (jobs s' j) = KOnce ->
  a = jexec_t (jobs s' j) /\ a <= t /\ t = now s /\ jstatus (jobs s' j) = Finished /\ jnext (jobs s' j) = None.
Proof.
  intros I (O & P) Hty H Hr Hin0 Hk.
  destruct (starts_were_due E prod_ok _ _ _ _ _ _ I H Hr _ _ _ _ Hin0) as (Ht & _ & Hat).
  destruct (step_op_frame E prod_ok _ _ _ _ _ _ I H Hr) as (l & F). pose proof Hin0 as Hin.
  rewrite (new_events_app _ _ _ (of_log _ _ _ _ _ F)) in Hin.
  assert (Hs : started j l) by (exists t, a, oi; exact Hin).
  pose proof (of_cool _ _ _ _ _ F j) as Hcool. pose proof (of_now _ _ _ _ _ F) as Hnow.
  assert (Hfin : jnext (jobs s' j) = None \/ jnext (jobs s' j) = Some a -> jnext (jobs s' j) = None).
  { intros [e|e]; [exact e|]. exfalso. apply (Hcool a Hs). split; [exact e|lia]. }
  destruct (of_exec _ _ _ _ _ F _ _ _ _ Hin) as (_ & _ & [Ha|(HnK & Hq & Hd1 & Hd2)]).
  - destruct o; cbn in Ha; try contradiction.
    + destruct Ha as (<- & -> & Ea). cbn [step_op] in H.
      destruct (create_record _ _ _ _ _ _ H Hr) as [->|(n & c1 & c2 & c3 & c4)].
      { rewrite new_events_same in Hin0 by reflexivity. destruct Hin0. }
      cbn in c1, c2, c3, c4. rewrite c2. split; [exact Ea|]. split; [exact Hat|]. split; [exact Ht|].
      destruct c4 as [(x1 & x2)|[(_ & x1 & x2)|[(x1 & _)|x1]]]; try discriminate; [auto|].
      exfalso. apply (Hcool a Hs). split; [rewrite Ea; exact x2|lia].
    + destruct Ha as (<- & ->). cbn [step_op] in H.
      destruct (create_record _ _ _ _ _ _ H Hr) as [->|(n & c1 & c2 & c3 & c4)].
      { rewrite new_events_same in Hin0 by reflexivity. destruct Hin0. }
      cbn in c1. congruence.
    + subst j0. assert (Htg : op_addressee (OResume j) = Some j) by reflexivity.
      pose proof (target_record _ _ _ _ _ _ _ Htg H Hr) as (t1 & _). cbn in Hty. congruence.
    + destruct Ha as (<- & _). assert (Htg : op_addressee (OReset j0) = Some j0) by reflexivity.
      pose proof (target_record _ _ _ _ _ _ _ Htg H Hr) as (t1 & _). cbn in Hty. congruence.
  - pose proof (of_step _ _ _ _ _ F j HnK) as J.
    destruct J as (j1 & j2 & j3 & j4 & j5 & j6 & [(x1 & x2)|[(x1 & x2 & x3)|[(x1 & x2 & x3)|x1]]]); try congruence.
    + exfalso. apply (Hcool a Hs). split; [congruence|lia].
    + rewrite j2. split; [apply (O j a x1 Hd1)|]. auto.
Qed.

(* C08: every start of a countdown job is the start for the next-run time it had announced before the operation
   (never for a time set by the same operation: reset() itself does not start the job), and afterwards the job
   is paused with no next-run time *)
Theorem countdown_start_exact fuel hs s o s' r j t a oi :
  Inv s -> ExactInv s -> op_typed s o -> step_op E fuel hs s o = (s', r) -> r <> NoFuel ->
  In (EExec j t a oi) (new_events s s') -> jkind (jobs s' j) = KCountdown ->
  jstatus (jobs s j) = Running /\ jnext (jobs s j) = Some a /\ a <= t /\ t = now s /\
  jstatus (jobs s' j) = Paused /\ jnext (jobs s' j) = None /\ jkind (jobs s j) = KCountdown.
Proof.
  intros I (O & P) Hty H Hr Hin0 Hk.
  destruct (starts_were_due E prod_ok _ _ _ _ _ _ I H Hr _ _ _ _ Hin0) as (Ht & _ & Hat).
  destruct (step_op_frame E prod_ok _ _ _ _ _ _ I H Hr) as (l & F). pose proof Hin0 as Hin.
  rewrite (new_events_app _ _ _ (of_log _ _ _ _ _ F)) in Hin.
  assert (Hs : started j l) by (exists t, a, oi; exact Hin).
  pose proof (of_cool _ _ _ _ _ F j) as Hcool. pose proof (of_now _ _ _ _ _ F) as Hnow.
  destruct (of_exec _ _ _ _ _ F _ _ _ _ Hin) as (_ & _ & [Ha|(HnK & Hq & Hd1 & Hd2)]).
  - exfalso. destruct o; cbn in Ha; try contradiction.
    + destruct Ha as (<- & -> & Ea). cbn [step_op] in H.
      destruct (create_record _ _ _ _ _ _ H Hr) as [->|(n & c1 & c2 & c3 & c4)].
      { rewrite new_events_same in Hin0 by reflexivity. destruct Hin0. }
      cbn in c1. congruence.
    + destruct Ha as (<- & ->). cbn [step_op] in H.
      destruct (create_record _ _ _ _ _ _ H Hr) as [->|(n & c1 & c2 & c3 & c4)].
      { rewrite new_events_same in Hin0 by reflexivity. destruct Hin0. }
      cbn in c1. congruence.
    + subst j0. assert (Htg : op_addressee (OResume j) = Some j) by reflexivity.
      pose proof (target_record _ _ _ _ _ _ _ Htg H Hr) as (t1 & _). cbn in Hty. congruence.
    + destruct Ha as (<- & Ea & Hle). cbn in Hty. specialize (P j0 Hty). lia.
  - pose proof (of_step _ _ _ _ _ F j HnK) as J.
    destruct J as (j1 & j2 & j3 & j4 & j5 & j6 & [(x1 & x2)|[(x1 & x2 & x3)|[(x1 & x2 & x3)|x1]]]); try congruence.
    + exfalso. apply (Hcool a Hs). split; [congruence|lia].
    + split; [apply (wf_q _ _ (proj1 I) j Hq)|]. auto 8.
Qed.

(* C08: the next-run time of a countdown job is set by its own reset() only, to (instant of the reset + the
   countdown value in force); every other operation leaves it unchanged or clears it *)
Theorem countdown_next_only_by_reset fuel hs s o s' r j a :
  Inv s -> op_typed s o -> step_op E fuel hs s o = (s', r) -> r <> NoFuel ->
  jkind (jobs s j) = KCountdown -> ~ (is_creation o /\ j = njobs s) ->
  jnext (jobs s' j) = Some a ->
  jnext (jobs s j) = Some a \/ (o = OReset j /\ a = now s + jsecs (jobs s j)).
Proof.
  intros I Hty H Hr Hk Hnc Ha. destruct (op_K_dec s o j) as [HK|HK].
  - destruct (op_K_cases _ _ _ HK) as [Hc|Htg]; [destruct (Hnc Hc)|].
    pose proof (target_record _ _ _ _ _ _ _ Htg H Hr) as (t1 & t2 & t3 & t4 & t5).
    destruct t5 as [e|[e|[e|[(e & e')|e]]]]; try congruence.
    + left; congruence.
    + right. split; [exact e|congruence].
    + subst o. cbn in Hty, Htg. congruence.
  - destruct (untouched_or_due E prod_ok _ _ _ _ _ _ j I H Hr HK) as (_ & _ & J).
    destruct J as (j1 & j2 & j3 & j4 & j5 & j6 & [(x1 & x2)|[(x1 & x2 & x3)|[(x1 & x2 & x3)|x1]]]); try congruence.
    left; congruence.
Qed.

(* kind, requested instant and key of an existing job never change *)
Theorem job_identity_stable fuel hs s o s' r j :
  Inv s -> step_op E fuel hs s o = (s', r) -> r <> NoFuel -> ~ (is_creation o /\ j = njobs s) ->
  jkind (jobs s' j) = jkind (jobs s j) /\ jexec_t (jobs s' j) = jexec_t (jobs s j) /\ jkey (jobs s' j) = jkey (jobs s j).
Proof.
  intros I H Hr Hnc. destruct (op_K_dec s o j) as [HK|HK].
  - destruct (op_K_cases _ _ _ HK) as [Hc|Htg]; [destruct (Hnc Hc)|].
    pose proof (target_record _ _ _ _ _ _ _ Htg H Hr) as (t1 & t2 & t3 & _). auto.
  - destruct (untouched_or_due E prod_ok _ _ _ _ _ _ j I H Hr HK) as (_ & _ & (j1 & j2 & j3 & j4 & _)). auto.
Qed.

(* histories that use each control operation only on the kind of job whose control class offers it *)
Fixpoint ops_typed (fuel : nat) (hs : bool) (s : st) (ops : list op) : Prop :=
  match ops with
  | [] => True
  | o :: t => op_typed s o /\ ops_typed fuel hs (fst (step E fuel hs s o)) t
  end.

Theorem exact_run fuel hs ops : forall s s' rs,
  Inv s -> ExactInv s -> ops_typed fuel hs s ops -> run E fuel hs s ops = (s', rs) -> ~ In NoFuel rs ->
  Inv s' /\ ExactInv s'.
Proof.
  induction ops as [|o t IH]; intros s s' rs I X Hty H Hr; cbn [run] in H.
  - injection H as <- <-. auto.
  - destruct Hty as (Ho & Ht). destruct (step E fuel hs s o) as (s1, r) eqn:ES.
    destruct (run E fuel hs s1 t) as (s2, rs') eqn:ER. injection H as <- <-.
    assert (Hr1 : r <> NoFuel) by (intros ->; apply Hr; left; reflexivity).
    pose proof (step_inv E _ _ _ _ _ _ I ES Hr1) as I1.
    assert (X1 : ExactInv s1).
    { unfold step in ES. destruct (step_op E fuel hs s o) as (sx, rx) eqn:EO. injection ES as <- <-.
      exact (exact_step_op _ _ _ _ _ _ I X Ho EO Hr1). }
    apply (IH s1 s2 rs' I1 X1 Ht ER). intros Hc; apply Hr; right; exact Hc.
Qed.

(* C08: in every state reachable from the initial one the announced time of a one-shot job is its requested
   instant, and countdown values are positive *)
Theorem exact_reachable fuel hs t0 en ops s rs :
  ops_typed fuel hs (init t0 en) ops -> run E fuel hs (init t0 en) ops = (s, rs) -> ~ In NoFuel rs ->
  Inv s /\ OnceOK s /\ SecsPos s.
Proof. intros Hty H Hr. exact (exact_run _ _ _ _ _ _ (Inv_init t0 en) (ExactInv_init t0 en) Hty H Hr). Qed.
End Exact.

(* ------------------------------------------------------------------------------------------- *)
(* the hypotheses are satisfiable: a concrete environment and a typed history with a one-shot, a countdown and a
   recurring job that are all started by one late wake-up, in the order of their announced times *)
Definition exact_env : env :=
  {| prod := fun _ _ t => Ok (t + 10); fail_exec := fun _ _ => false; fail_cb := fun _ _ => false |}.
Definition exact_ops : list op :=
  [OOnce 5 0; OCountdown 3 1; OReset 1; OAt 2; OAdvance 10; OWake; OCancel 0; OPause 1].

Example exact_env_ok : forall j k t, exists v, prod exact_env j k t = Ok v /\ t < v.
Proof. intros j k t. exists (t + 10). split; [reflexivity|lia]. Qed.

Example exact_ops_typed : ops_typed exact_env 20 false (init 0 true) exact_ops.
Proof. vm_compute. repeat split; discriminate. Qed.

Example exact_ops_run :
  let '(s, rs) := run exact_env 20 false (init 0 true) exact_ops in
  rs = [Done; Done; Done; Done; Done; Done; Raised EAlreadyFinished; Done] /\
  execs (log s) = [EExec 2 10 10 5; EExec 0 10 5 5; EExec 1 10 3 5] /\
  map (fun j => (jstatus (jobs s j), jnext (jobs s j))) [0; 1; 2]%nat =
    [(Finished, None); (Paused, None); (Running, Some 20)].
Proof. vm_compute. repeat split. Qed.
