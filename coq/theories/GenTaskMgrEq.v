(* GenTaskMgrEq.v — the code generated from src/eascheduler/task_managers/{sequential,parallel}.py
   (coq/gen/GenTaskMgr.v, rewritten by tools/gen_taskmgr.py on every run) computes what the hand-written model of
   TaskMgr.v computes.  Hand-written; re-checked against the regenerated file on every run.

   For every manager kind m:
     * [gen_create_task_is_submit]: on every state that satisfies the invariant of TaskMgrFacts (so on every reachable
       state, [gen_create_task_reachable], and on every state in the middle of a running body,
       [gen_create_task_mid_body]) the generated create_task computes [submit m] - the function TaskMgr.step applies
       at a [Submit] event and TaskMgr.body (through [submits]) for submissions from inside a running coroutine -,
       returns the task it created (if any), and registers [cb_of m] as done-callback on exactly that task;
     * [gen_done_cb_is_model] / [gen_run_done_is_model]: what the generated code runs when asyncio calls the registered
       callback computes [done_cb m], i.e. what TaskMgr.run_done does at an [HDone] handle, on EVERY state;
     * [regs_ok_create_task] / [regs_ok_run_cb]: "every task that was ever created has exactly one registered
       done-callback, [cb_of m]" is preserved by both.

   WHERE MODEL AND CODE DIFFER IN SHAPE, and how the proofs bridge it:
     (a) the model writes the submission log inside [enqueue] / [reject] / [track] (i.e. late, once per path), the
         generated code writes it on entry of create_task (rule T9): the final records coincide field by field
         ([destruct s] + computation);
     (b) the model guards [submit] with `ph s c = Unknown` (a coroutine object is submitted once) and raises [flag]
         otherwise; the code has no such test: the agreement is stated for ph s c = Unknown ([submit_unknown]);
     (c) the model "rejects" where Python would pop from an empty deque (max_queue / parallel = 0); the code raises
         IndexError there.  Bridged by the translated constructor guard: [cfg_ok m] = "__init__ did not raise"
         gives 1 <= bound, and then bound <= length l forces l <> [];
     (d) `_task_start` calls `_task_done(None)`, whose first statement compares None with self.task (None here) and
         assigns None again; the model's [task_start] goes straight to [start_next]: [set_running s None = s] when
         [running s = None] (record eta, after [destruct s]);
     (e) `done_task is self.task` compares in the other order than the model's [opt_eqb (running s) (Some c)]
         ([opt_eqb_nat_sym]);
     (f) OrderedDict: `queue[key] = ...` keeps the position of an existing key ([od_set]) where the model appends.
         After `queue.pop(key, None)` the key is absent provided the keys of the queue were distinct - that is
         TaskMgrFacts.Dedup, part of [Inv MSeqDedup] ([od_set_fresh], [take_key_spec]);
     (g) set.add does nothing for an element that is present, the model's [track] appends: the new task is not
         tracked because tracked tasks are live and the submitted coroutine is Unknown ([Inv MPar], p_trk);
     (h) `_remove_task` catches the ValueError of deque.remove; the model's [untrack] uses [remove_first], which is
         the identity on a list without the element ([remove_first_notin] + record eta);
     (i) the `else: raise ValueError()` after the policy tests has no counterpart in the model: [spol] / [ppol]
         have three constructors ([destruct p]). *)
From EAS Require Import Base BaseFacts TaskMgr TaskMgrFacts GenRtTaskMgr.
From EASGen Require Import GenTaskMgr.
Open Scope nat_scope.

Theorem gen_taskmgr_recognised : gen_taskmgr_status_v = GenTaskMgrOk.
Proof. reflexivity. Qed.

(* ------------------------------------------------------------------------------------------- *)
(* 0. the statement                                                                             *)

(* [submit m] once the "submitted once" guard has been passed *)
Definition submit_known (m : mgr) (s : state) (c k : nat) : state :=
  match m with
  | MSeq => submit_seq s c k
  | MSeqLim q p => submit_seqlim q p s c k
  | MSeqDedup => submit_dedup s c k
  | MPar => track s c k
  | MParLim n p => submit_parlim n p s c k
  end.

Lemma submit_unknown m s c k : ph s c = Unknown -> submit m s c k = submit_known m s c k.
Proof. intros H. unfold submit. rewrite H. destruct m; reflexivity. Qed.

(* the generated create_task of the class that [m] stands for; [k] is the number the model's [Submit c k] carries
   (the key of the de-duplicating manager, the task name for the others), [n] the task name where it is separate *)
Definition gen_create_task (m : mgr) (c k n : nat) (s : st) : M (option nat) :=
  match m with
  | MSeq => SequentialTaskManager.create_task c k s
  | MSeqLim q p => LimitingSequentialTaskManager.create_task q p c k s
  | MSeqDedup => SequentialDeduplicatingTaskManager.create_task c k n s
  | MPar => ParallelTaskManager.create_task c k s
  | MParLim l p => LimitingParallelTaskManager.create_task l p c k s
  end.

Definition gen_run_cb (m : mgr) (cb : cbid) (t : nat) (s : st) : M unit :=
  match m with
  | MSeq => SequentialTaskManager.run_cb cb t s
  | MSeqLim q p => LimitingSequentialTaskManager.run_cb q p cb t s
  | MSeqDedup => SequentialDeduplicatingTaskManager.run_cb cb t s
  | MPar => ParallelTaskManager.run_cb cb t s
  | MParLim l p => LimitingParallelTaskManager.run_cb l p cb t s
  end.

(* the constructor accepted its arguments *)
Definition gen_init_guard (m : mgr) : bool :=
  match m with
  | MSeq => SequentialTaskManager.init_guard
  | MSeqLim q p => LimitingSequentialTaskManager.init_guard q p
  | MSeqDedup => SequentialDeduplicatingTaskManager.init_guard
  | MPar => ParallelTaskManager.init_guard
  | MParLim l p => LimitingParallelTaskManager.init_guard l p
  end.
Definition cfg_ok (m : mgr) : Prop := gen_init_guard m = false.

(* the callback the model runs at [HDone] (TaskMgr.done_cb), as the bound method that the code registers *)
Definition cb_of (m : mgr) : cbid :=
  match m with
  | MSeq | MSeqLim _ _ | MSeqDedup => CbTaskDone
  | MPar => CbTasksDiscard
  | MParLim _ _ => CbRemoveTask
  end.

Definition addreg (r : list (nat * cbid)) (o : option nat) (cb : cbid) : list (nat * cbid) :=
  match o with Some t => r ++ [(t, cb)] | None => r end.

(* what create_task returns: the task that was created by this call, if any.
   sequential: the manager was idle -> the task it now runs;  parallel: the new task unless it was skipped *)
Definition submit_rv (m : mgr) (s : state) (c k : nat) : option nat :=
  match m with
  | MSeq | MSeqLim _ _ | MSeqDedup =>
      match running s with Some _ => None | None => running (submit_known m s c k) end
  | MPar => Some c
  | MParLim lim PSkip => if lim <=? length (tracked s) then None else Some c
  | MParLim _ _ => Some c
  end.

(* what `_task_done` / the callbacks return or start: the head of the queue *)
Definition next_of (s : state) : option nat := match queue s with [] => None | (c, _) :: _ => Some c end.
Definition done_rv (m : mgr) (s : state) : option nat := if is_seq m then next_of s else None.

(* ------------------------------------------------------------------------------------------- *)
(* 1. small facts                                                                               *)

Lemma opt_eqb_nat_sym (a b : option nat) : opt_eqb Nat.eqb a b = opt_eqb Nat.eqb b a.
Proof. destruct a, b; cbn; try reflexivity. apply Nat.eqb_sym. Qed.

Lemma set_tracked_same s : set_tracked s (tracked s) = s.
Proof. destruct s; reflexivity. Qed.

Lemma guard_nonempty {A} (n : nat) (l : list A) : (n <? 1) = false -> (n <=? length l) = true -> l <> [].
Proof.
  intros Hg Hl -> . cbn in Hl. apply Nat.ltb_ge in Hg. apply Nat.leb_le in Hl. lia.
Qed.

Lemma unsnoc_none {A} (l : list A) : unsnoc l = None -> l = [].
Proof. intros H. pose proof (unsnoc_spec l) as Hs. rewrite H in Hs. exact Hs. Qed.

(* (f): a key that is absent goes to the end *)
Lemma od_set_fresh k c q : ~ In k (map snd q) -> od_set k c q = q ++ [(c, k)].
Proof.
  induction q as [|[c' k'] q IH]; cbn; intros H; [reflexivity|].
  destruct (Nat.eqb_spec k' k) as [->|_]; [exfalso; apply H; left; reflexivity|].
  rewrite IH; [reflexivity|]. intros Hi. apply H. right. exact Hi.
Qed.

Lemma take_key_absent k q : NoDup (map snd q) ->
  match take_key k q with
  | (Some _, q') => ~ In k (map snd q')
  | (None, _) => ~ In k (map snd q)
  end.
Proof.
  intros Hnd. pose proof (take_key_spec k q) as Hs. destruct (take_key k q) as [[v|] q'].
  - destruct Hs as (q1 & q2 & -> & -> & Hn1). rewrite map_app in *. cbn in Hnd.
    pose proof (NoDup_remove_2 _ _ _ Hnd) as Hn. exact Hn.
  - destruct Hs as [_ Hn]. exact Hn.
Qed.

(* ------------------------------------------------------------------------------------------- *)
(* 2. the sequential managers: _get_next_task / _task_done / _task_start, one copy per class     *)

Definition clear_if (d : option nat) (s : state) : state :=
  if opt_eqb Nat.eqb d (running s) then set_running s None else s.
Definition start_rv (s : state) : option nat := match running s with Some _ => None | None => next_of s end.

Ltac open_state s :=
  destruct s as [ph0 mc0 ent0 subk0 started0 entlog0 closed0 mcanc0 queue0 running0 tracked0 ready0 flag0].

Lemma seq_task_done d s r :
  SequentialTaskManager.task_done d (mkrt s r) =
  (mkrt (start_next (clear_if d s)) (addreg r (next_of s) CbTaskDone), Ret (next_of s)).
Proof.
  open_state s.
  unfold SequentialTaskManager.task_done, SequentialTaskManager.get_next_task, clear_if, next_of, start_next.
  cbn. destruct (opt_eqb Nat.eqb d running0); destruct queue0 as [|[c k] q]; reflexivity.
Qed.

Lemma seqlim_task_done mq p d s r :
  LimitingSequentialTaskManager.task_done mq p d (mkrt s r) =
  (mkrt (start_next (clear_if d s)) (addreg r (next_of s) CbTaskDone), Ret (next_of s)).
Proof.
  open_state s.
  unfold LimitingSequentialTaskManager.task_done, LimitingSequentialTaskManager.get_next_task, clear_if, next_of, start_next.
  cbn. destruct (opt_eqb Nat.eqb d running0); destruct queue0 as [|[c k] q]; reflexivity.
Qed.

Lemma dedup_task_done d s r :
  SequentialDeduplicatingTaskManager.task_done d (mkrt s r) =
  (mkrt (start_next (clear_if d s)) (addreg r (next_of s) CbTaskDone), Ret (next_of s)).
Proof.
  open_state s.
  unfold SequentialDeduplicatingTaskManager.task_done, SequentialDeduplicatingTaskManager.get_next_task, clear_if,
    next_of, start_next.
  cbn. destruct (opt_eqb Nat.eqb d running0); destruct queue0 as [|[c k] q]; reflexivity.
Qed.

(* (d) *)
Lemma clear_none_idle s : running s = None -> clear_if None s = s.
Proof. open_state s. cbn. intros ->. reflexivity. Qed.

Lemma seq_task_start s r :
  SequentialTaskManager.task_start (mkrt s r) = (mkrt (task_start s) (addreg r (start_rv s) CbTaskDone), Ret (start_rv s)).
Proof.
  unfold SequentialTaskManager.task_start, task_start, start_rv, rt_task. cbn [ms].
  destruct (running s) eqn:Er; [reflexivity|].
  rewrite seq_task_done, (clear_none_idle s Er). reflexivity.
Qed.

Lemma seqlim_task_start mq p s r :
  LimitingSequentialTaskManager.task_start mq p (mkrt s r) =
  (mkrt (task_start s) (addreg r (start_rv s) CbTaskDone), Ret (start_rv s)).
Proof.
  unfold LimitingSequentialTaskManager.task_start, task_start, start_rv, rt_task. cbn [ms].
  destruct (running s) eqn:Er; [reflexivity|].
  rewrite seqlim_task_done, (clear_none_idle s Er). reflexivity.
Qed.

Lemma dedup_task_start s r :
  SequentialDeduplicatingTaskManager.task_start (mkrt s r) =
  (mkrt (task_start s) (addreg r (start_rv s) CbTaskDone), Ret (start_rv s)).
Proof.
  unfold SequentialDeduplicatingTaskManager.task_start, task_start, start_rv, rt_task. cbn [ms].
  destruct (running s) eqn:Er; [reflexivity|].
  rewrite dedup_task_done, (clear_none_idle s Er). reflexivity.
Qed.

(* what [task_start] starts is what the manager runs afterwards, when it was idle *)
Lemma start_rv_running s : start_rv s = match running s with Some _ => None | None => running (task_start s) end.
Proof.
  unfold start_rv, task_start, next_of, start_next. destruct (running s) eqn:Er; [reflexivity|].
  destruct (queue s) as [|[c k] q]; [symmetry; exact Er|reflexivity].
Qed.

(* ------------------------------------------------------------------------------------------- *)
(* 3. create_task of the sequential managers                                                    *)

(* `queue.append((coro, name))` / `queue[key] = (coro, name)` on a state whose submission log is already written *)
Definition enq1 (s : state) (c k : nat) : state :=
  set_queue (set_ph s (upd (ph s) c Queued)) (queue s ++ [(c, k)]).

Definition seq_rv (s s' : state) : option nat := match running s with Some _ => None | None => running s' end.

Lemma start_rv_enq s s1 c k : running s1 = running s -> start_rv (enq1 s1 c k) = seq_rv s (task_start (enq1 s1 c k)).
Proof. intros H. rewrite start_rv_running. unfold seq_rv. cbn [enq1 running set_queue set_ph]. rewrite H. reflexivity. Qed.

Ltac rt_open :=
  unfold rt_queue, rt_tasks, rt_task, rt_enter_create_task, rt_queue_append, rt_set_queue, rt_set_tasks, rt_close,
    rt_cancel, rt_spawn, rt_tasks_append, rt_tasks_add, rt_add_done_callback, rt_od_set, on_ms;
  cbn [ms regs].

Theorem seq_create_task c k s r :
  SequentialTaskManager.create_task c k (mkrt s r) =
  (mkrt (submit_seq s c k) (addreg r (seq_rv s (submit_seq s c k)) CbTaskDone), Ret (seq_rv s (submit_seq s c k))).
Proof.
  unfold SequentialTaskManager.create_task. cbv zeta. rt_open.
  change (set_queue _ _) with (enq1 (log_sub s c k) c k).
  rewrite seq_task_start, (start_rv_enq s) by reflexivity.
  replace (enq1 (log_sub s c k) c k) with (enqueue s c k) by (open_state s; reflexivity).
  reflexivity.
Qed.

Theorem seqlim_create_task mq p c k s r :
  (mq <? 1) = false ->
  LimitingSequentialTaskManager.create_task mq p c k (mkrt s r) =
  (mkrt (submit_seqlim mq p s c k) (addreg r (seq_rv s (submit_seqlim mq p s c k)) CbTaskDone),
   Ret (seq_rv s (submit_seqlim mq p s c k))).
Proof.
  intros Hg. unfold LimitingSequentialTaskManager.create_task, submit_seqlim. cbv zeta. rt_open. red_state.
  assert (Htail : forall s1, running s1 = running s ->
            (let (s2, r2) := LimitingSequentialTaskManager.task_start mq p (mkrt (enq1 s1 c k) r) in
             match r2 with Ret r9 => (s2, Ret r9) | Exc e => (s2, @Exc (option nat) e) end) =
            (mkrt (task_start (enq1 s1 c k)) (addreg r (seq_rv s (task_start (enq1 s1 c k))) CbTaskDone),
             Ret (seq_rv s (task_start (enq1 s1 c k))))).
  { intros s1 H1. rewrite seqlim_task_start, (start_rv_enq s) by exact H1. reflexivity. }
  assert (Hrej : (mkrt (close (log_sub s c k) c) r, @Ret (option nat) None) =
                 (mkrt (reject s c k) (addreg r (seq_rv s (reject s c k)) CbTaskDone), Ret (seq_rv s (reject s c k)))).
  { unfold seq_rv, reject. red_state. destruct (running s); reflexivity. }
  destruct (mq <=? length (queue s)) eqn:El.
  - pose proof (guard_nonempty _ _ Hg El) as Hne.
    destruct p; cbn [spol_eqb].
    + exact Hrej.
    + destruct (queue s) as [|[v kv] q] eqn:Eq; [congruence|]. cbn [fst].
      change (set_queue (set_ph (close (set_queue (log_sub s c k) q) v) _) _)
        with (enq1 (close (set_queue (log_sub s c k) q) v) c k).
      rewrite Htail by reflexivity. unfold submit_seq.
      replace (enq1 (close (set_queue (log_sub s c k) q) v) c k) with (enqueue (close (set_queue s q) v) c k)
        by (open_state s; reflexivity).
      reflexivity.
    + destruct (unsnoc (queue s)) as [[q [v kv]]|] eqn:Eu; [|apply unsnoc_none in Eu; congruence]. cbn [fst].
      change (set_queue (set_ph (close (set_queue (log_sub s c k) q) v) _) _)
        with (enq1 (close (set_queue (log_sub s c k) q) v) c k).
      rewrite Htail by reflexivity. unfold submit_seq.
      replace (enq1 (close (set_queue (log_sub s c k) q) v) c k) with (enqueue (close (set_queue s q) v) c k)
        by (open_state s; reflexivity).
      reflexivity.
  - change (set_queue (set_ph (log_sub s c k) _) _) with (enq1 (log_sub s c k) c k).
    rewrite Htail by reflexivity. unfold submit_seq.
    replace (enq1 (log_sub s c k) c k) with (enqueue s c k) by (open_state s; reflexivity).
    reflexivity.
Qed.

(* (f): needs the keys of the queue to be distinct *)
Theorem dedup_create_task c k n s r :
  NoDup (map snd (queue s)) ->
  SequentialDeduplicatingTaskManager.create_task c k n (mkrt s r) =
  (mkrt (submit_dedup s c k) (addreg r (seq_rv s (submit_dedup s c k)) CbTaskDone),
   Ret (seq_rv s (submit_dedup s c k))).
Proof.
  intros Hnd. unfold SequentialDeduplicatingTaskManager.create_task, submit_dedup, rt_od_pop. cbv zeta. rt_open. red_state.
  assert (Htail : forall s1, running s1 = running s ->
            (let (s2, r2) := SequentialDeduplicatingTaskManager.task_start (mkrt (enq1 s1 c k) r) in
             match r2 with Ret r9 => (s2, Ret r9) | Exc e => (s2, @Exc (option nat) e) end) =
            (mkrt (task_start (enq1 s1 c k)) (addreg r (seq_rv s (task_start (enq1 s1 c k))) CbTaskDone),
             Ret (seq_rv s (task_start (enq1 s1 c k))))).
  { intros s1 H1. rewrite dedup_task_start, (start_rv_enq s) by exact H1. reflexivity. }
  pose proof (take_key_absent k (queue s) Hnd) as Ha.
  destruct (take_key k (queue s)) as [[v|] q'].
  - rt_open. red_state. cbn [fst]. rewrite (od_set_fresh k c q' Ha).
    change (set_queue (set_ph (close (set_queue (log_sub s c k) q') v) _) _)
      with (enq1 (close (set_queue (log_sub s c k) q') v) c k).
    rewrite Htail by reflexivity. unfold submit_seq.
    replace (enq1 (close (set_queue (log_sub s c k) q') v) c k) with (enqueue (close (set_queue s q') v) c k)
      by (open_state s; reflexivity).
    reflexivity.
  - rt_open. red_state. cbn [fst]. rewrite (od_set_fresh k c (queue s) Ha).
    change (set_queue (set_ph (log_sub s c k) _) _) with (enq1 (log_sub s c k) c k).
    rewrite Htail by reflexivity. unfold submit_seq.
    replace (enq1 (log_sub s c k) c k) with (enqueue s c k) by (open_state s; reflexivity).
    reflexivity.
Qed.

(* ------------------------------------------------------------------------------------------- *)
(* 4. create_task of the parallel managers                                                      *)

(* (g): needs that the new task is not in the set yet *)
Theorem par_create_task c k s r :
  ~ In c (tracked s) ->
  ParallelTaskManager.create_task c k (mkrt s r) = (mkrt (track s c k) (r ++ [(c, CbTasksDiscard)]), Ret (Some c)).
Proof.
  intros Hn. apply memb_false in Hn.
  unfold ParallelTaskManager.create_task, track. cbv zeta. rt_open. red_state. rewrite Hn. reflexivity.
Qed.

Theorem parlim_create_task lim p c k s r :
  (lim <? 1) = false ->
  LimitingParallelTaskManager.create_task lim p c k (mkrt s r) =
  (mkrt (submit_parlim lim p s c k) (addreg r (submit_rv (MParLim lim p) s c k) CbRemoveTask),
   Ret (submit_rv (MParLim lim p) s c k)).
Proof.
  intros Hg. unfold LimitingParallelTaskManager.create_task, submit_parlim, submit_rv. cbv zeta. rt_open. red_state.
  destruct (lim <=? length (tracked s)) eqn:El.
  - pose proof (guard_nonempty _ _ Hg El) as Hne.
    destruct p; cbn [ppol_eqb].
    + reflexivity.
    + destruct (tracked s) as [|v q] eqn:Et; [congruence|]. open_state s.
      unfold track, cancel_victim, task_cancel. cbn. destruct (ph0 v); reflexivity.
    + destruct (unsnoc (tracked s)) as [[q v]|] eqn:Eu; [|apply unsnoc_none in Eu; congruence].
      open_state s. unfold track, cancel_victim, task_cancel. cbn. destruct (ph0 v); reflexivity.
  - destruct p; open_state s; reflexivity.
Qed.

(* ------------------------------------------------------------------------------------------- *)
(* 5. the done-callbacks: what asyncio runs at the task's [HDone] handle                        *)

(* (e) *)
Lemma clear_if_some c s : clear_if (Some c) s = if opt_eqb Nat.eqb (running s) (Some c) then set_running s None else s.
Proof. unfold clear_if. rewrite opt_eqb_nat_sym. reflexivity. Qed.

Theorem seq_run_cb c s r :
  SequentialTaskManager.run_cb CbTaskDone c (mkrt s r) =
  (mkrt (seq_done_cb s c) (addreg r (next_of s) CbTaskDone), Ret tt).
Proof.
  unfold SequentialTaskManager.run_cb, seq_done_cb. rewrite seq_task_done, clear_if_some. reflexivity.
Qed.

Theorem seqlim_run_cb mq p c s r :
  LimitingSequentialTaskManager.run_cb mq p CbTaskDone c (mkrt s r) =
  (mkrt (seq_done_cb s c) (addreg r (next_of s) CbTaskDone), Ret tt).
Proof.
  unfold LimitingSequentialTaskManager.run_cb, seq_done_cb. rewrite seqlim_task_done, clear_if_some. reflexivity.
Qed.

Theorem dedup_run_cb c s r :
  SequentialDeduplicatingTaskManager.run_cb CbTaskDone c (mkrt s r) =
  (mkrt (seq_done_cb s c) (addreg r (next_of s) CbTaskDone), Ret tt).
Proof.
  unfold SequentialDeduplicatingTaskManager.run_cb, seq_done_cb. rewrite dedup_task_done, clear_if_some. reflexivity.
Qed.

Theorem par_run_cb c s r :
  ParallelTaskManager.run_cb CbTasksDiscard c (mkrt s r) = (mkrt (untrack s c) r, Ret tt).
Proof. reflexivity. Qed.

(* (h) *)
Theorem parlim_run_cb lim p c s r :
  LimitingParallelTaskManager.run_cb lim p CbRemoveTask c (mkrt s r) = (mkrt (untrack s c) r, Ret tt).
Proof.
  unfold LimitingParallelTaskManager.run_cb, LimitingParallelTaskManager.remove_task, untrack. cbv zeta. rt_open.
  destruct (memb c (tracked s)) eqn:Em; [reflexivity|].
  apply memb_false in Em. rewrite (remove_first_notin _ _ Em), set_tracked_same. reflexivity.
Qed.

(* ------------------------------------------------------------------------------------------- *)
(* 6. all manager kinds at once                                                                 *)

Lemma seq_rv_submit m s c k : is_seq m = true -> seq_rv s (submit_known m s c k) = submit_rv m s c k.
Proof. destruct m; intros H; try discriminate H; reflexivity. Qed.

Lemma cfg_ok_seqlim q p : cfg_ok (MSeqLim q p) -> (q <? 1) = false.
Proof. intros H. exact H. Qed.
Lemma cfg_ok_parlim n p : cfg_ok (MParLim n p) -> (n <? 1) = false.
Proof. intros H. exact H. Qed.

(* what each kind needs from the state *)
Definition create_pre (m : mgr) (s : state) (c : nat) : Prop :=
  match m with
  | MSeqDedup => NoDup (map snd (queue s))
  | MPar => ~ In c (tracked s)
  | _ => True
  end.

Theorem gen_create_task_known m s r c k n :
  cfg_ok m -> create_pre m s c ->
  gen_create_task m c k n (mkrt s r) =
  (mkrt (submit_known m s c k) (addreg r (submit_rv m s c k) (cb_of m)), Ret (submit_rv m s c k)).
Proof.
  intros Hc Hp. destruct m as [|q p| | |l p]; cbn [gen_create_task submit_known cb_of].
  - rewrite seq_create_task. reflexivity.
  - rewrite (seqlim_create_task q p c k s r (cfg_ok_seqlim q p Hc)). reflexivity.
  - rewrite (dedup_create_task c k n s r Hp). reflexivity.
  - rewrite (par_create_task c k s r Hp). reflexivity.
  - rewrite (parlim_create_task l p c k s r (cfg_ok_parlim l p Hc)). reflexivity.
Qed.

Lemma inv_create_pre m s c : Inv m s -> ph s c = Unknown -> create_pre m s c.
Proof.
  intros [Hc Hm] Hu. destruct m; cbn [create_pre]; try exact I.
  - unfold MI in Hm. cbn [is_seq] in Hm. destruct Hm as [_ [Hnd _]]. exact Hnd.
  - unfold MI in Hm. cbn [is_seq] in Hm. destruct Hm as [Hp _]. intros Hi.
    pose proof (p_trk _ _ _ _ _ Hp c Hi) as Hl. rewrite Hu in Hl. discriminate Hl.
Qed.

(* THE TIE for submissions: on every state of the invariant, for a coroutine that was not submitted before, the
   generated create_task computes [submit m], returns the task it created and registers [cb_of m] on it *)
Theorem gen_create_task_is_submit m s r c k n :
  Inv m s -> cfg_ok m -> ph s c = Unknown ->
  gen_create_task m c k n (mkrt s r) =
  (mkrt (submit m s c k) (addreg r (submit_rv m s c k) (cb_of m)), Ret (submit_rv m s c k)).
Proof.
  intros Hi Hc Hu. rewrite (submit_unknown m s c k Hu).
  apply gen_create_task_known; [exact Hc|]. exact (inv_create_pre m s c Hi Hu).
Qed.

(* ... at a [Submit] event of any history *)
Theorem gen_create_task_reachable m evs r c k n :
  cfg_ok m -> ph (run m evs) c = Unknown ->
  ms (fst (gen_create_task m c k n (mkrt (set_flag (run m evs) false) r))) = step m (run m evs) (Submit c k).
Proof.
  intros Hc Hu. cbn [step].
  assert (Hi : Inv m (set_flag (run m evs) false)).
  { pose proof (run_inv m evs) as H. apply (inv_ext _ _ _ H). unfold eqv. red_state. repeat split; reflexivity. }
  rewrite (gen_create_task_is_submit m _ r c k n Hi Hc Hu). reflexivity.
Qed.

(* ... and for every submission a running body makes (TaskMgr.body runs [submits m s1 (fst b)]): the states
   between two submissions of the script satisfy the invariant (TaskMgrFacts.mid_body_inv) *)
Theorem gen_create_task_mid_body m s x r0 b :
  Inv m s -> cfg_ok m -> ready s = HStep x :: r0 -> takes_beh s x = true ->
  exists s1 w, run_step m (set_ready s r0) x b = end_step (submits m s1 (fst b)) x w (snd b) /\
    forall pre c k post r n, fst b = pre ++ (c, k) :: post -> ph (submits m s1 pre) c = Unknown ->
      gen_create_task m c k n (mkrt (submits m s1 pre) r) =
      (mkrt (submits m s1 (pre ++ [(c, k)])) (addreg r (submit_rv m (submits m s1 pre) c k) (cb_of m)),
       Ret (submit_rv m (submits m s1 pre) c k)).
Proof.
  intros Hi Hc Hr Ht. destruct (mid_body_inv m s x r0 b Hi Hr Ht) as (s1 & w & He & _ & Hmid).
  exists s1, w. split; [exact He|]. intros pre c k post r n Hb Hu.
  destruct (Hmid pre ((c, k) :: post) Hb) as [Hi1 _].
  rewrite (gen_create_task_is_submit m _ r c k n Hi1 Hc Hu). f_equal. f_equal.
  clear. revert s1. induction pre as [|[c' k'] pre IH]; intros s1; cbn [submits app]; [reflexivity|]. apply IH.
Qed.

(* THE TIE for the done-callbacks: on EVERY state, running the callback that the model expects computes [done_cb m];
   it returns normally and registers [cb_of m] on the task it starts, if any *)
Theorem gen_done_cb_is_model m s r c :
  gen_run_cb m (cb_of m) c (mkrt s r) = (mkrt (done_cb m s c) (addreg r (done_rv m s) (cb_of m)), Ret tt).
Proof.
  destruct m as [|q p| | |l p]; cbn [gen_run_cb cb_of done_cb done_rv is_seq addreg].
  - apply seq_run_cb.
  - apply seqlim_run_cb.
  - apply dedup_run_cb.
  - apply par_run_cb.
  - apply parlim_run_cb.
Qed.

(* the [HDone] handle of TaskMgr.run_handles: the loop marks the callbacks as run and calls them *)
Theorem gen_run_done_is_model m s r c d :
  ph s c = Done d ->
  ms (fst (gen_run_cb m (cb_of m) c (mkrt (set_ph s (upd (ph s) c (Processed d))) r))) = run_done m s c.
Proof. intros H. unfold run_done. rewrite H, gen_done_cb_is_model. reflexivity. Qed.

(* ------------------------------------------------------------------------------------------- *)
(* 7. the registration table: every task that was created has exactly one done-callback, [cb_of m]  *)

Lemma start_next_started s : started (start_next s) = started s ++ olist (next_of s).
Proof.
  unfold start_next, next_of. destruct (queue s) as [|[c k] q]; red_state; [symmetry; apply app_nil_r|reflexivity].
Qed.

Lemma task_start_started s : started (task_start s) = started s ++ olist (start_rv s).
Proof.
  unfold task_start, start_rv. destruct (running s); [symmetry; apply app_nil_r|apply start_next_started].
Qed.

Lemma submit_seq_started s0 s c k :
  started s = started s0 -> running s = running s0 ->
  started (submit_seq s c k) = started s0 ++ olist (seq_rv s0 (submit_seq s c k)).
Proof.
  intros Hs Hr. unfold submit_seq. rewrite task_start_started, start_rv_running. unfold seq_rv. red_state.
  rewrite Hs, Hr. reflexivity.
Qed.

Lemma reject_started s c k : started (reject s c k) = started s ++ olist (seq_rv s (reject s c k)).
Proof. unfold seq_rv, reject. red_state. destruct (running s); symmetry; apply app_nil_r. Qed.

Theorem submit_started m s c k :
  cfg_ok m -> started (submit_known m s c k) = started s ++ olist (submit_rv m s c k).
Proof.
  intros Hc. destruct m as [|q p| | |l p]; cbn [submit_known].
  - rewrite <- (seq_rv_submit MSeq s c k eq_refl). apply submit_seq_started; reflexivity.
  - rewrite <- (seq_rv_submit (MSeqLim q p) s c k eq_refl). cbn [submit_known]. unfold submit_seqlim.
    destruct (q <=? length (queue s)).
    + destruct p.
      * apply reject_started.
      * destruct (queue s) as [|[v kv] t]; [apply reject_started|]. apply submit_seq_started; reflexivity.
      * destruct (unsnoc (queue s)) as [[t [v kv]]|]; [|apply reject_started]. apply submit_seq_started; reflexivity.
    + apply submit_seq_started; reflexivity.
  - rewrite <- (seq_rv_submit MSeqDedup s c k eq_refl). cbn [submit_known]. unfold submit_dedup.
    destruct (take_key k (queue s)) as [[v|] t]; apply submit_seq_started; reflexivity.
  - reflexivity.
  - unfold submit_parlim, submit_rv. destruct (l <=? length (tracked s)) eqn:El.
    + pose proof (guard_nonempty _ _ (cfg_ok_parlim l p Hc) El) as Hne. destruct p.
      * unfold reject. red_state. symmetry. apply app_nil_r.
      * destruct (tracked s) as [|v t]; [congruence|]. unfold track, cancel_victim, task_cancel. red_state.
        destruct (ph s v); reflexivity.
      * destruct (unsnoc (tracked s)) as [[t v]|] eqn:Eu; [|apply unsnoc_none in Eu; congruence].
        unfold track, cancel_victim, task_cancel. red_state. destruct (ph s v); reflexivity.
    + destruct p; reflexivity.
Qed.

Theorem done_cb_started m s c : started (done_cb m s c) = started s ++ olist (done_rv m s).
Proof.
  assert (Hs : started (seq_done_cb s c) = started s ++ olist (next_of s)).
  { unfold seq_done_cb. rewrite start_next_started. unfold next_of.
    destruct (opt_eqb Nat.eqb (running s) (Some c)); reflexivity. }
  destruct m; cbn [done_cb done_rv is_seq]; try exact Hs; unfold untrack; red_state; symmetry; apply app_nil_r.
Qed.

Definition RegOk (m : mgr) (s : st) : Prop := regs s = map (fun t => (t, cb_of m)) (started (ms s)).

Lemma addreg_map m r l o :
  r = map (fun t => (t, cb_of m)) l -> addreg r o (cb_of m) = map (fun t => (t, cb_of m)) (l ++ olist o).
Proof. intros ->. rewrite map_app. destruct o; cbn; [reflexivity|symmetry; apply app_nil_r]. Qed.

Theorem regs_ok_init m : RegOk m (mkrt init []).
Proof. reflexivity. Qed.

Theorem regs_ok_create_task m s c k n :
  RegOk m s -> Inv m (ms s) -> cfg_ok m -> ph (ms s) c = Unknown -> RegOk m (fst (gen_create_task m c k n s)).
Proof.
  destruct s as [s r]. unfold RegOk. cbn [ms regs]. intros Hr Hi Hc Hu.
  rewrite (gen_create_task_is_submit m s r c k n Hi Hc Hu). cbn [fst ms regs].
  rewrite (submit_unknown m s c k Hu), (submit_started m s c k Hc). apply addreg_map. exact Hr.
Qed.

Theorem regs_ok_run_cb m s c : RegOk m s -> RegOk m (fst (gen_run_cb m (cb_of m) c s)).
Proof.
  destruct s as [s r]. unfold RegOk. cbn [ms regs]. intros Hr.
  rewrite gen_done_cb_is_model. cbn [fst ms regs]. rewrite done_cb_started. apply addreg_map. exact Hr.
Qed.

(* ------------------------------------------------------------------------------------------- *)
(* 8. the hypotheses are satisfiable: concrete histories                                        *)

(* LimitingSequentialTaskManager(2, 'skip_first'): 1 runs, 2 and 3 wait; submitting 4 closes 2 *)
Example ex_seqlim :
  let m := MSeqLim 2 SSkipFirst in
  let s := run m [Submit 1 0; Submit 2 0; Submit 3 0] in
  cfg_ok m /\ ph s 4 = Unknown /\
  match gen_create_task m 4 0 0 (mkrt s []) with
  | (s', Ret rv) => closed (ms s') = [2] /\ queue (ms s') = [(3, 0); (4, 0)] /\ rv = None /\ regs s' = []
  | (_, Exc _) => False
  end.
Proof. vm_compute. repeat split; reflexivity. Qed.

(* SequentialDeduplicatingTaskManager: key 7 is replaced in the queue; when task 1 is done, _task_done starts 3 *)
Example ex_dedup :
  let m := MSeqDedup in
  let s := run m [Submit 1 5; Submit 2 7; Tick [([], NFin)]] in
  ph s 1 = Done DRet /\ ph s 3 = Unknown /\
  match gen_create_task m 3 7 9 (mkrt s []) with
  | (s', Ret rv) =>
      closed (ms s') = [2] /\ queue (ms s') = [(3, 7)] /\ rv = None /\
      match gen_run_cb m (cb_of m) 1 (on_ms (fun x => set_ph x (upd (ph x) 1 (Processed DRet))) s') with
      | (s'', Ret _) => running (ms s'') = Some 3 /\ started (ms s'') = [1; 3] /\ regs s'' = [(3, CbTaskDone)]
      | (_, Exc _) => False
      end
  | (_, Exc _) => False
  end.
Proof. vm_compute. repeat split; reflexivity. Qed.

(* LimitingParallelTaskManager(2, 'cancel_last'): 1 and 2 run, submitting 3 cancels 2 *)
Example ex_parlim :
  let m := MParLim 2 PCancelLast in
  let s := run m [Submit 1 0; Submit 2 0; Tick [([], NPark); ([], NPark)]] in
  cfg_ok m /\ ph s 3 = Unknown /\
  match gen_create_task m 3 0 0 (mkrt s []) with
  | (s', Ret rv) => tracked (ms s') = [1; 3] /\ mcanc (ms s') = [2] /\ ph (ms s') 2 = Waking WCanc /\
                    rv = Some 3 /\ regs s' = [(3, CbRemoveTask)]
  | (_, Exc _) => False
  end.
Proof. vm_compute. repeat split; reflexivity. Qed.

(* (c) is a real difference: with max_queue = 0 (which __init__ refuses) the code raises where the model rejects *)
Example ex_guard_needed :
  cfg_ok (MSeqLim 0 SSkipFirst) = (true = false) /\
  snd (gen_create_task (MSeqLim 0 SSkipFirst) 1 0 0 (mkrt init [])) = Exc XIndex.
Proof. split; reflexivity. Qed.
