(* ProdCases.v — Coq side of the producer correspondence: a case is a time-zone table, a producer
   expression, the recorded random draws and a sequence of (reference instant, what the implementation
   answered); the model is run on the same sequence, threading its state (caches, draw counter). *)
From EAS Require Import Base Civil Time Filters Replace Producers.

Record pcase := {
  pc_tz : tz;
  pc_expr : producer;
  pc_draws : list (Z * Z * Z);          (* (low, high, value) in ns, in call order *)
  pc_fuel : positive;
  pc_queries : list (Z * result Z)
}.

Definition POISON : Z := - (10 ^ 30).
Definition TOL : Z := 1000.              (* ns: the implementation computes shifted jitter windows in float seconds *)

Definition case_draw (ds : list (Z * Z * Z)) (k : nat) (a b : Z) : Z :=
  match nth_error ds k with
  | Some (a', b', x) => if (Z.abs (a - a') <=? TOL) && (Z.abs (b - b') <=? TOL) then x else POISON
  | None => POISON
  end.

Definition case_penv (c : pcase) : penv := {|
  pz := pc_tz c; draw := case_draw (pc_draws c); sun_ev := fun _ _ => None; location := None;
  interval_fuel := pc_fuel c
|}.

Fixpoint run_queries (E : penv) (p : producer) (st : pstate) (qs : list (Z * result Z)) : list (result Z) :=
  match qs with
  | [] => []
  | (dt, _) :: t => let '(r, st') := get_next E p st dt in r :: run_queries E p st' t
  end.

Definition pcase_model (c : pcase) : list (result Z) :=
  run_queries (case_penv c) (pc_expr c) pstate0 (pc_queries c).

Fixpoint first_diff_r (i : nat) (a b : list (result Z)) : option nat :=
  match a, b with
  | [], [] => None
  | x :: a', y :: b' => if result_eqb Z.eqb x y then first_diff_r (S i) a' b' else Some i
  | _, _ => Some i
  end.

Definition pcase_mismatch (c : pcase) : option nat :=
  first_diff_r 0%nat (pcase_model c) (map snd (pc_queries c)).

Fixpoint pmismatches_from (i : nat) (cs : list pcase) : list (nat * nat) :=
  match cs with
  | [] => []
  | c :: t => match pcase_mismatch c with
              | None => pmismatches_from (S i) t
              | Some k => (i, k) :: pmismatches_from (S i) t
              end
  end.
Definition pmismatches (cs : list pcase) : list (nat * nat) := pmismatches_from 0%nat cs.

(* C04 on the recorded answers: every Ok answer is strictly after its reference instant *)
Definition answers_future (c : pcase) : bool :=
  forallb (fun q : Z * result Z => match snd q with Ok v => fst q <? v | _ => true end) (pc_queries c).
