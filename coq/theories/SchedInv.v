(* SchedInv.v — the scheduler invariant and its preservation by the re-entrant core
   (_set_timer / run_jobs / loop / add_job / remove_job / execute) for every amount of fuel. *)
From EAS Require Import Base BaseFacts Sched.
From EASGen Require Import Generated.
From Coq Require Import Sorted.

Section Inv.
Variable E : env.

Definition nxt (s : st) (j : nat) : option Z := jnext (jobs s j).
Definition le_next (s : st) (a b : nat) : Prop :=
  exists x y, nxt s a = Some x /\ nxt s b = Some y /\ x <= y.

(* [X]: jobs that are RUNNING but currently taken out of the queue (popped by the loop, or being
   re-timed by an API operation). *)
Record WFq (X : list nat) (s : st) : Prop := {
  wf_nodup : NoDup (queue s);
  wf_sorted : StronglySorted (le_next s) (queue s);
  wf_q : forall j, In j (queue s) -> jstatus (jobs s j) = Running /\ ~ In j X;
  wf_rn : forall j, jlinked (jobs s j) = true -> (j < njobs s)%nat;
  wf_r : forall j, jstatus (jobs s j) = Running -> In j (queue s) \/ In j X;
  wf_sn : forall j, jstatus (jobs s j) = Running <-> nxt s j <> None;
  wf_lk : forall j, jstatus (jobs s j) = Running -> jlinked (jobs s j) = true;
  wf_fin : forall j, jstatus (jobs s j) = Finished -> jlinked (jobs s j) = false;
  wf_nb : broken s = false
}.

Definition HeadNotDue (s : st) : Prop :=
  match queue s with [] => True | h :: _ => exists t, nxt s h = Some t /\ now s < t end.
Definition NoDue (s : st) : Prop :=
  forall j, In j (queue s) -> exists t, nxt s j = Some t /\ now s < t.
Definition TimerOK (s : st) : Prop :=
  match queue s with
  | [] => timer s = None
  | h :: _ => if enabled s then timer s = nxt s h else timer s = None
  end.
(* inside the loop: the timer is not armed, or it is armed while the head is not due *)
Definition Tl (s : st) : Prop := timer s = None \/ (queue s <> [] /\ HeadNotDue s).

Definition frame (s s' : st) : Prop :=
  now s' = now s /\ enabled s' = enabled s /\ njobs s' = njobs s /\ opi s' = opi s.

Lemma frame_refl s : frame s s.
Proof. repeat split. Qed.
Lemma frame_trans a b c : frame a b -> frame b c -> frame a c.
Proof. unfold frame; intros (?&?&?&?) (?&?&?&?); repeat split; congruence. Qed.

(* ------------------------------------------------------------------------------------------- *)
(* unfolding equations (cbn would expose the raw mutual fix) *)
Lemma set_timer_S f s : set_timer E (S f) s =
  let s := set_timer_f None s in
  match queue s with
  | [] => Some s
  | h :: _ =>
      if negb (enabled s) then Some s else
      match jnext (jobs s h) with
      | None => Some (set_broken s)
      | Some t => if t <=? now s then run_jobs E f s else Some (set_timer_f (Some t) s)
      end
  end.
Proof. reflexivity. Qed.

Lemma run_jobs_S f s : run_jobs E (S f) s =
  let s := set_timer_f None s in
  match run_loop E f s with
  | None => None
  | Some s' => if broken s' then Some s' else
               match queue s' with [] => Some s' | _ :: _ => set_timer E f s' end
  end.
Proof. reflexivity. Qed.

Lemma run_loop_S f s : run_loop E (S f) s =
  match queue s with
  | [] => Some s
  | h :: q' =>
      match jnext (jobs s h) with
      | None => Some (add_ev (EHandler HLoop) (set_broken s))
      | Some t =>
          if now s <? t then Some s else
          let s := set_queue q' s in
          match exec_job E f h t s with
          | None => None
          | Some s =>
              match (if status_eqb (jstatus (jobs s h)) Running then add_job E f h s else Some s) with
              | None => None
              | Some s => run_loop E f s
              end
          end
      end
  end.
Proof. reflexivity. Qed.

Lemma add_job_S f j s : add_job E (S f) j s =
  if status_eqb (jstatus (jobs s j)) Running then
    let q := insort s j (queue s) in
    let s := set_queue q s in
    if is_head j q then set_timer E f s else Some s
  else Some s.
Proof. reflexivity. Qed.

Lemma remove_job_S f j s : remove_job E (S f) j s =
  match queue s with
  | [] => set_timer E f s
  | h :: _ =>
      let q := remove_first j (queue s) in
      let s := set_queue q s in
      match q with
      | [] => set_timer E f s
      | _ :: _ => if Nat.eqb h j then set_timer E f s else Some s
      end
  end.
Proof. reflexivity. Qed.

Definition finish_job (j : nat) (s : st) : st :=
  let b := jobs s j in
  let s := set_job j (with_linked (with_status_next b Finished None) false) s in
  let s := if jstored b then set_store (store_remove (jkey b) (store s)) s else s in
  run_cbs E (fun cb => ECbFin j cb) (jcbf b) s.

Definition exec_pre (j : nat) (t : Z) (s : st) : st :=
  let k := count_exec j (log s) in
  let s := add_ev (EExec j (now s) t (opi s)) s in
  if fail_exec E j k then add_ev (EHandler (HExec j)) s else s.

Lemma exec_job_S f j t s : exec_job E (S f) j t s =
  let s := exec_pre j t s in
  match jkind (jobs s j) with
  | KOnce => match remove_job E f j s with None => None | Some s => Some (finish_job j s) end
  | KCountdown => Some (set_next_run E j None s)
  | KAt =>
      let kp := count_prod j (log s) in
      let s := add_ev (EProd j) s in
      match prod E j kp (now s) with
      | Ok v => if too_old s v then Some (add_ev (EHandler (HJob j)) s)
                else Some (set_next_run E j (Some v) s)
      | Raise _ => Some (add_ev (EHandler (HJob j)) s)
      | OutOfFuel => None
      end
  end.
Proof. reflexivity. Qed.

Lemma job_finish_eq fuel j s : job_finish E fuel j s =
  match remove_job E fuel j s with None => None | Some s => Some (finish_job j s) end.
Proof. reflexivity. Qed.

(* ------------------------------------------------------------------------------------------- *)
(* "scheduler view" of a state: what WFq looks at *)
Definition same_view (s s' : st) : Prop :=
  queue s' = queue s /\
  (forall k, jstatus (jobs s' k) = jstatus (jobs s k) /\ jnext (jobs s' k) = jnext (jobs s k) /\
             jlinked (jobs s' k) = jlinked (jobs s k)) /\
  njobs s' = njobs s /\ broken s' = broken s.

Lemma le_next_view s s' a b : (forall k, jnext (jobs s' k) = jnext (jobs s k)) -> le_next s a b -> le_next s' a b.
Proof. unfold le_next, nxt; intros H; rewrite !H; auto. Qed.

Lemma sorted_view s s' q : (forall k, jnext (jobs s' k) = jnext (jobs s k)) ->
  StronglySorted (le_next s) q -> StronglySorted (le_next s') q.
Proof.
  intros Hj H; induction H as [|a l Hs IH Hall]; constructor; auto.
  eapply Forall_impl; [|exact Hall]. intros b Hb; eapply le_next_view; eauto.
Qed.

Lemma WFq_view X s s' : same_view s s' -> WFq X s -> WFq X s'.
Proof.
  intros (Hq & Hj & Hn & Hb) [H1 H2 H3 H3' H4 H5 H6 H7 H8].
  assert (Hs : forall k, jstatus (jobs s' k) = jstatus (jobs s k)) by (intros k; apply Hj).
  assert (Hx : forall k, jnext (jobs s' k) = jnext (jobs s k)) by (intros k; apply Hj).
  assert (Hl : forall k, jlinked (jobs s' k) = jlinked (jobs s k)) by (intros k; apply Hj).
  constructor; unfold nxt in *; rewrite ?Hq, ?Hn, ?Hb; auto.
  - eapply sorted_view; eauto.
  - intros j; rewrite Hs; auto.
  - intros j; rewrite Hl; auto.
  - intros j; rewrite Hs; auto.
  - intros j; rewrite Hs, Hx; auto.
  - intros j; rewrite Hs, Hl; auto.
  - intros j; rewrite Hs, Hl; auto.
Qed.

Lemma view_timer v s : same_view s (set_timer_f v s).
Proof. repeat split. Qed.
Lemma view_log v s : same_view s (set_log v s).
Proof. repeat split. Qed.
Lemma view_add_ev e s : same_view s (add_ev e s).
Proof. repeat split. Qed.
Lemma view_store v s : same_view s (set_store v s).
Proof. repeat split. Qed.


Lemma same_view_refl s : same_view s s.
Proof. repeat split. Qed.
Lemma same_view_trans a b c : same_view a b -> same_view b c -> same_view a c.
Proof.
  unfold same_view; intros (q1&j1&n1&b1) (q2&j2&n2&b2). split; [congruence|]. split; [|split; congruence].
  intros k. destruct (j1 k) as (x1&x2&x3). destruct (j2 k) as (y1&y2&y3). repeat split; congruence.
Qed.

Lemma run_cbs_fields mk cbs s :
  let s' := run_cbs E mk cbs s in
  queue s' = queue s /\ jobs s' = jobs s /\ njobs s' = njobs s /\ broken s' = broken s.
Proof.
  revert s; induction cbs as [|cb t IH]; intros s; cbn [run_cbs]; [repeat split|].
  cbv zeta in *. destruct (IH (if fail_cb E cb (count_cb cb (log s))
                then add_ev (EHandler (HCb cb)) (add_ev (mk cb) s) else add_ev (mk cb) s)) as (a&b&c&d).
  rewrite a, b, c, d. destruct (fail_cb E cb _); repeat split.
Qed.

Lemma run_cbs_view mk cbs s : same_view s (run_cbs E mk cbs s).
Proof.
  destruct (run_cbs_fields mk cbs s) as (a&b&c&d). split; [exact a|]. split; [|split; assumption].
  intros k. rewrite b. repeat split.
Qed.

Lemma run_cbs_other mk cbs s :
  now (run_cbs E mk cbs s) = now s /\ enabled (run_cbs E mk cbs s) = enabled s /\
  timer (run_cbs E mk cbs s) = timer s /\ store (run_cbs E mk cbs s) = store s /\
  opi (run_cbs E mk cbs s) = opi s.
Proof.
  revert s; induction cbs as [|cb t IH]; intros s; cbn [run_cbs]; [repeat split|].
  destruct (IH (if fail_cb E cb (count_cb cb (log s))
                then add_ev (EHandler (HCb cb)) (add_ev (mk cb) s) else add_ev (mk cb) s)) as (a&b&c&d&e).
  rewrite a, b, c, d, e. destruct (fail_cb E cb _); repeat split.
Qed.

(* ------------------------------------------------------------------------------------------- *)
(* list facts about insort *)
Lemma In_insort s j q x : In x (insort s j q) <-> x = j \/ In x q.
Proof.
  induction q as [|h t IH]; cbn [insort]; [cbn; intuition|].
  destruct (job_lt s j h); cbn [In]; [intuition|]. rewrite IH. intuition.
Qed.

Lemma NoDup_insort s j q : NoDup q -> ~ In j q -> NoDup (insort s j q).
Proof.
  induction q as [|h t IH]; cbn [insort]; intros Hnd Hni; [constructor; [tauto|constructor]|].
  destruct (job_lt s j h); [constructor; assumption|].
  inversion Hnd as [|? ? Hh Ht]; subst. constructor.
  - rewrite In_insort. intros [->|H]; [apply Hni; left; reflexivity|tauto].
  - apply IH; [assumption|]. intros H; apply Hni; right; exact H.
Qed.

Lemma le_next_trans s a b c : le_next s a b -> le_next s b c -> le_next s a c.
Proof.
  intros (x & y & Hx & Hy & Hxy) (y' & z & Hy' & Hz & Hyz).
  exists x, z. repeat split; auto. rewrite Hy in Hy'; injection Hy' as <-. lia.
Qed.

Lemma sorted_insort s j q :
  (forall k, In k q -> nxt s k <> None) -> nxt s j <> None ->
  StronglySorted (le_next s) q -> StronglySorted (le_next s) (insort s j q).
Proof.
  intros Hq Hj Hs. induction Hs as [|h t Hs IH Hall]; cbn [insort].
  - constructor; constructor.
  - assert (Hh : nxt s h <> None) by (apply Hq; left; reflexivity).
    unfold job_lt. fold (nxt s h) (nxt s j).
    destruct (nxt s h) as [tb|] eqn:Eh; [|congruence].
    destruct (nxt s j) as [ta|] eqn:Ej; [|congruence].
    destruct (ta <? tb) eqn:Elt.
    + constructor; [constructor; assumption|].
      assert (Hjh : le_next s j h) by (exists ta, tb; repeat split; auto; lia).
      constructor; [assumption|].
      eapply Forall_impl; [|exact Hall]. intros c Hc. eapply le_next_trans; eassumption.
    + constructor.
      * apply IH. intros k Hk; apply Hq; right; exact Hk.
      * apply Forall_forall. intros x Hx. apply In_insort in Hx. destruct Hx as [->|Hx].
        -- exists tb, ta. repeat split; auto; lia.
        -- rewrite Forall_forall in Hall. apply Hall; exact Hx.
Qed.

Lemma insort_head_same s j h t : is_head j (insort s j (h :: t)) = false -> exists t', insort s j (h :: t) = h :: t'.
Proof.
  cbn [insort]. destruct (job_lt s j h); cbn [is_head].
  - rewrite Nat.eqb_refl. discriminate.
  - intros _. eexists; reflexivity.
Qed.

Lemma sorted_remove_first s j q : StronglySorted (le_next s) q -> StronglySorted (le_next s) (remove_first j q).
Proof.
  induction 1 as [|h t Hs IH Hall]; cbn [remove_first]; [constructor|].
  destruct (Nat.eqb j h); [assumption|]. constructor; [assumption|].
  apply Forall_forall. intros x Hx. rewrite Forall_forall in Hall. apply Hall. eapply remove_first_In; eassumption.
Qed.

(* ------------------------------------------------------------------------------------------- *)
(* state-update facts *)
Lemma nxt_upd_other s j b k : k <> j -> nxt (set_job j b s) k = nxt s k.
Proof. intros H. unfold nxt, set_job, upd; cbn. destruct (Nat.eqb_spec k j); [congruence|reflexivity]. Qed.
Lemma jobs_upd_other s j b k : k <> j -> jobs (set_job j b s) k = jobs s k.
Proof. intros H. unfold set_job, upd; cbn. destruct (Nat.eqb_spec k j); [congruence|reflexivity]. Qed.
Lemma jobs_upd_same s j b : jobs (set_job j b s) j = b.
Proof. unfold set_job, upd; cbn. rewrite Nat.eqb_refl. reflexivity. Qed.

Lemma sorted_upd_out s j b q : ~ In j q -> StronglySorted (le_next s) q -> StronglySorted (le_next (set_job j b s)) q.
Proof.
  intros Hni H. induction H as [|h t Hs IH Hall]; constructor.
  - apply IH. intros Hj; apply Hni; right; exact Hj.
  - apply Forall_forall. intros x Hx. rewrite Forall_forall in Hall. specialize (Hall x Hx).
    destruct Hall as (a & c & Ha & Hc & Hac). exists a, c.
    rewrite !nxt_upd_other; [auto| |]; intros ->; apply Hni; [right; exact Hx|left; reflexivity].
Qed.

Definition job_ok (b : job) : Prop :=
  (jstatus b = Running <-> jnext b <> None) /\ (jstatus b = Running -> jlinked b = true) /\
  (jstatus b = Finished -> jlinked b = false).

(* replacing a job that is outside the queue *)
Lemma WFq_set_job_out X s j b :
  WFq (j :: X) s -> ~ In j (queue s) -> job_ok b -> (jlinked b = true -> (j < njobs s)%nat) ->
  WFq (j :: X) (set_job j b s).
Proof.
  intros [H1 H2 H3 H3' H4 H5 H6 H7 H8] Hni (Hb1 & Hb2 & Hb3) Hlt.
  constructor; cbn [queue set_job set_jobs njobs broken]; auto.
  - apply sorted_upd_out; assumption.
  - intros k Hk. assert (k <> j) by (intros ->; tauto).
    rewrite jobs_upd_other by assumption. apply H3; assumption.
  - intros k. destruct (Nat.eq_dec k j) as [->|Hne].
    + rewrite jobs_upd_same. exact Hlt.
    + rewrite jobs_upd_other by assumption. apply H3'.
  - intros k. destruct (Nat.eq_dec k j) as [->|Hne]; [intros _; right; left; reflexivity|].
    rewrite jobs_upd_other by assumption. apply H4.
  - intros k. destruct (Nat.eq_dec k j) as [->|Hne].
    + unfold nxt. rewrite jobs_upd_same. exact Hb1.
    + unfold nxt. rewrite jobs_upd_other by assumption. apply H5.
  - intros k. destruct (Nat.eq_dec k j) as [->|Hne].
    + rewrite jobs_upd_same. exact Hb2.
    + rewrite jobs_upd_other by assumption. apply H6.
  - intros k. destruct (Nat.eq_dec k j) as [->|Hne].
    + rewrite jobs_upd_same. exact Hb3.
    + rewrite jobs_upd_other by assumption. apply H7.
Qed.

Lemma WFq_drop X s j : WFq (j :: X) s -> jstatus (jobs s j) <> Running -> WFq X s.
Proof.
  intros [H1 H2 H3 H3' H4 H5 H6 H7 H8] Hnr. constructor; auto.
  - intros k Hk. destruct (H3 k Hk) as (a & c). split; auto. intros Hx; apply c; right; exact Hx.
  - intros k Hk. destruct (H4 k Hk) as [|[<-|]]; auto. congruence.
Qed.

Lemma WFq_weaken X s j : WFq X s -> ~ In j (queue s) -> WFq (j :: X) s.
Proof.
  intros [H1 H2 H3 H3' H4 H5 H6 H7 H8] Hni. constructor; auto.
  - intros k Hk. destruct (H3 k Hk) as (a & c). split; auto.
    intros [<-|Hx]; [apply Hni; exact Hk|apply c; exact Hx].
  - intros k Hk. destruct (H4 k Hk); [left|right; right]; assumption.
Qed.

Lemma WFq_insort X s j :
  WFq (j :: X) s -> ~ In j (queue s) -> jstatus (jobs s j) = Running -> ~ In j X ->
  WFq X (set_queue (insort s j (queue s)) s).
Proof.
  intros [H1 H2 H3 H3' H4 H5 H6 H7 H8] Hni Hr HnX.
  constructor; cbn [queue set_queue njobs broken jobs]; auto.
  - apply NoDup_insort; assumption.
  - change (StronglySorted (le_next s) (insort s j (queue s))).
    apply sorted_insort; auto.
    + intros k Hk. apply H5. apply H3; exact Hk.
    + apply H5; exact Hr.
  - intros k Hk. apply In_insort in Hk. destruct Hk as [->|Hk]; [split; auto|].
    destruct (H3 k Hk) as (a & c). split; auto. intros Hx; apply c; right; exact Hx.
  - intros k Hk. destruct (H4 k Hk) as [Hq|[<-|Hx]];
      [left; apply In_insort; auto | left; apply In_insort; auto | right; exact Hx].
Qed.

(* popping the head *)
Lemma WFq_pop X s h q : WFq X s -> queue s = h :: q -> WFq (h :: X) (set_queue q s) /\ ~ In h q /\ ~ In h X.
Proof.
  intros [H1 H2 H3 H3' H4 H5 H6 H7 H8] Hq. rewrite Hq in *.
  inversion H1 as [|? ? Hh Hnd]; subst. inversion H2 as [|? ? Hs Hall]; subst.
  split; [|split; [assumption|apply (H3 h); left; reflexivity]].
  constructor; cbn [queue set_queue njobs broken jobs]; auto.
  - intros k Hk. destruct (H3 k (or_intror Hk)) as (a & c). split; auto.
    intros [<-|Hx]; [apply Hh; exact Hk|apply c; exact Hx].
  - intros k Hk. destruct (H4 k Hk) as [[<-|Hq']|Hx]; [right; left; reflexivity|left; exact Hq'|right; right; exact Hx].
Qed.

(* removing a job from the queue (it stays RUNNING for the moment) *)
Lemma WFq_remove X s j :
  WFq X s -> ~ In j X -> WFq (j :: X) (set_queue (remove_first j (queue s)) s).
Proof.
  intros [H1 H2 H3 H3' H4 H5 H6 H7 H8] HnX.
  constructor; cbn [queue set_queue njobs broken jobs]; auto.
  - apply remove_first_NoDup; assumption.
  - change (StronglySorted (le_next s) (remove_first j (queue s))). apply sorted_remove_first; assumption.
  - intros k Hk. pose proof (remove_first_In _ _ _ Hk) as Hk'. destruct (H3 k Hk') as (a & c). split; auto.
    intros [<-|Hx]; [eapply remove_first_NoDup_notin; eassumption|apply c; exact Hx].
  - intros k Hk. destruct (Nat.eq_dec k j) as [->|Hne]; [right; left; reflexivity|].
    destruct (H4 k Hk) as [Hq|Hx]; [left; apply remove_first_In_other; assumption|right; right; exact Hx].
Qed.
(* ------------------------------------------------------------------------------------------- *)
Lemma TimerOK_NoDue_Tl s : TimerOK s -> NoDue s -> Tl s.
Proof.
  unfold TimerOK, Tl, HeadNotDue, NoDue. intros Ht Hn. destruct (queue s) as [|h q]; [left; assumption|].
  right; split; [discriminate|apply Hn; left; reflexivity].
Qed.

Lemma head_nodue X s : WFq X s -> HeadNotDue s -> NoDue s.
Proof.
  intros W Hh. pose proof (wf_sorted _ _ W) as Hs. unfold HeadNotDue, NoDue in *.
  destruct (queue s) as [|h q]; [intros ? []|].
  destruct Hh as (t & Ht & Hlt). intros j [<-|Hj]; [eauto|].
  inversion Hs as [|? ? _ Hall]; subst. rewrite Forall_forall in Hall.
  destruct (Hall j Hj) as (x & y & Hx & Hy & Hxy). rewrite Ht in Hx; injection Hx as <-.
  exists y; split; [assumption|lia].
Qed.

Lemma Tl_view s s' : queue s' = queue s -> jobs s' = jobs s -> now s' = now s -> timer s' = timer s -> Tl s -> Tl s'.
Proof. unfold Tl, HeadNotDue, nxt. intros -> -> -> ->. auto. Qed.

Lemma Tl_timer_none (s' : st) : timer s' = None -> Tl s'.
Proof. left; assumption. Qed.

(* updating a job outside the queue does not disturb Tl *)
Lemma Tl_set_job_out s j b : ~ In j (queue s) -> Tl s -> Tl (set_job j b s).
Proof.
  unfold Tl, HeadNotDue. cbn [timer queue set_job set_jobs now]. intros Hni [H|[Hne H]]; [left; exact H|right].
  split; [exact Hne|]. destruct (queue s) as [|h q]; [exact I|].
  rewrite nxt_upd_other; [exact H|]. intros ->; apply Hni; left; reflexivity.
Qed.

Lemma TimerOK_view s s' : queue s' = queue s -> jobs s' = jobs s -> enabled s' = enabled s -> timer s' = timer s ->
  TimerOK s -> TimerOK s'.
Proof. unfold TimerOK, nxt. intros -> -> -> ->. auto. Qed.

Lemma TimerOK_set_job_out s j b : ~ In j (queue s) -> TimerOK s -> TimerOK (set_job j b s).
Proof.
  unfold TimerOK. cbn [timer queue set_job set_jobs enabled]. intros Hni H.
  destruct (queue s) as [|h q]; [exact H|].
  rewrite nxt_upd_other; [exact H|]. intros ->; apply Hni; left; reflexivity.
Qed.

Definition set_timer_spec (f : nat) : Prop := forall X s s',
  WFq X s -> set_timer E f s = Some s' ->
  WFq X s' /\ TimerOK s' /\ (enabled s = true -> NoDue s') /\ frame s s'.
Definition run_jobs_spec (f : nat) : Prop := forall X s s',
  WFq X s -> enabled s = true -> run_jobs E f s = Some s' ->
  WFq X s' /\ TimerOK s' /\ NoDue s' /\ frame s s'.
Definition run_loop_spec (f : nat) : Prop := forall X s s',
  WFq X s -> enabled s = true -> Tl s -> run_loop E f s = Some s' ->
  WFq X s' /\ Tl s' /\ frame s s'.
Definition add_job_spec (f : nat) : Prop := forall X j s s',
  WFq (j :: X) s -> ~ In j (queue s) -> ~ In j X -> add_job E f j s = Some s' ->
  WFq X s' /\ frame s s' /\ (TimerOK s -> TimerOK s') /\ (enabled s = true -> Tl s -> Tl s').
Definition remove_job_spec (f : nat) : Prop := forall X j s s',
  WFq (j :: X) (set_queue (remove_first j (queue s)) s) -> remove_job E f j s = Some s' ->
  WFq (j :: X) s' /\ frame s s' /\ ((is_head j (queue s) = false -> TimerOK s) -> TimerOK s') /\
  (enabled s = true -> Tl s -> Tl s').
Definition exec_job_spec (f : nat) : Prop := forall X j t s s',
  WFq (j :: X) s -> ~ In j (queue s) -> jstatus (jobs s j) = Running -> enabled s = true -> Tl s ->
  exec_job E f j t s = Some s' ->
  WFq (j :: X) s' /\ Tl s' /\ frame s s'.

Definition core_specs (f : nat) : Prop :=
  set_timer_spec f /\ run_jobs_spec f /\ run_loop_spec f /\ add_job_spec f /\ remove_job_spec f /\ exec_job_spec f.

Lemma frame_timer v s : frame s (set_timer_f v s).
Proof. repeat split. Qed.

Lemma set_next_run_props j nx s :
  let s' := set_next_run E j nx s in
  queue s' = queue s /\ now s' = now s /\ enabled s' = enabled s /\ timer s' = timer s /\ njobs s' = njobs s /\
  opi s' = opi s /\ broken s' = broken s /\ store s' = store s /\
  jobs s' = upd (jobs s) j (with_status_next (jobs s j) (match nx with None => Paused | Some _ => Running end) nx).
Proof.
  unfold set_next_run. cbv zeta.
  set (s1 := set_job j _ s).
  destruct (run_cbs_fields (fun cb => ECbUpd j cb (match nx with None => Paused | Some _ => Running end) nx)
              (jcbu (jobs s j)) s1) as (a & b & c & d).
  destruct (run_cbs_other (fun cb => ECbUpd j cb (match nx with None => Paused | Some _ => Running end) nx)
              (jcbu (jobs s j)) s1) as (e & f & g & h & i).
  rewrite a, b, c, d, e, f, g, h, i. subst s1. repeat split.
Qed.

Lemma finish_job_props j s :
  let s' := finish_job j s in
  queue s' = queue s /\ now s' = now s /\ enabled s' = enabled s /\ timer s' = timer s /\ njobs s' = njobs s /\
  opi s' = opi s /\ broken s' = broken s /\
  jobs s' = upd (jobs s) j (with_linked (with_status_next (jobs s j) Finished None) false).
Proof.
  unfold finish_job. cbv zeta.
  set (s1 := set_job j _ s).
  set (s2 := if jstored (jobs s j) then _ else s1).
  destruct (run_cbs_fields (fun cb => ECbFin j cb) (jcbf (jobs s j)) s2) as (a & b & c & d).
  destruct (run_cbs_other (fun cb => ECbFin j cb) (jcbf (jobs s j)) s2) as (e & f & g & h & i).
  rewrite a, b, c, d, e, f, g, i. subst s2 s1. destruct (jstored (jobs s j)); repeat split.
Qed.
Lemma status_eqb_eq a b : status_eqb a b = true <-> a = b.
Proof. destruct a, b; cbn; split; congruence. Qed.

Lemma wf_head_next X s h q : WFq X s -> queue s = h :: q -> exists t, jnext (jobs s h) = Some t.
Proof.
  intros W Hq. assert (Hin : In h (queue s)) by (rewrite Hq; left; reflexivity).
  destruct (wf_q _ _ W h Hin) as (Hr & _). apply (wf_sn _ _ W) in Hr. unfold nxt in Hr.
  destruct (jnext (jobs s h)); [eauto|congruence].
Qed.

Lemma set_timer_step f : core_specs f -> set_timer_spec (S f).
Proof.
  intros (IHst & IHrj & _) X s s' W H. rewrite set_timer_S in H. cbv zeta in H.
  remember (set_timer_f None s) as s0 eqn:Es0.
  assert (W0 : WFq X s0) by (subst s0; eapply WFq_view; [apply view_timer|exact W]).
  assert (F0 : frame s s0) by (subst s0; apply frame_timer).
  assert (T0 : timer s0 = None) by (subst s0; reflexivity).
  destruct (queue s0) as [|h q] eqn:Eq.
  - injection H as <-. split; [exact W0|]. split; [|split; [|exact F0]].
    + unfold TimerOK. rewrite Eq. exact T0.
    + intros _ j Hj. rewrite Eq in Hj. destruct Hj.
  - destruct (enabled s0) eqn:En; cbn [negb] in H.
    + destruct (wf_head_next _ _ _ _ W0 Eq) as (t & Ht). rewrite Ht in H.
      destruct (t <=? now s0) eqn:Ele.
      * destruct (IHrj X s0 s' W0 En H) as (a & b & c & d).
        split; [exact a|]. split; [exact b|]. split; [intros _; exact c|eapply frame_trans; eassumption].
      * injection H as <-.
        assert (W1 : WFq X (set_timer_f (Some t) s0)) by (eapply WFq_view; [apply view_timer|exact W0]).
        split; [exact W1|]. split; [|split].
        -- unfold TimerOK. cbn [queue set_timer_f enabled timer]. rewrite Eq, En. unfold nxt. cbn [jobs]. auto.
        -- intros _. eapply head_nodue; [exact W1|]. unfold HeadNotDue. cbn [queue set_timer_f now]. rewrite Eq.
           exists t. split; [exact Ht|lia].
        -- destruct F0 as (f1 & f2 & f3 & f4). repeat split; cbn; assumption.
    + injection H as <-. split; [exact W0|]. split; [|split; [|exact F0]].
      * unfold TimerOK. rewrite Eq, En. exact T0.
      * destruct F0 as (_ & f2 & _). intros He. congruence.
Qed.

Lemma run_jobs_step f : core_specs f -> run_jobs_spec (S f).
Proof.
  intros (IHst & _ & IHlp & _) X s s' W En H. rewrite run_jobs_S in H. cbv zeta in H.
  remember (set_timer_f None s) as s0 eqn:Es0.
  assert (W0 : WFq X s0) by (subst s0; eapply WFq_view; [apply view_timer|exact W]).
  assert (F0 : frame s s0) by (subst s0; apply frame_timer).
  assert (T0 : timer s0 = None) by (subst s0; reflexivity).
  assert (En0 : enabled s0 = true) by (subst s0; exact En).
  destruct (run_loop E f s0) as [s1|] eqn:EL; [|discriminate].
  destruct (IHlp X s0 s1 W0 En0 (or_introl T0) EL) as (W1 & Tl1 & F1).
  rewrite (wf_nb _ _ W1) in H.
  assert (En1 : enabled s1 = true) by (destruct F1 as (_ & e & _); congruence).
  destruct (queue s1) as [|h q] eqn:Eq.
  - injection H as <-. split; [exact W1|]. split; [|split].
    + unfold TimerOK. rewrite Eq. destruct Tl1 as [T|[Hne _]]; [exact T|]. congruence.
    + intros j Hj. rewrite Eq in Hj. destruct Hj.
    + eapply frame_trans; eassumption.
  - destruct (IHst X s1 s' W1 H) as (a & b & c & d).
    split; [exact a|]. split; [exact b|]. split; [exact (c En1)|].
    eapply frame_trans; [exact F0|]. eapply frame_trans; eassumption.
Qed.

Lemma run_loop_step f : core_specs f -> run_loop_spec (S f).
Proof.
  intros (_ & _ & IHlp & IHadd & _ & IHex) X s s' W En HTl H. rewrite run_loop_S in H.
  destruct (queue s) as [|h q] eqn:Eq.
  - injection H as <-. split; [exact W|]. split; [exact HTl|apply frame_refl].
  - destruct (wf_head_next _ _ _ _ W Eq) as (t & Ht). rewrite Ht in H.
    destruct (now s <? t) eqn:Elt.
    + injection H as <-. split; [exact W|]. split; [exact HTl|apply frame_refl].
    + cbv zeta in H.
      destruct (WFq_pop _ _ _ _ W Eq) as (W1 & Hnq & HnX).
      remember (set_queue q s) as s1 eqn:Es1.
      assert (Hr : jstatus (jobs s1 h) = Running).
      { subst s1. cbn [jobs set_queue]. apply (wf_q _ _ W). rewrite Eq. left; reflexivity. }
      assert (Tl1 : Tl s1).
      { left. subst s1. cbn [timer set_queue]. destruct HTl as [T|[_ Hh]]; [exact T|].
        unfold HeadNotDue in Hh. rewrite Eq in Hh. destruct Hh as (t' & Ht' & Hlt).
        unfold nxt in Ht'. rewrite Ht in Ht'. injection Ht' as <-. lia. }
      assert (En1 : enabled s1 = true) by (subst s1; exact En).
      assert (Hq1 : ~ In h (queue s1)) by (subst s1; exact Hnq).
      destruct (exec_job E f h t s1) as [s2|] eqn:EX; [|discriminate].
      destruct (IHex X h t s1 s2 W1 Hq1 Hr En1 Tl1 EX) as (W2 & Tl2 & F2).
      assert (En2 : enabled s2 = true) by (destruct F2 as (_ & e & _); congruence).
      assert (Hq2 : ~ In h (queue s2)).
      { intros Hin. destruct (wf_q _ _ W2 h Hin) as (_ & Hc). apply Hc. left; reflexivity. }
      assert (F01 : frame s s1) by (subst s1; repeat split).
      destruct (status_eqb (jstatus (jobs s2 h)) Running) eqn:Est.
      * destruct (add_job E f h s2) as [s3|] eqn:EA; [|discriminate].
        destruct (IHadd X h s2 s3 W2 Hq2 HnX EA) as (W3 & F3 & _ & Tl3).
        assert (En3 : enabled s3 = true) by (destruct F3 as (_ & e & _); congruence).
        destruct (IHlp X s3 s' W3 En3 (Tl3 En2 Tl2) H) as (W4 & Tl4 & F4).
        split; [exact W4|]. split; [exact Tl4|].
        eapply frame_trans; [exact F01|]. eapply frame_trans; [exact F2|]. eapply frame_trans; eassumption.
      * assert (W3 : WFq X s2).
        { eapply WFq_drop; [exact W2|]. intros Hc. apply status_eqb_eq in Hc. congruence. }
        destruct (IHlp X s2 s' W3 En2 Tl2 H) as (W4 & Tl4 & F4).
        split; [exact W4|]. split; [exact Tl4|].
        eapply frame_trans; [exact F01|]. eapply frame_trans; eassumption.
Qed.
Lemma add_job_step f : core_specs f -> add_job_spec (S f).
Proof.
  intros (IHst & _) X j s s' W Hnq HnX H. rewrite add_job_S in H.
  destruct (status_eqb (jstatus (jobs s j)) Running) eqn:Est.
  - apply status_eqb_eq in Est. cbv zeta in H.
    pose proof (WFq_insort _ _ _ W Hnq Est HnX) as W1.
    remember (set_queue (insort s j (queue s)) s) as s1 eqn:Es1.
    assert (F1 : frame s s1) by (subst s1; repeat split).
    destruct (is_head j (insort s j (queue s))) eqn:Eh.
    + destruct (IHst X s1 s' W1 H) as (a & b & c & d).
      split; [exact a|]. split; [eapply frame_trans; eassumption|]. split; [intros _; exact b|].
      intros En _. apply TimerOK_NoDue_Tl; [exact b|]. apply c. subst s1; exact En.
    + injection H as <-. split; [exact W1|]. split; [exact F1|].
      destruct (queue s) as [|h t] eqn:Eq.
      { cbn in Eh. rewrite Nat.eqb_refl in Eh. discriminate. }
      destruct (insort_head_same _ _ _ _ Eh) as (t' & Ht').
      split.
      * unfold TimerOK. subst s1. cbn [queue set_queue enabled timer]. rewrite Ht', Eq. unfold nxt. cbn [jobs set_queue]. auto.
      * intros _. unfold Tl, HeadNotDue. subst s1. cbn [queue set_queue enabled timer now]. rewrite Ht', Eq.
        unfold nxt. cbn [jobs set_queue]. intros [T|[_ Hh]]; [left; exact T|right; split; [discriminate|exact Hh]].
  - injection H as <-. split; [|split; [apply frame_refl|split; auto]].
    eapply WFq_drop; [exact W|]. intros Hc. apply status_eqb_eq in Hc. congruence.
Qed.

Lemma remove_job_step f : core_specs f -> remove_job_spec (S f).
Proof.
  intros (IHst & _) X j s s' W1 H. rewrite remove_job_S in H.
  destruct (queue s) as [|h t] eqn:Eq.
  - assert (W : WFq (j :: X) s).
    { eapply WFq_view; [|exact W1]. repeat split. cbn [queue set_queue remove_first]. exact Eq. }
    destruct (IHst (j :: X) s s' W H) as (a & b & c & d).
    split; [exact a|]. split; [exact d|]. split; [intros _; exact b|].
    intros En _. apply TimerOK_NoDue_Tl; auto.
  - cbv zeta in H.
    remember (set_queue (remove_first j (h :: t)) s) as s1 eqn:Es1.
    assert (F1 : frame s s1) by (subst s1; repeat split).
    assert (En1 : enabled s1 = enabled s) by (subst s1; reflexivity).
    destruct (remove_first j (h :: t)) as [|h' t'] eqn:Er.
    + destruct (IHst (j :: X) s1 s' W1 H) as (a & b & c & d).
      split; [exact a|]. split; [eapply frame_trans; eassumption|]. split; [intros _; exact b|].
      intros En _. apply TimerOK_NoDue_Tl; auto. apply c. congruence.
    + destruct (Nat.eqb h j) eqn:Ehj.
      * destruct (IHst (j :: X) s1 s' W1 H) as (a & b & c & d).
        split; [exact a|]. split; [eapply frame_trans; eassumption|]. split; [intros _; exact b|].
        intros En _. apply TimerOK_NoDue_Tl; auto. apply c. congruence.
      * injection H as <-. split; [exact W1|]. split; [exact F1|].
        assert (Hh : h' = h).
        { cbn [remove_first] in Er. rewrite Nat.eqb_sym in Ehj. rewrite Ehj in Er. congruence. }
        subst h'. split.
        -- intros HT. cbn [is_head] in HT. specialize (HT Ehj). unfold TimerOK in *. subst s1.
           cbn [queue set_queue enabled timer]. rewrite Eq in HT. unfold nxt in *. cbn [jobs set_queue]. exact HT.
        -- intros _. unfold Tl, HeadNotDue. subst s1. cbn [queue set_queue timer now]. rewrite Eq.
           unfold nxt. cbn [jobs set_queue]. intros [T|[_ Hd]]; [left; exact T|right; split; [discriminate|exact Hd]].
Qed.

Lemma exec_pre_props j t s :
  let s' := exec_pre j t s in
  (queue s' = queue s /\ jobs s' = jobs s /\ njobs s' = njobs s /\ broken s' = broken s) /\
  now s' = now s /\ enabled s' = enabled s /\ timer s' = timer s /\ opi s' = opi s /\ store s' = store s.
Proof. unfold exec_pre. cbv zeta. destruct (fail_exec E j _); repeat split. Qed.

Lemma fields_view s s' : queue s' = queue s -> jobs s' = jobs s -> njobs s' = njobs s -> broken s' = broken s ->
  same_view s s'.
Proof. intros a b c d. split; [exact a|]. split; [|split; assumption]. intros k; rewrite b; repeat split. Qed.

Lemma exec_job_step f : core_specs f -> exec_job_spec (S f).
Proof.
  intros (_ & _ & _ & _ & IHrm & _) X j t s s' W Hnq Hrun En HTl H. rewrite exec_job_S in H. cbv zeta in H.
  destruct (exec_pre_props j t s) as ((v1 & v2 & v3 & v4) & p1 & p2 & p3 & p4 & p5).
  remember (exec_pre j t s) as s0 eqn:Es0.
  assert (W0 : WFq (j :: X) s0) by (eapply WFq_view; [|exact W]; apply fields_view; assumption).
  assert (F0 : frame s s0) by (repeat split; congruence).
  assert (Tl0 : Tl s0) by (eapply Tl_view; [..|exact HTl]; assumption).
  assert (Hnq0 : ~ In j (queue s0)) by (rewrite v1; exact Hnq).
  assert (En0 : enabled s0 = true) by congruence.
  assert (Hrun0 : jstatus (jobs s0 j) = Running) by (rewrite v2; exact Hrun).
  clear Es0.
  destruct (jkind (jobs s0 j)).
  - (* once: job_finish *)
    destruct (remove_job E f j s0) as [s1|] eqn:ER; [|discriminate]. injection H as <-.
    assert (Wr : WFq (j :: X) (set_queue (remove_first j (queue s0)) s0)).
    { rewrite remove_first_notin by exact Hnq0. eapply WFq_view; [|exact W0]. repeat split. }
    destruct (IHrm X j s0 s1 Wr ER) as (W1 & F1 & _ & Tl1).
    assert (Hnq1 : ~ In j (queue s1)).
    { intros Hin. destruct (wf_q _ _ W1 j Hin) as (_ & Hc). apply Hc. left; reflexivity. }
    destruct (finish_job_props j s1) as (q1 & q2 & q3 & q4 & q5 & q6 & q7 & q8).
    set (b := with_linked (with_status_next (jobs s1 j) Finished None) false) in *.
    assert (Wb : WFq (j :: X) (set_job j b s1)).
    { apply WFq_set_job_out; [exact W1|exact Hnq1|subst b; repeat split; cbn; congruence|subst b; cbn; congruence]. }
    split; [|split].
    + eapply WFq_view; [|exact Wb]. apply fields_view; cbn [queue jobs njobs broken set_job set_jobs]; assumption.
    + eapply Tl_view; [..|apply (Tl_set_job_out s1 j b Hnq1 (Tl1 En0 Tl0))];
        cbn [queue jobs now timer set_job set_jobs]; assumption.
    + eapply frame_trans; [exact F0|]. eapply frame_trans; [exact F1|]. repeat split; assumption.
  - (* countdown: set_next_run None *)
    injection H as <-.
    destruct (set_next_run_props j None s0) as (q1 & q2 & q3 & q4 & q5 & q6 & q7 & q8 & q9).
    set (b := with_status_next (jobs s0 j) Paused None) in *.
    assert (Wb : WFq (j :: X) (set_job j b s0)).
    { apply WFq_set_job_out; [exact W0|exact Hnq0|subst b; repeat split; cbn; congruence|].
      subst b; cbn. apply (wf_rn _ _ W0). }
    split; [|split].
    + eapply WFq_view; [|exact Wb]. apply fields_view; cbn [queue jobs njobs broken set_job set_jobs]; assumption.
    + eapply Tl_view; [..|apply (Tl_set_job_out s0 j b Hnq0 Tl0)];
        cbn [queue jobs now timer set_job set_jobs]; assumption.
    + eapply frame_trans; [exact F0|]. repeat split; assumption.
  - (* recurring: ask the trigger *)
    remember (add_ev (EProd j) s0) as s1 eqn:Es1.
    assert (W1 : WFq (j :: X) s1) by (subst s1; eapply WFq_view; [apply view_add_ev|exact W0]).
    assert (F1 : frame s s1) by (subst s1; exact F0).
    assert (Tl1 : Tl s1) by (subst s1; eapply Tl_view; [..|exact Tl0]; reflexivity).
    assert (Hnq1 : ~ In j (queue s1)) by (subst s1; exact Hnq0).
    assert (Hlk : jlinked (jobs s1 j) = true) by (subst s1; apply (wf_lk _ _ W0); exact Hrun0).
    assert (Hlt : (j < njobs s1)%nat) by (subst s1; apply (wf_rn _ _ W0); apply (wf_lk _ _ W0); exact Hrun0).
    clear Es1.
    assert (Hfail : forall s2, s2 = add_ev (EHandler (HJob j)) s1 -> WFq (j :: X) s2 /\ Tl s2 /\ frame s s2).
    { intros s2 ->. split; [eapply WFq_view; [apply view_add_ev|exact W1]|].
      split; [eapply Tl_view; [..|exact Tl1]; reflexivity|exact F1]. }
    destruct (prod E j _ _) as [v|e|]; [|injection H as <-; apply Hfail; reflexivity|discriminate].
    destruct (too_old s1 v); [injection H as <-; apply Hfail; reflexivity|].
    injection H as <-.
    destruct (set_next_run_props j (Some v) s1) as (q1 & q2 & q3 & q4 & q5 & q6 & q7 & q8 & q9).
    set (b := with_status_next (jobs s1 j) Running (Some v)) in *.
    assert (Wb : WFq (j :: X) (set_job j b s1)).
    { apply WFq_set_job_out; [exact W1|exact Hnq1| |intros _; exact Hlt].
      subst b. split; [|split]; cbn; [split; congruence|intros _; exact Hlk|congruence]. }
    split; [|split].
    + eapply WFq_view; [|exact Wb]. apply fields_view; cbn [queue jobs njobs broken set_job set_jobs]; assumption.
    + eapply Tl_view; [..|apply (Tl_set_job_out s1 j b Hnq1 Tl1)];
        cbn [queue jobs now timer set_job set_jobs]; assumption.
    + eapply frame_trans; [exact F1|]. repeat split; assumption.
Qed.

Theorem core_specs_all : forall f, core_specs f.
Proof.
  induction f as [|f IH].
  - repeat split; intros; discriminate.
  - split; [apply set_timer_step; exact IH|].
    split; [apply run_jobs_step; exact IH|].
    split; [apply run_loop_step; exact IH|].
    split; [apply add_job_step; exact IH|].
    split; [apply remove_job_step; exact IH|apply exec_job_step; exact IH].
Qed.
End Inv.
