(* TimeFacts.v — facts about time-zone tables: [candidates z l] is exactly the set of instants whose local
   time is l (for EVERY table), sorted strictly ascending. *)
From EAS Require Import Base BaseFacts Civil Time.
From Coq Require Import Sorted.

Lemma In_insert_uniq x y l : In x (insert_uniq y l) <-> x = y \/ In x l.
Proof.
  induction l as [|h t IH]; cbn [insert_uniq]; [cbn; intuition|].
  destruct (y <? h) eqn:E1; [cbn; intuition|].
  destruct (y =? h) eqn:E2.
  - apply Z.eqb_eq in E2. subst. cbn. intuition.
  - cbn [In]. rewrite IH. intuition.
Qed.

Lemma In_sort_uniq x l : In x (sort_uniq l) <-> In x l.
Proof.
  induction l as [|h t IH]; cbn [sort_uniq fold_right]; [reflexivity|].
  fold (sort_uniq t). rewrite In_insert_uniq, IH. cbn. intuition.
Qed.

Definition strictly_ascending (l : list Z) : Prop := StronglySorted Z.lt l.

Lemma insert_uniq_sorted y l : strictly_ascending l -> strictly_ascending (insert_uniq y l).
Proof.
  unfold strictly_ascending. induction 1 as [|h t Hs IH Hall]; cbn [insert_uniq].
  - constructor; constructor.
  - destruct (y <? h) eqn:E1.
    + constructor; [constructor; assumption|]. constructor; [lia|].
      eapply Forall_impl; [|exact Hall]. intros a Ha. lia.
    + destruct (y =? h) eqn:E2; [constructor; assumption|].
      constructor; [exact IH|]. apply Forall_forall. intros a Ha. apply In_insert_uniq in Ha.
      destruct Ha as [->|Ha]; [lia|]. rewrite Forall_forall in Hall. apply Hall; exact Ha.
Qed.

Lemma sort_uniq_sorted l : strictly_ascending (sort_uniq l).
Proof.
  induction l as [|h t IH]; cbn [sort_uniq fold_right]; [constructor|].
  apply insert_uniq_sorted. exact IH.
Qed.

Lemma offset_from_In cur l i : In (offset_from cur l i) (cur :: map snd l).
Proof.
  revert cur; induction l as [|[t o] r IH]; intros cur; cbn [offset_from map snd]; [left; reflexivity|].
  destruct (i <? t); [left; reflexivity|]. right. apply IH.
Qed.

Lemma offset_at_In z i : In (offset_at z i) (offsets z).
Proof. unfold offset_at, offsets. apply offset_from_In. Qed.

(* every time-zone table, no side condition *)
Theorem candidates_spec z l i : In i (candidates z l) <-> to_local z i = l.
Proof.
  unfold candidates. rewrite In_sort_uniq, filter_In, in_map_iff. split.
  - intros (_ & H). apply Z.eqb_eq in H. exact H.
  - intros H. split.
    + exists (offset_at z i). split; [unfold to_local in H; lia|].
      apply In_sort_uniq. apply offset_at_In.
    + apply Z.eqb_eq. exact H.
Qed.

Theorem candidates_sorted z l : strictly_ascending (candidates z l).
Proof. unfold candidates. apply sort_uniq_sorted. Qed.

Lemma last_z_In d l : In (last_z d l) (d :: l).
Proof.
  revert d; induction l as [|h t IH]; intros d; cbn [last_z]; [left; reflexivity|].
  right. apply IH.
Qed.

Lemma last_z_In_nonempty d l : l <> [] -> In (last_z d l) l.
Proof.
  destruct l as [|h t]; [congruence|]. intros _. cbn [last_z]. apply last_z_In.
Qed.

Lemma sorted_head_lt_last (a : Z) (rest : list Z) :
  strictly_ascending (a :: rest) -> rest <> [] -> a < last_z a rest.
Proof.
  intros Hs Hne. inversion Hs as [|? ? Hs' Hall]; subst.
  rewrite Forall_forall in Hall. apply Hall. apply last_z_In_nonempty. exact Hne.
Qed.

(* the gap a skipped local time lies in really is a forward transition of the table *)
Lemma gap_from_spec cur l loc ob oa :
  gap_from cur l loc = Some (ob, oa) ->
  exists t, In (t, oa) l /\ t + ob * NS <= loc < t + oa * NS.
Proof.
  revert cur; induction l as [|[t o] r IH]; intros cur; cbn [gap_from]; [discriminate|].
  destruct ((t + cur * NS <=? loc) && (loc <? t + o * NS)) eqn:E.
  - intros H. injection H as <- <-. exists t. split; [left; reflexivity|]. lia.
  - intros H. destruct (IH _ H) as (t' & Hin & Hr). exists t'. split; [right; exact Hin|exact Hr].
Qed.

Theorem gap_of_spec z loc ob oa :
  gap_of z loc = Some (ob, oa) ->
  ob < oa /\ exists t, In (t, oa) (tz_trans z) /\ t + ob * NS <= loc < t + oa * NS.
Proof.
  intros H. destruct (gap_from_spec _ _ _ _ _ H) as (t & Hin & Hr).
  split; [unfold NS in *; nia|]. exists t. split; assumption.
Qed.
