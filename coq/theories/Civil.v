(* Civil.v — instants, local date-times and the proleptic Gregorian calendar over Z.
   Executable definitions only (proofs: CivilFacts.v).  Imports Base only.

   * an instant is a [Z]: nanoseconds since 1970-01-01T00:00:00Z
   * a local date-time is a [Z] as well: "nanoseconds since 1970-01-01T00:00 on the local wall
     clock", i.e.  local = instant + utc offset  (the offset comes from the time-zone layer)
   * a day number is a [Z]: days since 1970-01-01 (day 0 is a Thursday)

   The calendar functions are H. Hinnant's [civil_from_days] / [days_from_civil]
   (http://howardhinnant.github.io/date_algorithms.html) with C++'s truncating division on
   non-negative operands replaced by Z's floor division, which makes the era computation
   [(z >= 0 ? z : z - 146096) / 146097] simply [z / 146097].                                     *)
From EAS Require Import Base.

Definition NS : Z := 1000000000.            (* nanoseconds per second *)
Definition DAY : Z := 86400 * NS.           (* nanoseconds per (local wall-clock) day *)

Definition to_local_off (instant offset_s : Z) : Z := instant + offset_s * NS.
Definition local_day (l : Z) : Z := l / DAY.       (* floor: 1969-12-31T23:59 is day -1 *)
Definition local_tod (l : Z) : Z := l mod DAY.     (* 0 <= tod < DAY, nanoseconds since local midnight *)
Definition mk_local (day tod : Z) : Z := day * DAY + tod.

(* (year, month 1..12, day 1..31) of a day number *)
Definition civil_from_days (z0 : Z) : Z * Z * Z :=
  let z := z0 + 719468 in
  let era := z / 146097 in
  let doe := z - era * 146097 in                                            (* [0, 146096] *)
  let yoe := (doe - doe / 1460 + doe / 36524 - doe / 146096) / 365 in       (* [0, 399] *)
  let y := yoe + era * 400 in
  let doy := doe - (365 * yoe + yoe / 4 - yoe / 100) in                     (* [0, 365] *)
  let mp := (5 * doy + 2) / 153 in                                          (* [0, 11] *)
  let d := doy - (153 * mp + 2) / 5 + 1 in                                  (* [1, 31] *)
  let m := if mp <? 10 then mp + 3 else mp - 9 in                           (* [1, 12] *)
  (if m <=? 2 then y + 1 else y, m, d).

Definition days_from_civil (y0 m d : Z) : Z :=
  let y := if m <=? 2 then y0 - 1 else y0 in
  let era := y / 400 in
  let yoe := y - era * 400 in                                               (* [0, 399] *)
  let doy := (153 * (if 2 <? m then m - 3 else m + 9) + 2) / 5 + d - 1 in   (* [0, 365] *)
  let doe := yoe * 365 + yoe / 4 - yoe / 100 + doy in                       (* [0, 146096] *)
  era * 146097 + doe - 719468.

Definition year_of_day (n : Z) : Z := fst (fst (civil_from_days n)).
Definition month_of_day (n : Z) : Z := snd (fst (civil_from_days n)).
Definition dom_of_day (n : Z) : Z := snd (civil_from_days n).

(* ISO weekday, Monday = 1 .. Sunday = 7; day 0 = 1970-01-01 = Thursday = 4 *)
Definition weekday_of_day (n : Z) : Z := (n + 3) mod 7 + 1.

(* the Gregorian rules, stated independently of the two algorithms above (used by CivilFacts to say
   that [civil_from_days] counts days the way the Gregorian calendar does) *)
Definition is_leap (y : Z) : bool :=
  ((y mod 4 =? 0) && negb (y mod 100 =? 0)) || (y mod 400 =? 0).

Definition days_in_month (y m : Z) : Z :=
  if m =? 2 then (if is_leap y then 29 else 28)
  else if (m =? 4) || (m =? 6) || (m =? 9) || (m =? 11) then 30 else 31.

Definition next_date (ymd : Z * Z * Z) : Z * Z * Z :=
  let '(y, m, d) := ymd in
  if d <? days_in_month y m then (y, m, d + 1)
  else if m <? 12 then (y, m + 1, 1)
  else (y + 1, 1, 1).

Definition valid_date (y m d : Z) : bool :=
  (1 <=? m) && (m <=? 12) && (1 <=? d) && (d <=? days_in_month y m).

(* accessors on local date-times *)
Definition local_weekday (l : Z) : Z := weekday_of_day (local_day l).
Definition local_month (l : Z) : Z := month_of_day (local_day l).
Definition local_dom (l : Z) : Z := dom_of_day (local_day l).
Definition local_year (l : Z) : Z := year_of_day (local_day l).
