(* SchedTrace.v — every run of the re-entrant core and every API operation is a sequence of a few
   ATOMIC state changes (an event is logged, set_next_run / finish_job on a job that is not finished,
   a callback list is edited, a job is allocated ...).  Proved once, by induction on fuel for the six
   core functions and by cases for the API; an invariant that talks about jobs / store / log then only
   has to be checked against the atoms ([steps_preserves], [run_preserves]).
   Also here: the syntactic frame of the core ([touch]): the core only ever touches jobs that are in
   the queue (or the job it was called for). *)
From EAS Require Import Base BaseFacts Sched SchedInv SchedApi.
From EASGen Require Import Generated.
From Coq Require Import Sorted.

(* ------------------------------------------------------------------------------------------- *)
Section Touch.
Variable E : env.

(* [Q] bounds the jobs that may have been modified and the jobs that may be queued afterwards *)
Definition touch (Q : nat -> Prop) (s s' : st) : Prop :=
  (forall k, In k (queue s') -> Q k) /\ (forall k, ~ Q k -> jobs s' k = jobs s k).

Lemma touch_then (Q Q' : nat -> Prop) a b d :
  touch Q a b -> (forall k, Q' k -> Q k \/ In k (queue b)) -> touch Q' b d -> touch Q a d.
Proof.
  intros (H1 & H2) Hsub (H3 & H4). split.
  - intros k Hk. destruct (Hsub k (H3 k Hk)) as [Hq|Hq]; auto.
  - intros k Hn. rewrite H4; [apply H2; exact Hn|].
    intros Hq'. destruct (Hsub k Hq') as [Hq|Hq]; auto.
Qed.

Lemma touch_iff (Q Q' : nat -> Prop) s s' : (forall k, Q k <-> Q' k) -> touch Q s s' -> touch Q' s s'.
Proof.
  intros Hi (H1 & H2). split; [intros k Hk; apply Hi; auto|].
  intros k Hn. apply H2. intros Hq; apply Hn; apply Hi; exact Hq.
Qed.

Definition touch_specs (f : nat) : Prop :=
  (forall s s', set_timer E f s = Some s' -> touch (fun k => In k (queue s)) s s') /\
  (forall s s', run_jobs E f s = Some s' -> touch (fun k => In k (queue s)) s s') /\
  (forall s s', run_loop E f s = Some s' -> touch (fun k => In k (queue s)) s s') /\
  (forall j s s', add_job E f j s = Some s' -> touch (fun k => k = j \/ In k (queue s)) s s') /\
  (forall j s s', remove_job E f j s = Some s' -> touch (fun k => In k (remove_first j (queue s))) s s') /\
  (forall j t s s', exec_job E f j t s = Some s' -> touch (fun k => k = j \/ In k (queue s)) s s').

Lemma touch_id (Q : nat -> Prop) s s' :
  queue s' = queue s -> jobs s' = jobs s -> (forall k, In k (queue s) -> Q k) -> touch Q s s'.
Proof. intros a b Hq. split; [rewrite a; exact Hq|intros k _; rewrite b; reflexivity]. Qed.

Theorem touch_specs_all : forall f, touch_specs f.
Proof.
  induction f as [|f (IHst & IHrj & IHlp & IHadd & IHrm & IHex)].
  - repeat split; intros; discriminate.
  - split; [|split; [|split; [|split; [|split]]]].
    + (* set_timer *)
      intros s s' H. rewrite set_timer_S in H. cbv zeta in H.
      assert (Hid : forall sx, queue sx = queue s -> jobs sx = jobs s -> touch (fun k => In k (queue s)) s sx).
      { intros sx a b. apply touch_id; auto. }
      destruct (queue (set_timer_f None s)) as [|h q]; [injection H as <-; apply Hid; reflexivity|].
      destruct (negb (enabled (set_timer_f None s))); [injection H as <-; apply Hid; reflexivity|].
      destruct (jnext (jobs (set_timer_f None s) h)) as [t|]; [|injection H as <-; apply Hid; reflexivity].
      destruct (t <=? now (set_timer_f None s)); [|injection H as <-; apply Hid; reflexivity].
      apply IHrj in H. exact H.
    + (* run_jobs *)
      intros s s' H. rewrite run_jobs_S in H. cbv zeta in H.
      destruct (run_loop E f (set_timer_f None s)) as [s1|] eqn:EL; [|discriminate].
      apply IHlp in EL.
      assert (T1 : touch (fun k => In k (queue s)) s s1) by exact EL.
      destruct (broken s1); [injection H as <-; exact T1|].
      destruct (queue s1) as [|h q] eqn:Eq; [injection H as <-; exact T1|].
      apply IHst in H. eapply touch_then; [exact T1| |exact H]. intros k Hk. right. exact Hk.
    + (* run_loop *)
      intros s s' H. rewrite run_loop_S in H.
      destruct (queue s) as [|h q] eqn:Eq.
      { injection H as <-. split; [intros k Hk; rewrite Eq in Hk; exact Hk|reflexivity]. }
      destruct (jnext (jobs s h)) as [t|].
      2:{ injection H as <-. split; [intros k Hk; cbn in Hk; rewrite Eq in Hk; exact Hk|reflexivity]. }
      destruct (now s <? t).
      { injection H as <-. split; [intros k Hk; rewrite Eq in Hk; exact Hk|reflexivity]. }
      cbv zeta in H.
      destruct (exec_job E f h t (set_queue q s)) as [s2|] eqn:EX; [|discriminate].
      apply IHex in EX.
      assert (T2 : touch (fun k => In k (h :: q)) s s2).
      { destruct EX as (a & b). split.
        - intros k Hk. destruct (a k Hk) as [->|Hq]; [left; reflexivity|right; exact Hq].
        - intros k Hn. rewrite b; [reflexivity|]. intros [->|Hq]; apply Hn; [left; reflexivity|right; exact Hq]. }
      destruct (status_eqb (jstatus (jobs s2 h)) Running).
      * destruct (add_job E f h s2) as [s3|] eqn:EA; [|discriminate].
        apply IHadd in EA. apply IHlp in H.
        assert (T3 : touch (fun k => In k (h :: q)) s s3).
        { eapply touch_then; [exact T2| |exact EA]. intros k [->|Hk]; [left; left; reflexivity|right; exact Hk]. }
        eapply touch_then; [exact T3| |exact H]. intros k Hk; right; exact Hk.
      * apply IHlp in H. eapply touch_then; [exact T2| |exact H]. intros k Hk; right; exact Hk.
    + (* add_job *)
      intros j s s' H. rewrite add_job_S in H.
      destruct (status_eqb (jstatus (jobs s j)) Running).
      2:{ injection H as <-. split; [intros k Hk; right; exact Hk|reflexivity]. }
      cbv zeta in H.
      destruct (is_head j (insort s j (queue s))).
      * apply IHst in H. destruct H as (a & b). split.
        -- intros k Hk. apply a in Hk. cbn [queue set_queue] in Hk. apply In_insort in Hk. exact Hk.
        -- intros k Hn. rewrite b; [reflexivity|]. cbn [queue set_queue]. rewrite In_insort. exact Hn.
      * injection H as <-. split; [cbn [queue set_queue]; intros k Hk; apply In_insort in Hk; exact Hk|reflexivity].
    + (* remove_job *)
      intros j s s' H. rewrite remove_job_S in H.
      destruct (queue s) as [|h t] eqn:Eq.
      * apply IHst in H. destruct H as (a & b). split.
        -- intros k Hk. apply a in Hk. rewrite Eq in Hk. exact Hk.
        -- intros k Hn. apply b. rewrite Eq. exact Hn.
      * cbv zeta in H.
        destruct (remove_first j (h :: t)) as [|h' t'] eqn:Er.
        -- apply IHst in H. exact H.
        -- destruct (Nat.eqb h j); [apply IHst in H; exact H|].
           injection H as <-. split; [intros k Hk; exact Hk|reflexivity].
    + (* exec_job *)
      intros j t s s' H. rewrite exec_job_S in H. cbv zeta in H.
      destruct (exec_pre_props E j t s) as ((v1 & v2 & _) & _).
      remember (exec_pre E j t s) as s0 eqn:Es0. clear Es0.
      enough (T0 : touch (fun k => k = j \/ In k (queue s0)) s0 s').
      { destruct T0 as (a & b). split; [intros k Hk; rewrite <- v1; auto|].
        intros k Hn. rewrite <- v2. apply b. rewrite v1. exact Hn. }
      destruct (jkind (jobs s0 j)).
      * destruct (remove_job E f j s0) as [s1|] eqn:ER; [|discriminate]. injection H as <-.
        apply IHrm in ER. destruct ER as (a & b).
        destruct (finish_job_props E j s1) as (q1 & _ & _ & _ & _ & _ & _ & q8).
        split.
        -- intros k Hk. rewrite q1 in Hk. right. eapply remove_first_In. apply a. exact Hk.
        -- intros k Hn. rewrite q8. unfold upd.
           destruct (Nat.eqb_spec k j) as [->|Hne]; [exfalso; apply Hn; left; reflexivity|].
           apply b. intros Hc. apply Hn. right. eapply remove_first_In; exact Hc.
      * injection H as <-. destruct (set_next_run_props E j None s0) as (q1 & _ & _ & _ & _ & _ & _ & _ & q9).
        split; [intros k Hk; rewrite q1 in Hk; right; exact Hk|].
        intros k Hn. rewrite q9. unfold upd.
        destruct (Nat.eqb_spec k j) as [->|Hne]; [exfalso; apply Hn; left; reflexivity|reflexivity].
      * destruct (prod E j _ _) as [v|e|];
          [|injection H as <-; split; [intros k Hk; right; exact Hk|reflexivity]|discriminate].
        destruct (too_old _ v); [injection H as <-; split; [intros k Hk; right; exact Hk|reflexivity]|].
        injection H as <-.
        destruct (set_next_run_props E j (Some v) (add_ev (EProd j) s0)) as (q1 & _ & _ & _ & _ & _ & _ & _ & q9).
        split; [intros k Hk; rewrite q1 in Hk; right; exact Hk|].
        intros k Hn. rewrite q9. unfold upd.
        destruct (Nat.eqb_spec k j) as [->|Hne]; [exfalso; apply Hn; left; reflexivity|reflexivity].
Qed.

End Touch.

(* ------------------------------------------------------------------------------------------- *)
(* JobBuilder._add, first half: the job gets its index, is put into the store and linked *)
Definition alloc (hs : bool) (b : job) (s : st) : st :=
  let j := njobs s in
  let b1 := with_linked (with_stored b hs) true in
  let s1 := set_njobs (S j) (set_job j b1 s) in
  if hs then set_store ((jkey b1, j) :: store s1) s1 else s1.

(* callback events are only ever written by run_cbs *)
Definition plain_ev (e : event) : Prop :=
  match e with ECbUpd _ _ _ _ | ECbFin _ _ => False | _ => True end.

Definition op_target (o : op) : option nat :=
  match o with
  | OCancel j | OPause j | OResume j | OReset j | OSetCountdown j _ | ORegister j _ _ | OUnregister j _ _ => Some j
  | _ => None
  end.

Definition is_cbf_op (o : op) : bool :=
  match o with ORegister _ CbFin _ | OUnregister _ CbFin _ => true | _ => false end.

Section Trace.
Variable E : env.
(* [U]: job indices an operation may address although no such job exists yet (the model lets a history
   address slot j >= njobs; [U := fun _ => False] for histories that only address existing jobs).
   [c]: whether the on_finished callback list may be edited. *)
Variable U : nat -> Prop.
Variable c : bool.
(* [HS]: which values of the builder's has_store flag occur *)
Variable HS : bool -> Prop.

Definition tgt (s : st) (j : nat) : Prop := (j < njobs s)%nat \/ U j.

Inductive atom : st -> st -> Prop :=
  | a_neutral s s' : jobs s' = jobs s -> njobs s' = njobs s -> store s' = store s -> log s' = log s -> atom s s'
  | a_ev e s : plain_ev e -> atom s (add_ev e s)
  | a_snr j nx s : tgt s j -> jstatus (jobs s j) <> Finished -> atom s (set_next_run E j nx s)
  | a_fin j s : tgt s j -> jstatus (jobs s j) <> Finished -> atom s (finish_job E j s)
  | a_secs j v s : tgt s j -> atom s (set_job j (with_secs (jobs s j) v) s)
  | a_regu j cb s : tgt s j -> memb cb (jcbu (jobs s j)) = false ->
      atom s (set_job j (with_cbu (jobs s j) (jcbu (jobs s j) ++ [cb])) s)
  | a_unregu j cb s : tgt s j ->
      atom s (set_job j (with_cbu (jobs s j) (filter (fun x => negb (Nat.eqb x cb)) (jcbu (jobs s j)))) s)
  | a_regf j cb s : c = true -> tgt s j -> memb cb (jcbf (jobs s j)) = false ->
      atom s (set_job j (with_cbf (jobs s j) (jcbf (jobs s j) ++ [cb])) s)
  | a_unregf j cb s : c = true -> tgt s j ->
      atom s (set_job j (with_cbf (jobs s j) (filter (fun x => negb (Nat.eqb x cb)) (jcbf (jobs s j)))) s)
  | a_alloc hs b s : HS hs -> jstatus b = Created -> jnext b = None -> jcbu b = [] -> jcbf b = [] ->
      hs && store_has (jkey b) (store s) = false -> atom s (alloc hs b s).

Inductive steps : st -> st -> Prop :=
  | steps_refl s : steps s s
  | steps_cons a b d : atom a b -> steps b d -> steps a d.

Lemma steps_one a b : atom a b -> steps a b.
Proof. intros H. eapply steps_cons; [exact H|apply steps_refl]. Qed.

Lemma steps_trans a b d : steps a b -> steps b d -> steps a d.
Proof. induction 1 as [|a b b' Hab Hbb' IH]; intros H; [exact H|]. eapply steps_cons; [exact Hab|apply IH; exact H]. Qed.

Lemma steps_neutral s s' :
  jobs s' = jobs s -> njobs s' = njobs s -> store s' = store s -> log s' = log s -> steps s s'.
Proof. intros. apply steps_one. apply a_neutral; assumption. Qed.

Lemma steps_ev e s : plain_ev e -> steps s (add_ev e s).
Proof. intros H. apply steps_one. apply a_ev. exact H. Qed.

Theorem steps_preserves (P : st -> Prop) :
  (forall a b, atom a b -> P a -> P b) -> forall s s', steps s s' -> P s -> P s'.
Proof. intros Hat s s' H. induction H as [|a b d Hab _ IH]; [auto|]. intros Ha. apply IH. eapply Hat; eassumption. Qed.

(* ------------------------------------------------------------------------------------------- *)
Definition tr_set_timer (f : nat) : Prop := forall X s s',
  WFq X s -> set_timer E f s = Some s' -> steps s s'.
Definition tr_run_jobs (f : nat) : Prop := forall X s s',
  WFq X s -> enabled s = true -> run_jobs E f s = Some s' -> steps s s'.
Definition tr_run_loop (f : nat) : Prop := forall X s s',
  WFq X s -> enabled s = true -> Tl s -> run_loop E f s = Some s' -> steps s s'.
Definition tr_add_job (f : nat) : Prop := forall X j s s',
  WFq (j :: X) s -> ~ In j (queue s) -> ~ In j X -> add_job E f j s = Some s' -> steps s s'.
Definition tr_remove_job (f : nat) : Prop := forall X j s s',
  WFq (j :: X) (set_queue (remove_first j (queue s)) s) -> remove_job E f j s = Some s' -> steps s s'.
Definition tr_exec_job (f : nat) : Prop := forall X j t s s',
  WFq (j :: X) s -> ~ In j (queue s) -> jstatus (jobs s j) = Running -> enabled s = true -> Tl s ->
  exec_job E f j t s = Some s' -> steps s s'.

Definition tr_specs (f : nat) : Prop :=
  tr_set_timer f /\ tr_run_jobs f /\ tr_run_loop f /\ tr_add_job f /\ tr_remove_job f /\ tr_exec_job f.

Lemma tr_set_timer_step f : tr_specs f -> tr_set_timer (S f).
Proof.
  intros (_ & IHrj & _) X s s' W H. rewrite set_timer_S in H. cbv zeta in H.
  remember (set_timer_f None s) as s0 eqn:Es0.
  assert (W0 : WFq X s0) by (subst s0; eapply WFq_view; [apply view_timer|exact W]).
  assert (S0 : steps s s0) by (subst s0; apply steps_neutral; reflexivity).
  destruct (queue s0) as [|h q] eqn:Eq; [injection H as <-; exact S0|].
  destruct (enabled s0) eqn:En; cbn [negb] in H; [|injection H as <-; exact S0].
  destruct (jnext (jobs s0 h)) as [t|].
  2:{ injection H as <-. eapply steps_trans; [exact S0|apply steps_neutral; reflexivity]. }
  destruct (t <=? now s0).
  - eapply steps_trans; [exact S0|]. eapply IHrj; eassumption.
  - injection H as <-. eapply steps_trans; [exact S0|apply steps_neutral; reflexivity].
Qed.

Lemma tr_run_jobs_step f : tr_specs f -> tr_run_jobs (S f).
Proof.
  intros (IHst & _ & IHlp & _) X s s' W En H. rewrite run_jobs_S in H. cbv zeta in H.
  remember (set_timer_f None s) as s0 eqn:Es0.
  assert (W0 : WFq X s0) by (subst s0; eapply WFq_view; [apply view_timer|exact W]).
  assert (S0 : steps s s0) by (subst s0; apply steps_neutral; reflexivity).
  assert (T0 : timer s0 = None) by (subst s0; reflexivity).
  assert (En0 : enabled s0 = true) by (subst s0; exact En).
  destruct (run_loop E f s0) as [s1|] eqn:EL; [|discriminate].
  pose proof (IHlp X s0 s1 W0 En0 (or_introl T0) EL) as S1.
  destruct (core_specs_all E f) as (_ & _ & Hlp & _).
  destruct (Hlp X s0 s1 W0 En0 (or_introl T0) EL) as (W1 & _ & _).
  rewrite (wf_nb _ _ W1) in H.
  destruct (queue s1).
  - injection H as <-. eapply steps_trans; eassumption.
  - eapply steps_trans; [exact S0|]. eapply steps_trans; [exact S1|]. eapply IHst; eassumption.
Qed.

Lemma tr_run_loop_step f : tr_specs f -> tr_run_loop (S f).
Proof.
  intros (_ & _ & IHlp & IHadd & _ & IHex) X s s' W En HTl H. rewrite run_loop_S in H.
  destruct (queue s) as [|h q] eqn:Eq; [injection H as <-; apply steps_refl|].
  destruct (wf_head_next _ _ _ _ W Eq) as (t & Ht). rewrite Ht in H.
  destruct (now s <? t) eqn:Elt; [injection H as <-; apply steps_refl|]. cbv zeta in H.
  apply Z.ltb_ge in Elt.
  destruct (WFq_pop _ _ _ _ W Eq) as (W1 & Hnq & HnX).
  remember (set_queue q s) as s1 eqn:Es1.
  assert (Hin : In h (queue s)) by (rewrite Eq; left; reflexivity).
  assert (Hr : jstatus (jobs s1 h) = Running) by (subst s1; apply (wf_q _ _ W); exact Hin).
  assert (Tl1 : Tl s1).
  { left. subst s1. cbn [timer set_queue]. destruct HTl as [T|[_ Hh]]; [exact T|].
    unfold HeadNotDue in Hh. rewrite Eq in Hh. destruct Hh as (t' & Ht' & Hlt).
    unfold nxt in Ht'. rewrite Ht in Ht'. injection Ht' as <-. lia. }
  assert (En1 : enabled s1 = true) by (subst s1; exact En).
  assert (Hq1 : ~ In h (queue s1)) by (subst s1; exact Hnq).
  assert (S1 : steps s s1) by (subst s1; apply steps_neutral; reflexivity).
  destruct (exec_job E f h t s1) as [s2|] eqn:EX; [|discriminate].
  pose proof (IHex X h t s1 s2 W1 Hq1 Hr En1 Tl1 EX) as S2.
  destruct (core_specs_all E f) as (_ & _ & Hlp & Hadd & _ & Hex).
  destruct (Hex X h t s1 s2 W1 Hq1 Hr En1 Tl1 EX) as (W2 & Tl2 & F2).
  assert (En2 : enabled s2 = true) by (destruct F2 as (_ & e & _); congruence).
  pose proof (notin_q_of_X _ _ _ W2) as Hq2.
  eapply steps_trans; [exact S1|]. eapply steps_trans; [exact S2|].
  destruct (status_eqb (jstatus (jobs s2 h)) Running) eqn:Est.
  - destruct (add_job E f h s2) as [s3|] eqn:EA; [|discriminate].
    pose proof (IHadd X h s2 s3 W2 Hq2 HnX EA) as S3.
    destruct (Hadd X h s2 s3 W2 Hq2 HnX EA) as (W3 & F3 & _ & Tl3).
    assert (En3 : enabled s3 = true) by (destruct F3 as (_ & e & _); congruence).
    eapply steps_trans; [exact S3|].
    eapply IHlp; [exact W3|exact En3|exact (Tl3 En2 Tl2)|exact H].
  - assert (W3 : WFq X s2).
    { eapply WFq_drop; [exact W2|]. intros Hc. apply status_eqb_eq in Hc. congruence. }
    eapply IHlp; [exact W3|exact En2|exact Tl2|exact H].
Qed.

Lemma tr_add_job_step f : tr_specs f -> tr_add_job (S f).
Proof.
  intros (IHst & _) X j s s' W Hnq HnX H. rewrite add_job_S in H.
  destruct (status_eqb (jstatus (jobs s j)) Running) eqn:Est; [|injection H as <-; apply steps_refl].
  apply status_eqb_eq in Est. cbv zeta in H.
  pose proof (WFq_insort _ _ _ W Hnq Est HnX) as W1.
  remember (set_queue (insort s j (queue s)) s) as s1 eqn:Es1.
  assert (S1 : steps s s1) by (subst s1; apply steps_neutral; reflexivity).
  destruct (is_head j (insort s j (queue s))).
  - eapply steps_trans; [exact S1|]. eapply IHst; eassumption.
  - injection H as <-. exact S1.
Qed.

Lemma tr_remove_job_step f : tr_specs f -> tr_remove_job (S f).
Proof.
  intros (IHst & _) X j s s' W1 H. rewrite remove_job_S in H.
  destruct (queue s) as [|h t] eqn:Eq.
  - assert (W : WFq (j :: X) s).
    { eapply WFq_view; [|exact W1]. apply fields_view; try reflexivity. cbn [queue set_queue remove_first]. exact Eq. }
    eapply IHst; eassumption.
  - cbv zeta in H.
    assert (S1 : steps s (set_queue (remove_first j (h :: t)) s)) by (apply steps_neutral; reflexivity).
    destruct (remove_first j (h :: t)) as [|h' t'] eqn:Er.
    + eapply steps_trans; [exact S1|]. eapply IHst; eassumption.
    + destruct (Nat.eqb h j).
      * eapply steps_trans; [exact S1|]. eapply IHst; eassumption.
      * injection H as <-. exact S1.
Qed.

Lemma tr_exec_job_step f : tr_specs f -> tr_exec_job (S f).
Proof.
  intros (_ & _ & _ & _ & IHrm & _) X j t s s' W Hnq Hrun En HTl H.
  rewrite exec_job_S in H. cbv zeta in H.
  assert (S0 : steps s (exec_pre E j t s)).
  { unfold exec_pre. cbv zeta. destruct (fail_exec E j _).
    - eapply steps_trans; [|apply steps_ev; exact I]. apply steps_ev; exact I.
    - apply steps_ev; exact I. }
  destruct (exec_pre_props E j t s) as ((q1 & q2 & q3 & q4) & p1 & p2 & p3 & p4 & p5).
  remember (exec_pre E j t s) as s0 eqn:Es0.
  assert (W0 : WFq (j :: X) s0) by (eapply WFq_view; [|exact W]; apply fields_view; assumption).
  assert (Hnq0 : ~ In j (queue s0)) by (rewrite q1; exact Hnq).
  assert (Hrun0 : jstatus (jobs s0 j) = Running) by (rewrite q2; exact Hrun).
  assert (Hlt0 : (j < njobs s0)%nat) by (apply (wf_rn _ _ W0); apply (wf_lk _ _ W0); exact Hrun0).
  clear Es0.
  eapply steps_trans; [exact S0|].
  destruct (jkind (jobs s0 j)).
  - destruct (remove_job E f j s0) as [s1|] eqn:ER; [|discriminate]. injection H as <-.
    assert (Wr : WFq (j :: X) (set_queue (remove_first j (queue s0)) s0)).
    { rewrite remove_first_notin by exact Hnq0. eapply WFq_view; [|exact W0]. apply fields_view; reflexivity. }
    pose proof (IHrm X j s0 s1 Wr ER) as S1.
    destruct (core_specs_all E f) as (_ & _ & _ & _ & Hrm & _).
    destruct (Hrm X j s0 s1 Wr ER) as (_ & (_ & _ & n1 & _) & _).
    destruct (touch_specs_all E f) as (_ & _ & _ & _ & Crm & _).
    destruct (Crm j s0 s1 ER) as (_ & Cj).
    assert (Hj : jobs s1 j = jobs s0 j).
    { apply Cj. intros Hc. apply Hnq0. eapply remove_first_In; exact Hc. }
    eapply steps_trans; [exact S1|]. apply steps_one. apply a_fin.
    + left. rewrite n1. exact Hlt0.
    + rewrite Hj, Hrun0. discriminate.
  - injection H as <-. apply steps_one. apply a_snr; [left; exact Hlt0|rewrite Hrun0; discriminate].
  - assert (S1 : steps s0 (add_ev (EProd j) s0)) by (apply steps_one; apply a_ev; exact Logic.I).
    eapply steps_trans; [exact S1|].
    destruct (prod E j _ _) as [v|e|]; [|injection H as <-; apply steps_one; apply a_ev; exact I|discriminate].
    destruct (too_old _ v); injection H as <-; [apply steps_one; apply a_ev; exact I|].
    apply steps_one. apply a_snr; [left; exact Hlt0|cbn [jobs add_ev set_log]; rewrite Hrun0; discriminate].
Qed.

Theorem tr_specs_all : forall f, tr_specs f.
Proof.
  induction f as [|f IH].
  - repeat split; intros; discriminate.
  - split; [apply tr_set_timer_step; exact IH|].
    split; [apply tr_run_jobs_step; exact IH|].
    split; [apply tr_run_loop_step; exact IH|].
    split; [apply tr_add_job_step; exact IH|].
    split; [apply tr_remove_job_step; exact IH|apply tr_exec_job_step; exact IH].
Qed.

(* ------------------------------------------------------------------------------------------- *)
(* the API operations *)
Lemma not_finished_of s j : is_finished s j = false -> jstatus (jobs s j) <> Finished.
Proof. unfold is_finished. intros H Hc. rewrite Hc in H. discriminate. Qed.

Lemma job_finish_trace fuel j s s' :
  Inv s -> tgt s j -> jstatus (jobs s j) <> Finished -> job_finish E fuel j s = Some s' -> steps s s'.
Proof.
  intros (W & T) Ht Hnf H. rewrite job_finish_eq in H.
  destruct (remove_job E fuel j s) as [s1|] eqn:ER; [|discriminate]. injection H as <-.
  destruct (core_specs_all E fuel) as (_ & _ & _ & _ & Hrm & _).
  destruct (tr_specs_all fuel) as (_ & _ & _ & _ & Trm & _).
  destruct (touch_specs_all E fuel) as (_ & _ & _ & _ & Crm & _).
  assert (Wr : WFq [j] (set_queue (remove_first j (queue s)) s)) by (apply WFq_remove; [exact W|intros []]).
  destruct (Hrm [] j s s1 Wr ER) as (_ & (_ & _ & n1 & _) & _).
  pose proof (Trm [] j s s1 Wr ER) as S1.
  destruct (Crm j s s1 ER) as (_ & Cj).
  assert (Hj : jobs s1 j = jobs s j).
  { apply Cj. apply remove_first_NoDup_notin. apply (wf_nodup _ _ W). }
  eapply steps_trans; [exact S1|]. apply steps_one. apply a_fin.
  - destruct Ht as [Hlt|Hu]; [left; rewrite n1; exact Hlt|right; exact Hu].
  - rewrite Hj. exact Hnf.
Qed.

Lemma pause_trace fuel j s s1 :
  Inv s -> tgt s j -> jstatus (jobs s j) <> Finished -> remove_job E fuel j s = Some s1 ->
  steps s (set_next_run E j None s1).
Proof.
  intros (W & T) Ht Hnf ER.
  destruct (core_specs_all E fuel) as (_ & _ & _ & _ & Hrm & _).
  destruct (tr_specs_all fuel) as (_ & _ & _ & _ & Trm & _).
  destruct (touch_specs_all E fuel) as (_ & _ & _ & _ & Crm & _).
  assert (Wr : WFq [j] (set_queue (remove_first j (queue s)) s)) by (apply WFq_remove; [exact W|intros []]).
  destruct (Hrm [] j s s1 Wr ER) as (_ & (_ & _ & n1 & _) & _).
  pose proof (Trm [] j s s1 Wr ER) as S1.
  destruct (Crm j s s1 ER) as (_ & Cj).
  assert (Hj : jobs s1 j = jobs s j).
  { apply Cj. apply remove_first_NoDup_notin. apply (wf_nodup _ _ W). }
  eapply steps_trans; [exact S1|]. apply steps_one. apply a_snr.
  - destruct Ht as [Hlt|Hu]; [left; rewrite n1; exact Hlt|right; exact Hu].
  - rewrite Hj. exact Hnf.
Qed.

Lemma linked_ok s j : WFq [] s -> jlinked (jobs s j) = true -> tgt s j /\ jstatus (jobs s j) <> Finished.
Proof.
  intros W Hlk. split; [left; apply (wf_rn _ _ W); exact Hlk|].
  intros Hf. apply (wf_fin _ _ W) in Hf. congruence.
Qed.

Lemma retime_trace fuel j v s s' :
  Inv s -> jlinked (jobs s j) = true ->
  update_job E fuel j (set_next_run E j (Some v) s) = Some s' -> steps s s'.
Proof.
  intros (W & T) Hlk H. unfold update_job in H.
  destruct (set_next_run_props E j (Some v) s) as (q1 & q2 & q3 & q4 & q5 & q6 & q7 & q8 & q9).
  assert (S2 : steps s (set_next_run E j (Some v) s)).
  { apply steps_one. destruct (linked_ok s j W Hlk). apply a_snr; assumption. }
  remember (set_next_run E j (Some v) s) as s2 eqn:Es2.
  destruct (remove_job E fuel j s2) as [s3|] eqn:ER; [|discriminate].
  destruct (core_specs_all E fuel) as (_ & _ & _ & Hadd & Hrm & _).
  destruct (tr_specs_all fuel) as (_ & _ & _ & Tadd & Trm & _).
  set (b := with_status_next (jobs s j) Running (Some v)) in *.
  assert (Wr0 : WFq [j] (set_queue (remove_first j (queue s)) s)) by (apply WFq_remove; [exact W|intros []]).
  assert (Hnq0 : ~ In j (remove_first j (queue s))) by (apply remove_first_NoDup_notin; apply (wf_nodup _ _ W)).
  assert (Wb : WFq [j] (set_job j b (set_queue (remove_first j (queue s)) s))).
  { apply WFq_set_job_out; [exact Wr0|exact Hnq0| |intros _; cbn; apply (wf_rn _ _ W); exact Hlk].
    subst b. split; [|split]; cbn; [split; congruence|intros _; exact Hlk|congruence]. }
  assert (Wr : WFq [j] (set_queue (remove_first j (queue s2)) s2)).
  { eapply WFq_view; [|exact Wb]. apply fields_view; cbn [queue jobs njobs broken set_job set_jobs set_queue]; congruence. }
  destruct (Hrm [] j s2 s3 Wr ER) as (W3 & _).
  pose proof (Trm [] j s2 s3 Wr ER) as S3.
  pose proof (notin_q_of_X _ _ _ W3) as Hnq3.
  pose proof (Tadd [] j s3 s' W3 Hnq3 (fun x => x) H) as S4.
  eapply steps_trans; [exact S2|]. eapply steps_trans; eassumption.
Qed.

Lemma arm_trace fuel j nx s s' :
  Inv s -> ~ In j (queue s) -> jlinked (jobs s j) = true ->
  add_job E fuel j (set_next_run E j nx s) = Some s' -> steps s s'.
Proof.
  intros (W & T) Hnq Hlk H.
  destruct (set_next_run_props E j nx s) as (q1 & q2 & q3 & q4 & q5 & q6 & q7 & q8 & q9).
  assert (S2 : steps s (set_next_run E j nx s)).
  { apply steps_one. destruct (linked_ok s j W Hlk). apply a_snr; assumption. }
  remember (set_next_run E j nx s) as s2 eqn:Es2.
  destruct (tr_specs_all fuel) as (_ & _ & _ & Tadd & _).
  set (b := with_status_next (jobs s j) (match nx with None => Paused | Some _ => Running end) nx) in *.
  assert (Wb : WFq [j] (set_job j b s)).
  { apply WFq_set_job_out; [apply WFq_weaken; assumption|exact Hnq| |intros _; cbn; apply (wf_rn _ _ W); exact Hlk].
    subst b. destruct nx; (split; [|split]); cbn; try (split; congruence); try congruence; intros _; exact Hlk. }
  assert (W2 : WFq [j] s2).
  { eapply WFq_view; [|exact Wb]. apply fields_view; cbn [queue jobs njobs broken set_job set_jobs]; congruence. }
  assert (Hnq2 : ~ In j (queue s2)) by (rewrite q1; exact Hnq).
  pose proof (Tadd [] j s2 s' W2 Hnq2 (fun x => x) H) as S4.
  eapply steps_trans; eassumption.
Qed.

(* create, unfolded into its three phases *)
Definition create_first (j : nat) (b : job) (s1 : st) : st * outcome :=
  match jkind b with
  | KOnce => if too_old s1 (jexec_t b) then (s1, Raised EPast) else (set_next_run E j (Some (jexec_t b)) s1, Done)
  | KCountdown => (set_next_run E j None s1, Done)
  | KAt =>
      let kp := count_prod j (log s1) in
      let s2 := add_ev (EProd j) s1 in
      match prod E j kp (now s2) with
      | Ok v => if too_old s2 v then (s2, Raised EPast) else (set_next_run E j (Some v) s2, Done)
      | Raise e => (s2, Raised e)
      | OutOfFuel => (s2, NoFuel)
      end
  end.

Definition create_rest (fuel j : nat) (first : st * outcome) : st * outcome :=
  match first with
  | (s, Done) => lift (add_job E fuel j s) s
  | (s, Raised e) =>
      match job_finish E fuel j s with
      | Some s => (s, Raised e)
      | None => (s, NoFuel)
      end
  | (s, NoFuel) => (s, NoFuel)
  end.

Lemma create_eq fuel hs b s : create E fuel hs b s =
  if hs && store_has (jkey b) (store s) then (s, Raised EKeyError)
  else create_rest fuel (njobs s) (create_first (njobs s) b (alloc hs b s)).
Proof. reflexivity. Qed.

Lemma alloc_fields hs b s :
  queue (alloc hs b s) = queue s /\
  jobs (alloc hs b s) = upd (jobs s) (njobs s) (with_linked (with_stored b hs) true) /\
  njobs (alloc hs b s) = S (njobs s) /\ broken (alloc hs b s) = broken s /\
  enabled (alloc hs b s) = enabled s /\ timer (alloc hs b s) = timer s /\ log (alloc hs b s) = log s /\
  store (alloc hs b s) = (if hs then (jkey b, njobs s) :: store s else store s) /\
  now (alloc hs b s) = now s /\ opi (alloc hs b s) = opi s.
Proof. unfold alloc. destruct hs; repeat split. Qed.

Lemma alloc_inv hs b s : Inv s -> jstatus b = Created -> jnext b = None -> Inv (alloc hs b s).
Proof.
  intros (W & T) Hbs Hbn.
  destruct (alloc_fields hs b s) as (v1 & v2 & v3 & v4 & v5 & v6 & _).
  set (j := njobs s) in *. set (b1 := with_linked (with_stored b hs) true) in *.
  assert (Hj : ~ In j (queue s)) by (apply fresh_not_queued; exact W).
  assert (Wj : WFq [j] (set_job j b1 (set_njobs (S j) s))).
  { apply WFq_set_job_out.
    - apply WFq_weaken; [apply WFq_njobs_S; exact W|exact Hj].
    - exact Hj.
    - subst b1. split; [|split]; cbn; rewrite ?Hbs, ?Hbn; [split; congruence|congruence|congruence].
    - intros _. cbn. lia. }
  split.
  - eapply WFq_drop with (j := j).
    + eapply WFq_view; [|exact Wj]. apply fields_view; cbn [queue jobs njobs broken set_job set_jobs set_njobs]; assumption.
    + rewrite v2. unfold upd. rewrite Nat.eqb_refl. subst b1; cbn. congruence.
  - eapply TimerOK_fields; [..|apply (TimerOK_set_job_out s j b1 Hj T)];
      cbn [queue jobs enabled timer set_job set_jobs]; assumption.
Qed.

Lemma create_trace fuel hs b s s' r :
  HS hs -> Inv s -> jstatus b = Created -> jnext b = None -> jcbu b = [] -> jcbf b = [] ->
  create E fuel hs b s = (s', r) -> r <> NoFuel -> steps s s'.
Proof.
  intros Hhs I Hbs Hbn Hbu Hbf H Hr. rewrite create_eq in H.
  destruct (hs && store_has (jkey b) (store s)) eqn:Edup; [injection H as <- <-; apply steps_refl|].
  assert (S1 : steps s (alloc hs b s)) by (apply steps_one; apply a_alloc; assumption).
  pose proof (alloc_inv hs b s I Hbs Hbn) as I1.
  destruct (alloc_fields hs b s) as (v1 & v2 & v3 & _).
  set (j := njobs s) in *.
  assert (Hj1 : ~ In j (queue (alloc hs b s))) by (rewrite v1; apply fresh_not_queued; apply I).
  assert (Hb1 : jobs (alloc hs b s) j = with_linked (with_stored b hs) true).
  { rewrite v2. unfold upd. rewrite Nat.eqb_refl. reflexivity. }
  assert (Hlk1 : jlinked (jobs (alloc hs b s) j) = true) by (rewrite Hb1; reflexivity).
  assert (Hst1 : jstatus (jobs (alloc hs b s) j) <> Finished) by (rewrite Hb1; cbn; congruence).
  remember (alloc hs b s) as s1 eqn:Es1. clear Es1 Hb1 v1 v2.
  eapply steps_trans; [exact S1|]. clear S1.
  assert (Hfin : forall sx e, Inv sx -> njobs sx = S j -> jstatus (jobs sx j) <> Finished ->
            (match job_finish E fuel j sx with Some sy => (sy, Raised e) | None => (sx, NoFuel) end) = (s', r) ->
            steps sx s').
  { intros sx e Ix Hn Hs Hx. destruct (job_finish E fuel j sx) as [sy|] eqn:EF.
    - injection Hx as <- <-. eapply job_finish_trace; [exact Ix|left; rewrite Hn; apply Nat.lt_succ_diag_r|exact Hs|exact EF].
    - injection Hx as <- <-. congruence. }
  assert (Harm : forall sx nx, Inv sx -> ~ In j (queue sx) -> jlinked (jobs sx j) = true ->
            lift (add_job E fuel j (set_next_run E j nx sx)) (set_next_run E j nx sx) = (s', r) -> steps sx s').
  { intros sx nx Ix Hq Hl Hx. unfold lift in Hx. destruct (add_job E fuel j _) as [sy|] eqn:EA.
    - injection Hx as <- <-. eapply arm_trace; eassumption.
    - injection Hx as <- <-. congruence. }
  unfold create_first in H. destruct (jkind b).
  - destruct (too_old s1 (jexec_t b)); cbv beta iota delta [create_rest] in H.
    + eapply Hfin; [exact I1|exact v3|exact Hst1|exact H].
    + eapply Harm; [exact I1|exact Hj1|exact Hlk1|exact H].
  - cbv beta iota delta [create_rest] in H. eapply Harm; [exact I1|exact Hj1|exact Hlk1|exact H].
  - cbv zeta in H.
    assert (S2 : steps s1 (add_ev (EProd j) s1)) by (apply steps_one; apply a_ev; exact Logic.I).
    assert (I2 : Inv (add_ev (EProd j) s1)) by (apply Inv_add_ev; exact I1).
    eapply steps_trans; [exact S2|].
    destruct (prod E j _ _) as [v|e|].
    + destruct (too_old _ v); cbv beta iota delta [create_rest] in H.
      * eapply Hfin; [exact I2|exact v3|exact Hst1|exact H].
      * eapply Harm; [exact I2|exact Hj1|exact Hlk1|exact H].
    + cbv beta iota delta [create_rest] in H. eapply Hfin; [exact I2|exact v3|exact Hst1|exact H].
    + cbv beta iota delta [create_rest] in H. injection H as <- <-. congruence.
Qed.

Definition op_ok (s : st) (o : op) : Prop :=
  match op_target o with Some j => tgt s j | None => True end.

Theorem step_op_trace fuel hs s o s' r :
  HS hs -> Inv s -> op_ok s o -> (is_cbf_op o = true -> c = true) ->
  step_op E fuel hs s o = (s', r) -> r <> NoFuel -> steps s s'.
Proof.
  intros Hhs I Hok Hc H Hr. destruct o; cbn [step_op] in H; unfold op_ok in Hok; cbn [op_target] in Hok.
  - eapply create_trace; [exact Hhs|exact I| | | | |exact H|exact Hr]; reflexivity.
  - destruct (secs <=? 0); [injection H as <- <-; apply steps_refl|].
    eapply create_trace; [exact Hhs|exact I| | | | |exact H|exact Hr]; reflexivity.
  - eapply create_trace; [exact Hhs|exact I| | | | |exact H|exact Hr]; reflexivity.
  - (* cancel *)
    destruct (is_finished s j) eqn:Ef; [injection H as <- <-; apply steps_refl|].
    unfold lift in H. destruct (job_finish E fuel j s) as [s1|] eqn:EF; injection H as <- <-; [|congruence].
    eapply job_finish_trace; [exact I|exact Hok|apply not_finished_of; exact Ef|exact EF].
  - (* pause *)
    destruct (is_finished s j) eqn:Ef; [injection H as <- <-; apply steps_refl|].
    destruct (remove_job E fuel j s) as [s1|] eqn:ER; injection H as <- <-; [|congruence].
    eapply pause_trace; [exact I|exact Hok|apply not_finished_of; exact Ef|exact ER].
  - (* resume *)
    destruct (is_finished s j); [injection H as <- <-; apply steps_refl|].
    destruct (jlinked (jobs s j)) eqn:Hlk; cbn [negb] in H; [|injection H as <- <-; apply steps_refl].
    cbv zeta in H.
    assert (S1 : steps s (add_ev (EProd j) s)) by (apply steps_one; apply a_ev; exact Logic.I).
    assert (I1 : Inv (add_ev (EProd j) s)) by (apply Inv_add_ev; exact I).
    destruct (prod E j _ _) as [v|e|]; [|injection H as <- <-; exact S1|injection H as <- <-; congruence].
    destruct (too_old _ v); [injection H as <- <-; exact S1|].
    unfold lift in H. destruct (update_job E fuel j _) as [s2|] eqn:EU; injection H as <- <-; [|congruence].
    eapply steps_trans; [exact S1|]. eapply retime_trace; [exact I1| |exact EU]. exact Hlk.
  - (* reset *)
    destruct (jlinked (jobs s j)) eqn:Hlk; cbn [negb] in H; [|injection H as <- <-; apply steps_refl].
    cbv zeta in H. unfold lift in H.
    destruct (update_job E fuel j _) as [s2|] eqn:EU; injection H as <- <-; [|congruence].
    eapply retime_trace; [exact I|exact Hlk|exact EU].
  - (* set_countdown *)
    destruct (is_finished s j); [injection H as <- <-; apply steps_refl|].
    destruct (secs <=? 0); injection H as <- <-; [apply steps_refl|].
    apply steps_one. apply a_secs. exact Hok.
  - (* enable *)
    destruct (Bool.eqb b (enabled s)); [injection H as <- <-; apply steps_refl|].
    cbv zeta in H. unfold lift in H.
    destruct (set_timer E fuel (set_enabled_f b s)) as [s2|] eqn:ES; injection H as <- <-; [|congruence].
    destruct I as (W & T).
    destruct (tr_specs_all fuel) as (Tst & _).
    assert (W1 : WFq [] (set_enabled_f b s)) by (eapply WFq_view; [|exact W]; apply fields_view; reflexivity).
    eapply steps_trans; [apply (steps_neutral s (set_enabled_f b s)); reflexivity|].
    eapply Tst; eassumption.
  - (* register *)
    destruct w.
    + destruct (memb cb (jcbu (jobs s j))) eqn:Em; injection H as <- <-; [apply steps_refl|].
      apply steps_one. apply a_regu; assumption.
    + destruct (memb cb (jcbf (jobs s j))) eqn:Em; injection H as <- <-; [apply steps_refl|].
      apply steps_one. apply a_regf; [apply Hc; reflexivity|assumption|assumption].
  - (* unregister *)
    destruct w; injection H as <- <-; apply steps_one.
    + apply a_unregu; assumption.
    + apply a_unregf; [apply Hc; reflexivity|assumption].
  - (* advance *)
    injection H as <- <-. apply steps_neutral; reflexivity.
  - (* wake *)
    destruct (timer s) as [w|] eqn:Ew; [|injection H as <- <-; apply steps_refl].
    destruct (w <=? now s); [|injection H as <- <-; apply steps_refl].
    unfold lift in H. destruct (run_jobs E fuel s) as [s2|] eqn:ER; injection H as <- <-; [|congruence].
    destruct (tr_specs_all fuel) as (_ & Trj & _).
    eapply Trj; [exact (proj1 I)|exact (Inv_enabled_of_timer _ _ I Ew)|exact ER].
  - (* early wake *)
    destruct (timer s) as [w|] eqn:Ew; [|injection H as <- <-; apply steps_refl].
    unfold lift in H. destruct (run_jobs E fuel s) as [s2|] eqn:ER; injection H as <- <-; [|congruence].
    destruct (tr_specs_all fuel) as (_ & Trj & _).
    eapply Trj; [exact (proj1 I)|exact (Inv_enabled_of_timer _ _ I Ew)|exact ER].
Qed.

Theorem step_trace fuel hs s o s' r :
  HS hs -> Inv s -> op_ok s o -> (is_cbf_op o = true -> c = true) ->
  step E fuel hs s o = (s', r) -> r <> NoFuel -> steps s s'.
Proof.
  intros Hhs I Hok Hc H Hr. unfold step in H. destruct (step_op E fuel hs s o) as (s1, r1) eqn:ES.
  injection H as <- <-. eapply steps_trans; [eapply step_op_trace; eassumption|].
  apply steps_neutral; reflexivity.
Qed.

(* histories: every operation addresses a job the history may address *)
Fixpoint ops_ok (fuel : nat) (hs : bool) (s : st) (ops : list op) : Prop :=
  match ops with
  | [] => True
  | o :: t => op_ok s o /\ (is_cbf_op o = true -> c = true) /\ ops_ok fuel hs (fst (step E fuel hs s o)) t
  end.

Theorem run_preserves (P : st -> Prop) :
  (forall a b, atom a b -> P a -> P b) ->
  forall fuel hs ops s s' rs,
    HS hs -> Inv s -> P s -> ops_ok fuel hs s ops -> run E fuel hs s ops = (s', rs) -> ~ In NoFuel rs -> P s'.
Proof.
  intros Hat fuel hs ops. induction ops as [|o t IH]; intros s s' rs Hhs I Hp Hok H Hr; cbn [run] in H.
  - injection H as <- <-. exact Hp.
  - destruct (step E fuel hs s o) as (s1, r) eqn:ES. destruct (run E fuel hs s1 t) as (s2, rs') eqn:ER.
    injection H as <- <-. cbn [ops_ok] in Hok. destruct Hok as (Ho & Hc & Ht). rewrite ES in Ht. cbn [fst] in Ht.
    assert (Hr1 : r <> NoFuel) by (intros ->; apply Hr; left; reflexivity).
    eapply IH; [exact Hhs| |  |exact Ht|exact ER|intros Hx; apply Hr; right; exact Hx].
    + eapply step_inv; eassumption.
    + eapply steps_preserves; [exact Hat| |exact Hp]. eapply step_trace; eassumption.
Qed.

End Trace.

(* with U = everything and c = true every history is admissible *)
Lemma ops_ok_any E fuel hs ops : forall s, ops_ok E (fun _ => True) true fuel hs s ops.
Proof.
  induction ops as [|o t IH]; intros s; cbn [ops_ok]; [exact I|].
  split; [|split; [reflexivity|apply IH]].
  unfold op_ok, tgt. destruct (op_target o); [right; exact I|exact I].
Qed.
