(* SunCases.v — Coq side of the sun-trigger correspondence (C18): a case is a system time-zone table, the
   producers of the case (cache-key id + filter), astral's answers as recorded during the implementation
   run ((location, key, UTC day) -> instant | ValueError), and the sequence of steps with what the
   implementation did: set_location / OBSERVER = None, get_next queries with their answers, snapshots
   of the SUN_CACHE key order.  The model runs [get_next (PSun key f)] on the same sequence threading
   its [pstate], so the cache (move_to_end, eviction) is compared through the answers and, at the
   snapshots, key by key.  No proofs here. *)
From EAS Require Import Base Civil Time Filters Replace Producers.

Inductive sstep :=
  | SLoc (l : option nat)                       (* set_location(..) -> Some id ; OBSERVER = None -> None *)
  | SQuery (p : nat) (dt : Z) (r : result Z)    (* producer index, reference instant, implementation's answer *)
  | SSnap (keys : list (nat * Z * nat)).        (* SUN_CACHE keys, oldest first: (key, UTC day, location) *)

Record scase := {
  sc_tz : tz;
  sc_prods : list (nat * option filt);                (* producer index -> (cache key id, filter) *)
  sc_oracle : list ((nat * nat * Z) * option Z);      (* (location, key, UTC day) -> astral's answer (ns) *)
  sc_steps : list sstep
}.

(* typed constructors for the generated case files (cheaper to elaborate than nested pair literals) *)
Definition OE (l k : nat) (d : Z) (v : option Z) : (nat * nat * Z) * option Z := ((l, k, d), v).
Definition SK (k : nat) (d : Z) (l : nat) : nat * Z * nat := (k, d, l).

(* a (location, key, day) astral was never asked during the implementation run: an instant far in the
   future, so that a model which asks for it cannot agree with the implementation by accident *)
Definition SUN_POISON : Z := 10 ^ 30.

Definition okey_eqb (a b : nat * nat * Z) : bool :=
  let '(l1, k1, d1) := a in let '(l2, k2, d2) := b in Nat.eqb l1 l2 && Nat.eqb k1 k2 && Z.eqb d1 d2.
Fixpoint olookup (k : nat * nat * Z) (l : list ((nat * nat * Z) * option Z)) : option (option Z) :=
  match l with [] => None | (k', v) :: t => if okey_eqb k k' then Some v else olookup k t end.

Definition case_env (c : scase) (loc : option nat) : penv := {|
  pz := sc_tz c;
  draw := fun _ _ _ => 0;
  sun_ev := fun key d =>
    match loc with
    | None => None
    | Some l => match olookup (l, key, d) (sc_oracle c) with Some v => v | None => Some SUN_POISON end
    end;
  location := loc;
  interval_fuel := 1%positive
|}.

(* first step (index from 0) at which model and implementation differ *)
Fixpoint run_steps (c : scase) (loc : option nat) (st : pstate) (i : nat) (steps : list sstep) : option nat :=
  match steps with
  | [] => None
  | SLoc l :: t => run_steps c l st (S i) t
  | SQuery p dt r :: t =>
      match nth_error (sc_prods c) p with
      | None => Some i
      | Some (key, f) =>
          let '(r', st') := get_next (case_env c loc) (PSun key f) st dt in
          if result_eqb Z.eqb r' r then run_steps c loc st' (S i) t else Some i
      end
  | SSnap keys :: t =>
      if list_eqb skey_eqb (map fst (scache st)) keys then run_steps c loc st (S i) t else Some i
  end.

Definition scase_mismatch (c : scase) : option nat := run_steps c None pstate0 0%nat (sc_steps c).

Fixpoint mismatches_from (i : nat) (cs : list scase) : list (nat * nat) :=
  match cs with
  | [] => []
  | c :: t => match scase_mismatch c with
              | None => mismatches_from (S i) t
              | Some k => (i, k) :: mismatches_from (S i) t
              end
  end.
Definition mismatches (cs : list scase) : list (nat * nat) := mismatches_from 0%nat cs.

(* for debugging a mismatch: what the model answers / holds at every step *)
Inductive sobs := OLoc | OAns (r : result Z) | OKeys (k : list (nat * Z * nat)).
Fixpoint model_steps (c : scase) (loc : option nat) (st : pstate) (steps : list sstep) : list sobs :=
  match steps with
  | [] => []
  | SLoc l :: t => OLoc :: model_steps c l st t
  | SQuery p dt _ :: t =>
      match nth_error (sc_prods c) p with
      | None => []
      | Some (key, f) =>
          let '(r', st') := get_next (case_env c loc) (PSun key f) st dt in
          OAns r' :: model_steps c loc st' t
      end
  | SSnap _ :: t => OKeys (map fst (scache st)) :: model_steps c loc st t
  end.
Definition scase_model (c : scase) : list sobs := model_steps c None pstate0 (sc_steps c).

(* SunFacts.sun_next_is_event on the RECORDED answers: every Ok answer is strictly after its reference
   instant, a whole second, accepted by the filter, and is the rounding-up of an instant astral gave for
   the configured location and the producer's key *)
(* ([if] rather than [&&]: the VM evaluates both arguments of [andb]) *)
Definition answer_is_event (c : scase) (loc : option nat) (key : nat) (v : Z) : bool :=
  match loc with
  | None => false
  | Some l =>
      existsb (fun kv : (nat * nat * Z) * option Z =>
                 let '((l', k', _), e) := kv in
                 match e with
                 | Some x => if x <=? v then if v <? x + NS then
                               Nat.eqb l l' && Nat.eqb key k' && (round_up_sec x =? v)
                             else false else false
                 | None => false
                 end)
              (sc_oracle c)
  end.

Fixpoint events_bad (c : scase) (loc : option nat) (i : nat) (steps : list sstep) : option nat :=
  match steps with
  | [] => None
  | SLoc l :: t => events_bad c l (S i) t
  | SQuery p dt (Ok v) :: t =>
      match nth_error (sc_prods c) p with
      | None => Some i
      | Some (key, f) =>
          if (dt <? v) && (v mod NS =? 0) && allow_opt (sc_tz c) f v
          then if answer_is_event c loc key v then events_bad c loc (S i) t else Some i
          else Some i
      end
  | _ :: t => events_bad c loc (S i) t
  end.

Fixpoint events_bad_from (i : nat) (cs : list scase) : list (nat * nat) :=
  match cs with
  | [] => []
  | c :: t => match events_bad c None 0%nat (sc_steps c) with
              | None => events_bad_from (S i) t
              | Some k => (i, k) :: events_bad_from (S i) t
              end
  end.
Definition not_events (cs : list scase) : list (nat * nat) := events_bad_from 0%nat cs.
