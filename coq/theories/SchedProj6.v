(* SchedProj6.v — C03 for a recurring job AMONG OTHERS: in any calm history in which job k is created by
   [OAt key] and afterwards no operation is addressed to k - while other jobs are created, cancelled, paused,
   re-timed, run and fail at will - the executions of k are exactly those of the reference loop [ideal] of
   Compose2.v applied to the clock operations of the history.  Hence everything proved about [ideal]
   (ideal_facts, follows_next_after, keepup_enumerates ...) holds for a job in a scheduler that holds many. *)
From EAS Require Import Base BaseFacts ProdStrict ProdEarliest2 ProdGroup Sched SchedInv SchedApi SchedProj SchedProj2 SchedProj3 SchedProj4 Compose2.
From Coq Require Import Sorted.
From EASGen Require Import Generated.

(* operations that job k, once created, regards as foreign: the clock and the loop, operations addressed to
   other jobs, creations of other jobs *)
Definition foreign (k : nat) (o : op) : bool :=
  match o with
  | OAdvance _ | OWake | OEarlyWake => true
  | OOnce _ _ | OCountdown _ _ | OAt _ => true
  | OEnable _ => false
  | _ => negb (addresses k o)
  end.

Definition creates (o : op) : bool :=
  match o with OOnce _ _ | OAt _ => true | OCountdown secs _ => negb (secs <=? 0) | _ => false end.
Definition ncre (ops : list op) : nat := length (filter creates ops).
Definition clock (t : Z) (ops : list op) : Z :=
  fold_left (fun t o => match o with OAdvance d => t + Z.max 0 d | _ => t end) ops t.
Definition enf (b : bool) (ops : list op) : bool :=
  fold_left (fun b o => match o with OEnable v => v | _ => b end) ops b.

Lemma execs_klog k l : Compose2.execs k (klog k l) = Compose2.execs k l.
Proof.
  induction l as [|e t IH]; [reflexivity|]. rewrite klog_cons.
  destruct e as [j a b o|j cb stt nx|j cb|src|j]; cbn [mine erase Compose2.execs].
  - destruct (Nat.eqb j k) eqn:Ejk; cbn [Compose2.execs]; rewrite ?Ejk, IH; reflexivity.
  - destruct (Nat.eqb j k); cbn [Compose2.execs]; exact IH.
  - destruct (Nat.eqb j k); cbn [Compose2.execs]; exact IH.
  - destruct src as [j|cb|j|]; try exact IH; destruct (Nat.eqb j k); cbn [Compose2.execs]; exact IH.
  - destruct (Nat.eqb j k); cbn [Compose2.execs]; exact IH.
Qed.

Section Among.
Variable E : env.
Variable k : nat.
Hypothesis Hfut : forall q t v, prod E k q t = Ok v -> t < v.

(* job k between two operations: a running recurring job with pending next run c after kq trigger queries *)
Record AtRun (p : pst) (c : Z) (kq : nat) : Prop := {
  ar_kind : jkind (pj p) = KAt;
  ar_st : jstatus (pj p) = Running;
  ar_next : jnext (pj p) = Some c;
  ar_en : pen p = true;
  ar_q : count_prod k (plog p) = kq;
  ar_n : (k < pnj p)%nat
}.

Lemma AtRun_due p c kq : AtRun p c kq -> due1 p = (c <=? pnow p).
Proof. intros [a b d e f g]. unfold due1. rewrite e, b, d. reflexivity. Qed.

Lemma execs_cbs1 mk cbs p : (forall cb a b c d, mk cb <> EExec a b c d) ->
  Compose2.execs k (plog (cbs1 mk cbs p)) = Compose2.execs k (plog p).
Proof.
  intros Hmk. unfold cbs1. cbn [plog p_log]. induction cbs as [|cb t IH] using rev_ind; [reflexivity|].
  rewrite map_app, rev_app_distr. cbn [map rev app]. specialize (Hmk cb).
  destruct (mk cb); try exact IH. exfalso. eapply Hmk. reflexivity.
Qed.
Lemma count_prod_cbs1 mk cbs p : (forall cb j, mk cb <> EProd j) ->
  count_prod k (plog (cbs1 mk cbs p)) = count_prod k (plog p).
Proof.
  intros Hmk. unfold cbs1. cbn [plog p_log]. induction cbs as [|cb t IH] using rev_ind; [reflexivity|].
  rewrite map_app, rev_app_distr. cbn [map rev app]. specialize (Hmk cb).
  destruct (mk cb); try exact IH. exfalso. eapply Hmk. reflexivity.
Qed.

(* one execution of the running recurring job whose trigger answers v *)
Lemma exec1_at p c kq v :
  AtRun p c kq -> prod E k kq (pnow p) = Ok v ->
  AtRun (exec1 E k p) v (S kq) /\ pnow (exec1 E k p) = pnow p /\
  Compose2.execs k (plog (exec1 E k p)) = Compose2.execs k (plog p) ++ [(pnow p, c)].
Proof.
  intros [a b d e f g] Hv. pose proof (Hfut _ _ _ Hv) as Hlt.
  rewrite (exec1_unfold E k p c d). cbv zeta.
  assert (Hpre : pj (pre1 E k c p) = pj p /\ pnow (pre1 E k c p) = pnow p /\ pen (pre1 E k c p) = pen p /\
                 pnj (pre1 E k c p) = pnj p /\ count_prod k (plog (pre1 E k c p)) = kq /\
                 Compose2.execs k (plog (pre1 E k c p)) = Compose2.execs k (plog p) ++ [(pnow p, c)]).
  { unfold pre1. cbv zeta. destruct (fail_exec E k _); cbn [pj pnow pen pnj plog ev1 p_log count_prod Compose2.execs];
      rewrite Nat.eqb_refl; repeat split; assumption. }
  destruct Hpre as (h1 & h2 & h3 & h4 & h5 & h6). remember (pre1 E k c p) as p1 eqn:Ep1. clear Ep1.
  rewrite h1, a. cbn [pnow ev1 p_log]. rewrite h5, h2, Hv.
  assert (Hold : too_old1 (ev1 (EProd k) p1) v = false).
  { unfold too_old1. cbn [pnow ev1 p_log]. apply Z.ltb_ge. unfold past_tolerance_ns. lia. }
  rewrite Hold. unfold snr1. cbv zeta. split; [|split].
  - constructor; unfold cbs1; cbn [pj pen pnj p_log p_job ev1 jkind jstatus jnext with_status_next]; try congruence.
    change (p_log ?l ?q) with (cbs1 (fun cb => ECbUpd k cb Running (Some v)) (jcbu (pj (ev1 (EProd k) p1)))
                                (p_job (with_status_next (pj (ev1 (EProd k) p1)) Running (Some v)) (ev1 (EProd k) p1))).
    rewrite count_prod_cbs1 by (intros; discriminate).
    cbn [plog p_job ev1 p_log count_prod]. rewrite Nat.eqb_refl, h5. reflexivity.
  - unfold cbs1. cbn [pnow p_log p_job ev1]. exact h2.
  - rewrite execs_cbs1 by (intros; discriminate). cbn [plog p_job ev1 p_log Compose2.execs]. exact h6.
Qed.

Lemma AtRun_fields p q c kq :
  pj q = pj p -> pen q = pen p -> plog q = plog p -> (pnj p <= pnj q)%nat -> AtRun p c kq -> AtRun q c kq.
Proof. intros a b d e [h1 h2 h3 h4 h5 h6]. constructor; try congruence. lia. Qed.

(* a wake-up *)
Lemma flush_at g p c kq :
  AtRun p c kq ->
  if c <=? pnow p then
    forall v, prod E k kq (pnow p) = Ok v ->
      flush E (S g) k p = exec1 E k p
  else flush E (S g) k p = p.
Proof.
  intros A. cbn [flush]. rewrite (AtRun_due p c kq A). destruct (c <=? pnow p); [|reflexivity].
  intros v Hv. destruct (exec1_at p c kq v A Hv) as (A' & Hn & _).
  destruct g as [|g]; [reflexivity|]. cbn [flush]. rewrite (AtRun_due _ _ _ A'), Hn.
  replace (v <=? pnow p) with false; [reflexivity|]. symmetry. apply Z.leb_gt. eapply Hfut. exact Hv.
Qed.

(* THE POST PHASE: after its creation job k follows the reference loop, whatever happens to the others *)
Theorem run1_ideal g hs : forall ops p c kq xs k' t' c',
  AtRun p c kq -> forallb (foreign k) ops = true ->
  ideal (prod E k) kq (pnow p) c (filter quiet ops) = Some (xs, (k', t', c')) ->
  AtRun (run1 E (S g) hs k p ops) c' k' /\ pnow (run1 E (S g) hs k p ops) = t' /\
  Compose2.execs k (plog (run1 E (S g) hs k p ops)) = Compose2.execs k (plog p) ++ xs.
Proof.
  induction ops as [|o t IH]; intros p c kq xs k' t' c' A Hf Hi.
  - cbn [filter ideal] in Hi. injection Hi as <- <- <- <-. cbn [run1 fold_left]. rewrite app_nil_r. auto.
  - cbn [forallb] in Hf. apply andb_true_iff in Hf. destruct Hf as (Hfo & Hft). rewrite run1_cons.
    assert (Hnk : Nat.eqb (pnj p) k = false) by (apply Nat.eqb_neq; pose proof (ar_n _ _ _ A); lia).
    (* operations that job k does not see at all *)
    assert (Skip : forall q, step1 E (S g) hs k p o = q -> filter quiet (o :: t) = filter quiet t ->
              pj q = pj p -> pen q = pen p -> plog q = plog p -> (pnj p <= pnj q)%nat -> pnow q = pnow p ->
              AtRun (run1 E (S g) hs k (step1 E (S g) hs k p o) t) c' k' /\
              pnow (run1 E (S g) hs k (step1 E (S g) hs k p o) t) = t' /\
              Compose2.execs k (plog (run1 E (S g) hs k (step1 E (S g) hs k p o) t)) = Compose2.execs k (plog p) ++ xs).
    { intros q -> Hq a b d e f. rewrite Hq in Hi. rewrite <- d, <- f in *.
      apply (IH _ c kq); [eapply AtRun_fields; eassumption|exact Hft|exact Hi]. }
    assert (Ctl : forall j, addresses j o = true -> Nat.eqb j k = false -> filter quiet (o :: t) = filter quiet t ->
              AtRun (run1 E (S g) hs k (step1 E (S g) hs k p o) t) c' k' /\
              pnow (run1 E (S g) hs k (step1 E (S g) hs k p o) t) = t' /\
              Compose2.execs k (plog (run1 E (S g) hs k (step1 E (S g) hs k p o) t)) = Compose2.execs k (plog p) ++ xs).
    { intros j Ha Hjk Hq. apply Nat.eqb_neq in Hjk.
      apply (Skip p); auto. apply (step1_other E (S g) hs k j p o Ha). congruence. }
    destruct o; cbn [foreign addresses] in Hfo; try discriminate;
      try (apply negb_true_iff in Hfo; apply (Ctl j); [cbn [addresses]; apply Nat.eqb_refl|exact Hfo|reflexivity]).
    + (* once: another job is created *)
      eapply Skip; [reflexivity|reflexivity|..]; unfold step1; cbn [runs direct]; unfold create1; rewrite Hnk; cbn; auto.
    + eapply Skip; [reflexivity|reflexivity|..]; unfold step1; cbn [runs direct]; unfold create1;
        destruct (secs <=? 0); rewrite ?Hnk; cbn; auto.
    + eapply Skip; [reflexivity|reflexivity|..]; unfold step1; cbn [runs direct]; unfold create1; rewrite Hnk; cbn; auto.
    + (* the clock moves *)
      cbn [filter quiet ideal] in Hi. unfold step1. cbn [runs direct].
      assert (A' : AtRun (p_now (pnow p + Z.max 0 d) p) c kq) by (eapply AtRun_fields; [..|exact A]; cbn; auto).
      destruct (IH _ c kq _ _ _ _ A' Hft Hi) as (a & b & d0). split; [exact a|]. split; [exact b|exact d0].
    + (* wake-up *)
      cbn [filter quiet ideal] in Hi. unfold step1. cbn [runs direct].
      pose proof (flush_at g p c kq A) as Hfl. destruct (c <=? pnow p).
      * destruct (prod E k kq (pnow p)) as [v| |] eqn:Hv; try discriminate.
        destruct (ideal (prod E k) (S kq) (pnow p) v (filter quiet t)) as [(xs1, e1)|] eqn:Hi1; [|discriminate].
        injection Hi as Hxs He. subst xs e1. rewrite (Hfl v eq_refl).
        destruct (exec1_at p c kq v A Hv) as (A' & Hn & Hx). rewrite <- Hn in Hi1.
        destruct (IH _ _ _ _ _ _ _ A' Hft Hi1) as (a & b & d). split; [exact a|]. split; [exact b|].
        rewrite d, Hx, <- app_assoc. reflexivity.
      * rewrite Hfl. apply (IH p c kq); assumption.
    + (* early wake-up *)
      cbn [filter quiet ideal] in Hi. unfold step1. cbn [runs direct].
      pose proof (flush_at g p c kq A) as Hfl. destruct (c <=? pnow p).
      * destruct (prod E k kq (pnow p)) as [v| |] eqn:Hv; try discriminate.
        destruct (ideal (prod E k) (S kq) (pnow p) v (filter quiet t)) as [(xs1, e1)|] eqn:Hi1; [|discriminate].
        injection Hi as Hxs He. subst xs e1. rewrite (Hfl v eq_refl).
        destruct (exec1_at p c kq v A Hv) as (A' & Hn & Hx). rewrite <- Hn in Hi1.
        destruct (IH _ _ _ _ _ _ _ A' Hft Hi1) as (a & b & d). split; [exact a|]. split; [exact b|].
        rewrite d, Hx, <- app_assoc. reflexivity.
      * rewrite Hfl. apply (IH p c kq); assumption.
Qed.

(* ------------------------------------------------------------------------------------------- *)
(* THE PRE PHASE: before its creation job k is a blank record that only sees clock, flag and counter *)
Lemma flush_created g p : jstatus (pj p) = Created -> flush E g k p = p.
Proof.
  intros H. destruct g as [|g]; [reflexivity|]. cbn [flush].
  rewrite due1_not_running; [reflexivity|]. rewrite H. discriminate.
Qed.

Lemma pre_step g hs p o :
  plog p = [] -> jstatus (pj p) = Created -> (creates o = true -> pnj p <> k) -> addresses k o = false ->
  let q := step1 E g hs k p o in
  plog q = [] /\ jstatus (pj q) = Created /\ pnj q = (if creates o then S (pnj p) else pnj p) /\
  pnow q = match o with OAdvance d => pnow p + Z.max 0 d | _ => pnow p end /\
  pen q = match o with OEnable v => v | _ => pen p end.
Proof.
  intros Hl Hs Hc Ha. cbv zeta.
  assert (Ctl : forall j, addresses j o = true -> Nat.eqb j k = false -> step1 E g hs k p o = p).
  { intros j H1 H2. apply (step1_other E g hs k j p o H1). apply Nat.eqb_neq in H2. congruence. }
  destruct o; cbn [addresses creates] in *;
    try (rewrite (Ctl j) by (cbn [addresses]; auto using Nat.eqb_refl); auto).
  - specialize (Hc eq_refl). apply Nat.eqb_neq in Hc.
    unfold step1. cbn [runs direct]. unfold create1. rewrite Hc. cbn. auto.
  - unfold step1. cbn [runs direct]. unfold create1. destruct (secs <=? 0); cbn [negb] in *.
    + destruct (Nat.eqb (pnj p) k); rewrite ?flush_created by exact Hs; auto.
    + specialize (Hc eq_refl). apply Nat.eqb_neq in Hc. rewrite Hc. cbn. auto.
  - specialize (Hc eq_refl). apply Nat.eqb_neq in Hc.
    unfold step1. cbn [runs direct]. unfold create1. rewrite Hc. cbn. auto.
  - unfold step1. cbn [runs direct]. destruct (Bool.eqb b (pen p)) eqn:Eb.
    + rewrite flush_created by exact Hs. apply eqb_prop in Eb. auto.
    + rewrite flush_created by exact Hs. cbn. auto.
  - unfold step1. cbn [runs direct]. cbn. auto.
  - unfold step1. cbn [runs direct]. rewrite flush_created by exact Hs. auto.
  - unfold step1. cbn [runs direct]. rewrite flush_created by exact Hs. auto.
Qed.

Lemma ncre_cons o t : ncre (o :: t) = if creates o then S (ncre t) else ncre t.
Proof. unfold ncre. cbn [filter]. destruct (creates o); reflexivity. Qed.

Theorem pre_phase g hs : forall pre p,
  plog p = [] -> jstatus (pj p) = Created -> (pnj p + ncre pre = k)%nat ->
  forallb (fun o => negb (addresses k o)) pre = true ->
  let p' := run1 E g hs k p pre in
  plog p' = [] /\ jstatus (pj p') = Created /\ pnj p' = k /\
  pnow p' = clock (pnow p) pre /\ pen p' = enf (pen p) pre.
Proof.
  induction pre as [|o t IH]; intros p Hl Hs Hn Hf; cbv zeta.
  - cbn. unfold ncre in Hn. cbn in Hn. repeat split; auto. lia.
  - cbn [forallb] in Hf. apply andb_true_iff in Hf. destruct Hf as (Ho & Ht). apply negb_true_iff in Ho.
    rewrite ncre_cons in Hn. rewrite run1_cons.
    destruct (pre_step g hs p o Hl Hs) as (a & b & c & d & e); [|exact Ho|].
    { intros Hc. rewrite Hc in Hn. lia. }
    destruct (IH (step1 E g hs k p o) a b) as (a' & b' & c' & d' & e'); [|exact Ht|].
    { rewrite c. destruct (creates o); lia. }
    split; [exact a'|]. split; [exact b'|]. split; [exact c'|].
    split; [rewrite d', d|rewrite e', e]; unfold clock, enf; cbn [fold_left]; reflexivity.
Qed.

(* THE CREATION *)
Lemma create_at1 g hs key p a1 :
  plog p = [] -> pnj p = k -> pen p = true -> prod E k 0 (pnow p) = Ok a1 ->
  let q := step1 E (S g) hs k p (OAt key) in
  AtRun q a1 1 /\ pnow q = pnow p /\ Compose2.execs k (plog q) = [].
Proof.
  intros Hl Hn He Hp. cbv zeta. pose proof (Hfut _ _ _ Hp) as Hlt.
  unfold step1. cbn [runs direct]. unfold create1. rewrite Hn, Nat.eqb_refl. cbv zeta.
  cbn [jkind with_linked with_stored new_job plog p_nj p_job pnow ev1 p_log]. rewrite Hl. cbn [count_prod]. rewrite Hp.
  match goal with |- context [too_old1 ?q a1] => assert (Hold : too_old1 q a1 = false) end.
  { unfold too_old1. cbn [pnow ev1 p_log p_nj p_job]. apply Z.ltb_ge. unfold past_tolerance_ns. lia. }
  rewrite Hold. clear Hold.
  match goal with |- context [flush E (S g) k ?q] => set (q0 := q) end.
  assert (A0 : AtRun q0 a1 1).
  { subst q0. unfold snr1, cbs1. constructor; cbn; rewrite ?Nat.eqb_refl, ?Hl; cbn; try reflexivity; try assumption; lia. }
  assert (N0 : pnow q0 = pnow p) by (subst q0; reflexivity).
  assert (X0 : Compose2.execs k (plog q0) = []) by (subst q0; cbn; rewrite Hl; reflexivity).
  pose proof (flush_at g q0 a1 1 A0) as Hfl. rewrite N0 in Hfl.
  replace (a1 <=? pnow p) with false in Hfl by (symmetry; apply Z.leb_gt; exact Hlt).
  rewrite Hfl. auto.
Qed.

(* C03, A RECURRING JOB AMONG OTHERS.  [pre]: any calm history that creates k jobs and does not address job k;
   then job k is created as a recurring job while the scheduler is enabled; [ops]: any operations on the clock,
   the loop and the OTHER jobs (creations included).  The executions of job k (instant, announced time), oldest
   first, are those of the reference loop on the clock operations of [ops]. *)
Theorem disturbed_job_exact fuel hs t0 en key pre ops s rs a1 xs k' t' c' :
  run E fuel hs (init t0 en) (pre ++ OAt key :: ops) = (s, rs) ->
  ~ In NoFuel rs -> ~ In (Raised EKeyError) rs ->
  hist_ok true (pre ++ OAt key :: ops) = true ->
  ncre pre = k -> forallb (fun o => negb (addresses k o)) pre = true -> enf en pre = true ->
  forallb (foreign k) ops = true ->
  prod E k 0 (clock t0 pre) = Ok a1 ->
  ideal (prod E k) 1 (clock t0 pre) a1 (filter quiet ops) = Some (xs, (k', t', c')) ->
  Compose2.execs k (log s) = xs /\
  jstatus (jobs s k) = Running /\ jnext (jobs s k) = Some c' /\ now s = t' /\ count_prod k (log s) = k'.
Proof.
  intros Hrun Hnf Hke Hok Hn Hpre Hen Hfor Hp Hi.
  destruct (run_proj E fuel hs k _ _ _ _ true (Inv_init t0 en) (fun _ => Calm_init t0 en) Hok Hrun Hnf Hke) as (n & Hproj).
  specialize (Hproj (S n) (Nat.le_succ_diag_r n)).
  unfold run1 in Hproj. rewrite fold_left_app in Hproj. fold (run1 E (S n) hs k) in Hproj.
  change (fold_left (step1 E (S n) hs k) pre (proj k (init t0 en))) with (run1 E (S n) hs k (proj k (init t0 en)) pre) in Hproj.
  destruct (pre_phase (S n) hs pre (proj k (init t0 en)) eq_refl eq_refl) as (a & b & c & d & e); [exact Hn|exact Hpre|].
  remember (run1 E (S n) hs k (proj k (init t0 en)) pre) as p1 eqn:Ep1. clear Ep1.
  cbn [pnow pen proj init now enabled] in d, e. rewrite Hen in e.
  change (fold_left (step1 E (S n) hs k) (OAt key :: ops) p1)
    with (run1 E (S n) hs k (step1 E (S n) hs k p1 (OAt key)) ops) in Hproj.
  rewrite <- d in Hp, Hi.
  destruct (create_at1 n hs key p1 a1 a c e Hp) as (A2 & N2 & X2).
  rewrite <- N2 in Hi.
  destruct (run1_ideal n hs ops _ a1 1%nat xs k' t' c' A2 Hfor Hi) as (A3 & N3 & X3).
  rewrite <- Hproj in A3, N3, X3. destruct A3 as [h1 h2 h3 h4 h5 h6].
  cbn [proj pj pnow plog] in *.
  rewrite execs_klog in X3. rewrite count_prod_klog in h5. rewrite X2 in X3. auto.
Qed.

End Among.

(* The closed C03 statement for a job among others: trigger with occurrence set P *)
Theorem disturbed_keepup_enumerates E k P fuel hs t0 en key pre ops s rs a1 xs k' t' c' :
  (forall q t v, prod E k q t = Ok v -> earliest_after P t v) ->
  run E fuel hs (init t0 en) (pre ++ OAt key :: ops) = (s, rs) ->
  ~ In NoFuel rs -> ~ In (Raised EKeyError) rs ->
  hist_ok true (pre ++ OAt key :: ops) = true ->
  ncre pre = k -> forallb (fun o => negb (addresses k o)) pre = true -> enf en pre = true ->
  forallb (foreign k) ops = true ->
  prod E k 0 (clock t0 pre) = Ok a1 ->
  ideal (prod E k) 1 (clock t0 pre) a1 (filter quiet ops) = Some (xs, (k', t', c')) ->
  (* the job is Running with pending next run c'; its executions are those of the reference loop *)
  Compose2.execs k (log s) = xs /\ jstatus (jobs s k) = Running /\ jnext (jobs s k) = Some c' /\ now s = t' /\
  (* in order, one per instant, never early, never before creation *)
  StronglySorted Z.lt (map fst xs) /\
  Forall (fun x => clock t0 pre <= fst x <= t' /\ snd x <= fst x /\ fst x < c') xs /\
  (* after every execution the next run is the next occurrence strictly after the execution instant *)
  Forall2 (fun x v => earliest_after P (fst x) v) xs (tl (map snd xs ++ [c'])) /\
  (* as long as the loop keeps up: the served occurrences and the pending one list P after creation *)
  (keeps_up P xs -> enumerates P (clock t0 pre) (map Ok (map snd xs ++ [c']))).
Proof.
  intros Hspec Hrun Hnf Hke Hok Hn Hpre Hen Hfor Hp Hi.
  assert (Hfut : forall q t v, prod E k q t = Ok v -> t < v).
  { intros q t v H. destruct (Hspec q t v H) as (_ & H1 & _). exact H1. }
  destruct (disturbed_job_exact E k Hfut fuel hs t0 en key pre ops s rs a1 xs k' t' c'
              Hrun Hnf Hke Hok Hn Hpre Hen Hfor Hp Hi) as (Hx & Hs & Hc & Hnow & _).
  pose proof (ideal_facts _ _ _ _ _ _ _ _ _ Hi) as Hf.
  destruct (follows_increasing _ Hfut _ _ _ _ _ _ _ Hf) as (S1 & S2).
  destruct (follows_next_after _ P Hspec _ _ _ _ _ _ _ Hf) as (l & El & Fl).
  split; [exact Hx|]. split; [exact Hs|]. split; [exact Hc|]. split; [exact Hnow|].
  split; [exact S1|]. split.
  { eapply Forall_impl; [|exact S2]. intros x ((? & ?) & ? & ? & ?). repeat split; assumption. }
  split; [rewrite El; exact Fl|].
  intros Hk. apply (follows_enumerates _ P Hspec _ _ _ _ _ _ _ (clock t0 pre) Hf); [apply (Hspec _ _ _ Hp)|exact Hk].
Qed.

(* ------------------------------------------------------------------------------------------- *)
(* the hypotheses are satisfiable: job 2 is recurring (every second after the reference instant), jobs 0, 1, 3
   are created, reset, run, paused and cancelled around it *)
Definition dj_SEC : Z := 1000000000.
Definition dj_E : env := {| prod := fun _ _ t => Ok (t + dj_SEC); fail_exec := fun j _ => Nat.eqb j 1; fail_cb := fun _ _ => false |}.
Definition dj_pre : list op := [OOnce (5 * dj_SEC) 100; OCountdown dj_SEC 101].
Definition dj_ops : list op :=
  [OReset 1; OAdvance dj_SEC; OWake; OCancel 0; OAt 103; OAdvance dj_SEC; OEarlyWake; OPause 1;
   OAdvance (dj_SEC / 2); OWake; OAdvance dj_SEC; OWake].
Definition dj_xs : list (Z * Z) := [(dj_SEC, dj_SEC); (2 * dj_SEC, 2 * dj_SEC); (7 * dj_SEC / 2, 3 * dj_SEC)].

Example dj_hypotheses :
  snd (run dj_E 60 true (init 0 true) (dj_pre ++ OAt 102 :: dj_ops)) = repeat Done 15 /\
  hist_ok true (dj_pre ++ OAt 102 :: dj_ops) = true /\
  ncre dj_pre = 2%nat /\ forallb (fun o => negb (addresses 2 o)) dj_pre = true /\ enf true dj_pre = true /\
  forallb (foreign 2) dj_ops = true /\
  prod dj_E 2 0 (clock 0 dj_pre) = Ok dj_SEC /\
  ideal (prod dj_E 2) 1 (clock 0 dj_pre) dj_SEC (filter quiet dj_ops) = Some (dj_xs, (4%nat, 7 * dj_SEC / 2, 9 * dj_SEC / 2)).
Proof. vm_compute. repeat split. Qed.

Example dj_direct :
  Compose2.execs 2 (log (fst (run dj_E 60 true (init 0 true) (dj_pre ++ OAt 102 :: dj_ops)))) = dj_xs /\
  count_exec 1 (log (fst (run dj_E 60 true (init 0 true) (dj_pre ++ OAt 102 :: dj_ops)))) = 1%nat /\
  count_exec 3 (log (fst (run dj_E 60 true (init 0 true) (dj_pre ++ OAt 102 :: dj_ops)))) = 2%nat.
Proof. vm_compute. repeat split. Qed.

Example dj_by_theorem :
  Compose2.execs 2 (log (fst (run dj_E 60 true (init 0 true) (dj_pre ++ OAt 102 :: dj_ops)))) = dj_xs.
Proof.
  destruct dj_hypotheses as (R & Hok & Hn & Hpre & Hen & Hfor & Hp & Hi).
  assert (F : ~ In NoFuel (snd (run dj_E 60 true (init 0 true) (dj_pre ++ OAt 102 :: dj_ops))) /\
              ~ In (Raised EKeyError) (snd (run dj_E 60 true (init 0 true) (dj_pre ++ OAt 102 :: dj_ops)))).
  { rewrite R. split; intros H; apply repeat_spec in H; discriminate. }
  destruct F as (F1 & F2).
  assert (Hfut : forall q t v, prod dj_E 2 q t = Ok v -> t < v).
  { intros q t v H. cbn in H. injection H as <-. unfold dj_SEC. lia. }
  exact (proj1 (disturbed_job_exact dj_E 2 Hfut 60 true 0 true 102 dj_pre dj_ops _ _ _ _ _ _ _
                  (surjective_pairing _) F1 F2 Hok Hn Hpre Hen Hfor Hp Hi)).
Qed.
