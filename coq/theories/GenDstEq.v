(* GenDstEq.v — the code generated from helpers/dst_param.py (coq/gen/GenDst.v, rewritten by tools/gen_dst.py on
   every run) computes what the hand-written model of Dst.v computes.  Hand-written; re-checked against the
   regenerated file on every run.

   The generated functions consult a [world] W (GenRtDst.v): a time-zone table [w_tz W] and a clock [w_now W];
   the model takes a table z and the current year.  With z = w_tz W and year = the local year of the clock:
     gen_iter_nr_tuple / gen_iter_nr_reversed   _iter_nr = Dst.iter_nr (both call shapes)
     gen_iter_date                              _iter_date yields, month by month and hour by hour, the instants of
                                                the +24 h walk paired with Time(hour, 30); it is stuck exactly when a
                                                month of the scan order has no walk on the table
     gen_find_time_agrees                       find_time: not stuck -> the model's find_time is Ok and equal
     gen_setup_agrees                           _setup: not stuck -> same globals, same outcome (also when it raises)
     gen_check_agrees                           check_dst_handling: not stuck -> same globals, same outcome
   The table cut.  Dst.setup / Dst.check_dst_handling ask their calendar questions on [window z year] (the table cut
   to [year-1, year+2)).  The generated code has no cut: it is proved equal to the model's functions on WHATEVER
   table the world holds ([setup_on], [check_on]); instantiated with a world whose table is [window z year]
   ([wworld]) these are Dst.setup / Dst.check_dst_handling by reflexivity ([setup_on_window], [check_on_window]).
   The theorems of DstFacts.v compare the outcome with the FULL table z, so the corollaries at the end speak about
   the generated code running on the cut table and about every day / time of the full table.  That the cut is
   harmless for the questions asked is what the correspondence check of C20 validates (as for the model). *)
From EAS Require Import Base BaseFacts Civil Time Replace Dst DstFacts GenRtDst.
From EASGen Require Import GenDst.
From Coq Require Import String.

Theorem gen_dst_recognised : gen_dst_status_v = GenDstOk.
Proof. reflexivity. Qed.

Theorem gen_globals0 : g_globals0 = g0.
Proof. reflexivity. Qed.

(* ------------------------------------------------------------------------------------------- *)
(* 0. loops *)
Section Loops.
Context {A St B R X : Type}.

Lemma for_each_app : forall (l1 l2 : list A) (body : A -> St -> ctl St B R X) s,
  for_each (l1 ++ l2) body s =
  match for_each l1 body s with Next s' => for_each l2 body s' | Brk b => Brk b | Retn r => Retn r
                              | Throw x => Throw x | Stuck => Stuck end.
Proof.
  induction l1 as [|a l1 IH]; intros l2 body s; cbn [for_each app]; [reflexivity|].
  destruct (body a s); try reflexivity. apply IH.
Qed.

(* a body that always goes on *)
Lemma for_each_fold : forall (g : A -> St -> St) (body : A -> St -> ctl St B R X),
  (forall a s, body a s = Next (g a s)) ->
  forall l s, for_each l body s = Next (fold_left (fun s a => g a s) l s).
Proof.
  intros g body Hb. induction l as [|a l IH]; intros s; cbn [for_each fold_left]; [reflexivity|].
  rewrite Hb. apply IH.
Qed.
End Loops.

(* yields are collected newest first *)
Lemma fold_cons_filter : forall {T} (p : T -> bool) (l : list T) (acc : list T),
  fold_left (fun s a => if p a then a :: s else s) l acc = rev (filter p l) ++ acc.
Proof.
  intros T p. induction l as [|a l IH]; intros acc; cbn [fold_left filter]; [reflexivity|].
  rewrite IH. destruct (p a); [cbn [rev]; rewrite <- app_assoc; reflexivity|reflexivity].
Qed.

Lemma fold_cons_all : forall {T} (l : list T) (acc : list T),
  fold_left (fun s a => a :: s) l acc = rev l ++ acc.
Proof.
  intros T. induction l as [|a l IH]; intros acc; cbn [fold_left rev]; [reflexivity|].
  rewrite IH, <- app_assoc. reflexivity.
Qed.

Lemma filter_true : forall {T} (l : list T), filter (fun _ => true) l = l.
Proof. induction l as [|a l IH]; cbn [filter]; [reflexivity|rewrite IH; reflexivity]. Qed.

(* ------------------------------------------------------------------------------------------- *)
(* 1. _iter_nr *)
Lemma gen_iter_nr : forall W it lo hi,
  g_iter_nr W it lo hi = ORet (it_items it ++ filter (fun n => negb (it_mem_after n it)) (py_range lo hi)).
Proof.
  intros W it lo hi. unfold g_iter_nr. cbv zeta.
  erewrite (for_each_fold (fun a s => a :: s)); [|intros a s; reflexivity].
  rewrite fold_cons_all.
  erewrite (for_each_fold (fun a s => if negb (it_mem_after a it) then a :: s else s));
    [|intros a s; destruct (negb (it_mem_after a it)); reflexivity].
  rewrite fold_cons_filter, app_nil_r, rev_app_distr, !rev_involutive. reflexivity.
Qed.

Theorem gen_iter_nr_tuple : forall W order lo hi,
  g_iter_nr W (ITuple order) lo hi = ORet (iter_nr false order lo hi).
Proof. intros. rewrite gen_iter_nr. reflexivity. Qed.

Theorem gen_iter_nr_reversed : forall W order lo hi,
  g_iter_nr W (it_reversed order) lo hi = ORet (iter_nr true order lo hi).
Proof.
  intros. rewrite gen_iter_nr. unfold it_reversed, iter_nr. cbn [it_items it_mem_after negb].
  rewrite filter_true. reflexivity.
Qed.

(* ------------------------------------------------------------------------------------------- *)
(* 2. _iter_date *)
Definition lday (z : tz) (i : Z) : Z := local_day (to_local z i).
Definition wyear (W : world) : Z := sdt_year W (sdt_now W).       (* SystemDateTime.now().year *)

(* the instants start, start + 24 h, ... while the local month is [month] (Dst.day_walk keeps their dates) *)
Fixpoint inst_walk (fuel : nat) (z : tz) (month start : Z) : option (list Z) :=
  match fuel with
  | O => None
  | S f =>
      if local_month (to_local z start) =? month then
        match inst_walk f z month (start + 24 * HOUR) with
        | Some r => Some (start :: r)
        | None => None
        end
      else Some []
  end.

Lemma day_walk_inst : forall fuel z month start,
  day_walk fuel z month start = option_map (map (lday z)) (inst_walk fuel z month start).
Proof.
  induction fuel as [|f IH]; intros z month start; cbn [day_walk inst_walk]; [reflexivity|]. cbv zeta.
  destruct (local_month (to_local z start) =? month); [|reflexivity].
  rewrite IH. destruct (inst_walk f z month (start + 24 * HOUR)); reflexivity.
Qed.

Definition month_insts (z : tz) (year month : Z) : option (list Z) :=
  match sys_midnight z year month with
  | Some s => inst_walk WALK_FUEL z month s
  | None => None
  end.

Lemma month_days_insts : forall z year month,
  month_days z year month = option_map (map (lday z)) (month_insts z year month).
Proof.
  intros. unfold month_days, month_insts. destruct (sys_midnight z year month); [apply day_walk_inst|reflexivity].
Qed.

Definition hm (h : Z) : Z := time_of h 30 0 0.                     (* Time(hour, 30) *)
Definition hour_items (l : list Z) (h : Z) : list (Z * Z) := map (fun i => (i, hm h)) l.

Fixpoint date_items (z : tz) (year : Z) (hours months : list Z) : option (list (Z * Z)) :=
  match months with
  | [] => Some []
  | m :: r =>
      match month_insts z year m with
      | None => None
      | Some l =>
          match date_items z year hours r with
          | None => None
          | Some rest => Some (flat_map (hour_items l) hours ++ rest)
          end
      end
  end.

Section Walk.
Variables (W : world) (month t : Z).
Variables (B R X : Type).
Let S2 : Type := (list (Z * Z) * Z)%type.

Lemma while_walk : forall (cond : S2 -> bool) (body : S2 -> ctl S2 B R X),
  (forall acc s, cond (acc, s) = (sdt_month W s =? month)) ->
  (forall acc s, body (acc, s) = Next ((s, t) :: acc, sdt_add_hours s 24)) ->
  forall fuel acc start,
  match inst_walk fuel (w_tz W) month start with
  | Some l => exists e, while_loop fuel cond body (acc, start) = Next (rev (map (fun i => (i, t)) l) ++ acc, e)
  | None => while_loop fuel cond body (acc, start) = Stuck
  end.
Proof.
  intros cond body Hc Hb. induction fuel as [|f IH]; intros acc start; cbn [inst_walk while_loop]; [reflexivity|].
  rewrite Hc. unfold sdt_month. destruct (local_month (to_local (w_tz W) start) =? month).
  - rewrite Hb. unfold sdt_add_hours. specialize (IH ((start, t) :: acc) (start + 24 * HOUR)).
    destruct (inst_walk f (w_tz W) month (start + 24 * HOUR)) as [l|].
    + destruct IH as [e IH]. exists e. rewrite IH. cbn [map rev]. rewrite <- app_assoc. reflexivity.
    + exact IH.
  - exists start. reflexivity.
Qed.
End Walk.

Section DateLoops.
Variables (z : tz) (year : Z).
Variables (B R X : Type).
Let S1 : Type := list (Z * Z).

Lemma hours_loop : forall (m : Z) (body : Z -> S1 -> ctl S1 B R X),
  (forall h acc, body h acc = match month_insts z year m with
                              | Some l => Next (rev (hour_items l h) ++ acc) | None => Stuck end) ->
  forall hours acc,
  for_each hours body acc =
  match month_insts z year m with
  | Some l => Next (rev (flat_map (hour_items l) hours) ++ acc)
  | None => match hours with [] => Next acc | _ :: _ => Stuck end
  end.
Proof.
  intros m body Hb. induction hours as [|h hours IH]; intros acc; cbn [for_each flat_map].
  - destruct (month_insts z year m); reflexivity.
  - rewrite Hb. destruct (month_insts z year m) as [l|] eqn:E; [|reflexivity].
    rewrite IH, rev_app_distr, <- app_assoc. reflexivity.
Qed.

Lemma months_loop : forall (hours : list Z) (body : Z -> S1 -> ctl S1 B R X),
  (forall m acc, body m acc = match month_insts z year m with
                              | Some l => Next (rev (flat_map (hour_items l) hours) ++ acc) | None => Stuck end) ->
  forall months acc,
  for_each months body acc =
  match date_items z year hours months with Some L => Next (rev L ++ acc) | None => Stuck end.
Proof.
  intros hours body Hb. induction months as [|m months IH]; intros acc; cbn [for_each date_items].
  - reflexivity.
  - rewrite Hb. destruct (month_insts z year m) as [l|]; [|reflexivity].
    rewrite IH. destruct (date_items z year hours months) as [L|]; [|reflexivity].
    rewrite rev_app_distr, <- app_assoc. reflexivity.
Qed.
End DateLoops.

Lemma hour_seq_cons : forall rv, exists h r, hour_seq rv = h :: r.
Proof. intros [|]; eexists; eexists; reflexivity. Qed.

Theorem gen_iter_date : forall W rv,
  g_iter_date W rv =
  match date_items (w_tz W) (wyear W) (hour_seq rv) (month_seq rv) with Some L => ORet L | None => OStuck end.
Proof.
  intros W rv. unfold g_iter_date. cbv zeta.
  assert (Hm : g_iter_nr W (if negb rv then ITuple month_order else it_reversed month_order) 1 13
               = ORet (month_seq rv)).
  { destruct rv; cbn [negb]; [apply gen_iter_nr_reversed|apply gen_iter_nr_tuple]. }
  assert (Hh : g_iter_nr W (if negb rv then ITuple hour_order else it_reversed hour_order) 0 24
               = ORet (hour_seq rv)).
  { destruct rv; cbn [negb]; [apply gen_iter_nr_reversed|apply gen_iter_nr_tuple]. }
  change [3; 4; 11; 9; 10] with month_order. change [2; 3; 0; 1] with hour_order.
  rewrite Hm.
  erewrite (months_loop (w_tz W) (wyear W) _ _ _ (hour_seq rv)).
  - destruct (date_items (w_tz W) (wyear W) (hour_seq rv) (month_seq rv)); [|reflexivity].
    rewrite app_nil_r, rev_involutive. reflexivity.
  - intros m acc. rewrite Hh.
    erewrite (hours_loop (w_tz W) (wyear W) _ _ _ m).
    + destruct (month_insts (w_tz W) (wyear W) m); [reflexivity|].
      destruct (hour_seq_cons rv) as [h [r ->]]. reflexivity.
    + intros h acc'. unfold month_insts.
      change (sdt_make W (sdt_year W (sdt_now W)) m 1) with (sys_midnight (w_tz W) (wyear W) m).
      destruct (sys_midnight (w_tz W) (wyear W) m) as [s|]; [|reflexivity].
      match goal with |- context [while_loop LOOP_FUEL ?c ?b (acc', s)] =>
        pose proof (while_walk W m (hm h) Empty_set (list (Z * Z)) dexn c b
                      (fun _ _ => eq_refl) (fun _ _ => eq_refl) LOOP_FUEL acc' s) as Hw end.
      change LOOP_FUEL with WALK_FUEL in *.
      destruct (inst_walk WALK_FUEL (w_tz W) m s) as [l|].
      * destruct Hw as [e Hw]. rewrite Hw. reflexivity.
      * rewrite Hw. reflexivity.
Qed.

(* ------------------------------------------------------------------------------------------- *)
(* 3. find_time *)
Lemma hm_eq : forall h, hm h = h * HOUR + 30 * MINUTE.
Proof. intros. unfold hm, time_of. lia. Qed.

Ltac digits := unfold t_hour, t_minute, t_second, t_nano, hm, time_of, HOUR, MINUTE, NS; lia.
Lemma hm_hour h : t_hour (hm h) = h. Proof. digits. Qed.
Lemma hm_minute h : t_minute (hm h) = 30. Proof. digits. Qed.
Lemma hm_second h : t_second (hm h) = 0. Proof. digits. Qed.
Lemma hm_nano h : t_nano (hm h) = 0. Proof. digits. Qed.
Lemma up_hour h : t_hour (h * HOUR + HOUR - 1) = h. Proof. digits. Qed.
Lemma up_minute h : t_minute (h * HOUR + HOUR - 1) = 59. Proof. digits. Qed.
Lemma up_second h : t_second (h * HOUR + HOUR - 1) = 59. Proof. digits. Qed.
Lemma up_nano h : t_nano (h * HOUR + HOUR - 1) = 999999999. Proof. digits. Qed.
Lemma lo_hour h : t_hour (h * HOUR) = h. Proof. digits. Qed.
Lemma lo_minute h : t_minute (h * HOUR) = 0. Proof. digits. Qed.
Lemma lo_second h : t_second (h * HOUR) = 0. Proof. digits. Qed.
Lemma lo_nano h : t_nano (h * HOUR) = 0. Proof. digits. Qed.

Lemma lower_eq : forall h, time_replace None (Some 0) None None (hm h) = h * HOUR.
Proof. intros. unfold time_replace, odef. rewrite hm_hour, hm_second, hm_nano. unfold time_of. lia. Qed.

Lemma upper_eq : forall h, time_replace None (Some 59) (Some 59) (Some 999999999) (hm h) = h * HOUR + HOUR - 1.
Proof. intros. unfold time_replace, odef. rewrite hm_hour. unfold time_of, HOUR, MINUTE, NS. lia. Qed.

Lemma hour_of_upper : forall x h, time_replace (Some x) None None None (h * HOUR + HOUR - 1) = x * HOUR + HOUR - 1.
Proof.
  intros. unfold time_replace, odef. rewrite up_minute, up_second, up_nano. unfold time_of, HOUR, MINUTE, NS. lia.
Qed.

Lemma hour_of_lower : forall x h, time_replace (Some x) None None None (h * HOUR) = x * HOUR.
Proof. intros. unfold time_replace, odef. rewrite lo_minute, lo_second, lo_nano. unfold time_of. lia. Qed.

(* the first (dt, time) of a list on which replace_time(..., disambiguate='raise') raises, and how *)
Fixpoint first_hit (z : tz) (L : list (Z * Z)) : option (Z * Z * bool) :=
  match L with
  | [] => None
  | (dt, t) :: r =>
      match replace_raise z (lday z dt) t with
      | RFine => first_hit z r
      | RSkippedT => Some (dt, t, true)
      | RRepeatedT => Some (dt, t, false)
      end
  end.

Definition dir (k : bool) : string := if k then "forward"%string else "backward"%string.

Lemma scan_loop : forall (W : world) (R X : Type) (body : Z * Z -> string -> ctl string (string * Z * Z) R X),
  (forall dt t s, body (dt, t) s = match sdt_replace_time_raise W dt t with
                                   | RFine => Next s
                                   | RSkippedT => Brk ("forward"%string, dt, t)
                                   | RRepeatedT => Brk ("backward"%string, dt, t)
                                   end) ->
  forall L s, for_each L body s =
              match first_hit (w_tz W) L with None => Next s | Some (dt, t, k) => Brk (dir k, dt, t) end.
Proof.
  intros W R X body Hb. induction L as [|[dt t] L IH]; intros s; cbn [for_each first_hit]; [reflexivity|].
  rewrite Hb. unfold sdt_replace_time_raise. fold (lday (w_tz W) dt).
  destruct (replace_raise (w_tz W) (lday (w_tz W) dt) t); [apply IH|reflexivity|reflexivity].
Qed.

Lemma first_hit_app : forall z l1 l2,
  first_hit z (l1 ++ l2) = match first_hit z l1 with Some h => Some h | None => first_hit z l2 end.
Proof.
  intros z. induction l1 as [|[dt t] l1 IH]; intros l2; cbn [app first_hit]; [reflexivity|].
  destruct (replace_raise z (lday z dt) t); [apply IH|reflexivity|reflexivity].
Qed.

Lemma first_hit_days : forall z h l,
  match first_hit z (hour_items l h) with
  | None => scan_days z (hm h) (map (lday z) l) = None
  | Some (dt, t, k) => t = hm h /\ scan_days z (hm h) (map (lday z) l) = Some (lday z dt, k)
  end.
Proof.
  intros z h. induction l as [|i l IH]; cbn [hour_items map first_hit scan_days]; [reflexivity|].
  destruct (replace_raise z (lday z i) (hm h)); [exact IH|split; reflexivity|split; reflexivity].
Qed.

Lemma first_hit_hours : forall z l hours,
  match first_hit z (flat_map (hour_items l) hours) with
  | None => scan_hours z hours (map (lday z) l) = None
  | Some (dt, t, k) => exists h, t = hm h /\ scan_hours z hours (map (lday z) l) = Some (lday z dt, h, k)
  end.
Proof.
  intros z l. induction hours as [|h hours IH]; cbn [flat_map first_hit scan_hours]; [reflexivity|].
  rewrite first_hit_app. rewrite <- hm_eq. pose proof (first_hit_days z h l) as Hd.
  destruct (first_hit z (hour_items l h)) as [[[dt t] k]|].
  - destruct Hd as [-> Hd]. rewrite Hd. exists h. split; reflexivity.
  - rewrite Hd. exact IH.
Qed.

Lemma first_hit_months : forall z year rv months L,
  date_items z year (hour_seq rv) months = Some L ->
  match first_hit z L with
  | None => scan_months z year rv months = Ok None
  | Some (dt, t, k) => exists h, t = hm h /\ scan_months z year rv months = Ok (Some (lday z dt, h, k))
  end.
Proof.
  intros z year rv. induction months as [|m months IH]; intros L HL; cbn [date_items scan_months] in *.
  - injection HL as <-. reflexivity.
  - rewrite month_days_insts. destruct (month_insts z year m) as [l|]; [|discriminate HL].
    destruct (date_items z year (hour_seq rv) months) as [rest|]; [|discriminate HL].
    injection HL as <-. cbn [option_map]. rewrite first_hit_app.
    pose proof (first_hit_hours z l (hour_seq rv)) as Hh. specialize (IH rest eq_refl).
    destruct (first_hit z (flat_map (hour_items l) (hour_seq rv))) as [[[dt t] k]|].
    + destruct Hh as [h [-> Hh]]. rewrite Hh. exists h. split; reflexivity.
    + rewrite Hh. exact IH.
Qed.

Definition ft_conv (r : ft_res) : ftval :=
  match r with FtFalse => FBool false | FtTrue => FBool true | FtFound f lo up => FTuple (dir f) lo up end.

(* all months of the scan order have a walk on the world's table *)
Definition walkable (W : world) (rv : bool) : Prop :=
  exists L, date_items (w_tz W) (wyear W) (hour_seq rv) (month_seq rv) = Some L.

Theorem gen_find_time_spec : forall W rv,
  match date_items (w_tz W) (wyear W) (hour_seq rv) (month_seq rv) with
  | None => g_find_time W rv = OStuck
  | Some _ => exists r, find_time (w_tz W) (wyear W) rv = Ok r /\ g_find_time W rv = ORet (ft_conv r)
  end.
Proof.
  intros W rv. unfold g_find_time. cbv zeta. rewrite gen_iter_date.
  destruct (date_items (w_tz W) (wyear W) (hour_seq rv) (month_seq rv)) as [L|] eqn:EL; [|reflexivity].
  erewrite (scan_loop W); [|intros dt t s; reflexivity].
  pose proof (first_hit_months _ _ _ _ _ EL) as Hm. unfold find_time.
  destruct (first_hit (w_tz W) L) as [[[dt t] k]|].
  2:{ rewrite Hm. exists FtFalse. split; reflexivity. }
  destruct Hm as [h [-> Hm]]. rewrite Hm. cbv zeta.
  rewrite lower_eq, upper_eq, up_hour, lo_hour, hour_of_upper, hour_of_lower.
  cbn [for_each]. unfold sdt_replace_time_raise, is_fine. fold (lday (w_tz W) dt).
  destruct (replace_raise (w_tz W) (lday (w_tz W) dt) (h * HOUR)); cbn [orb];
    try (exists FtTrue; split; reflexivity).
  all: destruct (replace_raise (w_tz W) (lday (w_tz W) dt) (h * HOUR + HOUR - 1)); cbn [orb];
    try (exists FtTrue; split; reflexivity).
  all: destruct (replace_raise (w_tz W) (lday (w_tz W) dt) ((if 1 <=? h then h - 1 else 23) * HOUR + HOUR - 1));
    cbn [orb negb]; try (exists FtTrue; split; reflexivity).
  all: destruct (replace_raise (w_tz W) (lday (w_tz W) dt) ((if h <? 23 then h + 1 else 0) * HOUR));
    cbn [orb negb]; try (exists FtTrue; split; reflexivity).
  all: exists (FtFound k (h * HOUR) (h * HOUR + HOUR - 1)); split; destruct k; reflexivity.
Qed.

(* ------------------------------------------------------------------------------------------- *)
(* 4. _setup and check_dst_handling: the model over an arbitrary find_time, so that the table cut of Dst.v is an
      instance *)
Definition setup_round_on (ft : bool -> result ft_res) (g : globals) (reverse : bool)
           (k : globals -> globals * result unit) : globals * result unit :=
  match ft reverse with
  | OutOfFuel => (g, OutOfFuel)
  | Raise e => (g, Raise e)
  | Ok FtFalse => (g_both false, Ok tt)
  | Ok FtTrue => (g_both true, Ok tt)
  | Ok (FtFound f lo up) =>
      match apply_found g f lo up with
      | Ok g' => k g'
      | Raise e => (g, Raise e)
      | OutOfFuel => (g, OutOfFuel)
      end
  end.

Definition setup_on (ft : bool -> result ft_res) (g : globals) : globals * result unit :=
  setup_round_on ft g false (fun g1 => setup_round_on ft g1 true (fun g2 => (g2, Ok tt))).

Definition ensure_setup_on (ft : bool -> result ft_res) (g : globals) : globals * result unit :=
  match g_fwd g, g_bwd g with
  | Some _, Some _ => (g, Ok tt)
  | _, _ => setup_on ft g
  end.

Definition check_on (ft : bool -> result ft_res) (g : globals) (t : Z)
           (forward : option skipped_pol) (backward : option repeated_pol) : globals * result pols :=
  match forward, backward with
  | Some f, Some b => (g, Ok (f, b))
  | _, _ =>
      match ensure_setup_on ft g with
      | (g1, Ok _) => (g1, decide g1 t forward backward)
      | (g1, Raise e) => (g1, Raise e)
      | (g1, OutOfFuel) => (g1, OutOfFuel)
      end
  end.

Lemma setup_on_window : forall z year g, setup_on (find_time_y z year) g = setup z year g.
Proof. reflexivity. Qed.
Lemma check_on_window : forall z year g t f b,
  check_on (find_time_y z year) g t f b = check_dst_handling z year g t f b.
Proof. reflexivity. Qed.

(* exceptions of the generated code as the model's error enum *)
Definition exn_err (e : dexn) : err :=
  match e with XValue => EValueError | XType => ETypeError | _ => EOther end.

Definition wft (W : world) : bool -> result ft_res := find_time (w_tz W) (wyear W).

Definition setup_conv (o : out (globals * unit) (globals * dexn)) : globals * result unit :=
  match o with
  | ORet (g, _) => (g, Ok tt)
  | OExc (g, e) => (g, Raise (exn_err e))
  | OStuck => (g0, OutOfFuel)
  end.

Lemma dir_forward : forall k, String.eqb (dir k) "forward" = k.
Proof. destruct k; reflexivity. Qed.
Lemma dir_backward : forall k, String.eqb (dir k) "backward" = negb k.
Proof. destruct k; reflexivity. Qed.

Theorem gen_setup_agrees : forall W g,
  g_setup W g <> OStuck -> setup_on (wft W) g = setup_conv (g_setup W g).
Proof.
  intros W [gf gb]. unfold g_setup, setup_on, setup_round_on, wft. cbv zeta. cbn [for_each].
  pose proof (gen_find_time_spec W false) as H1.
  destruct (date_items (w_tz W) (wyear W) (hour_seq false) (month_seq false));
    [|rewrite H1; intros H; exfalso; apply H; reflexivity].
  destruct H1 as [r1 [E1 ->]]. rewrite E1.
  destruct r1 as [| |f1 lo1 up1]; cbn [ft_conv]; try (intros _; reflexivity).
  rewrite dir_forward, dir_backward. unfold apply_found, set_fwd, set_bwd. cbn [g_fwd g_bwd].
  pose proof (gen_find_time_spec W true) as H2.
  destruct f1; cbn [negb].
  - destruct gf as [F|]; cbn [is_none negb]; [intros _; reflexivity|].
    destruct (date_items (w_tz W) (wyear W) (hour_seq true) (month_seq true));
      [|rewrite H2; intros H; exfalso; apply H; reflexivity].
    destruct H2 as [r2 [E2 ->]]. rewrite E2.
    destruct r2 as [| |f2 lo2 up2]; cbn [ft_conv]; try (intros _; reflexivity).
    rewrite dir_forward, dir_backward.
    destruct f2; cbn [negb g_fwd g_bwd is_none]; [intros _; reflexivity|].
    destruct gb as [Bw|]; cbn [is_none negb]; intros _; reflexivity.
  - destruct gb as [Bw|]; cbn [is_none negb]; [intros _; reflexivity|].
    destruct (date_items (w_tz W) (wyear W) (hour_seq true) (month_seq true));
      [|rewrite H2; intros H; exfalso; apply H; reflexivity].
    destruct H2 as [r2 [E2 ->]]. rewrite E2.
    destruct r2 as [| |f2 lo2 up2]; cbn [ft_conv]; try (intros _; reflexivity).
    rewrite dir_forward, dir_backward.
    destruct f2; cbn [negb g_fwd g_bwd is_none]; [|intros _; reflexivity].
    destruct gf as [F|]; cbn [is_none negb]; intros _; reflexivity.
Qed.

Theorem gen_required : forall W r t, g_required W r t = ORet (required r t).
Proof. intros W [b|lo up] t; reflexivity. Qed.

Definition check_conv (o : out (globals * (option skipped_pol * option repeated_pol)) (globals * dexn))
  : globals * result pols :=
  match o with
  | ORet (g, (Some f, Some b)) => (g, Ok (f, b))
  | ORet (g, _) => (g, Raise EOther)
  | OExc (g, e) => (g, Raise (exn_err e))
  | OStuck => (g0, OutOfFuel)
  end.

Theorem gen_check_agrees : forall W g t f b,
  g_check_dst_handling W g t f b <> OStuck ->
  check_on (wft W) g t f b = check_conv (g_check_dst_handling W g t f b).
Proof.
  intros W [gf gb] t f b. unfold g_check_dst_handling, check_on, ensure_setup_on. cbv zeta.
  destruct f as [sf|]; destruct b as [sb|]; cbn [is_none negb andb]; try (intros _; reflexivity).
  all: cbn [g_fwd g_bwd].
  all: destruct gf as [F|]; [destruct gb as [B|]|]; cbn [is_none orb].
  all: try (intros _; cbn [g_fwd g_bwd is_none]; rewrite ?gen_required; unfold decide; cbn [g_fwd g_bwd];
            repeat match goal with |- context [required ?r ?t0] => destruct (required r t0) end; reflexivity).
  all: match goal with |- context [g_setup ?W0 ?g] =>
         pose proof (gen_setup_agrees W0 g) as Hs; destruct (g_setup W0 g) as [[[gf' gb'] u]|[g' e]|] end;
       [|intros _; rewrite Hs by discriminate; reflexivity|intros H; exfalso; apply H; reflexivity].
  all: rewrite Hs by discriminate; cbn [setup_conv g_fwd g_bwd].
  all: destruct gf' as [F'|]; [destruct gb' as [B'|]|]; cbn [is_none negb];
       try (intros _; unfold decide; cbn [g_fwd g_bwd]; reflexivity).
  all: intros _; cbn [g_fwd g_bwd is_none]; rewrite ?gen_required; unfold decide; cbn [g_fwd g_bwd];
       repeat match goal with |- context [required ?r ?t0] => destruct (required r t0) end; reflexivity.
Qed.

(* ------------------------------------------------------------------------------------------- *)
(* 5. the generated code on the table cut of Dst.v: the theorems of DstFacts.v *)
Definition wworld (z : tz) (year now : Z) : world := {| w_tz := window z year; w_now := now |}.
(* the clock shows [year] (SystemDateTime.now().year, read on the world's table) *)
Definition clock_in (z : tz) (year now : Z) : Prop := wyear (wworld z year now) = year.

Lemma wft_window : forall z year now, clock_in z year now -> wft (wworld z year now) = find_time_y z year.
Proof. intros z year now H. unfold wft, find_time_y. rewrite H. reflexivity. Qed.

Theorem gen_setup_is_model : forall z year now g,
  clock_in z year now -> g_setup (wworld z year now) g <> OStuck ->
  setup z year g = setup_conv (g_setup (wworld z year now) g).
Proof.
  intros z year now g Hc Hn. rewrite <- setup_on_window, <- (wft_window z year now Hc).
  apply gen_setup_agrees. exact Hn.
Qed.

Theorem gen_check_is_model : forall z year now g t f b,
  clock_in z year now -> g_check_dst_handling (wworld z year now) g t f b <> OStuck ->
  check_dst_handling z year g t f b = check_conv (g_check_dst_handling (wworld z year now) g t f b).
Proof.
  intros z year now g t f b Hc Hn. rewrite <- check_on_window, <- (wft_window z year now Hc).
  apply gen_check_agrees. exact Hn.
Qed.

(* the module globals after any sequence of calls of the GENERATED check_dst_handling in a fresh module (a call may
   return or raise; a stuck call is no call of the implementation) *)
Inductive gen_reachable (W : world) : globals -> Prop :=
  | gr_fresh : gen_reachable W g_globals0
  | gr_ret : forall g t f b g' v, gen_reachable W g ->
             g_check_dst_handling W g t f b = ORet (g', v) -> gen_reachable W g'
  | gr_exc : forall g t f b g' e, gen_reachable W g ->
             g_check_dst_handling W g t f b = OExc (g', e) -> gen_reachable W g'.

Lemma gen_reachable_model : forall z year now g,
  clock_in z year now -> gen_reachable (wworld z year now) g -> reachable z year g.
Proof.
  intros z year now g Hc H. induction H as [|g t f b g' v _ IH E|g t f b g' e _ IH E].
  - apply reach_fresh.
  - pose proof (gen_check_is_model z year now g t f b Hc) as Hm. rewrite E in Hm.
    specialize (Hm ltac:(discriminate)).
    replace g' with (fst (check_dst_handling z year g t f b)); [apply reach_call; exact IH|].
    rewrite Hm. destruct v as [[x|] [y|]]; reflexivity.
  - pose proof (gen_check_is_model z year now g t f b Hc) as Hm. rewrite E in Hm.
    specialize (Hm ltac:(discriminate)).
    replace g' with (fst (check_dst_handling z year g t f b)); [apply reach_call; exact IH|].
    rewrite Hm. reflexivity.
Qed.

Theorem gen_both_given_verbatim : forall W g t f b,
  g_check_dst_handling W g t (Some f) (Some b) = ORet (g, (Some f, Some b)).
Proof. reflexivity. Qed.

(* what a normal return of the generated function means for the model *)
Lemma gen_ret_model : forall z year now g t f b g' x y,
  clock_in z year now -> gen_reachable (wworld z year now) g ->
  g_check_dst_handling (wworld z year now) g t f b = ORet (g', (x, y)) ->
  exists sf sb, x = Some sf /\ y = Some sb /\ check_dst_handling z year g t f b = (g', Ok (sf, sb)).
Proof.
  intros z year now g t f b g' x y Hc Hr E.
  pose proof (gen_check_is_model z year now g t f b Hc) as Hm. rewrite E in Hm. specialize (Hm ltac:(discriminate)).
  destruct x as [sf|]; [destruct y as [sb|]|].
  - exists sf, sb. repeat split. exact Hm.
  - exfalso. cbn [check_conv] in Hm.
    pose proof (reject_is_value_error z year g t f b g' EOther (gen_reachable_model z year now g Hc Hr) Hm) as Hv.
    discriminate Hv.
  - exfalso. assert (Hm' : check_dst_handling z year g t f b = (g', Raise EOther)) by (destruct y; exact Hm).
    pose proof (reject_is_value_error z year g t f b g' EOther (gen_reachable_model z year now g Hc Hr) Hm') as Hv.
    discriminate Hv.
Qed.

Theorem gen_accept_sound : forall z year now,
  clock_in z year now -> dst_sweep z year = true ->
  forall g tod g' r, 0 <= tod < DAY -> gen_reachable (wworld z year now) g ->
  g_check_dst_handling (wworld z year now) g tod None None = ORet (g', r) ->
  forall day, in_year year day -> exists i, candidates z (day * DAY + tod) = [i].
Proof.
  intros z year now Hc Hs g tod g' [x y] Htod Hr E day Hy.
  destruct (gen_ret_model z year now g tod None None g' x y Hc Hr E) as [sf [sb [_ [_ Hm]]]].
  apply (accept_sound_by_sweep z year Hs tod Htod); [|exact Hy].
  exists g. split; [exact (gen_reachable_model z year now g Hc Hr)|]. exists g', (sf, sb). exact Hm.
Qed.

Theorem gen_accept_sound_one_policy : forall z year now,
  clock_in z year now -> dst_sweep_each z year = true ->
  forall g tod g' r, 0 <= tod < DAY -> gen_reachable (wworld z year now) g ->
  (forall sf, g_check_dst_handling (wworld z year now) g tod (Some sf) None = ORet (g', r) ->
     forall day, in_year year day -> (List.length (candidates z (day * DAY + tod)) <= 1)%nat) /\
  (forall sb, g_check_dst_handling (wworld z year now) g tod None (Some sb) = ORet (g', r) ->
     forall day, in_year year day -> candidates z (day * DAY + tod) <> []).
Proof.
  intros z year now Hc Hs g tod g' [x y] Htod Hr.
  destruct (accept_sound_each z year Hs tod Htod) as [Hf Hb]. split.
  - intros sf E. destruct (gen_ret_model z year now g tod (Some sf) None g' x y Hc Hr E) as [f' [b' [_ [_ Hm]]]].
    apply Hf. exists g, sf. split; [exact (gen_reachable_model z year now g Hc Hr)|]. exists g', (f', b'). exact Hm.
  - intros sb E. destruct (gen_ret_model z year now g tod None (Some sb) g' x y Hc Hr E) as [f' [b' [_ [_ Hm]]]].
    apply Hb. exists g, sb. split; [exact (gen_reachable_model z year now g Hc Hr)|]. exists g', (f', b'). exact Hm.
Qed.

Theorem gen_affected_rejected : forall z year now,
  clock_in z year now -> dst_sweep z year = true ->
  forall tod day, 0 <= tod < DAY -> in_year year day ->
  (forall i, candidates z (day * DAY + tod) <> [i]) ->
  forall g, gen_reachable (wworld z year now) g ->
  forall g' r, g_check_dst_handling (wworld z year now) g tod None None <> ORet (g', r).
Proof.
  intros z year now Hc Hs tod day Htod Hy Hn g Hr g' r E.
  destruct (gen_accept_sound z year now Hc Hs g tod g' r Htod Hr E day Hy) as [i Hi]. exact (Hn i Hi).
Qed.

Theorem gen_accept_defaults : forall z year now g tod g' r,
  clock_in z year now -> gen_reachable (wworld z year now) g ->
  g_check_dst_handling (wworld z year now) g tod None None = ORet (g', r) -> r = (Some SkAfter, Some RpEarlier).
Proof.
  intros z year now g tod g' [x y] Hc Hr E.
  destruct (gen_ret_model z year now g tod None None g' x y Hc Hr E) as [sf [sb [-> [-> Hm]]]].
  pose proof (accept_defaults z year g tod g' (sf, sb) (gen_reachable_model z year now g Hc Hr) Hm) as Hd.
  injection Hd as -> ->. reflexivity.
Qed.

Theorem gen_returns_policies : forall z year now g t f b g' x y,
  clock_in z year now -> gen_reachable (wworld z year now) g ->
  g_check_dst_handling (wworld z year now) g t f b = ORet (g', (x, y)) -> exists sf sb, x = Some sf /\ y = Some sb.
Proof.
  intros z year now g t f b g' x y Hc Hr E.
  destruct (gen_ret_model z year now g t f b g' x y Hc Hr E) as [sf [sb [Hx [Hy _]]]]. exists sf, sb. split; assumption.
Qed.

Theorem gen_reject_is_value_error : forall z year now g t f b g' e,
  clock_in z year now -> gen_reachable (wworld z year now) g ->
  g_check_dst_handling (wworld z year now) g t f b = OExc (g', e) -> e = XValue.
Proof.
  intros z year now g t f b g' e Hc Hr E.
  pose proof (gen_check_is_model z year now g t f b Hc) as Hm. rewrite E in Hm. specialize (Hm ltac:(discriminate)).
  cbn [check_conv] in Hm.
  pose proof (reject_is_value_error z year g t f b g' _ (gen_reachable_model z year now g Hc Hr) Hm) as Hv.
  destruct e; try discriminate Hv; reflexivity.
Qed.

(* ------------------------------------------------------------------------------------------- *)
(* 5a. [clock_in] from the FULL table: inside the cut the cut table shows the same offsets *)
Fixpoint asc_tr (prev : Z) (l : list (Z * Z)) : Prop :=
  match l with [] => True | (t, _) :: r => prev < t /\ asc_tr t r end.

Lemma spaced_asc : forall l prev, spaced prev l = true -> asc_tr prev l.
Proof.
  induction l as [|[t o] r IH]; intros prev H; cbn [spaced asc_tr] in *; [exact I|].
  apply andb_true_iff in H. destruct H as [H1 H2]. apply Z.leb_le in H1. split; [unfold DAY, NS in H1; lia|].
  apply IH. exact H2.
Qed.

Definition in_cut (lo hi : Z) (tr : Z * Z) : bool := (lo <=? fst tr) && (fst tr <? hi).

Lemma cut_late : forall l prev lo hi, asc_tr prev l -> hi <= prev -> filter (in_cut lo hi) l = [].
Proof.
  induction l as [|[t o] r IH]; intros prev lo hi Ha Hp; cbn [filter asc_tr] in *; [reflexivity|].
  destruct Ha as [H1 H2]. unfold in_cut at 1. cbn [fst].
  replace (t <? hi) with false by (symmetry; apply Z.ltb_ge; lia). rewrite andb_false_r.
  apply (IH t); [exact H2|lia].
Qed.

Lemma cut_inside : forall l prev cur lo hi i, asc_tr prev l -> lo <= prev -> i < hi ->
  offset_from cur (filter (in_cut lo hi) l) i = offset_from cur l i.
Proof.
  induction l as [|[t o] r IH]; intros prev cur lo hi i Ha Hp Hi; cbn [filter asc_tr offset_from] in *; [reflexivity|].
  destruct Ha as [H1 H2]. unfold in_cut at 1. cbn [fst].
  replace (lo <=? t) with true by (symmetry; apply Z.leb_le; lia). cbn [andb].
  destruct (Z.ltb_spec t hi) as [Hth|Hth].
  - cbn [offset_from]. destruct (i <? t); [reflexivity|]. apply (IH t); [exact H2|lia|exact Hi].
  - rewrite (cut_late r t lo hi H2 Hth). cbn [offset_from].
    replace (i <? t) with true by (symmetry; apply Z.ltb_lt; lia). reflexivity.
Qed.

Lemma cut_offset : forall l prev cur lo hi i, asc_tr prev l -> lo <= i < hi ->
  offset_from (offset_from cur l (lo - 1)) (filter (in_cut lo hi) l) i = offset_from cur l i.
Proof.
  induction l as [|[t o] r IH]; intros prev cur lo hi i Ha Hi; cbn [filter asc_tr offset_from] in *; [reflexivity|].
  destruct Ha as [H1 H2]. unfold in_cut at 1. cbn [fst].
  destruct (Z.leb_spec lo t) as [Hlt|Hlt]; cbn [andb].
  - replace (lo - 1 <? t) with true by (symmetry; apply Z.ltb_lt; lia).
    destruct (Z.ltb_spec t hi) as [Hth|Hth].
    + cbn [offset_from]. destruct (i <? t); [reflexivity|]. apply (cut_inside r t); [exact H2|lia|lia].
    + rewrite (cut_late r t lo hi H2 Hth). cbn [offset_from].
      replace (i <? t) with true by (symmetry; apply Z.ltb_lt; lia). reflexivity.
  - replace (lo - 1 <? t) with false by (symmetry; apply Z.ltb_ge; lia).
    replace (i <? t) with false by (symmetry; apply Z.ltb_ge; lia).
    apply (IH t); [exact H2|exact Hi].
Qed.

Theorem window_offset : forall z year i,
  spaced_list (tz_trans z) = true ->
  days_from_civil (year - 1) 1 1 * DAY <= i < days_from_civil (year + 2) 1 1 * DAY ->
  offset_at (window z year) i = offset_at z i.
Proof.
  intros z year i Hs Hi. unfold offset_at, window. cbn [tz_init tz_trans]. unfold offset_at.
  destruct (tz_trans z) as [|[t o] r] eqn:E; [reflexivity|].
  apply (cut_offset ((t, o) :: r) (t - 1)); [|exact Hi].
  cbn [asc_tr]. split; [lia|]. apply spaced_asc. exact Hs.
Qed.

(* the clock of the implementation (full table) shows [year], at an instant inside the cut *)
Theorem clock_in_full : forall z year now,
  spaced_list (tz_trans z) = true ->
  days_from_civil (year - 1) 1 1 * DAY <= now < days_from_civil (year + 2) 1 1 * DAY ->
  local_year (to_local z now) = year -> clock_in z year now.
Proof.
  intros z year now Hs Hi Hy. unfold clock_in, wyear, sdt_year, sdt_now, wworld. cbn [w_tz w_now].
  unfold to_local. rewrite (window_offset z year now Hs Hi). exact Hy.
Qed.

(* ------------------------------------------------------------------------------------------- *)
(* 6. the hypotheses are satisfiable: Europe/Berlin, clock at 2025-06-15T15:06:40Z *)
Definition ex_now : Z := 1750000000 * NS.

Example berlin_clock : clock_in ex_berlin 2025 ex_now.
Proof. vm_compute. reflexivity. Qed.

Example berlin_gen_setup :
  g_setup (wworld ex_berlin 2025 ex_now) g_globals0
  = ORet ({| g_fwd := Some (RDate (2 * HOUR) (3 * HOUR - 1)); g_bwd := Some (RDate (2 * HOUR) (3 * HOUR - 1)) |}, tt).
Proof.
  vm_cast_no_check (@eq_refl (out (globals * unit) (globals * dexn))
    (ORet ({| g_fwd := Some (RDate (2 * HOUR) (3 * HOUR - 1)); g_bwd := Some (RDate (2 * HOUR) (3 * HOUR - 1)) |}, tt))).
Qed.

Example berlin_gen_accepts_noon :
  exists g', g_check_dst_handling (wworld ex_berlin 2025 ex_now) g_globals0 (12 * HOUR) None None
             = ORet (g', (Some SkAfter, Some RpEarlier)).
Proof.
  eexists. unfold g_check_dst_handling, g_globals0. cbv zeta. cbn [is_none negb andb orb g_fwd g_bwd].
  change {| g_fwd := None; g_bwd := None |} with g_globals0. rewrite berlin_gen_setup. vm_compute. reflexivity.
Qed.

Example berlin_gen_rejects_0230 :
  exists g', g_check_dst_handling (wworld ex_berlin 2025 ex_now) g_globals0 (2 * HOUR + 30 * MINUTE) None None
             = OExc (g', XValue).
Proof.
  eexists. unfold g_check_dst_handling, g_globals0. cbv zeta. cbn [is_none negb andb orb g_fwd g_bwd].
  change {| g_fwd := None; g_bwd := None |} with g_globals0. rewrite berlin_gen_setup. vm_compute. reflexivity.
Qed.

Print Assumptions gen_check_agrees.
Print Assumptions gen_accept_sound.
Print Assumptions gen_accept_sound_one_policy.
Print Assumptions gen_reject_is_value_error.
