(* GenRtTaskMgr.v — what the code generated from src/eascheduler/task_managers/{sequential,parallel}.py
   (coq/gen/GenTaskMgr.v, written by tools/gen_taskmgr.py on every run) is expressed in.  No proofs here
   (GenTaskMgrEq.v).  Everything in this file is TRUSTED: it says what the Python / asyncio primitives that the
   managers use mean on the state of TaskMgr.v.

   A Python method of a manager class becomes   <config> -> <arguments> -> st -> st * res <return type>:
     * [st] = the model's [state] (TaskMgr.v) plus the table [regs] of done-callback registrations made with
       Task.add_done_callback (the model has no such table: it runs [done_cb m] at every [HDone] handle;
       GenTaskMgrEq.v proves that the generated code registers exactly that callback on exactly the tasks it
       creates);
     * [Ret v] = the method returned v, [Exc e] = it raised e (the exception propagates to the caller);
     * coroutine objects, the tasks that wrap them, task names and de-duplication keys are numbers; a task is
       identified with the coroutine it wraps; the tuple (coro, name) is a pair;
     * the `Final` attributes assigned in __init__ from constructor arguments (max_queue / parallel / action) are
       parameters of every generated function of the class; policies are enum members ([spol] / [ppol]).
   There is no recursion among the translated methods, so there is no fuel. *)
From EAS Require Import Base TaskMgr.
Open Scope nat_scope.

Inductive gexn :=
  | XIndex                 (* IndexError: pop from an empty deque *)
  | XValue                 (* ValueError: deque.remove(x): x not in deque; `raise ValueError()` *)
  | XKey                   (* KeyError: OrderedDict.popitem() on an empty dictionary *)
  | XNotImplemented        (* `raise NotImplementedError()` *)
  | XAttribute.            (* a callback that the class does not have *)

Inductive res (A : Type) := Ret (v : A) | Exc (e : gexn).
Arguments Ret {A} v.
Arguments Exc {A} e.

(* what can be handed to Task.add_done_callback: the bound methods the managers use *)
Inductive cbid :=
  | CbTaskDone             (* self._task_done *)
  | CbTasksDiscard         (* self.tasks.discard   (self.tasks a set) *)
  | CbRemoveTask.          (* self._remove_task *)

Record st := mkrt { ms : state; regs : list (nat * cbid) }.
Definition M (A : Type) : Type := (st * res A)%type.

Definition on_ms (f : state -> state) (s : st) : st := mkrt (f (ms s)) (regs s).

Definition is_nil {A} (l : list A) : bool := match l with [] => true | _ :: _ => false end.

Definition spol_eqb (a b : spol) : bool :=
  match a, b with SSkip, SSkip | SSkipFirst, SSkipFirst | SSkipLast, SSkipLast => true | _, _ => false end.
Definition ppol_eqb (a b : ppol) : bool :=
  match a, b with PSkip, PSkip | PCancelFirst, PCancelFirst | PCancelLast, PCancelLast => true | _, _ => false end.

(* a callback's return value is ignored by the loop *)
Definition ignore_ret {A} (m : M A) : M unit :=
  match m with (s, Ret _) => (s, Ret tt) | (s, Exc e) => (s, Exc e) end.

(* ------------------------------------------------------------------------------------------- *)
(* ghost: entering the public create_task(coro[, key]) writes the model's submission log.  For the managers
   without a key parameter the second component is the task name (the model's [Submit c k] carries one number) *)
Definition rt_enter_create_task (c k : nat) (s : st) : st := on_ms (fun m => log_sub m c k) s.

(* self.task  (sequential managers) *)
Definition rt_task (s : st) : option nat := running (ms s).
Definition rt_set_task (v : option nat) (s : st) : st := on_ms (fun m => set_running m v) s.

(* self.queue as a deque of (coro, name): the model's [queue]; a coroutine that is put into the queue gets the
   ghost phase [Queued] *)
Definition rt_queue (s : st) : list (nat * nat) := queue (ms s).
Definition rt_set_queue (q : list (nat * nat)) (s : st) : st := on_ms (fun m => set_queue m q) s.
Definition rt_queue_append (e : nat * nat) (s : st) : st :=
  on_ms (fun m => set_queue (set_ph m (upd (ph m) (fst e) Queued)) (queue m ++ [e])) s.

(* self.queue as an OrderedDict key -> (coro, name): the model's [queue] holds (coro, key) in insertion order;
   task names are not kept (they have no effect in the model: [spawn] ignores them) and read back as [noname] *)
Definition noname : nat := 0.
Definition od_item (e : nat * nat) : nat * (nat * nat) := (snd e, (fst e, noname)).    (* (key, (coro, name)) *)
(* d.pop(key, None) *)
Definition rt_od_pop (k : nat) (s : st) : st * option (nat * nat) :=
  match take_key k (queue (ms s)) with
  | (Some c, q) => (rt_set_queue q s, Some (c, noname))
  | (None, _) => (s, None)
  end.
(* d[key] = (coro, name): an existing key keeps its position, a new key goes to the end *)
Fixpoint od_set (k c : nat) (q : list (nat * nat)) : list (nat * nat) :=
  match q with
  | [] => [(c, k)]
  | (c', k') :: t => if Nat.eqb k' k then (c, k) :: t else (c', k') :: od_set k c t
  end.
Definition rt_od_set (k : nat) (e : nat * nat) (s : st) : st :=
  on_ms (fun m => set_queue (set_ph m (upd (ph m) (fst e) Queued)) (od_set k (fst e) (queue m))) s.

(* self.tasks (parallel managers): the model's [tracked]; a set is kept in insertion order (no operation of the
   managers depends on the order of a set) *)
Definition rt_tasks (s : st) : list nat := tracked (ms s).
Definition rt_set_tasks (l : list nat) (s : st) : st := on_ms (fun m => set_tracked m l) s.
Definition rt_tasks_append (t : nat) (s : st) : st := on_ms (fun m => set_tracked m (tracked m ++ [t])) s.   (* deque.append *)
Definition rt_tasks_add (t : nat) (s : st) : st :=                                                          (* set.add *)
  on_ms (fun m => if memb t (tracked m) then m else set_tracked m (tracked m ++ [t])) s.
Definition rt_tasks_discard (t : nat) (s : st) : st :=                                                      (* set.discard *)
  on_ms (fun m => set_tracked m (remove_first t (tracked m))) s.

(* asyncio.create_task(coro, name=...): the task is the coroutine's number *)
Definition rt_spawn (c : nat) (s : st) : st := on_ms (fun m => spawn m c) s.
(* coro.close() on a coroutine that was never started *)
Definition rt_close (c : nat) (s : st) : st := on_ms (fun m => close m c) s.
(* task.cancel() executed by manager code: Task.cancel() of the model, and the ghost log "cancelled by the manager" *)
Definition rt_cancel (t : nat) (s : st) : st := on_ms (fun m => task_cancel (set_mcanc m (mcanc m ++ [t])) t) s.
(* task.add_done_callback(cb) *)
Definition rt_add_done_callback (t : nat) (cb : cbid) (s : st) : st := mkrt (ms s) (regs s ++ [(t, cb)]).
(* task.cancelled() / task.done() *)
Definition rt_cancelled (t : nat) (s : st) : bool :=
  match ph (ms s) t with Done DCanc | Processed DCanc => true | _ => false end.
Definition rt_done (t : nat) (s : st) : bool :=
  match ph (ms s) t with Done _ | Processed _ => true | _ => false end.
