(* Base.v — shared definitions: error enum, result type, bounded loops with early exit,
   small list utilities.  Stdlib only.  No proofs about the system live here. *)
From Coq Require Export ZArith List Bool Lia ZifyBool.
Export ListNotations.
Open Scope Z_scope.

Ltac Zify.zify_post_hook ::= Z.to_euclidean_division_equations.

(* ------------------------------------------------------------------------------------------- *)
(* Exceptions of the implementation, mapped to a small enum (the harness maps the same way).   *)
Inductive err :=
  | EPast            (* ScheduledRunInThePastError *)
  | EAlreadyFinished (* JobAlreadyFinishedError *)
  | ENotLinked       (* JobNotLinkedToSchedulerError *)
  | ENotSet          (* JobExecutionTimeIsNotSetError *)
  | EKeyError
  | EValueError
  | ETypeError
  | EInfiniteLoop    (* InfiniteLoopDetectedError *)
  | ELocationNotSet
  | EUser            (* an exception raised by injected user code (callable, callback, trigger) *)
  | EOther.

Definition err_eqb (a b : err) : bool :=
  match a, b with
  | EPast, EPast | EAlreadyFinished, EAlreadyFinished | ENotLinked, ENotLinked | ENotSet, ENotSet
  | EKeyError, EKeyError | EValueError, EValueError | ETypeError, ETypeError
  | EInfiniteLoop, EInfiniteLoop | ELocationNotSet, ELocationNotSet | EUser, EUser | EOther, EOther => true
  | _, _ => false
  end.

Inductive result (A : Type) :=
  | Ok (a : A)
  | Raise (e : err)
  | OutOfFuel.        (* the model ran out of its explicit fuel: never a normal-looking value *)
Arguments Ok {A} a.
Arguments Raise {A} e.
Arguments OutOfFuel {A}.

Definition result_eqb {A} (eqb : A -> A -> bool) (x y : result A) : bool :=
  match x, y with
  | Ok a, Ok b => eqb a b
  | Raise e, Raise f => err_eqb e f
  | OutOfFuel, OutOfFuel => true
  | _, _ => false
  end.

(* ------------------------------------------------------------------------------------------- *)
(* Bounded loop with early exit.  [iter_until p f s] runs [f] at most [Pos.to_nat p] times,
   threading the state through [inl] and stopping at the first [inr].  Structural on the binary
   representation, so 10^5 rounds are cheap under vm_compute.                                   *)
Fixpoint iter_until {St Rt : Type} (p : positive) (f : St -> St + Rt) (s : St) : St + Rt :=
  match p with
  | xH => f s
  | xO p' => match iter_until p' f s with
             | inl s' => iter_until p' f s'
             | inr r => inr r
             end
  | xI p' => match f s with
             | inl s' => match iter_until p' f s' with
                         | inl s'' => iter_until p' f s''
                         | inr r => inr r
                         end
             | inr r => inr r
             end
  end.

Fixpoint iter_nat {St Rt : Type} (n : nat) (f : St -> St + Rt) (s : St) : St + Rt :=
  match n with
  | O => inl s
  | S n' => match f s with
            | inl s' => iter_nat n' f s'
            | inr r => inr r
            end
  end.

(* ------------------------------------------------------------------------------------------- *)
(* Lists *)
Fixpoint remove_first (x : nat) (l : list nat) : list nat :=
  match l with
  | [] => []
  | y :: t => if Nat.eqb x y then t else y :: remove_first x t
  end.

Fixpoint memb (x : nat) (l : list nat) : bool :=
  match l with
  | [] => false
  | y :: t => Nat.eqb x y || memb x t
  end.

Fixpoint zmemb (x : Z) (l : list Z) : bool :=
  match l with
  | [] => false
  | y :: t => Z.eqb x y || zmemb x t
  end.

Definition opt_eqb {A} (eqb : A -> A -> bool) (x y : option A) : bool :=
  match x, y with
  | Some a, Some b => eqb a b
  | None, None => true
  | _, _ => false
  end.

Fixpoint list_eqb {A} (eqb : A -> A -> bool) (x y : list A) : bool :=
  match x, y with
  | [], [] => true
  | a :: x', b :: y' => eqb a b && list_eqb eqb x' y'
  | _, _ => false
  end.

(* indices (from 0) of the elements for which [f] answers false *)
Fixpoint bad_from {A} (f : A -> bool) (i : nat) (l : list A) : list nat :=
  match l with
  | [] => []
  | a :: t => if f a then bad_from f (S i) t else i :: bad_from f (S i) t
  end.
Definition bad_indices {A} (f : A -> bool) (l : list A) : list nat := bad_from f 0%nat l.
