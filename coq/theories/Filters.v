(* Filters.v — the producer filters of eascheduler/producers/prod_filter.py (+ the date-set filters of
   prod_filter_holiday.py) as a syntax [filt], the executable [allow] written after the Python
   statement by statement, and the declarative meaning [sem].  No proofs here (FiltersFacts.v).

   The argument of [allow]/[sem] is a LOCAL date-time (Z nanoseconds, see Civil.v): the Python methods
   receive a SystemDateTime and only ever look at its local fields (.time(), .day, .month,
   .py_datetime().isoweekday(), .date()).                                                          *)
From EAS Require Import Base Civil.

Inductive filt :=
  | FAny (fs : list filt)                 (* AnyGroupProducerFilter *)
  | FAll (fs : list filt)                 (* AllGroupProducerFilter *)
  | FNot (f : filt)                       (* InvertingProducerFilter *)
  | FTime (lo hi : option Z)              (* TimeProducerFilter: bounds in ns since local midnight *)
  | FWeekday (s : list Z)                 (* DayOfWeekProducerFilter: frozenset of ISO weekdays *)
  | FDay (s : list Z)                     (* DayOfMonthProducerFilter *)
  | FMonth (s : list Z)                   (* MonthOfYearProducerFilter *)
  | FDateSet (allowed : list Z) (neg : bool).
      (* Holiday / WorkDay / NotWorkDay filters: a set of local day numbers (the holidays object
         is an oracle [date -> bool], given here by its extension) and an inversion flag:
           HolidayProducerFilter     dt.date() in holidays                 FDateSet holidays false
           WorkDayProducerFilter     holidays.is_working_day(date)         FDateSet workdays false
           NotWorkDayProducerFilter  not holidays.is_working_day(date)     FDateSet workdays true  *)

Fixpoint allow (f : filt) (x : Z) : bool :=
  match f with
  | FAny fs => existsb (fun g => allow g x) fs           (* any(f.allow(dt) for f in self._filters) *)
  | FAll fs => forallb (fun g => allow g x) fs           (* all(f.allow(dt) for f in self._filters) *)
  | FNot g => negb (allow g x)                           (* not self._filter.allow(dt) *)
  | FTime lo hi =>
      let time := local_tod x in                         (* time = dt.time() *)
      if match lo with Some lower => time <? lower | None => false end
      then false                                         (* lower is not None and time < lower *)
      else if match hi with Some upper => upper <=? time | None => false end
      then false                                         (* upper is not None and time >= upper *)
      else true
  | FWeekday s => zmemb (local_weekday x) s              (* isoweekday() in self._weekdays *)
  | FDay s => zmemb (local_dom x) s                      (* dt.day in self._days *)
  | FMonth s => zmemb (local_month x) s                  (* dt.month in self._months *)
  | FDateSet allowed neg =>
      if neg then negb (zmemb (local_day x) allowed) else zmemb (local_day x) allowed
  end.

(* declarative meaning; the two list quantifiers are written as local fixpoints so that the
   definition is structurally recursive — FiltersFacts.sem_any / sem_all restate them with
   [exists g, In g fs /\ ...] and [forall g, In g fs -> ...] *)
Fixpoint sem (f : filt) (x : Z) : Prop :=
  match f with
  | FAny fs => (fix ex (l : list filt) : Prop := match l with [] => False | g :: t => sem g x \/ ex t end) fs
  | FAll fs => (fix al (l : list filt) : Prop := match l with [] => True | g :: t => sem g x /\ al t end) fs
  | FNot g => ~ sem g x
  | FTime lo hi =>
      match lo with Some l => l <= local_tod x | None => True end /\
      match hi with Some h => local_tod x < h | None => True end
  | FWeekday s => In (local_weekday x) s
  | FDay s => In (local_dom x) s
  | FMonth s => In (local_month x) s
  | FDateSet allowed neg => if neg then ~ In (local_day x) allowed else In (local_day x) allowed
  end.

(* size measures used by the harness evidence and by examples *)
Fixpoint depth (f : filt) : nat :=
  match f with
  | FAny fs | FAll fs => S (fold_right (fun g acc => Nat.max (depth g) acc) 0%nat fs)
  | FNot g => S (depth g)
  | _ => 1%nat
  end.
