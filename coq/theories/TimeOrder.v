(* TimeOrder.v — order facts relating instants and local times of a time-zone table (DESIGN Appendix B).
   [offset_range], [local_order], [local_mono_weak], [local_mono_strict] hold for EVERY table (no side condition:
   [spread] is the real distance of the extreme offsets of the table); [wf_tz_b] only contributes the
   numeric bound  spread z <= 4 h  that the day-walk arguments of ProdEarliest2.v need. *)
From EAS Require Import Base BaseFacts Civil Time TimeFacts.

Lemma min_list_le d l x : In x l -> min_list d l <= x.
Proof.
  induction l as [|h t IH]; cbn [min_list In]; [tauto|].
  intros [->|H]; [lia|]. specialize (IH H). lia.
Qed.

Lemma max_list_ge d l x : In x l -> x <= max_list d l.
Proof.
  induction l as [|h t IH]; cbn [max_list In]; [tauto|].
  intros [->|H]; [lia|]. specialize (IH H). lia.
Qed.

(* every offset that occurs in the table lies between the extreme offsets *)
Lemma In_offsets_range z o : In o (offsets z) -> off_lo z <= o <= off_hi z.
Proof. intros H. unfold off_lo, off_hi. split; [apply min_list_le|apply max_list_ge]; exact H. Qed.

Theorem offset_range z i : off_lo z <= offset_at z i <= off_hi z.
Proof. apply In_offsets_range. apply offset_at_In. Qed.

Lemma spread_nonneg z : 0 <= spread z.
Proof. unfold spread. pose proof (offset_range z 0). lia. Qed.

(* two offsets of the table differ by at most the spread *)
Lemma offsets_diff z o1 o2 : In o1 (offsets z) -> In o2 (offsets z) -> o1 - o2 <= spread z.
Proof.
  intros H1 H2. apply In_offsets_range in H1. apply In_offsets_range in H2. unfold spread. lia.
Qed.

Lemma offset_at_diff z a o : In o (offsets z) -> - spread z <= offset_at z a - o <= spread z.
Proof.
  intros H. pose proof (offset_range z a) as Ha. apply In_offsets_range in H. unfold spread. lia.
Qed.

(* local times that are more than the spread apart order the instants *)
Theorem local_order z a b : to_local z a + spread z * NS < to_local z b -> a < b.
Proof.
  unfold to_local, spread. pose proof (offset_range z a). pose proof (offset_range z b).
  unfold NS. lia.
Qed.

(* and the local clock never runs backwards by more than the spread *)
Theorem local_mono_weak z a b : a <= b -> to_local z a <= to_local z b + spread z * NS.
Proof.
  unfold to_local, spread. pose proof (offset_range z a). pose proof (offset_range z b).
  unfold NS. lia.
Qed.

Theorem local_mono_strict z a b : a < b -> to_local z a < to_local z b + spread z * NS.
Proof.
  unfold to_local, spread. pose proof (offset_range z a). pose proof (offset_range z b).
  unfold NS. lia.
Qed.

(* the elapsed local time differs from the elapsed time by at most the spread *)
Theorem local_elapsed z a b :
  (b - a) - spread z * NS <= to_local z b - to_local z a <= (b - a) + spread z * NS.
Proof.
  unfold to_local, spread. pose proof (offset_range z a). pose proof (offset_range z b).
  unfold NS. lia.
Qed.

Lemma wf_tz_spread z : wf_tz_b z = true -> spread z <= 4 * 3600.
Proof. unfold wf_tz_b. intros H. apply andb_true_iff in H. destruct H as (_ & H). lia. Qed.

(* the gap a skipped local time lies in: both offsets are offsets of the table *)
Lemma gap_from_offsets cur l loc ob oa :
  gap_from cur l loc = Some (ob, oa) -> In ob (cur :: map snd l) /\ In oa (cur :: map snd l).
Proof.
  revert cur; induction l as [|[t o] r IH]; intros cur; cbn [gap_from]; [discriminate|].
  destruct ((t + cur * NS <=? loc) && (loc <? t + o * NS)).
  - intros H. injection H as <- <-. cbn [map snd In]. auto.
  - intros H. destruct (IH _ H) as (H1 & H2). cbn [map snd]. split; right; assumption.
Qed.

Lemma gap_of_offsets z loc ob oa :
  gap_of z loc = Some (ob, oa) -> In ob (offsets z) /\ In oa (offsets z).
Proof. unfold gap_of, offsets. apply gap_from_offsets. Qed.

(* ------------------------------------------------------------------------------------------- *)
(* a two-transition Berlin-like table: +1 h, +2 h from 2025-03-30T01:00Z, +1 h from 2025-10-26T01:00Z *)
Definition berlin2 : tz :=
  {| tz_init := 3600; tz_trans := [(1743296400 * NS, 7200); (1761440400 * NS, 3600)] |}.

Example berlin2_wf : wf_tz_b berlin2 = true /\ spread berlin2 = 3600 /\ off_lo berlin2 = 3600 /\ off_hi berlin2 = 7200.
Proof. vm_compute. repeat split; reflexivity. Qed.

(* the bound of [local_order] is tight: within the spread the order of the local times may disagree with the
   order of the instants (the last nanosecond of summer time shows a later wall-clock time than the instant
   following it), by exactly  spread - 1 ns *)
Example berlin2_order_tight :
  let a := 1761440400 * NS - 1 in      (* 2025-10-26T00:59:59.999999999Z = 02:59:59.999999999 local (+2 h) *)
  let b := 1761440400 * NS in          (* 2025-10-26T01:00:00Z           = 02:00 local (+1 h) *)
  a < b /\ to_local berlin2 b < to_local berlin2 a /\
  to_local berlin2 a = to_local berlin2 b + spread berlin2 * NS - 1.
Proof. vm_compute. repeat split; reflexivity. Qed.
