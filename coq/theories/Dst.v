(* Dst.v — helpers/dst_param.py over an explicit time-zone table and a current year: _iter_nr, _iter_date,
   find_time, _setup, check_dst_handling with the module globals TIME_FORWARD / TIME_BACKWARD as an explicit
   state.  Executable definitions only (proofs: DstFacts.v).

   * a time of day is a Z: nanoseconds since local midnight (0 <= tod < DAY)
   * a SystemDateTime is its instant (Z ns); its date is local_day (to_local z instant)
   * [dt.replace_time(t, disambiguate='raise')] is decided by Time.candidates on (date of dt, t):
     no instant -> SkippedTime, one -> fine, two or more -> RepeatedTime
   * [SystemDateTime(year, month, 1)] uses whenever's default disambiguate='compatible': an ambiguous
     midnight is the earlier instant, a skipped midnight is moved forward by the gap (observed:
     America/Havana 2020-11-01 -> 00:00-04:00, America/Asuncion 2023-10-01 -> 01:00-03:00)
   * [start.add(hours=24)] adds 24 ELAPSED hours: after a clock change in the month the local time of
     [start] is 01:00 of the day or 23:00 of the day before                                            *)
From EAS Require Import Base Civil Time Replace.

Definition HOUR : Z := 3600 * NS.

(* ------------------------------------------------------------------------------------------- *)
(* _iter_nr(nrs, lower, upper).  With reverse=True the caller passes [reversed(order)], an ITERATOR: the
   first loop exhausts it, and [nr not in nrs] on the exhausted iterator is always True, so the whole range
   follows (the preferred numbers come a second time).                                              *)
Fixpoint zrange_from (n : nat) (lo : Z) : list Z :=
  match n with O => [] | S k => lo :: zrange_from k (lo + 1) end.
Definition zrange (lo hi : Z) : list Z := zrange_from (Z.to_nat (hi - lo)) lo.

Definition iter_nr (reverse : bool) (order : list Z) (lower upper : Z) : list Z :=
  if reverse then rev order ++ zrange lower upper
  else order ++ filter (fun n => negb (zmemb n order)) (zrange lower upper).

Definition month_order : list Z := [3; 4; 11; 9; 10].
Definition hour_order : list Z := [2; 3; 0; 1].
Definition month_seq (reverse : bool) : list Z := iter_nr reverse month_order 1 13.
Definition hour_seq (reverse : bool) : list Z := iter_nr reverse hour_order 0 24.

(* ------------------------------------------------------------------------------------------- *)
(* SystemDateTime(year, month, 1) -> instant *)
Definition sys_midnight (z : tz) (year month : Z) : option Z :=
  let l := days_from_civil year month 1 * DAY in
  match candidates z l with
  | i :: _ => Some i
  | [] => match gap_of z l with Some (ob, _) => Some (l - ob * NS) | None => None end
  end.

(* the dates (local day numbers) of [start], [start + 24 h], ... while the local month is [month] *)
Fixpoint day_walk (fuel : nat) (z : tz) (month start : Z) : option (list Z) :=
  match fuel with
  | O => None
  | S f =>
      let l := to_local z start in
      if local_month l =? month then
        match day_walk f z month (start + 24 * HOUR) with
        | Some r => Some (local_day l :: r)
        | None => None
        end
      else Some []
  end.

Definition WALK_FUEL : nat := 40%nat.

Definition month_days (z : tz) (year month : Z) : option (list Z) :=
  match sys_midnight z year month with
  | Some s => day_walk WALK_FUEL z month s
  | None => None
  end.

(* ------------------------------------------------------------------------------------------- *)
Inductive replaced := RFine | RSkippedT | RRepeatedT.

Definition replace_raise (z : tz) (day tod : Z) : replaced :=
  match candidates z (day * DAY + tod) with
  | [] => RSkippedT
  | [_] => RFine
  | _ :: _ :: _ => RRepeatedT
  end.

Definition is_fine (z : tz) (day tod : Z) : bool :=
  match replace_raise z day tod with RFine => true | _ => false end.

(* first (dt, Time(hour, 30)) of _iter_date that raises: (date of dt, hour, SkippedTime?) *)
Definition hit := (Z * Z * bool)%type.

Fixpoint scan_days (z : tz) (tod : Z) (days : list Z) : option (Z * bool) :=
  match days with
  | [] => None
  | d :: r => match replace_raise z d tod with
              | RFine => scan_days z tod r
              | RSkippedT => Some (d, true)
              | RRepeatedT => Some (d, false)
              end
  end.

Fixpoint scan_hours (z : tz) (hours days : list Z) : option hit :=
  match hours with
  | [] => None
  | h :: r => match scan_days z (h * HOUR + 30 * MINUTE) days with
              | Some (d, k) => Some (d, h, k)
              | None => scan_hours z r days
              end
  end.

Fixpoint scan_months (z : tz) (year : Z) (reverse : bool) (months : list Z) : result (option hit) :=
  match months with
  | [] => Ok None
  | m :: r =>
      match month_days z year m with
      | None => OutOfFuel            (* the model is stuck (table without a gap for a skipped midnight, or walk fuel) *)
      | Some days =>
          match scan_hours z (hour_seq reverse) days with
          | Some h => Ok (Some h)
          | None => scan_months z year reverse r
          end
      end
  end.

(* find_time(reverse) -> False | True | (dst_type, lower, upper) *)
Inductive ft_res := FtFalse | FtTrue | FtFound (forward : bool) (lower upper : Z).

Definition find_time (z : tz) (year : Z) (reverse : bool) : result ft_res :=
  match scan_months z year reverse (month_seq reverse) with
  | OutOfFuel => OutOfFuel
  | Raise e => Raise e
  | Ok None => Ok FtFalse
  | Ok (Some (day, hour, skipped)) =>
      let lower := hour * HOUR in
      let upper := hour * HOUR + HOUR - 1 in                       (* hh:59:59.999999999 *)
      if is_fine z day lower || is_fine z day upper then Ok FtTrue (* 'valid when it should be invalid' *)
      else
        let before := (if 1 <=? hour then hour - 1 else 23) * HOUR + HOUR - 1 in
        let after := (if hour <? 23 then hour + 1 else 0) * HOUR in
        if negb (is_fine z day before) || negb (is_fine z day after) then Ok FtTrue
        else Ok (FtFound skipped lower upper)
  end.

(* ------------------------------------------------------------------------------------------- *)
(* DstHandlingRequiredBool / DstHandlingRequiredDate and the two module globals *)
Inductive req := RBool (b : bool) | RDate (lower upper : Z).

Definition required (r : req) (t : Z) : bool :=
  match r with
  | RBool b => b
  | RDate lo up => (lo <=? t) && (t <=? up)
  end.

Record globals := { g_fwd : option req; g_bwd : option req }.
Definition g0 : globals := {| g_fwd := None; g_bwd := None |}.
Definition g_both (b : bool) : globals := {| g_fwd := Some (RBool b); g_bwd := Some (RBool b) |}.

Definition apply_found (g : globals) (forward : bool) (lo up : Z) : result globals :=
  if forward then
    match g_fwd g with
    | Some _ => Raise EValueError                      (* 'Forward DST transition already set' *)
    | None => Ok {| g_fwd := Some (RDate lo up); g_bwd := g_bwd g |}
    end
  else
    match g_bwd g with
    | Some _ => Raise EValueError                      (* 'Backward DST transition already set' *)
    | None => Ok {| g_fwd := g_fwd g; g_bwd := Some (RDate lo up) |}
    end.

(* The calendar questions of one set-up concern days of [year] only.  They are asked on the table cut to the
   instants [year-1-01-01Z, year+2-01-01Z): an executable shortcut (several times fewer comparisons per
   question) which the correspondence check validates together with the rest of the model.  The theorems
   of DstFacts.v compare the OUTCOME of the set-up with [affected z year] and [candidates z] of the full
   table, so they do not depend on this cut being harmless.                                             *)
Definition window (z : tz) (year : Z) : tz :=
  let lo := days_from_civil (year - 1) 1 1 * DAY in
  let hi := days_from_civil (year + 2) 1 1 * DAY in
  {| tz_init := offset_at z (lo - 1);
     tz_trans := filter (fun tr : Z * Z => (lo <=? fst tr) && (fst tr <? hi)) (tz_trans z) |}.

Definition find_time_y (z : tz) (year : Z) (reverse : bool) : result ft_res :=
  find_time (window z year) year reverse.

(* _setup(): the globals afterwards and how it ended *)
Definition setup_round (z : tz) (year : Z) (g : globals) (reverse : bool) (k : globals -> globals * result unit)
  : globals * result unit :=
  match find_time_y z year reverse with
  | OutOfFuel => (g, OutOfFuel)
  | Raise e => (g, Raise e)
  | Ok FtFalse => (g_both false, Ok tt)                (* break *)
  | Ok FtTrue => (g_both true, Ok tt)                  (* break *)
  | Ok (FtFound f lo up) =>
      match apply_found g f lo up with
      | Ok g' => k g'
      | Raise e => (g, Raise e)
      | OutOfFuel => (g, OutOfFuel)
      end
  end.

Definition setup (z : tz) (year : Z) (g : globals) : globals * result unit :=
  setup_round z year g false (fun g1 => setup_round z year g1 true (fun g2 => (g2, Ok tt))).

(* check_dst_handling(t, forward, backward) *)
Definition pols := (skipped_pol * repeated_pol)%type.

(* "if TIME_FORWARD is None or TIME_BACKWARD is None: _setup()" *)
Definition ensure_setup (z : tz) (year : Z) (g : globals) : globals * result unit :=
  match g_fwd g, g_bwd g with
  | Some _, Some _ => (g, Ok tt)
  | _, _ => setup z year g
  end.

(* the part after the set-up *)
Definition decide (g : globals) (t : Z) (forward : option skipped_pol) (backward : option repeated_pol)
  : result pols :=
  match g_fwd g, g_bwd g with
  | Some F, Some B =>
      match forward with
      | None =>
          if required F t then Raise EValueError        (* 'Time is during a forward DST transition ...' *)
          else
            match backward with
            | None => if required B t then Raise EValueError else Ok (SkAfter, RpEarlier)
            | Some b => Ok (SkAfter, b)
            end
      | Some f =>
          match backward with
          | None => if required B t then Raise EValueError else Ok (f, RpEarlier)
          | Some b => Ok (f, b)
          end
      end
  | _, _ => Raise EOther                               (* the two asserts *)
  end.

Definition check_dst_handling (z : tz) (year : Z) (g : globals) (t : Z)
           (forward : option skipped_pol) (backward : option repeated_pol) : globals * result pols :=
  match forward, backward with
  | Some f, Some b => (g, Ok (f, b))
  | _, _ =>
      match ensure_setup z year g with
      | (g1, Ok _) => (g1, decide g1 t forward backward)
      | (g1, Raise e) => (g1, Raise e)
      | (g1, OutOfFuel) => (g1, OutOfFuel)
      end
  end.

(* ------------------------------------------------------------------------------------------- *)
(* The wall-clock intervals that are skipped or repeated on some day of [year], from the table.      *)
Fixpoint with_prev (cur : Z) (l : list (Z * Z)) : list (Z * Z * Z) :=
  match l with
  | [] => []
  | (t, o) :: r => (t, cur, o) :: with_prev o r
  end.

(* (skipped?, first local ns, one past the last local ns) of the transition (instant, offset before, after) *)
Definition tr_interval (tr : Z * Z * Z) : bool * Z * Z :=
  let '(t, ob, oa) := tr in
  if ob <? oa then (true, t + ob * NS, t + oa * NS) else (false, t + oa * NS, t + ob * NS).

(* a local interval [a, b) of at most one day, cut at midnight: (day, lo, hi) with 0 <= lo < hi <= DAY *)
Definition pieces (a b : Z) : list (Z * Z * Z) :=
  if a <? b then
    let d := a / DAY in
    if b <=? (d + 1) * DAY then [(d, a - d * DAY, b - d * DAY)]
    else [(d, a - d * DAY, DAY); (d + 1, 0, b - (d + 1) * DAY)]
  else [].

Definition in_year (year day : Z) : Prop := year_of_day day = year.

Definition affected_of (year : Z) (tr : Z * Z * Z) : list (bool * Z * Z) :=
  let '(k, a, b) := tr_interval tr in
  map (fun p : Z * Z * Z => (k, snd (fst p), snd p))
      (filter (fun p : Z * Z * Z => year_of_day (fst (fst p)) =? year) (pieces a b)).

(* (skipped?, lo, hi): the times of day lo <= tod < hi are skipped / repeated on some day of [year] *)
Definition affected (z : tz) (year : Z) : list (bool * Z * Z) :=
  flat_map (affected_of year) (with_prev (tz_init z) (tz_trans z)).

Definition affected_times (z : tz) (year : Z) : list (Z * Z) :=
  map (fun a : bool * Z * Z => (snd (fst a), snd a)) (affected z year).

(* decidable well-formedness of a table: consecutive transitions at least two days apart, every offset
   strictly inside +-24 h, every single clock change at most two hours *)
Fixpoint spaced (prev : Z) (l : list (Z * Z)) : bool :=
  match l with
  | [] => true
  | (t, _) :: r => (prev + 2 * DAY <=? t) && spaced t r
  end.
Definition spaced_list (l : list (Z * Z)) : bool :=
  match l with [] => true | (t, _) :: r => spaced t r end.
Definition off_ok (o : Z) : bool := (-86400 <? o) && (o <? 86400).
Definition change_ok (tr : Z * Z * Z) : bool := let '(_, ob, oa) := tr in Z.abs (oa - ob) <=? 7200.

Definition wf_dst (z : tz) : bool :=
  spaced_list (tz_trans z) && forallb off_ok (offsets z) && forallb change_ok (with_prev (tz_init z) (tz_trans z)).

(* the rejected closed interval of a descriptor covers the affected interval [lo, hi) *)
Definition covers (r : req) (lo hi : Z) : bool :=
  match r with
  | RBool b => b
  | RDate l u => (l <=? lo) && (hi - 1 <=? u)
  end.

(* what _setup leaves behind when started from the fresh module *)
Definition setup0 (z : tz) (year : Z) : globals * result unit := setup z year g0.

(* every affected interval lies inside the interval rejected for ITS direction *)
Definition dst_sweep_each (z : tz) (year : Z) : bool :=
  wf_dst z &&
  match setup0 z year with
  | (g, Ok _) =>
      match g_fwd g, g_bwd g with
      | Some F, Some B =>
          forallb (fun a : bool * Z * Z =>
                     let '(k, lo, hi) := a in if k then covers F lo hi else covers B lo hi) (affected z year)
      | _, _ => true
      end
  | (_, _) => true                 (* _setup raised: nothing is accepted without both policies *)
  end.

(* every affected interval lies inside one of the two rejected intervals *)
Definition dst_sweep (z : tz) (year : Z) : bool :=
  wf_dst z &&
  match setup0 z year with
  | (g, Ok _) =>
      match g_fwd g, g_bwd g with
      | Some F, Some B =>
          forallb (fun iv : Z * Z => covers F (fst iv) (snd iv) || covers B (fst iv) (snd iv)) (affected_times z year)
      | _, _ => true
      end
  | (_, _) => true
  end.
