(* Builder.v — the builder DSL (builder/triggers.py, builder/filters.py) as a pure program over an object
   list: every call appends ONE new object; objects are values (a producer expression or a filter).  That the
   real TriggerObject / FilterObject behave like these values - no call changes an object that existed before -
   is what the correspondence check compares after every call. *)
From EAS Require Import Base Civil Time Filters Replace Producers.

Inductive bop :=
  | BTime (tr : treplacer)
  | BInterval (start : option Z) (iv : Z)
  | BGroup (ms : list nat)
  | BOffset (i : nat) (off : Z)
  | BEarliest (i : nat) (tr : treplacer)
  | BLatest (i : nat) (tr : treplacer)
  | BJitter (i : nat) (lo hi : Z)
  | BOnlyOn (i : nat) (f : nat)
  | FbAny (fs : list nat)
  | FbAll (fs : list nat)
  | FbNot (f : nat)
  | FbTime (lo hi : option Z)
  | FbWeekday (s : list Z)
  | FbDay (s : list Z)
  | FbMonth (s : list Z).

Inductive obj := OTrig (p : producer) | OFilt (f : filt) | OErr.

Definition get_trig (os : list obj) (i : nat) : option producer :=
  match nth_error os i with Some (OTrig p) => Some p | _ => None end.
Definition get_filt (os : list obj) (i : nat) : option filt :=
  match nth_error os i with Some (OFilt f) => Some f | _ => None end.

Fixpoint all_some {A} (l : list (option A)) : option (list A) :=
  match l with
  | [] => Some []
  | Some a :: t => match all_some t with Some r => Some (a :: r) | None => None end
  | None :: _ => None
  end.

Definition top_filter (p : producer) : option filt :=
  match p with
  | PTime _ f | PInterval _ _ _ f | PGroup _ f | POffset _ _ f | PEarliest _ _ f | PLatest _ _ f
  | PJitter _ _ _ f | PSun _ f => f
  end.
Definition set_top_filter (p : producer) (f : option filt) : producer :=
  match p with
  | PTime tr _ => PTime tr f
  | PInterval id s iv _ => PInterval id s iv f
  | PGroup ps _ => PGroup ps f
  | POffset q o _ => POffset q o f
  | PEarliest q tr _ => PEarliest q tr f
  | PLatest q tr _ => PLatest q tr f
  | PJitter q lo hi _ => PJitter q lo hi f
  | PSun k _ => PSun k f
  end.

(* one builder call: the new object (OErr when the call raises) *)
Definition eval_bop (os : list obj) (o : bop) : obj :=
  match o with
  | BTime tr => OTrig (PTime tr None)
  | BInterval s iv => if 0 <? iv then OTrig (PInterval 0 s iv None) else OErr
  | BGroup ms => match all_some (map (get_trig os) ms) with Some ps => OTrig (PGroup ps None) | None => OErr end
  | BOffset i off => match get_trig os i with Some p => OTrig (POffset p off None) | None => OErr end
  | BEarliest i tr => match get_trig os i with Some p => OTrig (PEarliest p tr None) | None => OErr end
  | BLatest i tr => match get_trig os i with Some p => OTrig (PLatest p tr None) | None => OErr end
  | BJitter i lo hi =>
      match get_trig os i with
      | Some p => if lo <? hi then OTrig (PJitter p lo hi None) else OErr
      | None => OErr
      end
  | BOnlyOn i f =>
      match get_trig os i, get_filt os f with
      | Some p, Some g => match top_filter p with None => OTrig (set_top_filter p (Some g)) | Some _ => OErr end
      | _, _ => OErr
      end
  | FbAny fs => match all_some (map (get_filt os) fs) with Some l => OFilt (FAny l) | None => OErr end
  | FbAll fs => match all_some (map (get_filt os) fs) with Some l => OFilt (FAll l) | None => OErr end
  | FbNot f => match get_filt os f with Some g => OFilt (FNot g) | None => OErr end
  | FbTime lo hi => match lo, hi with None, None => OErr | _, _ => OFilt (FTime lo hi) end
  | FbWeekday s => OFilt (FWeekday s)
  | FbDay s => OFilt (FDay s)
  | FbMonth s => OFilt (FMonth s)
  end.

Definition run_prog (ops : list bop) : list obj :=
  fold_left (fun os o => os ++ [eval_bop os o]) ops [].

(* ------------------------------------------------------------------------------------------- *)
(* structural equality (interval cache ids are not part of a trigger's value) *)
Fixpoint filt_eqb (a b : filt) {struct a} : bool :=
  match a, b with
  | FAny x, FAny y | FAll x, FAll y =>
      (fix go (l m : list filt) : bool :=
         match l, m with [] , [] => true | p :: l', q :: m' => filt_eqb p q && go l' m' | _, _ => false end) x y
  | FNot x, FNot y => filt_eqb x y
  | FTime l1 h1, FTime l2 h2 => opt_eqb Z.eqb l1 l2 && opt_eqb Z.eqb h1 h2
  | FWeekday x, FWeekday y | FDay x, FDay y | FMonth x, FMonth y => list_eqb Z.eqb x y
  | FDateSet x n, FDateSet y m => list_eqb Z.eqb x y && Bool.eqb n m
  | _, _ => false
  end.
Definition tr_eqb (a b : treplacer) : bool :=
  Z.eqb (tr_tod a) (tr_tod b) &&
  match tr_sk a, tr_sk b with SkSkip, SkSkip | SkEarlier, SkEarlier | SkLater, SkLater | SkAfter, SkAfter => true | _, _ => false end &&
  match tr_rp a, tr_rp b with RpSkip, RpSkip | RpEarlier, RpEarlier | RpLater, RpLater | RpTwice, RpTwice => true | _, _ => false end.
Fixpoint prod_eqb (a b : producer) {struct a} : bool :=
  match a, b with
  | PTime t1 f1, PTime t2 f2 => tr_eqb t1 t2 && opt_eqb filt_eqb f1 f2
  | PInterval _ s1 i1 f1, PInterval _ s2 i2 f2 => opt_eqb Z.eqb s1 s2 && Z.eqb i1 i2 && opt_eqb filt_eqb f1 f2
  | PGroup x f1, PGroup y f2 =>
      (fix go (l m : list producer) : bool :=
         match l, m with [], [] => true | p :: l', q :: m' => prod_eqb p q && go l' m' | _, _ => false end) x y
      && opt_eqb filt_eqb f1 f2
  | POffset p1 o1 f1, POffset p2 o2 f2 => prod_eqb p1 p2 && Z.eqb o1 o2 && opt_eqb filt_eqb f1 f2
  | PEarliest p1 t1 f1, PEarliest p2 t2 f2 | PLatest p1 t1 f1, PLatest p2 t2 f2 =>
      prod_eqb p1 p2 && tr_eqb t1 t2 && opt_eqb filt_eqb f1 f2
  | PJitter p1 l1 h1 f1, PJitter p2 l2 h2 f2 => prod_eqb p1 p2 && Z.eqb l1 l2 && Z.eqb h1 h2 && opt_eqb filt_eqb f1 f2
  | PSun k1 f1, PSun k2 f2 => Nat.eqb k1 k2 && opt_eqb filt_eqb f1 f2
  | _, _ => false
  end.
Definition obj_eqb (a b : obj) : bool :=
  match a, b with
  | OTrig p, OTrig q => prod_eqb p q
  | OFilt f, OFilt g => filt_eqb f g
  | OErr, OErr => true
  | _, _ => false
  end.

(* a case: the program and, after every call, the structure of ALL objects that exist *)
Record bcase := { bc_ops : list bop; bc_snapshots : list (list obj) }.

Fixpoint snap_diff (k : nat) (final : list obj) (snaps : list (list obj)) : option nat :=
  match snaps with
  | [] => None
  | s :: t => if list_eqb obj_eqb s (firstn (S k) final) then snap_diff (S k) final t else Some k
  end.
Definition bcase_mismatch (c : bcase) : option nat :=
  if Nat.eqb (length (bc_snapshots c)) (length (bc_ops c))
  then snap_diff 0%nat (run_prog (bc_ops c)) (bc_snapshots c) else Some 0%nat.
Fixpoint bmismatches_from (i : nat) (cs : list bcase) : list (nat * nat) :=
  match cs with
  | [] => []
  | c :: t => match bcase_mismatch c with None => bmismatches_from (S i) t | Some k => (i, k) :: bmismatches_from (S i) t end
  end.
Definition bmismatches (cs : list bcase) : list (nat * nat) := bmismatches_from 0%nat cs.
