(* DstCases.v — Coq side of the C20 correspondence.  One case = one (zone, current year): what the real
   helpers/dst_param.py did in a fresh interpreter whose clock stands in that year, in call order:
     1. check_dst_handling(12:00, 'later', 'twice')            both given, before anything was set up
     2. check_dst_handling(12:00:00.000000001, None, None)     runs _setup; TIME_FORWARD / TIME_BACKWARD after it
     3. every probe time with (None, None), ('later', None), (None, 'twice'), ('later', 'twice')
     4. the call of 2. once more, and the globals at the end
   The model is run on the same calls with the zone's table, threading the globals.                 *)
From EAS Require Import Base Civil Time Replace Dst.

Definition sk_eqb (a b : skipped_pol) : bool :=
  match a, b with
  | SkSkip, SkSkip | SkEarlier, SkEarlier | SkLater, SkLater | SkAfter, SkAfter => true
  | _, _ => false
  end.
Definition rp_eqb (a b : repeated_pol) : bool :=
  match a, b with
  | RpSkip, RpSkip | RpEarlier, RpEarlier | RpLater, RpLater | RpTwice, RpTwice => true
  | _, _ => false
  end.
Definition pols_eqb (a b : pols) : bool := sk_eqb (fst a) (fst b) && rp_eqb (snd a) (snd b).
Definition out_eqb (a b : result pols) : bool := result_eqb pols_eqb a b.

Definition req_eqb (a b : req) : bool :=
  match a, b with
  | RBool x, RBool y => Bool.eqb x y
  | RDate l u, RDate l' u' => (l =? l') && (u =? u')
  | _, _ => false
  end.

Record dcase := {
  dc_year : Z;
  dc_both_before : result pols;
  dc_untouched : bool;                       (* both globals still None after call 1 *)
  dc_first : result pols;
  dc_fwd : option req;
  dc_bwd : option req;
  dc_probes : list (Z * list (result pols)); (* tod, the four outcomes *)
  dc_again : result pols;
  dc_fwd_end : option req;
  dc_bwd_end : option req
}.

Definition FWD_GIVEN : skipped_pol := SkLater.
Definition BWD_GIVEN : repeated_pol := RpTwice.
Definition NOON : Z := 12 * HOUR.

(* the four calls of one probe, threading the globals *)
Definition probe_model (z : tz) (year : Z) (g : globals) (tod : Z) : globals * list (result pols) :=
  let '(ga, a) := check_dst_handling z year g tod None None in
  let '(gb, b) := check_dst_handling z year ga tod (Some FWD_GIVEN) None in
  let '(gc, c) := check_dst_handling z year gb tod None (Some BWD_GIVEN) in
  let '(gd, d) := check_dst_handling z year gc tod (Some FWD_GIVEN) (Some BWD_GIVEN) in
  (gd, [a; b; c; d]).

Fixpoint probes_diff (z : tz) (year : Z) (g : globals) (k : nat) (ps : list (Z * list (result pols)))
  : globals * list nat :=
  match ps with
  | [] => (g, [])
  | (tod, seen) :: r =>
      let '(g', m) := probe_model z year g tod in
      let '(gl, bad) := probes_diff z year g' (S k) r in
      (gl, if list_eqb out_eqb m seen then bad else (10 + k)%nat :: bad)
  end.

Definition flag (ok : bool) (code : nat) : list nat := if ok then [] else [code].

Definition case_diff (z : tz) (c : dcase) : list nat :=
  let y := dc_year c in
  let '(ga, r0) := check_dst_handling z y g0 NOON (Some FWD_GIVEN) (Some BWD_GIVEN) in
  let '(gb, r1) := check_dst_handling z y ga (NOON + 1) None None in
  let '(gc, bad) := probes_diff z y gb 0%nat (dc_probes c) in
  let '(gd, r2) := check_dst_handling z y gc (NOON + 1) None None in
  flag (out_eqb r0 (dc_both_before c)) 0%nat
  ++ flag (Bool.eqb (dc_untouched c) (opt_eqb req_eqb (g_fwd ga) None && opt_eqb req_eqb (g_bwd ga) None)) 7%nat
  ++ flag (out_eqb r1 (dc_first c)) 1%nat
  ++ flag (opt_eqb req_eqb (g_fwd gb) (dc_fwd c)) 2%nat
  ++ flag (opt_eqb req_eqb (g_bwd gb) (dc_bwd c)) 3%nat
  ++ bad
  ++ flag (out_eqb r2 (dc_again c)) 4%nat
  ++ flag (opt_eqb req_eqb (g_fwd gd) (dc_fwd_end c)) 5%nat
  ++ flag (opt_eqb req_eqb (g_bwd gd) (dc_bwd_end c)) 6%nat.

Fixpoint mismatches_from (z : tz) (i : nat) (cs : list dcase) : list (nat * nat) :=
  match cs with
  | [] => []
  | c :: t => map (fun code => (i, code)) (case_diff z c) ++ mismatches_from z (S i) t
  end.
Definition mismatches (z : tz) (cs : list dcase) : list (nat * nat) := mismatches_from z 0%nat cs.

(* what the model says, for the debug output of a failing case *)
Definition case_model (z : tz) (c : dcase) :=
  let y := dc_year c in
  let '(gb, r1) := check_dst_handling z y g0 (NOON + 1) None None in
  (r1, g_fwd gb, g_bwd gb, affected z y).
