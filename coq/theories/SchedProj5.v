(* SchedProj5.v — C02: concrete histories.  (1) two calm histories with three jobs that differ in the control
   operations on job 1 (a reset, a pause, a cancel) give identical projections for jobs 0 and 2, which run three
   times each; job 1 itself runs a different number of times.  (2) REFUTATION of the unrestricted two-trace
   statement: when the loop is behind (a job is overdue and the timer callback has not run yet), cancelling
   the head job runs the overdue jobs synchronously inside cancel(), so a pause() issued after it comes too late. *)
From EAS Require Import Base Sched SchedInv SchedApi SchedProj SchedProj2 SchedProj3 SchedProj4.

Definition SEC : Z := 1000000000.
(* every trigger answers "one second after the reference instant"; nothing fails *)
Definition pe_E : env := {| prod := fun _ _ t => Ok (t + SEC); fail_exec := fun _ _ => false; fail_cb := fun _ _ => false |}.

Definition pe_ops1 : list op :=
  [OAt 10; OCountdown (SEC / 2) 11; OAt 12; ORegister 0 CbUpd 7%nat; OReset 1;
   OAdvance SEC; OWake; OPause 1; OAdvance SEC; OWake; OCancel 1; OAdvance SEC; OWake].
Definition pe_ops2 : list op :=
  [OAt 10; OCountdown (SEC / 2) 11; OAt 12; ORegister 0 CbUpd 7%nat; OReset 1;
   OAdvance SEC; OWake; OAdvance SEC; OWake; OReset 1; ORegister 1 CbFin 8%nat; OAdvance SEC; OWake].

Definition pe_s1 := fst (run pe_E 60 true (init 0 true) pe_ops1).
Definition pe_s2 := fst (run pe_E 60 true (init 0 true) pe_ops2).

Example pe_hypotheses :
  filter (fun o => negb (addresses 1 o)) pe_ops1 = filter (fun o => negb (addresses 1 o)) pe_ops2 /\
  hist_ok true pe_ops1 = true /\ hist_ok true pe_ops2 = true /\
  snd (run pe_E 60 true (init 0 true) pe_ops1) = repeat Done 13 /\
  snd (run pe_E 60 true (init 0 true) pe_ops2) = repeat Done 13.
Proof. vm_compute. repeat split. Qed.

Example pe_same_projections :
  proj 0 pe_s1 = proj 0 pe_s2 /\ proj 2 pe_s1 = proj 2 pe_s2 /\
  count_exec 0 (log pe_s1) = 3%nat /\ count_exec 2 (log pe_s1) = 3%nat /\
  kexecs 0 (log pe_s1) = [EExec 0 (3 * SEC) (3 * SEC) 0; EExec 0 (2 * SEC) (2 * SEC) 0; EExec 0 SEC SEC 0] /\
  (* the addressed job itself differs *)
  count_exec 1 (log pe_s1) = 1%nat /\ count_exec 1 (log pe_s2) = 2%nat.
Proof. vm_compute. repeat split. Qed.

Lemma all_done_ok n : forall rs, rs = repeat Done n -> ~ In NoFuel rs /\ ~ In (Raised EKeyError) rs.
Proof.
  intros rs ->. split; intros H; apply repeat_spec in H; discriminate.
Qed.

(* the same equality obtained from the theorem *)
Example pe_by_theorem :
  proj 0 (fst (run pe_E 60 true (init 0 true) pe_ops1)) = proj 0 (fst (run pe_E 60 true (init 0 true) pe_ops2)) /\
  proj 2 (fst (run pe_E 60 true (init 0 true) pe_ops1)) = proj 2 (fst (run pe_E 60 true (init 0 true) pe_ops2)).
Proof.
  destruct pe_hypotheses as (Hf & O1 & O2 & R1 & R2).
  destruct (all_done_ok _ _ R1) as (F1 & K1). destruct (all_done_ok _ _ R2) as (F2 & K2).
  split.
  - exact (two_trace_noninterference pe_E 60 60 true 0 true 1 0 pe_ops1 pe_ops2 _ _ _ _
             (fun e => O_S _ e) Hf O1 O2 (surjective_pairing _) (surjective_pairing _) F1 F2 K1 K2).
  - exact (two_trace_noninterference pe_E 60 60 true 0 true 1 2 pe_ops1 pe_ops2 _ _ _ _
             (fun e => O_S _ (eq_sym (eq_add_S _ _ e))) Hf O1 O2 (surjective_pairing _) (surjective_pairing _) F1 F2 K1 K2).
Qed.

(* the single-job machine computes the projection *)
Example pe_machine :
  proj 0 pe_s1 = run1 pe_E 1 true 0 (proj 0 (init 0 true)) pe_ops1 /\
  proj 2 pe_s2 = run1 pe_E 1 true 2 (proj 2 (init 0 true)) pe_ops2 /\
  proj 1 pe_s2 = run1 pe_E 1 true 1 (proj 1 (init 0 true)) pe_ops2.
Proof. vm_compute. repeat split. Qed.

(* ------------------------------------------------------------------------------------------- *)
(* REFUTATION of the unrestricted form.  Jobs 0 (due at 5) and 1 (due at 3); the clock moves to 10 and the loop
   has not run yet.  History A cancels job 1, then pauses job 0; history B only pauses job 0.  In A, cancel(1)
   removes the head of the queue, _set_timer finds the new head (job 0) overdue and calls run_jobs() directly:
   job 0 runs, and the later pause(0) raises "already finished".  In B job 0 is paused and never runs. *)
Definition rf_opsA : list op := [OOnce 5 100; OOnce 3 101; OAdvance 10; OCancel 1; OPause 0; OWake].
Definition rf_opsB : list op := [OOnce 5 100; OOnce 3 101; OAdvance 10; OPause 0; OWake].

Example rf_witness :
  filter (fun o => negb (addresses 1 o)) rf_opsA = filter (fun o => negb (addresses 1 o)) rf_opsB /\
  snd (run pe_E 60 false (init 0 true) rf_opsA) = [Done; Done; Done; Done; Raised EAlreadyFinished; Done] /\
  snd (run pe_E 60 false (init 0 true) rf_opsB) = [Done; Done; Done; Done; Done] /\
  count_exec 0 (log (fst (run pe_E 60 false (init 0 true) rf_opsA))) = 1%nat /\
  count_exec 0 (log (fst (run pe_E 60 false (init 0 true) rf_opsB))) = 0%nat /\
  hist_ok true rf_opsA = false /\ hist_ok true rf_opsB = false.
Proof. vm_compute. repeat split. Qed.

Theorem two_trace_unrestricted_refuted :
  ~ (forall E fuel hs t0 en j k ops1 ops2 s1 rs1 s2 rs2,
       k <> j ->
       filter (fun o => negb (addresses j o)) ops1 = filter (fun o => negb (addresses j o)) ops2 ->
       run E fuel hs (init t0 en) ops1 = (s1, rs1) -> run E fuel hs (init t0 en) ops2 = (s2, rs2) ->
       ~ In NoFuel rs1 -> ~ In NoFuel rs2 ->
       count_exec k (log s1) = count_exec k (log s2)).
Proof.
  intros H.
  destruct rf_witness as (Hf & RA & RB & CA & CB & _).
  assert (FA : ~ In NoFuel (snd (run pe_E 60 false (init 0 true) rf_opsA))).
  { rewrite RA. intros X; cbn in X; repeat (destruct X as [X|X]; [discriminate|]); exact X. }
  assert (FB : ~ In NoFuel (snd (run pe_E 60 false (init 0 true) rf_opsB))).
  { rewrite RB. intros X; cbn in X; repeat (destruct X as [X|X]; [discriminate|]); exact X. }
  pose proof (H pe_E 60%nat false 0 true 1%nat 0%nat rf_opsA rf_opsB _ _ _ _ (fun e => O_S _ e) Hf
                (surjective_pairing _) (surjective_pairing _) FA FB) as X.
  rewrite CA, CB in X. discriminate.
Qed.

(* the same with a recurring job (DateTimeJobControl.pause) as the victim: job 0 = every second, job 1 = one-shot *)
Definition rf_opsC : list op := [OAt 100; OOnce (SEC / 2) 101; OAdvance (2 * SEC); OCancel 1; OPause 0; OWake].
Definition rf_opsD : list op := [OAt 100; OOnce (SEC / 2) 101; OAdvance (2 * SEC); OPause 0; OWake].

Example rf_witness_recurring :
  filter (fun o => negb (addresses 1 o)) rf_opsC = filter (fun o => negb (addresses 1 o)) rf_opsD /\
  snd (run pe_E 60 false (init 0 true) rf_opsC) = repeat Done 6 /\
  snd (run pe_E 60 false (init 0 true) rf_opsD) = repeat Done 5 /\
  kexecs 0 (log (fst (run pe_E 60 false (init 0 true) rf_opsC))) = [EExec 0 (2 * SEC) SEC 0] /\
  kexecs 0 (log (fst (run pe_E 60 false (init 0 true) rf_opsD))) = [] /\
  jstatus (jobs (fst (run pe_E 60 false (init 0 true) rf_opsC)) 0) = Paused /\
  jstatus (jobs (fst (run pe_E 60 false (init 0 true) rf_opsD)) 0) = Paused.
Proof. vm_compute. repeat split. Qed.

(* with the loop keeping up (a wake-up after the move of the clock) the two histories agree on job 0 *)
Definition rf_opsC' : list op := [OAt 100; OOnce (SEC / 2) 101; OAdvance (2 * SEC); OWake; OCancel 1; OPause 0; OWake].
Definition rf_opsD' : list op := [OAt 100; OOnce (SEC / 2) 101; OAdvance (2 * SEC); OWake; OPause 0; OWake].
Example rf_calm_agree :
  hist_ok true rf_opsC' = true /\ hist_ok true rf_opsD' = true /\
  proj 0 (fst (run pe_E 60 false (init 0 true) rf_opsC')) = proj 0 (fst (run pe_E 60 false (init 0 true) rf_opsD')).
Proof. vm_compute. repeat split. Qed.
