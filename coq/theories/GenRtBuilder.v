(* GenRtBuilder.v — what the code generated from src/eascheduler/{builder/jobs.py, job_stores/memory.py,
   job_control/*.py, executor/base.py} (coq/gen/GenBuilder.v, written by tools/gen_builder.py on every run) is
   expressed in, on top of GenRt.v / GenRtJobs.v (not changed).  No proofs here.

     * a job object is its index in [jobs s] (GenRtJobs.v); a control object is the index of its `_job`; the executor
       of job j is identified with j; there is one scheduler and at most one store (`self._job_store is not None`
       is the flag [hs] of Sched.create);
     * a constructor call `CountdownJob(...)` / `OneTimeJob(...)` / `DateTimeJob(...)` is [alloc_obj]: the object
       Sched.new_job is written into the first free slot [njobs s] and the slot is taken;
     * the conversion of the user's argument (get_pos_timedelta_secs / get_instant / _get_producer) is a primitive
       whose RESULT is handed in as a [cres]: the model's value, or the exception it raised;
     * `dict` operations of InMemoryStore._jobs are operations on the association list [store s]. *)
From EAS Require Import Base Sched GenRt GenRtJobs.
From EAS Require TaskMgr AsyncExec.

(* result of a partial primitive *)
Inductive cres (A : Type) := CVal (v : A) | CExc (e : err).
Arguments CVal {A} v.
Arguments CExc {A} e.

(* `Job(...)`: the new object takes the first free slot *)
Definition alloc_obj (b : job) (s : st) : st := set_njobs (S (njobs s)) (set_job (njobs s) b s).

(* ---- dict operations on the store ---- *)
Fixpoint store_find (key : Z) (l : list (Z * nat)) : option nat :=
  match l with
  | [] => None
  | (k, j) :: t => if Z.eqb k key then Some j else store_find key t
  end.
Fixpoint store_replace (key : Z) (j : nat) (l : list (Z * nat)) : list (Z * nat) :=
  match l with
  | [] => []
  | (k, i) :: t => if Z.eqb k key then (k, j) :: t else (k, i) :: store_replace key j t
  end.
(* `d[key] = j`: a new key is added (the model keeps the newest entry first), an old one keeps its place *)
Definition store_put (key : Z) (j : nat) (l : list (Z * nat)) : list (Z * nat) :=
  if store_has key l then store_replace key j l else (key, j) :: l.

Section Rt.
Variable E : env.

(* `self._func( *self._args, **self._kwargs )` of the executor of job j: the callable is entered (event EExec, as in
   GenRtJobs.run_executor) and raises when the environment says so *)
Definition call_func (j : nat) (s : st) : MJ :=
  let k := count_exec j (log s) in
  let s := add_ev (EExec j (now s) (announced s j) (opi s)) s in
  if fail_exec E j k then Some (s, JExc (JErr EUser)) else Some (s, JRet).

End Rt.

(* ---- AsyncExecutor._execute: one resumption of the wrapper coroutine ----
   [AsyncExec.uout] says how the resumption of the user coroutine inside `await self._func(...)` ends.  The wrapper's
   answer is what the task sees ([TaskMgr.next]) and whether process_exception was called. *)
Inductive xclass := XcException | XcBase.       (* Exception subclasses / other BaseExceptions (CancelledError) *)
Definition aout : Type := (TaskMgr.next * bool)%type.
Definition a_parked (h : bool) : aout := (TaskMgr.NPark, h).       (* suspended inside the await *)
Definition a_returned (h : bool) : aout := (TaskMgr.NRet, h).      (* the coroutine function returned *)
(* an exception left the coroutine: an Exception makes the task finish by raising; a CancelledError that woke the
   body is re-raised (TaskMgr.NFin, see AsyncExec.wrap_next) *)
Definition a_raised (c : xclass) (h : bool) : aout :=
  (match c with XcException => TaskMgr.NRaise | XcBase => TaskMgr.NFin end, h).

(* which coroutine AsyncExecutor.execute hands to the task manager *)
Inductive coro := CoWrapper | CoUser.
