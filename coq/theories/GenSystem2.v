(* GenSystem2.v — the generated machine of GenSystem.v with the GENERATED PRODUCERS as the trigger of a recurring job
   (C03): "the generated scheduler, job classes, builder and producers together realise the trigger's occurrence
   sequence".

   [gen_trigger_env E0 k PE W n p qs]: the environment in which the trigger of job k is the producer expression p
   EXECUTED BY THE GENERATED CODE of producers/*.py and helpers/time_replace.py, closed with the generated prod_sun.py
   ([GenSunEq.pknot_sun]); its q-th query runs from the producer state that the generated code left behind after the
   queries at the instants [firstn q qs] (for the actual run: the creation instant followed by the execution
   instants; the theorems hold for every qs).  All other triggers, the callables, callbacks and the handler are those
   of E0.  With this environment [gen_run] is the closed system: builder -> job classes -> scheduler -> execute ->
   `self.producer.get_next(now)` -> producers - every arrow generated.

     [gen_system_single_job_exact]   any well-formed producer expression (sun, offset, earliest, latest, jitter,
        groups included): on every clock / wake-up history the executions of the job are those of the reference
        loop [Compose2.ideal] driven by the generated producer;
     [gen_system_enumerates]         time-of-day / interval-with-start / groups of those ([ProdGroup.tig]): the full
        C03 conclusion - in order, never early, each next run the EARLIEST occurrence after the execution, and as long
        as the loop keeps up the served runs enumerate the occurrence set [occ] of the trigger after creation;
     [gen_system_disturbed]          the same for a recurring job created among k other jobs with arbitrary typed
        operations on the other jobs and creations of further jobs ([SchedProj6.disturbed_keepup_enumerates]).

   Hand-written between the pieces, beyond the list in GenSystem.v: how the job's `self.producer.get_next` reaches
   the producer object (GenRtJobs.get_next reads [prod E j k now]; [gen_trigger_env] puts the generated producer
   there), the threading of the producer state from one query to the next ([gen_query_states]; an out-of-fuel query
   leaves it unchanged), [pm_result] (how a producer's exception reaches the job: by the enumeration of Base.err),
   the time-zone table [pz PE] and astral ([sun_ev PE], [sunworld]) as oracles, `random.uniform` as [draw PE]. *)
From EAS Require Import Base BaseFacts Civil Time TimeOrder Filters Replace Producers ProdStrict ProdEarliest2 ProdGroup
  Sched SchedInv SchedApi SchedEqst SchedExact3 Compose Compose2 SchedProj3 SchedProj4 SchedProj6
  GenRt GenRtJobs GenJobsEq GenRtProd GenProdEq GenRtSun GenSunEq GenSystem.
From EASGen Require Import Generated.
From Coq Require Import Sorted.

(* ------------------------------------------------------------------------------------------- *)
(* 1. the generated producers as a trigger *)

Definition pm_result (m : PM Z) : result Z :=
  match m with
  | Some (_, PRet v) => Ok v
  | Some (_, PExc (XErr e)) => Raise e
  | Some (_, PExc _) => Raise EOther        (* never leaves a get_next: [gen_get_next_is_model_sun] *)
  | None => OutOfFuel
  end.
Definition pm_state (m : PM Z) (s0 : pstate) : pstate := match m with Some (s, _) => s | None => s0 end.

Section Trigger.
Variable PE : penv.
Variable W : sunworld.
Variable n : nat.
Variable p : producer.

Definition gen_get_next (st : pstate) (dt : Z) : PM Z := r_get_next (pknot_sun PE W n) p dt st.

Fixpoint gen_query_states (st : pstate) (qs : list Z) : pstate :=
  match qs with
  | [] => st
  | dt :: t => gen_query_states (pm_state (gen_get_next st dt) st) t
  end.

Definition gen_trigger_env (E0 : env) (k : nat) (qs : list Z) : env :=
  {| prod := fun j q t => if Nat.eqb j k
                          then pm_result (gen_get_next (gen_query_states pstate0 (firstn q qs)) t)
                          else prod E0 j q t;
     fail_exec := fail_exec E0; fail_cb := fail_cb E0 |}.

Hypothesis HW : world_ok W.
Hypothesis Hwf : wf_producer p.
Hypothesis Hrank : (srank p <= n)%nat.

Lemma pm_result_lift r : pm_result (GenRtProd.lift r) = fst r.
Proof. destruct r as [[v|e|] s]; reflexivity. Qed.

(* the generated get_next answers what the producer model answers, from every producer state *)
Theorem gen_trigger_is_model st t : pm_result (gen_get_next st t) = fst (Producers.get_next PE p st t).
Proof. unfold gen_get_next. rewrite (gen_get_next_is_model_sun PE W HW n p Hwf Hrank t st). apply pm_result_lift. Qed.

Lemma gen_trigger_state st t :
  pm_state (gen_get_next st t) st = snd (Producers.get_next PE p st t) \/ pm_state (gen_get_next st t) st = st.
Proof.
  unfold gen_get_next. rewrite (gen_get_next_is_model_sun PE W HW n p Hwf Hrank t st).
  destruct (Producers.get_next PE p st t) as [[v|e|] s]; cbn; auto.
Qed.

Lemma gen_trigger_prod E0 k qs q t :
  exists st, st = gen_query_states pstate0 (firstn q qs) /\
             prod (gen_trigger_env E0 k qs) k q t = fst (Producers.get_next PE p st t).
Proof. eexists. split; [reflexivity|]. cbn [prod gen_trigger_env]. rewrite Nat.eqb_refl. apply gen_trigger_is_model. Qed.

(* every answer is strictly after the instant it was asked at *)
Lemma gen_trigger_future E0 k qs q t v : prod (gen_trigger_env E0 k qs) k q t = Ok v -> t < v.
Proof.
  destruct (gen_trigger_prod E0 k qs q t) as (st & _ & ->). intros H.
  destruct (Producers.get_next PE p st t) as [res st'] eqn:EG. cbn [fst] in H. subst res.
  exact (next_strictly_future PE p st t v st' Hwf EG).
Qed.

(* the interval caches stay on their grids along the generated queries *)
Lemma gen_query_on_grid G : wf_tz_b (pz PE) = true -> consistent G -> tig p -> incl (leaves p) G ->
  forall qs st, cache_on_grid G st -> cache_on_grid G (gen_query_states st qs).
Proof.
  intros Hz HG Ht Hl. induction qs as [|dt r IH]; intros st HI; cbn [gen_query_states]; [exact HI|].
  apply IH. destruct (gen_trigger_state st dt) as [-> | ->]; [|exact HI].
  destruct (Producers.get_next PE p st dt) as [res st'] eqn:EG.
  destruct (tig_member_ok PE G Hz HG p Ht Hl st dt res st' HI EG) as (HI' & _). exact HI'.
Qed.

Lemma gen_trigger_earliest G E0 k qs : wf_tz_b (pz PE) = true -> consistent G -> tig p -> incl (leaves p) G ->
  forall q t v, prod (gen_trigger_env E0 k qs) k q t = Ok v -> earliest_after (occ (pz PE) p) t v.
Proof.
  intros Hz HG Ht Hl q t v H. destruct (gen_trigger_prod E0 k qs q t) as (st & Est & Eq). rewrite Eq in H.
  destruct (Producers.get_next PE p st t) as [res st'] eqn:EG. cbn [fst] in H. subst res.
  assert (HI : cache_on_grid G st).
  { rewrite Est. apply (gen_query_on_grid G Hz HG Ht Hl). apply cache_on_grid_pstate0. }
  destruct (tig_earliest PE G Hz HG p st t v st' Ht Hl HI EG) as (H1 & _). exact H1.
Qed.

End Trigger.

(* ------------------------------------------------------------------------------------------- *)
(* 2. typed-ness of the histories of Compose2 / SchedProj6 *)

Lemma ideal_quiet q : forall ops k t c r, ideal q k t c ops = Some r -> forallb quiet ops = true.
Proof.
  induction ops as [|o ops IH]; intros k t c r H; [reflexivity|].
  destruct o; cbn [ideal] in H; try discriminate; cbn [forallb quiet andb].
  - eapply IH; exact H.
  - destruct (c <=? t); [|eapply IH; exact H]. destruct (q k t) as [v|e|]; try discriminate.
    destruct (ideal q (S k) t v ops) as [[xs e]|] eqn:Ei; [|discriminate]. eapply IH; exact Ei.
  - destruct (c <=? t); [|eapply IH; exact H]. destruct (q k t) as [v|e|]; try discriminate.
    destruct (ideal q (S k) t v ops) as [[xs e]|] eqn:Ei; [|discriminate]. eapply IH; exact Ei.
Qed.

Lemma ops_wt_clock E fuel hs : forall ops s, forallb quiet ops = true -> ops_wt E fuel hs s ops.
Proof.
  induction ops as [|o t IH]; intros s H; [exact I|]. cbn [forallb] in H. apply andb_prop in H as (Ho & Ht).
  split; [destruct o; try discriminate; repeat split|apply IH; exact Ht].
Qed.

Lemma J_eqst g s c k : eqst g s -> J s c k -> J g c k.
Proof.
  intros H [a1 a2 a3 a4 a5 a6 a7 a8 a9 a10]. eq_split H.
  constructor; rewrite ?Hj; congruence.
Qed.

Lemma map_oc_repeat m : map oc_of (repeat Done m) = repeat GDone m.
Proof. induction m as [|m IH]; [reflexivity|]. cbn [repeat map oc_of]. rewrite IH. reflexivity. Qed.

Lemma not_nofuel_repeat m : ~ In NoFuel (repeat Done m).
Proof. intros H. apply repeat_spec in H. discriminate. Qed.

(* ------------------------------------------------------------------------------------------- *)
(* 3. the end-to-end statements *)

(* Compose2.c03_conclusion with [gen_run] in the place of [run] *)
Definition gen_c03_conclusion (E : env) (P : Z -> Prop) (fuel : nat) (hs : bool) (t0 key : Z) (ops : list op)
  (xs : list (Z * Z)) (k' : nat) (t' c' : Z) : Prop :=
  exists g,
    (* every operation of the history ends normally in the generated machine *)
    gen_run E fuel hs (init t0 true) (OAt key :: ops) = (g, repeat GDone (S (length ops))) /\
    (* the job is Running, alone in the queue, the timer is armed for its next run c' *)
    J g c' k' /\ now g = t' /\
    (* its executions (instant, announced), oldest first, are those of the reference loop *)
    Compose2.execs O (log g) = xs /\
    StronglySorted Z.lt (map fst xs) /\
    Forall (fun x => t0 <= fst x <= t' /\ snd x <= fst x /\ fst x < c') xs /\
    Forall2 (fun x v => earliest_after P (fst x) v) xs (tl (map snd xs ++ [c'])) /\
    (keeps_up P xs -> enumerates P t0 (map Ok (map snd xs ++ [c']))).

Section EndToEnd.
Variable PE : penv.
Variable W : sunworld.
Variable n : nat.
Variable p : producer.
Variable E0 : env.
Hypothesis HW : world_ok W.
Hypothesis Hwf : wf_producer p.
Hypothesis Hrank : (srank p <= n)%nat.

(* (1) ANY well-formed producer expression as the trigger of the only job: the generated stack executes the job
   exactly as the reference loop driven by the generated producer says *)
Theorem gen_system_single_job_exact qs f hs t0 key ops a1 xs k' t' c' :
  let E := gen_trigger_env PE W n p E0 O qs in
  prod E O O t0 = Ok a1 ->
  ideal (prod E O) 1 t0 a1 ops = Some (xs, (k', t', c')) ->
  exists g, gen_run E (S (S (S (S f)))) hs (init t0 true) (OAt key :: ops) = (g, repeat GDone (S (length ops))) /\
            J g c' k' /\ now g = t' /\ Compose2.execs O (log g) = xs.
Proof.
  intros E Hp Hi.
  assert (Hfut : forall k t v, prod E O k t = Ok v -> t < v).
  { intros k t v. apply (gen_trigger_future PE W n p HW Hwf Hrank E0 O qs). }
  destruct (single_job_exact E Hfut f hs t0 key ops a1 xs k' t' c' Hp Hi) as (s & Hr & HJ & Hnw & Hx).
  assert (Hw : ops_wt E (S (S (S (S f)))) hs (init t0 true) (OAt key :: ops)).
  { split; [repeat split|]. apply ops_wt_clock. exact (ideal_quiet _ _ _ _ _ _ Hi). }
  destruct (gen_run_is_model E _ hs t0 true _ s _ Hw Hr (not_nofuel_repeat _)) as (g & Hg & He).
  exists g. rewrite Hg, map_oc_repeat. split; [reflexivity|]. split; [exact (J_eqst _ _ _ _ He HJ)|].
  pose proof He as He'. eq_split He'. rewrite Hnow, Hlog. auto.
Qed.

(* (2) time-of-day / interval / group triggers: the full C03 conclusion for the generated stack *)
Theorem gen_system_enumerates G qs f hs t0 key ops a1 xs k' t' c' :
  wf_tz_b (pz PE) = true -> consistent G -> tig p -> incl (leaves p) G ->
  let E := gen_trigger_env PE W n p E0 O qs in
  prod E O O t0 = Ok a1 ->
  ideal (prod E O) 1 t0 a1 ops = Some (xs, (k', t', c')) ->
  gen_c03_conclusion E (occ (pz PE) p) (S (S (S (S f)))) hs t0 key ops xs k' t' c'.
Proof.
  intros Hz HG Ht Hl E Hp Hi.
  assert (Hspec : forall k t v, prod E O k t = Ok v -> earliest_after (occ (pz PE) p) t v).
  { apply (gen_trigger_earliest PE W n p HW Hwf Hrank G E0 O qs Hz HG Ht Hl). }
  destruct (keepup_enumerates E (occ (pz PE) p) f hs t0 key ops a1 xs k' t' c' Hspec Hp Hi)
    as (s & Hr & HJ & Hnw & Hx & R1 & R2 & R3 & R4).
  assert (Hw : ops_wt E (S (S (S (S f)))) hs (init t0 true) (OAt key :: ops)).
  { split; [repeat split|]. apply ops_wt_clock. exact (ideal_quiet _ _ _ _ _ _ Hi). }
  destruct (gen_run_is_model E _ hs t0 true _ s _ Hw Hr (not_nofuel_repeat _)) as (g & Hg & He).
  exists g. rewrite Hg, map_oc_repeat. split; [reflexivity|]. split; [exact (J_eqst _ _ _ _ He HJ)|].
  pose proof He as He'. eq_split He'. rewrite Hnow, Hlog. auto 10.
Qed.

(* (3) the recurring job with the generated trigger among k other jobs: [pre] creates k jobs and does not address
   job k, then job k is created, then arbitrary typed operations on the clock, the loop and the other jobs *)
Theorem gen_system_disturbed G k qs fuel hs t0 en key pre ops a1 xs k' t' c' :
  wf_tz_b (pz PE) = true -> consistent G -> tig p -> incl (leaves p) G ->
  let E := gen_trigger_env PE W n p E0 k qs in
  let h := pre ++ OAt key :: ops in
  ops_wt E fuel hs (init t0 en) h ->
  ~ In NoFuel (snd (run E fuel hs (init t0 en) h)) -> ~ In (Raised EKeyError) (snd (run E fuel hs (init t0 en) h)) ->
  hist_ok true h = true ->
  ncre pre = k -> forallb (fun o => negb (addresses k o)) pre = true -> enf en pre = true ->
  forallb (foreign k) ops = true ->
  prod E k 0 (clock t0 pre) = Ok a1 ->
  ideal (prod E k) 1 (clock t0 pre) a1 (filter quiet ops) = Some (xs, (k', t', c')) ->
  let g := fst (gen_run E fuel hs (init t0 en) h) in
  snd (gen_run E fuel hs (init t0 en) h) = map oc_of (snd (run E fuel hs (init t0 en) h)) /\
  Compose2.execs k (log g) = xs /\ jstatus (jobs g k) = Running /\ jnext (jobs g k) = Some c' /\ now g = t' /\
  StronglySorted Z.lt (map fst xs) /\
  Forall (fun x => clock t0 pre <= fst x <= t' /\ snd x <= fst x /\ fst x < c') xs /\
  Forall2 (fun x v => earliest_after (occ (pz PE) p) (fst x) v) xs (tl (map snd xs ++ [c'])) /\
  (keeps_up (occ (pz PE) p) xs -> enumerates (occ (pz PE) p) (clock t0 pre) (map Ok (map snd xs ++ [c']))).
Proof.
  intros Hz HG Ht Hl E h Hw Hnf Hke Hok Hnc Hpre Henf Hfor Hp Hi g.
  assert (Hspec : forall q t v, prod E k q t = Ok v -> earliest_after (occ (pz PE) p) t v).
  { apply (gen_trigger_earliest PE W n p HW Hwf Hrank G E0 k qs Hz HG Ht Hl). }
  destruct (gen_run_fst E fuel hs t0 en h Hw Hnf) as (He & Hout). fold g in He.
  destruct (run E fuel hs (init t0 en) h) as (s, rs) eqn:Hrun. cbn [fst snd] in *.
  destruct (disturbed_keepup_enumerates E k (occ (pz PE) p) fuel hs t0 en key pre ops s rs a1 xs k' t' c'
              Hspec Hrun Hnf Hke Hok Hnc Hpre Henf Hfor Hp Hi) as (R1 & R2 & R3 & R4 & R5).
  split; [exact Hout|]. pose proof He as He'. eq_split He'. rewrite Hlog, Hj, Hnow. auto 10.
Qed.

End EndToEnd.

(* ------------------------------------------------------------------------------------------- *)
(* 4. The hypotheses are satisfiable and the statements say something: the example of Compose2 (02:30 local on the
   two-transition Berlin table, created shortly before 2025-10-25 00:30Z, the loop wakes 100 s late each time,
   2025-10-26 has 02:30 twice; one execution fails) with the trigger EXECUTED BY THE GENERATED PRODUCER CODE. *)
Definition gx_p : producer := PTime (tr0230 SkLater RpTwice) None.
Definition gx_E0 : env :=
  {| prod := fun _ _ _ => Raise EOther; fail_exec := fun _ k => Nat.eqb k 1; fail_cb := fun _ _ => false |}.
Definition gx_qs : list Z := [ex_t0; 1761352300 * NS; 1761438700 * NS; 1761442300 * NS].
Definition gx_E : env := gen_trigger_env ProdGroup.ex_env world0 3 gx_p gx_E0 O gx_qs.

Example gx_ideal :
  prod gx_E O O ex_t0 = Ok (1761352200 * NS) /\
  ideal (prod gx_E O) 1 ex_t0 (1761352200 * NS) ex_ops = Some (ex_xs, (4%nat, 1761442400 * NS, 1761528600 * NS)).
Proof. split; vm_compute; reflexivity. Qed.

(* computed, independent of the theorems: the generated machine with the generated producer *)
Example gx_run :
  let '(g, outs) := gen_run gx_E 4 true (init ex_t0 true) (OAt 7 :: ex_ops) in
  outs = repeat GDone 12 /\ Compose2.execs O (log g) = ex_xs /\ jnext (jobs g O) = Some (1761528600 * NS) /\
  timer g = Some (1761528600 * NS) /\ queue g = [O] /\ store g = [(7, O)].
Proof. vm_compute. repeat split; reflexivity. Qed.

(* by the theorem: the full C03 conclusion for the generated stack *)
Example gx_system :
  gen_c03_conclusion gx_E (occ berlin2 gx_p) 4 true ex_t0 7 ex_ops ex_xs 4 (1761442400 * NS) (1761528600 * NS).
Proof.
  destruct ex_wf as (Hz & Ht). destruct gx_ideal as (Hp & Hi).
  refine (gen_system_enumerates ProdGroup.ex_env world0 3 gx_p gx_E0 world0_ok I _ [] gx_qs O true ex_t0 7 ex_ops _
            ex_xs _ _ _ Hz _ Ht _ Hp Hi).
  - cbn. lia.
  - intros ? ? ? ? ? [].
  - intros x [].
Qed.
