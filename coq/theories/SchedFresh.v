(* SchedFresh.v — every start recorded in the log carries the index of the operation it happened in, and that
   index is below the current operation index at the beginning of every operation.  Hence [cx s = []] (nothing
   started yet in this operation) holds at every operation boundary of every history, which turns the per-
   operation order theorems of SchedOrder.v into statements about all reachable states. *)
From EAS Require Import Base BaseFacts Sched SchedInv SchedApi SchedOrder.
From EASGen Require Import Generated.

Section Fresh.
Variable E : env.

Definition bnd (n : nat) (e : event) : Prop :=
  match e with EExec _ _ _ o => (o <= n)%nat | _ => True end.
Definition LB (s : st) : Prop := Forall (bnd (opi s)) (log s).

Lemma LB_add e s : bnd (opi s) e -> LB s -> LB (add_ev e s).
Proof. intros He H. unfold LB, add_ev; cbn [log set_log opi]. constructor; assumption. Qed.

Lemma LB_same s s' : log s' = log s -> opi s' = opi s -> LB s -> LB s'.
Proof. unfold LB; intros -> ->; auto. Qed.

Lemma LB_run_cbs mk cbs s : (forall cb n, bnd n (mk cb)) -> LB s -> LB (run_cbs E mk cbs s) /\ opi (run_cbs E mk cbs s) = opi s.
Proof.
  intros Hmk. revert s; induction cbs as [|cb t IH]; intros s H; cbn [run_cbs]; [split; [exact H|reflexivity]|].
  destruct (fail_cb E cb _).
  - destruct (IH (add_ev (EHandler (HCb cb)) (add_ev (mk cb) s))) as (a & b).
    + apply LB_add; [exact I|]. apply LB_add; [apply Hmk|exact H].
    + split; [exact a|rewrite b; reflexivity].
  - destruct (IH (add_ev (mk cb) s)) as (a & b); [apply LB_add; [apply Hmk|exact H]|].
    split; [exact a|rewrite b; reflexivity].
Qed.

Lemma LB_set_next_run j nx s : LB s -> LB (set_next_run E j nx s) /\ opi (set_next_run E j nx s) = opi s.
Proof.
  intros H. unfold set_next_run. cbv zeta.
  match goal with |- LB (run_cbs E ?mk ?cbs ?sx) /\ _ => destruct (LB_run_cbs mk cbs sx) as (a & b) end;
    [intros; exact I|eapply LB_same; [..|exact H]; reflexivity|].
  split; [exact a|rewrite b; reflexivity].
Qed.

Lemma LB_finish_job j s : LB s -> LB (finish_job E j s) /\ opi (finish_job E j s) = opi s.
Proof.
  intros H. unfold finish_job. cbv zeta.
  match goal with |- LB (run_cbs E ?mk ?cbs ?sx) /\ _ => destruct (LB_run_cbs mk cbs sx) as (a & b) end;
    [intros; exact I|destruct (jstored (jobs s j)); (eapply LB_same; [..|exact H]; reflexivity)|].
  split; [exact a|rewrite b; destruct (jstored (jobs s j)); reflexivity].
Qed.

Definition P (s s' : st) : Prop := LB s' /\ opi s' = opi s.

Definition fresh_specs (f : nat) : Prop :=
  (forall s s', LB s -> set_timer E f s = Some s' -> P s s') /\
  (forall s s', LB s -> run_jobs E f s = Some s' -> P s s') /\
  (forall s s', LB s -> run_loop E f s = Some s' -> P s s') /\
  (forall j s s', LB s -> add_job E f j s = Some s' -> P s s') /\
  (forall j s s', LB s -> remove_job E f j s = Some s' -> P s s') /\
  (forall j t s s', LB s -> exec_job E f j t s = Some s' -> P s s').

Lemma P_refl s : LB s -> P s s. Proof. intros H; split; [exact H|reflexivity]. Qed.
Lemma P_trans a b c : P a b -> P b c -> P a c.
Proof. intros (h1 & e1) (h2 & e2). split; [exact h2|congruence]. Qed.

Theorem fresh_specs_all : forall f, fresh_specs f.
Proof.
  induction f as [|f (IHst & IHrj & IHlp & IHadd & IHrm & IHex)].
  - repeat split; intros; discriminate.
  - split; [|split; [|split; [|split; [|split]]]].
    + intros s s' H Hs. rewrite set_timer_S in Hs. cbv zeta in Hs.
      assert (H0 : LB (set_timer_f None s)) by (eapply LB_same; [..|exact H]; reflexivity).
      destruct (queue (set_timer_f None s)); [injection Hs as <-; split; [exact H0|reflexivity]|].
      destruct (negb (enabled (set_timer_f None s))); [injection Hs as <-; split; [exact H0|reflexivity]|].
      destruct (jnext _) as [t|]; [|injection Hs as <-; split; [exact H0|reflexivity]].
      destruct (t <=? _); [apply (IHrj _ _ H0 Hs)|injection Hs as <-; split; [exact H0|reflexivity]].
    + intros s s' H Hs. rewrite run_jobs_S in Hs. cbv zeta in Hs.
      assert (H0 : LB (set_timer_f None s)) by (eapply LB_same; [..|exact H]; reflexivity).
      destruct (run_loop E f (set_timer_f None s)) as [s1|] eqn:EL; [|discriminate].
      pose proof (IHlp _ _ H0 EL) as P1.
      destruct (broken s1); [injection Hs as <-; exact P1|].
      destruct (queue s1); [injection Hs as <-; exact P1|].
      eapply (P_trans s s1 s'); [exact P1|apply (IHst _ _ (proj1 P1) Hs)].
    + intros s s' H Hs. rewrite run_loop_S in Hs.
      destruct (queue s) as [|h q]; [injection Hs as <-; apply P_refl; exact H|].
      destruct (jnext (jobs s h)) as [t|]; [|injection Hs as <-; split; [apply LB_add; [exact I|exact H]|reflexivity]].
      destruct (now s <? t); [injection Hs as <-; apply P_refl; exact H|]. cbv zeta in Hs.
      assert (H0 : LB (set_queue q s)) by (eapply LB_same; [..|exact H]; reflexivity).
      destruct (exec_job E f h t (set_queue q s)) as [s2|] eqn:EX; [|discriminate].
      pose proof (IHex _ _ _ _ H0 EX) as P2.
      assert (P02 : P s s2) by (destruct P2 as (a & b); split; [exact a|exact b]).
      destruct (status_eqb _ _).
      * destruct (add_job E f h s2) as [s3|] eqn:EA; [|discriminate].
        pose proof (IHadd _ _ _ (proj1 P2) EA) as P3.
        eapply P_trans; [exact P02|]. eapply P_trans; [exact P3|]. apply (IHlp _ _ (proj1 P3) Hs).
      * eapply P_trans; [exact P02|]. apply (IHlp _ _ (proj1 P2) Hs).
    + intros j s s' H Hs. rewrite add_job_S in Hs.
      destruct (status_eqb _ _); [|injection Hs as <-; apply P_refl; exact H]. cbv zeta in Hs.
      assert (H0 : LB (set_queue (insort s j (queue s)) s)) by (eapply LB_same; [..|exact H]; reflexivity).
      destruct (is_head _ _); [apply (IHst _ _ H0 Hs)|injection Hs as <-; split; [exact H0|reflexivity]].
    + intros j s s' H Hs. rewrite remove_job_S in Hs.
      destruct (queue s) as [|h t]; [apply (IHst _ _ H Hs)|]. cbv zeta in Hs.
      assert (H0 : forall q, LB (set_queue q s)) by (intros q; eapply LB_same; [..|exact H]; reflexivity).
      destruct (remove_first j (h :: t)) as [|h' t'].
      * apply (IHst _ _ (H0 []) Hs).
      * destruct (Nat.eqb h j); [apply (IHst _ _ (H0 _) Hs)|injection Hs as <-; split; [apply H0|reflexivity]].
    + intros j t s s' H Hs. rewrite exec_job_S in Hs. cbv zeta in Hs.
      assert (H0 : LB (exec_pre E j t s) /\ opi (exec_pre E j t s) = opi s).
      { unfold exec_pre. destruct (fail_exec E j _); (split; [|reflexivity]).
        - apply LB_add; [exact I|]. apply LB_add; [cbn; lia|exact H].
        - apply LB_add; [cbn; lia|exact H]. }
      destruct H0 as (H0 & O0).
      destruct (jkind _).
      * destruct (remove_job E f j _) as [s1|] eqn:ER; [|discriminate]. injection Hs as <-.
        destruct (IHrm _ _ _ H0 ER) as (a & b). destruct (LB_finish_job j s1 a) as (c & d).
        split; [exact c|congruence].
      * injection Hs as <-. destruct (LB_set_next_run j None _ H0) as (c & d). split; [exact c|congruence].
      * assert (H1 : LB (add_ev (EProd j) (exec_pre E j t s))) by (apply LB_add; [exact I|exact H0]).
        destruct (prod E j _ _) as [v|e|]; [|injection Hs as <-; split; [apply LB_add; [exact I|exact H1]|exact O0]|discriminate].
        destruct (too_old _ v); [injection Hs as <-; split; [apply LB_add; [exact I|exact H1]|exact O0]|].
        injection Hs as <-. destruct (LB_set_next_run j (Some v) _ H1) as (c & d). split; [exact c|].
        rewrite d. exact O0.
Qed.

Lemma P_job_finish fuel j s s' : LB s -> job_finish E fuel j s = Some s' -> P s s'.
Proof.
  intros H Hs. rewrite job_finish_eq in Hs. destruct (remove_job E fuel j s) as [s1|] eqn:ER; [|discriminate].
  injection Hs as <-. destruct (fresh_specs_all fuel) as (_ & _ & _ & _ & Hrm & _).
  destruct (Hrm _ _ _ H ER) as (a & e1). destruct (LB_finish_job j s1 a) as (c & d). split; [exact c|congruence].
Qed.

Lemma P_update_job fuel j s s' : LB s -> update_job E fuel j s = Some s' -> P s s'.
Proof.
  intros H Hs. unfold update_job in Hs. destruct (remove_job E fuel j s) as [s1|] eqn:ER; [|discriminate].
  destruct (fresh_specs_all fuel) as (_ & _ & _ & Hadd & Hrm & _).
  pose proof (Hrm _ _ _ H ER) as P1. eapply P_trans; [exact P1|apply (Hadd _ _ _ (proj1 P1) Hs)].
Qed.

Lemma P_create fuel hs b0 s s' r : LB s -> create E fuel hs b0 s = (s', r) -> P s s'.
Proof.
  intros H Hs. unfold create in Hs.
  destruct (hs && store_has _ _); [injection Hs as <- _; apply P_refl; exact H|]. cbv zeta in Hs.
  match type of Hs with context [jkind ?bb] => set (b1 := bb) in * end.
  match type of Hs with context [too_old ?sx (jexec_t b1)] => set (s1 := sx) in * end.
  assert (P1 : P s s1) by (subst s1; destruct hs; (split; [eapply LB_same; [..|exact H]; reflexivity|reflexivity])).
  clearbody s1.
  destruct (fresh_specs_all fuel) as (_ & _ & _ & Hadd & _).
  assert (Hfin : forall sx e, P s sx ->
            (match job_finish E fuel (njobs s) sx with Some sy => (sy, Raised e) | None => (sx, NoFuel) end) = (s', r) -> P s s').
  { intros sx e Px Hy. destruct (job_finish E fuel (njobs s) sx) as [sy|] eqn:EF; injection Hy as <- _; [|exact Px].
    eapply P_trans; [exact Px|eapply P_job_finish; [exact (proj1 Px)|exact EF]]. }
  assert (Harm : forall sx nx, P s sx ->
            lift (add_job E fuel (njobs s) (set_next_run E (njobs s) nx sx)) (set_next_run E (njobs s) nx sx) = (s', r) -> P s s').
  { intros sx nx Px Hy. unfold lift in Hy.
    destruct (LB_set_next_run (njobs s) nx sx (proj1 Px)) as (a & b).
    assert (P2 : P s (set_next_run E (njobs s) nx sx)) by (split; [exact a|rewrite b; exact (proj2 Px)]).
    destruct (add_job E fuel _ _) as [sy|] eqn:EA; injection Hy as <- _; [|exact P2].
    eapply P_trans; [exact P2|apply (Hadd _ _ _ a EA)]. }
  destruct (jkind b1).
  - destruct (too_old s1 _); [eapply Hfin|eapply Harm]; eassumption.
  - eapply Harm; eassumption.
  - assert (P2 : P s (add_ev (EProd (njobs s)) s1)).
    { split; [apply LB_add; [exact I|exact (proj1 P1)]|exact (proj2 P1)]. }
    destruct (prod E _ _ _) as [v|e|].
    + destruct (too_old _ v); [eapply Hfin|eapply Harm]; eassumption.
    + eapply Hfin; eassumption.
    + injection Hs as <- _. exact P2.
Qed.

Theorem P_step_op fuel hs s o s' r : LB s -> step_op E fuel hs s o = (s', r) -> P s s'.
Proof.
  intros H Hs. destruct (fresh_specs_all fuel) as (Hst & Hrj & _ & _ & Hrm & _).
  destruct o; cbn [step_op] in Hs.
  - eapply P_create; eassumption.
  - destruct (secs <=? 0); [injection Hs as <- _; apply P_refl; exact H|eapply P_create; eassumption].
  - eapply P_create; eassumption.
  - destruct (is_finished s j); [injection Hs as <- _; apply P_refl; exact H|].
    unfold lift in Hs. destruct (job_finish E fuel j s) as [s1|] eqn:EF; injection Hs as <- _; [|apply P_refl; exact H].
    eapply P_job_finish; eassumption.
  - destruct (is_finished s j); [injection Hs as <- _; apply P_refl; exact H|].
    destruct (remove_job E fuel j s) as [s1|] eqn:ER; injection Hs as <- _; [|apply P_refl; exact H].
    pose proof (Hrm _ _ _ H ER) as P1. destruct (LB_set_next_run j None s1 (proj1 P1)) as (a & b).
    split; [exact a|rewrite b; exact (proj2 P1)].
  - destruct (is_finished s j); [injection Hs as <- _; apply P_refl; exact H|].
    destruct (negb _); [injection Hs as <- _; apply P_refl; exact H|]. cbv zeta in Hs.
    assert (P1 : P s (add_ev (EProd j) s)) by (split; [apply LB_add; [exact I|exact H]|reflexivity]).
    destruct (prod E j _ _) as [v|e|]; [|injection Hs as <- _; exact P1|injection Hs as <- _; exact P1].
    destruct (too_old _ v); [injection Hs as <- _; exact P1|].
    destruct (LB_set_next_run j (Some v) _ (proj1 P1)) as (a & b).
    assert (P2 : P s (set_next_run E j (Some v) (add_ev (EProd j) s))) by (split; [exact a|rewrite b; exact (proj2 P1)]).
    unfold lift in Hs. destruct (update_job E fuel j _) as [s2|] eqn:EU; injection Hs as <- _; [|exact P1].
    eapply P_trans; [exact P2|eapply P_update_job; [exact a|exact EU]].
  - destruct (negb _); [injection Hs as <- _; apply P_refl; exact H|]. cbv zeta in Hs.
    destruct (LB_set_next_run j (Some (now s + jsecs (jobs s j))) s H) as (a & b).
    assert (P2 : P s (set_next_run E j (Some (now s + jsecs (jobs s j))) s)) by (split; [exact a|exact b]).
    unfold lift in Hs. destruct (update_job E fuel j _) as [s2|] eqn:EU; injection Hs as <- _; [|exact P2].
    eapply P_trans; [exact P2|eapply P_update_job; [exact a|exact EU]].
  - destruct (is_finished s j); [injection Hs as <- _; apply P_refl; exact H|].
    destruct (secs <=? 0); injection Hs as <- _; (split; [eapply LB_same; [..|exact H]; reflexivity|reflexivity]).
  - destruct (Bool.eqb b (enabled s)); [injection Hs as <- _; apply P_refl; exact H|]. cbv zeta in Hs.
    assert (H0 : LB (set_enabled_f b s)) by (eapply LB_same; [..|exact H]; reflexivity).
    unfold lift in Hs. destruct (set_timer E fuel _) as [s2|] eqn:ES; injection Hs as <- _.
    + destruct (Hst _ _ H0 ES) as (a & c). split; [exact a|exact c].
    + split; [exact H0|reflexivity].
  - destruct w; [destruct (memb cb (jcbu (jobs s j)))|destruct (memb cb (jcbf (jobs s j)))];
      injection Hs as <- _; (split; [eapply LB_same; [..|exact H]; reflexivity|reflexivity]).
  - destruct w; injection Hs as <- _; (split; [eapply LB_same; [..|exact H]; reflexivity|reflexivity]).
  - injection Hs as <- _. split; [eapply LB_same; [..|exact H]; reflexivity|reflexivity].
  - destruct (timer s) as [w|]; [|injection Hs as <- _; apply P_refl; exact H].
    destruct (w <=? now s); [|injection Hs as <- _; apply P_refl; exact H].
    unfold lift in Hs. destruct (run_jobs E fuel s) as [s2|] eqn:ER; injection Hs as <- _; [|apply P_refl; exact H].
    apply (Hrj _ _ H ER).
  - destruct (timer s) as [w|]; [|injection Hs as <- _; apply P_refl; exact H].
    unfold lift in Hs. destruct (run_jobs E fuel s) as [s2|] eqn:ER; injection Hs as <- _; [|apply P_refl; exact H].
    apply (Hrj _ _ H ER).
Qed.

(* at operation boundaries every recorded start belongs to an EARLIER operation *)
Definition Fresh (s : st) : Prop :=
  forall j at_ a o, In (EExec j at_ a o) (log s) -> (o < opi s)%nat.

Lemma Fresh_LB s : Fresh s -> LB s.
Proof.
  intros H. unfold LB. apply Forall_forall. intros e He. destruct e; try exact I. cbn.
  specialize (H _ _ _ _ He). lia.
Qed.

Theorem Fresh_step fuel hs s o s' r : Fresh s -> step E fuel hs s o = (s', r) -> Fresh s'.
Proof.
  intros H Hs. unfold step in Hs. destruct (step_op E fuel hs s o) as (s1, r1) eqn:EO. injection Hs as <- _.
  destruct (P_step_op fuel hs s o s1 r1 (Fresh_LB s H) EO) as (a & b).
  intros j at_ x o' Hin. cbn [log opi set_opi] in *. unfold LB in a. rewrite Forall_forall in a.
  specialize (a _ Hin). cbn in a. lia.
Qed.

Theorem Fresh_run fuel hs ops : forall s s' rs, Fresh s -> run E fuel hs s ops = (s', rs) -> Fresh s'.
Proof.
  induction ops as [|o t IH]; intros s s' rs H Hs; cbn [run] in Hs.
  - injection Hs as <- _. exact H.
  - destruct (step E fuel hs s o) as (s1, r) eqn:ES. destruct (run E fuel hs s1 t) as (s2, rs') eqn:ER.
    injection Hs as <- _. eapply IH; [|exact ER]. eapply Fresh_step; eassumption.
Qed.

Lemma cur_execs_fresh n l :
  (forall j at_ a o, In (EExec j at_ a o) l -> (o < n)%nat) -> cur_execs n l = [].
Proof.
  induction l as [|e t IH]; intros H; [reflexivity|].
  assert (Ht : forall j at_ a o, In (EExec j at_ a o) t -> (o < n)%nat) by (intros; eapply H; right; eassumption).
  destruct e as [j at_ a o| | | |]; cbn [cur_execs]; try (apply IH; exact Ht).
  assert (Ho : (o < n)%nat) by (eapply H; left; reflexivity).
  destruct (Nat.eqb_spec o n); [lia|apply IH; exact Ht].
Qed.

Lemma Fresh_cx s : Fresh s -> cx s = [].
Proof. intros H. unfold cx. apply cur_execs_fresh. exact H. Qed.

(* in every reachable state nothing has been started yet in the operation that is about to begin *)
Theorem reachable_cx_fresh fuel hs t0 en ops s rs :
  run E fuel hs (init t0 en) ops = (s, rs) -> cx s = [].
Proof.
  intros H. apply Fresh_cx. eapply Fresh_run; [|exact H]. intros j at_ a o [].
Qed.

(* C09 / C02 for every reachable state: in ANY history, the wake-up (or the re-enabling) that follows starts the
   due jobs in non-decreasing order of their announced next-run times, each job at most once *)
Theorem wake_order_reachable
  (prod_ok : forall j k t, exists v, prod E j k t = Ok v /\ t < v) fuel hs t0 en ops s rs s' :
  run E fuel hs (init t0 en) ops = (s, rs) -> ~ In NoFuel rs ->
  step_op E fuel hs s OWake = (s', Done) ->
  Sorted.StronglySorted (fun x y => snd y <= snd x) (cx s') /\ NoDup (map fst (cx s')).
Proof.
  intros H Hnf Hs. eapply (wake_order E prod_ok); [|eapply reachable_cx_fresh; exact H|exact Hs].
  exact (run_inv E fuel hs ops _ _ _ (Inv_init t0 en) H Hnf).
Qed.

Theorem enable_order_reachable
  (prod_ok : forall j k t, exists v, prod E j k t = Ok v /\ t < v) fuel hs t0 en ops s rs s' :
  run E fuel hs (init t0 en) ops = (s, rs) -> ~ In NoFuel rs -> enabled s = false ->
  step_op E fuel hs s (OEnable true) = (s', Done) ->
  Sorted.StronglySorted (fun x y => snd y <= snd x) (cx s') /\ NoDup (map fst (cx s')).
Proof.
  intros H Hnf En Hs. eapply (enable_order E prod_ok); [|eapply reachable_cx_fresh; exact H|exact En|exact Hs].
  exact (run_inv E fuel hs ops _ _ _ (Inv_init t0 en) H Hnf).
Qed.

End Fresh.
