(* Producers.v — executable model of the trigger producers (producers/prod_time.py, prod_interval.py,
   prod_group.py, prod_operation.py, base.py, prod_sun.py) over an explicit time-zone table.
   Written after the Python statement by statement; loops are [iter_until] with the loop bound taken
   from the generated facts.  No proofs here.                                                        *)
From EAS Require Import Base Civil Time Filters Replace.
From EASGen Require Import Generated.

Inductive producer :=
  | PTime (tr : treplacer) (f : option filt)
  | PInterval (id : nat) (start : option Z) (iv : Z) (f : option filt)   (* id names its _next cell *)
  | PGroup (ps : list producer) (f : option filt)
  | POffset (p : producer) (off : Z) (f : option filt)
  | PEarliest (p : producer) (tr : treplacer) (f : option filt)
  | PLatest (p : producer) (tr : treplacer) (f : option filt)
  | PJitter (p : producer) (lo hi : Z) (f : option filt)
  | PSun (key : nat) (f : option filt).                                   (* key = class + parameters *)

(* everything a producer does not control *)
Record penv := {
  pz : tz;                                   (* the system time zone *)
  draw : nat -> Z -> Z -> Z;                 (* random.uniform: k-th draw, bounds (ns) -> value (ns) *)
  sun_ev : nat -> Z -> option Z;             (* astral: producer key, UTC day -> event (ns), None = ValueError *)
  location : option nat;                     (* configured location (None: LocationNotSetError) *)
  interval_fuel : positive                   (* budget for IntervalProducer's unbounded filter search *)
}.

Record pstate := {
  icache : list (nat * Z);                   (* IntervalProducer._next per producer id *)
  ndraws : nat;
  scache : list ((nat * Z * nat) * Z)        (* SUN_CACHE, oldest first: (key, UTC day, location) -> instant *)
}.
Definition pstate0 : pstate := {| icache := []; ndraws := O; scache := [] |}.

Definition with_icache v s := {| icache := v; ndraws := ndraws s; scache := scache s |}.
Definition with_ndraws v s := {| icache := icache s; ndraws := v; scache := scache s |}.
Definition with_scache v s := {| icache := icache s; ndraws := ndraws s; scache := v |}.

Fixpoint ilookup (id : nat) (l : list (nat * Z)) : option Z :=
  match l with [] => None | (k, v) :: t => if Nat.eqb k id then Some v else ilookup id t end.
Fixpoint iset (id : nat) (v : Z) (l : list (nat * Z)) : list (nat * Z) :=
  match l with
  | [] => [(id, v)]
  | (k, w) :: t => if Nat.eqb k id then (k, v) :: t else (k, w) :: iset id v t
  end.

Definition allow_opt (z : tz) (f : option filt) (i : Z) : bool :=
  match f with None => true | Some g => allow g (to_local z i) end.

(* ------------------------------------------------------------------------------------------- *)
(* TimeProducer.get_next: walk the local dates, starting one day before dt's local date *)
Definition time_step (z : tz) (tr : treplacer) (f : option filt) (dt : Z) (day : Z) : Z + result Z :=
  match replace z tr day with
  | RExn e => inr (Raise e)
  | RSkip => inl (day + 1)
  | ROne i => if (dt <? i) && allow_opt z f i then inr (Ok i) else inl (day + 1)
  | RTwo a b => if (dt <? a) && allow_opt z f a then inr (Ok a)
                else if (dt <? b) && allow_opt z f b then inr (Ok b) else inl (day + 1)
  end.
Definition next_time (z : tz) (tr : treplacer) (f : option filt) (dt : Z) : result Z :=
  match iter_until loop_bound (time_step z tr f dt) (local_day (to_local z dt) - 1) with
  | inr r => r
  | inl _ => Raise EInfiniteLoop
  end.

(* IntervalProducer.get_next from the cached grid point c: back to <= dt, forward to > dt, then on
   while the filter rejects (that last loop has no bound in the code: explicit fuel here) *)
Definition interval_back (c iv dt : Z) : Z := if dt <? c then c - ((c - dt + iv - 1) / iv) * iv else c.
Definition interval_first (g0 iv dt : Z) : Z := g0 + ((dt - g0) / iv + 1) * iv.
Definition next_interval (z : tz) (fuel : positive) (c iv : Z) (f : option filt) (dt : Z) : result Z :=
  let g1 := interval_first (interval_back c iv dt) iv dt in
  match iter_until fuel (fun g => if allow_opt z f g then inr g else inl (g + iv)) g1 with
  | inr g => Ok g
  | inl _ => OutOfFuel
  end.

(* operations *)
Definition clamp_target (z : tz) (tr : treplacer) (n dt : Z) : result (option Z) :=
  match replace z tr (local_day (to_local z n)) with
  | RSkip => Ok None
  | RExn e => Raise e
  | ROne e => Ok (Some e)
  | RTwo a b => Ok (Some (if a <=? dt then b else a))
  end.
Definition apply_earliest (z : tz) (tr : treplacer) (n dt : Z) : result Z :=
  match clamp_target z tr n dt with
  | Ok None => Ok n
  | Ok (Some e) => Ok (if n <? e then e else n)
  | Raise e => Raise e
  | OutOfFuel => OutOfFuel
  end.
Definition apply_latest (z : tz) (tr : treplacer) (n dt : Z) : result Z :=
  match clamp_target z tr n dt with
  | Ok None => Ok n
  | Ok (Some e) => Ok (if e <? n then e else n)
  | Raise e => Raise e
  | OutOfFuel => OutOfFuel
  end.
Definition jitter_bounds (lo hi n dt : Z) : Z * Z :=
  if 0 <=? lo then (lo, hi)
  else let lowest := dt - n in
       if lowest <? lo then (lo, hi)
       else let diff := lowest - lo + jitter_eps_ns in (lo + diff, hi + diff).

(* sun: _get_next_sun with the process-wide cache *)
Definition utc_day (i : Z) : Z := i / DAY.
Definition round_up_sec (v : Z) : Z := ((v + NS - 1) / NS) * NS.
Definition skey_eqb (a b : nat * Z * nat) : bool :=
  let '(k1, d1, l1) := a in let '(k2, d2, l2) := b in Nat.eqb k1 k2 && Z.eqb d1 d2 && Nat.eqb l1 l2.
Fixpoint slookup (k : nat * Z * nat) (l : list ((nat * Z * nat) * Z)) : option Z :=
  match l with [] => None | (k', v) :: t => if skey_eqb k k' then Some v else slookup k t end.
Fixpoint sremove (k : nat * Z * nat) (l : list ((nat * Z * nat) * Z)) : list ((nat * Z * nat) * Z) :=
  match l with [] => [] | (k', v) :: t => if skey_eqb k k' then t else (k', v) :: sremove k t end.
Definition sun_search_step (ev : Z -> option Z) (st : Z * Z) : (Z * Z) + result Z :=
  let '(i, day) := st in
  match ev day with
  | Some v => inr (Ok v)
  | None => if sun_tries <=? i then inr (Raise EValueError) else inl (i + 1, day + 1)
  end.
Definition next_sun_raw (E : penv) (key : nat) (st : pstate) (dt : Z) : result Z * pstate :=
  match location E with
  | None => (Raise ELocationNotSet, st)
  | Some loc =>
      let k := (key, utc_day dt, loc) in
      match slookup k (scache st) with
      | Some v => (Ok v, with_scache (sremove k (scache st) ++ [(k, v)]) st)          (* move_to_end *)
      | None =>
          match iter_until (Z.to_pos (sun_tries + 1)) (sun_search_step (sun_ev E key)) (0, utc_day dt) with
          | inr (Ok v) =>
              let inst := round_up_sec v in
              let c := scache st in
              let c := if sun_cache_limit <=? Z.of_nat (length c) then skipn (Z.to_nat sun_cache_evict) c else c in
              (Ok inst, with_scache (c ++ [(k, inst)]) st)
          | inr r => (r, st)
          | inl _ => (Raise EOther, st)                                               (* RuntimeError: unreachable *)
          end
      end
  end.

(* ------------------------------------------------------------------------------------------- *)
Definition bind_state {A} (r : result A * pstate) (k : A -> pstate -> (Z * pstate) + (result Z * pstate))
  : (Z * pstate) + (result Z * pstate) :=
  match r with
  | (Ok a, st) => k a st
  | (Raise e, st) => inr (Raise e, st)
  | (OutOfFuel, st) => inr (OutOfFuel, st)
  end.

Definition finish_loop (r : (Z * pstate) + (result Z * pstate)) : result Z * pstate :=
  match r with
  | inr x => x
  | inl (_, st) => (Raise EInfiniteLoop, st)
  end.

Fixpoint get_next (E : penv) (p : producer) (st : pstate) (dt : Z) {struct p} : result Z * pstate :=
  let z := pz E in
  match p with
  | PTime tr f => (next_time z tr f dt, st)
  | PInterval id start iv f =>
      let c := match ilookup id (icache st) with
               | Some c => c
               | None => match start with Some s => s | None => dt + 1000 end
               end in
      match next_interval z (interval_fuel E) c iv f dt with
      | Ok g => (Ok g, with_icache (iset id g (icache st)) st)
      | r => (r, st)
      end
  | PGroup ps f =>
      let members :=
        (fix members (l : list producer) (st : pstate) (x : Z) (acc : option Z) {struct l}
           : result (option Z) * pstate :=
           match l with
           | [] => (Ok acc, st)
           | q :: t =>
               match get_next E q st x with
               | (Ok v, st') => members t st' x (Some (match acc with None => v | Some a => Z.min a v end))
               | (Raise e, st') => (Raise e, st')
               | (OutOfFuel, st') => (OutOfFuel, st')
               end
           end) in
      finish_loop (iter_until loop_bound
        (fun xs : Z * pstate =>
           let '(x, s) := xs in
           bind_state (members ps s x None) (fun m s' =>
             match m with
             | None => inr (Raise EValueError, s')                     (* min() of an empty group *)
             | Some v => if (dt <? v) && allow_opt z f v then inr (Ok v, s') else inl (v, s')
             end))
        (dt, st))
  | POffset q off f =>
      finish_loop (iter_until loop_bound
        (fun xs : Z * pstate =>
           let '(x, s) := xs in
           bind_state (get_next E q s x) (fun n s' =>
             let value := n + off in
             if (dt <? value) && allow_opt z f value then inr (Ok value, s') else inl (n, s')))
        (dt, st))
  | PEarliest q tr f =>
      finish_loop (iter_until loop_bound
        (fun xs : Z * pstate =>
           let '(x, s) := xs in
           bind_state (get_next E q s x) (fun n s' =>
             match apply_earliest z tr n dt with
             | Ok value => if (dt <? value) && allow_opt z f value then inr (Ok value, s') else inl (n, s')
             | Raise e => inr (Raise e, s')
             | OutOfFuel => inr (OutOfFuel, s')
             end))
        (dt, st))
  | PLatest q tr f =>
      finish_loop (iter_until loop_bound
        (fun xs : Z * pstate =>
           let '(x, s) := xs in
           bind_state (get_next E q s x) (fun n s' =>
             match apply_latest z tr n dt with
             | Ok value => if (dt <? value) && allow_opt z f value then inr (Ok value, s') else inl (n, s')
             | Raise e => inr (Raise e, s')
             | OutOfFuel => inr (OutOfFuel, s')
             end))
        (dt, st))
  | PJitter q lo hi f =>
      finish_loop (iter_until loop_bound
        (fun xs : Z * pstate =>
           let '(x, s) := xs in
           bind_state (get_next E q s x) (fun n s' =>
             let '(a, b) := jitter_bounds lo hi n dt in
             let value := n + draw E (ndraws s') a b in
             let s'' := with_ndraws (S (ndraws s')) s' in
             if (dt <? value) && allow_opt z f value then inr (Ok value, s'') else inl (n, s'')))
        (dt, st))
  | PSun key f =>
      finish_loop (iter_until loop_bound
        (fun xs : Z * pstate =>
           let '(x, s) := xs in
           bind_state (next_sun_raw E key s x) (fun v s' =>
             if (dt <? v) && allow_opt z f v then inr (Ok v, s') else inl (v + DAY, s')))
        (dt, st))
  end.

(* the chain a recurring job follows: each next occurrence computed from the previous firing *)
Fixpoint chain (E : penv) (p : producer) (st : pstate) (dt : Z) (n : nat) : list (result Z) :=
  match n with
  | O => []
  | S k => match get_next E p st dt with
           | (Ok v, st') => Ok v :: chain E p st' v k
           | (r, _) => [r]
           end
  end.
