(* GenRt.v — what the code generated from src/eascheduler/schedulers/async_scheduler.py (coq/gen/GenSched.v,
   written by tools/gen_sched.py on every run) is expressed in.  No proofs here.

   A Python method becomes  [rec -> <arguments> -> st -> option (st * res)]:
     * the state is threaded explicitly (`self._enabled`, `self.timer`, `self.jobs` are the fields enabled / timer /
       queue of Sched.st; job attributes are read through [jobs s j]);
     * [None] = out of fuel, [Some (s, Ret)] = the method returned, [Some (s, Exc e)] = it raised e (Python semantics:
       the exception propagates to the caller; the hand-written model of Sched.v instead sets a sticky [broken] flag on
       the paths that the invariant excludes - GenSchedEq.v proves that both agree on every well-formed state);
     * every call of another method, every entry into a `while` loop and every further iteration goes through the
       record [rec] ("open recursion"); [knot] ties the record to itself with one unit of fuel per call, which is
       exactly the fuel discipline of the mutual fixpoint of Sched.v. *)
From EAS Require Import Base Sched.

Inductive gexn :=
  | XTimeNotSet            (* JobExecutionTimeIsNotSetError *)
  | XIndex                 (* IndexError: deque index out of range / pop from an empty deque *)
  | XValue                 (* ValueError: deque.remove(x): x not in deque *)
  | XUser.                 (* whatever job.execute() lets through (trigger failed, run time in the past) *)

Inductive res := Ret | Exc (e : gexn).

Definition M : Type := option (st * res).

Record rec := {
  r_set_timer : st -> M;
  r_run_jobs : st -> M;
  r_run_jobs_loop : st -> M;
  r_add_job : nat -> st -> M;
  r_remove_job : nat -> st -> M;
  r_execute : nat -> st -> M            (* job.execute(): not generated from the scheduler's file, see [exec_open] *)
}.

Definition is_nil {A} (l : list A) : bool := match l with [] => true | _ :: _ => false end.

(* TimerHandle.cancel(): the handle will not fire.  The model keeps one armed handle, [timer s]; the generated code
   always clears `self.timer` next to the cancel() it translates, so the call itself changes nothing. *)
Definition cancel_handle (h : option Z) (s : st) : st := s.

Section Open.
Variable E : env.

(* JobBase.execute() for job j (executor, last_run, update_next of the job's kind), in open form: what it needs
   from the scheduler is remove_job (through job_finish of a one-shot job).  An exception that leaves execute()
   - the trigger raised, or set_next_run refused a run time in the past - is RETURNED as [Exc XUser]; it is the
   caller (run_jobs) that hands it to process_exception.  Mirrors Sched.exec_job. *)
Definition exec_open (rm : nat -> st -> M) (j : nat) (s : st) : M :=
  match jnext (jobs s j) with
  | None => Some (s, Exc XUser)        (* not reachable from run_jobs: it has just read a next run *)
  | Some t =>
    let k := count_exec j (log s) in
    let s := add_ev (EExec j (now s) t (opi s)) s in
    let s := if fail_exec E j k then add_ev (EHandler (HExec j)) s else s in
    match jkind (jobs s j) with
    | KOnce =>
        match rm j s with
        | None => None
        | Some (s, Exc e) => Some (s, Exc e)
        | Some (s, Ret) =>
            let b := jobs s j in
            let s := set_job j (with_linked (with_status_next b Finished None) false) s in
            let s := if jstored b then set_store (store_remove (jkey b) (store s)) s else s in
            Some (run_cbs E (fun cb => ECbFin j cb) (jcbf b) s, Ret)
        end
    | KCountdown => Some (set_next_run E j None s, Ret)
    | KAt =>
        let kp := count_prod j (log s) in
        let s := add_ev (EProd j) s in
        match prod E j kp (now s) with
        | Ok v => if too_old s v then Some (s, Exc XUser) else Some (set_next_run E j (Some v) s, Ret)
        | Raise _ => Some (s, Exc XUser)
        | OutOfFuel => None
        end
    end
  end.

End Open.
