(* SchedFuel.v — fuel sufficiency for the re-entrant scheduler core.
   All theorems of the scheduler group are conditional on "the run does not exhaust the model's fuel".  Here:
   1. the fuel is monotone (more fuel never changes a result that was reached),
   2. when triggers answer strictly in the future (C04) a fuel that is linear in the number of due jobs always
      suffices, for the six core functions, for every API operation and for every history,
   3. (F5) when a trigger raises inside execute() NO fuel suffices: the recursion never ends. *)
From EAS Require Import Base BaseFacts Sched SchedInv SchedApi.
From EASGen Require Import Generated.
From Coq Require Import Sorted.

(* ------------------------------------------------------------------------------------------- *)
(* 1. MONOTONICITY                                                                               *)
Section Mono.
Variable E : env.

Definition mono_at (f : nat) : Prop :=
  (forall f' s s', (f <= f')%nat -> set_timer E f s = Some s' -> set_timer E f' s = Some s') /\
  (forall f' s s', (f <= f')%nat -> run_jobs E f s = Some s' -> run_jobs E f' s = Some s') /\
  (forall f' s s', (f <= f')%nat -> run_loop E f s = Some s' -> run_loop E f' s = Some s') /\
  (forall f' j s s', (f <= f')%nat -> add_job E f j s = Some s' -> add_job E f' j s = Some s') /\
  (forall f' j s s', (f <= f')%nat -> remove_job E f j s = Some s' -> remove_job E f' j s = Some s') /\
  (forall f' j t s s', (f <= f')%nat -> exec_job E f j t s = Some s' -> exec_job E f' j t s = Some s').

Lemma mono_step f : mono_at f -> mono_at (S f).
Proof.
  intros (IHst & IHrj & IHlp & IHadd & IHrm & IHex).
  split; [|split; [|split; [|split; [|split]]]].
  - intros f' s s' Hle H. destruct f' as [|f']; [lia|]. assert (Hle' : (f <= f')%nat) by lia.
    rewrite set_timer_S in H |- *. cbv zeta in *.
    destruct (queue (set_timer_f None s)) as [|h q]; [exact H|].
    destruct (negb (enabled (set_timer_f None s))); [exact H|].
    destruct (jnext (jobs (set_timer_f None s) h)) as [t|]; [|exact H].
    destruct (t <=? now (set_timer_f None s)); [|exact H].
    apply IHrj with (1 := Hle'). exact H.
  - intros f' s s' Hle H. destruct f' as [|f']; [lia|]. assert (Hle' : (f <= f')%nat) by lia.
    rewrite run_jobs_S in H |- *. cbv zeta in *.
    destruct (run_loop E f (set_timer_f None s)) as [s1|] eqn:EL; [|discriminate].
    rewrite (IHlp f' _ _ Hle' EL).
    destruct (broken s1); [exact H|]. destruct (queue s1); [exact H|].
    apply IHst with (1 := Hle'). exact H.
  - intros f' s s' Hle H. destruct f' as [|f']; [lia|]. assert (Hle' : (f <= f')%nat) by lia.
    rewrite run_loop_S in H |- *.
    destruct (queue s) as [|h q]; [exact H|].
    destruct (jnext (jobs s h)) as [t|]; [|exact H].
    destruct (now s <? t); [exact H|]. cbv zeta in *.
    destruct (exec_job E f h t (set_queue q s)) as [s1|] eqn:EX; [|discriminate].
    rewrite (IHex f' _ _ _ _ Hle' EX).
    destruct (status_eqb (jstatus (jobs s1 h)) Running).
    + destruct (add_job E f h s1) as [s2|] eqn:EA; [|discriminate].
      rewrite (IHadd f' _ _ _ Hle' EA). apply IHlp with (1 := Hle'). exact H.
    + apply IHlp with (1 := Hle'). exact H.
  - intros f' j s s' Hle H. destruct f' as [|f']; [lia|]. assert (Hle' : (f <= f')%nat) by lia.
    rewrite add_job_S in H |- *.
    destruct (status_eqb (jstatus (jobs s j)) Running); [|exact H]. cbv zeta in *.
    destruct (is_head j (insort s j (queue s))); [|exact H].
    apply IHst with (1 := Hle'). exact H.
  - intros f' j s s' Hle H. destruct f' as [|f']; [lia|]. assert (Hle' : (f <= f')%nat) by lia.
    rewrite remove_job_S in H |- *.
    destruct (queue s) as [|h t]; [apply IHst with (1 := Hle'); exact H|]. cbv zeta in *.
    destruct (remove_first j (h :: t)); [apply IHst with (1 := Hle'); exact H|].
    destruct (Nat.eqb h j); [apply IHst with (1 := Hle'); exact H|exact H].
  - intros f' j t s s' Hle H. destruct f' as [|f']; [lia|]. assert (Hle' : (f <= f')%nat) by lia.
    rewrite exec_job_S in H |- *. cbv zeta in *.
    destruct (jkind (jobs (exec_pre E j t s) j)); [|exact H|exact H].
    destruct (remove_job E f j (exec_pre E j t s)) as [s1|] eqn:ER; [|discriminate].
    rewrite (IHrm f' _ _ _ Hle' ER). exact H.
Qed.

(* a result reached with fuel f is reached, unchanged, with every larger fuel *)
Theorem fuel_mono : forall f, mono_at f.
Proof.
  induction f as [|f IH]; [|apply mono_step; exact IH].
  repeat split; intros; discriminate.
Qed.

Lemma update_job_mono f f' j s s' : (f <= f')%nat -> update_job E f j s = Some s' -> update_job E f' j s = Some s'.
Proof.
  intros Hle H. unfold update_job in *. destruct (fuel_mono f) as (_ & _ & _ & Hadd & Hrm & _).
  destruct (remove_job E f j s) as [s1|] eqn:ER; [|discriminate].
  rewrite (Hrm f' _ _ _ Hle ER). apply Hadd with (1 := Hle). exact H.
Qed.

Lemma job_finish_mono f f' j s s' : (f <= f')%nat -> job_finish E f j s = Some s' -> job_finish E f' j s = Some s'.
Proof.
  intros Hle H. rewrite job_finish_eq in *. destruct (fuel_mono f) as (_ & _ & _ & _ & Hrm & _).
  destruct (remove_job E f j s) as [s1|] eqn:ER; [|discriminate].
  rewrite (Hrm f' _ _ _ Hle ER). exact H.
Qed.

(* ------------------------------------------------------------------------------------------- *)
(* the core never creates jobs (no precondition: used to bound the queue length along a history) *)
Definition njobs_at (f : nat) : Prop :=
  (forall s s', set_timer E f s = Some s' -> njobs s' = njobs s) /\
  (forall s s', run_jobs E f s = Some s' -> njobs s' = njobs s) /\
  (forall s s', run_loop E f s = Some s' -> njobs s' = njobs s) /\
  (forall j s s', add_job E f j s = Some s' -> njobs s' = njobs s) /\
  (forall j s s', remove_job E f j s = Some s' -> njobs s' = njobs s) /\
  (forall j t s s', exec_job E f j t s = Some s' -> njobs s' = njobs s).

Lemma njobs_set_next_run j nx s : njobs (set_next_run E j nx s) = njobs s.
Proof. destruct (set_next_run_props E j nx s) as (_ & _ & _ & _ & H & _). exact H. Qed.
Lemma njobs_finish_job j s : njobs (finish_job E j s) = njobs s.
Proof. destruct (finish_job_props E j s) as (_ & _ & _ & _ & H & _). exact H. Qed.
Lemma njobs_exec_pre j t s : njobs (exec_pre E j t s) = njobs s.
Proof. destruct (exec_pre_props E j t s) as ((_ & _ & H & _) & _). exact H. Qed.

Lemma njobs_step f : njobs_at f -> njobs_at (S f).
Proof.
  intros (IHst & IHrj & IHlp & IHadd & IHrm & IHex).
  split; [|split; [|split; [|split; [|split]]]].
  - intros s s' H. rewrite set_timer_S in H. cbv zeta in H.
    destruct (queue (set_timer_f None s)) as [|h q]; [injection H as <-; reflexivity|].
    destruct (negb (enabled (set_timer_f None s))); [injection H as <-; reflexivity|].
    destruct (jnext (jobs (set_timer_f None s) h)) as [t|]; [|injection H as <-; reflexivity].
    destruct (t <=? now (set_timer_f None s)); [|injection H as <-; reflexivity].
    apply IHrj in H. exact H.
  - intros s s' H. rewrite run_jobs_S in H. cbv zeta in H.
    destruct (run_loop E f (set_timer_f None s)) as [s1|] eqn:EL; [|discriminate].
    apply IHlp in EL. cbn [njobs set_timer_f] in EL.
    destruct (broken s1); [injection H as <-; exact EL|].
    destruct (queue s1); [injection H as <-; exact EL|]. apply IHst in H. congruence.
  - intros s s' H. rewrite run_loop_S in H.
    destruct (queue s) as [|h q]; [injection H as <-; reflexivity|].
    destruct (jnext (jobs s h)) as [t|]; [|injection H as <-; reflexivity].
    destruct (now s <? t); [injection H as <-; reflexivity|]. cbv zeta in H.
    destruct (exec_job E f h t (set_queue q s)) as [s1|] eqn:EX; [|discriminate].
    apply IHex in EX. cbn [njobs set_queue] in EX.
    destruct (status_eqb (jstatus (jobs s1 h)) Running).
    + destruct (add_job E f h s1) as [s2|] eqn:EA; [|discriminate].
      apply IHadd in EA. apply IHlp in H. congruence.
    + apply IHlp in H. congruence.
  - intros j s s' H. rewrite add_job_S in H.
    destruct (status_eqb (jstatus (jobs s j)) Running); [|injection H as <-; reflexivity]. cbv zeta in H.
    destruct (is_head j (insort s j (queue s))); [|injection H as <-; reflexivity].
    apply IHst in H. exact H.
  - intros j s s' H. rewrite remove_job_S in H.
    destruct (queue s) as [|h t]; [apply IHst in H; exact H|]. cbv zeta in H.
    destruct (remove_first j (h :: t)); [apply IHst in H; exact H|].
    destruct (Nat.eqb h j); [apply IHst in H; exact H|injection H as <-; reflexivity].
  - intros j t s s' H. rewrite exec_job_S in H. cbv zeta in H.
    pose proof (njobs_exec_pre j t s) as H0.
    destruct (jkind (jobs (exec_pre E j t s) j)).
    + destruct (remove_job E f j (exec_pre E j t s)) as [s1|] eqn:ER; [|discriminate].
      injection H as <-. apply IHrm in ER. rewrite njobs_finish_job. congruence.
    + injection H as <-. rewrite njobs_set_next_run. exact H0.
    + destruct (prod E j _ _) as [v|e|]; [|injection H as <-; exact H0|discriminate].
      destruct (too_old _ v); injection H as <-; [exact H0|].
      rewrite njobs_set_next_run. exact H0.
Qed.

Theorem core_njobs : forall f, njobs_at f.
Proof.
  induction f as [|f IH]; [|apply njobs_step; exact IH].
  repeat split; intros; discriminate.
Qed.
End Mono.

(* ------------------------------------------------------------------------------------------- *)
(* 2. SUFFICIENCY                                                                                *)
Definition dueb (s : st) (j : nat) : bool :=
  match jnext (jobs s j) with Some t => t <=? now s | None => false end.
(* the number of due jobs in the queue *)
Definition due (s : st) : nat := length (filter (dueb s) (queue s)).

(* the head of the queue is not due (what the loop leaves behind) *)
Definition HeadIdle (s : st) : Prop :=
  match queue s with [] => True | h :: _ => dueb s h = false end.

Lemma filter_length_le' {A} (p : A -> bool) l : (length (filter p l) <= length l)%nat.
Proof. induction l as [|a t IH]; cbn; [lia|]. destruct (p a); cbn; lia. Qed.

Lemma due_le_length s : (due s <= length (queue s))%nat.
Proof. apply filter_length_le'. Qed.

Lemma filter_insort p s j q : p j = false -> filter p (insort s j q) = filter p q.
Proof.
  intros Hj. induction q as [|h t IH]; cbn [insort filter]; [rewrite Hj; reflexivity|].
  destruct (job_lt s j h); cbn [filter]; [rewrite Hj; reflexivity|]. rewrite IH. reflexivity.
Qed.

Lemma filter_insort_le p s j q : (length (filter p (insort s j q)) <= S (length (filter p q)))%nat.
Proof.
  induction q as [|h t IH]; cbn [insort filter]; [destruct (p j); cbn; lia|].
  destruct (job_lt s j h); cbn [filter]; [destruct (p j), (p h); cbn; lia|].
  destruct (p h); cbn [length]; lia.
Qed.

Lemma filter_remove_first_le p j q : (length (filter p (remove_first j q)) <= length (filter p q))%nat.
Proof.
  induction q as [|h t IH]; cbn [remove_first filter]; [lia|].
  destruct (Nat.eqb j h); cbn [filter]; [destruct (p h); cbn; lia|].
  destruct (p h); cbn [length]; lia.
Qed.

Lemma dueb_ext s s' k : jobs s' k = jobs s k -> now s' = now s -> dueb s' k = dueb s k.
Proof. unfold dueb. intros -> ->. reflexivity. Qed.

Lemma due_ext s s' : queue s' = queue s -> jobs s' = jobs s -> now s' = now s -> due s' = due s.
Proof.
  intros a b c. unfold due. rewrite a. f_equal. apply filter_ext. intros k. apply dueb_ext; [rewrite b; reflexivity|exact c].
Qed.

Lemma WFq_len X s : WFq X s -> (length (queue s) <= njobs s)%nat.
Proof.
  intros W. rewrite <- (seq_length (njobs s) 0). apply NoDup_incl_length; [apply (wf_nodup _ _ W)|].
  intros j Hj. apply in_seq. destruct (wf_q _ _ W j Hj) as (Hr & _).
  pose proof (wf_rn _ _ W j (wf_lk _ _ W j Hr)). lia.
Qed.

Section Suff.
Variable E : env.
(* every trigger answers, strictly in the future (C04: next_strictly_future); a trigger that raises inside
   execute() is the finding F5, see [F5_refuted] below *)
Hypothesis prod_ok : forall j k t, exists v, prod E j k t = Ok v /\ t < v.

Lemma tolerance_nonneg' : 0 <= past_tolerance_ns.
Proof. vm_compute. discriminate. Qed.

(* _set_timer when the head is not due: no nesting *)
Lemma set_timer_idle f s : HeadIdle s ->
  exists s', set_timer E (S f) s = Some s' /\ queue s' = queue s /\ jobs s' = jobs s /\ now s' = now s.
Proof.
  intros H. rewrite set_timer_S. cbv zeta. cbn [queue jobs now enabled set_timer_f].
  unfold HeadIdle, dueb in H. destruct (queue s) as [|h q] eqn:Eq.
  - eexists; split; [reflexivity|]. cbn [queue jobs now set_timer_f]. auto.
  - destruct (negb (enabled s)).
    + eexists; split; [reflexivity|]. cbn [queue jobs now set_timer_f]. auto.
    + destruct (jnext (jobs s h)) as [t|].
      * rewrite H. eexists; split; [reflexivity|]. cbn [queue jobs now set_timer_f]. auto.
      * eexists; split; [reflexivity|]. cbn [queue jobs now set_timer_f set_broken]. auto.
Qed.

(* remove_job of a job that is not queued (job_finish of the popped one-time job) *)
Lemma remove_job_out f j s : ~ In j (queue s) ->
  exists s', remove_job E (S (S f)) j s = Some s' /\ queue s' = queue s /\ jobs s' = jobs s /\ now s' = now s.
Proof.
  intros Hni. rewrite remove_job_S. destruct (queue s) as [|h t] eqn:Eq.
  - destruct (set_timer_idle f s) as (s' & H & a & b & c); [unfold HeadIdle; rewrite Eq; exact I|].
    exists s'. rewrite a, Eq in *. auto.
  - cbv zeta. rewrite remove_first_notin by exact Hni.
    destruct (Nat.eqb_spec h j) as [->|Hne]; [exfalso; apply Hni; left; reflexivity|].
    eexists; split; [reflexivity|]. cbn [queue jobs now set_queue]. auto.
Qed.

(* job.execute() of a popped job: afterwards the job is not due *)
Lemma exec_job_total f j t s : ~ In j (queue s) ->
  exists s', exec_job E (S (S (S f))) j t s = Some s' /\ queue s' = queue s /\ now s' = now s /\
    (forall k, k <> j -> jobs s' k = jobs s k) /\ dueb s' j = false.
Proof.
  intros Hni. rewrite exec_job_S. cbv zeta.
  destruct (exec_pre_props E j t s) as ((v1 & v2 & v3 & v4) & p1 & p2 & p3 & p4 & p5).
  remember (exec_pre E j t s) as s0 eqn:Es0. clear Es0.
  destruct (jkind (jobs s0 j)).
  - destruct (remove_job_out f j s0) as (s1 & ER & r1 & r2 & r3); [rewrite v1; exact Hni|]. rewrite ER.
    eexists; split; [reflexivity|].
    destruct (finish_job_props E j s1) as (q1 & q2 & q3 & q4 & q5 & q6 & q7 & q8).
    split; [congruence|]. split; [congruence|]. split.
    + intros k Hk. rewrite q8. unfold upd. destruct (Nat.eqb_spec k j); [contradiction|]. congruence.
    + unfold dueb. rewrite q8. unfold upd. rewrite Nat.eqb_refl. reflexivity.
  - eexists; split; [reflexivity|].
    destruct (set_next_run_props E j None s0) as (q1 & q2 & q3 & q4 & q5 & q6 & q7 & q8 & q9).
    split; [congruence|]. split; [congruence|]. split.
    + intros k Hk. rewrite q9. unfold upd. destruct (Nat.eqb_spec k j); [contradiction|]. congruence.
    + unfold dueb. rewrite q9. unfold upd. rewrite Nat.eqb_refl. reflexivity.
  - remember (add_ev (EProd j) s0) as s1 eqn:Es1.
    destruct (prod_ok j (count_prod j (log s0)) (now s1)) as (v & Hv & Hlt). rewrite Hv.
    assert (Hold : too_old s1 v = false).
    { unfold too_old. apply Z.ltb_ge. pose proof tolerance_nonneg'. lia. }
    rewrite Hold. eexists; split; [reflexivity|].
    destruct (set_next_run_props E j (Some v) s1) as (q1 & q2 & q3 & q4 & q5 & q6 & q7 & q8 & q9).
    assert (Hq : queue s1 = queue s0) by (subst s1; reflexivity).
    assert (Hn : now s1 = now s0) by (subst s1; reflexivity).
    assert (Hj : jobs s1 = jobs s0) by (subst s1; reflexivity).
    split; [congruence|]. split; [congruence|]. split.
    + intros k Hk. rewrite q9. unfold upd. destruct (Nat.eqb_spec k j); [contradiction|]. congruence.
    + unfold dueb. rewrite q9, q2. unfold upd. rewrite Nat.eqb_refl. cbn [jnext with_status_next]. lia.
Qed.

(* add_job of a job that is not due: at most one _set_timer, which arms the timer *)
Lemma add_job_idle f j s : dueb s j = false ->
  exists s', add_job E (S (S f)) j s = Some s' /\ jobs s' = jobs s /\ now s' = now s /\
    (queue s' = queue s \/ queue s' = insort s j (queue s)).
Proof.
  intros Hd. rewrite add_job_S.
  destruct (status_eqb (jstatus (jobs s j)) Running); [|eexists; split; [reflexivity|auto]]. cbv zeta.
  destruct (is_head j (insort s j (queue s))) eqn:Eh.
  - destruct (set_timer_idle f (set_queue (insort s j (queue s)) s)) as (s' & H & a & b & c).
    + unfold HeadIdle. cbn [queue set_queue]. destruct (insort s j (queue s)) as [|h q]; [exact I|].
      cbn [is_head] in Eh. apply Nat.eqb_eq in Eh. subst h. exact Hd.
    + exists s'. split; [exact H|]. cbn [queue jobs now set_queue] in a, b, c. auto.
  - eexists; split; [reflexivity|]. cbn [queue jobs now set_queue]. auto.
Qed.

(* the loop: |due| + 3 *)
Lemma run_loop_total : forall f s, NoDup (queue s) -> (due s + 3 <= f)%nat ->
  exists s', run_loop E f s = Some s' /\ HeadIdle s'.
Proof.
  induction f as [|f IH]; intros s Hnd Hf; [lia|].
  rewrite run_loop_S. destruct (queue s) as [|h q] eqn:Eq.
  - exists s. split; [reflexivity|]. unfold HeadIdle. rewrite Eq. exact I.
  - destruct (jnext (jobs s h)) as [t|] eqn:En.
    2:{ eexists; split; [reflexivity|]. unfold HeadIdle, dueb. cbn [queue jobs add_ev set_log set_broken]. rewrite Eq, En. reflexivity. }
    destruct (now s <? t) eqn:Elt.
    { exists s. split; [reflexivity|]. unfold HeadIdle, dueb. rewrite Eq, En. lia. }
    cbv zeta.
    assert (Hdh : dueb s h = true) by (unfold dueb; rewrite En; lia).
    assert (Hdue : due s = S (length (filter (dueb s) q))).
    { unfold due. rewrite Eq. cbn [filter]. rewrite Hdh. reflexivity. }
    inversion Hnd as [|? ? Hh Hq]; subst.
    destruct f as [|[|[|f0]]]; try lia.
    destruct (exec_job_total f0 h t (set_queue q s) Hh) as (s2 & EX & e1 & e2 & e3 & e4). rewrite EX.
    cbn [queue now jobs set_queue] in e1, e2, e3.
    assert (Hd2 : due s2 = length (filter (dueb s) q)).
    { unfold due. rewrite e1. f_equal. apply filter_ext_in. intros k Hk. apply dueb_ext; [|exact e2].
      apply e3. intros ->. exact (Hh Hk). }
    destruct (status_eqb (jstatus (jobs s2 h)) Running).
    + destruct (add_job_idle (S f0) h s2 e4) as (s3 & EA & a1 & a2 & a3). rewrite EA.
      assert (Hd3 : due s3 = due s2).
      { destruct a3 as [a3|a3]; [apply due_ext; assumption|].
        unfold due. rewrite a3. rewrite filter_insort.
        - f_equal. apply filter_ext. intros k. apply dueb_ext; [rewrite a1; reflexivity|exact a2].
        - rewrite <- e4. apply dueb_ext; [rewrite a1; reflexivity|exact a2]. }
      apply IH; [|lia].
      destruct a3 as [a3|a3]; rewrite a3, e1; [exact Hq|apply NoDup_insort; assumption].
    + apply IH; [rewrite e1; exact Hq|lia].
Qed.

(* run_jobs: |due| + 4 *)
Lemma run_jobs_total f s : NoDup (queue s) -> (due s + 4 <= f)%nat -> exists s', run_jobs E f s = Some s'.
Proof.
  intros Hnd Hf. destruct f as [|f]; [lia|]. rewrite run_jobs_S. cbv zeta.
  destruct (run_loop_total f (set_timer_f None s)) as (s1 & EL & Hi); [exact Hnd|change (due (set_timer_f None s)) with (due s); lia|].
  rewrite EL. destruct (broken s1); [eauto|]. destruct (queue s1) eqn:Eq; [eauto|].
  destruct f as [|f]; [lia|]. destruct (set_timer_idle f s1 Hi) as (s' & H & _). eauto.
Qed.

(* _set_timer: |due| + 5 *)
Lemma set_timer_total f s : NoDup (queue s) -> (due s + 5 <= f)%nat -> exists s', set_timer E f s = Some s'.
Proof.
  intros Hnd Hf. destruct f as [|f]; [lia|]. rewrite set_timer_S. cbv zeta.
  destruct (queue (set_timer_f None s)) as [|h q]; [eauto|].
  destruct (negb (enabled (set_timer_f None s))); [eauto|].
  destruct (jnext (jobs (set_timer_f None s) h)) as [t|]; [|eauto].
  destruct (t <=? now (set_timer_f None s)); [|eauto].
  apply run_jobs_total; [exact Hnd|change (due (set_timer_f None s)) with (due s); lia].
Qed.

(* add_job: |due| + 7 *)
Lemma add_job_total f j s : NoDup (queue s) -> ~ In j (queue s) -> (due s + 7 <= f)%nat ->
  exists s', add_job E f j s = Some s'.
Proof.
  intros Hnd Hni Hf. destruct f as [|f]; [lia|]. rewrite add_job_S.
  destruct (status_eqb (jstatus (jobs s j)) Running); [|eauto]. cbv zeta.
  destruct (is_head j (insort s j (queue s))); [|eauto].
  apply set_timer_total; cbn [queue set_queue]; [apply NoDup_insort; assumption|].
  pose proof (filter_insort_le (dueb s) s j (queue s)) as Hle.
  change (due (set_queue (insort s j (queue s)) s)) with (length (filter (dueb s) (insort s j (queue s)))).
  unfold due in Hf. lia.
Qed.

(* remove_job: |due| + 6 *)
Lemma remove_job_total f j s : NoDup (queue s) -> (due s + 6 <= f)%nat -> exists s', remove_job E f j s = Some s'.
Proof.
  intros Hnd Hf. destruct f as [|f]; [lia|]. rewrite remove_job_S.
  destruct (queue s) as [|h t] eqn:Eq; [apply set_timer_total; [rewrite Eq; constructor|lia]|]. cbv zeta.
  assert (Hs : exists s', set_timer E f (set_queue (remove_first j (h :: t)) s) = Some s').
  { apply set_timer_total; cbn [queue set_queue]; [apply remove_first_NoDup; exact Hnd|].
    pose proof (filter_remove_first_le (dueb s) j (h :: t)) as Hle.
    change (due (set_queue (remove_first j (h :: t)) s)) with (length (filter (dueb s) (remove_first j (h :: t)))).
    unfold due in Hf. rewrite Eq in Hf. lia. }
  destruct (remove_first j (h :: t)); [exact Hs|]. destruct (Nat.eqb h j); [exact Hs|eauto].
Qed.
End Suff.

(* ------------------------------------------------------------------------------------------- *)
(* the API level: njobs + 7 suffices for every operation from every state satisfying the invariant *)
Section ApiFuel.
Variable E : env.
Hypothesis prod_ok : forall j k t, exists v, prod E j k t = Ok v /\ t < v.

Lemma Inv_due_le s : Inv s -> (due s <= njobs s)%nat.
Proof. intros (W & _). pose proof (WFq_len _ _ W). pose proof (due_le_length s). lia. Qed.

Lemma job_finish_njobs fuel j s s' : job_finish E fuel j s = Some s' -> njobs s' = njobs s.
Proof.
  rewrite job_finish_eq. destruct (remove_job E fuel j s) as [s1|] eqn:ER; [|discriminate]. intros H; injection H as <-.
  destruct (core_njobs E fuel) as (_ & _ & _ & _ & Hrm & _). rewrite njobs_finish_job. apply (Hrm _ _ _ ER).
Qed.

Lemma update_job_njobs fuel j s s' : update_job E fuel j s = Some s' -> njobs s' = njobs s.
Proof.
  unfold update_job. destruct (remove_job E fuel j s) as [s1|] eqn:ER; [|discriminate]. intros H.
  destruct (core_njobs E fuel) as (_ & _ & _ & Hadd & Hrm & _). rewrite (Hadd _ _ _ H). apply (Hrm _ _ _ ER).
Qed.

Lemma job_finish_total fuel j s : NoDup (queue s) -> (length (queue s) + 6 <= fuel)%nat ->
  exists s', job_finish E fuel j s = Some s'.
Proof.
  intros Hnd Hf. rewrite job_finish_eq.
  destruct (remove_job_total E prod_ok fuel j s Hnd) as (s1 & ER); [pose proof (due_le_length s); lia|].
  rewrite ER. eauto.
Qed.

(* set_next_run (Some v) on a linked job, then update_job = remove_job; add_job (reset / resume) *)
Lemma update_job_total fuel j v s :
  Inv s -> jlinked (jobs s j) = true -> (njobs s + 7 <= fuel)%nat ->
  exists s', update_job E fuel j (set_next_run E j (Some v) s) = Some s'.
Proof.
  intros (W & T) Hlk Hf. unfold update_job.
  destruct (set_next_run_props E j (Some v) s) as (q1 & q2 & q3 & q4 & q5 & q6 & q7 & q8 & q9).
  remember (set_next_run E j (Some v) s) as s2 eqn:Es2.
  pose proof (WFq_len _ _ W) as Hlen.
  destruct (remove_job_total E prod_ok fuel j s2) as (s3 & ER).
  { rewrite q1. apply (wf_nodup _ _ W). }
  { pose proof (due_le_length s2) as Hd. rewrite q1 in Hd. lia. }
  rewrite ER.
  destruct (core_specs_all E fuel) as (_ & _ & _ & _ & Hrm & _).
  set (b := with_status_next (jobs s j) Running (Some v)) in *.
  assert (Wr0 : WFq [j] (set_queue (remove_first j (queue s)) s)) by (apply WFq_remove; [exact W|intros []]).
  assert (Hnq0 : ~ In j (remove_first j (queue s))) by (apply remove_first_NoDup_notin; apply (wf_nodup _ _ W)).
  assert (Wb : WFq [j] (set_job j b (set_queue (remove_first j (queue s)) s))).
  { apply WFq_set_job_out; [exact Wr0|exact Hnq0| |intros _; cbn; apply (wf_rn _ _ W); exact Hlk].
    subst b. split; [|split]; cbn; [split; congruence|intros _; exact Hlk|congruence]. }
  assert (Wr : WFq [j] (set_queue (remove_first j (queue s2)) s2)).
  { eapply WFq_view; [|exact Wb]. apply fields_view; cbn [queue jobs njobs broken set_job set_jobs set_queue]; congruence. }
  destruct (Hrm [] j s2 s3 Wr ER) as (W3 & F3 & _ & _).
  apply add_job_total; [exact prod_ok|apply (wf_nodup _ _ W3)|apply (notin_q_of_X _ _ _ W3)|].
  pose proof (WFq_len _ _ W3) as Hl3. pose proof (due_le_length s3) as Hd3.
  destruct F3 as (_ & _ & n3 & _). lia.
Qed.

Lemma create_total fuel hs b s s' r :
  Inv s -> (njobs s + 7 <= fuel)%nat -> create E fuel hs b s = (s', r) ->
  r <> NoFuel /\ (njobs s' <= S (njobs s))%nat.
Proof.
  intros (W & T) Hf H. unfold create in H.
  destruct (hs && store_has (jkey b) (store s)); [injection H as <- <-; split; [discriminate|lia]|].
  cbv zeta in H.
  pose proof (WFq_len _ _ W) as Hlen. pose proof (wf_nodup _ _ W) as Hnd.
  set (j := njobs s) in *.
  set (b1 := with_linked (with_stored b hs) true) in *.
  set (s1 := if hs then set_store ((jkey b1, j) :: store (set_njobs (S j) (set_job j b1 s))) (set_njobs (S j) (set_job j b1 s))
             else set_njobs (S j) (set_job j b1 s)) in *.
  assert (Hj : ~ In j (queue s)) by (apply fresh_not_queued; exact W).
  assert (V1 : queue s1 = queue s /\ njobs s1 = S j) by (subst s1; destruct hs; split; reflexivity).
  destruct V1 as (v1 & v3). clearbody s1.
  assert (Hfin : forall sx e, queue sx = queue s -> njobs sx = S j ->
            (match job_finish E fuel j sx with Some sy => (sy, Raised e) | None => (sx, NoFuel) end) = (s', r) ->
            r <> NoFuel /\ (njobs s' <= S j)%nat).
  { intros sx e Hq Hn Hx. destruct (job_finish_total fuel j sx) as (sy & EF); [rewrite Hq; exact Hnd|rewrite Hq; lia|].
    rewrite EF in Hx. injection Hx as <- <-. split; [discriminate|]. rewrite (job_finish_njobs _ _ _ _ EF). lia. }
  assert (Harm : forall sx nx, queue sx = queue s -> njobs sx = S j ->
            lift (add_job E fuel j (set_next_run E j nx sx)) (set_next_run E j nx sx) = (s', r) ->
            r <> NoFuel /\ (njobs s' <= S j)%nat).
  { intros sx nx Hq Hn Hx.
    destruct (set_next_run_props E j nx sx) as (q1 & q2 & q3 & q4 & q5 & q6 & q7 & q8 & q9).
    remember (set_next_run E j nx sx) as s2 eqn:Es2.
    destruct (add_job_total E prod_ok fuel j s2) as (sy & EA).
    { rewrite q1, Hq. exact Hnd. }
    { rewrite q1, Hq. exact Hj. }
    { pose proof (due_le_length s2) as Hd. rewrite q1, Hq in Hd. lia. }
    rewrite EA in Hx. cbn [lift] in Hx. injection Hx as <- <-. split; [discriminate|].
    destruct (core_njobs E fuel) as (_ & _ & _ & Hadd & _). rewrite (Hadd _ _ _ EA). lia. }
  destruct (jkind b1).
  - destruct (too_old s1 (jexec_t b1)).
    + eapply Hfin; [exact v1|exact v3|exact H].
    + eapply Harm; [exact v1|exact v3|exact H].
  - eapply Harm; [exact v1|exact v3|exact H].
  - set (s2 := add_ev (EProd j) s1) in *.
    destruct (prod_ok j (count_prod j (log s1)) (now s2)) as (v & Hv & _). rewrite Hv in H.
    destruct (too_old s2 v).
    + eapply Hfin; [|  |exact H]; [exact v1|exact v3].
    + eapply Harm; [|  |exact H]; [exact v1|exact v3].
Qed.

(* every API operation and every wake-up completes with njobs + 7 units of fuel *)
Theorem step_op_total fuel hs s o s' r :
  Inv s -> (njobs s + 7 <= fuel)%nat -> step_op E fuel hs s o = (s', r) ->
  r <> NoFuel /\ (njobs s' <= S (njobs s))%nat.
Proof.
  intros I Hf H. pose proof (Inv_due_le _ I) as Hdue. pose proof (wf_nodup _ _ (proj1 I)) as Hnd.
  pose proof (WFq_len _ _ (proj1 I)) as Hlen.
  assert (Hsame : forall e, (s, Raised e) = (s', r) -> r <> NoFuel /\ (njobs s' <= S (njobs s))%nat).
  { intros e Hx. injection Hx as <- <-. split; [discriminate|lia]. }
  assert (Hdone : (s, Done) = (s', r) -> r <> NoFuel /\ (njobs s' <= S (njobs s))%nat).
  { intros Hx. injection Hx as <- <-. split; [discriminate|lia]. }
  destruct o; cbn [step_op] in H.
  - eapply create_total; eassumption.
  - destruct (secs <=? 0); [eapply Hsame; exact H|]. eapply create_total; eassumption.
  - eapply create_total; eassumption.
  - (* cancel *)
    destruct (is_finished s j); [eapply Hsame; exact H|].
    destruct (job_finish_total fuel j s Hnd) as (s1 & EF); [lia|].
    rewrite EF in H. cbn [lift] in H. injection H as <- <-. split; [discriminate|].
    rewrite (job_finish_njobs _ _ _ _ EF). lia.
  - (* pause *)
    destruct (is_finished s j); [eapply Hsame; exact H|].
    destruct (remove_job_total E prod_ok fuel j s Hnd) as (s1 & ER); [lia|].
    rewrite ER in H. injection H as <- <-. split; [discriminate|].
    destruct (core_njobs E fuel) as (_ & _ & _ & _ & Hrm & _).
    rewrite njobs_set_next_run, (Hrm _ _ _ ER). lia.
  - (* resume *)
    destruct (is_finished s j); [eapply Hsame; exact H|].
    destruct (jlinked (jobs s j)) eqn:Hlk; cbn [negb] in H; [|eapply Hsame; exact H].
    cbv zeta in H. set (s1 := add_ev (EProd j) s) in *.
    assert (I1 : Inv s1) by (apply Inv_add_ev; exact I).
    destruct (prod_ok j (count_prod j (log s)) (now s)) as (v & Hv & _). rewrite Hv in H.
    destruct (too_old s1 v); [injection H as <- <-; split; [discriminate|cbn; lia]|].
    destruct (update_job_total fuel j v s1 I1 Hlk) as (s2 & EU); [exact Hf|].
    rewrite EU in H. cbn [lift] in H. injection H as <- <-. split; [discriminate|].
    rewrite (update_job_njobs _ _ _ _ EU), njobs_set_next_run. cbn. lia.
  - (* reset *)
    destruct (jlinked (jobs s j)) eqn:Hlk; cbn [negb] in H; [|eapply Hsame; exact H].
    cbv zeta in H.
    destruct (update_job_total fuel j (now s + jsecs (jobs s j)) s I Hlk Hf) as (s2 & EU).
    rewrite EU in H. cbn [lift] in H. injection H as <- <-. split; [discriminate|].
    rewrite (update_job_njobs _ _ _ _ EU), njobs_set_next_run. lia.
  - (* set_countdown *)
    destruct (is_finished s j); [eapply Hsame; exact H|].
    destruct (secs <=? 0); [eapply Hsame; exact H|]. injection H as <- <-. split; [discriminate|cbn; lia].
  - (* enable *)
    destruct (Bool.eqb b (enabled s)); [exact (Hdone H)|]. cbv zeta in H.
    destruct (set_timer_total E prod_ok fuel (set_enabled_f b s)) as (s2 & ES);
      [exact Hnd|change (due (set_enabled_f b s)) with (due s); lia|].
    rewrite ES in H. cbn [lift] in H. injection H as <- <-. split; [discriminate|].
    destruct (core_njobs E fuel) as (Hst & _). rewrite (Hst _ _ ES). cbn. lia.
  - (* register *)
    destruct w; [destruct (memb cb (jcbu (jobs s j)))|destruct (memb cb (jcbf (jobs s j)))];
      try exact (Hdone H); injection H as <- <-; (split; [discriminate|cbn; lia]).
  - (* unregister *)
    destruct w; injection H as <- <-; (split; [discriminate|cbn; lia]).
  - (* advance *)
    injection H as <- <-. split; [discriminate|cbn; lia].
  - (* wake *)
    destruct (timer s) as [w|]; [|exact (Hdone H)].
    destruct (w <=? now s); [|exact (Hdone H)].
    destruct (run_jobs_total E prod_ok fuel s Hnd) as (s2 & ER); [lia|].
    rewrite ER in H. cbn [lift] in H. injection H as <- <-. split; [discriminate|].
    destruct (core_njobs E fuel) as (_ & Hrj & _). rewrite (Hrj _ _ ER). lia.
  - (* early wake *)
    destruct (timer s) as [w|]; [|exact (Hdone H)].
    destruct (run_jobs_total E prod_ok fuel s Hnd) as (s2 & ER); [lia|].
    rewrite ER in H. cbn [lift] in H. injection H as <- <-. split; [discriminate|].
    destruct (core_njobs E fuel) as (_ & Hrj & _). rewrite (Hrj _ _ ER). lia.
Qed.

(* the form asked for: an outcome exists and it is not NoFuel *)
Corollary step_total fuel hs s o :
  Inv s -> (njobs s + 7 <= fuel)%nat -> exists s' r, step_op E fuel hs s o = (s', r) /\ r <> NoFuel.
Proof.
  intros I Hf. destruct (step_op E fuel hs s o) as (s', r) eqn:H. exists s', r. split; [reflexivity|].
  apply (step_op_total _ _ _ _ _ _ I Hf H).
Qed.

(* every history: the queue never holds more jobs than were created, so  njobs + |ops| + 7  suffices for the
   whole history - and the final state satisfies the invariant, unconditionally *)
Theorem run_total hs ops : forall fuel s s' rs,
  Inv s -> (njobs s + length ops + 7 <= fuel)%nat -> run E fuel hs s ops = (s', rs) ->
  Inv s' /\ ~ In NoFuel rs.
Proof.
  induction ops as [|o t IH]; intros fuel s s' rs I Hf H; cbn [run] in H.
  - injection H as <- <-. split; [exact I|intros []].
  - destruct (step E fuel hs s o) as (s1, r) eqn:ES. destruct (run E fuel hs s1 t) as (s2, rs') eqn:ER.
    injection H as <- <-. cbn [length] in Hf.
    pose proof ES as ES'. unfold step in ES'. destruct (step_op E fuel hs s o) as (s0, r0) eqn:EO.
    injection ES' as <- <-.
    assert (Hf0 : (njobs s + 7 <= fuel)%nat) by lia.
    destruct (step_op_total _ _ _ _ _ _ I Hf0 EO) as (Hr & Hn).
    assert (I1 : Inv (set_opi (S (opi s0)) s0)) by (eapply step_inv; [exact I|exact ES|exact Hr]).
    assert (Hf1 : (njobs (set_opi (S (opi s0)) s0) + length t + 7 <= fuel)%nat) by (cbn [njobs set_opi]; lia).
    destruct (IH fuel _ _ _ I1 Hf1 ER) as (I2 & Hrs).
    split; [exact I2|]. intros [Hc|Hc]; [exact (Hr Hc)|exact (Hrs Hc)].
Qed.

(* from the initial state: |ops| + 7 *)
Corollary run_total_init hs t0 en ops fuel :
  (length ops + 7 <= fuel)%nat ->
  let (s, rs) := run E fuel hs (init t0 en) ops in Inv s /\ ~ In NoFuel rs.
Proof.
  intros Hf. destruct (run E fuel hs (init t0 en) ops) as (s, rs) eqn:H.
  assert (Hf0 : (njobs (init t0 en) + length ops + 7 <= fuel)%nat) by (cbn [njobs init]; lia).
  apply (run_total hs ops fuel _ _ _ (Inv_init t0 en) Hf0 H).
Qed.

Corollary run_exists_fuel hs t0 en ops :
  exists fuel, let (s, rs) := run E fuel hs (init t0 en) ops in Inv s /\ ~ In NoFuel rs.
Proof. exists (length ops + 7)%nat. apply run_total_init. lia. Qed.
End ApiFuel.

(* ------------------------------------------------------------------------------------------- *)
(* monotonicity at the API level: an operation / a history that completes with fuel f gives exactly the same
   state and outcomes with every larger fuel (no hypothesis on the environment) *)
Section MonoApi.
Variable E : env.

Lemma lift_mono (o o' : option st) s0 s' r :
  (forall x, o = Some x -> o' = Some x) -> lift o s0 = (s', r) -> r <> NoFuel -> lift o' s0 = (s', r).
Proof.
  intros Hm H Hr. destruct o as [x|]; cbn [lift] in H.
  - rewrite (Hm x eq_refl). exact H.
  - injection H as <- <-. congruence.
Qed.

Lemma create_mono f f' hs b s s' r : (f <= f')%nat ->
  create E f hs b s = (s', r) -> r <> NoFuel -> create E f' hs b s = (s', r).
Proof.
  intros Hle H Hr. unfold create in *.
  destruct (hs && store_has (jkey b) (store s)); [exact H|]. cbv zeta in *.
  destruct (fuel_mono E f) as (_ & _ & _ & Hadd & _).
  assert (Hfin : forall j sx e,
    (match job_finish E f j sx with Some sy => (sy, Raised e) | None => (sx, NoFuel) end) = (s', r) ->
    (match job_finish E f' j sx with Some sy => (sy, Raised e) | None => (sx, NoFuel) end) = (s', r)).
  { intros j sx e Hx. destruct (job_finish E f j sx) as [sy|] eqn:EF.
    - rewrite (job_finish_mono E f f' _ _ _ Hle EF). exact Hx.
    - injection Hx as <- <-. congruence. }
  assert (Harm : forall j sx, lift (add_job E f j sx) sx = (s', r) -> lift (add_job E f' j sx) sx = (s', r)).
  { intros j sx Hx. eapply lift_mono; [|exact Hx|exact Hr]. intros x. apply Hadd. exact Hle. }
  destruct (jkind _).
  - destruct (too_old _ _); [apply Hfin; exact H|apply Harm; exact H].
  - apply Harm; exact H.
  - destruct (prod E _ _ _) as [v|e|].
    + destruct (too_old _ _); [apply Hfin; exact H|apply Harm; exact H].
    + apply Hfin; exact H.
    + exact H.
Qed.

Theorem step_op_mono f f' hs s o s' r : (f <= f')%nat ->
  step_op E f hs s o = (s', r) -> r <> NoFuel -> step_op E f' hs s o = (s', r).
Proof.
  intros Hle H Hr. destruct (fuel_mono E f) as (Hst & Hrj & _ & _ & Hrm & _).
  destruct o; cbn [step_op] in *.
  - eapply create_mono; eassumption.
  - destruct (secs <=? 0); [exact H|]. eapply create_mono; eassumption.
  - eapply create_mono; eassumption.
  - destruct (is_finished s j); [exact H|]. eapply lift_mono; [|exact H|exact Hr].
    intros x. apply job_finish_mono. exact Hle.
  - destruct (is_finished s j); [exact H|].
    destruct (remove_job E f j s) as [s1|] eqn:ER; [|injection H as <- <-; congruence].
    rewrite (Hrm f' _ _ _ Hle ER). exact H.
  - destruct (is_finished s j); [exact H|]. destruct (negb (jlinked (jobs s j))); [exact H|]. cbv zeta in *.
    destruct (prod E _ _ _) as [v|e|]; [|exact H|exact H].
    destruct (too_old _ v); [exact H|]. eapply lift_mono; [|exact H|exact Hr].
    intros x. apply update_job_mono. exact Hle.
  - destruct (negb (jlinked (jobs s j))); [exact H|]. cbv zeta in *. eapply lift_mono; [|exact H|exact Hr].
    intros x. apply update_job_mono. exact Hle.
  - exact H.
  - destruct (Bool.eqb b (enabled s)); [exact H|]. cbv zeta in *. eapply lift_mono; [|exact H|exact Hr].
    intros x. apply Hst. exact Hle.
  - exact H.
  - exact H.
  - exact H.
  - destruct (timer s) as [w|]; [|exact H]. destruct (w <=? now s); [|exact H].
    eapply lift_mono; [|exact H|exact Hr]. intros x. apply Hrj. exact Hle.
  - destruct (timer s) as [w|]; [|exact H].
    eapply lift_mono; [|exact H|exact Hr]. intros x. apply Hrj. exact Hle.
Qed.

Lemma step_mono f f' hs s o s' r : (f <= f')%nat ->
  step E f hs s o = (s', r) -> r <> NoFuel -> step E f' hs s o = (s', r).
Proof.
  intros Hle H Hr. unfold step in *. destruct (step_op E f hs s o) as (s0, r0) eqn:EO.
  injection H as <- <-. rewrite (step_op_mono _ _ _ _ _ _ _ Hle EO Hr). reflexivity.
Qed.

Theorem run_mono f f' hs ops : forall s s' rs, (f <= f')%nat ->
  run E f hs s ops = (s', rs) -> ~ In NoFuel rs -> run E f' hs s ops = (s', rs).
Proof.
  induction ops as [|o t IH]; intros s s' rs Hle H Hr; cbn [run] in *; [exact H|].
  destruct (step E f hs s o) as (s1, r) eqn:ES. destruct (run E f hs s1 t) as (s2, rs') eqn:ER.
  injection H as <- <-.
  rewrite (step_mono _ _ _ _ _ _ _ Hle ES (fun Hc => Hr (or_introl Hc))).
  rewrite (IH _ _ _ Hle ER (fun Hc => Hr (or_intror Hc))). reflexivity.
Qed.
End MonoApi.

(* the answer of the model does not depend on the fuel once the fuel is |ops| + 7: the fuel is an artefact of the
   encoding, not a parameter of the behaviour *)
Theorem run_fuel_irrelevant E hs t0 en ops f f' :
  (forall j k t, exists v, prod E j k t = Ok v /\ t < v) ->
  (length ops + 7 <= f)%nat -> (length ops + 7 <= f')%nat ->
  run E f hs (init t0 en) ops = run E f' hs (init t0 en) ops.
Proof.
  intros Hp Hf Hf'.
  assert (H0 : forall g, (length ops + 7 <= g)%nat ->
            run E g hs (init t0 en) ops = run E (length ops + 7) hs (init t0 en) ops).
  { intros g Hg. destruct (run E (length ops + 7) hs (init t0 en) ops) as (s, rs) eqn:H.
    pose proof (run_total_init E Hp hs t0 en ops (length ops + 7) (le_n _)) as Ht. rewrite H in Ht.
    apply (run_mono E _ _ hs ops _ _ _ Hg H (proj2 Ht)). }
  rewrite (H0 f Hf), (H0 f' Hf'). reflexivity.
Qed.

(* ------------------------------------------------------------------------------------------- *)
(* 3. F5: a trigger that raises inside execute().  The job is re-queued with its stale next run, is due again,
   and _set_timer -> run_jobs -> add_job -> _set_timer ... never ends: NO fuel suffices (the implementation
   recurses until RecursionError).  So the hypothesis [prod_ok] above cannot be dropped.                       *)
Definition E5 : env :=
  {| prod := fun _ k t => if Nat.eqb k 0 then Ok (t + 1) else Raise EUser;     (* answers once, then raises *)
     fail_exec := fun _ _ => false; fail_cb := fun _ _ => false |}.

Definition job5 : job :=
  {| jkind := KAt; jstatus := Running; jnext := Some 1; jlinked := true; jexec_t := 0; jsecs := 0; jkey := 0;
     jcbu := []; jcbf := []; jstored := false |}.

(* one recurring job, due, whose trigger has been asked before *)
Record P5 (s : st) : Prop := {
  p5_q : queue s = [0%nat];
  p5_j : jobs s 0%nat = job5;
  p5_en : enabled s = true;
  p5_now : 1 <= now s;
  p5_k : (1 <= count_prod 0 (log s))%nat
}.

Lemma exec5 f t s : jobs s 0%nat = job5 -> (1 <= count_prod 0 (log s))%nat ->
  exec_job E5 (S f) 0 t s =
  Some (add_ev (EHandler (HJob 0)) (add_ev (EProd 0) (add_ev (EExec 0 (now s) t (opi s)) s))).
Proof.
  intros Hj Hk. rewrite exec_job_S. unfold exec_pre. cbn [fail_exec E5]. cbv zeta.
  cbn [jobs add_ev set_log log count_prod]. rewrite Hj. cbn [jkind job5 prod E5].
  destruct (count_prod 0 (log s)) as [|n]; [lia|]. reflexivity.
Qed.

Lemma add5 f s : jobs s 0%nat = job5 -> queue s = [] ->
  add_job E5 (S f) 0 s = set_timer E5 f (set_queue [0%nat] s).
Proof. intros Hj Hq. rewrite add_job_S. rewrite Hj, Hq. reflexivity. Qed.

Lemma F5_diverges : forall n f s, (f <= n)%nat -> P5 s ->
  set_timer E5 f s = None /\ run_jobs E5 f s = None /\ run_loop E5 f s = None.
Proof.
  induction n as [|n IH]; intros f s Hle [Hq Hj En Hnow Hk].
  - destruct f; [|lia]. split; [|split]; reflexivity.
  - destruct f as [|f]; [split; [|split]; reflexivity|]. assert (Hle' : (f <= n)%nat) by lia.
    assert (P0 : P5 (set_timer_f None s)) by (constructor; assumption).
    split; [|split].
    + rewrite set_timer_S. cbv zeta. cbn [queue enabled jobs now set_timer_f].
      rewrite Hq, En, Hj. cbn [negb jnext job5]. rewrite (proj2 (Z.leb_le _ _) Hnow).
      apply (IH f _ Hle' P0).
    + rewrite run_jobs_S. cbv zeta. destruct (IH f _ Hle' P0) as (_ & _ & ->). reflexivity.
    + rewrite run_loop_S. rewrite Hq, Hj. cbn [jnext job5]. rewrite (proj2 (Z.ltb_ge _ _) Hnow). cbv zeta.
      destruct f as [|f1]; [reflexivity|].
      rewrite exec5 by assumption. cbn [jobs add_ev set_log set_queue]. rewrite Hj. cbn [jstatus job5 status_eqb].
      rewrite add5 by (cbn [jobs queue add_ev set_log set_queue]; first [exact Hj|reflexivity]).
      match goal with |- match set_timer E5 f1 ?x with _ => _ end = None =>
        assert (P1 : P5 x) end.
      { constructor; cbn [queue jobs enabled now log add_ev set_log set_queue count_prod Nat.eqb]; try assumption.
        - reflexivity.
        - lia. }
      destruct (IH f1 _ ltac:(lia) P1) as (-> & _). reflexivity.
Qed.

(* the state after  [OAt 0; OAdvance 5]  from the initial state: reachable, satisfies the invariant *)
Definition s5 : st := fst (run E5 2 false (init 0 true) [OAt 0; OAdvance 5]).

Lemma s5_reached : forall fuel, (2 <= fuel)%nat ->
  run E5 fuel false (init 0 true) [OAt 0; OAdvance 5] = (s5, [Done; Done]).
Proof.
  intros fuel Hf. apply (run_mono E5 2 fuel false); [exact Hf|vm_compute; reflexivity|].
  intros [Hc|[Hc|[]]]; discriminate.
Qed.

Lemma s5_Inv : Inv s5.
Proof.
  eapply (run_inv E5 2 false [OAt 0; OAdvance 5]); [apply (Inv_init 0 true)|apply (s5_reached 2 (le_n _))|].
  intros [Hc|[Hc|[]]]; discriminate.
Qed.

Lemma s5_P5 : P5 s5.
Proof. constructor; vm_compute; first [reflexivity|discriminate|lia]. Qed.

(* F5 refuted: a reachable state satisfying the invariant from which the wake-up needs more than any fuel *)
Theorem F5_refuted : exists E s, Inv s /\ timer s <> None /\ forall f, run_jobs E f s = None.
Proof.
  exists E5, s5. split; [exact s5_Inv|]. split; [vm_compute; discriminate|].
  intros f. apply (F5_diverges f f s5 (le_n _) s5_P5).
Qed.

Lemma s5_timer : timer s5 = Some 1.
Proof. vm_compute. reflexivity. Qed.
Lemma s5_now : (1 <=? now s5) = true.
Proof. vm_compute. reflexivity. Qed.

Lemma wake5 fuel : step E5 fuel false s5 OWake = (set_opi (S (opi s5)) s5, NoFuel).
Proof.
  unfold step. cbn [step_op]. rewrite s5_timer, s5_now.
  destruct (F5_diverges fuel fuel s5 (le_n _) s5_P5) as (_ & -> & _). reflexivity.
Qed.

(* the same as a history: create a recurring job whose trigger raises from its second query on, let it become
   due, wake up - for every fuel the outcomes contain NoFuel *)
Lemma F5_run_big g : (2 <= g)%nat -> In NoFuel (snd (run E5 g false (init 0 true) [OAt 0; OAdvance 5; OWake])).
Proof.
  intros Hg. pose proof (s5_reached g Hg) as H.
  cbn [run] in *.
  destruct (step E5 g false (init 0 true) (OAt 0)) as (s1, r1).
  destruct (step E5 g false s1 (OAdvance 5)) as (s2, r2).
  injection H as -> -> ->.
  rewrite wake5. cbn [snd In]. auto.
Qed.

Theorem F5_refuted_run : exists E ops, forall fuel,
  In NoFuel (snd (run E fuel false (init 0 true) ops)).
Proof.
  exists E5, [OAt 0; OAdvance 5; OWake]. intros fuel.
  destruct fuel as [|[|fuel]]; [left; vm_compute; reflexivity|left; vm_compute; reflexivity|].
  apply F5_run_big. lia.
Qed.

(* ------------------------------------------------------------------------------------------- *)
(* the statements in the vocabulary of SchedInv: for every well-formed state, linear bounds in the number of
   due jobs.  Cost of one loop round: 1 (the round) and, inside it with the fuel that is left, job.execute()
   (1 + remove_job 1 + _set_timer 1 for a one-time job) and add_job (1 + _set_timer 1, which arms the timer
   because the re-added job is in the future and is the head only if everything else is later). *)
Theorem core_total E :
  (forall j k t, exists v, prod E j k t = Ok v /\ t < v) ->
  forall X s, WFq X s ->
    (exists s', run_loop E (due s + 3) s = Some s') /\
    (exists s', run_jobs E (due s + 4) s = Some s') /\
    (exists s', set_timer E (due s + 5) s = Some s') /\
    (forall j, exists s', remove_job E (due s + 6) j s = Some s') /\
    (forall j, ~ In j (queue s) -> exists s', add_job E (due s + 7) j s = Some s').
Proof.
  intros Hp X s W. pose proof (wf_nodup _ _ W) as Hnd.
  split; [|split; [|split; [|split]]].
  - destruct (run_loop_total E Hp (due s + 3) s Hnd (le_n _)) as (s' & H & _). eauto.
  - apply (run_jobs_total E Hp _ s Hnd (le_n _)).
  - apply (set_timer_total E Hp _ s Hnd (le_n _)).
  - intros j. apply (remove_job_total E Hp _ j s Hnd (le_n _)).
  - intros j Hj. apply (add_job_total E Hp _ j s Hnd Hj (le_n _)).
Qed.

(* the final form: every history from the initial state, with |ops| + 7 units of fuel (or more), never runs out
   of fuel and ends in a state satisfying the invariant - nothing is assumed about the outcomes *)
Theorem run_unconditional E :
  (forall j k t, exists v, prod E j k t = Ok v /\ t < v) ->
  forall hs t0 en ops, exists fuel, forall fuel', (fuel <= fuel')%nat ->
    let (s, rs) := run E fuel' hs (init t0 en) ops in Inv s /\ ~ In NoFuel rs.
Proof.
  intros Hp hs t0 en ops. exists (length ops + 7)%nat. intros fuel' Hf. apply run_total_init; assumption.
Qed.

(* ------------------------------------------------------------------------------------------- *)
(* the hypotheses are satisfiable and the bounds of the core are tight *)
Definition Eok : env :=
  {| prod := fun _ _ t => Ok (t + 10); fail_exec := fun _ _ => false; fail_cb := fun _ _ => false |}.

Example Eok_prod_ok : forall j k t, exists v, prod Eok j k t = Ok v /\ t < v.
Proof. intros j k t. exists (t + 10). split; [reflexivity|lia]. Qed.

(* two one-time jobs, both due, and a stopped countdown job *)
Definition ops2 : list op := [OAdvance 5; OCountdown 3 7; OOnce 10 0; OWake; OOnce 11 1; OAdvance 6].
Definition sx2 : st := fst (run Eok 13 false (init 0 true) ops2).

Example sx2_nontrivial :
  Inv sx2 /\ queue sx2 = [1%nat; 2%nat] /\ njobs sx2 = 3%nat /\ due sx2 = 2%nat /\ timer sx2 = Some 10 /\ now sx2 = 11.
Proof.
  split; [|vm_compute; repeat split; reflexivity].
  pose proof (run_total_init Eok Eok_prod_ok false 0 true ops2 13 ltac:(cbn; lia)) as H.
  unfold sx2. destruct (run Eok 13 false (init 0 true) ops2) as (s, rs). exact (proj1 H).
Qed.

Definition is_some (o : option st) : bool := match o with Some _ => true | None => false end.

Example core_bounds_tight :
  run_loop Eok (due sx2 + 2) sx2 = None /\ is_some (run_loop Eok (due sx2 + 3) sx2) = true /\
  run_jobs Eok (due sx2 + 3) sx2 = None /\ is_some (run_jobs Eok (due sx2 + 4) sx2) = true /\
  set_timer Eok (due sx2 + 4) sx2 = None /\ is_some (set_timer Eok (due sx2 + 5) sx2) = true /\
  snd (step_op Eok (due sx2 + 3) false sx2 OWake) = NoFuel /\
  snd (step_op Eok (due sx2 + 4) false sx2 OWake) = Done.
Proof. vm_compute. repeat split; reflexivity. Qed.
