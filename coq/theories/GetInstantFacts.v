(* GetInstantFacts.v — property C19: every accepted way to say "when" resolves to the instant it denotes.
   Theorems about GetInstant.v for ALL time-zone tables, current instants and arguments.

   Contents
     1. lists: sort_uniq keeps the elements, sorts strictly
     2. tables: [candidates z l] is exactly the set of instants whose wall clock shows l; offsets of a
        well-formed table differ by at most 4 h; a table whose transitions never move the local DATE
        backwards shows dates monotonically
     3. the rows of the property (none / durations / identity / naive / time of day)
     4. positivity of countdowns and intervals, the 100 ms tolerance of one-shot instants
     5. examples (non-vacuity), among them Berlin on the eve of the clock change, and a table with a
        date going backwards for which the time-of-day answer is NOT the least instant              *)
From EAS Require Import Base Civil CivilFacts Time GetInstant.
From EASGen Require Import Generated.

Lemma NS_val : NS = 1000000000.
Proof. reflexivity. Qed.

(* ------------------------------------------------------------------------------------------- *)
(* 1. sort_uniq *)

Lemma insert_uniq_in x y l : In x (insert_uniq y l) <-> x = y \/ In x l.
Proof.
  induction l as [|a t IH]; cbn [insert_uniq].
  - cbn [In]. intuition.
  - destruct (y <? a) eqn:E1.
    + cbn [In]. intuition.
    + destruct (y =? a) eqn:E2.
      * assert (Hya : y = a) by lia. subst y. cbn [In]. intuition.
      * cbn [In]. rewrite IH. intuition.
Qed.

Lemma sort_uniq_in x l : In x (sort_uniq l) <-> In x l.
Proof.
  unfold sort_uniq. induction l as [|a t IH]; cbn [fold_right In].
  - tauto.
  - rewrite insert_uniq_in, IH. intuition.
Qed.

Fixpoint ssorted (l : list Z) : Prop :=
  match l with
  | [] => True
  | a :: t => (forall x, In x t -> a < x) /\ ssorted t
  end.

Lemma insert_uniq_sorted y l : ssorted l -> ssorted (insert_uniq y l).
Proof.
  induction l as [|a t IH]; cbn [insert_uniq]; intros Hs.
  - cbn. split; [intros x []|exact I].
  - destruct Hs as [Hlt Hs].
    destruct (y <? a) eqn:E1.
    + cbn [ssorted]. split; [|split; assumption].
      intros x [Hx|Hx].
      * subst x. lia.
      * specialize (Hlt x Hx). lia.
    + destruct (y =? a) eqn:E2.
      * cbn [ssorted]. split; assumption.
      * cbn [ssorted]. split; [|apply IH; exact Hs].
        intros x Hx. apply insert_uniq_in in Hx. destruct Hx as [Hx|Hx].
        -- subst x. lia.
        -- apply Hlt; exact Hx.
Qed.

Lemma sort_uniq_sorted l : ssorted (sort_uniq l).
Proof.
  unfold sort_uniq. induction l as [|a t IH]; cbn [fold_right].
  - exact I.
  - apply insert_uniq_sorted; exact IH.
Qed.

Lemma ssorted_head_min a t x : ssorted (a :: t) -> In x (a :: t) -> a <= x.
Proof.
  intros [Hlt _] [Hx|Hx].
  - lia.
  - specialize (Hlt x Hx). lia.
Qed.

(* ------------------------------------------------------------------------------------------- *)
(* 2. tables *)

Lemma offset_from_in l : forall cur i, In (offset_from cur l i) (cur :: map snd l).
Proof.
  induction l as [|[t o] r IH]; intros cur i; cbn [offset_from map snd].
  - left; reflexivity.
  - destruct (i <? t).
    + left; reflexivity.
    + right. apply IH.
Qed.

Lemma offset_at_in z i : In (offset_at z i) (offsets z).
Proof. unfold offset_at, offsets. apply offset_from_in. Qed.

(* the candidates of a local time are exactly the instants that show it *)
Theorem candidates_spec z l i : In i (candidates z l) <-> to_local z i = l.
Proof.
  unfold candidates. rewrite sort_uniq_in, filter_In, in_map_iff. split.
  - intros [_ Hf]. lia.
  - intros Hl. split.
    + exists (offset_at z i). split.
      * unfold to_local in Hl. lia.
      * apply sort_uniq_in. apply offset_at_in.
    + lia.
Qed.

Lemma candidates_sorted z l : ssorted (candidates z l).
Proof. unfold candidates. apply sort_uniq_sorted. Qed.

Lemma min_list_le d l x : In x l -> min_list d l <= x.
Proof.
  induction l as [|a t IH]; cbn [In min_list]; intros H.
  - contradiction.
  - destruct H as [H|H].
    + subst. lia.
    + specialize (IH H). lia.
Qed.

Lemma max_list_ge d l x : In x l -> x <= max_list d l.
Proof.
  induction l as [|a t IH]; cbn [In max_list]; intros H.
  - contradiction.
  - destruct H as [H|H].
    + subst. lia.
    + specialize (IH H). lia.
Qed.

Lemma offset_bounds z i : off_lo z <= offset_at z i <= off_hi z.
Proof.
  unfold off_lo, off_hi. split.
  - apply min_list_le, offset_at_in.
  - apply max_list_ge, offset_at_in.
Qed.

Lemma wf_tz_parts z : wf_tz_b z = true -> ascending_all (tz_trans z) = true /\ spread z <= 14400.
Proof.
  unfold wf_tz_b, ascending_all. intros H. apply andb_prop in H. destruct H as [Ha Hs].
  split; [exact Ha|lia].
Qed.

Lemma offset_diff z i j : wf_tz_b z = true -> offset_at z i - offset_at z j <= 14400.
Proof.
  intros Hwf. apply wf_tz_parts in Hwf. destruct Hwf as [_ Hs]. unfold spread in Hs.
  pose proof (offset_bounds z i) as Hi. pose proof (offset_bounds z j) as Hj. lia.
Qed.

(* local dates never go backwards between [from] and [to] *)
Definition dates_forward (z : tz) (from to : Z) : Prop :=
  forall i j, from <= i -> i <= j -> j <= to -> local_day (to_local z i) <= local_day (to_local z j).

Lemma local_day_mono a b : a <= b -> local_day a <= local_day b.
Proof. unfold local_day. rewrite DAY_val. intros H. lia. Qed.

Lemma dates_forward_from_sound l :
  forall cur p from to,
    ascending p l = true -> dates_forward_from cur l from to = true ->
    forall i j, from <= i -> i <= j -> j <= to ->
      local_day (i + offset_from cur l i * NS) <= local_day (j + offset_from cur l j * NS).
Proof.
  induction l as [|[t o] r IH]; intros cur p from to Hasc Hfw i j Hfi Hij Hjt; cbn [offset_from].
  - apply local_day_mono. lia.
  - cbn [ascending] in Hasc. apply andb_prop in Hasc. destruct Hasc as [_ Hasc].
    cbn [dates_forward_from] in Hfw. apply andb_prop in Hfw. destruct Hfw as [Hstep Hfw].
    destruct (i <? t) eqn:Ei; destruct (j <? t) eqn:Ej.
    + apply local_day_mono. lia.
    + (* i < t <= j : across the transition *)
      assert (Hto : offset_from o r t = o).
      { destruct r as [|[t' o'] r']; cbn [offset_from]; [reflexivity|].
        cbn [ascending] in Hasc. apply andb_prop in Hasc. destruct Hasc as [Hlt _].
        destruct (t <? t') eqn:Et; [reflexivity|lia]. }
      assert (H1 : local_day (i + cur * NS) <= local_day (t - 1 + cur * NS)).
      { apply local_day_mono. lia. }
      assert (H2 : local_day (t - 1 + cur * NS) <= local_day (t + o * NS)).
      { apply orb_prop in Hstep. destruct Hstep as [Hstep|Hstep]; [|lia].
        apply orb_prop in Hstep. destruct Hstep as [Hstep|Hstep]; lia. }
      assert (H3 : local_day (t + offset_from o r t * NS) <= local_day (j + offset_from o r j * NS)).
      { apply (IH o t from to Hasc Hfw t j); lia. }
      rewrite Hto in H3. lia.
    + lia.
    + apply (IH o t from to Hasc Hfw i j); lia.
Qed.

Theorem dates_forward_sound z from to :
  ascending_all (tz_trans z) = true -> dates_forward_b z from to = true -> dates_forward z from to.
Proof.
  unfold dates_forward_b, dates_forward, to_local, offset_at. intros Hasc Hfw i j Hfi Hij Hjt.
  destruct (tz_trans z) as [|[t o] r] eqn:Etr.
  - cbn [offset_from]. apply local_day_mono. lia.
  - apply (dates_forward_from_sound ((t, o) :: r) (tz_init z) (t - 1) from to); try assumption.
    cbn [ascending]. cbn [ascending_all] in Hasc. rewrite Hasc. lia.
Qed.

Lemma dates_forward_narrow z from to from' to' :
  from <= from' -> to' <= to -> dates_forward z from to -> dates_forward z from' to'.
Proof. unfold dates_forward. intros Hle Hle' H i j Hi Hij Hj. apply H; lia. Qed.

(* ------------------------------------------------------------------------------------------- *)
(* 3. the rows of the property *)

(* None means now *)
Theorem none_is_now z now : get_instant z now ANone = Ok now.
Proof. reflexivity. Qed.

(* numbers, timedeltas and ISO-8601 durations mean now plus that duration (of either sign) *)
Theorem duration_is_now_plus z now d :
  get_instant z now (ANum d) = Ok (now + d) /\
  get_instant z now (ADelta d) = Ok (now + d) /\
  get_instant z now (AIsoDuration d) = Ok (now + d).
Proof. repeat split. Qed.

(* aware datetimes, SystemDateTime and Instant denote themselves, whatever now and the zone are *)
Theorem identity_rows z now i :
  get_instant z now (AAware i) = Ok i /\
  get_instant z now (ASystem i) = Ok i /\
  get_instant z now (AInstant i) = Ok i.
Proof. repeat split. Qed.

(* what has no reading is refused with ValueError *)
Theorem unreadable_is_value_error z now :
  get_instant z now ABad = Raise EValueError /\ get_instant z now ABadValue = Raise EValueError.
Proof. split; reflexivity. Qed.

(* the only errors of get_instant: ValueError, and SkippedTime / RepeatedTime (EOther) *)
Lemma resolve_raise_errs z l e : resolve_raise z l = Raise e -> e = EOther.
Proof.
  unfold resolve_raise. destruct (candidates z l) as [|c [|c2 t]]; intros H; try discriminate;
    injection H as H; congruence.
Qed.

Lemma resolve_raise_ok z l r : resolve_raise z l = Ok r <-> candidates z l = [r].
Proof.
  unfold resolve_raise. destruct (candidates z l) as [|c [|c2 t]]; split; intros H; try discriminate;
    injection H as H; congruence.
Qed.

Lemma resolve_raise_fuel z l : resolve_raise z l <> OutOfFuel.
Proof. unfold resolve_raise. destruct (candidates z l) as [|c [|c2 t]]; discriminate. Qed.

Lemma get_instant_errs z now a e :
  get_instant z now a = Raise e -> e = EValueError \/ e = EOther.
Proof.
  destruct a; cbn [get_instant get_timedelta]; intros H; try discriminate;
    try (injection H as H; left; congruence).
  - (* time of day *)
    unfold time_of_day in H.
    destruct (resolve_raise z (mk_local (local_day (to_local z now)) tod)) as [c| e'|] eqn:E1.
    + destruct (c <? now).
      * right. eapply resolve_raise_errs; exact H.
      * discriminate.
    + injection H as H. subst e'. right. eapply resolve_raise_errs; exact E1.
    + discriminate.
  - (* naive *)
    unfold system_datetime in H. destruct (candidates z local) as [|c t]; [|discriminate].
    destruct (gap_of z local) as [[ob oa]|]; [discriminate|].
    injection H as H. right. congruence.
Qed.

Lemma get_instant_fuel z now a : get_instant z now a <> OutOfFuel.
Proof.
  destruct a; cbn [get_instant get_timedelta]; try discriminate.
  - unfold time_of_day.
    destruct (resolve_raise z (mk_local (local_day (to_local z now)) tod)) as [c| e'|] eqn:E1.
    + destruct (c <? now); [apply resolve_raise_fuel|discriminate].
    + discriminate.
    + exfalso. eapply resolve_raise_fuel; exact E1.
  - unfold system_datetime. destruct (candidates z local) as [|c t]; [|discriminate].
    destruct (gap_of z local) as [[ob oa]|]; discriminate.
Qed.

(* naive datetimes are system-local: whenever some instant shows the given local time, the result is
   the EARLIEST instant that shows it (PEP 495 fold=0; the fold attribute is not looked at) *)
Theorem naive_is_system_local z now l r :
  get_instant z now (ANaive l) = Ok r ->
  (exists i, to_local z i = l) ->
  to_local z r = l /\ forall i, to_local z i = l -> r <= i.
Proof.
  cbn [get_instant]. unfold system_datetime. intros H [i0 Hi0].
  apply candidates_spec in Hi0.
  destruct (candidates z l) as [|c t] eqn:Ec; [contradiction|].
  injection H as H. subst c. split.
  - apply candidates_spec. rewrite Ec. left; reflexivity.
  - intros i Hi. apply candidates_spec in Hi. rewrite Ec in Hi.
    apply (ssorted_head_min r t i); [|exact Hi].
    rewrite <- Ec. apply candidates_sorted.
Qed.

(* ... and a local time that no instant shows (skipped by a clock change) is read with the offset that
   was valid before the gap, i.e. it lands after the gap, shifted by the length of the gap *)
Theorem naive_skipped_shifted z now l r :
  get_instant z now (ANaive l) = Ok r ->
  (forall i, to_local z i <> l) ->
  exists ob oa, gap_of z l = Some (ob, oa) /\ r = l - ob * NS.
Proof.
  cbn [get_instant]. unfold system_datetime. intros H Hno.
  destruct (candidates z l) as [|c t] eqn:Ec.
  - destruct (gap_of z l) as [[ob oa]|]; [|discriminate].
    injection H as H. exists ob, oa. split; [reflexivity|lia].
  - exfalso. apply (Hno c). apply candidates_spec. rewrite Ec. left; reflexivity.
Qed.

(* an accepted naive datetime that is refused does not exist: the constructor never raises for a time
   that an instant shows *)
Theorem naive_shown_accepted z now l i :
  to_local z i = l -> exists r, get_instant z now (ANaive l) = Ok r.
Proof.
  intros Hi. apply candidates_spec in Hi. cbn [get_instant]. unfold system_datetime.
  destruct (candidates z l) as [|c t]; [contradiction|]. exists c. reflexivity.
Qed.

(* ---- time of day ---- *)

Lemma time_of_day_cases z now tod r :
  time_of_day z now tod = Ok r ->
  (candidates z (mk_local (local_day (to_local z now)) tod) = [r] /\ now <= r) \/
  (exists c, candidates z (mk_local (local_day (to_local z now)) tod) = [c] /\ c < now /\
             candidates z (mk_local (local_day (to_local z now) + 1) tod) = [r]).
Proof.
  unfold time_of_day. intros H.
  destruct (resolve_raise z (mk_local (local_day (to_local z now)) tod)) as [c| e|] eqn:E1; try discriminate.
  apply resolve_raise_ok in E1.
  destruct (c <? now) eqn:L.
  - apply resolve_raise_ok in H. right. exists c. repeat split; try assumption. lia.
  - injection H as H. subst c. left. split; [assumption|lia].
Qed.

Lemma in_single (c : Z) l x : l = [c] -> In x l -> x = c.
Proof. intros -> [H|[]]. congruence. Qed.

Lemma single_in (c : Z) l : l = [c] -> In c l.
Proof. intros ->. left; reflexivity. Qed.

(* What a time of day resolves to, for EVERY table (no well-formedness needed): the result shows the
   requested time of day on today's local date when that instant is not before now, otherwise on
   tomorrow's local date; in both cases it is the ONLY instant showing that date and time (a time that is
   skipped or repeated on the day in question is refused: SkippedTime / RepeatedTime). *)
Theorem time_of_day_today_or_tomorrow z now tod r :
  0 <= tod < DAY ->
  get_instant z now (ATime tod) = Ok r ->
  let today := local_day (to_local z now) in
  local_tod (to_local z r) = tod /\
  ( (candidates z (mk_local today tod) = [r] /\ now <= r /\ local_day (to_local z r) = today)
    \/
    (exists c, candidates z (mk_local today tod) = [c] /\ c < now /\
               candidates z (mk_local (today + 1) tod) = [r] /\ local_day (to_local z r) = today + 1) ).
Proof.
  intros Htod H today. cbn [get_instant get_timedelta] in H.
  apply time_of_day_cases in H. fold today in H.
  destruct H as [[Hc Hle]|[c [Hc [Hlt Hr]]]].
  - pose proof (single_in _ _ Hc) as Hin. apply candidates_spec in Hin.
    rewrite Hin. split; [apply local_tod_mk; exact Htod|].
    left. repeat split; try assumption. apply local_day_mk; exact Htod.
  - pose proof (single_in _ _ Hr) as Hin. apply candidates_spec in Hin.
    rewrite Hin. split; [apply local_tod_mk; exact Htod|].
    right. exists c. repeat split; try assumption. apply local_day_mk; exact Htod.
Qed.

(* The full statement of the row: on a well-formed table whose local date does not go backwards within
   reach of now (from four hours before it to two days and four hours after it), the result is not before
   now, at most two days and four hours ahead, and it is the LEAST instant >= now at which the system-local
   wall clock shows the time of day. *)
Theorem time_of_day_next z now tod r :
  wf_tz_b z = true ->
  dates_forward z (reach_lo now) (reach_hi now) ->
  0 <= tod < DAY ->
  get_instant z now (ATime tod) = Ok r ->
  now <= r <= reach_hi now /\
  local_tod (to_local z r) = tod /\
  (forall i, now <= i -> local_tod (to_local z i) = tod -> r <= i).
Proof.
  intros Hwf Hfw Htod H. unfold reach_lo, reach_hi in *.
  pose proof (time_of_day_today_or_tomorrow z now tod r Htod H) as [Hshow Hcase].
  cbv zeta in Hcase.
  set (today := local_day (to_local z now)) in *.
  (* the local date of r is today or tomorrow *)
  assert (Hdr : (local_day (to_local z r) = today /\ now <= r) \/ local_day (to_local z r) = today + 1).
  { destruct Hcase as [[_ [Hle Hd]]|[c [_ [_ [_ Hd]]]]]; [left; split|right]; assumption. }
  pose proof (local_split (to_local z r)) as Hsr. rewrite Hshow in Hsr.
  pose proof (local_split (to_local z now)) as Hsn. fold today in Hsn.
  pose proof (local_tod_range (to_local z now)) as Htn.
  pose proof (offset_diff z r now Hwf) as Hd1.
  pose proof (offset_diff z now r Hwf) as Hd2.
  assert (Hr_eq : r + offset_at z r * NS = local_day (to_local z r) * DAY + tod) by exact Hsr.
  assert (Hn_eq : now + offset_at z now * NS = today * DAY + local_tod (to_local z now)) by exact Hsn.
  assert (Hbounds : now - 14400 * NS <= r /\ r <= now + 2 * DAY + 14400 * NS).
  { revert Hr_eq Hn_eq Htn Hd1 Hd2 Htod Hdr.
    generalize (local_tod (to_local z now)) (offset_at z r) (offset_at z now) (local_day (to_local z r)).
    rewrite NS_val, DAY_val. intros tn o1 o2 dr Hr_eq Hn_eq Htn Hd1 Hd2 Htod Hdr. lia. }
  destruct Hbounds as [Hlo Hhi].
  assert (Hnow_r : now <= r).
  { destruct Hcase as [[_ [Hle _]]|[c [_ [_ [Hr Hday]]]]]; [exact Hle|].
    destruct (Z_lt_le_dec r now) as [Hlt|Hge]; [exfalso|exact Hge].
    (* r < now, yet r is shown on tomorrow's date: the date would have gone backwards *)
    assert (Hnh : now <= now + 2 * DAY + 14400 * NS) by (rewrite NS_val, DAY_val; lia).
    pose proof (Hfw r now Hlo (Z.lt_le_incl _ _ Hlt) Hnh) as Hmono.
    fold today in Hmono. lia. }
  split; [split; [exact Hnow_r|exact Hhi]|]. split; [exact Hshow|].
  intros i Hni Hti.
  destruct (Z_lt_le_dec i r) as [Hlt|Hge]; [exfalso|exact Hge].
  assert (Hfrom_now : now - 14400 * NS <= now) by (rewrite NS_val; lia).
  assert (Hi_hi : i <= now + 2 * DAY + 14400 * NS) by lia.
  pose proof (Hfw now i Hfrom_now Hni Hi_hi) as Hm1. fold today in Hm1.
  assert (Hfrom_i : now - 14400 * NS <= i) by (rewrite NS_val in *; lia).
  pose proof (Hfw i r Hfrom_i (Z.lt_le_incl _ _ Hlt) Hhi) as Hm2.
  pose proof (local_split (to_local z i)) as Hsi. rewrite Hti in Hsi.
  destruct Hcase as [[Hc [_ Hday]]|[c [Hc [Hcn [Hr Hday]]]]].
  - (* r is today's occurrence: i is shown today as well, hence i = r *)
    assert (Hdi : local_day (to_local z i) = today) by lia.
    rewrite Hdi in Hsi. apply candidates_spec in Hsi.
    pose proof (in_single _ _ _ Hc Hsi). lia.
  - (* r is tomorrow's: i is today's (= c < now) or tomorrow's (= r) *)
    assert (Hdi : local_day (to_local z i) = today \/ local_day (to_local z i) = today + 1) by lia.
    destruct Hdi as [Hdi|Hdi]; rewrite Hdi in Hsi; apply candidates_spec in Hsi.
    + pose proof (in_single _ _ _ Hc Hsi). lia.
    + pose proof (in_single _ _ _ Hr Hsi). lia.
Qed.

(* the same with the two hypotheses in their executable form (the harness evaluates both for every zone
   table and every now it uses) *)
Corollary time_of_day_next_b z now tod r :
  wf_tz_b z = true ->
  dates_forward_b z (reach_lo now) (reach_hi now) = true ->
  0 <= tod < DAY ->
  get_instant z now (ATime tod) = Ok r ->
  now <= r <= reach_hi now /\
  local_tod (to_local z r) = tod /\
  (forall i, now <= i -> local_tod (to_local z i) = tod -> r <= i).
Proof.
  intros Hwf Hfw. apply time_of_day_next; [exact Hwf|].
  apply dates_forward_sound; [|exact Hfw]. apply wf_tz_parts in Hwf. tauto.
Qed.

(* when is a time of day refused?  exactly when today's wall-clock time is skipped or repeated, or
   today's occurrence is over and tomorrow's is skipped or repeated *)
Theorem time_of_day_refused z now tod :
  let today := local_day (to_local z now) in
  (exists e, get_instant z now (ATime tod) = Raise e) <->
  ( (forall c, candidates z (mk_local today tod) <> [c]) \/
    (exists c, candidates z (mk_local today tod) = [c] /\ c < now /\
               forall r, candidates z (mk_local (today + 1) tod) <> [r]) ).
Proof.
  intros today. cbn [get_instant get_timedelta]. unfold time_of_day. fold today.
  destruct (resolve_raise z (mk_local today tod)) as [c| e|] eqn:E1.
  - apply resolve_raise_ok in E1.
    destruct (c <? now) eqn:L.
    + destruct (resolve_raise z (mk_local (today + 1) tod)) as [r| e|] eqn:E2.
      * apply resolve_raise_ok in E2. split.
        -- intros [e He]. discriminate.
        -- intros [Hno|[c' [Hc' [_ Hno]]]].
           ++ exfalso. apply (Hno c). exact E1.
           ++ exfalso. apply (Hno r). exact E2.
      * split; [|intros _; exists e; reflexivity].
        intros _. right. exists c. repeat split; [exact E1|lia|].
        intros r Hr. apply resolve_raise_ok in Hr. congruence.
      * exfalso. eapply resolve_raise_fuel; exact E2.
    + split.
      * intros [e He]. discriminate.
      * intros [Hno|[c' [Hc' [Hlt _]]]].
        -- exfalso. apply (Hno c). exact E1.
        -- rewrite E1 in Hc'. injection Hc' as Hc'. lia.
  - split; [|intros _; exists e; reflexivity].
    intros _. left. intros c Hc. apply resolve_raise_ok in Hc. congruence.
  - exfalso. eapply resolve_raise_fuel; exact E1.
Qed.

(* ------------------------------------------------------------------------------------------- *)
(* 4. positivity, the past *)

(* countdowns and interval lengths: a duration <= 0 is a ValueError, whatever the start is (unless the
   start itself is refused first); a positive one is stored as it is *)
Theorem pos_required z now a d :
  get_timedelta a = Ok d -> d <= 0 ->
  get_pos_timedelta_secs a = Raise EValueError /\
  countdown a = Raise EValueError /\
  interval z now ANone a = Raise EValueError /\
  (forall start s, get_instant z now start = Ok s -> interval z now start a = Raise EValueError).
Proof.
  intros Hd Hle.
  assert (Hp : get_pos_timedelta_secs a = Raise EValueError).
  { unfold get_pos_timedelta_secs. rewrite Hd. destruct (d <=? 0) eqn:E; [reflexivity|lia]. }
  split; [exact Hp|]. split; [exact Hp|]. split.
  - cbn [interval]. rewrite Hp. reflexivity.
  - intros start s Hs. unfold interval. rewrite Hs, Hp. destruct start; reflexivity.
Qed.

Theorem pos_accepted a d :
  get_timedelta a = Ok d -> 0 < d -> countdown a = Ok d.
Proof.
  intros Hd Hlt. unfold countdown, get_pos_timedelta_secs. rewrite Hd.
  destruct (d <=? 0) eqn:E; [lia|reflexivity].
Qed.

(* nothing that is not positive gets through, for ALL arguments *)
Theorem accepted_is_positive z now :
  (forall a d, countdown a = Ok d -> 0 < d) /\
  (forall start iv s d, interval z now start iv = Ok (s, d) -> 0 < d).
Proof.
  assert (Hp : forall a d, get_pos_timedelta_secs a = Ok d -> 0 < d).
  { intros a d. unfold get_pos_timedelta_secs. destruct (get_timedelta a) as [x| e|]; try discriminate.
    destruct (x <=? 0) eqn:E; [discriminate|]. intros H. injection H as H. lia. }
  split; [exact Hp|].
  intros start iv s d. unfold interval.
  destruct (get_pos_timedelta_secs iv) as [x| e|] eqn:E.
  - specialize (Hp iv x E).
    destruct start; try (intros H; injection H as H1 H2; lia);
      match goal with
      | |- context [get_instant z now ?a] => destruct (get_instant z now a); intros H; try discriminate;
                                            injection H as H1 H2; lia
      end.
  - destruct start; try discriminate;
      match goal with
      | |- context [get_instant z now ?a] => destruct (get_instant z now a); discriminate
      end.
  - destruct start; try discriminate;
      match goal with
      | |- context [get_instant z now ?a] => destruct (get_instant z now a); discriminate
      end.
Qed.

(* offsets may have either sign; a jitter window must be non-empty and ordered *)
Theorem jitter_window lo hi l h :
  jitter lo hi = Ok (l, h) -> l < h /\ (hi = None -> l = 0).
Proof.
  unfold jitter. destruct (get_timedelta lo) as [x| e|]; try discriminate.
  destruct hi as [hv|].
  - destruct (get_timedelta hv) as [y| e|]; try discriminate.
    destruct (y <=? x) eqn:E; [discriminate|]. intros H. injection H as H1 H2. split; [lia|discriminate].
  - destruct (x <=? 0) eqn:E; [discriminate|]. intros H. injection H as H1 H2. split; [lia|intros _; lia].
Qed.

(* the tolerance is the 100 ms of jobs/base.py (the constant is read from /repo on every run) *)
Lemma past_tolerance_value : past_tolerance_ns = 100000000.
Proof. reflexivity. Qed.

Theorem past_tolerance now i :
  past_tolerance_ns = 100000000 /\
  (once_accepts now i = true <-> now - 100000000 <= i).
Proof.
  split; [exact past_tolerance_value|].
  unfold once_accepts. rewrite past_tolerance_value. lia.
Qed.

(* one-shot instants: exactly the instants more than 100 ms before now are refused with
   ScheduledRunInThePastError; every other outcome of once is the outcome of get_instant *)
Theorem past_rejected z now a :
  past_tolerance_ns = 100000000 /\
  (once z now a = Raise EPast <-> exists i, get_instant z now a = Ok i /\ i < now - 100000000) /\
  (forall i, once z now a = Ok i <-> get_instant z now a = Ok i /\ now - 100000000 <= i) /\
  (forall e, e <> EPast -> (once z now a = Raise e <-> get_instant z now a = Raise e)).
Proof.
  split; [exact past_tolerance_value|].
  unfold once.
  destruct (get_instant z now a) as [i| e|] eqn:E.
  - pose proof (past_tolerance now i) as [_ Hacc].
    destruct (once_accepts now i) eqn:Ea.
    + assert (Hle : now - 100000000 <= i) by (apply Hacc; reflexivity).
      split; [|split].
      * split; [discriminate|]. intros [i' [Hi' Hlt]]. injection Hi' as Hi'. lia.
      * intros i'. split.
        -- intros H. injection H as H. subst i'. split; [reflexivity|exact Hle].
        -- intros [H _]. exact H.
      * intros e Hne. split; discriminate.
    + assert (Hlt : i < now - 100000000).
      { destruct (Z_lt_le_dec i (now - 100000000)) as [Hl|Hg]; [exact Hl|].
        apply Hacc in Hg. discriminate. }
      split; [|split].
      * split; [|reflexivity]. intros _. exists i. split; [reflexivity|exact Hlt].
      * intros i'. split; [discriminate|]. intros [H Hle]. injection H as H. lia.
      * intros e Hne. split; [|discriminate]. intros H. injection H as H. congruence.
  - pose proof (get_instant_errs z now a e E) as He.
    split; [|split].
    + split.
      * intros H. injection H as H. subst e. destruct He as [He|He]; discriminate.
      * intros [i [Hi _]]. discriminate.
    + intros i. split; [discriminate|]. intros [H _]. discriminate.
    + intros e' Hne. tauto.
  - exfalso. eapply get_instant_fuel; exact E.
Qed.

(* ------------------------------------------------------------------------------------------- *)
(* 5. examples *)

(* Europe/Berlin around 2025: CET, CEST from 2025-03-30T01:00Z, CET again from 2025-10-26T01:00Z *)
Definition berlin : tz :=
  {| tz_init := 3600; tz_trans := [(1743296400 * NS, 7200); (1761440400 * NS, 3600)] |}.

Definition HOUR : Z := 3600 * NS.

Example berlin_wf : wf_tz_b berlin = true /\ dates_forward_b berlin 0 (10 ^ 20) = true.
Proof. split; vm_compute; reflexivity. Qed.

(* the eve of the clock change: now = 2025-03-29 12:00 local (11:00Z); '08:00' is over for today, so it
   means 2025-03-30 08:00 local = 06:00Z, 19 hours later (not 20 = "+24 h" on the wall clock) *)
Example berlin_eve_of_dst :
  let now := 1743246000 * NS in
  to_local berlin now = mk_local 20176 (12 * HOUR) /\
  get_instant berlin now (ATime (8 * HOUR)) = Ok (1743314400 * NS) /\
  to_local berlin (1743314400 * NS) = mk_local 20177 (8 * HOUR) /\
  1743314400 * NS - now = 19 * HOUR.
Proof. vm_compute. repeat split. Qed.

(* the theorem applies to this case *)
Example berlin_eve_least :
  let now := 1743246000 * NS in
  forall i, now <= i -> local_tod (to_local berlin i) = 8 * HOUR -> 1743314400 * NS <= i.
Proof.
  intros now.
  assert (H1 : wf_tz_b berlin = true) by (vm_compute; reflexivity).
  assert (H2 : dates_forward_b berlin (reach_lo now) (reach_hi now) = true) by (vm_compute; reflexivity).
  assert (H3 : 0 <= 8 * HOUR < DAY) by (vm_compute; split; [discriminate|reflexivity]).
  assert (H4 : get_instant berlin now (ATime (8 * HOUR)) = Ok (1743314400 * NS)) by (vm_compute; reflexivity).
  exact (proj2 (proj2 (time_of_day_next_b berlin now (8 * HOUR) (1743314400 * NS) H1 H2 H3 H4))).
Qed.

(* still ahead today / equal to now (accepted, it is now) / the other rows *)
Example berlin_rows :
  let now := 1743246000 * NS in
  get_instant berlin now (ATime (13 * HOUR)) = Ok (now + HOUR) /\
  get_instant berlin now (ATime (12 * HOUR)) = Ok now /\
  get_instant berlin now ANone = Ok now /\
  get_instant berlin now (ANum (-5 * NS)) = Ok (now - 5 * NS) /\
  get_instant berlin now (AIsoDuration HOUR) = Ok (now + HOUR) /\
  get_instant berlin now (ANaive (mk_local 20177 (8 * HOUR))) = Ok (1743314400 * NS) /\
  get_instant berlin now (AInstant 5) = Ok 5.
Proof. vm_compute. repeat split. Qed.

(* 02:30 does not exist on 2025-03-30: as a time of day it is refused (today: now = 01:00 and now = 05:00
   local on that day; tomorrow: now = 12:00 the day before); as a naive datetime it becomes 03:30 CEST *)
Example berlin_skipped :
  get_instant berlin (1743292800 * NS) (ATime (2 * HOUR + HOUR / 2)) = Raise EOther /\
  get_instant berlin (1743292800 * NS + 3 * HOUR) (ATime (2 * HOUR + HOUR / 2)) = Raise EOther /\
  get_instant berlin (1743246000 * NS) (ATime (2 * HOUR + HOUR / 2)) = Raise EOther /\
  get_instant berlin 0 (ANaive (mk_local 20177 (2 * HOUR + HOUR / 2))) = Ok (1743298200 * NS) /\
  to_local berlin (1743298200 * NS) = mk_local 20177 (3 * HOUR + HOUR / 2).
Proof. vm_compute. repeat split. Qed.

(* 02:30 exists twice on 2025-10-26: refused as a time of day before, between and after the two
   occurrences; the naive datetime is the earlier one (00:30Z) *)
Example berlin_repeated :
  get_instant berlin (1761433200 * NS) (ATime (2 * HOUR + HOUR / 2)) = Raise EOther /\
  get_instant berlin (1761439500 * NS) (ATime (2 * HOUR + HOUR / 2 + HOUR / 3)) = Raise EOther /\
  get_instant berlin (1761454800 * NS) (ATime (2 * HOUR + HOUR / 2)) = Raise EOther /\
  get_instant berlin 0 (ANaive (mk_local 20387 (2 * HOUR + HOUR / 2))) = Ok (1761438600 * NS) /\
  candidates berlin (mk_local 20387 (2 * HOUR + HOUR / 2)) = [1761438600 * NS; 1761442200 * NS].
Proof. vm_compute. repeat split. Qed.

(* once: 100 ms back is accepted, 100 ms and 1 ns is not; countdown / interval *)
Example once_examples :
  let now := 1743246000 * NS in
  once berlin now (ANum (-100000000)) = Ok (now - 100000000) /\
  once berlin now (ANum (-100000001)) = Raise EPast /\
  once berlin now ANone = Ok now /\
  once berlin now ABad = Raise EValueError /\
  countdown (ANum 0) = Raise EValueError /\
  countdown (AIsoDuration (-NS)) = Raise EValueError /\
  countdown (ADelta 1) = Ok 1 /\
  countdown ANone = Raise ETypeError /\
  interval berlin now ANone (ANum (5 * NS)) = Ok (None, 5 * NS) /\
  interval berlin now (ATime (8 * HOUR)) (ANum HOUR) = Ok (Some (1743314400 * NS), HOUR) /\
  interval berlin now ABad (ANum 0) = Raise EValueError /\
  offset (ANum (-5)) = Ok (-5) /\
  jitter (ANum 5) None = Ok (0, 5) /\
  jitter (ANum (-5)) (Some (ANum 5)) = Ok (-5, 5) /\
  jitter (ANum 5) (Some (ANum 5)) = Raise EValueError.
Proof. vm_compute. repeat split. Qed.

(* The hypothesis [dates_forward] of time_of_day_next cannot be dropped.  A clock that is set back from
   00:01 to 23:01 of the previous day (America/St_Johns, America/Goose_Bay, America/Moncton until 2010):
   at 00:00:30, '23:30' resolves to 23:30 of "today" (24.5 h ahead) although the wall clock shows 23:30
   already 29.5 minutes from now, on yesterday's date. *)
Definition backdate : tz := {| tz_init := 0; tz_trans := [(100 * DAY + 60 * NS, -3600)] |}.

Ltac ex_solve := vm_compute; first [reflexivity | discriminate | (split; [discriminate|reflexivity])].

Example least_needs_dates_forward :
  let now := 100 * DAY + 30 * NS in
  let tod := 23 * HOUR + HOUR / 2 in
  let r := 100 * DAY + 24 * HOUR + HOUR / 2 in
  let i := 100 * DAY + HOUR / 2 in
  wf_tz_b backdate = true /\
  dates_forward_b backdate (reach_lo now) (reach_hi now) = false /\
  get_instant backdate now (ATime tod) = Ok r /\
  now <= i /\ i < r /\ local_tod (to_local backdate i) = tod.
Proof. cbv zeta. repeat (split; [ex_solve|]). ex_solve. Qed.
