(* GenRtProd.v — what the code generated from the trigger producers (coq/gen/GenProd.v, written by tools/gen_prod.py
   from src/eascheduler/producers/{base,prod_interval,prod_operation,prod_group,prod_time,prod_filter}.py and
   helpers/time_replace.py on every run) is expressed in.  No proofs here.

   A Python method of a producer becomes   penv -> prec -> (nat -> nat) -> <fields of self> -> <arguments> ->
   pstate -> PM <result>;   a method of a filter (no state, no exception) becomes a plain boolean function.
     * values: an Instant is its Z nanoseconds; a SystemDateTime is ALSO the Z nanoseconds of its instant (the zone
       is the system zone [pz E]; its local fields are read through [to_local (pz E)]); a Date is its day number; a
       Time is nanoseconds since local midnight; float seconds (interval, offset, jitter bounds, the result of
       random.uniform, TimeDelta.in_seconds()) are integer nanoseconds;
     * the state [pstate] of Producers.v is threaded explicitly: `self._next` of an IntervalProducer is the cell
       [cell_get id start] / [cell_set id], `uniform(a, b)` is the next draw of the environment;
     * [None] = out of fuel, [Some (s, PRet v)] = the method returned v, [Some (s, PExc e)] = it raised e (Python
       semantics: the exception propagates to the handler in force);
     * calls of other objects' methods go through the record [prec] (open recursion, as in GenRt.v); an abstract
       method of self (`self.apply_operation`) is a function argument;
     * `for _ in not_infinite_loop()` is [for_rounds loop_bound] (InfiniteLoopDetectedError after the last round),
       `for x in <tuple>` is [for_list], `while` is [while_ (fuel k)] for the k-th `while` of the method. *)
From EAS Require Import Base Civil Time Filters Replace Producers.
From EASGen Require Import Generated.

Inductive pexn :=
  | XSkipped                          (* helpers.TimeSkippedError *)
  | XTwice (earlier later : Z)        (* helpers.TimeTwiceError(earlier, later) *)
  | XWSkipped                         (* whenever.SkippedTime *)
  | XWRepeated                        (* whenever.RepeatedTime *)
  | XErr (e : err).                   (* anything else, by the enum of Base.v *)

Inductive pres (A : Type) := PRet (a : A) | PExc (e : pexn).
Arguments PRet {A} a.
Arguments PExc {A} e.

Definition PM (A : Type) : Type := option (pstate * pres A).

(* how one round of a loop body ends *)
Inductive lstep (X A : Type) :=
  | LNext (x : X)           (* end of the body / continue: the loop-carried variables *)
  | LExit (x : X)           (* break, or the condition of a `while` is false *)
  | LReturn (a : A).        (* return a *)
Arguments LNext {X A} x.
Arguments LExit {X A} x.
Arguments LReturn {X A} a.

Definition p_return {A} (a : A) (s : pstate) : PM A := Some (s, PRet a).
Definition p_raise {A} (s : pstate) (e : pexn) : PM A := Some (s, PExc e).
Definition l_next {X A} (x : X) (s : pstate) : PM (lstep X A) := Some (s, PRet (LNext x)).
Definition l_exit {X A} (x : X) (s : pstate) : PM (lstep X A) := Some (s, PRet (LExit x)).
Definition l_return {X A} (a : A) (s : pstate) : PM (lstep X A) := Some (s, PRet (LReturn a)).
Definition l_raise {X A} (s : pstate) (e : pexn) : PM (lstep X A) := Some (s, PExc e).
(* the end of a function whose annotation promises a value: Python returns None there *)
Definition p_fell_off {A} (s : pstate) : PM A := Some (s, PExc (XErr ETypeError)).

Record prec := {
  r_get_next : producer -> Z -> pstate -> PM Z;        (* <producer>.get_next(dt) *)
  r_allow : filt -> Z -> bool;                         (* <filter>.allow(<SystemDateTime>) *)
  r_replace : treplacer -> Z -> pstate -> PM Z;        (* <TimeReplacer>.replace(<date>) *)
  r_find_after : Z -> Z -> pstate -> PM Z              (* find_time_after_dst_switch(<date>, <time>) *)
}.

(* a loop result: [inl x] the loop was left (carried variables x), [inr a] the function returned a *)
Definition loop_out {X A} (r : pstate * pres (lstep X A)) : (X * pstate) + PM (X + A) :=
  match r with
  | (s, PExc e) => inr (Some (s, PExc e))
  | (s, PRet (LNext x)) => inl (x, s)
  | (s, PRet (LExit x)) => inr (Some (s, PRet (inl x)))
  | (s, PRet (LReturn a)) => inr (Some (s, PRet (inr a)))
  end.

Fixpoint while_ {X A} (fuel : nat) (step : X -> pstate -> PM (lstep X A)) (x : X) (s : pstate) : PM (X + A) :=
  match fuel with
  | O => None
  | S n =>
      match step x s with
      | None => None
      | Some r => match loop_out r with inl (x', s') => while_ n step x' s' | inr out => out end
      end
  end.

(* for _ in not_infinite_loop(): range(1, 100_000), then the generator raises *)
Definition for_rounds {X A} (bound : positive) (step : X -> pstate -> PM (lstep X A)) (x : X) (s : pstate)
  : PM (X + A) :=
  match iter_until bound
          (fun xs : X * pstate => match step (fst xs) (snd xs) with None => inr None | Some r => loop_out r end)
          (x, s) with
  | inr out => out
  | inl (_, s') => Some (s', PExc (XErr EInfiniteLoop))
  end.

(* for _ in range(n): n rounds, then the loop is left normally *)
Definition for_count {X A} (n : positive) (step : X -> pstate -> PM (lstep X A)) (x : X) (s : pstate)
  : PM (X + A) :=
  match iter_until n
          (fun xs : X * pstate => match step (fst xs) (snd xs) with None => inr None | Some r => loop_out r end)
          (x, s) with
  | inr out => out
  | inl (x', s') => Some (s', PRet (inl x'))
  end.

Fixpoint for_list {T X A} (l : list T) (step : T -> X -> pstate -> PM (lstep X A)) (x : X) (s : pstate)
  : PM (X + A) :=
  match l with
  | [] => Some (s, PRet (inl x))
  | t :: r =>
      match step t x s with
      | None => None
      | Some o => match loop_out o with inl (x', s') => for_list r step x' s' | inr out => out end
      end
  end.

(* min(<call> for p in <tuple>): the elements are evaluated in order, the first exception propagates, an empty
   sequence is a ValueError *)
Fixpoint min_fold {T} (l : list T) (fn : T -> pstate -> PM Z) (acc : option Z) (s : pstate) : PM Z :=
  match l with
  | [] => match acc with None => Some (s, PExc (XErr EValueError)) | Some m => Some (s, PRet m) end
  | t :: r =>
      match fn t s with
      | None => None
      | Some (s', PExc e) => Some (s', PExc e)
      | Some (s', PRet v) => min_fold r fn (Some (match acc with None => v | Some a => Z.min a v end)) s'
      end
  end.
Definition min_over {T} (l : list T) (fn : T -> pstate -> PM Z) (s : pstate) : PM Z := min_fold l fn None s.

(* IntervalProducer._next: the constructor argument until the first assignment, then the cache cell *)
Definition cell_get (id : nat) (start : option Z) (s : pstate) : option Z :=
  match ilookup id (icache s) with Some c => Some c | None => start end.
Definition cell_set (id : nat) (v : Z) (s : pstate) : pstate := with_icache (iset id v (icache s)) s.

(* random.uniform(a, b) *)
Definition uniform_ (E : penv) (a b : Z) (s : pstate) : Z * pstate :=
  (draw E (ndraws s) a b, with_ndraws (S (ndraws s)) s).

(* local fields of a SystemDateTime / Date *)
Definition sys_local (E : penv) (i : Z) : Z := to_local (pz E) i.
Definition sys_date (E : penv) (i : Z) : Z := local_day (to_local (pz E) i).
Definition sys_time (E : penv) (i : Z) : Z := local_tod (to_local (pz E) i).
Definition sys_weekday (E : penv) (i : Z) : Z := local_weekday (to_local (pz E) i).
Definition sys_dom (E : penv) (i : Z) : Z := local_dom (to_local (pz E) i).
Definition sys_month (E : penv) (i : Z) : Z := local_month (to_local (pz E) i).

(* SystemDateTime(<date> + <time of day>, disambiguate=...) in the system zone *)
Inductive disamb := DRaise | DEarlier | DLater.
Definition sdt_make (E : penv) (day tod : Z) (d : disamb) : pres Z :=
  let l := day * DAY + tod in
  match candidates (pz E) l with
  | [i] => PRet i
  | [] =>
      match d with
      | DRaise => PExc XWSkipped
      | DEarlier => match gap_of (pz E) l with Some (_, oa) => PRet (l - oa * NS) | None => PExc (XErr EOther) end
      | DLater => match gap_of (pz E) l with Some (ob, _) => PRet (l - ob * NS) | None => PExc (XErr EOther) end
      end
  | i1 :: (_ :: _) as rest =>
      match d with
      | DRaise => PExc XWRepeated
      | DEarlier => PRet i1
      | DLater => PRet (last_z i1 rest)
      end
  end.

(* the model's answer as an outcome of the generated code *)
Definition of_rres (r : rres) : pres Z :=
  match r with
  | ROne i => PRet i
  | RTwo a b => PExc (XTwice a b)
  | RSkip => PExc XSkipped
  | RExn e => PExc (XErr e)
  end.

Definition lift (r : result Z * pstate) : PM Z :=
  match r with
  | (Ok v, s) => Some (s, PRet v)
  | (Raise e, s) => Some (s, PExc (XErr e))
  | (OutOfFuel, _) => None
  end.
