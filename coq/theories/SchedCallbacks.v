(* SchedCallbacks.v — C07, callbacks: what JobCallbackHandler.run writes into the log; set_next_run invokes every
   registered on_update callback exactly once, in registration order, with the new state already visible;
   finishing does the same with on_finished; and in every history a job finishes at most once, so every
   on_finished callback is invoked at most once per job, and exactly once iff it was registered when the job
   finished.

   Model looseness that the history theorems have to exclude: [step_op] accepts an operation on an index
   j >= njobs (a job that does not exist yet) and then works on the dummy slot; such a slot can be "finished"
   and later be overwritten by a real job with the same index.  Histories are therefore required to be
   [scoped]: a control / register operation addresses an existing job (in the implementation a control object
   only exists for a created job). *)
From EAS Require Import Base BaseFacts Sched SchedInv SchedApi SchedTrace.
From EASGen Require Import Generated.

(* number of [ECbFin j cb] in a log *)
Fixpoint count_fin (j cb : nat) (l : list event) : nat :=
  match l with
  | [] => O
  | ECbFin k c :: t => if Nat.eqb k j && Nat.eqb c cb then S (count_fin j cb t) else count_fin j cb t
  | _ :: t => count_fin j cb t
  end.

Definition is_cbev (e : event) : bool :=
  match e with ECbUpd _ _ _ _ | ECbFin _ _ => true | _ => false end.

Lemma count_fin_app j cb a b : count_fin j cb (a ++ b) = (count_fin j cb a + count_fin j cb b)%nat.
Proof.
  induction a as [|e t IH]; [reflexivity|]. cbn [app count_fin].
  destruct e; try exact IH. destruct (Nat.eqb j0 j && Nat.eqb cb0 cb); [rewrite IH; reflexivity|exact IH].
Qed.

Lemma count_fin_In j cb l : In (ECbFin j cb) l <-> (0 < count_fin j cb l)%nat.
Proof.
  induction l as [|e t IH]; cbn [In count_fin]; [split; [tauto|lia]|].
  destruct e; try (rewrite <- IH; split; [intros [H|H]; [discriminate|exact H]|tauto]).
  destruct (Nat.eqb_spec j0 j) as [->|Hj]; destruct (Nat.eqb_spec cb0 cb) as [->|Hc]; cbn [andb];
    try (rewrite <- IH; split; [intros [H|H]; [congruence|exact H]|tauto]).
  split; [lia|left; reflexivity].
Qed.

Lemma count_fin_plain j cb e l : plain_ev e -> count_fin j cb (e :: l) = count_fin j cb l.
Proof. destruct e; cbn; tauto. Qed.

(* ------------------------------------------------------------------------------------------- *)
Section Callbacks.
Variable E : env.

(* what JobCallbackHandler.run writes, oldest first, when the log (newest first) is [l] before it starts:
   for every callback in registration order its event, followed by the handler event iff this invocation -
   the callback's [count_cb]-th - raises *)
Fixpoint cb_events (mk : nat -> event) (cbs : list nat) (l : list event) : list event :=
  match cbs with
  | [] => []
  | cb :: t =>
      let evs := mk cb :: (if fail_cb E cb (count_cb cb l) then [EHandler (HCb cb)] else []) in
      evs ++ cb_events mk t (rev evs ++ l)
  end.

Lemma run_cbs_log mk cbs s : log (run_cbs E mk cbs s) = rev (cb_events mk cbs (log s)) ++ log s.
Proof.
  revert s; induction cbs as [|cb t IH]; intros s; cbn [run_cbs cb_events]; [reflexivity|].
  cbv zeta. rewrite IH. destruct (fail_cb E cb (count_cb cb (log s))); cbn [log add_ev set_log rev app];
    rewrite <- !app_assoc; reflexivity.
Qed.

Lemma run_cbs_app mk c1 c2 s : run_cbs E mk (c1 ++ c2) s = run_cbs E mk c2 (run_cbs E mk c1 s).
Proof. revert s; induction c1 as [|cb t IH]; intros s; cbn [app run_cbs]; [reflexivity|apply IH]. Qed.

(* every callback once, in registration order *)
Lemma cb_events_callbacks mk cbs l :
  (forall cb, is_cbev (mk cb) = true) -> filter is_cbev (cb_events mk cbs l) = map mk cbs.
Proof.
  intros Hmk. revert l; induction cbs as [|cb t IH]; intros l; cbn [cb_events map]; [reflexivity|].
  cbv zeta. cbn [app filter]. rewrite Hmk. f_equal.
  destruct (fail_cb E cb (count_cb cb l)); cbn [app filter is_cbev]; apply IH.
Qed.

Lemma count_cb_app cb a b : count_cb cb (a ++ b) = (count_cb cb a + count_cb cb b)%nat.
Proof.
  induction a as [|e t IH]; [reflexivity|]. cbn [app count_cb].
  destruct e; try exact IH; destruct (Nat.eqb _ cb); try exact IH; rewrite IH; reflexivity.
Qed.

Lemma cb_events_ext mk cbs : forall l l',
  (forall cb, In cb cbs -> count_cb cb l = count_cb cb l') -> cb_events mk cbs l = cb_events mk cbs l'.
Proof.
  induction cbs as [|cb t IH]; intros l l' H; cbn [cb_events]; [reflexivity|]. cbv zeta.
  rewrite (H cb (or_introl eq_refl)). f_equal. apply IH. intros cb' Hin.
  rewrite !count_cb_app. f_equal. apply H. right. exact Hin.
Qed.

(* when no callback is registered twice (which is the case, [cb_lists_nodup]) the invocation index of every
   callback is the one it had before the whole round *)
Lemma cb_events_nodup mk cbs l :
  NoDup cbs -> (forall cb cb' l0, cb' <> cb -> count_cb cb' (mk cb :: l0) = count_cb cb' l0) ->
  cb_events mk cbs l =
  flat_map (fun cb => mk cb :: (if fail_cb E cb (count_cb cb l) then [EHandler (HCb cb)] else [])) cbs.
Proof.
  intros Hnd Hmk. revert l; induction Hnd as [|cb t Hni Hnd IH]; intros l; cbn [cb_events flat_map]; [reflexivity|].
  cbv zeta. f_equal. rewrite <- IH. apply cb_events_ext. intros cb' Hin.
  assert (Hne : cb' <> cb) by (intros ->; contradiction).
  rewrite count_cb_app. destruct (fail_cb E cb (count_cb cb l)); cbn [rev app].
  - change (count_cb cb' [EHandler (HCb cb); mk cb]) with (count_cb cb' [mk cb]). rewrite Hmk by exact Hne. reflexivity.
  - rewrite Hmk by exact Hne. reflexivity.
Qed.

(* --- (a) set_next_run -------------------------------------------------------------------------- *)
Theorem set_next_run_callbacks j nx s :
  let stt := match nx with None => Paused | Some _ => Running end in
  let mk := fun cb => ECbUpd j cb stt nx in
  let s1 := set_job j (with_status_next (jobs s j) stt nx) s in
  (* the log: one event per registered on_update callback, in registration order, carrying the new state *)
  log (set_next_run E j nx s) = rev (cb_events mk (jcbu (jobs s j)) (log s)) ++ log s /\
  filter is_cbev (cb_events mk (jcbu (jobs s j)) (log s)) = map mk (jcbu (jobs s j)) /\
  (* the state every single callback runs in already shows the new status and next-run time *)
  (forall c1 c2, jcbu (jobs s j) = c1 ++ c2 ->
     let sm := run_cbs E mk c1 s1 in
     set_next_run E j nx s = run_cbs E mk c2 sm /\ jstatus (jobs sm j) = stt /\ jnext (jobs sm j) = nx) /\
  jstatus (jobs (set_next_run E j nx s) j) = stt /\ jnext (jobs (set_next_run E j nx s) j) = nx.
Proof.
  cbv zeta. unfold set_next_run. cbv zeta.
  set (stt := match nx with None => Paused | Some _ => Running end).
  set (mk := fun cb => ECbUpd j cb stt nx).
  set (s1 := set_job j (with_status_next (jobs s j) stt nx) s).
  assert (Hs1 : jstatus (jobs s1 j) = stt /\ jnext (jobs s1 j) = nx).
  { subst s1. rewrite jobs_upd_same. split; reflexivity. }
  split; [|split; [|split]].
  - rewrite run_cbs_log. reflexivity.
  - apply cb_events_callbacks. reflexivity.
  - intros c1 c2 Hc. rewrite Hc, run_cbs_app. split; [reflexivity|].
    destruct (run_cbs_fields E mk c1 s1) as (_ & b & _). rewrite b. exact Hs1.
  - destruct (run_cbs_fields E mk (jcbu (jobs s j)) s1) as (_ & b & _). rewrite b. exact Hs1.
Qed.

(* the same event list written out, using that no callback is registered twice *)
Theorem set_next_run_events j nx s :
  NoDup (jcbu (jobs s j)) ->
  let stt := match nx with None => Paused | Some _ => Running end in
  log (set_next_run E j nx s) =
  rev (flat_map (fun cb => ECbUpd j cb stt nx ::
                   (if fail_cb E cb (count_cb cb (log s)) then [EHandler (HCb cb)] else []))
         (jcbu (jobs s j))) ++ log s.
Proof.
  intros Hnd. cbv zeta. destruct (set_next_run_callbacks j nx s) as (H & _). cbv zeta in H. rewrite H.
  rewrite cb_events_nodup; [reflexivity|exact Hnd|].
  intros cb cb' l0 Hne. cbn [count_cb]. destruct (Nat.eqb_spec cb cb'); [congruence|reflexivity].
Qed.

(* --- (b) finish_job ---------------------------------------------------------------------------- *)
Theorem finish_callbacks_once j s :
  let mk := fun cb => ECbFin j cb in
  let b := jobs s j in
  let s1 := set_job j (with_linked (with_status_next b Finished None) false) s in
  let s2 := if jstored b then set_store (store_remove (jkey b) (store s1)) s1 else s1 in
  log (finish_job E j s) = rev (cb_events mk (jcbf b) (log s)) ++ log s /\
  filter is_cbev (cb_events mk (jcbf b) (log s)) = map mk (jcbf b) /\
  (* every on_finished callback sees the job finished, without next run, unlinked, and already out of the store *)
  (forall c1 c2, jcbf b = c1 ++ c2 ->
     let sm := run_cbs E mk c1 s2 in
     finish_job E j s = run_cbs E mk c2 sm /\ jstatus (jobs sm j) = Finished /\ jnext (jobs sm j) = None /\
     jlinked (jobs sm j) = false /\ store sm = store (finish_job E j s)) /\
  jstatus (jobs (finish_job E j s) j) = Finished.
Proof.
  cbv zeta. unfold finish_job. cbv zeta.
  set (mk := fun cb => ECbFin j cb). set (b := jobs s j).
  set (s1 := set_job j (with_linked (with_status_next b Finished None) false) s).
  set (s2 := if jstored b then set_store (store_remove (jkey b) (store s1)) s1 else s1).
  assert (Hj2 : jobs s2 = jobs s1) by (subst s2; destruct (jstored b); reflexivity).
  assert (Hl2 : log s2 = log s) by (subst s2; destruct (jstored b); reflexivity).
  assert (Hs1 : jobs s1 j = with_linked (with_status_next b Finished None) false) by (subst s1; apply jobs_upd_same).
  split; [|split; [|split]].
  - rewrite run_cbs_log, Hl2. reflexivity.
  - apply cb_events_callbacks. reflexivity.
  - intros c1 c2 Hc. rewrite Hc, run_cbs_app. split; [reflexivity|].
    destruct (run_cbs_fields E mk c1 s2) as (_ & e1 & _). rewrite e1, Hj2, Hs1.
    split; [reflexivity|]. split; [reflexivity|]. split; [reflexivity|].
    destruct (run_cbs_other E mk c1 s2) as (_ & _ & _ & e2 & _).
    destruct (run_cbs_other E mk c2 (run_cbs E mk c1 s2)) as (_ & _ & _ & e3 & _).
    rewrite e3. reflexivity.
  - destruct (run_cbs_fields E mk (jcbf b) s2) as (_ & e1 & _). rewrite e1, Hj2, Hs1. reflexivity.
Qed.

Theorem finish_job_events j s :
  NoDup (jcbf (jobs s j)) ->
  log (finish_job E j s) =
  rev (flat_map (fun cb => ECbFin j cb :: (if fail_cb E cb (count_cb cb (log s)) then [EHandler (HCb cb)] else []))
         (jcbf (jobs s j))) ++ log s.
Proof.
  intros Hnd. destruct (finish_callbacks_once j s) as (H & _). cbv zeta in H. rewrite H.
  rewrite cb_events_nodup; [reflexivity|exact Hnd|].
  intros cb cb' l0 Hne. cbn [count_cb]. destruct (Nat.eqb_spec cb cb'); [congruence|reflexivity].
Qed.

(* counting *)
Lemma count_fin_run_cbs_other k cb mk cbs s :
  (forall x l, count_fin k cb (mk x :: l) = count_fin k cb l) ->
  count_fin k cb (log (run_cbs E mk cbs s)) = count_fin k cb (log s).
Proof.
  intros Hmk. revert s; induction cbs as [|x t IH]; intros s; cbn [run_cbs]; [reflexivity|]. cbv zeta.
  rewrite IH. destruct (fail_cb E x _); cbn [log add_ev set_log]; [cbn [count_fin]|]; apply Hmk.
Qed.

Lemma count_fin_run_cbs_fin j cb cbs s :
  count_fin j cb (log (run_cbs E (fun x => ECbFin j x) cbs s)) =
  (count_fin j cb (log s) + count_occ Nat.eq_dec cbs cb)%nat.
Proof.
  revert s; induction cbs as [|x t IH]; intros s; cbn [run_cbs count_occ]; [lia|]. cbv zeta.
  rewrite IH.
  assert (Hx : forall l, count_fin j cb (ECbFin j x :: l) =
                 ((if Nat.eq_dec x cb then 1 else 0) + count_fin j cb l)%nat).
  { intros l. cbn [count_fin]. rewrite Nat.eqb_refl. cbn [andb].
    destruct (Nat.eq_dec x cb) as [->|Hne]; [rewrite Nat.eqb_refl; reflexivity|].
    destruct (Nat.eqb_spec x cb); [congruence|reflexivity]. }
  assert (Hh : forall h l, count_fin j cb (EHandler h :: l) = count_fin j cb l) by reflexivity.
  destruct (fail_cb E x _); cbn [log add_ev set_log]; rewrite ?Hh, Hx;
    destruct (Nat.eq_dec x cb); lia.
Qed.

Lemma count_fin_finish_job k cb j s :
  count_fin k cb (log (finish_job E j s)) =
  (count_fin k cb (log s) + if Nat.eqb k j then count_occ Nat.eq_dec (jcbf (jobs s j)) cb else 0)%nat.
Proof.
  unfold finish_job. cbv zeta.
  match goal with |- context [run_cbs E ?mk ?cbs ?sx] => set (s2 := sx) end.
  assert (Hl2 : log s2 = log s) by (subst s2; destruct (jstored (jobs s j)); reflexivity).
  destruct (Nat.eqb_spec k j) as [->|Hne].
  - rewrite count_fin_run_cbs_fin, Hl2. reflexivity.
  - rewrite count_fin_run_cbs_other, Hl2; [lia|].
    intros x l. cbn [count_fin]. destruct (Nat.eqb_spec j k); [congruence|reflexivity].
Qed.

Lemma count_fin_set_next_run k cb j nx s :
  count_fin k cb (log (set_next_run E j nx s)) = count_fin k cb (log s).
Proof. unfold set_next_run. cbv zeta. rewrite count_fin_run_cbs_other; reflexivity. Qed.

(* ------------------------------------------------------------------------------------------- *)
(* invariants of the histories *)
Definition Fresh (s : st) : Prop := forall k, (njobs s <= k)%nat -> jobs s k = dummy_job.
Definition CbInv (s : st) : Prop := forall k, NoDup (jcbu (jobs s k)) /\ NoDup (jcbf (jobs s k)).

Notation NoU := (fun _ : nat => False).
Notation AnyHS := (fun _ : bool => True).

Lemma Fresh_upd a b j x :
  njobs b = njobs a -> jobs b = upd (jobs a) j x -> tgt NoU a j -> Fresh a -> Fresh b.
Proof.
  intros Hn Hj [Hlt|[]] Hf k Hk. rewrite Hn in Hk. rewrite Hj. unfold upd.
  destruct (Nat.eqb_spec k j); [lia|]. apply Hf. exact Hk.
Qed.

Lemma Fresh_atom c a b : atom E NoU c AnyHS a b -> Fresh a -> Fresh b.
Proof.
  intros Hat Hf. destruct Hat.
  - intros k. rewrite H, H0. apply Hf.
  - exact Hf.
  - destruct (set_next_run_props E j nx s) as (_ & _ & _ & _ & q5 & _ & _ & _ & q9).
    eapply Fresh_upd; eassumption.
  - destruct (finish_job_props E j s) as (_ & _ & _ & _ & q5 & _ & _ & q8).
    eapply Fresh_upd; eassumption.
  - eapply (Fresh_upd s _ j); [reflexivity|reflexivity|eassumption|exact Hf].
  - eapply (Fresh_upd s _ j); [reflexivity|reflexivity|eassumption|exact Hf].
  - eapply (Fresh_upd s _ j); [reflexivity|reflexivity|eassumption|exact Hf].
  - eapply (Fresh_upd s _ j); [reflexivity|reflexivity|eassumption|exact Hf].
  - eapply (Fresh_upd s _ j); [reflexivity|reflexivity|eassumption|exact Hf].
  - destruct (alloc_fields hs b s) as (_ & v2 & v3 & _).
    intros k. rewrite v2, v3. unfold upd. intros Hk. destruct (Nat.eqb_spec k (njobs s)); [lia|]. apply Hf. lia.
Qed.

Lemma CbInv_upd a b j x :
  jobs b = upd (jobs a) j x -> NoDup (jcbu x) -> NoDup (jcbf x) -> CbInv a -> CbInv b.
Proof.
  intros Hj Hu Hf Hc k. rewrite Hj. unfold upd. destruct (Nat.eqb_spec k j); [split; assumption|apply Hc].
Qed.

Lemma NoDup_snoc (l : list nat) x : memb x l = false -> NoDup l -> NoDup (l ++ [x]).
Proof.
  intros Hm Hnd. assert (Hni : ~ In x l) by (intros Hc; apply memb_In in Hc; congruence).
  clear Hm. induction Hnd as [|y t Hy Ht IH]; cbn [app]; [constructor; [intros []|constructor]|].
  constructor.
  - intros Hc. apply in_app_or in Hc. destruct Hc as [Hc|[Hc|[]]]; [contradiction|]. apply Hni. left. symmetry. exact Hc.
  - apply IH. intros Hc. apply Hni. right. exact Hc.
Qed.

Lemma CbInv_atom U c HS a b : atom E U c HS a b -> CbInv a -> CbInv b.
Proof.
  intros Hat Hc. destruct Hat.
  - intros k. rewrite H. apply Hc.
  - exact Hc.
  - destruct (set_next_run_props E j nx s) as (_ & _ & _ & _ & _ & _ & _ & _ & q9).
    eapply CbInv_upd; [exact q9| | |exact Hc]; apply (Hc j).
  - destruct (finish_job_props E j s) as (_ & _ & _ & _ & _ & _ & _ & q8).
    eapply CbInv_upd; [exact q8| | |exact Hc]; apply (Hc j).
  - eapply (CbInv_upd s _ j); [reflexivity| | |exact Hc]; apply (Hc j).
  - eapply (CbInv_upd s _ j); [reflexivity| | |exact Hc]; cbn [jcbu jcbf with_cbu].
    + apply NoDup_snoc; [assumption|apply (Hc j)].
    + apply (Hc j).
  - eapply (CbInv_upd s _ j); [reflexivity| | |exact Hc]; cbn [jcbu jcbf with_cbu].
    + apply NoDup_filter. apply (Hc j).
    + apply (Hc j).
  - eapply (CbInv_upd s _ j); [reflexivity| | |exact Hc]; cbn [jcbu jcbf with_cbf].
    + apply (Hc j).
    + apply NoDup_snoc; [assumption|apply (Hc j)].
  - eapply (CbInv_upd s _ j); [reflexivity| | |exact Hc]; cbn [jcbu jcbf with_cbf].
    + apply (Hc j).
    + apply NoDup_filter. apply (Hc j).
  - destruct (alloc_fields hs b s) as (_ & v2 & _).
    eapply CbInv_upd; [exact v2| | |exact Hc]; cbn [jcbu jcbf with_linked with_stored]; [rewrite H2|rewrite H3]; constructor.
Qed.

(* one step seen from job k and callback cb: a finished job stays finished and gets no further on_finished
   event; a job that finishes in this step gets one event per registration of cb; otherwise nothing *)
Definition FinStep (s s' : st) : Prop := forall k cb,
  (is_finished s k = true -> is_finished s' k = true) /\
  count_fin k cb (log s') =
  (count_fin k cb (log s) +
   if is_finished s k then 0 else if is_finished s' k then count_occ Nat.eq_dec (jcbf (jobs s k)) cb else 0)%nat.

Definition FinRel (s s' : st) : Prop :=
  FinStep s s' /\ forall k, jcbf (jobs s' k) = jcbf (jobs s k).

Lemma FinRel_refl s : FinRel s s.
Proof.
  split; [|reflexivity]. intros k cb. split; [tauto|]. destruct (is_finished s k); lia.
Qed.

Lemma FinRel_trans a b d : FinRel a b -> FinRel b d -> FinRel a d.
Proof.
  intros (H1 & J1) (H2 & J2). split; [|intros k; rewrite J2; apply J1].
  intros k cb. destruct (H1 k cb) as (m1 & c1). destruct (H2 k cb) as (m2 & c2). split; [tauto|].
  rewrite c2, c1, J1.
  destruct (is_finished a k) eqn:Ea.
  - rewrite (m1 eq_refl). lia.
  - destruct (is_finished b k) eqn:Eb; [rewrite (m2 eq_refl); lia|].
    destruct (is_finished d k); lia.
Qed.

(* nothing changes for the relation: same finished-ness, same on_finished lists, same counts *)
Lemma FinRel_same a b :
  (forall k, is_finished b k = is_finished a k /\ jcbf (jobs b k) = jcbf (jobs a k)) ->
  (forall k cb, count_fin k cb (log b) = count_fin k cb (log a)) -> FinRel a b.
Proof.
  intros Hj Hl. split; [|intros k; apply Hj]. intros k cb. destruct (Hj k) as (e & _). rewrite e, Hl.
  split; [tauto|]. destruct (is_finished a k); lia.
Qed.

Lemma FinRel_set_job s j x :
  jstatus x = jstatus (jobs s j) -> jcbf x = jcbf (jobs s j) -> FinRel s (set_job j x s).
Proof.
  intros Hs Hf. apply FinRel_same; [|reflexivity].
  intros k. unfold is_finished. cbn [jobs set_job set_jobs]. unfold upd.
  destruct (Nat.eqb_spec k j) as [->|]; [rewrite Hs, Hf|]; split; reflexivity.
Qed.

Lemma FinRel_atom a b : atom E NoU false AnyHS a b -> Fresh a -> FinRel a b.
Proof.
  intros Hat Hfr. destruct Hat.
  - apply FinRel_same; [intros k; unfold is_finished; rewrite H; split; reflexivity|intros k cb; rewrite H2; reflexivity].
  - apply FinRel_same; [intros k; split; reflexivity|]. intros k cb. apply count_fin_plain. assumption.
  - destruct (set_next_run_props E j nx s) as (_ & _ & _ & _ & _ & _ & _ & _ & q9).
    apply FinRel_same; [|intros k cb; apply count_fin_set_next_run].
    intros k. unfold is_finished. rewrite q9. unfold upd. destruct (Nat.eqb_spec k j) as [->|]; [|split; reflexivity].
    cbn [jstatus jcbf with_status_next]. split; [|reflexivity].
    destruct (jstatus (jobs s j)); [destruct nx; reflexivity..|congruence].
  - destruct (finish_job_props E j s) as (_ & _ & _ & _ & _ & _ & _ & q8).
    assert (Hnf : is_finished s j = false).
    { unfold is_finished. destruct (jstatus (jobs s j)); try reflexivity. congruence. }
    split.
    + intros k cb. rewrite count_fin_finish_job.
      assert (Hfk : is_finished (finish_job E j s) k = if Nat.eqb k j then true else is_finished s k).
      { unfold is_finished. rewrite q8. unfold upd. destruct (Nat.eqb k j); reflexivity. }
      rewrite Hfk. destruct (Nat.eqb_spec k j) as [->|Hne].
      * rewrite Hnf. split; [discriminate|reflexivity].
      * split; [tauto|]. destruct (is_finished s k); lia.
    + intros k. rewrite q8. unfold upd. destruct (Nat.eqb_spec k j) as [->|]; reflexivity.
  - apply FinRel_set_job; reflexivity.
  - apply FinRel_set_job; reflexivity.
  - apply FinRel_set_job; reflexivity.
  - discriminate.
  - discriminate.
  - destruct (alloc_fields hs b s) as (_ & v2 & _ & _ & _ & _ & v7 & _).
    apply FinRel_same; [|intros k cb; rewrite v7; reflexivity].
    intros k. unfold is_finished. rewrite v2. unfold upd. destruct (Nat.eqb_spec k (njobs s)) as [->|]; [|split; reflexivity].
    rewrite (Hfr (njobs s) (le_n _)). cbn [jstatus jcbf with_linked with_stored dummy_job]. rewrite H0, H3. split; reflexivity.
Qed.

Lemma FinRel_steps a b : steps E NoU false AnyHS a b -> Fresh a -> FinRel a b /\ Fresh b.
Proof.
  induction 1 as [s|a b d Hab _ IH]; intros Hf; [split; [apply FinRel_refl|exact Hf]|].
  pose proof (Fresh_atom _ _ _ Hab Hf) as Hfb. destruct (IH Hfb) as (R2 & Hfd).
  split; [|exact Hfd]. eapply FinRel_trans; [apply FinRel_atom; eassumption|exact R2].
Qed.

(* ------------------------------------------------------------------------------------------- *)
Definition op_scoped (s : st) (o : op) : Prop :=
  match op_target o with Some j => (j < njobs s)%nat | None => True end.

Lemma op_scoped_ok s o : op_scoped s o -> op_ok NoU s o.
Proof. unfold op_scoped, op_ok, tgt. destruct (op_target o); [intros H; left; exact H|tauto]. Qed.

(* (c), one operation: which on_finished events an operation writes *)
Theorem fin_events_step_op fuel hs s o s' r :
  Inv s -> Fresh s -> op_scoped s o -> step_op E fuel hs s o = (s', r) -> r <> NoFuel ->
  FinStep s s' /\ Fresh s'.
Proof.
  intros I Hf Hsc H Hr.
  destruct (is_cbf_op o) eqn:Ec.
  - (* editing the on_finished list: log and status untouched *)
    assert (Hfr : Fresh s').
    { eapply (steps_preserves E NoU true AnyHS Fresh); [apply Fresh_atom| |exact Hf].
      eapply step_op_trace; [exact Logic.I|exact I|apply op_scoped_ok; exact Hsc|reflexivity|exact H|exact Hr]. }
    split; [|exact Hfr].
    assert (Hsame : log s' = log s /\ forall k, is_finished s' k = is_finished s k).
    { destruct o; try discriminate; destruct w; try discriminate; cbn [step_op] in H.
      - destruct (memb cb (jcbf (jobs s j))); injection H as <- _; [split; reflexivity|].
        split; [reflexivity|]. intros k. unfold is_finished. cbn [jobs set_job set_jobs]. unfold upd.
        destruct (Nat.eqb_spec k j) as [->|]; reflexivity.
      - injection H as <- _. split; [reflexivity|]. intros k. unfold is_finished. cbn [jobs set_job set_jobs]. unfold upd.
        destruct (Nat.eqb_spec k j) as [->|]; reflexivity. }
    destruct Hsame as (Hl & Hfin). intros k cb. rewrite Hl, Hfin. split; [tauto|]. destruct (is_finished s k); lia.
  - assert (Hst : steps E NoU false AnyHS s s').
    { eapply step_op_trace; [exact Logic.I|exact I|apply op_scoped_ok; exact Hsc| |exact H|exact Hr].
      rewrite Ec. discriminate. }
    destruct (FinRel_steps _ _ Hst Hf) as ((R & _) & Hfr). split; assumption.
Qed.

Lemma FinStep_opi v s s' : FinStep s s' -> FinStep s (set_opi v s').
Proof. intros H. exact H. Qed.

Theorem fin_events_step fuel hs s o s' r :
  Inv s -> Fresh s -> op_scoped s o -> step E fuel hs s o = (s', r) -> r <> NoFuel ->
  FinStep s s' /\ Fresh s'.
Proof.
  intros I Hf Hsc H Hr. unfold step in H. destruct (step_op E fuel hs s o) as (s1, r1) eqn:ES.
  injection H as <- <-. destruct (fin_events_step_op _ _ _ _ _ _ I Hf Hsc ES Hr) as (a & b).
  split; [apply FinStep_opi; exact a|exact b].
Qed.

Theorem cb_lists_step fuel hs s o s' r :
  Inv s -> CbInv s -> step E fuel hs s o = (s', r) -> r <> NoFuel -> CbInv s'.
Proof.
  intros I Hc H Hr.
  eapply (steps_preserves E (fun _ => True) true AnyHS CbInv); [apply CbInv_atom| |exact Hc].
  eapply step_trace; [exact Logic.I|exact I| |reflexivity|exact H|exact Hr].
  unfold op_ok, tgt. destruct (op_target o); [right; exact Logic.I|exact Logic.I].
Qed.

(* --- histories ------------------------------------------------------------------------------ *)
Fixpoint scoped (fuel : nat) (hs : bool) (s : st) (ops : list op) : Prop :=
  match ops with
  | [] => True
  | o :: t => op_scoped s o /\ scoped fuel hs (fst (step E fuel hs s o)) t
  end.

(* in every reachable state: a job that is not finished has no on_finished event, a finished one at most one
   per callback *)
Definition FinOnce (s : st) : Prop := forall k cb,
  (is_finished s k = false -> count_fin k cb (log s) = O) /\ (count_fin k cb (log s) <= 1)%nat.

Definition Hist (s : st) : Prop := Inv s /\ Fresh s /\ CbInv s /\ FinOnce s.

Lemma Hist_init t0 en : Hist (init t0 en).
Proof.
  split; [apply Inv_init|]. split; [intros k _; reflexivity|]. split; [intros k; split; constructor|].
  intros k cb. cbn. split; [reflexivity|lia].
Qed.

Lemma count_occ_le1 (l : list nat) x : NoDup l -> (count_occ Nat.eq_dec l x <= 1)%nat.
Proof. intros H. apply (proj1 (NoDup_count_occ Nat.eq_dec l) H). Qed.

Lemma Hist_step fuel hs s o s' r :
  Hist s -> op_scoped s o -> step E fuel hs s o = (s', r) -> r <> NoFuel -> Hist s' /\ FinStep s s'.
Proof.
  intros (I & Hf & Hc & Ho) Hsc H Hr.
  destruct (fin_events_step _ _ _ _ _ _ I Hf Hsc H Hr) as (R & Hf').
  split; [|exact R].
  split; [eapply step_inv; eassumption|]. split; [exact Hf'|]. split; [eapply cb_lists_step; eassumption|].
  intros k cb. destruct (R k cb) as (m & e). destruct (Ho k cb) as (z & le1). rewrite e.
  destruct (is_finished s k) eqn:Ea.
  - rewrite (m eq_refl). split; [discriminate|lia].
  - rewrite (z eq_refl). destruct (is_finished s' k); [|split; [reflexivity|lia]].
    split; [discriminate|]. pose proof (count_occ_le1 _ cb (proj2 (Hc k))). lia.
Qed.

Lemma Hist_run fuel hs ops : forall s s' rs,
  Hist s -> scoped fuel hs s ops -> run E fuel hs s ops = (s', rs) -> ~ In NoFuel rs ->
  Hist s' /\
  (forall k cb, is_finished s k = true ->
     is_finished s' k = true /\ count_fin k cb (log s') = count_fin k cb (log s)).
Proof.
  induction ops as [|o t IH]; intros s s' rs Hh Hsc H Hr; cbn [run] in H.
  - injection H as <- <-. split; [exact Hh|]. intros k cb Hk. split; [exact Hk|reflexivity].
  - destruct (step E fuel hs s o) as (s1, r) eqn:ES. destruct (run E fuel hs s1 t) as (s2, rs') eqn:ER.
    injection H as <- <-. cbn [scoped] in Hsc. destruct Hsc as (Ho & Ht). rewrite ES in Ht. cbn [fst] in Ht.
    assert (Hr1 : r <> NoFuel) by (intros ->; apply Hr; left; reflexivity).
    destruct (Hist_step _ _ _ _ _ _ Hh Ho ES Hr1) as (Hh1 & R1).
    destruct (IH s1 s2 rs' Hh1 Ht ER (fun Hx => Hr (or_intror Hx))) as (Hh2 & M2).
    split; [exact Hh2|]. intros k cb Hk. destruct (R1 k cb) as (m & e). rewrite Hk in e.
    destruct (M2 k cb (m Hk)) as (a & b). split; [exact a|]. rewrite b, e. lia.
Qed.

(* (c) in its history form *)
Theorem finished_once fuel hs t0 en ops s rs :
  run E fuel hs (init t0 en) ops = (s, rs) -> ~ In NoFuel rs -> scoped fuel hs (init t0 en) ops ->
  forall j cb,
    (count_fin j cb (log s) <= 1)%nat /\
    (jstatus (jobs s j) <> Finished -> ~ In (ECbFin j cb) (log s)).
Proof.
  intros H Hr Hsc j cb.
  destruct (Hist_run _ _ _ _ _ _ (Hist_init t0 en) Hsc H Hr) as ((_ & _ & _ & Ho) & _).
  destruct (Ho j cb) as (z & le1). split; [exact le1|].
  intros Hnf Hin. apply count_fin_In in Hin. rewrite z in Hin; [lia|].
  unfold is_finished. destruct (jstatus (jobs s j)); try reflexivity. congruence.
Qed.

(* finished is never left, and the on_finished lists never contain a callback twice *)
Theorem finished_forever fuel hs ops s s' rs j :
  Hist s -> scoped fuel hs s ops -> run E fuel hs s ops = (s', rs) -> ~ In NoFuel rs ->
  jstatus (jobs s j) = Finished -> jstatus (jobs s' j) = Finished.
Proof.
  intros Hh Hsc H Hr Hf. destruct (Hist_run _ _ _ _ _ _ Hh Hsc H Hr) as (_ & M).
  assert (Hk : is_finished s j = true) by (unfold is_finished; rewrite Hf; reflexivity).
  destruct (M j 0%nat Hk) as (a & _). unfold is_finished in a. apply status_eqb_eq in a. exact a.
Qed.

Theorem reachable_hist fuel hs t0 en ops s rs :
  run E fuel hs (init t0 en) ops = (s, rs) -> ~ In NoFuel rs -> scoped fuel hs (init t0 en) ops -> Hist s.
Proof. intros H Hr Hsc. apply (Hist_run _ _ _ _ _ _ (Hist_init t0 en) Hsc H Hr). Qed.

Theorem cb_lists_nodup fuel hs t0 en ops s rs :
  run E fuel hs (init t0 en) ops = (s, rs) -> ~ In NoFuel rs ->
  forall j, NoDup (jcbu (jobs s j)) /\ NoDup (jcbf (jobs s j)).
Proof.
  intros H Hr.
  eapply (run_preserves E (fun _ => True) true AnyHS CbInv);
    [apply CbInv_atom|exact Logic.I|apply Inv_init| |apply ops_ok_any|exact H|exact Hr].
  intros k. split; constructor.
Qed.

(* exactly one iff registered when the job finished: the history is cut at the operation [o] during which job j
   finishes (s1 before it, s2 after it); whatever follows, the log holds one [ECbFin j cb] if cb was on the job's
   on_finished list at that moment and none otherwise *)
Theorem finished_once_exact fuel hs t0 en ops1 o ops2 s1 rs1 s2 r s3 rs3 j cb :
  run E fuel hs (init t0 en) ops1 = (s1, rs1) -> step E fuel hs s1 o = (s2, r) -> run E fuel hs s2 ops2 = (s3, rs3) ->
  ~ In NoFuel rs1 -> r <> NoFuel -> ~ In NoFuel rs3 ->
  scoped fuel hs (init t0 en) ops1 -> op_scoped s1 o -> scoped fuel hs s2 ops2 ->
  jstatus (jobs s1 j) <> Finished -> jstatus (jobs s2 j) = Finished ->
  jstatus (jobs s3 j) = Finished /\
  count_fin j cb (log s3) = if memb cb (jcbf (jobs s1 j)) then 1%nat else 0%nat.
Proof.
  intros H1 H2 H3 Hr1 Hr2 Hr3 Hs1 Hs2 Hs3 Hnf Hfin.
  pose proof (reachable_hist _ _ _ _ _ _ _ H1 Hr1 Hs1) as Hh1.
  destruct (Hist_step _ _ _ _ _ _ Hh1 Hs2 H2 Hr2) as (Hh2 & R).
  destruct (Hist_run _ _ _ _ _ _ Hh2 Hs3 H3 Hr3) as (_ & M).
  assert (Ha : is_finished s1 j = false).
  { unfold is_finished. destruct (jstatus (jobs s1 j)); try reflexivity. congruence. }
  assert (Hb : is_finished s2 j = true) by (unfold is_finished; rewrite Hfin; reflexivity).
  destruct (M j cb Hb) as (a & b). split; [unfold is_finished in a; apply status_eqb_eq in a; exact a|].
  destruct (R j cb) as (_ & e). rewrite Ha, Hb in e.
  destruct Hh1 as (_ & _ & Hc & Ho). rewrite (proj1 (Ho j cb) Ha) in e. rewrite b, e. cbn [Nat.add].
  destruct (memb cb (jcbf (jobs s1 j))) eqn:Em.
  - apply memb_In in Em. pose proof (count_occ_le1 _ cb (proj2 (Hc j))).
    apply (count_occ_In Nat.eq_dec) in Em. lia.
  - apply count_occ_not_In. intros Hc'. apply memb_In in Hc'. congruence.
Qed.

End Callbacks.

(* control_eq: in this model a job control IS the job index (the argument of OCancel / OPause / ...): two controls
   of the same job are the same value, so they compare equal and every operation through either of them is the
   same operation; there is nothing further to prove. *)
Remark control_eq (j1 j2 : nat) : Nat.eqb j1 j2 = true <-> j1 = j2.
Proof. apply Nat.eqb_eq. Qed.

(* ------------------------------------------------------------------------------------------- *)
(* A concrete history: callbacks 5, 7 (7 raises at every call), 5 again (ignored) on on_finished of job 0, callback 6
   on on_update; pause, cancel, cancel again (raises), register after the end. *)
Definition cb_env : env :=
  {| prod := fun _ _ t => Ok (t + 1000000000); fail_exec := fun _ _ => false; fail_cb := fun cb _ => Nat.eqb cb 7 |}.

Definition cb_ops : list op :=
  [OCountdown 3000000000 1; ORegister 0 CbFin 5; ORegister 0 CbFin 7; ORegister 0 CbFin 5; ORegister 0 CbUpd 6;
   OReset 0; OPause 0; OCancel 0; OCancel 0; ORegister 0 CbFin 9].

Definition cb_is_nofuel (r : outcome) : bool := match r with NoFuel => true | _ => false end.

Example callbacks_example :
  (let '(s, rs) := run cb_env 40 true (init 0 true) cb_ops in
   (rev (log s), existsb cb_is_nofuel rs, nth 8 rs Done, jcbf (jobs s 0),
    (count_fin 0 5 (log s), count_fin 0 7 (log s), count_fin 0 9 (log s)))) =
  ([ECbUpd 0 6 Running (Some 3000000000); ECbUpd 0 6 Paused None; ECbFin 0 5; ECbFin 0 7; EHandler (HCb 7)],
   false, Raised EAlreadyFinished, [5; 7; 9]%nat, (1, 1, 0)%nat).
Proof. vm_compute. reflexivity. Qed.

Example callbacks_example_scoped : scoped cb_env 40 true (init 0 true) cb_ops.
Proof. vm_compute. repeat split; lia. Qed.
