(* AsyncExecFacts.v — proofs about the executor layer AsyncExec.v (property C10, asynchronous path):
   every exception that leaves a user coroutine is handed to the exception handler exactly once, nothing
   else is, no task ever ends with an exception (nothing reaches the event loop), and the task manager
   sees an ordinary run (of the wrapped coroutines), so every theorem of TaskMgrFacts.v is inherited. *)
From EAS Require Import Base BaseFacts TaskMgr TaskMgrFacts AsyncExec.
Open Scope nat_scope.

(* ------------------------------------------------------------------------------------------- *)
(* 1. the executor run IS a task-manager run: that of the wrapped scripts                        *)

Lemma run_step_no_beh m s c b b' : takes_beh s c = false -> run_step m s c b = run_step m s c b'.
Proof.
  unfold takes_beh, run_step. intros H. destruct (ph s c); try reflexivity; try discriminate H.
  destruct (mc s c); [reflexivity|discriminate H].
Qed.

Lemma arun_handles_ast m n : forall bs a,
  ast (arun_handles m n bs a) = run_handles m n (wrap_bs m n bs (ast a)) (ast a).
Proof.
  induction n as [|n IH]; intros bs a; cbn [arun_handles wrap_bs run_handles]; [reflexivity|].
  destruct (ready (ast a)) as [|[c|c] r] eqn:Hr; [reflexivity| |].
  - destruct (takes_beh (ast a) c) eqn:Ht.
    + cbn [hd tl]. rewrite IH. unfold arun_step. cbn [ast]. reflexivity.
    + rewrite IH. cbn [ast with_st]. f_equal. apply run_step_no_beh. exact Ht.
  - rewrite IH. reflexivity.
Qed.

Lemma astep_ast m a e : ast (astep m a e) = step m (ast a) (wrap_event m (ast a) e).
Proof.
  unfold astep, step, wrap_event. destruct e as [c k|c|c|c|bs|bs]; try reflexivity.
  - destruct (ready (set_flag (ast a) false)) eqn:Hr; [reflexivity|].
    rewrite arun_handles_ast. reflexivity.
  - destruct (ready (set_flag (ast a) false)) eqn:Hr; [reflexivity|].
    rewrite arun_handles_ast. reflexivity.
Qed.

Lemma afold_ast m evs : forall a,
  ast (fold_left (astep m) evs a) = fold_left (step m) (wrap_events m (ast a) evs) (ast a).
Proof.
  induction evs as [|e evs IH]; intros a; cbn [fold_left wrap_events]; [reflexivity|].
  rewrite IH, astep_ast. reflexivity.
Qed.

(* the bookkeeping of the loop and of the task manager under the executor is that of TaskMgr.v's [run]
   on the scripts of the wrapped coroutines *)
Theorem async_mgr_unaffected m evs : ast (arun m evs) = run m (wrap_events m init evs).
Proof. unfold arun, run. rewrite afold_ast. reflexivity. Qed.

Lemma arun_snoc m evs e : arun m (evs ++ [e]) = astep m (arun m evs) e.
Proof. unfold arun. rewrite fold_left_app. reflexivity. Qed.

Theorem async_inv m evs : Inv m (ast (arun m evs)).
Proof. rewrite async_mgr_unaffected. apply run_inv. Qed.

(* ------------------------------------------------------------------------------------------- *)
(* 2. attributes of a phase that a submission cannot change                                     *)

Definition okph (p : phase) : bool :=
  match p with Done DExc | Processed DExc => false | _ => true end.

Section Cls.
  Context {K : Type}.
  Variable cls : phase -> K.
  Hypothesis cls_q : cls Queued = cls Unknown.
  Hypothesis cls_c : cls Closed = cls Unknown.
  Hypothesis cls_t : cls Created = cls Unknown.
  Hypothesis cls_w : cls (Waking WCanc) = cls Parked.

  Lemma cl_upd (g : nat -> phase) c v x : cls v = cls (g c) -> cls (upd g c v x) = cls (g x).
  Proof.
    intros H. destruct (Nat.eq_dec x c) as [->|Hne]; [rewrite upd_same; exact H|].
    rewrite upd_other by exact Hne. reflexivity.
  Qed.

  Lemma cl_task_cancel s v x : cls (ph (task_cancel s v) x) = cls (ph s x).
  Proof.
    unfold task_cancel. destruct (ph s v) eqn:Hv; try reflexivity.
    red_state. apply cl_upd. rewrite Hv. exact cls_w.
  Qed.

  Lemma cl_start_next s x : Core s -> cls (ph (start_next s) x) = cls (ph s x).
  Proof.
    intros Hc. unfold start_next. destruct (queue s) as [|[c kc] q] eqn:Hq; [reflexivity|].
    red_state. apply cl_upd. rewrite (queued_phase s [] q c kc Hc Hq). congruence.
  Qed.

  Lemma cl_task_start s x : Core s -> cls (ph (task_start s) x) = cls (ph s x).
  Proof. intros Hc. unfold task_start. destruct (running s); [reflexivity|apply cl_start_next; exact Hc]. Qed.

  Lemma cl_submit_seq s c k x : Core s -> ph s c = Unknown -> cls (ph (submit_seq s c k) x) = cls (ph s x).
  Proof.
    intros Hc Hp. unfold submit_seq. rewrite cl_task_start by (apply core_enqueue; assumption).
    red_state. apply cl_upd. rewrite Hp. exact cls_q.
  Qed.

  Lemma cl_reject s c k x : ph s c = Unknown -> cls (ph (reject s c k) x) = cls (ph s x).
  Proof. intros Hp. unfold reject. red_state. apply cl_upd. rewrite Hp. exact cls_c. Qed.

  Lemma cl_track s c k x : ph s c = Unknown -> cls (ph (track s c k) x) = cls (ph s x).
  Proof. intros Hp. unfold track. red_state. apply cl_upd. rewrite Hp. exact cls_t. Qed.

  Lemma cl_drop_submit s q1 q2 v kv c k x :
    Core s -> queue s = q1 ++ (v, kv) :: q2 -> ph s c = Unknown ->
    cls (ph (submit_seq (close (set_queue s (q1 ++ q2)) v) c k) x) = cls (ph s x).
  Proof.
    intros Hc Hq Hp. pose proof (queued_phase s q1 q2 v kv Hc Hq) as Hv. rewrite cl_submit_seq.
    - red_state. apply cl_upd. rewrite Hv. congruence.
    - eapply core_drop; eassumption.
    - red_state. rewrite upd_other; [exact Hp|]. intros ->. congruence.
  Qed.

  Lemma cl_cancel_victim s v r x : cls (ph (cancel_victim s v r) x) = cls (ph s x).
  Proof. unfold cancel_victim. rewrite cl_task_cancel. reflexivity. Qed.

  Lemma cl_submit m s c k x : Core s -> cls (ph (submit m s c k) x) = cls (ph s x).
  Proof.
    intros Hc. unfold submit. destruct (ph s c) eqn:Hp; try reflexivity.
    destruct m as [|q p| | |n p].
    - apply cl_submit_seq; assumption.
    - unfold submit_seqlim. destruct (q <=? length (queue s)); [|apply cl_submit_seq; assumption].
      destruct p.
      + apply cl_reject; assumption.
      + destruct (queue s) as [|[v kv] q'] eqn:Hq; [apply cl_reject; assumption|].
        apply (cl_drop_submit s [] q' v kv); assumption.
      + pose proof (unsnoc_spec (queue s)) as Hu.
        destruct (unsnoc (queue s)) as [[q' [v kv]]|]; [|apply cl_reject; assumption].
        pose proof (cl_drop_submit s q' [] v kv c k x Hc Hu Hp) as H. rewrite app_nil_r in H. exact H.
    - unfold submit_dedup. pose proof (take_key_spec k (queue s)) as Ht.
      destruct (take_key k (queue s)) as [[v|] q']; [|apply cl_submit_seq; assumption].
      destruct Ht as (q1 & q2 & Hq & -> & _). apply (cl_drop_submit s q1 q2 v k); assumption.
    - apply cl_track; assumption.
    - unfold submit_parlim. destruct (n <=? length (tracked s)); [|apply cl_track; assumption].
      destruct p.
      + apply cl_reject; assumption.
      + destruct (tracked s) as [|v r]; [apply cl_reject; assumption|].
        rewrite cl_track by (apply cancel_victim_unknown; exact Hp). apply cl_cancel_victim.
      + destruct (unsnoc (tracked s)) as [[r v]|]; [|apply cl_reject; assumption].
        rewrite cl_track by (apply cancel_victim_unknown; exact Hp). apply cl_cancel_victim.
  Qed.

  Lemma cl_submits m l : forall s x, Inv m s -> cls (ph (submits m s l) x) = cls (ph s x).
  Proof.
    induction l as [|[c k] l IH]; intros s x Hi; cbn [submits]; [reflexivity|].
    rewrite IH by (apply submit_inv; exact Hi). apply cl_submit. exact (proj1 Hi).
  Qed.
End Cls.

(* ------------------------------------------------------------------------------------------- *)
(* 3. nothing but the first step of a task touches the "body entered" flags                      *)

Lemma ent_task_cancel s v : ent (task_cancel s v) = ent s.
Proof. unfold task_cancel. destruct (ph s v); reflexivity. Qed.

Lemma ent_start_next s : ent (start_next s) = ent s.
Proof. unfold start_next. destruct (queue s) as [|[c k] q]; reflexivity. Qed.

Lemma ent_task_start s : ent (task_start s) = ent s.
Proof. unfold task_start. destruct (running s); [reflexivity|apply ent_start_next]. Qed.

Lemma ent_submit_seq s c k : ent (submit_seq s c k) = ent s.
Proof. unfold submit_seq. rewrite ent_task_start. reflexivity. Qed.

Lemma ent_submit m s c k : ent (submit m s c k) = ent s.
Proof.
  unfold submit. destruct (ph s c); try reflexivity. destruct m as [|q p| | |n p].
  - apply ent_submit_seq.
  - unfold submit_seqlim. destruct (q <=? length (queue s)); [|apply ent_submit_seq].
    destruct p; [reflexivity| |].
    + destruct (queue s) as [|[v kv] q']; [reflexivity|]. rewrite ent_submit_seq. reflexivity.
    + destruct (unsnoc (queue s)) as [[q' [v kv]]|]; [|reflexivity]. rewrite ent_submit_seq. reflexivity.
  - unfold submit_dedup. destruct (take_key k (queue s)) as [[v|] q']; rewrite ent_submit_seq; reflexivity.
  - reflexivity.
  - unfold submit_parlim. destruct (n <=? length (tracked s)); [|reflexivity].
    destruct p; [reflexivity| |].
    + destruct (tracked s) as [|v r]; [reflexivity|]. unfold track, cancel_victim. red_state.
      rewrite ent_task_cancel. reflexivity.
    + destruct (unsnoc (tracked s)) as [[r v]|]; [|reflexivity]. unfold track, cancel_victim. red_state.
      rewrite ent_task_cancel. reflexivity.
Qed.

Lemma ent_submits m l : forall s, ent (submits m s l) = ent s.
Proof.
  induction l as [|[c k] l IH]; intros s; cbn [submits]; [reflexivity|]. rewrite IH. apply ent_submit.
Qed.

Lemma ent_finish_ret s c : ent (finish_ret s c) = ent s.
Proof. unfold finish_ret. destruct (mc s c); reflexivity. Qed.

Lemma ent_end_step s c w n : ent (end_step s c w n) = ent s.
Proof.
  unfold end_step. destruct n.
  - destruct (mc s c); reflexivity.
  - destruct w; [apply ent_finish_ret|reflexivity|reflexivity].
  - reflexivity.
  - apply ent_finish_ret.
Qed.

Lemma ent_run_done m s c : ent (run_done m s c) = ent s.
Proof.
  unfold run_done. destruct (ph s c); try reflexivity.
  destruct m; cbn [done_cb]; unfold seq_done_cb, untrack; try reflexivity;
    rewrite ent_start_next; destruct (opt_eqb Nat.eqb _ _); reflexivity.
Qed.

(* ------------------------------------------------------------------------------------------- *)
(* 4. what never goes back: a finished task stays finished, no task has ended with an exception,  *)
(*    an entered body stays entered, a body that is open (executing / parked / about to be       *)
(*    resumed) has been entered                                                                  *)

Definition is_susp (p : phase) : bool :=
  match p with Running | Parked | Waking _ => true | _ => false end.

Definition Mono (s s' : state) : Prop :=
  forall x, (is_fin (ph s x) = true -> is_fin (ph s' x) = true) /\
            (okph (ph s x) = true -> okph (ph s' x) = true) /\
            (ent s x = true -> ent s' x = true) /\
            (is_susp (ph s' x) = true -> is_susp (ph s x) = true \/ ent s' x = true).

Lemma mono_refl s : Mono s s.
Proof. intros x. tauto. Qed.

Lemma mono_trans s1 s2 s3 : Mono s1 s2 -> Mono s2 s3 -> Mono s1 s3.
Proof.
  intros A B x. destruct (A x) as (A1 & A2 & A3 & A4). destruct (B x) as (B1 & B2 & B3 & B4).
  split; [tauto|]. split; [tauto|]. split; [tauto|].
  intros H. destruct (B4 H) as [H2|H2]; [|right; exact H2].
  destruct (A4 H2) as [H1|H1]; [left; exact H1|right; apply B3; exact H1].
Qed.

(* states that differ in the flags only *)
Lemma mono_same s s' : ph s' = ph s -> ent s' = ent s -> Mono s s'.
Proof. intros E1 E2 x. rewrite E1, E2. tauto. Qed.

(* the attributes of every phase are the same *)
Lemma mono_cls s s' :
  (forall x, is_fin (ph s' x) = is_fin (ph s x)) -> (forall x, okph (ph s' x) = okph (ph s x)) ->
  (forall x, is_susp (ph s' x) = is_susp (ph s x)) -> ent s' = ent s -> Mono s s'.
Proof. intros E1 E2 E3 E4 x. rewrite E1, E2, E3, E4. tauto. Qed.

(* one phase changes *)
Lemma mono_upd s s' c v :
  ph s' = upd (ph s) c v -> ent s' = ent s ->
  (is_fin (ph s c) = true -> is_fin v = true) -> (okph (ph s c) = true -> okph v = true) ->
  (is_susp v = true -> is_susp (ph s c) = true) -> Mono s s'.
Proof.
  intros E1 E2 H1 H2 H3 x. rewrite E1, E2. destruct (Nat.eq_dec x c) as [->|Hne].
  - rewrite upd_same. tauto.
  - rewrite upd_other by exact Hne. tauto.
Qed.

Lemma mono_submit m s c k : Core s -> Mono s (submit m s c k).
Proof.
  intros Hc. apply mono_cls; [intros x; apply cl_submit| intros x; apply cl_submit| intros x; apply cl_submit
                             | apply ent_submit]; try reflexivity; exact Hc.
Qed.

Lemma mono_submits m l s : Inv m s -> Mono s (submits m s l).
Proof.
  intros Hi. apply mono_cls; [intros x; apply cl_submits| intros x; apply cl_submits| intros x; apply cl_submits
                             | apply ent_submits]; try reflexivity; exact Hi.
Qed.

Lemma mono_task_cancel s v : Mono s (task_cancel s v).
Proof.
  apply mono_cls; [intros x; apply cl_task_cancel| intros x; apply cl_task_cancel| intros x; apply cl_task_cancel
                  | apply ent_task_cancel]; reflexivity.
Qed.

Lemma mono_wake_up s c w : ph s c = Parked -> Mono s (wake_up s c w).
Proof.
  intros Hp. apply (mono_upd s _ c (Waking w)); try reflexivity; rewrite Hp; try discriminate. reflexivity.
Qed.

Lemma mono_run_done m s c r : Inv m s -> ready s = HDone c :: r -> Mono s (run_done m (set_ready s r) c).
Proof.
  intros [Hc Hm] Hr. destruct (head_done_phase s c r Hc Hr) as [d Hp].
  pose proof (core_pop_done s c r d Hc Hr Hp) as Hc1.
  unfold run_done. red_state. rewrite Hp.
  set (s1 := set_ph (set_ready s r) (upd (ph s) c (Processed d))) in *.
  assert (M1 : Mono s s1).
  { apply (mono_upd s s1 c (Processed d)); try reflexivity; rewrite Hp; destruct d; cbn; tauto || discriminate. }
  assert (M2 : Mono s1 (done_cb m s1 c)).
  { assert (G : forall s2, Core s2 -> Mono s2 (start_next s2)).
    { intros s2 H2. apply mono_cls; [intros x; apply cl_start_next| intros x; apply cl_start_next
                                     | intros x; apply cl_start_next| apply ent_start_next]; try reflexivity; exact H2. }
    destruct m; cbn [done_cb]; unfold seq_done_cb, untrack; try (apply mono_same; reflexivity);
      (destruct (opt_eqb Nat.eqb (running s1) (Some c));
       [eapply mono_trans; [|apply G; apply core_set_running; exact Hc1]; apply mono_same; reflexivity
       |apply G; exact Hc1]). }
  exact (mono_trans _ _ _ M1 M2).
Qed.

(* ------------------------------------------------------------------------------------------- *)
(* 5. one step of a wrapped coroutine                                                            *)

Lemma mono_finish s c d : ph s c = Running -> d <> DExc -> Mono s (finish s c d).
Proof.
  intros Hp Hd. apply (mono_upd s _ c (Done d)); try reflexivity; rewrite Hp; try discriminate.
  intros _. destruct d; [reflexivity|contradiction|reflexivity].
Qed.

Lemma mono_finish_ret s c : ph s c = Running -> Mono s (finish_ret s c).
Proof.
  intros Hp. unfold finish_ret. destruct (mc s c).
  - eapply mono_trans; [|apply mono_finish; [exact Hp|discriminate]]. apply mono_same; reflexivity.
  - apply mono_finish; [exact Hp|discriminate].
Qed.

(* the end of a step of the wrapper: never an exception *)
Lemma mono_end_step_wrapped s c w n :
  ph s c = Running -> Mono s (end_step s c w (wrap_next (user_out w n))).
Proof.
  intros Hp.
  assert (P : Mono s (end_step s c w NPark)).
  { unfold end_step. destruct (mc s c).
    - apply (mono_upd s _ c (Waking WCanc)); try reflexivity; rewrite Hp; try discriminate. reflexivity.
    - apply (mono_upd s _ c Parked); try reflexivity; rewrite Hp; try discriminate. reflexivity. }
  assert (R : Mono s (end_step s c w NRet)) by (apply mono_finish_ret; exact Hp).
  destruct n; cbn [user_out wrap_next]; try assumption.
  destruct w; cbn [wrap_next]; try assumption.
  cbn [end_step]. apply mono_finish; [exact Hp|discriminate].
Qed.

Lemma fin_finish_ret s c : is_fin (ph (finish_ret s c) c) = true.
Proof. unfold finish_ret. destruct (mc s c); red_state; rewrite upd_same; reflexivity. Qed.

(* a user body that does not park ends the task *)
Lemma end_step_wrapped_fin s c w n :
  n <> NPark -> is_fin (ph (end_step s c w (wrap_next (user_out w n))) c) = true.
Proof.
  intros Hn. destruct n; [contradiction| | |]; cbn [user_out wrap_next].
  - destruct w; cbn [wrap_next end_step]; try apply fin_finish_ret. red_state. rewrite upd_same. reflexivity.
  - cbn [end_step]. apply fin_finish_ret.
  - cbn [end_step]. apply fin_finish_ret.
Qed.

(* the step of c resumes the user body: everything the proofs below need to know about it *)
Lemma run_step_takes m s c r b :
  Inv m s -> (forall x, is_susp (ph s x) = true -> ent s x = true) ->
  ready s = HStep c :: r -> takes_beh s c = true ->
  exists s1, Inv m s1 /\ ph s1 c = Running /\ ent s1 c = true /\ Mono s s1 /\ is_fin (ph s c) = false /\
    run_step m (set_ready s r) c b = end_step (submits m s1 (fst b)) c (eff_wake s c) (snd b).
Proof.
  intros H He Hr Ht. unfold takes_beh in Ht. unfold run_step, eff_wake. red_state.
  destruct (ph s c) eqn:Hp; try discriminate Ht.
  - destruct (mc s c); [discriminate Ht|]. unfold body. red_state.
    eexists. split; [apply inv_pop_enter; eassumption|]. red_state.
    split; [apply upd_same|]. split; [apply upd_same|]. split; [|split; reflexivity].
    intros x. red_state. destruct (Nat.eq_dec x c) as [->|Hne].
    + rewrite !upd_same, Hp. cbn. repeat split; try tauto; discriminate.
    + rewrite !upd_other by exact Hne. tauto.
  - assert (Hec : ent s c = true) by (apply He; rewrite Hp; reflexivity).
    assert (M : forall s1, ph s1 = upd (ph s) c Running -> ent s1 = ent s -> Mono s s1).
    { intros s1 E1 E2. apply (mono_upd s s1 c Running E1 E2); rewrite Hp; cbn; intros; first [discriminate|reflexivity]. }
    destruct (mc s c); unfold body; red_state.
    + eexists. split; [|split; [|split; [|split; [|split; reflexivity]]]].
      * pose proof (inv_pop_resume m s c r w H Hr Hp) as H1. by_ext H1.
      * red_state. apply upd_same.
      * red_state. exact Hec.
      * apply M; reflexivity.
    + eexists. split; [|split; [|split; [|split; [|split; reflexivity]]]].
      * eapply inv_pop_resume; eassumption.
      * red_state. apply upd_same.
      * red_state. exact Hec.
      * apply M; reflexivity.
Qed.

Lemma run_step_wrapped m s c r b :
  Inv m s -> (forall x, is_susp (ph s x) = true -> ent s x = true) ->
  ready s = HStep c :: r -> takes_beh s c = true ->
  let s' := run_step m (set_ready s r) c (wrap_beh (eff_wake s c) b) in
  Mono s s' /\ is_fin (ph s c) = false /\ ent s' c = true /\ (snd b <> NPark -> is_fin (ph s' c) = true).
Proof.
  intros H He Hr Ht. cbn zeta.
  destruct (run_step_takes m s c r (wrap_beh (eff_wake s c) b) H He Hr Ht) as (s1 & H1 & Hp1 & He1 & M1 & Hf & ->).
  cbn [wrap_beh fst snd].
  destruct (submits_inv m (fst b) s1 c H1 Hp1) as [H2 Hp2].
  pose proof (mono_submits m (fst b) s1 H1) as M2.
  pose proof (mono_end_step_wrapped (submits m s1 (fst b)) c (eff_wake s c) (snd b) Hp2) as M3.
  pose proof (mono_trans _ _ _ M1 (mono_trans _ _ _ M2 M3)) as M.
  split; [exact M|]. split; [exact Hf|]. split.
  - rewrite ent_end_step, ent_submits. exact He1.
  - apply end_step_wrapped_fin.
Qed.

(* the step of a task that was cancelled before its first step: no body, the task ends cancelled *)
Lemma run_step_skipped m s c r b :
  Inv m s -> ready s = HStep c :: r -> takes_beh s c = false -> Mono s (run_step m (set_ready s r) c b).
Proof.
  intros H Hr Ht. pose proof (head_step_phase s c r (proj1 H) Hr) as Hw.
  unfold takes_beh in Ht. unfold run_step. red_state.
  destruct (wants_step_cases _ Hw) as [Hp|[w Hp]]; rewrite Hp in *; [|discriminate Ht].
  destruct (mc s c); [|discriminate Ht].
  apply (mono_upd s _ c (Done DCanc)); try reflexivity; rewrite Hp; discriminate.
Qed.

(* ------------------------------------------------------------------------------------------- *)
(* 6. the invariant of the executor run                                                          *)

Record AInv (m : mgr) (a : astate) : Prop := {
  ai_inv : Inv m (ast a);
  ai_ok : forall x, okph (ph (ast a) x) = true;
  ai_susp : forall x, is_susp (ph (ast a) x) = true -> ent (ast a) x = true;
  ai_fin : forall e, In e (ulog a) -> is_exit e = true -> is_fin (ph (ast a) (who e)) = true;
  ai_nd : NoDup (map who (filter is_exit (ulog a)));
  ai_h : hlog a = map who (filter is_raise (ulog a));
  ai_ent : forall e, In e (ulog a) -> ent (ast a) (who e) = true
}.

Lemma ainv_init m : AInv m ainit.
Proof.
  constructor; cbn.
  - apply inv_init.
  - reflexivity.
  - discriminate.
  - intros e [].
  - constructor.
  - reflexivity.
  - intros e [].
Qed.

Lemma ainv_mono m a s' : AInv m a -> Inv m s' -> Mono (ast a) s' -> AInv m (with_st a s').
Proof.
  intros [A1 A2 A3 A4 A5 A6 A7] Hi M. constructor; cbn [ast hlog ulog with_st].
  - exact Hi.
  - intros x. apply (M x). apply A2.
  - intros x Hx. destruct (M x) as (_ & _ & M3 & M4). destruct (M4 Hx) as [H|H]; [|exact H].
    apply M3. apply A3. exact H.
  - intros e He Hx. apply (M (who e)). apply A4; assumption.
  - exact A5.
  - exact A6.
  - intros e He. apply (M (who e)). apply A7. exact He.
Qed.

Lemma arun_step_ainv m a c r b :
  AInv m a -> ready (ast a) = HStep c :: r -> takes_beh (ast a) c = true -> AInv m (arun_step m a c r b).
Proof.
  intros [A1 A2 A3 A4 A5 A6 A7] Hr Ht.
  destruct (run_step_wrapped m (ast a) c r b A1 A3 Hr Ht) as (M & Hf & He & Hx).
  assert (Hi : Inv m (run_step m (set_ready (ast a) r) c (wrap_beh (eff_wake (ast a) c) b)))
    by (apply run_step_inv; assumption).
  unfold arun_step. constructor; cbn [ast hlog ulog].
  - exact Hi.
  - intros x. apply (M x). apply A2.
  - intros x Hs. destruct (M x) as (_ & _ & M3 & M4). destruct (M4 Hs) as [H|H]; [|exact H].
    apply M3. apply A3. exact H.
  - intros e Hin Hex. apply in_app_or in Hin. destruct Hin as [Hin|[<-|[]]].
    + apply (M (who e)). apply A4; assumption.
    + cbn [who fst]. apply Hx. unfold is_exit in Hex. cbn [snd] in Hex. intros E. rewrite E in Hex. discriminate.
  - rewrite filter_app, map_app. cbn [filter].
    destruct (is_exit (c, eff_wake (ast a) c, snd b)) eqn:Hex; cbn [map]; [|rewrite app_nil_r; exact A5].
    apply NoDup_snoc; [exact A5|]. cbn [who fst]. intros Hin. apply in_map_iff in Hin.
    destruct Hin as (e & Hw & Hin). apply filter_In in Hin. destruct Hin as [Hin He'].
    pose proof (A4 e Hin He') as Hfe. rewrite Hw, Hf in Hfe. discriminate.
  - rewrite filter_app, map_app. cbn [filter]. unfold is_raise at 2. cbn [fst snd].
    destruct (handler_called (user_out (eff_wake (ast a) c) (snd b))); cbn [map who fst].
    + rewrite A6. reflexivity.
    + rewrite app_nil_r. exact A6.
  - intros e Hin. apply in_app_or in Hin. destruct Hin as [Hin|[<-|[]]].
    + apply (M (who e)). apply A7. exact Hin.
    + exact He.
Qed.

Lemma arun_handles_ainv m n : forall bs a, AInv m a -> AInv m (arun_handles m n bs a).
Proof.
  induction n as [|n IH]; intros bs a H; cbn [arun_handles]; [exact H|].
  destruct (ready (ast a)) as [|[c|c] r] eqn:Hr; [exact H| |].
  - destruct (takes_beh (ast a) c) eqn:Ht.
    + apply IH. apply arun_step_ainv; assumption.
    + apply IH. apply ainv_mono; [exact H| |].
      * apply run_step_inv; [exact (ai_inv m a H)|exact Hr].
      * apply run_step_skipped; [exact (ai_inv m a H)|exact Hr|exact Ht].
  - apply IH. apply ainv_mono; [exact H| |].
    + apply inv_pop_done; [exact (ai_inv m a H)|exact Hr].
    + apply mono_run_done; [exact (ai_inv m a H)|exact Hr].
Qed.

Lemma mono_step_plain m s e :
  Inv m s -> match e with Run _ | Tick _ => False | _ => True end -> Mono s (step m s e).
Proof.
  intros H He. assert (M0 : Mono s (set_flag s false)) by (apply mono_same; reflexivity).
  assert (H0 : Inv m (set_flag s false)) by (apply inv_set_flag; exact H).
  unfold step. destruct e as [c k|c|c|c|bs|bs]; try contradiction; red_state.
  - eapply mono_trans; [exact M0|]. apply mono_submit. exact (proj1 H0).
  - destruct (ph s c) eqn:Hp; try (apply mono_same; reflexivity).
    eapply mono_trans; [exact M0|]. apply mono_wake_up. exact Hp.
  - destruct (ph s c) eqn:Hp; try (apply mono_same; reflexivity).
    eapply mono_trans; [exact M0|]. apply mono_wake_up. exact Hp.
  - destruct (has_task (ph s c)); [|apply mono_same; reflexivity].
    eapply mono_trans; [exact M0|]. apply mono_task_cancel.
Qed.

Lemma astep_ainv m a e : AInv m a -> AInv m (astep m a e).
Proof.
  intros H. pose proof (ai_inv m a H) as Hi.
  assert (H0 : AInv m (with_st a (set_flag (ast a) false))).
  { apply ainv_mono; [exact H|apply inv_set_flag; exact Hi|apply mono_same; reflexivity]. }
  assert (Hv : AInv m (with_st a (invalid (set_flag (ast a) false)))).
  { apply ainv_mono; [exact H|apply inv_set_flag; apply inv_set_flag; exact Hi|apply mono_same; reflexivity]. }
  assert (P : forall e', match e' with Run _ | Tick _ => False | _ => True end ->
                         AInv m (with_st a (step m (ast a) e'))).
  { intros e' He'. apply ainv_mono; [exact H|apply step_inv; exact Hi|apply mono_step_plain; assumption]. }
  unfold astep. destruct e as [c k|c|c|c|bs|bs]; try (apply P; exact I).
  - destruct (ready (set_flag (ast a) false)); [exact Hv|apply arun_handles_ainv; exact H0].
  - destruct (ready (set_flag (ast a) false)); [exact Hv|apply arun_handles_ainv; exact H0].
Qed.

Theorem async_ainv m evs : AInv m (arun m evs).
Proof.
  unfold arun. assert (G : forall a, AInv m a -> AInv m (fold_left (astep m) evs a)).
  { induction evs as [|e evs IH]; intros a H; cbn; [exact H|]. apply IH. apply astep_ainv. exact H. }
  apply G. apply ainv_init.
Qed.

(* ------------------------------------------------------------------------------------------- *)
(* 7. C10, asynchronous executor: the theorems                                                   *)

Lemma NoDup_map_filter_sub {A B} (f : A -> B) (p q : A -> bool) l :
  (forall x, q x = true -> p x = true) -> NoDup (map f (filter p l)) -> NoDup (map f (filter q l)).
Proof.
  intros Hpq. induction l as [|a l IH]; cbn; [tauto|].
  destruct (q a) eqn:Hq.
  - rewrite (Hpq a Hq). cbn. intros Hnd. inversion Hnd as [|? ? Hn Hnd']; subst. constructor; [|apply IH; exact Hnd'].
    intros Hin. apply Hn. apply in_map_iff in Hin. destruct Hin as (x & Hx & Hin). apply in_map_iff.
    exists x. split; [exact Hx|]. apply filter_In in Hin. apply filter_In. split; [tauto|]. apply Hpq. tauto.
  - destruct (p a); cbn; [|exact IH]. intros Hnd. inversion Hnd; subst. apply IH. assumption.
Qed.

Lemma NoDup_map_inj {A B} (f : A -> B) l x y :
  NoDup (map f l) -> In x l -> In y l -> f x = f y -> x = y.
Proof.
  induction l as [|a l IH]; cbn; [tauto|]. intros Hnd Hx Hy E. inversion Hnd as [|? ? Hn Hnd']; subst.
  destruct Hx as [->|Hx]; destruct Hy as [->|Hy]; try reflexivity.
  - exfalso. apply Hn. rewrite E. apply in_map. exact Hy.
  - exfalso. apply Hn. rewrite <- E. apply in_map. exact Hx.
  - apply IH; assumption.
Qed.

Lemma raise_is_exit e : is_raise e = true -> is_exit e = true.
Proof. destruct e as [[c w] n]. unfold is_raise, is_exit. cbn. destruct n; cbn; congruence. Qed.

Lemma is_raise_spec c w n : is_raise (c, w, n) = true <-> n = NRaise \/ (n = NFin /\ w = WExc).
Proof.
  unfold is_raise. cbn. destruct n; cbn; try destruct w; cbn; split; intros H; try discriminate H; try tauto;
    try (destruct H as [H|[H1 H2]]; discriminate).
Qed.

(* the handler log is exactly the sequence of user bodies left by an Exception, in that order *)
Theorem async_handler_log_exact m evs :
  hlog (arun m evs) = map who (filter is_raise (ulog (arun m evs))).
Proof. exact (ai_h m _ (async_ainv m evs)). Qed.

(* no coroutine's exception is handed to the handler twice (and no coroutine has two) *)
Theorem async_handled_at_most_once m evs : NoDup (hlog (arun m evs)).
Proof.
  rewrite async_handler_log_exact. apply (NoDup_map_filter_sub who is_exit is_raise); [exact raise_is_exit|].
  exact (ai_nd m _ (async_ainv m evs)).
Qed.

(* the handler is called for c exactly when the user body of c was left by an Exception *)
Theorem async_handled_iff_raised m evs c :
  In c (hlog (arun m evs)) <-> left_by_exception (arun m evs) c.
Proof.
  rewrite async_handler_log_exact. unfold left_by_exception. split.
  - intros Hin. apply in_map_iff in Hin. destruct Hin as ([[c' w] n] & Hw & Hin). cbn in Hw. subst c'.
    apply filter_In in Hin. destruct Hin as [Hin Hr]. exists w, n. split; [exact Hin|].
    apply (is_raise_spec c w n). exact Hr.
  - intros (w & n & Hin & Hr). apply in_map_iff. exists (c, w, n). split; [reflexivity|].
    apply filter_In. split; [exact Hin|]. apply (is_raise_spec c w n). exact Hr.
Qed.

(* a user body is left at most once *)
Theorem async_exit_once m evs c w1 n1 w2 n2 :
  In (c, w1, n1) (ulog (arun m evs)) -> In (c, w2, n2) (ulog (arun m evs)) ->
  n1 <> NPark -> n2 <> NPark -> w1 = w2 /\ n1 = n2.
Proof.
  intros H1 H2 Hn1 Hn2. pose proof (ai_nd m _ (async_ainv m evs)) as Hnd.
  assert (E : (c, w1, n1) = (c, w2, n2)).
  { apply (NoDup_map_inj who _ _ _ Hnd); [| |reflexivity]; apply filter_In; (split; [assumption|]);
      unfold is_exit; cbn; [destruct n1|destruct n2]; congruence. }
  injection E. tauto.
Qed.

(* never for a coroutine whose user body never ran: closed unstarted by a policy, still queued,
   cancelled before its first step *)
Theorem async_never_ran m evs c :
  ent (ast (arun m evs)) c = false -> never_ran (arun m evs) c /\ ~ In c (hlog (arun m evs)).
Proof.
  intros He. assert (N : never_ran (arun m evs) c).
  { intros w n Hin. pose proof (ai_ent m _ (async_ainv m evs) _ Hin) as H. cbn in H. congruence. }
  split; [exact N|]. intros Hin. apply async_handled_iff_raised in Hin. destruct Hin as (w & n & Hin & _).
  exact (N w n Hin).
Qed.

Theorem async_closed_not_handled m evs c :
  In c (closed (ast (arun m evs))) ->
  ph (ast (arun m evs)) c = Closed /\ never_ran (arun m evs) c /\ ~ In c (hlog (arun m evs)).
Proof.
  intros Hin. pose proof (async_inv m evs) as [Hc _].
  assert (Hp : ph (ast (arun m evs)) c = Closed).
  { apply (k_cl _ Hc) in Hin. destruct (ph (ast (arun m evs)) c); try discriminate Hin. reflexivity. }
  split; [exact Hp|]. apply async_never_ran.
  destruct (ent (ast (arun m evs)) c) eqn:He; [|reflexivity].
  apply (k_ent _ Hc) in He. rewrite Hp in He. discriminate He.
Qed.

(* never for a user body that was left by a CancelledError or by returning *)
Theorem async_cancelled_not_handled m evs c :
  left_by_cancellation (arun m evs) c -> ~ In c (hlog (arun m evs)).
Proof.
  intros Hc Hin. apply async_handled_iff_raised in Hin. destruct Hin as (w & n & Hin & Hr).
  assert (Hn : n <> NPark) by (destruct Hr as [->|[-> _]]; discriminate).
  destruct (async_exit_once m evs c _ _ _ _ Hc Hin) as [E1 E2]; [discriminate|exact Hn|].
  subst. destruct Hr as [Hr|[_ Hr]]; discriminate Hr.
Qed.

Theorem async_returned_not_handled m evs c :
  left_by_return (arun m evs) c -> ~ In c (hlog (arun m evs)).
Proof.
  intros Hc Hin. apply async_handled_iff_raised in Hin. destruct Hin as (w & n & Hin & Hr).
  assert (Hn : n <> NPark) by (destruct Hr as [->|[-> _]]; discriminate).
  destruct Hc as [[w' Hc]|Hc].
  - destruct (async_exit_once m evs c _ _ _ _ Hc Hin) as [E1 E2]; [discriminate|exact Hn|].
    subst. destruct Hr as [Hr|[Hr _]]; discriminate Hr.
  - destruct (async_exit_once m evs c _ _ _ _ Hc Hin) as [E1 E2]; [discriminate|exact Hn|].
    subst. destruct Hr as [Hr|[_ Hr]]; discriminate Hr.
Qed.

(* nothing propagates into the event loop: no task ever ends with an exception *)
Theorem async_no_task_exception m evs c d :
  ph (ast (arun m evs)) c = Done d \/ ph (ast (arun m evs)) c = Processed d -> d = DRet \/ d = DCanc.
Proof.
  intros H. pose proof (ai_ok m _ (async_ainv m evs) c) as Hok.
  destruct H as [H|H]; rewrite H in Hok; destruct d; cbn in Hok; try discriminate Hok; tauto.
Qed.

(* the task of a coroutine whose exception was handled has ended normally (or cancelled, when a
   cancellation was pending when the wrapper returned) *)
Theorem async_handled_task_done m evs c :
  In c (hlog (arun m evs)) ->
  exists d, (ph (ast (arun m evs)) c = Done d \/ ph (ast (arun m evs)) c = Processed d) /\ (d = DRet \/ d = DCanc).
Proof.
  intros Hin. rewrite async_handler_log_exact in Hin. apply in_map_iff in Hin.
  destruct Hin as (e & Hw & Hin). apply filter_In in Hin. destruct Hin as [Hin Hr].
  pose proof (ai_fin m _ (async_ainv m evs) e Hin (raise_is_exit e Hr)) as Hf. rewrite Hw in Hf.
  destruct (ph (ast (arun m evs)) c) eqn:Hp; try discriminate Hf; exists d;
    (split; [tauto|]); apply (async_no_task_exception m evs c d); rewrite Hp; tauto.
Qed.

(* ------------------------------------------------------------------------------------------- *)
(* 8. inherited from TaskMgrFacts.v through [async_mgr_unaffected] / [async_inv]                 *)

Theorem async_par_bound n p evs : length (tracked (ast (arun (MParLim n p) evs))) <= n.
Proof. apply (par_bound_inv n p). apply async_inv. Qed.

Theorem async_seq_queue_bound q p evs : length (queue (ast (arun (MSeqLim q p) evs))) <= q.
Proof. rewrite async_mgr_unaffected. apply seq_queue_bound. Qed.

Theorem async_seq_mutex m evs :
  is_seq m = true ->
  let s := ast (arun m evs) in
  (forall c, is_live (ph s c) = true <-> running s = Some c) /\
  (forall c c', is_live (ph s c) = true -> is_live (ph s c') = true -> c = c') /\
  (forall c c', body_open s c -> body_open s c' -> c = c').
Proof. intros Es. apply (seq_mutex_inv m); [exact Es|apply async_inv]. Qed.

Theorem async_conservation m evs : conservation_stmt (ast (arun m evs)).
Proof.
  rewrite async_mgr_unaffected. destruct (is_seq m) eqn:Es.
  - apply seq_conservation. exact Es.
  - apply par_conservation. destruct m; cbn in *; congruence.
Qed.

Lemma processed_released m s c d :
  Inv m s -> ph s c = Processed d -> ~ In c (tracked s) /\ running s <> Some c.
Proof.
  intros H Hp. destruct (is_seq m) eqn:Es.
  - destruct (seq_parts m s Es H) as (Hc & Hj & _ & _). split.
    + destruct (q_none _ _ _ _ _ _ _ Hj) as [-> _]. intros [].
    + intros Hr. pose proof (running_is_live s c Hj Hr) as Hl. rewrite Hp in Hl. discriminate.
  - assert (Ep : is_par m = true) by (destruct m; cbn in *; congruence).
    destruct (par_parts m s Ep H) as (Hc & Hi & _). split.
    + intros Hin. pose proof (p_trk _ _ _ _ _ Hi c Hin) as Hl. rewrite Hp in Hl. discriminate.
    + destruct (p_q _ _ _ _ _ Hi) as [_ ->]. discriminate.
Qed.

(* a failing task still frees its slot: once its exception is handled the task is done, its done-callbacks
   are in the ready queue; when they have run the task is neither tracked nor manager.task *)
Theorem async_failing_frees_slot m evs c :
  In c (hlog (arun m evs)) ->
  let s := ast (arun m evs) in
  (exists d, ph s c = Done d /\ In (HDone c) (ready s)) \/
  (exists d, ph s c = Processed d /\ ~ In c (tracked s) /\ running s <> Some c).
Proof.
  intros Hin. cbn zeta. destruct (async_handled_task_done m evs c Hin) as (d & [Hp|Hp] & _).
  - left. exists d. split; [exact Hp|]. apply (k_rd _ (proj1 (async_inv m evs))). rewrite Hp. reflexivity.
  - right. exists d. split; [exact Hp|]. exact (processed_released m _ c d (async_inv m evs) Hp).
Qed.

(* sequential managers keep going after a failure: running the done-callbacks of the finished task
   (whatever it did) starts the head of the queue *)
Theorem async_seq_next_starts m evs c r bs :
  is_seq m = true -> ready (ast (arun m evs)) = HDone c :: r ->
  let s := ast (arun m evs) in let s' := ast (arun m (evs ++ [Run bs])) in
  running s = Some c /\
  match queue s with
  | [] => running s' = None /\ queue s' = []
  | (c', k') :: q => running s' = Some c' /\ queue s' = q /\ ph s' c' = Created /\ In (HStep c') (ready s') /\
                     started s' = started s ++ [c']
  end.
Proof.
  intros Es Hr. cbn zeta. rewrite arun_snoc, astep_ast. cbn [wrap_event].
  destruct (seq_progress_inv m _ Es (async_inv m evs)) as [_ B]. exact (B c r _ Hr).
Qed.

(* parallel managers: the done-callbacks of a finished task (whatever it did) release it *)
Theorem async_par_release m evs c r bs :
  is_par m = true -> ready (ast (arun m evs)) = HDone c :: r ->
  let s' := ast (arun m (evs ++ [Run bs])) in
  ~ In c (tracked s') /\ (exists d, ph s' c = Processed d) /\
  length (tracked s') <= length (tracked (ast (arun m evs))).
Proof.
  intros Ep Hr. cbn zeta. rewrite arun_snoc, astep_ast. cbn [wrap_event].
  destruct (par_release_inv m _ Ep (async_inv m evs)) as (_ & _ & _ & D). exact (D c r _ Hr).
Qed.

(* ------------------------------------------------------------------------------------------- *)
(* 9. non-vacuity                                                                                *)

(* sequential manager: the first coroutine parks and returns, the second raises, the third parks and is
   cancelled.  Only the exception of the second is handled; no task ends with an exception; the queue
   is served to the end *)
Definition ex_evs : list event :=
  [Submit 0 0; Submit 1 0; Submit 2 0;
   Run [([], NPark)]; Resolve 0; Run [([], NFin)]; Run [];
   Run [([], NRaise)]; Run [];
   Run [([], NPark)]; CancelExt 2; Run [([], NFin)]; Run []].

Example ex_seq_park_raise_cancel :
  let a := arun MSeq ex_evs in
  hlog a = [1] /\
  ulog a = [(0, WRes, NPark); (0, WRes, NFin); (1, WRes, NRaise); (2, WRes, NPark); (2, WCanc, NFin)] /\
  ph (ast a) 0 = Processed DRet /\ ph (ast a) 1 = Processed DRet /\ ph (ast a) 2 = Processed DCanc /\
  running (ast a) = None /\ queue (ast a) = [] /\ started (ast a) = [0; 1; 2] /\ flag (ast a) = false.
Proof. vm_compute. repeat split; reflexivity. Qed.

(* the same run without the wrapper (TaskMgr.v): the task of the second coroutine ends with the exception *)
Example ex_seq_unwrapped :
  ph (run MSeq ex_evs) 1 = Processed DExc /\ ph (run MSeq ex_evs) 2 = Processed DCanc.
Proof. vm_compute. split; reflexivity. Qed.

(* what the task manager sees: the scripts of the wrapper *)
Example ex_wrapped_scripts :
  wrap_events MSeq init ex_evs =
  [Submit 0 0; Submit 1 0; Submit 2 0;
   Run [([], NPark)]; Resolve 0; Run [([], NRet)]; Run [];
   Run [([], NRet)]; Run [];
   Run [([], NPark)]; CancelExt 2; Run [([], NFin)]; Run []].
Proof. vm_compute. reflexivity. Qed.

(* the hypotheses of the theorems of section 7 are reachable in that run *)
Example ex_hypotheses :
  let a := arun MSeq ex_evs in
  left_by_exception a 1 /\ left_by_cancellation a 2 /\ left_by_return a 0 /\
  In 1 (hlog a) /\ ~ In 0 (hlog a) /\ ~ In 2 (hlog a).
Proof.
  cbn zeta. split; [exists WRes, NRaise; vm_compute; tauto|]. split; [vm_compute; tauto|].
  split; [right; vm_compute; tauto|]. vm_compute. repeat split; try tauto; intros [H|[]]; discriminate H.
Qed.

(* an exception delivered through the awaited future and let through by the user body is handled too;
   one the user body swallows is not *)
Example ex_fail_wakeup :
  let a := arun MPar [Submit 0 0; Submit 1 0; Tick [([], NPark); ([], NPark)]; Fail 0; Fail 1;
                      Tick [([], NFin); ([], NRet)]; Tick []] in
  hlog a = [0] /\ ph (ast a) 0 = Processed DRet /\ ph (ast a) 1 = Processed DRet /\ tracked (ast a) = [].
Proof. vm_compute. repeat split; reflexivity. Qed.

(* closed unstarted by the policy / cancelled before the first step: no user code, no handler call; the
   script [NRaise] is consumed by the coroutine that does run *)
Example ex_never_ran :
  let a := arun (MSeqLim 1 SSkip) [Submit 0 0; Submit 1 0; Submit 2 0; CancelExt 0; Run [([], NRaise)]; Run [];
                                   Run [([], NRaise)]; Run []] in
  closed (ast a) = [2] /\ ph (ast a) 0 = Processed DCanc /\ ent (ast a) 0 = false /\ ent (ast a) 2 = false /\
  hlog a = [1] /\ ulog a = [(1, WRes, NRaise)] /\ running (ast a) = None.
Proof. vm_compute. repeat split; reflexivity. Qed.

(* corner: the policy cancels the task that is executing (it submits from inside at the limit), then the
   user body raises: the exception is handled, the wrapper returns, and the task ends CANCELLED because a
   cancellation was pending when the coroutine returned.  So "handled" does not imply "ended normally",
   and a task that ended cancelled may have had its exception handled. *)
Example ex_raise_with_pending_cancel :
  let a := arun (MParLim 1 PCancelFirst) [Submit 0 0; Run [([(1, 0)], NRaise)]] in
  hlog a = [0] /\ ph (ast a) 0 = Done DCanc /\ mcanc (ast a) = [0] /\ tracked (ast a) = [1] /\
  ph (run (MParLim 1 PCancelFirst) [Submit 0 0; Run [([(1, 0)], NRaise)]]) 0 = Done DExc.
Proof. vm_compute. repeat split; reflexivity. Qed.

(* the hypotheses of the inherited theorems: a failed task's done-callbacks are at the head of the queue *)
Example ex_frees_slot :
  let a := arun (MParLim 1 PSkip) [Submit 0 0; Run [([], NRaise)]] in
  hlog a = [0] /\ ready (ast a) = [HDone 0] /\ tracked (ast a) = [0] /\
  let a' := arun (MParLim 1 PSkip) [Submit 0 0; Run [([], NRaise)]; Run []; Submit 1 0] in
  tracked (ast a') = [1] /\ ph (ast a') 0 = Processed DRet /\ ph (ast a') 1 = Created.
Proof. vm_compute. repeat split; reflexivity. Qed.
